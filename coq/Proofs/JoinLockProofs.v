(* Proofs/JoinLockProofs.v — C13, the handle's spinlock (Model/JoinLock.v): no task that is suspended or about to
   suspend owns the mtx_ of a pika::thread object; in a stuck state no handle lock is owned, nobody waits for one and
   every third-party member call has returned.  All task counts, programs, third-party call lists and schedules. *)
From Coq Require Import List Arith Bool Lia.
From Pika Require Import Base.Conc Base.Agent Model.Join Model.JoinLock Gen.GenJoin.
Import ListNotations.

Lemma unl_true : join_unlocks_before_wait = true.
Proof. reflexivity. Qed.   (* fails when thread::join() no longer releases mtx_ before its wait loop *)

Section JoinLockProofs.
  Variable tgt : nat -> nat -> nat.
  Notation bs := (bstep tgt).
  Notation lts := (ltstep true tgt).

  Lemma ipoint_ag p t g g' : ipoint_step p t g = Some g' -> ag g' = ag g.
  Proof. unfold ipoint_step. destruct (en g t && req g t); intros H; inversion H; reflexivity. Qed.

  Ltac dm := match goal with
             | |- context [match ?x with _ => _ end] => destruct x eqn:?
             end.

  Ltac ag_simpl :=
    repeat match goal with
           | H : ipoint_step _ _ _ = Some _ |- _ => apply ipoint_ag in H
           end;
    cbn [fst snd ag w_log w_req w_hid w_cbs w_ran w_term w_flag w_gen w_en w_stop w_ag w_bdone w_cbrun pc thrown unwind ended].

  (* a base step blocks nobody but the stepping task itself, and only at its suspension point *)
  Lemma bstep_blocked t g l u :
    blocked (ag g t) = false ->
    blocked (ag (fst (bs t g l)) u) = true ->
    blocked (ag g u) = true \/ (u = t /\ exists k d, pc l = PJoinSusp k d /\ pc (snd (bs t g l)) = PJoinWake k d).
  Proof.
    intros Hnb. unfold bstep, tstep. rewrite Hnb. destruct l as [p pr]. cbn [pc prog].
    destruct p; try (destruct pr as [|a pr]; [|destruct a]); repeat dm; ag_simpl.
    all: try (intros H; left; congruence).
    all: unfold set1; destruct (Nat.eqb u _) eqn:E; try (intros H; left; exact H).
    all: try (cbn; intros H; discriminate).
    all: try (apply Nat.eqb_eq in E; subst; cbn; intros H; left; congruence).
    all: try (intros H; right; split; [now apply Nat.eqb_eq|]; eauto).
  Qed.

  Record LInv (g : LG) (ls : locals LL) : Prop := {
    i_blk : forall u, blocked (ag (bg g) u) = true -> exists k d, pc (bl (ls u)) = PJoinWake k d;
    i_own : forall o k u, hlk g o k = Some u ->
              o = u /\ relock (ls u) = None /\ mayhold (pc (bl (ls u))) k = true }.

  Lemma inv_frame g ls t g' l' :
    LInv g ls ->
    (forall u, blocked (ag (bg g') u) = true ->
       (u <> t /\ blocked (ag (bg g) u) = true) \/ (u = t /\ exists k d, pc (bl l') = PJoinWake k d)) ->
    (forall o k u, hlk g' o k = Some u ->
       (u <> t /\ hlk g o k = Some u) \/ (u = t /\ o = t /\ relock l' = None /\ mayhold (pc (bl l')) k = true)) ->
    LInv g' (upd ls t l').
  Proof.
    intros [Hb Ho] HA HB. split.
    - intros u Hu. destruct (HA u Hu) as [[Hne H]|[-> H]].
      + rewrite upd_other by exact Hne. now apply Hb.
      + now rewrite upd_same.
    - intros o k u Hu. destruct (HB o k u Hu) as [[Hne H]|[-> [-> [H1 H2]]]].
      + rewrite upd_other by exact Hne. now apply Ho.
      + rewrite upd_same. auto.
  Qed.

  (* agents after a layer step whose base part is [bs t (bg g) l0] *)
  Lemma frameA t g l0 u (ls : locals LL) :
    LInv g ls -> blocked (ag (bg g) t) = false ->
    blocked (ag (fst (bs t (bg g) l0)) u) = true ->
    (u <> t /\ blocked (ag (bg g) u) = true) \/
    (u = t /\ exists k d, pc l0 = PJoinSusp k d /\ pc (snd (bs t (bg g) l0)) = PJoinWake k d).
  Proof.
    intros _ Hnb H. destruct (bstep_blocked t (bg g) l0 u Hnb H) as [H1|[-> H1]].
    - left. split; [|exact H1]. intros ->. congruence.
    - right. auto.
  Qed.

  Lemma holds_iff g t k : holds g t k = true <-> hlk g t k = Some t.
  Proof.
    unfold holds. destruct (hlk g t k) as [h|]; [|split; discriminate].
    split; [intros H; apply Nat.eqb_eq in H; now subst|intros H; inversion H; apply Nat.eqb_refl].
  Qed.

  Lemma free_iff g o k : lk_free g o k = true <-> hlk g o k = None.
  Proof. unfold lk_free. destruct (hlk g o k); split; congruence. Qed.

  Lemma set2_get {A} (f : nat -> nat -> A) x y v a b :
    set2 f x y v a b = if Nat.eqb a x && Nat.eqb b y then v else f a b.
  Proof. reflexivity. Qed.

  (* ---- program-counter facts of the base step (task not blocked) *)
  Lemma F1 t g l k : blocked (ag g t) = false -> needs_lock l = Some k ->
    is_joinip (pc (snd (bs t g l))) = true -> exists d, pc (snd (bs t g l)) = PJoinIP k d.
  Proof.
    intros Hnb. unfold bstep, tstep, needs_lock. rewrite Hnb. destruct l as [p pr]. cbn [pc prog].
    destruct p; try discriminate.
    - destruct pr as [|a pr]; [discriminate|]. destruct a; try discriminate; intros E; inversion E; subst;
        repeat dm; cbn; try discriminate; eauto.
    - intros E; inversion E; subst. repeat dm; cbn; try discriminate; eauto.
  Qed.

  Lemma F2 t g k d pr : blocked (ag g t) = false ->
    let r := bs t g (mkL (PJoinIP k d) pr) in pc (snd r) = PJoinAdd k d \/ pc (snd r) = PBody.
  Proof.
    intros Hnb. unfold bstep, tstep. rewrite Hnb. cbn [pc prog]. repeat dm; cbn; auto.
    unfold thrown, ended, unwind. destruct d; cbn; auto.
  Qed.

  Lemma F3 t g k d pr : blocked (ag g t) = false ->
    let r := bs t g (mkL (PJoinAdd k d) pr) in pc (snd r) = PJoinDet k d \/ pc (snd r) = PJoinChk k d false.
  Proof. intros Hnb. unfold bstep, tstep. rewrite Hnb. cbn [pc prog]. repeat dm; cbn; auto. Qed.

  Lemma F7 t g k d pr : blocked (ag g t) = false ->
    pc (snd (bs t g (mkL (PJoinDet k d) pr))) = PBody.
  Proof. intros Hnb. unfold bstep, tstep. rewrite Hnb. cbn [pc prog]. repeat dm; cbn; auto. Qed.

  Definition Bconcl (g : LG) t (g' : LG) (l' : LL) : Prop :=
    forall o k u, hlk g' o k = Some u ->
      (u <> t /\ hlk g o k = Some u) \/ (u = t /\ o = t /\ relock l' = None /\ mayhold (pc (bl l')) k = true).

  Lemma frameB_same g ls t (g' : LG) l' :
    LInv g ls -> hlk g' = hlk g ->
    (forall k, hlk g t k = Some t -> relock l' = None /\ mayhold (pc (bl l')) k = true) ->
    Bconcl g t g' l'.
  Proof.
    intros HI E Hk o k u H. rewrite E in H. destruct (Nat.eq_dec u t) as [->|Hne]; [right|left; auto].
    destruct (i_own _ _ HI _ _ _ H) as [-> _]. split; [reflexivity|]. split; [reflexivity|]. apply Hk. exact H.
  Qed.

  Lemma frameB_rel g ls t k0 (g1 : LG) l' :
    LInv g ls -> hlk g1 = hlk g -> (forall k, hlk g t k = Some t -> k = k0) ->
    Bconcl g t (w_hlk g1 t k0 None) l'.
  Proof.
    intros HI E Hk o k u H. cbn [hlk w_hlk] in H. rewrite set2_get, E in H.
    destruct (Nat.eqb o t && Nat.eqb k k0) eqn:Ec; [discriminate|].
    destruct (Nat.eq_dec u t) as [->|Hne]; [exfalso|left; auto].
    destruct (i_own _ _ HI _ _ _ H) as [-> _]. rewrite (Hk _ H), !Nat.eqb_refl in Ec. discriminate.
  Qed.

  Lemma frameB_acq g ls t k0 (g1 : LG) l' :
    LInv g ls -> hlk g1 = hlk g -> (forall k, hlk g t k <> Some t) ->
    relock l' = None -> mayhold (pc (bl l')) k0 = true ->
    Bconcl g t (w_hlk g1 t k0 (Some t)) l'.
  Proof.
    intros HI E Hn Hr Hm o k u H. cbn [hlk w_hlk] in H. rewrite set2_get, E in H.
    destruct (Nat.eqb o t && Nat.eqb k k0) eqn:Ec.
    - apply andb_true_iff in Ec. destruct Ec as [Eo Ek]. apply Nat.eqb_eq in Eo, Ek. subst. inversion H; subst. right. auto.
    - destruct (Nat.eq_dec u t) as [->|Hne]; [exfalso|left; auto].
      destruct (i_own _ _ HI _ _ _ H) as [-> _]. exact (Hn _ H).
  Qed.

  Lemma holds_nothing g ls t : LInv g ls -> (forall k, mayhold (pc (bl (ls t))) k = false) -> forall k, hlk g t k <> Some t.
  Proof. intros HI Hm k H. destruct (i_own _ _ HI _ _ _ H) as [_ [_ H2]]. rewrite Hm in H2. discriminate. Qed.

  Lemma holds_only g ls t k0 : LInv g ls -> (forall k, mayhold (pc (bl (ls t))) k = true -> k = k0) ->
    forall k, hlk g t k = Some t -> k = k0.
  Proof. intros HI Hm k H. destruct (i_own _ _ HI _ _ _ H) as [_ [_ H2]]. auto. Qed.

  (* A when the agents are unchanged *)
  Lemma frameA_same g t (g' : LG) (l' : LL) :
    blocked (ag (bg g) t) = false -> ag (bg g') = ag (bg g) ->
    forall u, blocked (ag (bg g') u) = true ->
      (u <> t /\ blocked (ag (bg g) u) = true) \/ (u = t /\ exists k d, pc (bl l') = PJoinWake k d).
  Proof. intros Hnb E u H. rewrite E in H. left. split; [intros ->; congruence|exact H]. Qed.

  Lemma lstep_inv : forall (o : unit) t g (ls : locals LL), LInv g ls ->
    LInv (fst (lts o t g (ls t))) (upd ls t (snd (lts o t g (ls t)))).
  Proof.
    intros o t g ls HI. unfold ltstep.
    destruct (blocked (ag (bg g) t)) eqn:Hnb.
    { cbn [fst snd]. apply (inv_frame g); [exact HI| |].
      - intros u H. destruct (Nat.eq_dec u t) as [->|Hne]; [right; split; [reflexivity|exact (i_blk _ _ HI _ H)]|left; auto].
      - eapply frameB_same; [exact HI|reflexivity|]. intros k H. destruct (i_own _ _ HI _ _ _ H) as [_ H2]. exact H2. }
    destruct (ls t) as [l0 rl hp hi] eqn:El. cbn [relock bl hops hint].
    assert (Hlt : forall k, hlk g t k = Some t -> rl = None /\ mayhold (pc l0) k = true).
    { intros k H. destruct (i_own _ _ HI _ _ _ H) as [_ H2]. rewrite El in H2. exact H2. }
    destruct rl as [kr|].
    { assert (Hn : forall k, hlk g t k <> Some t) by (intros k H; destruct (Hlt _ H); discriminate).
      destruct (lk_free g t kr); cbn [fst snd]; (apply (inv_frame g); [exact HI|apply frameA_same; [exact Hnb|reflexivity]|]);
        (eapply frameB_same; [exact HI|reflexivity|intros k H; destruct (Hn _ H)]). }
    destruct l0 as [p pr]. cbn [pc] in *.
    (* A: agents after a step whose base part is a base step of t *)
    Ltac doA t g ls HI Hnb :=
      let u := fresh "u" in let H := fresh "H" in let HH := fresh "HH" in
      intros u H; destruct (frameA t g _ u ls HI Hnb H) as [HH|[-> (?k & ?d & ?E1 & ?E2)]];
      [left; exact HH|right; split; [reflexivity|cbn [bl pc]; eauto]].
    Ltac sameA Hnb := apply frameA_same; [exact Hnb|reflexivity].
    Ltac nothingB HI Hn := eapply frameB_same; [exact HI|reflexivity|let k := fresh "k" in let H := fresh "H" in intros k H; destruct (Hn _ H)].
    Ltac mkHn Hlt := let k := fresh "k" in let H := fresh "H" in let H2 := fresh "H2" in
                     intros k H; destruct (Hlt _ H) as [_ H2]; cbn in H2; discriminate.
    destruct p.
    - (* PIdle: a third party *)
      assert (Hn : forall k, hlk g t k <> Some t) by mkHn Hlt.
      destruct hi as [[u0 stage]|].
      + cbn [fst snd]. apply (inv_frame g); [exact HI| |nothingB HI Hn].
        intros u H. destruct (frameA t g _ u ls HI Hnb H) as [HH|[-> (k & d & E1 & _)]]; [left; exact HH|].
        destruct stage; discriminate.
      + destruct hp as [|[o0 k0|o0 k0|o0 k0|u0] r]; repeat dm; cbn [fst snd];
          (apply (inv_frame g); [exact HI|sameA Hnb|nothingB HI Hn]).
    - (* PBody *)
      assert (Hn : forall k, hlk g t k <> Some t) by mkHn Hlt.
      destruct (needs_lock _) as [k0|] eqn:En.
      + destruct (lk_free g t k0) eqn:Ef.
        * destruct (is_joinip _) eqn:Ej; cbn [fst snd].
          -- apply (inv_frame g); [exact HI|doA t g ls HI Hnb|].
             destruct (F1 t (bg g) _ k0 Hnb En Ej) as [d0 Ed].
             eapply frameB_acq; [exact HI|reflexivity|exact Hn|reflexivity|]. cbn [bl]. rewrite Ed. cbn. apply Nat.eqb_refl.
          -- apply (inv_frame g); [exact HI|doA t g ls HI Hnb|nothingB HI Hn].
        * cbn [fst snd]. apply (inv_frame g); [exact HI|sameA Hnb|nothingB HI Hn].
      + unfold plain. cbn [fst snd bl hops hint]. apply (inv_frame g); [exact HI|doA t g ls HI Hnb|nothingB HI Hn].
    - (* PDtorStop *)
      assert (Hn : forall k0, hlk g t k0 <> Some t) by mkHn Hlt.
      unfold plain. cbn [fst snd bl hops hint]. apply (inv_frame g); [exact HI|doA t g ls HI Hnb|nothingB HI Hn].
    - (* PDtorJoin *)
      assert (Hn : forall k0, hlk g t k0 <> Some t) by mkHn Hlt.
      destruct (needs_lock _) as [k0|] eqn:En.
      + destruct (lk_free g t k0) eqn:Ef.
        * destruct (is_joinip _) eqn:Ej; cbn [fst snd].
          -- apply (inv_frame g); [exact HI|doA t g ls HI Hnb|].
             destruct (F1 t (bg g) _ k0 Hnb En Ej) as [d0 Ed].
             eapply frameB_acq; [exact HI|reflexivity|exact Hn|reflexivity|]. cbn [bl]. rewrite Ed. cbn. apply Nat.eqb_refl.
          -- apply (inv_frame g); [exact HI|doA t g ls HI Hnb|nothingB HI Hn].
        * cbn [fst snd]. apply (inv_frame g); [exact HI|sameA Hnb|nothingB HI Hn].
      + unfold plain. cbn [fst snd bl hops hint]. apply (inv_frame g); [exact HI|doA t g ls HI Hnb|nothingB HI Hn].
    - (* PJoinIP k d *)
      assert (Ho : forall k0, hlk g t k0 = Some t -> k0 = k).
      { intros k0 H. destruct (Hlt _ H) as [_ H2]. cbn in H2. apply Nat.eqb_eq in H2. auto. }
      destruct (is_joinadd _) eqn:Ea; cbn [fst snd].
      + apply (inv_frame g); [exact HI|doA t g ls HI Hnb|].
        eapply frameB_same; [exact HI|reflexivity|]. intros k0 H. split; [reflexivity|]. cbn [bl].
        destruct (F2 t (bg g) k d pr Hnb) as [E|E]; rewrite E in *; [cbn; rewrite (Ho _ H); apply Nat.eqb_refl|discriminate].
      + apply (inv_frame g); [exact HI|doA t g ls HI Hnb|].
        eapply frameB_rel; [exact HI|reflexivity|exact Ho].
    - (* PJoinAdd k d *)
      assert (Ho : forall k0, hlk g t k0 = Some t -> k0 = k).
      { intros k0 H. destruct (Hlt _ H) as [_ H2]. cbn in H2. apply Nat.eqb_eq in H2. auto. }
      unfold plain. cbn [fst snd bl hops hint]. apply (inv_frame g); [exact HI|doA t g ls HI Hnb|].
      eapply frameB_same; [exact HI|reflexivity|]. intros k0 H. split; [reflexivity|]. cbn [bl].
      rewrite (Ho _ H). destruct (F3 t (bg g) k d pr Hnb) as [E|E]; rewrite E; cbn; apply Nat.eqb_refl.
    - (* PJoinChk k d woken *)
      assert (Ho : forall k0, hlk g t k0 = Some t -> k0 = k).
      { intros k0 H. destruct (Hlt _ H) as [_ H2]. destruct woken; cbn in H2; [discriminate|]. apply Nat.eqb_eq in H2. auto. }
      destruct (holds g t k) eqn:Eh; cbn [andb fst snd].
      + apply (inv_frame g); [exact HI|sameA Hnb|]. eapply frameB_rel; [exact HI|reflexivity|exact Ho].
      + assert (Hn : forall k0, hlk g t k0 <> Some t).
        { intros k0 H. pose proof (Ho _ H). subst k0. apply holds_iff in H. congruence. }
        unfold plain. cbn [fst snd bl hops hint]. apply (inv_frame g); [exact HI|doA t g ls HI Hnb|nothingB HI Hn].
    - (* PJoinSusp *)
      assert (Hn : forall k0, hlk g t k0 <> Some t) by mkHn Hlt.
      destruct (holds g t k) eqn:Eh; [apply holds_iff in Eh; destruct (Hn _ Eh)|].
      destruct (is_body _) eqn:Eb; cbn [fst snd]; (apply (inv_frame g); [exact HI|doA t g ls HI Hnb|nothingB HI Hn]).
    - (* PJoinWake *)
      assert (Hn : forall k0, hlk g t k0 <> Some t) by mkHn Hlt.
      destruct (holds g t k) eqn:Eh; [apply holds_iff in Eh; destruct (Hn _ Eh)|].
      destruct (is_body _) eqn:Eb; cbn [fst snd]; (apply (inv_frame g); [exact HI|doA t g ls HI Hnb|nothingB HI Hn]).
    - (* PJoinDet k d *)
      assert (Ho : forall k0, hlk g t k0 = Some t -> k0 = k).
      { intros k0 H. destruct (Hlt _ H) as [_ H2]. cbn in H2. apply Nat.eqb_eq in H2. auto. }
      destruct (holds g t k) eqn:Eh; cbn [fst snd].
      + apply (inv_frame g); [exact HI|doA t g ls HI Hnb|]. eapply frameB_rel; [exact HI|reflexivity|exact Ho].
      + assert (Hn : forall k0, hlk g t k0 <> Some t).
        { intros k0 H. pose proof (Ho _ H). subst k0. apply holds_iff in H. congruence. }
        destruct (lk_free g t k); [unfold plain|]; cbn [fst snd bl hops hint].
        * apply (inv_frame g); [exact HI|doA t g ls HI Hnb|nothingB HI Hn].
        * apply (inv_frame g); [exact HI|sameA Hnb|nothingB HI Hn].
    - (* other *)
      assert (Hn : forall k0, hlk g t k0 <> Some t) by mkHn Hlt.
      unfold plain. cbn [fst snd bl hops hint]. apply (inv_frame g); [exact HI|doA t g ls HI Hnb|nothingB HI Hn].
    - (* other *)
      assert (Hn : forall k0, hlk g t k0 <> Some t) by mkHn Hlt.
      unfold plain. cbn [fst snd bl hops hint]. apply (inv_frame g); [exact HI|doA t g ls HI Hnb|nothingB HI Hn].
    - (* other *)
      assert (Hn : forall k0, hlk g t k0 <> Some t) by mkHn Hlt.
      unfold plain. cbn [fst snd bl hops hint]. apply (inv_frame g); [exact HI|doA t g ls HI Hnb|nothingB HI Hn].
    - (* other *)
      assert (Hn : forall k0, hlk g t k0 <> Some t) by mkHn Hlt.
      unfold plain. cbn [fst snd bl hops hint]. apply (inv_frame g); [exact HI|doA t g ls HI Hnb|nothingB HI Hn].
    - (* other *)
      assert (Hn : forall k0, hlk g t k0 <> Some t) by mkHn Hlt.
      unfold plain. cbn [fst snd bl hops hint]. apply (inv_frame g); [exact HI|doA t g ls HI Hnb|nothingB HI Hn].
    - (* other *)
      assert (Hn : forall k0, hlk g t k0 <> Some t) by mkHn Hlt.
      unfold plain. cbn [fst snd bl hops hint]. apply (inv_frame g); [exact HI|doA t g ls HI Hnb|nothingB HI Hn].
    - (* other *)
      assert (Hn : forall k0, hlk g t k0 <> Some t) by mkHn Hlt.
      unfold plain. cbn [fst snd bl hops hint]. apply (inv_frame g); [exact HI|doA t g ls HI Hnb|nothingB HI Hn].
    - (* other *)
      assert (Hn : forall k0, hlk g t k0 <> Some t) by mkHn Hlt.
      unfold plain. cbn [fst snd bl hops hint]. apply (inv_frame g); [exact HI|doA t g ls HI Hnb|nothingB HI Hn].
    - (* other *)
      assert (Hn : forall k0, hlk g t k0 <> Some t) by mkHn Hlt.
      unfold plain. cbn [fst snd bl hops hint]. apply (inv_frame g); [exact HI|doA t g ls HI Hnb|nothingB HI Hn].
  Qed.


  Lemma linv_init h0 n progs hprogs : LInv (lg_init h0) (ll_init n progs hprogs).
  Proof. split; cbn; intros; discriminate. Qed.

  Lemma linv_run h0 n progs hprogs sched :
    LInv (fst (ljrun true tgt h0 n progs hprogs sched)) (snd (ljrun true tgt h0 n progs hprogs sched)).
  Proof.
    unfold ljrun. apply (run_inv _ _ _ (ltstep true tgt) LInv).
    - intros o t g ls H. apply lstep_inv. exact H.
    - apply linv_init.
  Qed.

  (* what the owner of a handle lock looks like *)
  Lemma owner_shape g ls o k t : LInv g ls -> hlk g o k = Some t ->
    o = t /\ blocked (ag (bg g) t) = false /\ relock (ls t) = None /\ mayhold (pc (bl (ls t))) k = true.
  Proof.
    intros HI H. destruct (i_own _ _ HI _ _ _ H) as [-> [Hr Hm]]. repeat split; auto.
    destruct (blocked (ag (bg g) t)) eqn:Eb; [|reflexivity].
    destruct (i_blk _ _ HI _ Eb) as (k' & d & E). rewrite E in Hm. discriminate.
  Qed.

  Definition suspending (g : LG) (l : LL) (t : nat) : Prop :=
    blocked (ag (bg g) t) = true \/ (exists k d, pc (bl l) = PJoinSusp k d) \/ (exists k d, pc (bl l) = PJoinWake k d).

  Lemma no_suspend_holding g ls t : LInv g ls -> suspending g (ls t) t -> forall o k, hlk g o k <> Some t.
  Proof.
    intros HI Hs o k H. destruct (owner_shape _ _ _ _ _ HI H) as [_ [Hb [_ Hm]]].
    destruct Hs as [Hs|[(k' & d & E)|(k' & d & E)]]; [congruence|rewrite E in Hm; discriminate|rewrite E in Hm; discriminate].
  Qed.

  Lemma cons_neq {A} (x : A) r : r <> x :: r.
  Proof. intros E. apply (f_equal (@length A)) in E. cbn in E. lia. Qed.

  (* the owner of a handle lock can always take a step that changes the state *)
  Lemma owner_moves g ls o k t : LInv g ls -> hlk g o k = Some t -> lts tt t g (ls t) <> (g, ls t).
  Proof.
    intros HI H. destruct (owner_shape _ _ _ _ _ HI H) as [-> [Hb [Hr Hm]]].
    unfold ltstep. rewrite Hb. destruct (ls t) as [[p pr] rl hp hi]. cbn [relock bl pc] in *. subst rl.
    destruct p; try discriminate; cbn [mayhold] in Hm.
    - (* PJoinIP *) apply Nat.eqb_eq in Hm. subst k0. intros E. apply (f_equal (fun x => pc (bl (snd x)))) in E. cbn [snd bl pc] in E.
      destruct (F2 t (bg g) k d pr Hb) as [E2|E2]; rewrite E2 in E; discriminate.
    - (* PJoinAdd *) apply Nat.eqb_eq in Hm. subst k0. unfold plain. intros E. apply (f_equal (fun x => pc (bl (snd x)))) in E. cbn [snd bl pc] in E.
      destruct (F3 t (bg g) k d pr Hb) as [E2|E2]; rewrite E2 in E; discriminate.
    - (* PJoinChk *) destruct woken; [discriminate|]. apply Nat.eqb_eq in Hm. subst k0.
      pose proof (proj2 (holds_iff g t k) H) as Hh. rewrite Hh. cbn [andb].
      intros E. apply (f_equal (fun x => hlk (fst x) t k)) in E. cbn [fst hlk w_hlk] in E. rewrite set2_get, !Nat.eqb_refl in E.
      cbn in E. congruence.
    - (* PJoinDet *) apply Nat.eqb_eq in Hm. subst k0.
      pose proof (proj2 (holds_iff g t k) H) as Hh. rewrite Hh.
      intros E. apply (f_equal (fun x => pc (bl (snd x)))) in E. cbn [snd bl pc] in E.
      rewrite (F7 t (bg g) k d pr Hb) in E. discriminate.
  Qed.

  Lemma stuck_no_owner g ls : LInv g ls -> lstuck true tgt (g, ls) -> forall o k, hlk g o k = None.
  Proof.
    intros HI Hst o k. destruct (hlk g o k) as [t|] eqn:E; [|reflexivity].
    exfalso. exact (owner_moves _ _ _ _ _ HI E (Hst t)).
  Qed.

  Lemma no_owner_no_waiter g t l : (forall o k, hlk g o k = None) -> waits_for g t l = None.
  Proof.
    intros Hf. assert (F : forall o k, lk_free g o k = true) by (intros; apply free_iff; apply Hf).
    unfold waits_for. repeat rewrite F. repeat dm; try reflexivity; rewrite ?F, ?orb_true_r in *; try discriminate; try reflexivity.
  Qed.

  Lemma stuck_calls_returned g ls t : LInv g ls -> lstuck true tgt (g, ls) ->
    pc (bl (ls t)) = PIdle -> calls_returned (ls t) = true /\ relock (ls t) = None.
  Proof.
    intros HI Hst Hp. pose proof (stuck_no_owner _ _ HI Hst) as Hf.
    assert (F : forall o k, lk_free g o k = true) by (intros; apply free_iff; apply Hf).
    assert (Hb : blocked (ag (bg g) t) = false).
    { destruct (blocked (ag (bg g) t)) eqn:Eb; [|reflexivity]. destruct (i_blk _ _ HI _ Eb) as (k' & d & E). congruence. }
    specialize (Hst t). cbn [fst snd] in Hst. unfold ltstep in Hst. rewrite Hb in Hst.
    destruct (ls t) as [[p pr] rl hp hi]. cbn [relock bl pc hops hint] in *. subst p.
    destruct rl as [kr|].
    { rewrite F in Hst. inversion Hst. }
    unfold calls_returned. cbn [hops hint].
    destruct hi as [[u stage]|].
    { exfalso. apply (f_equal (fun x => hint (snd x))) in Hst. cbn [snd hint] in Hst.
      destruct stage; cbn [negb andb] in Hst; [discriminate|]. destruct (is_intrwake _); discriminate. }
    destruct hp as [|[o0 k0|o0 k0|o0 k0|u0] r]; [split; reflexivity| | | |]; exfalso; rewrite ?F in Hst.
    - apply (f_equal (fun x => hops (snd x))) in Hst. cbn in Hst. exact (cons_neq _ _ Hst).
    - apply (f_equal (fun x => hops (snd x))) in Hst. cbn in Hst. exact (cons_neq _ _ Hst).
    - destruct (hid (bg g) o0 k0); apply (f_equal (fun x => hops (snd x))) in Hst; cbn in Hst; exact (cons_neq _ _ Hst).
    - apply (f_equal (fun x => hops (snd x))) in Hst. cbn in Hst. exact (cons_neq _ _ Hst).
  Qed.
End JoinLockProofs.

(* ------------------------------------------------------------------ the statements, for the source's locking shape *)
Theorem no_suspend_holding_handle_lock tgt h0 n progs hprogs sched :
  let c := ljrun join_unlocks_before_wait tgt h0 n progs hprogs sched in
  (forall o k t, hlk (fst c) o k = Some t ->
     o = t /\ blocked (ag (bg (fst c)) t) = false /\ relock (snd c t) = None /\ mayhold (pc (bl (snd c t))) k = true) /\
  (forall t, suspending (fst c) (snd c t) t -> forall o k, hlk (fst c) o k <> Some t).
Proof.
  rewrite unl_true. cbv zeta. pose proof (linv_run tgt h0 n progs hprogs sched) as HI. split.
  - intros o k t H. exact (owner_shape _ _ _ _ _ HI H).
  - intros t Hs. exact (no_suspend_holding _ _ _ HI Hs).
Qed.

Theorem handle_calls_return_during_join tgt h0 n progs hprogs sched :
  let c := ljrun join_unlocks_before_wait tgt h0 n progs hprogs sched in
  lstuck join_unlocks_before_wait tgt c ->
  (forall o k, hlk (fst c) o k = None) /\
  (forall t, waits_for (fst c) t (snd c t) = None) /\
  (forall t, pc (bl (snd c t)) = PIdle -> calls_returned (snd c t) = true).
Proof.
  rewrite unl_true. cbv zeta. pose proof (linv_run tgt h0 n progs hprogs sched) as HI. intros Hst.
  assert (Hst' : lstuck true tgt (fst (ljrun true tgt h0 n progs hprogs sched), snd (ljrun true tgt h0 n progs hprogs sched))) by exact Hst.
  pose proof (stuck_no_owner tgt _ _ HI Hst') as Hf. split; [exact Hf|]. split.
  - intros t. apply no_owner_no_waiter. exact Hf.
  - intros t Hp. exact (proj1 (stuck_calls_returned tgt _ _ t HI Hst' Hp)).
Qed.


(* ------------------------------------------------------------------ witnesses *)
Section Stutter.
  Variables (unl : bool) (tgt : nat -> nat -> nat).

  (* a thread that waits for a handle lock does not move (the spinlock spins) *)
  Lemma waiter_stutters g t l x : waits_for g t l = Some x -> ltstep unl tgt tt t g l = (g, l).
  Proof.
    unfold waits_for, ltstep. destruct l as [[p pr] rl hp hi]. cbn [relock bl pc hops hint].
    destruct (blocked (ag (bg g) t)); [discriminate|].
    destruct rl as [kr|]; [destruct (lk_free g t kr); [discriminate|reflexivity]|].
    destruct p; try discriminate.
    - destruct hi; [discriminate|]. destruct hp as [|[o k|o k|o k|u] r]; try discriminate;
        destruct (lk_free g o k); try discriminate; reflexivity.
    - destruct (needs_lock _) as [k|]; [|discriminate]. destruct (lk_free g t k); [discriminate|reflexivity].
    - destruct (needs_lock _) as [k0|]; [|discriminate]. destruct (lk_free g t k0); [discriminate|reflexivity].
    - destruct (holds g t k); [discriminate|]. destruct (lk_free g t k); [discriminate|reflexivity].
  Qed.

  Lemma blocked_stutters g t l : blocked (ag (bg g) t) = true -> ltstep unl tgt tt t g l = (g, l).
  Proof. intros H. unfold ltstep. now rewrite H. Qed.

  Lemma idle_stutters g t pr : ltstep unl tgt tt t g (mkLL (mkL PIdle pr) None [] None) = (g, mkLL (mkL PIdle pr) None [] None).
  Proof. unfold ltstep. destruct (blocked (ag (bg g) t)); reflexivity. Qed.

  Lemma run_untouched sched (c : LG * locals LL) t :
    ~ In t (map fst sched) -> snd (run (ltstep unl tgt) sched c) t = snd c t.
  Proof.
    revert c. induction sched as [|[u o] s IH]; intros c Hn; [reflexivity|].
    rewrite run_cons, IH by (intros H; apply Hn; right; exact H).
    unfold step. destruct (ltstep unl tgt o u (fst c) (snd c u)). cbn [snd].
    apply upd_other. intros ->. apply Hn. left. reflexivity.
  Qed.
End Stutter.

(* task 0 = joiner J (handle (0,0) -> task 1), task 1 = target, blocked for ever in an interruptible wait (a join on
   something that never terminates), thread 2 = third party calling an observer and then interrupt() on J's handle *)
Definition w_tgt (t k : nat) : nat := match t with 0 => 1 | _ => 5 end.
Definition w_progs (t : nat) : list act := [AJoin 0].
Definition w_hprogs (t : nat) : list hop := match t with 2 => [HObs 0 0; HIntr 0 0] | _ => [] end.
Definition rep (t k : nat) : list (nat * unit) := repeat (t, tt) k.

(* join() keeps mtx_ while it waits (the shape Gen.join_unlocks_before_wait = false): J is suspended owning the lock of
   its handle, the third party's first call spins for ever, the interrupt is never issued, nothing can move *)
Definition w_sched_held : list (nat * unit) := rep 1 5 ++ rep 0 5 ++ rep 2 3.
Lemma witness_lock_held_across_suspend :
  let c := ljrun false w_tgt (fun _ _ => true) 2 w_progs w_hprogs w_sched_held in
  hlk (fst c) 0 0 = Some 0 /\ blocked (ag (bg (fst c)) 0) = true /\ blocked (ag (bg (fst c)) 1) = true /\
  waits_for (fst c) 2 (snd c 2) = Some (0, 0) /\ hops (snd c 2) = [HObs 0 0; HIntr 0 0] /\
  lstuck false w_tgt c.
Proof.
  cbv zeta.
  assert (H0 : blocked (ag (bg (fst (ljrun false w_tgt (fun _ _ => true) 2 w_progs w_hprogs w_sched_held))) 0) = true) by (vm_compute; reflexivity).
  assert (H1 : blocked (ag (bg (fst (ljrun false w_tgt (fun _ _ => true) 2 w_progs w_hprogs w_sched_held))) 1) = true) by (vm_compute; reflexivity).
  assert (H2 : waits_for (fst (ljrun false w_tgt (fun _ _ => true) 2 w_progs w_hprogs w_sched_held)) 2
                 (snd (ljrun false w_tgt (fun _ _ => true) 2 w_progs w_hprogs w_sched_held) 2) = Some (0, 0)) by (vm_compute; reflexivity).
  repeat split; try assumption; try (vm_compute; reflexivity).
  intros t. cbn [fst snd]. destruct t as [|[|[|t]]].
  - apply blocked_stutters. exact H0.
  - apply blocked_stutters. exact H1.
  - eapply waiter_stutters. exact H2.
  - unfold ljrun. rewrite run_untouched by (vm_compute; intuition discriminate).
    cbn [snd]. unfold ll_init, l_init, w_hprogs. cbn [Nat.ltb Nat.leb]. apply idle_stutters.
Qed.

(* the source's shape: same programs; every call returns, the target is interrupted, the join returns *)
Definition w_sched_ok : list (nat * unit) := rep 1 6 ++ rep 0 6 ++ rep 2 4 ++ rep 1 12 ++ rep 0 9.
Lemma witness_unlocked_returns :
  let c := ljrun true w_tgt (fun _ _ => true) 2 w_progs w_hprogs w_sched_ok in
  calls_returned (snd c 2) = true /\ pc (bl (snd c 0)) = PDone /\ pc (bl (snd c 1)) = PDone /\
  log (bg (fst c)) = [EBodyDone 0; EJoinRet 0 0; EBodyDone 1; EIntrAt 1 IPSuspendPost true; EIntrReq 2 1] /\
  hlog (fst c) = [HObserved 2 0 0 true] /\ hlk (fst c) 0 0 = None.
Proof. cbv zeta. repeat split; vm_compute; reflexivity. Qed.
