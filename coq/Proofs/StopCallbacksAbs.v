(* Proofs/StopCallbacksAbs.v — the stop_callback part of C14 over Model/StopState.v (abstract layer):
   every callback is invoked at most once / exactly once, never after its destructor returned,
   and the destructor waits for a callback running on another thread but not on its own.
   Unbounded: all thread counts, programs, callback bodies (nested frames), schedules and
   spurious weak-CAS failures; induction with Base/Conc.v [run_inv].

   Structure: (1) an abstract transition relation [gstep] on the callback-relevant part of the
   shared state (rely/guarantee style, one constructor per kind of change, guarded by what the
   stepping thread knows); (2) the shared invariant GI2 is preserved by gstep, and every
   thread-local fact of the OTHER threads is stable under gstep; (3) every concrete step of
   st_tstep is a gstep and re-establishes the stepping thread's local invariant. *)
From Coq Require Import List NArith Bool Arith Lia.
From Pika Require Import Base.Conc Gen.GenStopBits Model.StopWord Model.StopState
  Proofs.StopFlagsProofs Proofs.StopStateProofs.
Import ListNotations.

(* Distinct model threads are told apart by the identity test of remove_callback: live pika
   threads have distinct pika ids, threads without a pika id have distinct OS ids. *)
Definition ids_faithful (P : params) : Prop :=
  forall t1 t2,
    match pika_id P t1, pika_id P t2 with
    | Some a, Some b => a = b -> t1 = t2
    | None, None => os_id P t1 = os_id P t2 -> t1 = t2
    | _, _ => True
    end.

Lemma NoDup_remove_nat c l : NoDup l -> NoDup (remove Nat.eq_dec c l).
Proof.
  induction 1 as [|x l Hx Hl IH]; cbn; [constructor|].
  destruct (Nat.eq_dec c x); [assumption|]. constructor; [|assumption].
  intros H'. apply in_remove in H'. tauto.
Qed.

(* ---------------- thread-local facts about one callback ---------------- *)
Definition A1 (g : shared) (c t : nat) : Prop :=
  cb_ctor (cb g c) = 1 /\ cb_cthr (cb g c) = Some t /\ cb_runs (cb g c) = 0 /\
  cb_queued (cb g c) = false /\ cb_deq (cb g c) = false.
Definition A2 (g : shared) (c t : nat) : Prop :=
  cb_ctor (cb g c) = 1 /\ cb_cthr (cb g c) = Some t /\ cb_queued (cb g c) = true.
Definition FA (g : shared) (c t : nat) : Prop :=
  cb_ctor (cb g c) = 1 /\ cb_cthr (cb g c) = Some t /\ cb_runs (cb g c) = 1 /\
  cb_queued (cb g c) = false /\ cb_deq (cb g c) = false.
Definition A4 (g : shared) (c t : nat) : Prop :=
  cb_ctor (cb g c) = 1 /\ cb_cthr (cb g c) = Some t /\ cb_queued (cb g c) = false /\
  cb_deq (cb g c) = false /\ cb_running (cb g c) = None.
Definition B1 (g : shared) (c t : nat) : Prop :=
  cb_deq (cb g c) = true /\ cb_runs (cb g c) = 0 /\ winner g = Some t.
Definition B2 (g : shared) (c : nat) : Prop :=
  cb_deq (cb g c) = true /\ cb_runs (cb g c) = 1.
Definition D1 (g : shared) (c : nat) : Prop :=
  cb_ctor (cb g c) = 2 /\ cb_reg (cb g c) = true /\ 1 <= cb_dtor (cb g c).
Definition D2 (g : shared) (c : nat) : Prop :=
  D1 g c /\ cb_queued (cb g c) = false /\ cb_deq (cb g c) = false.
Definition D3 (g : shared) (c : nat) : Prop := D1 g c /\ cb_queued (cb g c) = false.
Definition D4 (g : shared) (c t : nat) : Prop := D3 g c /\ winner g <> Some t.
Definition D5 (g : shared) (c t : nat) : Prop :=
  cb_ctor (cb g c) = 2 /\ cb_queued (cb g c) = false /\
  (cb_deq (cb g c) = true -> cb_runs (cb g c) = 1) /\
  (cb_running (cb g c) = None \/ cb_running (cb g c) = Some t).

(* ---------------- shared invariant ---------------- *)
Definition CI (g : shared) (c : nat) : Prop :=
  let r := cb g c in
  cb_runs r <= 1 /\
  (1 <= cb_dtor r -> cb_ctor r = 2) /\
  (cb_queued r = true -> 1 <= cb_ctor r /\ cb_runs r = 0 /\ cb_deq r = false /\
                         (cb_ctor r = 2 -> cb_reg r = true)) /\
  (cb_deq r = true -> 1 <= cb_ctor r /\ winner g <> None) /\
  (cb_ctor r = 2 -> cb_reg r = true -> cb_queued r = true \/ cb_deq r = true \/ 1 <= cb_dtor r) /\
  (cb_ctor r = 2 -> cb_reg r = false ->
     cb_queued r = false /\ cb_deq r = false /\ cb_running r = None) /\
  (cb_finished r = true -> cb_runs r = 1 /\ cb_running r = None) /\
  (forall x, cb_running r = Some x -> cb_runs r = 1 /\
     ((cb_ctor r = 1 /\ cb_cthr r = Some x) \/ (cb_deq r = true /\ winner g = Some x))) /\
  (cb_dtor r = 2 -> cb_queued r = false /\ (cb_deq r = true -> cb_runs r = 1)) /\
  (cb_ctor r = 0 -> cb_runs r = 0 /\ cb_queued r = false /\ cb_deq r = false).

Definition sigs_ok (P : params) (g : shared) : Prop :=
  match winner g with
  | Some w => sig_pika g = pika_id P w /\ sig_os g = Some (os_id P w)
  | None => sig_pika g = None /\ sig_os g = None
  end.

Definition GI2 (P : params) (g : shared) : Prop :=
  NoDup (cbs g) /\
  (forall c, In c (cbs g) <-> cb_queued (cb g c) = true) /\
  sigs_ok P g /\
  (winner_ret g = true -> cbs g = []) /\
  (winner_ret g = true -> forall c, cb_deq (cb g c) = true -> cb_runs (cb g c) = 1) /\
  bad_run_after_dtor g = false /\ bad_dtor_during_run g = false /\
  forall c, CI g c.

(* ---------------- abstract transitions of the callback-relevant shared state ---------------- *)
Definition chg (g g' : shared) (l : list nat) (f : nat -> cbrec) (w : option nat) (r : bool)
  (sp so : option nat) (b1 b2 : bool) : Prop :=
  cbs g' = l /\ cb g' = f /\ winner g' = w /\ winner_ret g' = r /\
  sig_pika g' = sp /\ sig_os g' = so /\ bad_run_after_dtor g' = b1 /\ bad_dtor_during_run g' = b2.
Definition chgcb (g g' : shared) (c : nat) (r' : cbrec) : Prop :=
  chg g g' (cbs g) (upd (cb g) c r') (winner g) (winner_ret g) (sig_pika g) (sig_os g)
      (bad_run_after_dtor g) (bad_dtor_during_run g).
Definition dviol (g : shared) (c t : nat) : bool :=
  match cb_running (cb g c) with Some t' => negb (Nat.eqb t' t) | None => false end.

Inductive gstep (P : params) (t : nat) (g g' : shared) : option nat -> Prop :=
| G_same :
    chg g g' (cbs g) (cb g) (winner g) (winner_ret g) (sig_pika g) (sig_os g)
        (bad_run_after_dtor g) (bad_dtor_during_run g) -> gstep P t g g' None
| G_ctor_start c :
    cb_ctor (cb g c) = 0 -> chgcb g g' c (ccthr (cctor (cb g c) 1 false) (Some t)) ->
    gstep P t g g' None
| G_push c :
    holder g = None -> winner g = None -> winner_ret g = false -> A1 g c t ->
    chg g g' (c :: cbs g) (upd (cb g) c (cq (cb g c) true)) (winner g) (winner_ret g)
        (sig_pika g) (sig_os g) (bad_run_after_dtor g) (bad_dtor_during_run g) ->
    gstep P t g g' None
| G_ctor_ret_reg c :
    holder g = Some t -> A2 g c t -> chgcb g g' c (cctor (cb g c) 2 true) -> gstep P t g g' None
| G_abegin c :
    A1 g c t ->
    chg g g' (cbs g) (upd (cb g) c (centered (cb g c) t true)) (winner g) (winner_ret g)
        (sig_pika g) (sig_os g) (bad_run_after_dtor g || Nat.eqb (cb_dtor (cb g c)) 2)
        (bad_dtor_during_run g) -> gstep P t g g' None
| G_aend c :
    FA g c t -> chgcb g g' c (cleft (cfin (cb g c) true)) -> gstep P t g g' None
| G_ctor_ret_noreg c :
    A4 g c t -> chgcb g g' c (cctor (cb g c) 2 false) -> gstep P t g g' (Some c)
| G_win_e :
    holder g = None -> winner g = None -> winner_ret g = false -> cbs g = [] ->
    chg g g' [] (cb g) (Some t) false (pika_id P t) (Some (os_id P t))
        (bad_run_after_dtor g) (bad_dtor_during_run g) -> gstep P t g g' None
| G_win_d c rest :
    holder g = None -> winner g = None -> winner_ret g = false -> cbs g = c :: rest ->
    chg g g' rest (upd (cb g) c (cdeq (cq (cb g c) false) true)) (Some t) false
        (pika_id P t) (Some (os_id P t)) (bad_run_after_dtor g) (bad_dtor_during_run g) ->
    gstep P t g g' None
| G_deq c rest :
    holder g = None -> winner g = Some t -> winner_ret g = false -> cbs g = c :: rest ->
    chg g g' rest (upd (cb g) c (cdeq (cq (cb g c) false) true)) (winner g) (winner_ret g)
        (sig_pika g) (sig_os g) (bad_run_after_dtor g) (bad_dtor_during_run g) ->
    gstep P t g g' None
| G_qbegin c :
    B1 g c t ->
    chg g g' (cbs g) (upd (cb g) c (centered (cisrem (cb g c) (Some t)) t false)) (winner g)
        (winner_ret g) (sig_pika g) (sig_os g)
        (bad_run_after_dtor g || Nat.eqb (cb_dtor (cb g c)) 2) (bad_dtor_during_run g) ->
    gstep P t g g' None
| G_qend1 c : B2 g c -> chgcb g g' c (cleft (cb g c)) -> gstep P t g g' None
| G_qend2 c :
    B2 g c -> chgcb g g' c (cleft (cfin (cisrem (cb g c) None) true)) -> gstep P t g g' None
| G_final :
    winner g = Some t -> cbs g = [] ->
    (forall c, cb_deq (cb g c) = true -> cb_runs (cb g c) = 1) ->
    chg g g' (cbs g) (cb g) (winner g) true (sig_pika g) (sig_os g)
        (bad_run_after_dtor g) (bad_dtor_during_run g) -> gstep P t g g' None
| G_dtor_start c :
    cb_ctor (cb g c) = 2 -> cb_dtor (cb g c) = 0 -> cb_reg (cb g c) = true ->
    chgcb g g' c (cdtor (cb g c) 1) -> gstep P t g g' None
| G_unqueue c :
    holder g = None -> D1 g c -> cb_queued (cb g c) = true ->
    chg g g' (remove Nat.eq_dec c (cbs g)) (upd (cb g) c (cq (cb g c) false)) (winner g)
        (winner_ret g) (sig_pika g) (sig_os g) (bad_run_after_dtor g) (bad_dtor_during_run g) ->
    gstep P t g g' None
| G_dtor_ret c :
    D5 g c t ->
    chg g g' (cbs g) (upd (cb g) c (cdtor (cb g c) 2)) (winner g) (winner_ret g)
        (sig_pika g) (sig_os g) (bad_run_after_dtor g) (bad_dtor_during_run g || dviol g c t) ->
    gstep P t g g' None.

Ltac unchg :=
  match goal with
  | H : chgcb _ _ _ _ |- _ => unfold chgcb in H
  | _ => idtac
  end;
  match goal with
  | H : chg _ _ _ _ _ _ _ _ _ _ |- _ =>
      destruct H as (Ecbs & Ecb & Ewin & Eret & Esp & Eso & Eb1 & Eb2)
  end.

Ltac unat := unfold A1, A2, FA, A4, B1, B2, D5, D4, D3, D2, D1 in *.

Ltac cbsel c0 c :=
  unfold upd; destruct (Nat.eqb_spec c0 c) as [->|].

Ltac cbf := cbn [cb_queued cb_finished cb_isrem cb_runs cb_running cb_ctor cb_reg cb_dtor cb_inctor
                  cb_cthr cb_deq cq cfin cisrem centered cleft cctor cdtor ccthr cdeq] in *.

Lemma CI_irrel g g' c :
  cb g' c = cb g c -> (winner g = winner g' \/ (winner g = None)) -> CI g c -> CI g' c.
Proof.
  unfold CI. cbv zeta. intros E Hw. rewrite E.
  intros (C1 & C2 & C3 & C4 & C5 & C6 & C7 & C8 & C10 & C11).
  assert (W1 : winner g <> None -> winner g' <> None).
  { destruct Hw as [Hw|Hw]; [now rewrite <- Hw|]. intros X. now elim X. }
  assert (W2 : forall x, winner g = Some x -> winner g' = Some x).
  { destruct Hw as [Hw|Hw]; [now rewrite <- Hw|]. rewrite Hw. discriminate. }
  refine (conj C1 (conj C2 (conj C3 (conj _ (conj C5 (conj C6 (conj C7 (conj _ (conj C10 C11))))))))).
  - intros H. destruct (C4 H). split; [assumption|now apply W1].
  - intros x H. destruct (C8 x H) as [K1 [K|[K2 K3]]]; split; try assumption; [now left|right].
    split; [assumption|now apply W2].
Qed.

Lemma sigs_same P g g' :
  winner g' = winner g -> sig_pika g' = sig_pika g -> sig_os g' = sig_os g ->
  sigs_ok P g -> sigs_ok P g'.
Proof. unfold sigs_ok. intros -> -> ->. tauto. Qed.

Lemma sigs_win P (g' : shared) t :
  winner g' = Some t -> sig_pika g' = pika_id P t -> sig_os g' = Some (os_id P t) -> sigs_ok P g'.
Proof. unfold sigs_ok. intros -> -> ->. tauto. Qed.


Ltac gi2split := split; [|split; [|split; [|split; [|split; [|split; [|split]]]]]].

Lemma GI2_cbupd P g g' c r' :
  GI2 P g -> cbs g' = cbs g -> cb g' = upd (cb g) c r' -> winner g' = winner g ->
  winner_ret g' = winner_ret g -> sig_pika g' = sig_pika g -> sig_os g' = sig_os g ->
  bad_run_after_dtor g' = false -> bad_dtor_during_run g' = false ->
  cb_queued r' = cb_queued (cb g c) ->
  (winner_ret g = true -> cb_deq r' = true -> cb_runs r' = 1) ->
  CI g' c -> GI2 P g'.
Proof.
  intros (HND & HQ & HSG & HR4 & HR5 & HB1 & HB2 & HC) Ecbs Ecb Ewin Eret Esp Eso Eb1 Eb2 Eq Ed HCc.
  unfold GI2. rewrite Ecbs, Eret. gi2split; try assumption.
  - intros c0. rewrite Ecb. unfold upd. destruct (Nat.eqb_spec c0 c) as [->|]; [|apply HQ].
    rewrite Eq. apply HQ.
  - eapply sigs_same; eauto.
  - intros Hr c0. rewrite Ecb. unfold upd. destruct (Nat.eqb_spec c0 c) as [->|]; [|now apply HR5].
    now apply Ed.
  - intros c0. destruct (Nat.eqb_spec c0 c) as [->|]; [exact HCc|].
    apply (CI_irrel g); [rewrite Ecb; now apply upd_other|left; congruence|apply HC].
Qed.

Ltac ci_open HC c Ecb Ewin :=
  generalize (HC c); unfold CI; cbv zeta; rewrite Ecb, ?Ewin, upd_same; cbf;
  intros (C1 & C2 & C3 & C4 & C5 & C6 & C7 & C8 & C10 & C11).

Ltac ci_fin := repeat split; intros; subst; try tauto; try lia; try congruence;
  try solve [intuition (try lia; try congruence)];
  try match goal with
      | C8 : forall x, cb_running _ = Some x -> _, Hx : cb_running _ = Some ?x |- _ =>
          destruct (C8 x Hx) as [? [[? ?]|[? ?]]]
      end; try tauto; try lia; try congruence; try solve [intuition (try lia; try congruence)].

Theorem gstep_GI2 P t g g' lab : gstep P t g g' lab -> GI2 P g -> GI2 P g'.
Proof.
  intros HS HG. pose proof HG as (HND & HQ & HSG & HR4 & HR5 & HB1 & HB2 & HC).
  destruct HS; unchg.
  - (* same *)
    unfold GI2. rewrite Ecbs, Eret, Eb1, Eb2, Ecb. gi2split; try assumption.
    + eapply sigs_same; eauto.
    + intros c. apply (CI_irrel g); [now rewrite Ecb|left; congruence|apply HC].
  - (* ctor_start *)
    eapply (GI2_cbupd P g g' c); [exact HG|exact Ecbs|exact Ecb|exact Ewin|exact Eret|exact Esp|exact Eso|congruence|congruence|cbf; reflexivity| cbf | ].
    + intros Hr. now apply HR5.
    + ci_open HC c Ecb Ewin. destruct (C11 H) as (K1 & K2 & K3).
      assert (cb_running (cb g c) = None).
      { destruct (cb_running (cb g c)) eqn:E; [|reflexivity]. destruct (C8 n eq_refl). lia. }
      assert (cb_dtor (cb g c) = 0) by (destruct (cb_dtor (cb g c)); [reflexivity|]; assert (cb_ctor (cb g c) = 2) by (apply C2; lia); lia).
      ci_fin.
  - (* push *)
    destruct H2 as (K1 & K2 & K3 & K4 & K5).
    unfold GI2. rewrite Ecbs, Eret, Eb1, Eb2. gi2split; try assumption.
    + constructor; [|assumption]. rewrite HQ. congruence.
    + intros c0. rewrite Ecb. unfold upd. destruct (Nat.eqb_spec c0 c) as [->|]; cbf.
      * split; [reflexivity|now left].
      * split; [intros [E|I]; [congruence|now apply HQ]|intros I; right; now apply HQ].
    + eapply sigs_same; eauto.
    + congruence.
    + congruence.
    + intros c0. destruct (Nat.eqb_spec c0 c) as [->|].
      * ci_open HC c Ecb Ewin.
        assert (cb_running (cb g c) = None).
        { destruct (cb_running (cb g c)) eqn:E; [|reflexivity]. destruct (C8 n eq_refl). lia. }
        assert (cb_finished (cb g c) = false).
        { destruct (cb_finished (cb g c)) eqn:E; [|reflexivity]. destruct (C7 eq_refl). lia. }
        assert (cb_dtor (cb g c) = 0) by (destruct (cb_dtor (cb g c)); [reflexivity|]; assert (cb_ctor (cb g c) = 2) by (apply C2; lia); lia).
        ci_fin.
      * apply (CI_irrel g); [rewrite Ecb; now apply upd_other|left; congruence|apply HC].
  - (* ctor_ret_reg *)
    destruct H0 as (K1 & K2 & K3).
    eapply (GI2_cbupd P g g' c); [exact HG|exact Ecbs|exact Ecb|exact Ewin|exact Eret|exact Esp|exact Eso|congruence|congruence|cbf; reflexivity| cbf | ].
    + intros Hr. now apply HR5.
    + ci_open HC c Ecb Ewin. destruct (C3 K3) as (Q1 & Q2 & Q3 & Q4).
      assert (cb_running (cb g c) = None).
      { destruct (cb_running (cb g c)) eqn:E; [|reflexivity]. destruct (C8 n eq_refl). lia. }
      assert (cb_dtor (cb g c) = 0) by (destruct (cb_dtor (cb g c)); [reflexivity|]; assert (cb_ctor (cb g c) = 2) by (apply C2; lia); lia).
      ci_fin.
  - (* abegin *)
    destruct H as (K1 & K2 & K3 & K4 & K5).
    assert (Hd0 : cb_dtor (cb g c) = 0).
    { destruct (HC c) as (_ & C2 & _). cbv zeta in C2. destruct (cb_dtor (cb g c)); [reflexivity|].
      assert (cb_ctor (cb g c) = 2) by (apply C2; lia). lia. }
    rewrite Hd0 in Eb1. cbn [Nat.eqb] in Eb1. rewrite orb_false_r in Eb1.
    eapply (GI2_cbupd P g g' c); [exact HG|exact Ecbs|exact Ecb|exact Ewin|exact Eret|exact Esp|exact Eso|congruence|congruence|cbf; reflexivity| cbf | ].
    + intros; lia.
    + ci_open HC c Ecb Ewin.
      assert (cb_finished (cb g c) = false).
      { destruct (cb_finished (cb g c)) eqn:E; [|reflexivity]. destruct (C7 eq_refl). lia. }
      ci_fin. all: left; split; congruence.
  - (* aend *)
    destruct H as (K1 & K2 & K3 & K4 & K5).
    eapply (GI2_cbupd P g g' c); [exact HG|exact Ecbs|exact Ecb|exact Ewin|exact Eret|exact Esp|exact Eso|congruence|congruence|cbf; reflexivity| cbf | ].
    + intros Hr. now apply HR5.
    + ci_open HC c Ecb Ewin. ci_fin.
  - (* ctor_ret_noreg *)
    destruct H as (K1 & K2 & K3 & K4 & K5).
    eapply (GI2_cbupd P g g' c); [exact HG|exact Ecbs|exact Ecb|exact Ewin|exact Eret|exact Esp|exact Eso|congruence|congruence|cbf; reflexivity| cbf | ].
    + intros Hr. now apply HR5.
    + ci_open HC c Ecb Ewin.
      assert (cb_dtor (cb g c) = 0) by (destruct (cb_dtor (cb g c)); [reflexivity|]; assert (cb_ctor (cb g c) = 2) by (apply C2; lia); lia).
      ci_fin.
  - (* win_e *)
    unfold GI2. rewrite Ecbs, Eret, Eb1, Eb2, Ecb. gi2split; try assumption; try discriminate.
    + constructor.
    + intros c. rewrite <- HQ, H2. tauto.
    + eapply sigs_win; eauto.
    + intros c. apply (CI_irrel g); [now rewrite Ecb|now right|apply HC].
  - (* win_d *)
    rewrite H2 in HND. inversion HND as [|x0 l0 Hnin Hnd]; subst x0 l0.
    assert (Hqc : cb_queued (cb g c) = true) by (apply HQ; rewrite H2; now left).
    unfold GI2. rewrite Ecbs, Eret, Eb1, Eb2. gi2split; try assumption; try discriminate.
    + intros c0. rewrite Ecb. unfold upd. destruct (Nat.eqb_spec c0 c) as [->|]; cbf.
      * split; [tauto|discriminate].
      * rewrite <- HQ, H2. cbn. split; [tauto|intros [E|I]; [congruence|assumption]].
    + eapply sigs_win; eauto.
    + intros c0. destruct (Nat.eqb_spec c0 c) as [->|].
      * ci_open HC c Ecb Ewin. destruct (C3 Hqc) as (Q1 & Q2 & Q3 & Q4).
        assert (cb_running (cb g c) = None).
        { destruct (cb_running (cb g c)) eqn:E; [|reflexivity]. destruct (C8 n eq_refl). lia. }
        assert (cb_finished (cb g c) = false).
        { destruct (cb_finished (cb g c)) eqn:E; [|reflexivity]. destruct (C7 eq_refl). lia. }
        assert (cb_dtor (cb g c) <> 2) by (intros E; destruct (C10 E); congruence).
        ci_fin.
        all: try (specialize (Q4 ltac:(assumption)); congruence).
      * apply (CI_irrel g); [rewrite Ecb; now apply upd_other|now right|apply HC].
  - (* deq *)
    rewrite H2 in HND. inversion HND as [|x0 l0 Hnin Hnd]; subst x0 l0.
    assert (Hqc : cb_queued (cb g c) = true) by (apply HQ; rewrite H2; now left).
    unfold GI2. rewrite Ecbs, Eret, Eb1, Eb2. gi2split; try assumption; try congruence.
    + intros c0. rewrite Ecb. unfold upd. destruct (Nat.eqb_spec c0 c) as [->|]; cbf.
      * split; [tauto|discriminate].
      * rewrite <- HQ, H2. cbn. split; [tauto|intros [E|I]; [congruence|assumption]].
    + eapply sigs_same; eauto.
    + intros c0. destruct (Nat.eqb_spec c0 c) as [->|].
      * ci_open HC c Ecb Ewin. destruct (C3 Hqc) as (Q1 & Q2 & Q3 & Q4).
        assert (cb_running (cb g c) = None).
        { destruct (cb_running (cb g c)) eqn:E; [|reflexivity]. destruct (C8 n eq_refl). lia. }
        assert (cb_finished (cb g c) = false).
        { destruct (cb_finished (cb g c)) eqn:E; [|reflexivity]. destruct (C7 eq_refl). lia. }
        assert (cb_dtor (cb g c) <> 2) by (intros E; destruct (C10 E); congruence).
        ci_fin.
        all: try (specialize (Q4 ltac:(assumption)); congruence).
      * apply (CI_irrel g); [rewrite Ecb; now apply upd_other|left; congruence|apply HC].
  - (* qbegin *)
    destruct H as (K1 & K2 & K3).
    assert (Hd : Nat.eqb (cb_dtor (cb g c)) 2 = false).
    { apply Nat.eqb_neq. intros E. destruct (HC c) as (_ & _ & _ & _ & _ & _ & _ & _ & C10 & _).
      cbv zeta in C10. destruct (C10 E) as [_ X]. specialize (X K1). lia. }
    rewrite Hd, orb_false_r in Eb1.
    assert (Hq : cb_queued (cb g c) = false).
    { destruct (cb_queued (cb g c)) eqn:E; [|reflexivity].
      destruct (HC c) as (_ & _ & C3 & _). cbv zeta in C3. destruct (C3 E) as (_ & _ & X & _). congruence. }
    eapply (GI2_cbupd P g g' c); [exact HG|exact Ecbs|exact Ecb|exact Ewin|exact Eret|exact Esp|exact Eso|congruence|congruence|cbf; reflexivity| cbf | ].
    + intros; lia.
    + ci_open HC c Ecb Ewin.
      assert (cb_finished (cb g c) = false).
      { destruct (cb_finished (cb g c)) eqn:E; [|reflexivity]. destruct (C7 eq_refl). lia. }
      apply Nat.eqb_neq in Hd.
      ci_fin. all: right; split; congruence.
  - (* qend1 *)
    destruct H as (K1 & K2).
    eapply (GI2_cbupd P g g' c); [exact HG|exact Ecbs|exact Ecb|exact Ewin|exact Eret|exact Esp|exact Eso|congruence|congruence|cbf; reflexivity| cbf | ].
    + intros Hr. now apply HR5.
    + ci_open HC c Ecb Ewin. ci_fin.
  - (* qend2 *)
    destruct H as (K1 & K2).
    eapply (GI2_cbupd P g g' c); [exact HG|exact Ecbs|exact Ecb|exact Ewin|exact Eret|exact Esp|exact Eso|congruence|congruence|cbf; reflexivity| cbf | ].
    + intros Hr. now apply HR5.
    + ci_open HC c Ecb Ewin. ci_fin.
  - (* final *)
    unfold GI2. rewrite Ecbs, Eret, Eb1, Eb2, Ecb. gi2split; try assumption.
    + eapply sigs_same; eauto.
    + intros _. exact H0.
    + intros _. exact H1.
    + intros c. apply (CI_irrel g); [now rewrite Ecb|left; congruence|apply HC].
  - (* dtor_start *)
    eapply (GI2_cbupd P g g' c); [exact HG|exact Ecbs|exact Ecb|exact Ewin|exact Eret|exact Esp|exact Eso|congruence|congruence|cbf; reflexivity| cbf | ].
    + intros Hr. now apply HR5.
    + ci_open HC c Ecb Ewin. ci_fin.
  - (* unqueue *)
    destruct H0 as (K1 & K2 & K3).
    unfold GI2. rewrite Ecbs, Eret, Eb1, Eb2. gi2split; try assumption.
    + now apply NoDup_remove_nat.
    + intros c0. rewrite Ecb. unfold upd. destruct (Nat.eqb_spec c0 c) as [->|]; cbf.
      * split; [|discriminate]. intros I. apply in_remove in I. tauto.
      * rewrite <- HQ. split; [intros I; apply in_remove in I; tauto|intros I; now apply in_in_remove].
    + eapply sigs_same; eauto.
    + intros Hr. rewrite (HR4 Hr). reflexivity.
    + intros Hr c0. rewrite Ecb. unfold upd. destruct (Nat.eqb_spec c0 c) as [->|]; [|now apply HR5].
      cbf. now apply HR5.
    + intros c0. destruct (Nat.eqb_spec c0 c) as [->|].
      * ci_open HC c Ecb Ewin. ci_fin.
      * apply (CI_irrel g); [rewrite Ecb; now apply upd_other|left; congruence|apply HC].
  - (* dtor_ret *)
    destruct H as (K1 & K2 & K3 & K4).
    assert (Hv : dviol g c t = false).
    { unfold dviol. destruct K4 as [->| ->]; [reflexivity|]. now rewrite Nat.eqb_refl. }
    rewrite Hv, orb_false_r in Eb2.
    eapply (GI2_cbupd P g g' c); [exact HG|exact Ecbs|exact Ecb|exact Ewin|exact Eret|exact Esp|exact Eso|congruence|congruence|cbf; reflexivity| cbf | ].
    + intros Hr. now apply HR5.
    + ci_open HC c Ecb Ewin. ci_fin.
Qed.

(* ---------------- stability of thread-local facts under the steps of other threads ------------- *)
Ltac stab_rest HC HQ Ecbs Ecb Ewin :=
  unat;
  try match goal with Hc : cbs ?g = ?c :: _ |- _ =>
        assert (cb_queued (cb g c) = true) by (apply HQ; rewrite Hc; now left) end;
  rewrite ?Ecb, ?Ewin, ?Ecbs in *; try assumption; try tauto;
  unfold upd in *;
  repeat match goal with
         | |- context [Nat.eqb ?a ?b] => destruct (Nat.eqb_spec a b) as [->|]
         | H : context [Nat.eqb ?a ?b] |- _ => destruct (Nat.eqb_spec a b) as [->|]
         end; try assumption; try tauto; cbf;
  try match goal with c : nat |- _ =>
        match goal with _ : context [cb ?g c] |- _ =>
          generalize (HC c); unfold CI; cbv zeta;
          intros (C1 & C2 & C3 & C4 & C5 & C6 & C7 & C8 & C10 & C11) end end.

Ltac stab_core HC HQ :=
  match goal with
  | H : chgcb _ _ _ _ |- _ => unfold chgcb in H
  | _ => idtac
  end;
  match goal with
  | H : chg _ _ _ _ _ _ _ _ _ _ |- _ =>
      let Ecbs := fresh "Ecbs" in let Ecb := fresh "Ecb" in let Ewin := fresh "Ewin" in
      destruct H as (Ecbs & Ecb & Ewin & Eret & Esp & Eso & Eb1 & Eb2);
      stab_rest HC HQ Ecbs Ecb Ewin
  end.

Ltac stab_fin := try solve [intuition (try congruence; try lia)].

Section Stab.
  Variables (P : params) (t : nat) (g g' : shared) (lab : option nat).
  Hypothesis HS : gstep P t g g' lab.
  Hypothesis HG : GI2 P g.

  Lemma A1_stable c0 t' : t' <> t -> A1 g c0 t' -> A1 g' c0 t'.
  Proof.
    intros Hne HA. pose proof HG as (HND & HQ & HSG & HR4 & HR5 & HB1 & HB2 & HC).
    destruct HS; stab_core HC HQ; stab_fin.
  Qed.

  Lemma A2_stable c0 t' : t' <> t -> holder g = Some t' -> A2 g c0 t' -> A2 g' c0 t'.
  Proof.
    intros Hne Hh HA. pose proof HG as (HND & HQ & HSG & HR4 & HR5 & HB1 & HB2 & HC).
    destruct HS; stab_core HC HQ; stab_fin.
  Qed.

  Lemma FA_stable c0 t' : t' <> t \/ lab <> Some c0 -> FA g c0 t' -> FA g' c0 t'.
  Proof.
    intros Hne HA. pose proof HG as (HND & HQ & HSG & HR4 & HR5 & HB1 & HB2 & HC).
    destruct HS; stab_core HC HQ; stab_fin.
  Qed.

  Lemma A4_stable c0 t' : t' <> t -> A4 g c0 t' -> A4 g' c0 t'.
  Proof.
    intros Hne HA. pose proof HG as (HND & HQ & HSG & HR4 & HR5 & HB1 & HB2 & HC).
    destruct HS; stab_core HC HQ; stab_fin.
  Qed.

  Lemma B1_stable c0 t' : t' <> t -> B1 g c0 t' -> B1 g' c0 t'.
  Proof.
    intros Hne HA. pose proof HG as (HND & HQ & HSG & HR4 & HR5 & HB1 & HB2 & HC).
    destruct HS; stab_core HC HQ; stab_fin.
  Qed.

  Lemma B2_stable c0 : B2 g c0 -> B2 g' c0.
  Proof.
    intros HA. pose proof HG as (HND & HQ & HSG & HR4 & HR5 & HB1 & HB2 & HC).
    destruct HS; stab_core HC HQ; stab_fin.
  Qed.

  Lemma B3_stable t' : t' <> t -> holder g = Some t' -> cbs g = [] -> cbs g' = [].
  Proof.
    intros Hne Hh HA. pose proof HG as (HND & HQ & HSG & HR4 & HR5 & HB1 & HB2 & HC).
    destruct HS; unchg; rewrite ?Ecbs; try assumption; try congruence.
  Qed.

  Lemma D1_stable c0 : D1 g c0 -> D1 g' c0.
  Proof.
    intros HA. pose proof HG as (HND & HQ & HSG & HR4 & HR5 & HB1 & HB2 & HC).
    destruct HS; stab_core HC HQ; stab_fin.
  Qed.

  Lemma D2_stable c0 : D2 g c0 -> D2 g' c0.
  Proof.
    intros HA. pose proof HG as (HND & HQ & HSG & HR4 & HR5 & HB1 & HB2 & HC).
    destruct HS; stab_core HC HQ; stab_fin.
  Qed.

  Lemma D3_stable c0 : D3 g c0 -> D3 g' c0.
  Proof.
    intros HA. pose proof HG as (HND & HQ & HSG & HR4 & HR5 & HB1 & HB2 & HC).
    destruct HS; stab_core HC HQ; stab_fin.
  Qed.

  Lemma D4_stable c0 t' : t' <> t -> D4 g c0 t' -> D4 g' c0 t'.
  Proof.
    intros Hne HA. pose proof HG as (HND & HQ & HSG & HR4 & HR5 & HB1 & HB2 & HC).
    destruct HS; stab_core HC HQ; stab_fin.
  Qed.

  Lemma D5_stable c0 t' : t' <> t -> D5 g c0 t' -> D5 g' c0 t'.
  Proof.
    intros Hne HA. pose proof HG as (HND & HQ & HSG & HR4 & HR5 & HB1 & HB2 & HC).
    destruct HS; stab_core HC HQ; stab_fin.
  Qed.
End Stab.

(* ---------------- the thread-local invariant ---------------- *)
Definition PCA (g : shared) (t : nat) (p : pcs) : Prop :=
  match p with
  | AAddRef c | ALoad c | ASpin c | ABegin c => A1 g c t
  | ACas c old => A1 g c t /\ w_stop_requested old = false
  | AUnlock c => A2 g c t
  | AEnd c => FA g c t
  | ARelease c => A4 g c t
  | QUnlock c | QBegin c => B1 g c t
  | QEnd c => B2 g c
  | QFinal => cbs g = []
  | RLoad c | RCas c _ | RSpin c => D1 g c
  | RUnlock c true => D2 g c
  | RUnlock c false | RCheck c => D3 g c
  | RWait c => D4 g c t
  | RRelease c => D5 g c t
  | _ => True
  end.

Definition FR (g : shared) (t : nat) (f : ctx * list op) : Prop :=
  match fst f with KTop => True | KReq c => B2 g c | KAdd c => FA g c t end.

Definition kadd_cs (fs : list (ctx * list op)) : list nat :=
  flat_map (fun f => match fst f with KAdd c => [c] | _ => [] end) fs.
Definition pc_kadd (p : pcs) : list nat :=
  match p with AEnd c | ARelease c => [c] | _ => [] end.
Definition kadds (l : local) : list nat := pc_kadd (pc l) ++ kadd_cs (frames l).

(* the only callback dequeued by thread t's request_stop and not yet started is the one t is
   about to start *)
Definition RP (g : shared) (t : nat) (p : pcs) : Prop :=
  forall c, cb_deq (cb g c) = true -> cb_runs (cb g c) = 0 -> winner g = Some t ->
            p = QUnlock c \/ p = QBegin c.

Definition LI2 (g : shared) (t : nat) (l : local) : Prop :=
  PCA g t (pc l) /\ Forall (FR g t) (frames l) /\ NoDup (kadds l) /\ RP g t (pc l).

Definition Inv2 (P : params) (g : shared) (ls : nat -> local) : Prop :=
  Inv g ls /\ GI2 P g /\ forall t, LI2 g t (ls t).

Section Others.
  Variables (P : params) (t : nat) (g g' : shared) (lab : option nat).
  Hypothesis HS : gstep P t g g' lab.
  Hypothesis HG : GI2 P g.

  Lemma RP_stable t' p : t' <> t -> RP g t' p -> RP g' t' p.
  Proof.
    intros Hne HA c0. specialize (HA c0). revert HA. generalize (p = QUnlock c0 \/ p = QBegin c0).
    intros X. pose proof HG as (HND & HQ & HSG & HR4 & HR5 & HB1 & HB2 & HC).
    destruct HS; stab_core HC HQ; stab_fin.
  Qed.

  Lemma PCA_stable t' p : t' <> t -> (holds p = true -> holder g = Some t') ->
    PCA g t' p -> PCA g' t' p.
  Proof.
    intros Hne Hh HA. destruct p; cbn [PCA holds] in *; try exact I;
      try (match goal with removed : bool |- _ => destruct removed end);
      eauto using A1_stable, A2_stable, FA_stable, A4_stable, B1_stable, B2_stable, B3_stable,
                  D1_stable, D2_stable, D3_stable, D4_stable, D5_stable.
    destruct HA as [HA HB]. split; [|exact HB]. eauto using A1_stable.
  Qed.

  Lemma FR_stable t' f : t' <> t \/ (forall c, lab = Some c -> ~ In c (kadd_cs [f])) ->
    FR g t' f -> FR g' t' f.
  Proof.
    unfold FR, kadd_cs. destruct f as [[|c|c] ops]; cbn; intros Hne HA; [exact I| |].
    - eapply B2_stable; eauto.
    - eapply FA_stable; eauto. destruct Hne as [Hne|Hne]; [now left|right].
      intros E. apply (Hne c E). now left.
  Qed.

  Lemma LI2_others t' lx : t' <> t -> LI g t' lx -> LI2 g t' lx -> LI2 g' t' lx.
  Proof.
    intros Hne (Hh & _) (HA & HF & HN & HR). repeat split.
    - apply PCA_stable; assumption.
    - eapply Forall_impl; [|exact HF]. intros f. apply FR_stable. now left.
    - exact HN.
    - apply RP_stable; assumption.
  Qed.
End Others.

(* ---------------- every concrete step is an abstract step ---------------- *)
Definition core_same (g g' : shared) : Prop :=
  chg g g' (cbs g) (cb g) (winner g) (winner_ret g) (sig_pika g) (sig_os g)
      (bad_run_after_dtor g) (bad_dtor_during_run g).

Lemma PCA_same g g' t p : core_same g g' -> PCA g t p -> PCA g' t p.
Proof.
  intros (Ecbs & Ecb & Ewin & _). destruct p; cbn [PCA]; try tauto;
    try (match goal with removed : bool |- _ => destruct removed end);
    unat; rewrite ?Ecb, ?Ewin, ?Ecbs; tauto.
Qed.
Lemma FR_same g g' t f : core_same g g' -> FR g t f -> FR g' t f.
Proof.
  intros (Ecbs & Ecb & Ewin & _). unfold FR. destruct (fst f); unat; rewrite ?Ecb; tauto.
Qed.
Lemma RP_same g g' t p : core_same g g' -> RP g t p -> RP g' t p.
Proof. intros (Ecbs & Ecb & Ewin & _). unfold RP. rewrite Ecb, Ewin. tauto. Qed.

Definition npend (p : pcs) : bool := match p with QUnlock _ | QBegin _ => false | _ => true end.
Lemma RP_move g t p p' : npend p = true -> RP g t p -> RP g t p'.
Proof.
  intros Hn H c A B C. destruct (H c A B C) as [E|E]; subst p; discriminate.
Qed.
Lemma RP_none g t p : npend p = true -> RP g t p ->
  forall c, cb_deq (cb g c) = true -> winner g = Some t -> cb_runs (cb g c) <> 0.
Proof. intros Hn H c A C B. destruct (H c A B C) as [E|E]; subst p; discriminate. Qed.

Lemma notin_kadds g t fs c :
  Forall (FR g t) fs -> cb_runs (cb g c) = 0 -> ~ In c (kadd_cs fs).
Proof.
  intros HF H0 I. unfold kadd_cs in I. apply in_flat_map in I. destruct I as (f & I1 & I2).
  rewrite Forall_forall in HF. specialize (HF f I1). unfold FR in HF.
  destruct (fst f); cbn in I2; try tauto. destruct I2 as [->|[]].
  destruct HF as (_ & _ & X & _). congruence.
Qed.

Lemma frames_stable P t g g' lab fs : gstep P t g g' lab -> GI2 P g ->
  (forall c, lab = Some c -> ~ In c (kadd_cs fs)) -> Forall (FR g t) fs -> Forall (FR g' t) fs.
Proof.
  intros HS HG Hl HF. rewrite Forall_forall in *. intros f I. eapply FR_stable; eauto.
  right. intros c E J. apply (Hl c E). unfold kadd_cs in *. apply in_flat_map. exists f.
  split; [assumption|]. cbn in J. now rewrite app_nil_r in J.
Qed.

Lemma same_thread_winner P g t : ids_faithful P -> sigs_ok P g ->
  same_thread P g t = true -> winner g = Some t.
Proof.
  unfold sigs_ok, same_thread. intros Hid HS H. destruct (winner g) as [w|].
  - destruct HS as [E1 E2]. rewrite E1, E2 in H. specialize (Hid w t).
    destruct (pika_id P w), (pika_id P t); try discriminate.
    + apply Nat.eqb_eq in H. f_equal. now apply Hid.
    + apply Nat.eqb_eq in H. f_equal. now apply Hid.
  - destruct HS as [E1 E2]. rewrite E1, E2 in H. destruct (pika_id P t); discriminate.
Qed.
Lemma same_thread_self P g t : sigs_ok P g -> winner g = Some t -> same_thread P g t = true.
Proof.
  unfold sigs_ok, same_thread. intros HS H. rewrite H in HS. destruct HS as [E1 E2].
  rewrite E1, E2. destruct (pika_id P t); apply Nat.eqb_refl.
Qed.

Ltac li2split := split; [|split; [|split]].

Lemma LI2_norm g t l : LI2 g t l -> LI2 g t (norm l).
Proof.
  intros (HA & HF & HN & HR). unfold norm.
  destruct (pc l) eqn:E; try (unfold LI2; rewrite E; tauto).
  destruct (frames l) as [|[[|c|c] [|o r]] fs] eqn:F; try (unfold LI2; rewrite E, F; tauto).
  - inversion HF; subst. unfold LI2, kadds in *. rewrite E, F in *. cbn [pc frames set_frames PCA pc_kadd] in *.
    li2split; try assumption. eapply RP_move; [|exact HR]. reflexivity.
  - inversion HF; subst. unfold LI2, kadds in *. rewrite E, F in *. cbn [pc frames set_frames PCA pc_kadd] in *.
    li2split; try assumption. eapply RP_move; [|exact HR]. reflexivity.
Qed.

Definition OK2 (P : params) (t : nat) (g : shared) (l : local) (r : shared * local) : Prop :=
  exists lab, gstep P t g (fst r) lab /\ (forall c, lab = Some c -> pc l = ARelease c) /\
    (Forall (FR (fst r) t) (frames l) -> LI2 (fst r) t (snd r)).

Lemma ok2_same P t g l g' l' : core_same g g' -> LI2 g t l' -> OK2 P t g l (g', l').
Proof.
  intros Hc (HA & HF & HN & HR). exists None. split; [now apply G_same|]. split; [discriminate|].
  intros _. cbn [fst snd]. li2split.
  - now apply (PCA_same g).
  - eapply Forall_impl; [|exact HF]. intros f. now apply FR_same.
  - exact HN.
  - now apply (RP_same g).
Qed.
