(* Proofs/SemaphoreMixedProofs.v — several semaphore objects (counting and sliding) used by the same
   threads, one shared agent table (Model/SemaphoreMixed.v): permit conservation per object, for
   every kind assignment, thread count, tagged program, schedule and deadline oracle.
   The base step lemmas (SemaphoreProofs.sem_step_inv) are reused unchanged: GInv does not mention
   the agent table, so it is insensitive to what the other objects did to it. *)
From Coq Require Import List ZArith Bool Arith Lia.
From Pika Require Import Base.Conc Base.Agent Model.Semaphore Model.SemaphoreMixed
  Proofs.SemaphoreProofs Proofs.SemaphoreProgress.
Import ListNotations.
Local Open Scope Z_scope.

(* ------------------------------------------------------------------ programs *)
(* operations of the sliding semaphore's public API (plus the environment's stale resumes) *)
Definition sl_pub_op (o : sop) : Prop :=
  match o with
  | SlWait _ | SlTryWait _ | SlSignal _ | SlSignalAll | SlSetMaxDiff _ _ | StaleResume _ => True
  | Acquire _ | TimedAcquire _ | TryWait _ | TryAcquire | Release _ => False
  end.

(* an operation is legal on its object: public counting API (pub_op: counts 1, release n >= 0,
   try_wait n >= 0) on a counting object, sliding API on a sliding object *)
Definition pub_op_mixed (fam : nat -> family) (x : nat * sop) : Prop :=
  match fam (fst x) with Counting => pub_op (snd x) | Sliding => sl_pub_op (snd x) end.
Definition pub_progs_mixed (fam : nat -> family) (progs : nat -> list (nat * sop)) : Prop :=
  forall t, Forall (pub_op_mixed fam) (progs t).

(* the weaker well-formedness the safety half needs: release counts are not negative *)
Definition wf_mprogs (progs : nat -> list (nat * sop)) : Prop :=
  forall t, Forall (fun x => wf_op (snd x)) (progs t).

Lemma pub_mixed_wf fam progs : pub_progs_mixed fam progs -> wf_mprogs progs.
Proof.
  intros H t. eapply Forall_impl; [|apply H]. intros [ob o]. unfold pub_op_mixed. cbn [fst snd].
  destruct (fam ob); destruct o; cbn; auto; try contradiction.
Qed.

(* ------------------------------------------------------------------ the view *)
Lemma GInv_set_ag v0 lo0 md g a : GInv v0 lo0 md g <-> GInv v0 lo0 md (set_ag g a).
Proof. split; intros []; constructor; cbn in *; assumption. Qed.

Lemma updo_same f ob g : updo f ob g ob = g.
Proof. unfold updo. now rewrite Nat.eqb_refl. Qed.
Lemma updo_other f ob g x : x <> ob -> updo f ob g x = f x.
Proof. unfold updo. intros H. apply Nat.eqb_neq in H. now rewrite H. Qed.

(* local invariant of a thread: remaining operations well-formed, pc belongs to the current one *)
Definition mlwf (L : mx_l) : Prop := Forall (fun x => wf_op (snd x)) (mtodo L) /\ pc_ok (cur_view L).

Lemma mlwf_lwf L : mlwf L -> lwf (cur_view L).
Proof.
  intros [H1 H2]. split; [|exact H2]. unfold cur_view. cbn [todo].
  destruct (mtodo L) as [|x rest]; [constructor|]. inversion H1; subst. repeat constructor. assumption.
Qed.

(* the base step on the current operation alone: afterwards the operation is still there, or gone
   and then the thread is between two operations *)
Lemma cur_step_todo kind o t g L x rest : mtodo L = x :: rest ->
  let r := sem_tstep kind o t g (cur_view L) in
  todo (snd r) = [snd x] \/ todo (snd r) = [].
Proof.
  intros Hm r. destruct (todo_step kind o t g (cur_view L)) as [H|H]; fold r in H; rewrite H;
    unfold cur_view; cbn [todo]; rewrite Hm; cbn; auto.
Qed.

Lemma lwf_done_idle l : lwf l -> todo l = [] -> pc l = Idle.
Proof.
  intros [_ Hp] Ht. unfold pc_ok in Hp.
  destruct (pc l) as [|[?|?]|[?|?]|?|[|] ?|? [|] ?]; try reflexivity; destruct Hp as [_ Hne]; congruence.
Qed.

Definition MInv (v lo md : nat -> Z) (G : mx_g) (Ls : nat -> mx_l) : Prop :=
  (forall ob, GInv (v ob) (lo ob) (md ob) (objs G ob)) /\ forall t, mlwf (Ls t).

Lemma cur_view_eta x rest (l : sem_l) : todo l = [snd x] ->
  cur_view {| mtodo := x :: rest; mpc := pc l |} = l.
Proof. intros Ht. unfold cur_view. cbn [mtodo mpc]. destruct l; cbn in *. now subst. Qed.

Lemma MInv_step kind v lo md o t G Ls : MInv v lo md G Ls ->
  MInv v lo md (fst (mx_tstep kind o t G (Ls t))) (upd Ls t (snd (mx_tstep kind o t G (Ls t)))).
Proof.
  intros [HG HL]. unfold mx_tstep. destruct (mtodo (Ls t)) as [|x rest] eqn:Hm.
  - cbn [fst snd]. split; [exact HG|]. intros u.
    destruct (Nat.eq_dec u t) as [->|N]; [rewrite upd_eq|rewrite upd_neq by auto]; apply HL.
  - set (r := sem_tstep kind o t (view G (fst x)) (cur_view (Ls t))). cbn [fst snd].
    assert (Hgv : GInv (v (fst x)) (lo (fst x)) (md (fst x)) (view G (fst x))) by (apply GInv_set_ag; apply HG).
    destruct (sem_step_inv _ _ _ kind o t _ _ Hgv (mlwf_lwf _ (HL t))) as [Hg' Hl']. fold r in Hg', Hl'.
    split.
    + intros X. cbn [objs]. destruct (Nat.eq_dec X (fst x)) as [->|N]; [rewrite updo_same; exact Hg'|].
      rewrite updo_other by auto. apply HG.
    + intros u. destruct (Nat.eq_dec u t) as [->|N]; [rewrite upd_eq|rewrite upd_neq by auto; apply HL].
      destruct (HL t) as [H1 H2]. rewrite Hm in H1.
      destruct (cur_step_todo kind o t (view G (fst x)) (Ls t) x rest Hm) as [Ht|Ht]; fold r in Ht; rewrite Ht.
      * split; cbn [mtodo]; [exact H1|]. rewrite (cur_view_eta x rest (snd r) Ht). exact (proj2 Hl').
      * split; cbn [mtodo]; [now inversion H1|].
        unfold pc_ok, cur_view. cbn [mtodo mpc pc]. rewrite (lwf_done_idle _ Hl' Ht). exact I.
Qed.

Lemma MInv_init v lo md progs : (forall ob, 0 <= v ob) -> wf_mprogs progs ->
  MInv v lo md (mx_init v lo md) (mx_locals progs).
Proof.
  intros Hv Hw. split.
  - intros ob. cbn. apply GInv_init. apply Hv.
  - intros t. split; [apply Hw|exact I].
Qed.

Theorem mx_safety kind sched v lo md progs : (forall ob, 0 <= v ob) -> wf_mprogs progs ->
  let c := mx_run kind sched v lo md progs in MInv v lo md (fst c) (snd c).
Proof.
  intros Hv Hw. cbv zeta. unfold mx_run.
  apply (run_inv _ _ _ (mx_tstep kind) (MInv v lo md)).
  - intros o t g ls. apply MInv_step.
  - now apply MInv_init.
Qed.

(* permits are conserved on EVERY object, whatever the other objects are used for *)
Theorem permits_conserved_mixed_any kind sched v lo md progs : (forall ob, 0 <= v ob) -> wf_mprogs progs ->
  forall ob, let g := objs (fst (mx_run kind sched v lo md progs)) ob in
  value g + acquired g = v ob + released g /\ acquired g <= v ob + released g /\ 0 <= value g /\
  acquired g = sum_taken (slog g).
Proof.
  intros Hv Hw ob g. destruct (mx_safety kind sched v lo md progs Hv Hw) as [HG _].
  destruct (HG ob) as [c1 c2 c3 _]. fold g in c1, c2, c3. repeat split; try assumption; lia.
Qed.

Theorem permits_conserved_mixed_objects fam kind sched v lo md progs :
  (forall ob, 0 <= v ob) -> pub_progs_mixed fam progs ->
  forall ob, fam ob = Counting ->
  let g := objs (fst (mx_run kind sched v lo md progs)) ob in
  value g + acquired g = v ob + released g /\ acquired g <= v ob + released g /\ 0 <= value g /\
  acquired g = sum_taken (slog g).
Proof.
  intros Hv Hp ob _. apply permits_conserved_mixed_any; [exact Hv|]. eapply pub_mixed_wf; eauto.
Qed.

(* every log entry of every object means what it says (ev_ok), e.g. try_acquire true iff consumed *)
Theorem log_meaning_mixed kind sched v lo md progs : (forall ob, 0 <= v ob) -> wf_mprogs progs ->
  forall ob e, In e (slog (objs (fst (mx_run kind sched v lo md progs)) ob)) -> ev_ok e.
Proof.
  intros Hv Hw ob e He. destruct (mx_safety kind sched v lo md progs Hv Hw) as [HG _].
  destruct (HG ob) as [_ _ _ c4]. rewrite Forall_forall in c4. now apply c4.
Qed.

(* what the return values mean, per object (mixed version of nonblocking_true_iff_consumed,
   timed_true_iff_consumed and sliding_wait_only_if) *)
Theorem return_values_mixed kind sched v lo md progs : (forall ob, 0 <= v ob) -> wf_mprogs progs ->
  forall ob e, In e (slog (objs (fst (mx_run kind sched v lo md progs)) ob)) ->
  (ev_op e = TryAcquire ->
     (ev_res e = true <-> 1 <= ev_avail e) /\ (ev_res e = true <-> ev_taken e = 1) /\ (ev_res e = false <-> ev_taken e = 0)) /\
  (forall n, 0 < n -> ev_op e = TryWait n ->
     (ev_res e = true <-> n <= ev_avail e) /\ (ev_res e = true <-> ev_taken e = n) /\ (ev_res e = false <-> ev_taken e = 0)) /\
  (forall n, 0 < n -> ev_op e = TimedAcquire n ->
     (ev_res e = true <-> ev_taken e = n) /\ (ev_res e = false <-> ev_taken e = 0) /\ (ev_res e = true -> n <= ev_avail e)) /\
  (forall n, ev_op e = Acquire n -> ev_res e = true /\ ev_taken e = n /\ n <= ev_avail e) /\
  (forall u, ev_op e = SlWait u -> ev_res e = true /\ u - ev_maxd e <= ev_lower e) /\
  (forall u, ev_op e = SlTryWait u -> (ev_res e = true <-> u - ev_maxd e <= ev_lower e)).
Proof.
  intros Hv Hw ob e He. pose proof (log_meaning_mixed kind sched v lo md progs Hv Hw ob e He) as H.
  unfold ev_ok in H. split; [|split; [|split; [|split; [|split]]]].
  - intros Ho. rewrite Ho in H. destruct H as [H1 H2]. destruct (ev_res e); intuition (try discriminate; try lia).
  - intros n Hn Ho. rewrite Ho in H. destruct H as [H1 H2]. destruct (ev_res e); intuition (try discriminate; try lia).
  - intros n Hn Ho. rewrite Ho in H. destruct H as [H1 H2]. destruct (ev_res e); intuition (try discriminate; try lia).
  - intros n Ho. rewrite Ho in H. exact H.
  - intros u Ho. rewrite Ho in H. tauto.
  - intros u Ho. rewrite Ho in H. tauto.
Qed.

(* a step of thread t touches the data of its current object only *)
Lemma mx_step_other_objects kind o t G L X : cur_obj L <> Some X ->
  objs (fst (mx_tstep kind o t G L)) X = objs G X.
Proof.
  unfold mx_tstep, cur_obj. destruct (mtodo L) as [|x rest]; [reflexivity|]. intros H. cbn [fst objs].
  apply updo_other. congruence.
Qed.

(* mx_stuck is "every step of every thread is a stutter": locals unchanged, every view unchanged *)
Lemma set_ag_eta g : set_ag g (ag g) = g.
Proof. destruct g; reflexivity. Qed.

Lemma mx_stuck_is_stutter kind G Ls : mx_stuck kind G Ls ->
  forall t o, snd (mx_tstep kind o t G (Ls t)) = Ls t /\
              forall X, view (fst (mx_tstep kind o t G (Ls t))) X = view G X.
Proof.
  intros St t o. specialize (St t o). unfold mx_tstep. destruct (mtodo (Ls t)) as [|x rest] eqn:Hm; [split; reflexivity|].
  rewrite St. cbn [fst snd]. split.
  - unfold cur_view. cbn [todo pc]. rewrite Hm. destruct (Ls t); cbn in *. now subst.
  - intros X. unfold view at 1. cbn [objs mag]. destruct (Nat.eq_dec X (fst x)) as [->|N].
    + rewrite updo_same. apply set_ag_eta.
    + rewrite updo_other by auto. reflexivity.
Qed.

(* ------------------------------------------------------------------ non-vacuity: a mixed run *)
(* object 0: counting semaphore (initial 0); object 1: sliding semaphore (max_difference 1, lower 0).
   thread 2: try_acquire_for on object 0, then wait(5) on object 1; thread 1: release(1) on object 0,
   then signal(4) on object 1; thread 0: acquire on object 0 (never satisfied).  All pika tasks.
   The run shows the SHARED agent: release() pops the timed waiter 2 and resumes it while it is
   running (token set); the timed acquire returns true without ever suspending, so the token
   survives the operation; the first suspend() of wait(5) on the OTHER object returns spuriously
   (pc Blk, not blocked, still queued on object 1), the waiter re-tests, queues again and only then
   blocks; signal(4) lets it go.  At the end thread 0 is blocked on object 0 with value 0: stuck. *)
Definition mx_ex_progs (t : nat) : list (nat * sop) :=
  match t with
  | 0%nat => [(0%nat, Acquire 1)]
  | 1%nat => [(0%nat, Release 1); (1%nat, SlSignal 4)]
  | 2%nat => [(0%nat, TimedAcquire 1); (1%nat, SlWait 5)]
  | _ => []
  end.
Definition mx_ex_fam (ob : nat) : family := match ob with 0%nat => Counting | _ => Sliding end.
Definition mx_ex_run (s : list (nat * bool)) :=
  mx_run all_task s (fun _ => 0) (fun _ => 0) (fun _ => 1) mx_ex_progs.
Definition mx_ex_s1 : list (nat * bool) := [(2,false);(1,false);(2,true)]%nat.
Definition mx_ex_s2 : list (nat * bool) := mx_ex_s1 ++ [(2,false);(2,false)]%nat.
Definition mx_ex_s3 : list (nat * bool) := mx_ex_s2 ++ [(2,false);(2,false);(0,false);(0,false);(1,false);(2,false)]%nat.

Lemma mixed_example :
  pub_progs_mixed mx_ex_fam mx_ex_progs /\
  (let c := mx_ex_run mx_ex_s1 in      (* the timed acquire returned true; its wake-up token is still there *)
   map ev_res (slog (objs (fst c) 0%nat)) = [true; true] /\ value (objs (fst c) 0%nat) = 0 /\
   mag (fst c) 2%nat = {| tok := true; blocked := false |} /\ cur_obj (snd c 2%nat) = Some 1%nat /\ mpc (snd c 2%nat) = Idle) /\
  (let c := mx_ex_run mx_ex_s2 in      (* wait(5) on object 1: suspend returned at once, waiter still queued *)
   mpc (snd c 2%nat) = Blk (CSl 5) /\ mag (fst c) 2%nat = a_init /\ queue (objs (fst c) 1%nat) = [2%nat] /\
   queue (objs (fst c) 0%nat) = []) /\
  (let c := mx_ex_run mx_ex_s3 in
   mx_stuck all_task (fst c) (snd c) /\ mx_finished (snd c 1%nat) /\ mx_finished (snd c 2%nat) /\
   mx_waiting_for (snd c 0%nat) 0%nat (CAcq 1) /\ blocked (mag (fst c) 0%nat) = true /\
   value (objs (fst c) 0%nat) = 0 /\ acquired (objs (fst c) 0%nat) = 1 /\ released (objs (fst c) 0%nat) = 1 /\
   lower (objs (fst c) 1%nat) = 4 /\ queue (objs (fst c) 1%nat) = [] /\
   map ev_op (slog (objs (fst c) 1%nat)) = [SlWait 5; SlSignal 4]).
Proof.
  split; [|split; [|split]].
  - intros t. destruct t as [|[|[|t]]]; cbn; repeat constructor; cbn; lia.
  - vm_compute. repeat split; reflexivity.
  - vm_compute. repeat split; reflexivity.
  - cbv zeta. set (c := mx_ex_run mx_ex_s3). vm_compute in c. subst c. cbn [fst snd].
    split; [|repeat split; try reflexivity; right; left; reflexivity].
    intros t o. destruct t as [|[|[|t]]]; destruct o; vm_compute; try reflexivity; exact I.
Qed.

(* the mixed model with every operation on object 0 is the base model (sanity, on a concrete run:
   the three-thread example of Properties_C08.C08_example) *)
Lemma mixed_is_base_example :
  let progs := fun t => match t with 0%nat => [Acquire 1; TryAcquire] | 1%nat => [Release 2] | 2%nat => [TryAcquire] | _ => [] end in
  let s := [(0%nat,false);(0%nat,false);(1%nat,false);(2%nat,false);(0%nat,false);(0%nat,false)] in
  let c := sem_run all_os s 0 0 0 progs in
  let m := mx_run all_os s (fun _ => 0) (fun _ => 0) (fun _ => 0) (fun t => map (fun o => (0%nat, o)) (progs t)) in
  let g := objs (fst m) 0%nat in
  (value g, acquired g, released g, queue g, popped g, holder g, sigl g, slog g) =
  (value (fst c), acquired (fst c), released (fst c), queue (fst c), popped (fst c), holder (fst c), sigl (fst c), slog (fst c)) /\
  map (fun t => (mag (fst m) t, mpc (snd m t), map snd (mtodo (snd m t)))) [0;1;2;3]%nat =
  map (fun t => (ag (fst c) t, pc (snd c t), todo (snd c t))) [0;1;2;3]%nat.
Proof. vm_compute. split; reflexivity. Qed.

(* ------------------------------------------------------------------ try_wait with count <= 0 (base model) *)
(* detail::counting_semaphore::try_wait(l, count): if (!(value_ < count)) { wait(l, count); return true; }
   and wait's loop body is skipped, value_ -= count.  With count <= 0 and the invariant 0 <= value_
   the test always succeeds: the call returns true, subtracts count (ADDS -count permits when
   count < 0), does not touch the queue and wakes nobody.  (If the spinlock is held — only by an
   OS-thread resume in flight — the caller spins: stutter.) *)
Lemma try_wait_nonpos kind sched v0 lo0 md progs n : 0 <= v0 -> wf_progs progs -> n <= 0 ->
  let c := sem_run kind sched v0 lo0 md progs in
  forall t o rest, pc (snd c t) = Idle -> todo (snd c t) = TryWait n :: rest ->
  let g := fst c in let r := sem_tstep kind o t g (snd c t) in
  (holder g <> None -> r = (g, snd c t)) /\
  (holder g = None ->
     snd r = {| todo := rest; pc := Idle |} /\
     value (fst r) = value g - n /\ acquired (fst r) = acquired g + n /\ released (fst r) = released g /\
     lower (fst r) = lower g /\ maxd (fst r) = maxd g /\
     queue (fst r) = queue g /\ popped (fst r) = popped g /\ sigl (fst r) = sigl g /\
     holder (fst r) = None /\ ag (fst r) = ag g /\
     exists e, slog (fst r) = e :: slog g /\ ev_tid e = t /\ ev_op e = TryWait n /\ ev_res e = true /\
               ev_taken e = n /\ ev_avail e = value g /\ 0 <= ev_avail e).
Proof.
  intros Hv Hw Hn c t o rest Hpc Htd g r.
  pose proof (gi_nonneg _ _ _ _ (sem_safety kind sched v0 lo0 md progs Hv Hw)) as Hnn. fold c in Hnn. fold g in Hnn.
  subst r. unfold sem_tstep. fold g. rewrite Hpc, Htd. unfold is_free. split; intros Hh.
  - destruct (holder g); [reflexivity|congruence].
  - rewrite Hh. assert (Hlt : (value g <? n) = false) by (apply Z.ltb_ge; lia). rewrite Hlt.
    cbn. unfold done_l. rewrite Htd. cbn [tl]. repeat split; try assumption.
    eexists. repeat split; cbn; try reflexivity. exact Hnn.
Qed.

Theorem try_wait_zero kind sched v0 lo0 md progs : 0 <= v0 -> wf_progs progs ->
  let c := sem_run kind sched v0 lo0 md progs in
  forall t o rest, pc (snd c t) = Idle -> todo (snd c t) = TryWait 0 :: rest ->
  let g := fst c in let r := sem_tstep kind o t g (snd c t) in
  (holder g <> None -> r = (g, snd c t)) /\
  (holder g = None ->
     snd r = {| todo := rest; pc := Idle |} /\
     value (fst r) = value g /\ acquired (fst r) = acquired g /\ released (fst r) = released g /\
     lower (fst r) = lower g /\ maxd (fst r) = maxd g /\
     queue (fst r) = queue g /\ popped (fst r) = popped g /\ sigl (fst r) = sigl g /\
     holder (fst r) = None /\ ag (fst r) = ag g /\
     exists e, slog (fst r) = e :: slog g /\ ev_tid e = t /\ ev_op e = TryWait 0 /\ ev_res e = true /\
               ev_taken e = 0 /\ ev_avail e = value g /\ 0 <= ev_avail e).
Proof.
  intros Hv Hw c t o rest Hpc Htd g r.
  destruct (try_wait_nonpos kind sched v0 lo0 md progs 0 Hv Hw ltac:(lia) t o rest Hpc Htd) as [H1 H2].
  fold c in H1, H2. fold g in H1, H2. fold r in H1, H2. split; [exact H1|]. intros Hh.
  destruct (H2 Hh) as (A1 & A2 & A3 & A4). split; [exact A1|]. split; [lia|]. split; [lia|]. exact A4.
Qed.

Theorem try_wait_negative_adds_permits kind sched v0 lo0 md progs n : 0 <= v0 -> wf_progs progs -> n < 0 ->
  let c := sem_run kind sched v0 lo0 md progs in
  forall t o rest, pc (snd c t) = Idle -> todo (snd c t) = TryWait n :: rest -> holder (fst c) = None ->
  let g := fst c in let r := sem_tstep kind o t g (snd c t) in
  value g < value (fst r) /\ value (fst r) = value g - n /\ acquired (fst r) = acquired g + n /\
  released (fst r) = released g /\ queue (fst r) = queue g /\ popped (fst r) = popped g /\ ag (fst r) = ag g /\
  sigl (fst r) = sigl g /\ exists e, slog (fst r) = e :: slog g /\ ev_res e = true /\ ev_taken e = n.
Proof.
  intros Hv Hw Hn c t o rest Hpc Htd Hh g r.
  destruct (try_wait_nonpos kind sched v0 lo0 md progs n Hv Hw ltac:(lia) t o rest Hpc Htd) as [_ H2].
  fold c in H2. fold g in H2. fold r in H2.
  destruct (H2 Hh) as (_ & A2 & A3 & A4 & _ & _ & A7 & A8 & A9 & _ & A11 & e & E1 & _ & _ & E4 & E5 & _).
  repeat split; try assumption; try lia. exists e. auto.
Qed.

(* why negative counts are outside pub_progs: the permits try_wait(-1) adds are not announced to the
   waiters (no notify): [acquire blocks] [try_wait(-1)] is stuck with value = 1 and the acquirer
   blocked.  Conservation still holds (value + acquired = initial + released with acquired = -1).
   Detail API only: the public counting_semaphore has no try_wait(n). *)
Definition neg_progs (t : nat) : list sop :=
  match t with 0%nat => [Acquire 1] | 1%nat => [TryWait (-1)] | _ => [] end.

Lemma no_blocked_with_permits_negative_try_wait_refuted :
  let c := sem_run all_os [(0,false);(0,false);(1,false)]%nat 0 0 0 neg_progs in
  wf_progs neg_progs /\ os_untimed all_os neg_progs /\
  stuck all_os (fst c) (snd c) /\ waiting_for (snd c 0%nat) (CAcq 1) /\ value (fst c) = 1 /\
  pc (snd c 0%nat) = Blk (CAcq 1) /\ blocked (ag (fst c) 0%nat) = true /\ queue (fst c) = [0%nat] /\
  finished (snd c 1%nat) /\ map ev_res (slog (fst c)) = [true] /\ map ev_taken (slog (fst c)) = [-1] /\
  released (fst c) = 0 /\ acquired (fst c) = -1 /\ holder (fst c) = None /\ popped (fst c) = [] /\ sigl (fst c) = [].
Proof.
  cbv zeta. split; [|split].
  - intros t. destruct t as [|[|t]]; cbn; repeat constructor.
  - intros t Hk. destruct t as [|[|t]]; cbn; repeat constructor; cbn; auto.
  - set (c := sem_run all_os _ 0 0 0 neg_progs). vm_compute in c. subst c. cbn [fst snd].
    split; [|repeat split; try reflexivity; right; left; reflexivity].
    intros t o. destruct t as [|[|t]]; destruct o; vm_compute; reflexivity.
Qed.

Lemma try_wait_zero_example :
  let progs := fun t => match t with 0%nat => [Acquire 1] | 1%nat => [TryWait 0; TryWait 0] | _ => [] end in
  wf_progs progs /\ pub_progs progs /\
  let c := sem_run all_os [(0,false);(0,false);(1,false);(1,false)]%nat 0 0 0 progs in
  value (fst c) = 0 /\ acquired (fst c) = 0 /\ queue (fst c) = [0%nat] /\ popped (fst c) = [] /\
  blocked (ag (fst c) 0%nat) = true /\ finished (snd c 1%nat) /\
  map ev_res (slog (fst c)) = [true; true] /\ map ev_taken (slog (fst c)) = [0; 0] /\ map ev_avail (slog (fst c)) = [0; 0].
Proof.
  cbv zeta. split; [|split].
  - intros t. destruct t as [|[|t]]; cbn; repeat constructor.
  - intros t. destruct t as [|[|t]]; cbn; repeat constructor; cbn; lia.
  - vm_compute. repeat split; reflexivity.
Qed.

(* ------------------------------------------------------------------ what exactly is shared *)
(* one base step of thread t changes the agent of: t itself (suspend), the head of the cv queue of
   ITS object (notify_one -> resume), the popped waiter an OS-thread resume is waiting for, or the
   target of a StaleResume — and of nobody else *)
Lemma sem_tstep_agent_frame kind o t g l u :
  u <> t -> hd_error (queue g) <> Some u ->
  (forall chk k, pc l <> ResWait u chk k) ->
  (forall rest, todo l <> StaleResume u :: rest) ->
  ag (fst (sem_tstep kind o t g l)) u = ag g u.
Proof.
  intros Ht Hq Hr Hs. destruct l as [td p]. cbn [pc todo] in *.
  unfold sem_tstep, sl_notify, wait_or_take, fail_op, notify, after_resume, finish_sig, take. cbn [pc todo].
  destruct p as [|c|c|n|chk k|w chk k]; [destruct td as [|[] ?]| | |destruct o| |];
    repeat match goal with
           | |- context [if ?b then _ else _] => destruct b eqn:?
           | |- context [match ?x with _ => _ end] => destruct x eqn:?
           end; cbn; try reflexivity; unfold upd;
    match goal with |- context [Nat.eqb u ?w] => destruct (Nat.eqb u w) eqn:E; [apply Nat.eqb_eq in E; subst; exfalso|reflexivity] end;
    try congruence; try (eapply Hs; reflexivity); try (eapply Hr; reflexivity);
    try match goal with H : queue _ = _ :: _ |- _ => cbn in H; rewrite H in Hq end; cbn [hd_error] in Hq; congruence.
Qed.

(* the layer: a step on object A leaves the DATA of every other object alone, and changes the ONE
   agent table only where the base step of A does *)
Theorem mx_step_frame kind o t G L x rest : mtodo L = x :: rest ->
  let G' := fst (mx_tstep kind o t G L) in
  (forall X, X <> fst x -> objs G' X = objs G X) /\
  (forall u, u <> t -> hd_error (queue (objs G (fst x))) <> Some u -> (forall chk k, mpc L <> ResWait u chk k) ->
             snd x <> StaleResume u -> mag G' u = mag G u).
Proof.
  intros Hm G'. subst G'. unfold mx_tstep. rewrite Hm. cbn [fst objs mag]. split.
  - intros X HX. now apply updo_other.
  - intros u Hu Hq Hr Hs.
    rewrite (sem_tstep_agent_frame kind o t (view G (fst x)) (cur_view L) u); auto.
    unfold cur_view. cbn [todo]. rewrite Hm. intros r0 E. injection E as E _. congruence.
Qed.
