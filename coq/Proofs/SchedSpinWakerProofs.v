(* Proofs/SchedSpinWakerProofs.v — C02, round p13a: the spinning waker (set_thread_state with
   retry_on_active = false, Model/SchedSpinWaker.v) does not lose the wake-up.

   1. sstep_refines: every step of the layer is either the spin's stutter (the thread is inside
      set_thread_state(u, false) at the load, u exists and its word reads active; nothing
      changes) or exactly the step of Model/Sched.v on the base view.
   2. spin_exit: a spinning waker that finds the word not active leaves the load exactly as the
      ordinary waker does: done on pending / terminated / unknown object, to the tagged CAS on
      suspended / pending_boost.
   3. spin_reach: every reachable configuration of the layer has a base view that is reachable in
      Sched.v (so AllInv of SchedRecycleProofs holds of it), and SpinInv: a spinning task phase
      runs a user body (never a retry helper).
   4. spin_waker_not_lost: the stuck-state theorem. *)
From Coq Require Import List NArith Bool Arith Lia.
From Pika Require Import Base.Conc Gen.GenEnums Model.Sched Model.SchedSpinWaker Proofs.SchedProofs
  Proofs.SchedWakeProofs Proofs.SchedRecycleProofs Proofs.SchedInterruptProofs.
Import ListNotations.

(* ------------------------------------------------------------------ the spin step, locally *)
Lemma spin_at_some g l u :
  spin_at g l = Some u <-> spinning l u /\ u < ntasks g /\ st (tw_of g u) = st_active.
Proof.
  unfold spin_at, spinning. split.
  - destruct (sub_of (bpc l)) as [|v|v|v prev|v]; try discriminate.
    destruct (nr l) eqn:En; [|discriminate]. destruct (v <? ntasks g) eqn:El; [|discriminate].
    destruct (sst_beq (st (tw_of g v)) st_active) eqn:Es; [|discriminate]. cbn.
    intros E. inversion E; subst v. apply Nat.ltb_lt in El. apply sst_beq_true in Es. auto.
  - intros ((En & Es) & Hl & Ha). rewrite Es, En. apply Nat.ltb_lt in Hl. rewrite Hl, Ha. reflexivity.
Qed.

Lemma sstep_refines o me g l :
  (exists u, spin_at g l = Some u /\ sstep o me g l = (g, l)) \/
  (spin_at g l = None /\
   fst (sstep o me g l) = fst (tstep (so o) me g (bpc l)) /\
   bpc (snd (sstep o me g l)) = snd (tstep (so o) me g (bpc l)) /\
   nr (snd (sstep o me g l)) = nr_next o l (snd (tstep (so o) me g (bpc l)))).
Proof.
  unfold sstep. destruct (spin_at g l) as [u|] eqn:E; [left; exists u; auto | right; cbn; auto].
Qed.

(* the spin ends only through the ordinary non-active branches of set_thread_state *)
Lemma spin_exit o me g l u :
  spinning l u -> spin_at g l = None ->
  let r := sstep o me g l in
  fst r = g /\
  ((sub_of (bpc (snd r)) = SNone /\ nr (snd r) = false /\
    (ntasks g <= u \/ (st (tw_of g u) <> st_active /\ st (tw_of g u) <> st_suspended /\
                       st (tw_of g u) <> st_pending_boost))) \/
   (sub_of (bpc (snd r)) = SCas u (tw_of g u) /\ nr (snd r) = true /\ u < ntasks g /\
    (st (tw_of g u) = st_suspended \/ st (tw_of g u) = st_pending_boost))).
Proof.
  intros [En Es] Hsp r. subst r.
  destruct (sstep_refines o me g l) as [(v & E & _)|(_ & E1 & E2 & E3)]; [congruence|].
  rewrite E1, E2, E3. unfold nr_next. rewrite Es, En.
  destruct (step_sub (so o) me g (bpc l) (SLoad u) Es ltac:(discriminate)) as [F1 F2].
  rewrite F1, F2. cbn [sub_step].
  destruct (u <? ntasks g) eqn:El.
  - apply Nat.ltb_lt in El.
    assert (Hna : st (tw_of g u) <> st_active).
    { intros Ha. assert (H : spin_at g l = Some u) by (apply spin_at_some; unfold spinning; auto). congruence. }
    destruct (st (tw_of g u)) eqn:Est; cbn [fst snd is_snone negb andb];
      try (split; [reflexivity|]; left; repeat split; auto; right; repeat split; discriminate);
      try (split; [reflexivity|]; right; repeat split; auto; fail).
    congruence.
  - apply Nat.ltb_ge in El. cbn [fst snd is_snone negb andb]. split; [reflexivity|]. left. auto.
Qed.

(* ------------------------------------------------------------------ the base view is reachable *)
Definition SpinInv (g : G) (ls : nat -> spc) : Prop :=
  forall a, nr (ls a) = true ->
    match bpc (ls a) with WRun t _ _ => is_user (todo (tasks g t)) | _ => True end.

Lemma sub_step_not_issue g s : is_issue (snd (sub_step g s)) = false.
Proof.
  destruct s as [|u|u|u prev|u]; cbn [sub_step]; try reflexivity.
  - destruct (reg (tasks g u)); reflexivity.
  - destruct (u <? ntasks g); [|reflexivity]. destruct (st (tw_of g u)); reflexivity.
  - destruct (word_eqb (tw_of g u) prev); [|reflexivity].
    destruct (sst_beq (st prev) st_suspended); reflexivity.
Qed.

(* a step that enters the waker's critical section: if it is made by a task phase, the task runs
   a user body afterwards *)
Lemma tstep_issue o a g l :
  is_issue (sub_of (snd (tstep o a g l))) = true ->
  match snd (tstep o a g l) with
  | WRun t _ _ => is_user (todo (tasks (fst (tstep o a g l)) t))
  | _ => True
  end.
Proof.
  destruct l as [|t|t w0|t orig s|t orig ret|t orig ret cur|t|t prev|t|t|acts s]; cbn [tstep].
  - destruct (ob o); [destruct (nth_error (pend g) (oi o)) | destruct (nth_error (staged g) (oi o)); [|destruct (term g)]]; intros; exact I.
  - intros; exact I.
  - destruct (st w0); try (intros; exact I). destruct (word_eqb (tw_of g t) w0); [|intros; exact I].
    cbn. discriminate.
  - destruct s.
    2-5: match goal with |- context [sub_step ?gg ?s] =>
           assert (Hn := sub_step_not_issue gg s); destruct (sub_step gg s) as [g' s'];
           cbn in *; congruence end.
    unfold run_act. destruct (todo (tasks g t)) as [[|ac r]|u prev|u] eqn:Etd.
    + intros; exact I.
    + destruct ac; cbn [fst snd sub_of is_issue]; try discriminate; try (intros; exact I).
      intros _. cbn. rewrite upd_same. exact I.
    + destruct (sst_beq (st (tw_of g u)) (st prev) && negb (word_eqb (tw_of g u) prev)); cbn; discriminate.
    + cbn. discriminate.
  - intros; exact I.
  - destruct (word_eqb (tw_of g t) orig); [|intros; exact I]. destruct ret; intros; exact I.
  - intros; exact I.
  - destruct (word_eqb (tw_of g t) prev); intros; exact I.
  - intros; exact I.
  - intros; exact I.
  - destruct s.
    2-5: match goal with |- context [sub_step ?gg ?s] => destruct (sub_step gg s); intros; exact I end.
    destruct acts as [|ac r]; [intros; exact I|]. destruct ac; intros; exact I.
Qed.

Lemma user_kept g g' t orig s :
  ustable g g' -> heap_ok g -> main_ok (ntasks g) (tw_of g) (WRun t orig s) ->
  is_user (todo (tasks g t)) -> is_user (todo (tasks g' t)).
Proof.
  intros [_ Hst] HH (Ht & Hw & Ha) Hu. apply Hst; auto.
  intros Hin. destruct (HH t Hin) as [_ Hx]. rewrite Hw in Hx. congruence.
Qed.

Lemma nr_next_user o me g (l : spc) :
  pc_ok (ntasks g) (tw_of g) (bpc l) -> heap_ok g ->
  (nr l = true -> match bpc l with WRun t _ _ => is_user (todo (tasks g t)) | _ => True end) ->
  nr_next o l (snd (tstep (so o) me g (bpc l))) = true ->
  match snd (tstep (so o) me g (bpc l)) with
  | WRun t _ _ => is_user (todo (tasks (fst (tstep (so o) me g (bpc l))) t))
  | _ => True
  end.
Proof.
  intros [Hm _] HH Hinv. unfold nr_next. destruct (sub_of (bpc l)) eqn:Es.
  - intros H. apply andb_true_iff in H. destruct H as [_ H]. now apply tstep_issue.
  - intros H. apply andb_true_iff in H. destruct H as [Hn _]. specialize (Hinv Hn).
    destruct (bpc l) as [|t|t w0|t orig s|t orig ret|t orig ret cur|t|t prev|t|t|acts s]; cbn [sub_of] in Es; try discriminate; subst s.
    + rewrite step_sub_WRun by discriminate. cbn [fst snd].
      eapply user_kept; eauto. apply sub_step_ustable.
    + rewrite step_sub_XRun by discriminate. exact I.
  - intros H. apply andb_true_iff in H. destruct H as [Hn _]. specialize (Hinv Hn).
    destruct (bpc l) as [|t|t w0|t orig s|t orig ret|t orig ret cur|t|t prev|t|t|acts s]; cbn [sub_of] in Es; try discriminate; subst s.
    + rewrite step_sub_WRun by discriminate. cbn [fst snd].
      eapply user_kept; eauto. apply sub_step_ustable.
    + rewrite step_sub_XRun by discriminate. exact I.
  - intros H. apply andb_true_iff in H. destruct H as [Hn _]. specialize (Hinv Hn).
    destruct (bpc l) as [|t|t w0|t orig s|t orig ret|t orig ret cur|t|t prev0|t|t|acts s]; cbn [sub_of] in Es; try discriminate; subst s.
    + rewrite step_sub_WRun by discriminate. cbn [fst snd].
      eapply user_kept; eauto. apply sub_step_ustable.
    + rewrite step_sub_XRun by discriminate. exact I.
  - intros H. apply andb_true_iff in H. destruct H as [Hn _]. specialize (Hinv Hn).
    destruct (bpc l) as [|t|t w0|t orig s|t orig ret|t orig ret cur|t|t prev|t|t|acts s]; cbn [sub_of] in Es; try discriminate; subst s.
    + rewrite step_sub_WRun by discriminate. cbn [fst snd].
      eapply user_kept; eauto. apply sub_step_ustable.
    + rewrite step_sub_XRun by discriminate. exact I.
Qed.

Lemma spin_run_snoc ssched ext a o :
  spin_run (ssched ++ [(a, o)]) ext = step sstep (spin_run ssched ext) (a, o).
Proof. unfold spin_run. now rewrite run_app. Qed.

Lemma sstep_fst_snd (c : G * (nat -> spc)) a o :
  fst (step sstep c (a, o)) = fst (sstep o a (fst c) (snd c a)) /\
  (forall b, snd (step sstep c (a, o)) b = if Nat.eqb b a then snd (sstep o a (fst c) (snd c a)) else snd c b).
Proof.
  unfold step, locals. destruct (sstep o a (fst c) (snd c a)) as [g' l']. cbn [fst snd]. split; reflexivity.
Qed.

Lemma step_snd_pt (c : G * (nat -> pc)) a o b :
  snd (step tstep c (a, o)) b = if Nat.eqb b a then snd (tstep o a (fst c) (snd c a)) else snd c b.
Proof.
  unfold step, locals. destruct (tstep o a (fst c) (snd c a)) as [g' l']. cbn [fst snd]. reflexivity.
Qed.

Lemma SInvV_ls_ext n pd wf (ls ls' : nat -> pc) :
  (forall b, ls' b = ls b) -> SInvV n pd wf ls -> SInvV n pd wf ls'.
Proof.
  intros E [A1 A2 A3 A4 A5 A6 A7]. constructor; auto.
  - intros a. rewrite E. apply A3.
  - intros a b t. rewrite !E. apply A4.
  - intros a t. rewrite E. apply A5.
  - intros t Ht Hl. destruct (A6 t Ht Hl) as [H|[b H]]; auto. right. exists b. now rewrite E.
Qed.

Theorem spin_reach ssched ext :
  let c := spin_run ssched ext in
  exists sched,
    fst c = fst (sched_run sched ext) /\
    (forall i, bpc (snd c i) = snd (sched_run sched ext) i) /\
    SpinInv (fst c) (snd c).
Proof.
  induction ssched as [|[a o] ssched IH] using rev_ind.
  - exists []. cbn. split; [reflexivity|]. split; [intros; reflexivity|]. intros a H. cbn in H. discriminate.
  - cbn zeta in *. rewrite spin_run_snoc. set (c := spin_run ssched ext) in *.
    destruct IH as (sched & Hg & Hpt & HS).
    destruct (sstep_fst_snd c a o) as [E1 E2]. unfold locals in E1, E2 |- *. rewrite E1.
    destruct (sstep_refines o a (fst c) (snd c a)) as [(u & Hsp & Est)|(Hsp & F1 & F2 & F3)].
    + (* the spin: nothing changes *)
      exists sched. rewrite Est. cbn [fst]. split; [exact Hg|]. split.
      * intros i. rewrite E2, Est. cbn [snd]. destruct (Nat.eqb i a) eqn:Ei; [apply Nat.eqb_eq in Ei; subst i|]; apply Hpt.
      * intros b. rewrite E2, Est. cbn [snd]. destruct (Nat.eqb b a) eqn:Ei; [apply Nat.eqb_eq in Ei; subst b|]; apply HS.
    + (* a base step *)
      exists (sched ++ [(a, so o)]). rewrite sched_run_snoc. set (cb := sched_run sched ext) in *.
      assert (Et : tstep (so o) a (fst c) (bpc (snd c a)) = tstep (so o) a (fst cb) (snd cb a)).
      { rewrite Hg, Hpt. reflexivity. }
      destruct (step_fst_snd cb a (so o)) as [G1 _]. unfold locals in G1.
      split; [rewrite F1, G1, Et; reflexivity|]. split.
      * intros i. rewrite E2, step_snd_pt. destruct (Nat.eqb i a); [rewrite F2, Et; reflexivity | apply Hpt].
      * assert (HI : SInv (fst c) (base_ls (snd c))).
        { unfold SInv. apply SInvV_ls_ext with (ls := snd cb); [intros b; apply Hpt|].
          rewrite Hg. apply (SInv_reach sched ext). }
        assert (HH : heap_ok (fst c)).
        { rewrite Hg. apply (heap_ok_of _ _ (RInv_reach sched ext)). }
        intros b. rewrite E2, F1. destruct (Nat.eqb b a) eqn:Ei.
        -- rewrite F2, F3. apply nr_next_user; auto.
           ++ apply (i_pc _ _ _ _ HI a).
           ++ apply HS.
        -- intros Hn. specialize (HS b Hn). assert (Hpc := i_pc _ _ _ _ HI b). unfold base_ls in Hpc.
           destruct (bpc (snd c b)); try exact I.
           destruct Hpc as [Hm _]. eapply user_kept; eauto. apply tstep_ustable.
Qed.

(* ------------------------------------------------------------------ stuck configurations *)
Lemma sstuck_thread (c : G * (nat -> spc)) a :
  sstuck c ->
  (exists u, spin_at (fst c) (snd c a) = Some u) \/
  ((bpc (snd c a) = WTop \/ bpc (snd c a) = XRun [] SNone) /\
   forall o, tstep o a (fst c) (bpc (snd c a)) = (fst c, bpc (snd c a))).
Proof.
  intros Hst. destruct (spin_at (fst c) (snd c a)) as [u|] eqn:E; [left; eauto|right].
  assert (H : forall o, tstep o a (fst c) (bpc (snd c a)) = (fst c, bpc (snd c a))).
  { intros o. specialize (Hst a {| so := o; sint := false |}). unfold sstep in Hst. rewrite E in Hst.
    cbn [so] in Hst.
    assert (H1 := f_equal fst Hst). assert (H2 := f_equal (fun x => bpc (snd x)) Hst).
    cbn [fst snd bpc] in H1, H2.
    rewrite (surjective_pairing (tstep o a (fst c) (bpc (snd c a)))). now rewrite H1, H2. }
  split; [|exact H]. apply (stuck_pc a (fst c)). apply H.
Qed.

(* unconditional part (no hypothesis on the workers, any configuration): in a stuck configuration
   a thread that is still inside the retry_on_active = false loop re-reads a word that IS active *)
Lemma spinner_target_active_when_stuck (c : G * (nat -> spc)) :
  sstuck c -> forall a u, spinning (snd c a) u ->
  u < ntasks (fst c) /\ st (tw_of (fst c) u) = st_active.
Proof.
  intros Hst a u Hspn. destruct (sstuck_thread c a Hst) as [[v E]|[[E|E] _]].
  - apply spin_at_some in E. destruct E as ([_ Es] & Hl & Ha). destruct Hspn as [_ Es'].
    rewrite Es in Es'. inversion Es'; subst. auto.
  - destruct Hspn as [_ Es]. rewrite E in Es. discriminate.
  - destruct Hspn as [_ Es]. rewrite E in Es. discriminate.
Qed.

(* the stuck-state theorem of the layer.  w is a worker of the pool that is not itself spinning
   (see Model/SchedSpinWaker.v: a spinning TASK keeps its worker in this model; in the code its
   yield_k gives the worker up) *)
Theorem spin_waker_not_lost ssched ext w :
  ext w = None ->
  let c := spin_run ssched ext in
  sstuck c ->
  spin_at (fst c) (snd c w) = None ->
  (* a waker that is still spinning has an existing target whose word is active: no spinning
     waker's target is suspended (woken or not), pending or terminated *)
  (forall a u, spinning (snd c a) u -> u < ntasks (fst c) /\ st (tw_of (fst c) u) = st_active) /\
  (* no wake-up is lost: nobody is suspended in the suspension that ended the phase for which a
     wake-up (notify or interrupt) was issued *)
  (forall u p, u < ntasks (fst c) -> wake (tasks (fst c) u) = Some p -> tw_of (fst c) u <> wS (p + 1)) /\
  (* and a task still ACTIVE in the phase for which a wake-up was issued is itself a spinning
     waker (it is inside the body, on a thread that re-reads some active word) *)
  (forall u p, u < ntasks (fst c) -> wake (tasks (fst c) u) = Some p -> tw_of (fst c) u = wA p ->
     exists a v, running (bpc (snd c a)) u /\ spin_at (fst c) (snd c a) = Some v).
Proof.
  intros Hw c Hst Hnsw.
  destruct (spin_reach ssched ext) as (sched & Hg & Hpt & HS). fold c in Hg, Hpt, HS.
  set (cb := sched_run sched ext) in *.
  assert (HI := SInv_reach sched ext). destruct (WInv_reach sched ext) as [HW _]. fold cb in HI, HW.
  rewrite <- Hg in HI, HW.
  (* the worker w is at WTop: the queues are empty *)
  assert (Hwt : bpc (snd c w) = WTop /\ forall o, tstep o w (fst c) WTop = (fst c, WTop)).
  { destruct (sstuck_thread c w Hst) as [[u E]|[[E|E] H]]; [congruence| |].
    - rewrite E in H. auto.
    - assert (R := role_reach sched ext w). fold cb in R. rewrite <- Hpt, E, Hw in R. discriminate R. }
  destruct Hwt as [Hwt Hws].
  assert (Hp : pend (fst c) = []).
  { specialize (Hws o_pop0). cbn in Hws.
    destruct (pend (fst c)) as [|t p] eqn:E; [reflexivity|]. cbn in Hws. inversion Hws. }
  assert (Hs : staged (fst c) = []).
  { specialize (Hws o_conv0). cbn in Hws.
    destruct (staged (fst c)) as [|b p] eqn:E; [reflexivity|]. cbn in Hws. inversion Hws as [[Hgg]].
    apply (f_equal ninc) in Hgg. cbn in Hgg. lia. }
  (* who can hold a handle of a live task in a stuck configuration: only a spinning task phase *)
  assert (Hhold : forall a t, holds (snd cb a) t ->
            exists v orig, spin_at (fst c) (snd c a) = Some v /\ bpc (snd c a) = WRun t orig (SLoad v)).
  { intros a t Hh. rewrite <- Hpt in Hh.
    destruct (sstuck_thread c a Hst) as [[v E]|[[E|E] _]].
    - exists v. assert (E' := E). apply spin_at_some in E'. destruct E' as ([_ Es] & _ & _).
      destruct Hh as [Hm|He].
      + destruct (bpc (snd c a)) as [|t'|t' w0|t' orig s|t' orig ret|t' orig ret cur|t'|t' prev|t'|t'|acts s];
          cbn [sub_of] in Es; try discriminate; cbn [main_of] in Hm; try discriminate.
        inversion Hm; subst. eauto.
      + unfold enq_of in He. rewrite Es in He. discriminate.
    - rewrite E in Hh. hno Hh.
    - rewrite E in Hh. hno Hh. }
  split; [|split].
  - intros a u Hspn. destruct (sstuck_thread c a Hst) as [[v E]|[[E|E] _]].
    + apply spin_at_some in E. destruct E as ([_ Es] & Hl & Ha). destruct Hspn as [_ Es'].
      rewrite Es in Es'. inversion Es'; subst. auto.
    + destruct Hspn as [_ Es]. rewrite E in Es. discriminate.
    + destruct Hspn as [_ Es]. rewrite E in Es. discriminate.
  - intros u p Hu Hwk Ew.
    assert (Hn : needs_wake (fst c) u p) by (split; auto).
    destruct (HW u p Hu Hn) as [[a Ha]|[Hh|(h & Hh & Hd & Hr)]].
    + rewrite <- Hpt in Ha. destruct (sstuck_thread c a Hst) as [[v E]|[[E|E] _]].
      * apply spin_at_some in E. destruct E as ([_ Es] & Hl & Hact). rewrite Es in Ha. cbn in Ha. subst v.
        rewrite Ew in Hact. discriminate.
      * rewrite E in Ha. exact Ha.
      * rewrite E in Ha. exact Ha.
    + rewrite Hs in Hh. exact Hh.
    + assert (Hl : live_st (st (tw_of (fst c) h))) by (destruct Hr as [Hr|Hr]; rewrite Hr; unfold live_st; auto).
      destruct (i_exist _ _ _ _ HI h Hh Hl) as [H|[a H]].
      * rewrite Hp in H. exact H.
      * destruct (Hhold a h H) as (v & orig & E & Epc).
        apply spin_at_some in E. destruct E as ([En _] & _). specialize (HS a En). rewrite Epc, Hd in HS. exact HS.
  - intros u p Hu Hwk Ew.
    assert (Hl : live_st (st (tw_of (fst c) u))) by (rewrite Ew; unfold live_st; auto).
    destruct (i_exist _ _ _ _ HI u Hu Hl) as [H|[a H]].
    + rewrite Hp in H. destruct H.
    + destruct (Hhold a u H) as (v & orig & E & Epc). exists a, v. rewrite Epc. split; [reflexivity|exact E].
Qed.

(* a worker stays a worker in the layer too *)
Lemma spin_role ssched ext a :
  is_ext (bpc (snd (spin_run ssched ext) a)) = match ext a with Some _ => true | None => false end.
Proof.
  destruct (spin_reach ssched ext) as (sched & _ & Hpt & _). rewrite Hpt. apply role_reach.
Qed.

(* the case in which the model is exact: in the stuck configuration no pool worker is spinning
   (whatever still spins is an OS thread, whose yield_k touches no scheduler state).  Then the
   conclusion is that of no_lost_wakeup, word for word *)
Corollary spin_waker_not_lost_os ssched ext w :
  ext w = None ->
  let c := spin_run ssched ext in
  sstuck c ->
  (forall a, ext a = None -> spin_at (fst c) (snd c a) = None) ->
  forall u p, u < ntasks (fst c) -> wake (tasks (fst c) u) = Some p ->
    tw_of (fst c) u <> wS (p + 1) /\ tw_of (fst c) u <> wA p.
Proof.
  intros Hw c Hst Hns u p Hu Hwk.
  destruct (spin_waker_not_lost ssched ext w Hw Hst (Hns w Hw)) as (_ & H2 & H3). fold c in H2, H3.
  split; [now apply H2|]. intros E. destruct (H3 u p Hu Hwk E) as (a & v & Hr & Hsp).
  assert (R := spin_role ssched ext a). fold c in R.
  destruct (ext a) eqn:Ea.
  - destruct (bpc (snd c a)); cbn in Hr; try contradiction; discriminate R.
  - rewrite (Hns a Ea) in Hsp. discriminate.
Qed.

(* ------------------------------------------------------------------ non-vacuity *)
Definition sN (a : nat) : nat * soracle := (a, {| so := oP; sint := false |}).
Definition sI (a : nat) : nat * soracle := (a, {| so := oP; sint := true |}).
(* nv_ext of SchedWakeProofs: OS thread 0 creates T = [Register; Suspend] and then wakes it; here
   the wake-up is an interrupt (sI: retry_on_active = false), issued while T is registered and
   still active *)
Definition spin_sched_issue : list (nat * soracle) :=
  [sN 0; sN 1; sN 1; sN 1; sN 1;     (* T created, active, registered (reg = Some 1) *)
   sI 0; sN 0].                      (* Resume T as an interrupt: SIssue (wake = Some 1), now at SLoad T *)
Definition spin_sched_spun : list (nat * soracle) :=
  spin_sched_issue ++ [sN 0; sN 0].  (* two re-reads of the active word: nothing changes *)
Definition spin_sched_susp : list (nat * soracle) :=
  spin_sched_spun ++ [sN 1; sN 1; sN 1].     (* T's worker stores (suspended, 2) *)
Definition spin_sched_woken : list (nat * soracle) :=
  spin_sched_susp ++ [sN 1; sN 0; sN 0; sN 0].   (* the waker: load, CAS -> (pending, 3), enqueue *)
Definition spin_sched_done : list (nat * soracle) :=
  spin_sched_woken ++ [sN 1; sN 1; sN 1; sN 1; sN 1; sN 1; sN 1; sN 1].   (* T runs again and terminates *)

(* a stuck configuration WITH a spinning waker: a task whose interrupt targets its own thread
   object (this_thread::interrupt() is interrupt_thread(get_self_id())) re-reads its own active
   word for ever.  (In the code the re-read loop leaves through yield_k -> do_yield's
   interruption point when interruption is enabled; that exit is not modelled.) *)
Definition self_ext : nat -> option (list act) :=
  fun i => match i with 0 => Some [Spawn [Resume 0] true] | _ => None end.
Definition self_sched : list (nat * soracle) := [sN 0; sN 1; sN 1; sN 1; sI 1; sN 1].

Lemma spin_self_stuck :
  let c := spin_run self_sched self_ext in
  sstuck c /\ spin_at (fst c) (snd c 1) = Some 0 /\ running (bpc (snd c 1)) 0 /\
  spin_at (fst c) (snd c 2) = None.
Proof.
  split; [|vm_compute; auto].
  intros a [[i b h] s]. destruct a as [|[|a]].
  - destruct s; vm_compute; reflexivity.
  - vm_compute; reflexivity.
  - destruct s, b, i; vm_compute; reflexivity.
Qed.

(* the run of the interrupt example, continued by one idle iteration (cleanup of the terminated
   object), is stuck with nobody spinning: the hypotheses of spin_waker_not_lost_os are satisfiable
   by a run in which a waker did spin *)
Definition spin_sched_end : list (nat * soracle) := spin_sched_done ++ [(1, {| so := oC; sint := false |})].
Lemma spin_end_stuck :
  let c := spin_run spin_sched_end nv_ext in
  sstuck c /\ (forall a, spin_at (fst c) (snd c a) = None) /\ st (tw_of (fst c) 0) = st_terminated.
Proof.
  split; [|split; [|vm_compute; reflexivity]].
  - intros a [[i b h] s]. destruct a as [|[|a]].
    + destruct s; vm_compute; reflexivity.
    + destruct s, b, i; vm_compute; reflexivity.
    + destruct s, b, i; vm_compute; reflexivity.
  - intros a. destruct a as [|[|a]]; vm_compute; reflexivity.
Qed.
