(* Proofs/BulkChunkLoop.v — C11: the per-chunk loop of do_work_chunk on every chunk the arithmetic can
   produce.  Combines [chunks_partition] (every chunk index idx < k has 0 <= i_begin < i_end <= n < 2^bits)
   with [solo_chunk] (the model's loop from i_begin with i_end - i_begin indices makes exactly the calls
   [chunk_calls] predicts): the no-wrap hypothesis of [solo_chunk] holds for every real chunk, so the
   increment `++i` of the shape type never wraps inside a chunk, whatever the shape type. *)
From Coq Require Import List NArith Lia Bool Arith.
From Pika Require Import Base.Conc Model.IndexQueue Proofs.IndexQueueProofs Model.Bulk
  Proofs.BulkArith Proofs.BulkProofs Proofs.BulkChunkCalls.
Import ListNotations.
Local Open Scope N_scope.

Lemma real_chunk_loop cf t off idx g c : guard cf -> 0 < cn cf ->
  get_chunk_size (N.of_nat (cW cf)) (cn cf) = Some c -> idx < get_num_chunks (cn cf) c ->
  let i := chunk_begin (cbits cf) c idx in
  let e := chunk_end (cbits cf) c (cn cf) idx in
  let fuel := N.to_nat (e - i) in
  let r := chunk_calls (cthrows cf) i fuel 0 in
  let k := N.to_nat (fst r) in
  let c' := solo cf t (2 * k) (g, BRun off idx i e) in
  i < e /\ e <= cn cf /\
  map fst (calls (fst c')) = rev (map (fun d => i + N.of_nat d) (seq 0 k)) ++ map fst (calls g) /\
  snd c' = (if snd r then BExch (i + fst r - 1) else BRun off idx e e) /\
  sigs (fst c') = sigs g /\ remaining (fst c') = remaining g /\ queues (fst c') = queues g /\
  ((forall j, i <= j -> j < e -> cthrows cf j = false) -> fst r = e - i /\ snd r = false).
Proof.
  intros [HW [Hl [Hb Hn]]] Hpos Hc Hidx. cbn zeta.
  destruct (chunks_partition (cbits cf) (N.of_nat (cW cf)) (cn cf) HW Hpos Hn Hb) as [c0 [Hc0 [_ Hrest]]].
  rewrite Hc in Hc0. injection Hc0 as <-. cbn zeta in Hrest.
  destruct Hrest as [_ [Hch _]]. destruct (Hch idx Hidx) as [_ [Hlt Hle]].
  set (i := chunk_begin (cbits cf) c idx) in *.
  set (e := chunk_end (cbits cf) c (cn cf) idx) in *.
  assert (He : e = i + N.of_nat (N.to_nat (e - i))) by lia.
  assert (Hlt2 : e < 2 ^ cbits cf) by lia.
  destruct (solo_chunk cf t off idx (N.to_nat (e - i)) i e g He Hlt2) as [H1 [H2 [H3 [H4 H5]]]].
  repeat (split; [assumption|]).
  intros Hno. rewrite chunk_calls_nothrow.
  - cbn [fst snd]. split; [lia|reflexivity].
  - intros j Hj1 Hj2. apply Hno; lia.
Qed.
