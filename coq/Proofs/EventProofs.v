(* Proofs/EventProofs.v — event: wait returns only when the event was seen set; once it is set
   (and stays set) every current and future waiter returns. *)
From Coq Require Import List Bool Arith Lia.
From Pika Require Import Base.Conc Base.Agent Model.Event.
Import ListNotations.

Ltac tcase t0 t :=
  let Hq := fresh "Heq" in let Hn := fresh "Hne" in
  destruct (Nat.eq_dec t0 t) as [Hq|Hn]; [subst t0; rewrite ?upd_same in *|rewrite ?upd_other in * by assumption].

Lemma ev_step_done_wait t e pc e' : (pc = EW0 \/ pc = EW1 \/ pc = ERw) -> ev_step t e pc = (e', EDone) -> flag e = true.
Proof.
  intros [-> | [-> | ->]]; cbn [ev_step].
  - destruct (flag e); [reflexivity|discriminate].
  - destruct (elocked e); [discriminate|]. destruct (flag e); [reflexivity|discriminate].
  - destruct (elocked e); [discriminate|]. destruct (flag e); [reflexivity|discriminate].
Qed.

Definition wait_pc (pc : epc) : bool :=
  match pc with EW0 | EW1 | ESusp | EBlk | ERw => true | _ => false end.
Definition set_pc (pc : epc) : bool := match pc with ES0 | ES1 | ESN _ => true | _ => false end.

(* the sub-program-counter always belongs to the operation at the head of the program *)
Definition EWf (ls : locals elocal) : Prop :=
  forall t pc, epcs (ls t) = Some pc ->
    match eprog (ls t) with
    | EWait :: _ => wait_pc pc = true
    | ESet :: _ => set_pc pc = true
    | EReset :: _ => pc = ER0
    | EOcc :: _ => False
    | [] => False
    end.

Lemma ev_step_wait_closed t e pc e' pc' : wait_pc pc = true -> ev_step t e pc = (e', pc') ->
  wait_pc pc' = true \/ pc' = EDone.
Proof.
  destruct pc; try discriminate; intros _; cbn [ev_step].
  - destruct (flag e); intros Hx; inversion Hx; auto.
  - destruct (elocked e); [intros Hx; inversion Hx; auto|]. destruct (flag e); intros Hx; inversion Hx; auto.
  - destruct (a_suspend (eag e t)) as [a r]. destruct r; intros Hx; inversion Hx; auto.
  - destruct (blocked (eag e t)); intros Hx; inversion Hx; auto.
  - destruct (elocked e); [intros Hx; inversion Hx; auto|]. destruct (flag e); intros Hx; inversion Hx; auto.
Qed.
Lemma ev_step_set_closed t e pc e' pc' : set_pc pc = true -> ev_step t e pc = (e', pc') ->
  set_pc pc' = true \/ pc' = EDone.
Proof.
  destruct pc as [| | | | | | |[|w r]| |]; try discriminate; intros _; cbn [ev_step]; try (intros Hx; inversion Hx; auto; fail).
  destruct (elocked e); intros Hx; inversion Hx; auto.
Qed.

Lemma EWf_step o t g (ls : locals elocal) : EWf ls -> EWf (upd ls t (snd (e_tstep o t g (ls t)))).
Proof.
  intros W t0 pc0 H0. destruct (Nat.eq_dec t0 t) as [Heq|Hne].
  2:{ rewrite upd_other in H0 |- * by assumption. apply W; exact H0. }
  subst t0. rewrite upd_same in H0 |- *.
  unfold e_tstep in *. destruct o; [|apply W; exact H0].
  destruct (epcs (ls t)) as [pc|] eqn:Hpc.
  - destruct (ev_step t (est g) pc) as [e' pc'] eqn:Hst. specialize (W t pc Hpc).
    destruct pc'; cbn [snd epcs eprog] in *; try discriminate; inversion H0; subst;
      destruct (eprog (ls t)) as [|[| | |] r]; try contradiction;
      try (destruct (ev_step_wait_closed _ _ _ _ _ W Hst) as [H|H]; [exact H|discriminate]);
      try (destruct (ev_step_set_closed _ _ _ _ _ W Hst) as [H|H]; [exact H|discriminate]);
      try (subst pc; cbn in Hst; inversion Hst).
  - destruct (eprog (ls t)) as [|[| | |] r]; cbn [snd epcs eprog] in *; [congruence| | | |discriminate];
      inversion H0; subst; reflexivity.
Qed.

(* safety: a wait returns only at a step at which it saw the event set *)
Lemma event_wait_saw_set sched progs :
  forall t b, In (ERet t b) (elog (fst (e_run sched progs))) -> b = true.
Proof.
  unfold e_run.
  apply (run_inv _ _ _ e_tstep (fun g ls => EWf ls /\ forall t b, In (ERet t b) (elog g) -> b = true)).
  - intros o t g ls [W H]. split; [apply EWf_step; exact W|].
    unfold e_tstep. destruct o; [|exact H].
    destruct (epcs (ls t)) as [pc|] eqn:Hpc.
    + destruct (ev_step t (est g) pc) as [e' pc'] eqn:Hst. specialize (W t pc Hpc).
      destruct pc'; cbn [fst elog]; try exact H.
      destruct (eprog (ls t)) as [|[| | |] r]; try contradiction; cbn [app].
      * intros t0 b [H0|H0]; [|eauto]. injection H0 as H01 H02. subst b.
        apply (ev_step_done_wait t _ pc e'); [|exact Hst].
        destruct pc; try discriminate; auto; exfalso; cbn [ev_step] in Hst.
        -- destruct (a_suspend (eag (est g) t)) as [a rr]. destruct rr; discriminate.
        -- destruct (blocked (eag (est g) t)); discriminate.
      * intros t0 b [H0|H0]; [discriminate|eauto].
      * exact H.
    + destruct (eprog (ls t)) as [|[| | |] r]; try exact H.
      cbn [fst elog]. intros t0 b [H0|H0]; [discriminate|eauto].
  - split; [intros t pc H; discriminate|intros t b []].
Qed.

(* ---------- progress ---------- *)
Definition inpend (ls : locals elocal) (t : nat) : Prop :=
  exists s p, epcs (ls s) = Some (ESN p) /\ In t p.

Record ELive (g : evs) (ls : locals elocal) : Prop := {
  o1 : forall t, elk g = Some t -> exists p, epcs (ls t) = Some (ESN p);
  o2 : forall t p, epcs (ls t) = Some (ESN p) -> elk g = Some t;
  bk : forall t, blocked (eag g t) = true -> epcs (ls t) = Some EBlk /\ (In t (ewq g) \/ inpend ls t);
  su : forall t, epcs (ls t) = Some ESusp -> In t (ewq g) \/ inpend ls t \/ tok (eag g t) = true;
  pd : flag g = true -> ewq g <> [] -> exists s, epcs (ls s) = Some ES1 }.

Lemma eremove_other t t0 l : t0 <> t -> In t0 l -> In t0 (eremove t l).
Proof.
  induction l as [|x l IH]; intros Hne H; [destruct H|]. cbn [eremove].
  destruct (Nat.eqb x t) eqn:Hx.
  - apply Nat.eqb_eq in Hx. destruct H as [H|H]; [congruence|exact H].
  - destruct H as [H|H]; [left; exact H|right; auto].
Qed.
Lemma eremove_in t t0 l : In t0 (eremove t l) -> In t0 l.
Proof.
  induction l as [|x l IH]; cbn [eremove]; [auto|]. destruct (Nat.eqb x t); intros H.
  - right. exact H.
  - destruct H as [H|H]; [left; exact H|right; auto].
Qed.

Definition not_sn (o : option epc) : Prop := forall p, o <> Some (ESN p).

(* a step of t that changes neither the lock nor any pending list and touches only t's agent *)
Lemma ELive_simple g g' ls t l' :
  ELive g ls -> elk g' = elk g ->
  not_sn (epcs (ls t)) -> not_sn (epcs l') ->
  (forall t0, t0 <> t -> eag g' t0 = eag g t0) ->
  (forall t0, t0 <> t -> In t0 (ewq g) -> In t0 (ewq g')) ->
  (blocked (eag g' t) = true -> epcs l' = Some EBlk /\ (In t (ewq g') \/ inpend ls t)) ->
  (epcs l' = Some ESusp -> In t (ewq g') \/ inpend ls t \/ tok (eag g' t) = true) ->
  (flag g' = true -> ewq g' <> [] ->
     epcs l' = Some ES1 \/ (flag g = true /\ ewq g <> [] /\ epcs (ls t) <> Some ES1)) ->
  ELive g' (upd ls t l').
Proof.
  intros L Hk Hn1 Hn2 Hag Hq Hb Hs Hp. destruct L as [A1 A2 B C D].
  assert (Hip : forall t0, inpend ls t0 -> inpend (upd ls t l') t0).
  { intros t0 [s [p [H1 H2]]]. exists s, p. split; [|exact H2].
    destruct (Nat.eq_dec s t) as [->|Hne]; [destruct (Hn1 p H1)|rewrite upd_other by exact Hne; exact H1]. }
  split.
  - intros t0 H0. rewrite Hk in H0. destruct (A1 _ H0) as [p H1]. exists p.
    destruct (Nat.eq_dec t0 t) as [->|Hne]; [destruct (Hn1 p H1)|rewrite upd_other by exact Hne; exact H1].
  - intros t0 p H0. rewrite Hk. destruct (Nat.eq_dec t0 t) as [->|Hne].
    + rewrite upd_same in H0. destruct (Hn2 p H0).
    + rewrite upd_other in H0 by exact Hne. eapply A2; exact H0.
  - intros t0 H0. destruct (Nat.eq_dec t0 t) as [->|Hne].
    + rewrite upd_same. destruct (Hb H0) as [H1 [H2|H2]]; split; auto.
    + rewrite upd_other by exact Hne. rewrite Hag in H0 by exact Hne. destruct (B _ H0) as [H1 [H2|H2]]; split; auto.
  - intros t0 H0. destruct (Nat.eq_dec t0 t) as [->|Hne].
    + rewrite upd_same in H0. destruct (Hs H0) as [H1|[H1|H1]]; auto.
    + rewrite upd_other in H0 by exact Hne. rewrite Hag by exact Hne. destruct (C _ H0) as [H1|[H1|H1]]; auto.
  - intros Hf Hne. destruct (Hp Hf Hne) as [H1|[H1 [H2 H3]]].
    + exists t. rewrite upd_same. exact H1.
    + destruct (D H1 H2) as [s Hs1]. exists s.
      destruct (Nat.eq_dec s t) as [->|Hn]; [congruence|rewrite upd_other by exact Hn; exact Hs1].
Qed.

Lemma ELive_same g ls t : ELive g ls -> ELive g (upd ls t (ls t)).
Proof.
  intros L. assert (Hq : forall t0, upd ls t (ls t) t0 = ls t0).
  { intros t0. destruct (Nat.eq_dec t0 t) as [->|Hne]; [apply upd_same|apply upd_other; exact Hne]. }
  assert (Hip : forall t0, inpend ls t0 -> inpend (upd ls t (ls t)) t0).
  { intros t0 [s [p [H1 H2]]]. exists s, p. rewrite Hq. auto. }
  destruct L as [A1 A2 B C D]. split; intros.
  - destruct (A1 _ H) as [p H1]. exists p. rewrite Hq. exact H1.
  - rewrite Hq in H. eapply A2; exact H.
  - rewrite Hq. destruct (B _ H) as [H1 [H2|H2]]; split; auto.
  - rewrite Hq in H. destruct (C _ H) as [H1|[H1|H1]]; auto.
  - destruct (D H H0) as [s H1]. exists s. rewrite Hq. exact H1.
Qed.

Lemma ELive_step o t g (ls : locals elocal) : EWf ls -> ELive (est g) ls ->
  ELive (est (fst (e_tstep o t g (ls t)))) (upd ls t (snd (e_tstep o t g (ls t)))).
Proof.
  intros W L. unfold e_tstep. destruct o; cbn [fst snd est].
  2:{ (* stale resume *)
      destruct L as [A1 A2 B C D].
      assert (Hq : forall t0, upd ls t (ls t) t0 = ls t0).
      { intros t0. destruct (Nat.eq_dec t0 t) as [->|Hne]; [apply upd_same|apply upd_other; exact Hne]. }
      assert (Hip : forall t0, inpend ls t0 -> inpend (upd ls t (ls t)) t0).
      { intros t0 [s [p [H1 H2]]]. exists s, p. rewrite Hq. auto. }
      split; cbn; intros.
      - destruct (A1 _ H) as [p H1]. exists p. rewrite Hq. exact H1.
      - rewrite Hq in H. eapply A2; exact H.
      - rewrite Hq. destruct (Nat.eqb t0 t) eqn:Ht; [cbn in H; discriminate|].
        destruct (B _ H) as [H1 [H2|H2]]; split; auto.
      - rewrite Hq in H. destruct (Nat.eqb t0 t) eqn:Ht.
        + apply Nat.eqb_eq in Ht. subst t0. right. right. cbn.
          destruct (blocked (eag (est g) t)) eqn:Hb; [|reflexivity]. destruct (B _ Hb) as [H1 _]. congruence.
        + destruct (C _ H) as [H1|[H1|H1]]; auto.
      - destruct (D H H0) as [s H1]. exists s. rewrite Hq. exact H1. }
  destruct (epcs (ls t)) as [pc|] eqn:Hpc.
  2:{ (* dispatch of the next operation: local *)
      destruct (eprog (ls t)) as [|[| | |] r]; cbn [fst snd est]; [apply ELive_same; exact L| | | |];
        apply (ELive_simple (est g) (est g) ls t _ L); cbn; auto; try (intros p Hp; congruence);
        try (intros Hb; destruct (bk _ _ L _ Hb) as [H1 _]; congruence); try discriminate;
        intros Hf Hne; right; repeat split; auto; congruence. }
  assert (Hnb : epcs (ls t) <> Some EBlk -> blocked (eag (est g) t) = false).
  { intros Hx. destruct (blocked (eag (est g) t)) eqn:Hb; [|reflexivity]. destruct (bk _ _ L _ Hb). congruence. }
  set (e := est g) in *.
  destruct pc as [| | | | | | |[|w rest]| |]; cbn [ev_step].
  - (* W0 *)
    destruct (flag e) eqn:Hf; cbn [fst snd est];
      apply (ELive_simple e e ls t _ L); cbn; auto; try (intros p Hp; congruence);
      try (intros Hb; rewrite Hnb in Hb by congruence; discriminate); try discriminate;
      intros Hf' Hne; right; repeat split; auto; congruence.
  - (* W1 *)
    destruct (elocked e) eqn:Hlk; [cbn [fst snd est]; rewrite <- Hpc;
      assert (Hx : {| eprog := eprog (ls t); epcs := epcs (ls t) |} = ls t) by (destruct (ls t); reflexivity);
      rewrite Hx; apply ELive_same; exact L|].
    assert (Hk : elk e = None) by (unfold elocked in Hlk; destruct (elk e); [discriminate|reflexivity]).
    destruct (flag e) eqn:Hf; cbn [fst snd est];
      apply (ELive_simple e _ ls t _ L); cbn; auto; try (intros p Hp; congruence);
      try (intros Hb; rewrite Hnb in Hb by congruence; discriminate); try discriminate;
      try (intros Hf' Hne; right; repeat split; auto; congruence);
      try (intros t0 _ H; apply in_or_app; left; exact H);
      try (intros _; left; apply in_or_app; right; left; reflexivity);
      try (intros Hf'; congruence).
  - (* SUSP *)
    destruct (a_suspend (eag e t)) as [a r] eqn:Hsus. unfold a_suspend in Hsus.
    assert (Hb' : blocked a = true -> r = Blocked /\ (In t (ewq e) \/ inpend ls t)).
    { intros Hb. destruct (tok (eag e t)) eqn:Htok; inversion Hsus; subst; cbn in Hb; [discriminate|].
      split; [reflexivity|]. destruct (su _ _ L _ Hpc) as [H|[H|H]]; auto; congruence. }
    destruct r; cbn [fst snd est]; apply (ELive_simple e _ ls t _ L); cbn; auto;
      try (intros p Hp; congruence); try discriminate;
      try (intros t0 Hne; apply Nat.eqb_neq in Hne; rewrite Hne; reflexivity);
      try (rewrite Nat.eqb_refl; intros Hb; destruct (Hb' Hb) as [Hr Hi]; first [discriminate Hr | split; [reflexivity|exact Hi]]);
      try (intros Hf Hne; right; repeat split; auto; congruence).
  - (* BLK *)
    destruct (blocked (eag e t)) eqn:Hb; cbn [fst snd est].
    + rewrite <- Hpc. assert (Hx : {| eprog := eprog (ls t); epcs := epcs (ls t) |} = ls t) by (destruct (ls t); reflexivity).
      rewrite Hx. apply ELive_same; exact L.
    + apply (ELive_simple e e ls t _ L); cbn; auto; try (intros p Hp; congruence); try congruence; try discriminate.
      intros Hf Hne. right. repeat split; auto; congruence.
  - (* RW *)
    destruct (elocked e) eqn:Hlk; [cbn [fst snd est]; rewrite <- Hpc;
      assert (Hx : {| eprog := eprog (ls t); epcs := epcs (ls t) |} = ls t) by (destruct (ls t); reflexivity);
      rewrite Hx; apply ELive_same; exact L|].
    assert (Hk : elk e = None) by (unfold elocked in Hlk; destruct (elk e); [discriminate|reflexivity]).
    destruct (flag e) eqn:Hf; cbn [fst snd est];
      apply (ELive_simple e _ ls t _ L); cbn; auto; try (intros p Hp; congruence);
      try (intros Hb; rewrite Hnb in Hb by congruence; discriminate); try discriminate;
      try (intros t0 Hne H; apply eremove_other; assumption);
      try (intros _ Hne; right; repeat split; auto; [|congruence]; intros Hq; rewrite Hq in Hne; cbn in Hne; congruence);
      try (intros t0 Hne H; apply in_or_app; left; apply eremove_other; assumption);
      try (intros _; left; apply in_or_app; right; left; reflexivity);
      try (intros Hf'; congruence).
  - (* S0: event_.store(true) *)
    cbn [fst snd est].
    apply (ELive_simple e _ ls t _ L); cbn; auto; try (intros p Hp; congruence);
      try (intros Hb; rewrite Hnb in Hb by congruence; discriminate); try discriminate.
  - (* S1: lock, swap the queue *)
    destruct (elocked e) eqn:Hlk; [cbn [fst snd est]; rewrite <- Hpc;
      assert (Hx : {| eprog := eprog (ls t); epcs := epcs (ls t) |} = ls t) by (destruct (ls t); reflexivity);
      rewrite Hx; apply ELive_same; exact L|].
    assert (Hk : elk e = None) by (unfold elocked in Hlk; destruct (elk e); [discriminate|reflexivity]).
    cbn [fst snd est]. destruct L as [A1 A2 B C D].
    assert (Hno : forall s p, epcs (ls s) = Some (ESN p) -> False).
    { intros s p H. specialize (A2 _ _ H). congruence. }
    split; cbn.
    + intros t0 H0. inversion H0; subst. exists (ewq e). rewrite upd_same. reflexivity.
    + intros t0 p H0. destruct (Nat.eq_dec t0 t) as [->|Hne]; [reflexivity|].
      rewrite upd_other in H0 by exact Hne. destruct (Hno _ _ H0).
    + intros t0 H0. destruct (B _ H0) as [H1 H2]. destruct (Nat.eq_dec t0 t) as [->|Hne]; [congruence|].
      rewrite upd_other by exact Hne. split; [exact H1|]. right.
      destruct H2 as [H2|[s [p [H3 _]]]]; [|destruct (Hno _ _ H3)].
      exists t, (ewq e). rewrite upd_same. split; [reflexivity|exact H2].
    + intros t0 H0. destruct (Nat.eq_dec t0 t) as [->|Hne]; [rewrite upd_same in H0; discriminate|].
      rewrite upd_other in H0 by exact Hne. destruct (C _ H0) as [H2|[[s [p [H3 _]]]|H2]]; [|destruct (Hno _ _ H3)|auto].
      right. left. exists t, (ewq e). rewrite upd_same. split; [reflexivity|exact H2].
    + intros _ H. congruence.
  - (* SN []: unlock *)
    cbn [fst snd est]. destruct L as [A1 A2 B C D].
    pose proof (A2 _ _ Hpc) as Hown.
    assert (Hno : forall s p, epcs (ls s) = Some (ESN p) -> s = t).
    { intros s p H. specialize (A2 _ _ H). congruence. }
    assert (Hip : forall t0, inpend ls t0 -> False).
    { intros t0 [s [p [H1 H2]]]. pose proof (Hno _ _ H1). subst s. rewrite Hpc in H1. inversion H1; subst. destruct H2. }
    split; cbn.
    + discriminate.
    + intros t0 p H0. exfalso. destruct (Nat.eq_dec t0 t) as [->|Hne]; [rewrite upd_same in H0; discriminate|].
      rewrite upd_other in H0 by exact Hne. apply Hne. eapply Hno; exact H0.
    + intros t0 H0. destruct (B _ H0) as [H1 [H2|H2]]; [|destruct (Hip _ H2)].
      destruct (Nat.eq_dec t0 t) as [->|Hne]; [congruence|]. rewrite upd_other by exact Hne. auto.
    + intros t0 H0. destruct (Nat.eq_dec t0 t) as [->|Hne]; [rewrite upd_same in H0; discriminate|].
      rewrite upd_other in H0 by exact Hne. destruct (C _ H0) as [H2|[H2|H2]]; auto. destruct (Hip _ H2).
    + intros Hf Hne. destruct (D Hf Hne) as [s Hs]. exists s.
      destruct (Nat.eq_dec s t) as [->|Hn]; [congruence|rewrite upd_other by exact Hn; exact Hs].
  - (* SN (w :: rest): resume w *)
    cbn [fst snd est]. destruct L as [A1 A2 B C D].
    pose proof (A2 _ _ Hpc) as Hown.
    assert (Hno : forall s p, epcs (ls s) = Some (ESN p) -> s = t).
    { intros s p H. specialize (A2 _ _ H). congruence. }
    assert (Hip : forall t0, t0 <> w -> inpend ls t0 ->
              inpend (upd ls t {| eprog := eprog (ls t); epcs := Some (ESN rest) |}) t0).
    { intros t0 Hw [s [p [H1 H2]]]. pose proof (Hno _ _ H1). subst s. rewrite Hpc in H1. inversion H1; subst.
      exists t, rest. rewrite upd_same. split; [reflexivity|]. destruct H2 as [H2|H2]; [congruence|exact H2]. }
    split; cbn.
    + intros t0 H0. rewrite Hown in H0. inversion H0; subst. exists rest. rewrite upd_same. reflexivity.
    + intros t0 p H0. destruct (Nat.eq_dec t0 t) as [->|Hne]; [exact Hown|].
      rewrite upd_other in H0 by exact Hne. exfalso. apply Hne. eapply Hno; exact H0.
    + intros t0 H0. destruct (Nat.eqb t0 w) eqn:Hw; [cbn in H0; discriminate|]. apply Nat.eqb_neq in Hw.
      destruct (B _ H0) as [H1 H2]. destruct (Nat.eq_dec t0 t) as [->|Hne]; [congruence|].
      rewrite upd_other by exact Hne. split; [exact H1|]. destruct H2 as [H2|H2]; [left; exact H2|right; apply Hip; assumption].
    + intros t0 H0. destruct (Nat.eq_dec t0 t) as [->|Hne]; [rewrite upd_same in H0; discriminate|].
      rewrite upd_other in H0 by exact Hne. destruct (Nat.eqb t0 w) eqn:Hw.
      * apply Nat.eqb_eq in Hw. subst w. right. right. cbn.
        destruct (blocked (eag e t0)) eqn:Hb; [|reflexivity]. destruct (B _ Hb) as [H1 _]. congruence.
      * apply Nat.eqb_neq in Hw. destruct (C _ H0) as [H2|[H2|H2]]; auto.
    + intros Hf Hne. destruct (D Hf Hne) as [s Hs]. exists s.
      destruct (Nat.eq_dec s t) as [->|Hn]; [congruence|rewrite upd_other by exact Hn; exact Hs].
  - (* R0: reset *)
    cbn [fst snd est]. apply (ELive_simple e _ ls t _ L); cbn; auto; try (intros p Hp; congruence);
      try (intros Hb; rewrite Hnb in Hb by congruence; discriminate); try discriminate.
  - (* EDone never stored *)
    specialize (W t _ Hpc). destruct (eprog (ls t)) as [|[| | |] r]; try contradiction; discriminate.
Qed.

Lemma event_live_inv sched progs :
  let c := e_run sched progs in EWf (snd c) /\ ELive (est (fst c)) (snd c).
Proof.
  unfold e_run. apply (run_inv _ _ _ e_tstep (fun g ls => EWf ls /\ ELive (est g) ls)).
  - intros o t g ls [W L]. split; [apply EWf_step; exact W|apply ELive_step; assumption].
  - split; [intros t pc H; discriminate|].
    split; cbn; try discriminate; try (intros; contradiction); try congruence.
Qed.

(* once the event is set, in every state in which no thread can take a step every thread has
   finished its program: all current and future waiters have been released *)
Lemma event_releases_all sched progs :
  let c := e_run sched progs in
  flag (est (fst c)) = true -> (forall t, e_enabled (fst c) t (snd c t) = false) ->
  forall t, eprog (snd c t) = [] /\ epcs (snd c t) = None.
Proof.
  intros c Hf Hst. destruct (event_live_inv sched progs) as [W L]. fold c in W, L.
  set (e := est (fst c)) in *.
  assert (Hno : forall s p, epcs (snd c s) = Some (ESN p) -> False).
  { intros s p H. specialize (Hst s). unfold e_enabled in Hst. rewrite H in Hst. destruct p; discriminate. }
  assert (Hlk : elocked e = false).
  { unfold elocked. destruct (elk e) as [t0|] eqn:Hk; [|reflexivity].
    destruct (o1 _ _ L _ Hk) as [p H1]. destruct (Hno _ _ H1). }
  assert (Hq : ewq e = []).
  { destruct (ewq e) as [|x r] eqn:Hq; [reflexivity|].
    destruct (pd _ _ L Hf) as [s H1]; [rewrite Hq; discriminate|].
    specialize (Hst s). unfold e_enabled in Hst. rewrite H1 in Hst. cbn in Hst. fold e in Hst. rewrite Hlk in Hst. discriminate. }
  intros t. specialize (Hst t). unfold e_enabled in Hst.
  destruct (epcs (snd c t)) as [pc|] eqn:Hpc.
  - exfalso. fold e in Hst. specialize (W t pc Hpc).
    destruct pc as [| | | | | | |p| |]; cbn in Hst; rewrite ?Hlk in Hst; try discriminate.
    + apply negb_false_iff in Hst. destruct (bk _ _ L _ Hst) as [_ [Hin|[s [p [H1 _]]]]].
      * rewrite Hq in Hin. destruct Hin.
      * destruct (Hno _ _ H1).
    + destruct (eprog (snd c t)) as [|[| | |] r]; try contradiction; discriminate.
  - destruct (eprog (snd c t)); [split; reflexivity|discriminate].
Qed.

(* the event's spinlock is held across model steps exactly by a thread inside set()'s notify_all
   (pc ESN): the lock-step harness schedules that critical section as one entry *)
Lemma event_lock_owner sched progs :
  let c := e_run sched progs in
  forall t, elk (est (fst c)) = Some t <-> exists p, epcs (snd c t) = Some (ESN p).
Proof.
  intros c t. destruct (event_live_inv sched progs) as [_ L]. fold c in L.
  split; [apply (o1 _ _ L)|intros [p H]; apply (o2 _ _ L _ _ H)].
Qed.
