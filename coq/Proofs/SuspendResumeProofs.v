(* Proofs/SuspendResumeProofs.v — lemmas about Model/SuspendResume.v (C19). *)
From Coq Require Import List NArith Bool Arith Lia Permutation.
From Pika Require Import Base.Conc Gen.GenRuntimeState Model.SuspendResume.
Import ListNotations.

(* ------------------------------------------------------------------ part 1: conservation *)
Definition conserv (g : gst) : Prop :=
  Permutation (map snd (qs g) ++ map snd (sq g) ++ map snd (heldl g) ++ map fst (executed g)) (submitted g) /\
  NoDup (submitted g) /\
  (forall tk, In tk (submitted g) -> snd tk < nxt g (fst tk)).

Lemma extract_perm : forall w l tk r, extract w l = Some (tk, r) -> Permutation l ((w, tk) :: r).
Proof.
  induction l as [|e l IH]; intros tk r H; cbn in H; [discriminate|].
  destruct (Nat.eqb (fst e) w) eqn:E.
  - inversion H; subst. apply Nat.eqb_eq in E. destruct e as [i x]; cbn in *; subst. apply Permutation_refl.
  - destruct (extract w l) as [[tk' r']|] eqn:E2; [|discriminate]. inversion H; subst.
    specialize (IH _ _ eq_refl). eapply Permutation_trans; [apply perm_skip; exact IH|apply perm_swap].
Qed.

Lemma extract_perm_snd : forall w l tk r, extract w l = Some (tk, r) -> Permutation (map snd l) (tk :: map snd r).
Proof. intros w l tk r H. apply extract_perm in H. apply (Permutation_map snd) in H. exact H. Qed.

Lemma conserv_same : forall g g', qs g' = qs g -> sq g' = sq g -> heldl g' = heldl g -> executed g' = executed g ->
  submitted g' = submitted g -> nxt g' = nxt g -> conserv g -> conserv g'.
Proof. intros g g' H1 H0 H2 H3 H4 H5 (P & N & B). unfold conserv. rewrite H1, H0, H2, H3, H4, H5. auto. Qed.

Lemma perm_mid : forall (A : Type) (a : A) l1 l2, Permutation (l1 ++ a :: l2) (a :: l1 ++ l2).
Proof. intros. apply Permutation_sym, Permutation_middle. Qed.

Lemma conserv_take : forall g w v g', take g w v = Some g' -> conserv g -> conserv g'.
Proof.
  intros g w v g' H (P & N & B). unfold take in H.
  destruct (extract v (qs g)) as [[tk r]|] eqn:E; [|discriminate]. inversion H; subst; clear H.
  unfold conserv; cbn. split; [|split; assumption].
  apply extract_perm_snd in E. eapply Permutation_trans; [|exact P].
  apply Permutation_sym. eapply Permutation_trans; [apply Permutation_app_tail; exact E|].
  cbn. eapply Permutation_trans; [apply Permutation_middle|]. apply Permutation_app_head. apply Permutation_middle.
Qed.

Lemma conserv_move1 : forall g d s g', move1 g d s = Some g' -> conserv g -> conserv g'.
Proof.
  intros g d s g' H (P & N & B). unfold move1 in H.
  destruct (extract s (sq g)) as [[tk r]|] eqn:E; [|discriminate]. inversion H; subst; clear H.
  unfold conserv; cbn. split; [|split; assumption].
  apply extract_perm_snd in E. eapply Permutation_trans; [|exact P].
  rewrite map_app. cbn. rewrite <- app_assoc. apply Permutation_app_head. cbn.
  apply Permutation_sym. apply (Permutation_app_tail (map snd (heldl g) ++ map fst (executed g))) in E. exact E.
Qed.

Lemma conserv_moven : forall n g d s, conserv g -> conserv (moven n g d s).
Proof.
  induction n as [|n IH]; intros g d s H; cbn; [exact H|].
  destruct (move1 g d s) eqn:E; [|exact H]. apply IH. eapply conserv_move1; eassumption.
Qed.

Lemma conserv_exec : forall g w, conserv g -> conserv (exec g w).
Proof.
  intros g w (P & N & B). unfold exec. destruct (extract w (heldl g)) as [[tk r]|] eqn:E; [|repeat split; assumption].
  unfold conserv; cbn. split; [|split; assumption].
  apply extract_perm_snd in E. eapply Permutation_trans; [|exact P].
  apply Permutation_app_head. apply Permutation_app_head. apply Permutation_sym.
  eapply Permutation_trans; [apply Permutation_app_tail; exact E|]. cbn. apply Permutation_middle.
Qed.

Lemma conserv_enqueue : forall g t i v, conserv g -> conserv (enqueue g t i v).
Proof.
  intros g t i v (P & N & B). unfold conserv, enqueue; cbn. split; [|split].
  - rewrite map_app. cbn. rewrite <- app_assoc. cbn.
    apply Permutation_sym. eapply Permutation_trans; [apply perm_skip, Permutation_sym, P|].
    eapply Permutation_trans; [apply Permutation_middle|]. apply Permutation_app_head. apply Permutation_middle.
  - constructor; [|exact N]. intros H. apply B in H. cbn in H. lia.
  - intros tk [<-|H]; cbn.
    + rewrite upd_same. lia.
    + specialize (B _ H). unfold upd. destruct (Nat.eqb (fst tk) t) eqn:E; [apply Nat.eqb_eq in E; rewrite E in B; lia|exact B].
Qed.

Ltac same := (eapply conserv_same; [reflexivity|reflexivity|reflexivity|reflexivity|reflexivity|reflexivity|eassumption]).

Ltac brk := repeat match goal with
  | |- context [match ?x with _ => _ end] => destruct x eqn:?
  | |- context [if ?x then _ else _] => destruct x eqn:?
  end.
Ltac leafc H := cbn [fst]; first [exact H | same | (eapply conserv_take; eassumption) | (apply conserv_exec; exact H)
  | (apply conserv_moven; exact H)
  | (apply conserv_enqueue; exact H)
  | (eapply conserv_same; [reflexivity|reflexivity|reflexivity|reflexivity|reflexivity|reflexivity|apply conserv_enqueue; exact H])].

Lemma worker_step_conserv : forall c o w g pc, conserv g -> conserv (fst (worker_step c o w g pc)).
Proof.
  intros c o w g pc H. destruct pc; cbn [worker_step]; cbv zeta; unfold reset_fresh; brk; leafc H.
Qed.

Lemma notify_conserv : forall g w, conserv g -> conserv (notify g w).
Proof. intros g w H. unfold notify. destruct g_resume_notifies; [same|exact H]. Qed.

Lemma client_step_conserv : forall c o t g cl, conserv g -> conserv (fst (client_step c o t g cl)).
Proof.
  intros c o t g cl H. unfold client_step. destruct (todo cl) as [|p rest]; [exact H|].
  destruct p; cbv zeta; brk; cbn [fst]; try (apply notify_conserv); try leafc H.
  all: match goal with E : match ?h with Some _ => _ | None => _ end = (_, ?g0) |- conserv ?g0 =>
         destruct h; inversion E; subst; leafc H end.
Qed.

Lemma tstep_conserv : forall c o t g l, conserv g -> conserv (fst (sr_tstep c o t g l)).
Proof.
  intros c o t g l H. destruct l as [pc|cl|]; cbn [sr_tstep].
  - destruct (Nat.ltb t (nw c)); [|exact H].
    pose proof (worker_step_conserv c o t g pc H) as W. destruct (worker_step c o t g pc). exact W.
  - destruct (Nat.ltb t (nw c)); [exact H|].
    pose proof (client_step_conserv c o t g cl H) as W. destruct (client_step c o t g cl). exact W.
  - exact H.
Qed.

Lemma conserv_init : conserv sr_g0.
Proof. unfold conserv; cbn. repeat split; [constructor|constructor|intros tk []]. Qed.

Lemma sr_conserv : forall c progs sched, conserv (fst (sr_run c progs sched)).
Proof.
  intros c progs sched. unfold sr_run.
  apply (run_ginv gst lstate oracle (sr_tstep c) conserv).
  - intros o t g l. apply tstep_conserv.
  - exact conserv_init.
Qed.

Lemma nodup_app_r : forall (A : Type) (l1 l2 : list A), NoDup (l1 ++ l2) -> NoDup l2.
Proof. induction l1 as [|a l1 IH]; intros l2 H; [exact H|]. inversion H; subst. apply IH. assumption. Qed.

Lemma no_dup_across_suspend : forall c progs sched,
  NoDup (map fst (executed (fst (sr_run c progs sched)))).
Proof.
  intros c progs sched. destruct (sr_conserv c progs sched) as (P & N & _).
  apply Permutation_sym in P. apply (Permutation_NoDup P) in N.
  apply nodup_app_r in N. apply nodup_app_r in N. apply nodup_app_r in N. exact N.
Qed.

Lemma no_task_lost : forall c progs sched tk,
  let g := fst (sr_run c progs sched) in
  (In tk (submitted g) -> In tk (map fst (executed g)) \/ In tk (map snd (heldl g)) \/ In tk (map snd (qs g)) \/ In tk (map snd (sq g))) /\
  (In tk (map fst (executed g)) -> In tk (submitted g)).
Proof.
  intros c progs sched tk g. destruct (sr_conserv c progs sched) as (P & _ & _). fold g in P. split; intros H.
  - apply Permutation_sym in P. apply (Permutation_in _ P) in H. rewrite !in_app_iff in H. tauto.
  - apply (Permutation_in _ P). rewrite !in_app_iff. tauto.
Qed.

Lemma all_done_when_drained : forall c progs sched,
  let g := fst (sr_run c progs sched) in
  qs g = [] -> sq g = [] -> heldl g = [] -> Permutation (map fst (executed g)) (submitted g) /\ NoDup (map fst (executed g)).
Proof.
  intros c progs sched g Hq Hs Hh. split; [|apply no_dup_across_suspend].
  destruct (sr_conserv c progs sched) as (P & _ & _). fold g in P. rewrite Hq, Hs, Hh in P. exact P.
Qed.

(* ------------------------------------------------------------------ part 3: refusals *)
Definition callkind_of (a : api) : option callkind :=
  match a with
  | ASuspendPU _ _ => Some KSuspendPU | AResumePU _ => Some KResumePU
  | ASuspendPool _ => Some KSuspendPool | AResumePool => Some KResumePool | ASubmit _ | ASubmitLow _ => None
  end.

Definition same_core (g g' : gst) : Prop :=
  st g' = st g /\ pul g' = pul g /\ qs g' = qs g /\ sq g' = sq g /\ heldl g' = heldl g /\ waiting g' = waiting g /\
  live g' = live g /\ executed g' = executed g /\ submitted g' = submitted g.

Lemma refused_expand : forall c a k, refused c a = true -> callkind_of a = Some k -> expand c a = [PRefuse; PRet k].
Proof.
  intros [n e s] a k Hr Hk. destruct a as [w self|w|self| |h|h]; cbn in Hr, Hk; try discriminate; inversion Hk; subst; clear Hk.
  - unfold expand, spu_direct. cbn [elastic stealing]. cbv zeta.
    change (nth 0 g_spu_refusal_returns false) with true. change (nth 1 g_spu_refusal_returns false) with true.
    destruct e; cbn in Hr |- *; [|reflexivity]. rewrite Hr. reflexivity.
  - subst. unfold expand, pool_suspend. change g_pool_refusal_returns with true. reflexivity.
Qed.

(* a refused call consists of two steps of the caller; whatever the other threads do in between (g1, g2
   arbitrary), the first changes nothing and the second only records (error = true) *)
Lemma unsupported_refused : forall c a k rest, refused c a = true -> callkind_of a = Some k ->
  forall t o1 o2 g1 g2 e v,
    let cl0 := {| todo := expand c a ++ rest; ph := Ph0; err := e; vl := v |} in
    let s1 := client_step c o1 t g1 cl0 in
    let s2 := client_step c o2 t g2 (snd s1) in
    fst s1 = g1 /\ same_core g2 (fst s2) /\ calls (fst s2) = (t, k, true) :: calls g2 /\
    snd s2 = {| todo := rest; ph := Ph0; err := false; vl := false |}.
Proof.
  intros c a k rest Hr Hk t o1 o2 g1 g2 e v. rewrite (refused_expand c a k Hr Hk). cbn.
  unfold same_core. cbn. repeat split; reflexivity.
Qed.

(* an accepted call never sets the error flag: only PRefuse does *)
Lemma spu_internal_no_refuse : forall w, ~ In PRefuse (spu_internal w).
Proof. intros w [H|[H|[]]]; discriminate. Qed.

Lemma accepted_no_refuse : forall c a, refused c a = false -> ~ In PRefuse (expand c a).
Proof.
  intros [n e s] a Hr. destruct a as [w self|w|self| |h|h]; cbn in Hr.
  - apply orb_false_iff in Hr. destruct Hr as [He Hs]. apply negb_false_iff in He. subst.
    unfold expand, spu_direct. cbn [elastic stealing negb]. cbv zeta. rewrite Hs.
    intros H. apply in_app_iff in H. destruct H as [H|[H|[]]]; [|discriminate]. exact (spu_internal_no_refuse w H).
  - intros [H|[H|[H|[]]]]; discriminate.
  - subst. unfold expand, pool_suspend. cbv zeta. intros H. apply in_app_iff in H. destruct H as [H|[H|[]]]; [|discriminate].
    destruct H as [H|H]; [discriminate|]. apply in_app_iff in H. destruct H as [H|H].
    + apply in_map_iff in H. destruct H as (x & Hx & _). discriminate.
    + apply in_flat_map in H. destruct H as (x & _ & Hx). exact (spu_internal_no_refuse x Hx).
  - unfold expand, pool_resume. intros H. apply in_app_iff in H. destruct H as [H|[H|[]]]; [|discriminate].
    apply in_app_iff in H. destruct H as [H|H].
    + apply in_map_iff in H. destruct H as (x & Hx & _). discriminate.
    + apply in_flat_map in H. destruct H as (x & _ & [Hx|[Hx|[]]]); discriminate.
  - intros [H|[]]; discriminate.
  - intros [H|[]]; discriminate.
Qed.

(* ------------------------------------------------------------------ part 2: the sleep decision *)
Lemma in_qof : forall w l x, In x (qof w l) <-> In (w, x) l.
Proof.
  intros w l x. unfold qof. rewrite in_map_iff. split.
  - intros ([i y] & E & H). cbn in E. subst y. apply filter_In in H. destruct H as [H1 H2]. cbn in H2. apply Nat.eqb_eq in H2. subst. exact H1.
  - intros H. exists (w, x). split; [reflexivity|]. apply filter_In. split; [exact H|]. cbn. apply Nat.eqb_refl.
Qed.

Lemma extract_incl : forall v (l : list (nat * task)) tk r, extract v l = Some (tk, r) -> incl r l.
Proof. intros v l tk r H. apply extract_perm in H. intros x Hx. apply (Permutation_in _ (Permutation_sym H)). right. exact Hx. Qed.

Lemma extract_in : forall v (l : list (nat * task)) tk r, extract v l = Some (tk, r) -> In (v, tk) l.
Proof. intros v l tk r H. apply extract_perm in H. apply (Permutation_in _ (Permutation_sym H)). left. reflexivity. Qed.

(* the tasks get_queue_length(w) counts / the tasks enqueued on those queues since w last saw them all empty *)
Definition counted (c : cfg) (w : nat) (g : gst) (x : task) : Prop :=
  In (w, x) (qs g) \/ In (w, x) (sq g) \/ (lastw c w = true /\ (In (lowq c, x) (qs g) \/ In (lowq c, x) (sq g))).
Definition isfresh (c : cfg) (w : nat) (g : gst) (x : task) : Prop :=
  In x (fresh g w) \/ (lastw c w = true /\ In x (fresh g (lowq c))).

Lemma in_qlen : forall c w g x, In x (qlen_tasks c w g) <-> counted c w g x.
Proof.
  intros c w g x. unfold qlen_tasks, counted. rewrite !in_app_iff, !in_qof. destruct (lastw c w).
  - rewrite in_app_iff, !in_qof. tauto.
  - cbn. intuition discriminate.
Qed.

Definition SC (c : cfg) (w : nat) (g : gst) : Prop := forall x, counted c w g x -> isfresh c w g x.

Lemma sc_shrink : forall c w g g', incl (qs g') (qs g) -> incl (sq g') (sq g) -> fresh g' = fresh g -> SC c w g -> SC c w g'.
Proof.
  intros c w g g' H1 H2 H3 S x Hx. unfold isfresh. rewrite H3. apply S. unfold counted in *.
  unfold incl in *. destruct Hx as [H|[H|[L [H|H]]]]; auto 6.
Qed.

Lemma sc_same : forall c w g g', qs g' = qs g -> sq g' = sq g -> fresh g' = fresh g -> SC c w g -> SC c w g'.
Proof. intros c w g g' H1 H2 H3. apply sc_shrink; [rewrite H1|rewrite H2|exact H3]; apply incl_refl. Qed.

Lemma sc_take : forall c w g x v g', take g x v = Some g' -> SC c w g -> SC c w g'.
Proof.
  intros c w g x v g' H. unfold take in H. destruct (extract v (qs g)) as [[tk r]|] eqn:E; [|discriminate].
  inversion H; subst; clear H. apply sc_shrink; cbn; [eapply extract_incl; exact E|apply incl_refl|reflexivity].
Qed.

Lemma sc_exec : forall c w g x, SC c w g -> SC c w (exec g x).
Proof. intros c w g x S. unfold exec. destruct (extract x (heldl g)) as [[tk r]|]; [|exact S]. exact S. Qed.

(* conversions by another worker put tasks into ITS pending queue (or, the last worker, into the low-priority one) *)
Lemma sc_move1 : forall c w g d s g', move1 g d s = Some g' -> d <> w -> (lastw c w = true -> d <> lowq c) -> SC c w g -> SC c w g'.
Proof.
  intros c w g d s g' H Nd Nl S x Hx. unfold move1 in H. destruct (extract s (sq g)) as [[tk r]|] eqn:E; [|discriminate].
  inversion H; subst; clear H. unfold isfresh; cbn [fresh]. apply S. pose proof (extract_incl _ _ _ _ E) as I.
  unfold counted in *; cbn [qs sq] in Hx. rewrite !in_app_iff in Hx. cbn in Hx.
  unfold incl in I.
  destruct Hx as [[H|[H|[]]]|[H|[L [[H|[H|[]]]|H]]]]; try (solve [auto 7]);
    inversion H; subst; first [congruence | exfalso; exact (Nl L eq_refl)].
Qed.

Lemma sc_moven : forall c w n g d s, d <> w -> (lastw c w = true -> d <> lowq c) -> SC c w g -> SC c w (moven n g d s).
Proof.
  induction n as [|n IH]; intros g d s Nd Nl S; cbn; [exact S|].
  destruct (move1 g d s) eqn:E; [|exact S]. apply IH; [exact Nd|exact Nl|]. eapply sc_move1; eassumption.
Qed.

Lemma sc_enqueue : forall c w g t i v, SC c w g -> SC c w (enqueue g t i v).
Proof.
  intros c w g t i v S x Hx. unfold counted, isfresh, enqueue in *; cbn [qs sq fresh] in *. rewrite !in_app_iff in Hx. cbn in Hx.
  assert (M : forall j, In x (fresh g j) -> In x (upd (fresh g) i (fresh g i ++ [(t, nxt g t)]) j)).
  { intros j Hj. unfold upd. destruct (Nat.eqb j i) eqn:E; [apply Nat.eqb_eq in E; subst; apply in_app_iff; auto|exact Hj]. }
  assert (Nw : In (t, nxt g t) (upd (fresh g) i (fresh g i ++ [(t, nxt g t)]) i)).
  { rewrite upd_same. apply in_app_iff. right. left. reflexivity. }
  assert (Old : counted c w g x -> In x (upd (fresh g) i (fresh g i ++ [(t, nxt g t)]) w) \/
          (lastw c w = true /\ In x (upd (fresh g) i (fresh g i ++ [(t, nxt g t)]) (lowq c)))).
  { intros Hc. destruct (S x Hc) as [H|[L H]]; [left|right; split; [exact L|]]; apply M, H. }
  destruct Hx as [H|[[H|[H|[]]]|[L [H|[H|[H|[]]]]]]].
  - apply Old. left. exact H.
  - apply Old. right. left. exact H.
  - inversion H; subst. left. exact Nw.
  - apply Old. right. right. auto.
  - apply Old. right. right. auto.
  - inversion H; subst. right. split; [exact L|exact Nw].
Qed.

Lemma lastw_inj : forall c w t, lastw c w = true -> lastw c t = true -> w = t.
Proof. intros c w t H1 H2. unfold lastw in *. apply Nat.eqb_eq in H1, H2. lia. Qed.

Lemma sc_reset_other : forall c w g t, w <> t -> w < nw c -> t < nw c -> SC c w g -> SC c w (reset_fresh c t g).
Proof.
  intros c w g t N Hw Ht S x Hx. specialize (S x Hx). unfold isfresh, reset_fresh in *. cbn [fresh set_fresh].
  assert (Nl : w <> lowq c) by (unfold lowq; lia).
  destruct (lastw c t) eqn:Lt.
  - destruct S as [H|[L H]].
    + left. rewrite upd_other by exact Nl. rewrite upd_other by exact N. exact H.
    + exfalso. apply N. eapply lastw_inj; eassumption.
  - destruct S as [H|[L H]].
    + left. rewrite upd_other by exact N. exact H.
    + right. split; [exact L|]. rewrite upd_other; [exact H|]. unfold lowq. lia.
Qed.

Ltac sames := (eapply sc_same; [reflexivity|reflexivity|reflexivity|eassumption]).
Ltac leafs H := cbn [fst]; first [exact H | sames | (eapply sc_take; eassumption) | (apply sc_exec; exact H)
  | (apply sc_enqueue; exact H) | (apply sc_reset_other; assumption)
  | (eapply sc_same; [reflexivity|reflexivity|reflexivity|apply sc_enqueue; exact H])].

Lemma worker_step_sc_other : forall c o t g pc w, w <> t -> w < nw c -> t < nw c -> SC c w g -> SC c w (fst (worker_step c o t g pc)).
Proof.
  intros c o t g pc w N Hw Ht H.
  assert (Nt : t <> w) by congruence.
  assert (L1 : lastw c w = true -> t <> lowq c) by (intros _; unfold lowq; lia).
  destruct pc; cbn [worker_step]; cbv zeta; brk; try leafs H; cbn [fst].
  - apply sc_moven; assumption.
  - apply sc_moven; assumption.
  - apply sc_moven; [unfold lowq; lia| |exact H]. intros Lw. exfalso. apply N.
    match goal with E : (lastw c t && _ && _) = true |- _ => apply andb_true_iff in E; destruct E as [E _]; apply andb_true_iff in E; destruct E as [E _] end.
    eapply lastw_inj; eassumption.
Qed.

Lemma notify_sc : forall c g x w, SC c w g -> SC c w (notify g x).
Proof. intros c g x w H. unfold notify. destruct g_resume_notifies; [sames|exact H]. Qed.

Lemma client_step_sc : forall c o t g cl w, SC c w g -> SC c w (fst (client_step c o t g cl)).
Proof.
  intros c o t g cl w H. unfold client_step. destruct (todo cl) as [|p rest]; [exact H|].
  destruct p; cbv zeta; brk; cbn [fst]; try (apply notify_sc); try leafs H.
  all: match goal with E : match ?h with Some _ => _ | None => _ end = (_, ?g0) |- SC _ _ ?g0 =>
         destruct h; inversion E; subst; leafs H end.
Qed.

Lemma worker_step_sc_self : forall c o t g pc,
  (sleepy pc = true -> SC c t g) -> sleepy (snd (worker_step c o t g pc)) = true -> SC c t (fst (worker_step c o t g pc)).
Proof.
  intros c o t g pc H. destruct pc; cbn [worker_step sleepy] in *; cbv zeta; brk; cbn [fst snd sleepy]; intros S; try discriminate;
    try (specialize (H eq_refl)); try leafs H.
  intros x Hx. exfalso. apply in_qlen in Hx. unfold qlen_tasks, reset_fresh in *. cbn [qs sq set_fresh] in Hx.
  match goal with E : _ = [] |- _ => unfold qlen_tasks in E; rewrite E in Hx end. exact Hx.
Qed.

Definition SCinv (c : cfg) (g : gst) (ls : locals lstate) : Prop :=
  forall w pc, ls w = LWorker pc -> w < nw c /\ (sleepy pc = true -> SC c w g).

Lemma tstep_scinv : forall c o t g (ls : locals lstate), SCinv c g ls ->
  SCinv c (fst (sr_tstep c o t g (ls t))) (upd ls t (snd (sr_tstep c o t g (ls t)))).
Proof.
  intros c o t g ls I w pc Hw. unfold upd in Hw. destruct (Nat.eqb w t) eqn:E.
  - apply Nat.eqb_eq in E. subst w. destruct (ls t) as [pc0|cl|] eqn:L; cbn [sr_tstep] in *.
    + destruct (I t pc0 L) as [Lt I0]. split; [exact Lt|]. intros Hs. destruct (Nat.ltb t (nw c)).
      * pose proof (worker_step_sc_self c o t g pc0 I0) as W.
        destruct (worker_step c o t g pc0) as [g' pc']. cbn [fst snd] in *. inversion Hw; subst. apply W, Hs.
      * cbn [fst snd] in *. inversion Hw; subst. apply I0, Hs.
    + destruct (Nat.ltb t (nw c)); [discriminate|]. destruct (client_step c o t g cl). discriminate.
    + discriminate.
  - apply Nat.eqb_neq in E. destruct (I w pc Hw) as [Lw I0]. split; [exact Lw|]. intros Hs. specialize (I0 Hs).
    destruct (ls t) as [pc0|cl|] eqn:L; cbn [sr_tstep].
    + destruct (I t pc0 L) as [Lt _]. destruct (Nat.ltb t (nw c)); [|exact I0].
      pose proof (worker_step_sc_other c o t g pc0 w E Lw Lt I0) as W. destruct (worker_step c o t g pc0). exact W.
    + destruct (Nat.ltb t (nw c)); [exact I0|].
      pose proof (client_step_sc c o t g cl w I0) as W. destruct (client_step c o t g cl). exact W.
    + exact I0.
Qed.

(* a worker that has decided to sleep (or sleeps) has in the queues get_queue_length counts only tasks that were
   enqueued after it last saw them all empty with running = false *)
Lemma sr_sleep_check : forall c progs sched w pc,
  let cf := sr_run c progs sched in
  snd cf w = LWorker pc -> sleepy pc = true -> forall x, In x (qlen_tasks c w (fst cf)) -> isfresh c w (fst cf) x.
Proof.
  intros c progs sched w pc cf. unfold cf, sr_run.
  pose proof (run_inv gst lstate oracle (sr_tstep c) (SCinv c) (tstep_scinv c) sched (sr_g0, sr_locals c progs)) as R.
  cbn [fst snd] in R. intros Hw Hs x Hx. apply in_qlen in Hx. revert x Hx.
  refine (proj2 (R _ w pc Hw) Hs).
  intros w0 pc0 H0. unfold sr_locals in H0. destruct (Nat.ltb w0 (nw c)) eqn:Lt; [|discriminate]. apply Nat.ltb_lt in Lt.
  split; [exact Lt|]. intros _ x [[]|[[]|[_ [[]|[]]]]].
Qed.
(* ------------------------------------------------------------------ part 4: the calls return *)
Definition api_ok (c : cfg) (a : api) : Prop :=
  match a with ASuspendPU w _ | AResumePU w => w < nw c | _ => True end.

Definition prim_ok (c : cfg) (p : prim) : Prop :=
  match p with
  | PWaitNot w s => s = g_sus_wait /\ w < nw c
  | PResumeLoop w => w < nw c
  | _ => True
  end.

Definition wait_pc (pc : wpc) : bool := match pc with WEnterWait | WWaiting | WWoken => true | _ => false end.

Definition hold_head (td : list prim) (w : nat) : Prop :=
  match td with
  | PLockedCas w' :: _ | PLockedNop w' :: _ => w' = w
  | PSubmit _ _ :: _ => True
  | _ => False
  end.

Record INV4 (c : cfg) (g : gst) (ls : locals lstate) : Prop := {
  i_roleW : forall t, t < nw c -> exists pc, ls t = LWorker pc;
  i_roleC : forall t, nw c <= t -> exists cl, ls t = LClient cl;
  i_lock : forall w t, pul g w = Some t -> exists cl, ls t = LClient cl /\ nw c <= t /\ ph cl = PhHold w;
  i_hold : forall t cl w, ls t = LClient cl -> ph cl = PhHold w -> hold_head (todo cl) w;
  i_hs : forall w pc, ls w = LWorker pc -> w < nw c ->
           rs_eqb (st g w) rs_sleeping = wait_pc pc /\ (waiting g w = true -> pc = WWaiting);
  i_held : forall w tk, In (w, tk) (heldl g) -> w < nw c /\ ls w = LWorker WExec;
  i_heldnd : NoDup (map fst (heldl g));
  i_prog : forall t cl, ls t = LClient cl -> Forall (prim_ok c) (todo cl)
}.

Lemma cas_sleeping : forall s, rs_eqb (cas s rs_running rs_pre_sleep) rs_sleeping = rs_eqb s rs_sleeping.
Proof. destruct s; reflexivity. Qed.

Lemma rs_eqb_eq : forall a b, rs_eqb a b = true <-> a = b.
Proof. intros a b. split; [|intros ->; destruct b; reflexivity]. destruct a, b; cbn; intros H; try reflexivity; discriminate. Qed.

Lemma upd_cas_sleeping : forall (f : nat -> rstate) w x,
  rs_eqb (upd f w (cas (f w) rs_running rs_pre_sleep) x) rs_sleeping = rs_eqb (f x) rs_sleeping.
Proof.
  intros f w x. unfold upd. destruct (Nat.eqb x w) eqn:E; [|reflexivity]. apply Nat.eqb_eq in E. subst. apply cas_sleeping.
Qed.

Lemma upd_false_true : forall (f : nat -> bool) w x, upd f w false x = true -> f x = true.
Proof. intros f w x. unfold upd. destruct (Nat.eqb x w); [discriminate|auto]. Qed.

Ltac hintsplit := repeat match goal with
  | E : match ?h with Some _ => _ | None => _ end = (_, _) |- _ => destruct h; inversion E; subst; clear E end.

(* effects of a client step on the fields the hand-shake invariant talks about *)
Lemma client_eff : forall c o t g cl,
  let g' := fst (client_step c o t g cl) in
  (forall x, rs_eqb (st g' x) rs_sleeping = rs_eqb (st g x) rs_sleeping) /\
  (forall x, waiting g' x = true -> waiting g x = true) /\ heldl g' = heldl g.
Proof.
  intros c o t g cl. unfold client_step. destruct (todo cl) as [|p rest]; [cbn; auto|].
  destruct p; cbv zeta; brk; hintsplit; cbn [fst]; unfold notify, enqueue; try (change g_resume_notifies with true; cbv iota);
    cbn [st waiting heldl set_st set_pul set_waiting set_rr set_calls set_fresh];
    (split; [|split]); try reflexivity; try (intros x; reflexivity); try (intros x Hx; exact Hx);
    try (intros x; apply upd_cas_sleeping); try (intros x; apply upd_false_true).
Qed.

Lemma extract_none : forall w (l : list (nat * task)), extract w l = None -> forall tk, ~ In (w, tk) l.
Proof.
  induction l as [|e l IH]; intros H tk; cbn in *; [tauto|].
  destruct (Nat.eqb (fst e) w) eqn:E; [discriminate|].
  destruct (extract w l) as [[tk' r']|] eqn:E2; [discriminate|].
  intros [->|Hin]; [cbn in E; rewrite Nat.eqb_refl in E; discriminate|exact (IH eq_refl tk Hin)].
Qed.

Lemma extract_some : forall w (l : list (nat * task)) tk r, extract w l = Some (tk, r) ->
  Permutation l ((w, tk) :: r).
Proof. exact extract_perm. Qed.

Lemma take_fields : forall g w v g', take g w v = Some g' ->
  st g' = st g /\ waiting g' = waiting g /\ pul g' = pul g /\ exists tk, heldl g' = (w, tk) :: heldl g.
Proof.
  intros g w v g' H. unfold take in H. destruct (extract v (qs g)) as [[tk r]|]; [|discriminate].
  inversion H; subst; cbn. repeat split; try reflexivity. exists tk; reflexivity.
Qed.

Lemma exec_fields : forall g w, st (exec g w) = st g /\ waiting (exec g w) = waiting g /\ pul (exec g w) = pul g.
Proof. intros g w. unfold exec. destruct (extract w (heldl g)) as [[tk r]|]; cbn; auto. Qed.

Lemma move1_fields : forall g d s g', move1 g d s = Some g' ->
  st g' = st g /\ waiting g' = waiting g /\ pul g' = pul g /\ heldl g' = heldl g.
Proof.
  intros g d s g' H. unfold move1 in H. destruct (extract s (sq g)) as [[tk r]|]; [|discriminate]. inversion H; subst; cbn. auto.
Qed.

Lemma moven_fields : forall n g d s,
  st (moven n g d s) = st g /\ waiting (moven n g d s) = waiting g /\ pul (moven n g d s) = pul g /\ heldl (moven n g d s) = heldl g.
Proof.
  induction n as [|n IH]; intros g d s; cbn; [auto|]. destruct (move1 g d s) eqn:E; [|auto].
  destruct (move1_fields _ _ _ _ E) as (A & B & C & D). destruct (IH g0 d s) as (A' & B' & C' & D'). repeat split; congruence.
Qed.

Ltac takes := repeat match goal with
  | H : take _ _ _ = Some _ |- _ => apply take_fields in H; destruct H as (?Hs & ?Hw & ?Hp & ?tk & ?Hh)
  end.

(* worker step: effects on other workers' fields, on the locks *)
Lemma worker_eff : forall c o t g pc,
  let g' := fst (worker_step c o t g pc) in
  (forall x, x <> t -> st g' x = st g x /\ waiting g' x = waiting g x) /\ pul g' = pul g.
Proof.
  intros c o t g pc. destruct pc; cbn [worker_step]; cbv zeta; unfold reset_fresh; brk; takes; cbn [fst];
    try (destruct (exec_fields g t) as (E1 & E2 & E3); rewrite E1, E2, E3);
    try match goal with |- context [moven ?n ?g0 ?d ?s] => destruct (moven_fields n g0 d s) as (M1 & M2 & M3 & M4); rewrite M1, M2, M3 end;
    cbn [st waiting pul set_st set_waiting set_fresh]; (split; [intros x Hx; rewrite ?upd_other by exact Hx; try split; congruence|congruence]).
Qed.

Lemma worker_hs_self : forall c o t g pc,
  (rs_eqb (st g t) rs_sleeping = wait_pc pc /\ (waiting g t = true -> pc = WWaiting)) ->
  let r := worker_step c o t g pc in
  rs_eqb (st (fst r) t) rs_sleeping = wait_pc (snd r) /\ (waiting (fst r) t = true -> snd r = WWaiting).
Proof.
  intros c o t g pc [H1 H2]. destruct pc; cbn [worker_step]; cbv zeta; unfold reset_fresh; brk; takes; cbn [fst snd wait_pc] in *;
    try (destruct (exec_fields g t) as (E1 & E2 & E3); rewrite E1, E2);
    try match goal with |- context [moven ?n ?g0 ?d ?s] => destruct (moven_fields n g0 d s) as (M1 & M2 & M3 & M4); rewrite M1, M2 end;
    cbn [st waiting set_st set_waiting set_fresh]; rewrite ?upd_same;
    repeat match goal with H : st _ = st _ |- _ => rewrite H end;
    repeat match goal with H : waiting _ = waiting _ |- _ => rewrite H end;
    first [ (split; [assumption|intros W; specialize (H2 W); discriminate])
          | (split; [reflexivity|intros W; specialize (H2 W); discriminate])
          | (split; [assumption|reflexivity])
          | (split; [assumption|discriminate])
          | (split; [reflexivity|intros W; try reflexivity; discriminate])
          | (split; [|intros W; specialize (H2 W); discriminate]; apply rs_eqb_eq in H1; rewrite H1; reflexivity) ].
Qed.

Lemma worker_held : forall c o t g pc,
  (forall tk, In (t, tk) (heldl g) -> pc = WExec) -> NoDup (map fst (heldl g)) ->
  let r := worker_step c o t g pc in
  NoDup (map fst (heldl (fst r))) /\
  (forall w tk, In (w, tk) (heldl (fst r)) -> (w = t /\ snd r = WExec) \/ (w <> t /\ In (w, tk) (heldl g))).
Proof.
  intros c o t g pc Hpc Hnd.
  assert (Hsame : forall g' pc', heldl g' = heldl g -> pc <> WExec ->
            NoDup (map fst (heldl g')) /\
            (forall w tk, In (w, tk) (heldl g') -> (w = t /\ pc' = WExec) \/ (w <> t /\ In (w, tk) (heldl g)))).
  { intros g' pc' E N. rewrite E. split; [exact Hnd|]. intros w tk Hin. right. split; [|exact Hin].
    intros ->. apply N. eapply Hpc; eassumption. }
  assert (Htake : forall v g', take g t v = Some g' -> pc <> WExec ->
            NoDup (map fst (heldl g')) /\
            (forall w tk, In (w, tk) (heldl g') -> (w = t /\ WExec = WExec) \/ (w <> t /\ In (w, tk) (heldl g)))).
  { intros v g' T N. apply take_fields in T. destruct T as (_ & _ & _ & tk0 & Hh). rewrite Hh. split.
    - cbn. constructor; [|exact Hnd]. intros Hin. apply in_map_iff in Hin. destruct Hin as ([w' tk'] & Hw & Hin). cbn in Hw. subst w'.
      apply N. eapply Hpc; eassumption.
    - intros w tk [Heq|Hin].
      + inversion Heq; subst. left; split; reflexivity.
      + destruct (Nat.eq_dec w t) as [->|Nw]; [exfalso; apply N; eapply Hpc; eassumption|right; split; assumption]. }
  destruct pc; cbn [worker_step]; cbv zeta; unfold reset_fresh.
  all: try (solve [brk; cbn [fst snd]; first [ (eapply Htake; [eassumption|discriminate])
                 | (apply Hsame; [first [reflexivity | apply moven_fields] | discriminate]) ]]).
  cbn [fst snd]. unfold exec. destruct (extract t (heldl g)) as [[tk r]|] eqn:E; cbn [heldl].
  + pose proof (extract_perm _ _ _ _ E) as P. pose proof (Permutation_map fst P) as P2. cbn in P2.
    pose proof (Permutation_NoDup P2 Hnd) as N2. inversion N2 as [|? ? Hnot N3]; subst. split; [exact N3|].
    intros w tk' Hin. right. split.
    * intros ->. apply Hnot. apply in_map_iff. exists (t, tk'). split; [reflexivity|exact Hin].
    * apply (Permutation_in _ (Permutation_sym P)). right. exact Hin.
  + split; [exact Hnd|]. intros w tk' Hin. right. split; [|exact Hin]. intros ->. exact (extract_none _ _ E _ Hin).
Qed.

Lemma client_todo : forall c o t g cl,
  todo (snd (client_step c o t g cl)) = todo cl \/ todo (snd (client_step c o t g cl)) = tl (todo cl).
Proof.
  intros c o t g cl. unfold client_step. destruct (todo cl) as [|p rest] eqn:E; [left; exact E|].
  destruct p; cbv zeta; brk; hintsplit; cbn [snd todo cl_next cl_ph tl]; rewrite ?E; cbn [tl]; auto.
Qed.

(* ---- the PU locks ---- *)
Definition LKpost (g : gst) (t : nat) (g' : gst) (cl' : client) : Prop :=
  (forall w, ph cl' = PhHold w -> hold_head (todo cl') w) /\
  (forall w t2, pul g' w = Some t2 -> (t2 = t /\ ph cl' = PhHold w) \/ (t2 <> t /\ pul g w = Some t2)).

Lemma lk_stay : forall g t cl,
  (forall w, ph cl = PhHold w -> hold_head (todo cl) w) -> (forall w, pul g w = Some t -> ph cl = PhHold w) ->
  LKpost g t g cl.
Proof.
  intros g t cl H1 H2. split; [exact H1|]. intros w t2 Hp. destruct (Nat.eq_dec t2 t) as [->|N]; [left; split; [reflexivity|apply H2, Hp]|right; split; assumption].
Qed.

Lemma lk_nochange : forall g t cl g' cl',
  pul g' = pul g -> (forall w, ph cl' <> PhHold w) -> (forall w, ph cl <> PhHold w) ->
  (forall w, pul g w = Some t -> ph cl = PhHold w) -> LKpost g t g' cl'.
Proof.
  intros g t cl g' cl' E N' N H2. split; [intros w Hw; exfalso; exact (N' w Hw)|].
  intros w t2 Hp. rewrite E in Hp. destruct (Nat.eq_dec t2 t) as [->|Nt]; [exfalso; exact (N w (H2 w Hp))|right; split; assumption].
Qed.

Lemma lk_acquire : forall g t cl g' cl' w0,
  pul g' = upd (pul g) w0 (Some t) -> ph cl' = PhHold w0 -> hold_head (todo cl') w0 -> (forall w, ph cl <> PhHold w) ->
  (forall w, pul g w = Some t -> ph cl = PhHold w) -> LKpost g t g' cl'.
Proof.
  intros g t cl g' cl' w0 E P HH N H2. split.
  - intros w Hw. rewrite P in Hw. inversion Hw; subst. exact HH.
  - intros w t2 Hp. rewrite E in Hp. unfold upd in Hp. destruct (Nat.eqb w w0) eqn:Ew.
    + apply Nat.eqb_eq in Ew. subst. inversion Hp; subst. left; split; [reflexivity|exact P].
    + destruct (Nat.eq_dec t2 t) as [->|Nt]; [exfalso; exact (N w (H2 w Hp))|right; split; assumption].
Qed.

Lemma lk_release : forall g t cl g' cl' w0,
  pul g' = upd (pul g) w0 None -> ph cl = PhHold w0 -> (forall w, ph cl' <> PhHold w) ->
  (forall w, pul g w = Some t -> ph cl = PhHold w) -> LKpost g t g' cl'.
Proof.
  intros g t cl g' cl' w0 E P N' H2. split; [intros w Hw; exfalso; exact (N' w Hw)|].
  intros w t2 Hp. rewrite E in Hp. unfold upd in Hp. destruct (Nat.eqb w w0) eqn:Ew; [discriminate|].
  destruct (Nat.eq_dec t2 t) as [->|Nt]; [|right; split; assumption].
  exfalso. specialize (H2 w Hp). rewrite P in H2. inversion H2; subst. rewrite Nat.eqb_refl in Ew. discriminate.
Qed.

Lemma client_lock : forall c o t g cl,
  (forall w, ph cl = PhHold w -> hold_head (todo cl) w) ->
  (forall w, pul g w = Some t -> ph cl = PhHold w) ->
  LKpost g t (fst (client_step c o t g cl)) (snd (client_step c o t g cl)).
Proof.
  intros c o t g cl H1 H2. unfold client_step. destruct (todo cl) as [|p rest] eqn:E.
  { cbn [fst snd]. apply lk_stay; [intros w Hw; rewrite E; exact (H1 w Hw)|exact H2]. }
  assert (NH : forall w, ph cl = PhHold w -> hold_head (p :: rest) w) by exact H1.
  assert (H1' : forall w, ph cl = PhHold w -> hold_head (todo cl) w) by (intros w Hw; rewrite E; exact (H1 w Hw)).
  destruct p; cbv zeta.
  - (* PRefuse *) eapply lk_nochange with (cl := cl); [reflexivity|intros w; cbn; discriminate|intros w Hw; exact (NH w Hw)|exact H2].
  - (* PRet *) eapply lk_nochange with (cl := cl); [reflexivity|intros w; cbn; discriminate|intros w Hw; exact (NH w Hw)|exact H2].
  - (* PLockedCas *)
    case_eq (ph cl); [intros P|intros w0 P|intros s0 k0 cnt0 m0 P|intros s0 k0 cnt0 m0 P|intros w0 P].
    2:{ cbn [fst snd]. eapply lk_release with (cl := cl) (w0 := w); [reflexivity| |intros x; cbn; discriminate|exact H2].
        specialize (NH _ P). cbn in NH. subst. exact P. }
    all: destruct (pul g w) eqn:L; cbn [fst snd];
      [apply lk_stay; [exact H1'|exact H2]
      |eapply lk_acquire with (cl := cl) (w0 := w); [reflexivity|reflexivity|cbn [todo cl_ph]; rewrite E; reflexivity|intros x; rewrite P; discriminate|exact H2]].
  - (* PLockedNop *)
    case_eq (ph cl); [intros P|intros w0 P|intros s0 k0 cnt0 m0 P|intros s0 k0 cnt0 m0 P|intros w0 P].
    2:{ cbn [fst snd]. eapply lk_release with (cl := cl) (w0 := w); [reflexivity| |intros x; cbn; discriminate|exact H2].
        specialize (NH _ P). cbn in NH. subst. exact P. }
    all: destruct (pul g w) eqn:L; cbn [fst snd];
      [apply lk_stay; [exact H1'|exact H2]
      |eapply lk_acquire with (cl := cl) (w0 := w); [reflexivity|reflexivity|cbn [todo cl_ph]; rewrite E; reflexivity|intros x; rewrite P; discriminate|exact H2]].
  - (* PWaitNot *) destruct (rs_eqb _ _); [apply lk_stay; [exact H1'|exact H2]|].
    eapply lk_nochange with (cl := cl); [reflexivity|intros x; cbn; discriminate|intros x Hx; exact (NH x Hx)|exact H2].
  - (* PCas *) eapply lk_nochange with (cl := cl); [reflexivity|intros x; cbn; discriminate|intros x Hx; exact (NH x Hx)|exact H2].
  - (* PNotify *) eapply lk_nochange with (cl := cl); [unfold notify; destruct g_resume_notifies; reflexivity|intros x; cbn; discriminate|intros x Hx; exact (NH x Hx)|exact H2].
  - (* PResumeLoop *) destruct (rs_eqb _ _); cbn [fst snd].
    + destruct (lk_stay g t cl H1' H2) as [A B]. split; [exact A|]. intros x t2 Hp. apply B. unfold notify in Hp. destruct g_resume_notifies; exact Hp.
    + eapply lk_nochange with (cl := cl); [unfold notify; destruct g_resume_notifies; reflexivity|intros x; cbn; discriminate|intros x Hx; exact (NH x Hx)|exact H2].
  - (* PWaitIdle *) destruct (live g); [|apply lk_stay; [exact H1'|exact H2]].
    eapply lk_nochange with (cl := cl); [reflexivity|intros x; cbn; discriminate|intros x Hx; exact (NH x Hx)|exact H2].
  - (* PSubmit *)
    case_eq (ph cl); [intros P|intros w0 P|intros s0 k0 cnt0 m0 P|intros s0 k0 cnt0 m0 P|intros w0 P].
    + destruct hint; cbn [fst snd]; (eapply lk_nochange with (cl := cl); [reflexivity|intros x; cbn; destruct (elastic c); discriminate|intros x; rewrite P; discriminate|exact H2]).
    + cbn [fst snd]. eapply lk_release with (cl := cl) (w0 := w0); [reflexivity|exact P|intros x; cbn; discriminate|exact H2].
    + destruct (pul g _) eqn:L; [|destruct (negb (fst o) && rs_le _ m0)]; cbn [fst snd].
      * eapply lk_nochange with (cl := cl); [reflexivity|intros x; cbn; discriminate|intros x; rewrite P; discriminate|exact H2].
      * eapply lk_acquire with (cl := cl); [reflexivity|reflexivity|cbn [todo cl_ph cl_sel]; rewrite E; exact I|intros x; rewrite P; discriminate|exact H2].
      * eapply lk_nochange with (cl := cl); [reflexivity|intros x; cbn; discriminate|intros x; rewrite P; discriminate|exact H2].
    + destruct (Nat.ltb _ _); [|destruct (if rs_le _ m0 then S cnt0 else cnt0); [destruct (escalate m0)|]]; cbn [fst snd];
        (eapply lk_nochange with (cl := cl); [reflexivity|intros x; cbn; discriminate|intros x; rewrite P; discriminate|exact H2]).
    + cbn [fst snd]. eapply lk_nochange with (cl := cl); [reflexivity|intros x; cbn; discriminate|intros x; rewrite P; discriminate|exact H2].
Qed.

(* ---- preservation of INV4 ---- *)
Lemma forall_tl : forall (A : Type) (P : A -> Prop) (l : list A), Forall P l -> Forall P (tl l).
Proof. intros A P l H. destruct l; [exact H|inversion H; assumption]. Qed.

Lemma tstep_inv4 : forall c o t g (ls : locals lstate), INV4 c g ls ->
  INV4 c (fst (sr_tstep c o t g (ls t))) (upd ls t (snd (sr_tstep c o t g (ls t)))).
Proof.
  intros c o t g ls I.
  assert (Hid : INV4 c g (upd ls t (ls t))).
  { assert (Hx : forall x, upd ls t (ls t) x = ls x) by (intros x; unfold upd; destruct (Nat.eqb x t) eqn:E; [apply Nat.eqb_eq in E; subst|]; reflexivity).
    destruct I. constructor; intros; rewrite ?Hx in *; eauto. }
  destruct (ls t) as [pc|cl|] eqn:L; cbn [sr_tstep]; [| |exact Hid].
  - (* worker *)
    destruct (Nat.ltb t (nw c)) eqn:Lt; [|exact Hid]. apply Nat.ltb_lt in Lt.
    pose proof (worker_eff c o t g pc) as (Eo & Ep).
    pose proof (worker_hs_self c o t g pc (i_hs c g ls I t pc L Lt)) as Hs.
    pose proof (worker_held c o t g pc) as Hh.
    destruct (worker_step c o t g pc) as [g' pc'] eqn:W. cbn [fst snd] in *.
    assert (Hpc : forall tk, In (t, tk) (heldl g) -> pc = WExec).
    { intros tk Hin. destruct (i_held c g ls I t tk Hin) as [_ Hl]. rewrite L in Hl. inversion Hl. reflexivity. }
    specialize (Hh Hpc (i_heldnd c g ls I)). destruct Hh as [Hnd Hh].
    constructor.
    + intros x Hx. unfold upd. destruct (Nat.eqb x t); [eexists; reflexivity|exact (i_roleW c g ls I x Hx)].
    + intros x Hx. unfold upd. destruct (Nat.eqb x t) eqn:E; [apply Nat.eqb_eq in E; lia|exact (i_roleC c g ls I x Hx)].
    + intros w t2 Hp. rewrite Ep in Hp. destruct (i_lock c g ls I w t2 Hp) as (cl2 & Hl & Hn & Hph).
      exists cl2. rewrite upd_other by lia. auto.
    + intros t2 cl2 w Hl Hph. unfold upd in Hl. destruct (Nat.eqb t2 t); [discriminate|]. exact (i_hold c g ls I t2 cl2 w Hl Hph).
    + intros w pc2 Hl Hw. unfold upd in Hl. destruct (Nat.eqb w t) eqn:E.
      * apply Nat.eqb_eq in E. subst w. inversion Hl; subst. exact Hs.
      * apply Nat.eqb_neq in E. destruct (Eo w E) as [E1 E2]. rewrite E1, E2. exact (i_hs c g ls I w pc2 Hl Hw).
    + intros w tk Hin. destruct (Hh w tk Hin) as [[-> Hx]|[Nw Hin2]].
      * split; [exact Lt|]. rewrite upd_same. rewrite Hx. reflexivity.
      * destruct (i_held c g ls I w tk Hin2) as [Hw Hl]. split; [exact Hw|]. rewrite upd_other by exact Nw. exact Hl.
    + exact Hnd.
    + intros t2 cl2 Hl. unfold upd in Hl. destruct (Nat.eqb t2 t); [discriminate|]. exact (i_prog c g ls I t2 cl2 Hl).
  - (* client *)
    destruct (Nat.ltb t (nw c)) eqn:Lt; [exact Hid|]. apply Nat.ltb_ge in Lt.
    pose proof (client_eff c o t g cl) as (Es & Ew & Eh).
    pose proof (client_todo c o t g cl) as Ht.
    assert (H2 : forall w, pul g w = Some t -> ph cl = PhHold w).
    { intros w Hp. destruct (i_lock c g ls I w t Hp) as (cl2 & Hl & _ & Hph). rewrite L in Hl. inversion Hl; subst. exact Hph. }
    pose proof (client_lock c o t g cl (fun w => i_hold c g ls I t cl w L) H2) as [K1 K2].
    destruct (client_step c o t g cl) as [g' cl'] eqn:W. cbn [fst snd] in *.
    constructor.
    + intros x Hx. rewrite upd_other by lia. exact (i_roleW c g ls I x Hx).
    + intros x Hx. unfold upd. destruct (Nat.eqb x t); [eexists; reflexivity|exact (i_roleC c g ls I x Hx)].
    + intros w t2 Hp. destruct (K2 w t2 Hp) as [[-> Hph]|[Nt Hp2]].
      * exists cl'. rewrite upd_same. auto.
      * destruct (i_lock c g ls I w t2 Hp2) as (cl2 & Hl & Hn & Hph). exists cl2. rewrite upd_other by exact Nt. auto.
    + intros t2 cl2 w Hl Hph. unfold upd in Hl. destruct (Nat.eqb t2 t) eqn:E.
      * inversion Hl; subst. exact (K1 w Hph).
      * exact (i_hold c g ls I t2 cl2 w Hl Hph).
    + intros w pc2 Hl Hw. rewrite upd_other in Hl by lia. destruct (i_hs c g ls I w pc2 Hl Hw) as [A B].
      split; [rewrite Es; exact A|intros Hwt; apply B, Ew, Hwt].
    + intros w tk Hin. rewrite Eh in Hin. destruct (i_held c g ls I w tk Hin) as [Hw Hl]. split; [exact Hw|].
      rewrite upd_other by lia. exact Hl.
    + rewrite Eh. exact (i_heldnd c g ls I).
    + intros t2 cl2 Hl. unfold upd in Hl. destruct (Nat.eqb t2 t) eqn:E.
      * inversion Hl; subst. pose proof (i_prog c g ls I t cl L) as F. destruct Ht as [-> | ->]; [exact F|apply forall_tl, F].
      * exact (i_prog c g ls I t2 cl2 Hl).
Qed.

Lemma spu_internal_ok : forall c w, w < nw c -> Forall (prim_ok c) (spu_internal w).
Proof. intros c w H. unfold spu_internal. repeat constructor; cbn; auto. Qed.

Lemma expand_ok : forall c a, api_ok c a -> Forall (prim_ok c) (expand c a).
Proof.
  intros c a H. destruct a as [w self|w|self| |h|h]; cbn [expand api_ok] in *.
  - apply Forall_app. split; [|repeat constructor].
    unfold spu_direct. cbv zeta. change (nth 0 g_spu_refusal_returns false) with true. change (nth 1 g_spu_refusal_returns false) with true.
    destruct (negb (elastic c)); [repeat constructor|].
    destruct (self && negb (stealing c)); [repeat constructor|apply spu_internal_ok, H].
  - repeat constructor; cbn; auto.
  - apply Forall_app. split; [|repeat constructor]. unfold pool_suspend. cbv zeta.
    assert (B : Forall (prim_ok c) (PWaitIdle :: map PCas (seq 0 (nw c)) ++ flat_map spu_internal (seq 0 (nw c)))).
    { constructor; [exact I|]. apply Forall_app. split.
      - apply Forall_forall. intros p Hp. apply in_map_iff in Hp. destruct Hp as (x & <- & _). exact I.
      - apply Forall_forall. intros p Hp. apply in_flat_map in Hp. destruct Hp as (x & Hx & Hp). apply in_seq in Hx.
        pose proof (spu_internal_ok c x) as F. rewrite Forall_forall in F. apply F; [lia|exact Hp]. }
    destruct self; [change g_pool_refusal_returns with true; repeat constructor|exact B].
  - apply Forall_app. split; [|repeat constructor]. unfold pool_resume. apply Forall_app. split.
    + apply Forall_forall. intros p Hp. apply in_map_iff in Hp. destruct Hp as (x & <- & _). exact I.
    + apply Forall_forall. intros p Hp. apply in_flat_map in Hp. destruct Hp as (x & Hx & Hp). apply in_seq in Hx.
      destruct Hp as [<-|[<-|[]]]; cbn; [exact I|lia].
  - repeat constructor.
  - repeat constructor.
Qed.

Lemma inv4_init : forall c progs, (forall t, Forall (api_ok c) (progs t)) -> INV4 c sr_g0 (sr_locals c progs).
Proof.
  intros c progs Hok. constructor; unfold sr_locals; cbn [sr_g0 pul st waiting heldl].
  - intros t Ht. apply Nat.ltb_lt in Ht. rewrite Ht. eexists; reflexivity.
  - intros t Ht. apply Nat.ltb_ge in Ht. rewrite Ht. eexists; reflexivity.
  - intros w t H. discriminate.
  - intros t cl w H Hph. destruct (Nat.ltb t (nw c)); [discriminate|]. inversion H; subst. cbn in Hph. discriminate.
  - intros w pc H Hw. destruct (Nat.ltb w (nw c)); [|discriminate]. inversion H; subst. split; [reflexivity|discriminate].
  - intros w tk [].
  - constructor.
  - intros t cl H. destruct (Nat.ltb t (nw c)); [discriminate|]. inversion H; subst. cbn [todo].
    generalize (Hok t). generalize (progs t). induction l as [|a l IH]; intros F; cbn; [constructor|]. inversion F; subst.
    apply Forall_app. split; [apply expand_ok; assumption|apply IH; assumption].
Qed.

Lemma sr_inv4 : forall c progs sched, (forall t, Forall (api_ok c) (progs t)) ->
  INV4 c (fst (sr_run c progs sched)) (snd (sr_run c progs sched)).
Proof.
  intros c progs sched Hok. unfold sr_run.
  apply (run_inv gst lstate oracle (sr_tstep c) (INV4 c) (tstep_inv4 c) sched (sr_g0, sr_locals c progs)).
  cbn [fst snd]. apply inv4_init, Hok.
Qed.

Definition stuck (c : cfg) (cf : gst * (nat -> lstate)) : Prop :=
  forall t, enabled c t (fst cf) (snd cf t) = false.

Lemma stuck_worker : forall c g (ls : locals lstate) w pc, INV4 c g ls -> stuck c (g, ls) -> w < nw c -> ls w = LWorker pc ->
  worker_enabled c w g pc = false.
Proof.
  intros c g ls w pc I S Hw L. specialize (S w). cbn [fst snd] in S. rewrite L in S. cbn [enabled] in S.
  apply Nat.ltb_lt in Hw. rewrite Hw in S. exact S.
Qed.

Lemma stuck_client : forall c g (ls : locals lstate) t cl, INV4 c g ls -> stuck c (g, ls) -> ls t = LClient cl ->
  nw c <= t /\ client_enabled c g cl = false.
Proof.
  intros c g ls t cl I S L. destruct (Nat.lt_ge_cases t (nw c)) as [Lt|Ge].
  - destruct (i_roleW c g ls I t Lt) as (pc & Hp). rewrite L in Hp. discriminate.
  - split; [exact Ge|]. specialize (S t). cbn [fst snd] in S. rewrite L in S. cbn [enabled] in S.
    apply Nat.ltb_ge in Ge. rewrite Ge in S. exact S.
Qed.

(* ---- queue indices are worker numbers or the low-priority queue ---- *)
Definition phase_ok (c : cfg) (cl : client) : Prop :=
  match ph cl with
  | PhHold i => match todo cl with PSubmit _ _ :: _ => i < nw c | _ => True end
  | PhEnq i => i < nw c
  | PhSelA s _ _ _ | PhSelB s _ _ _ => s < nw c
  | Ph0 => True
  end.

Definition qs_ok (c : cfg) (g : gst) : Prop := forall i tk, In (i, tk) (qs g) \/ In (i, tk) (sq g) -> i <= nw c.

Lemma move1_qs_ok : forall c g d s g', move1 g d s = Some g' -> d <= nw c -> qs_ok c g -> qs_ok c g'.
Proof.
  intros c g d s g' H Hd Q. unfold move1 in H. destruct (extract s (sq g)) as [[tk r]|] eqn:E; [|discriminate]. inversion H; subst; clear H.
  intros i x Hin. cbn [qs sq] in Hin. rewrite in_app_iff in Hin. cbn in Hin. destruct Hin as [[Hin|[Hin|[]]]|Hin].
  - apply (Q i x). auto.
  - inversion Hin; subst. exact Hd.
  - apply (Q i x). right. eapply extract_incl; eassumption.
Qed.

Lemma moven_qs_ok : forall c n g d s, d <= nw c -> qs_ok c g -> qs_ok c (moven n g d s).
Proof.
  induction n as [|n IH]; intros g d s Hd Q; cbn; [exact Q|]. destruct (move1 g d s) eqn:E; [|exact Q].
  apply IH; [exact Hd|]. eapply move1_qs_ok; eassumption.
Qed.

Lemma worker_qs_ok : forall c o t g pc, t < nw c -> qs_ok c g -> qs_ok c (fst (worker_step c o t g pc)).
Proof.
  intros c o t g pc Ht H.
  assert (HT : forall v g', take g t v = Some g' -> qs_ok c g').
  { intros v g' T. unfold take in T. destruct (extract v (qs g)) as [[tk r]|] eqn:E; [|discriminate]. inversion T; subst.
    intros i tk' Hin. cbn in Hin. apply (H i tk'). destruct Hin as [Hin|Hin]; [left; eapply extract_incl; eassumption|right; exact Hin]. }
  destruct pc; cbn [worker_step]; cbv zeta; unfold reset_fresh; brk; cbn [fst]; try exact H; try (eapply HT; eassumption);
    try (apply moven_qs_ok; [unfold lowq; lia|exact H]).
  unfold exec. destruct (extract t (heldl g)) as [[tk r]|]; exact H.
Qed.

Lemma client_qi : forall c o t g cl, nw c > 0 -> phase_ok c cl -> qs_ok c g ->
  phase_ok c (snd (client_step c o t g cl)) /\ qs_ok c (fst (client_step c o t g cl)).
Proof.
  intros c o t g cl Hn P Q. unfold client_step. destruct (todo cl) as [|p rest] eqn:E; [split; assumption|].
  assert (Hm : forall x, x mod nw c < nw c) by (intros x; apply Nat.mod_upper_bound; lia).
  assert (Henq : forall i v, i <= nw c -> qs_ok c (enqueue g t i v)).
  { intros i v Hi j tk Hin. unfold enqueue in Hin; cbn in Hin. rewrite in_app_iff in Hin. cbn in Hin.
    destruct Hin as [Hin|[Hin|[Heq|[]]]]; [apply (Q j tk); auto|apply (Q j tk); auto|]. inversion Heq; subst. exact Hi. }
  assert (Henq' : forall i v f, i <= nw c -> qs_ok c (set_pul (enqueue g t i v) f)) by (intros i v f Hi; exact (Henq i v Hi)).
  assert (Hlow : forall (b : bool) i, i < nw c -> (if b then lowq c else i) <= nw c) by (intros [|] i Hi; unfold lowq; lia).
  unfold phase_ok in P. rewrite E in P.
  destruct p; cbv zeta; brk; hintsplit; cbn [fst snd]; unfold phase_ok, cl_next, cl_ph, cl_sel, notify; cbn [ph todo]; rewrite ?E;
    try (change g_resume_notifies with true; cbv iota);
    repeat match goal with H : ph cl = _ |- _ => rewrite H in P end;
    repeat match goal with H : ph cl = _ |- context [ph cl] => rewrite H end;
    (split; [try exact I; try exact P; try apply Hm; auto | try exact Q; try (apply Henq; apply Hlow; exact P)]).
  all: try (destruct (elastic c); apply Hm).
  all: try (first [apply Henq | apply Henq']; unfold lowq; lia).
Qed.

Definition QI (c : cfg) (g : gst) (ls : locals lstate) : Prop :=
  qs_ok c g /\ forall t cl, ls t = LClient cl -> phase_ok c cl.

Lemma tstep_qi : forall c, nw c > 0 -> forall o t g (ls : locals lstate), QI c g ls ->
  QI c (fst (sr_tstep c o t g (ls t))) (upd ls t (snd (sr_tstep c o t g (ls t)))).
Proof.
  intros c Hn o t g ls [Q P].
  assert (Hid : QI c g (upd ls t (ls t))).
  { split; [exact Q|]. intros t2 cl2 H. unfold upd in H. destruct (Nat.eqb t2 t) eqn:E; [apply Nat.eqb_eq in E; subst|]; eapply P; eassumption. }
  destruct (ls t) as [pc|cl|] eqn:L; cbn [sr_tstep]; [| |exact Hid].
  - destruct (Nat.ltb t (nw c)) eqn:Lt; [|exact Hid]. apply Nat.ltb_lt in Lt.
    pose proof (worker_qs_ok c o t g pc Lt Q) as W. destruct (worker_step c o t g pc) as [g' pc']. cbn [fst snd] in *.
    split; [exact W|]. intros t2 cl2 H. unfold upd in H. destruct (Nat.eqb t2 t); [discriminate|]. eapply P; eassumption.
  - destruct (Nat.ltb t (nw c)); [exact Hid|].
    pose proof (client_qi c o t g cl Hn (P t cl L) Q) as [W1 W2]. destruct (client_step c o t g cl) as [g' cl']. cbn [fst snd] in *.
    split; [exact W2|]. intros t2 cl2 H. unfold upd in H. destruct (Nat.eqb t2 t); [inversion H; subst; exact W1|eapply P; eassumption].
Qed.

Lemma sr_qi : forall c progs sched, nw c > 0 -> qs_ok c (fst (sr_run c progs sched)).
Proof.
  intros c progs sched Hn. unfold sr_run.
  apply (run_inv gst lstate oracle (sr_tstep c) (QI c) (tstep_qi c Hn) sched (sr_g0, sr_locals c progs)).
  cbn [fst snd]. split; [intros i tk [[]|[]]|]. intros t cl H. unfold sr_locals in H. destruct (Nat.ltb t (nw c)); [discriminate|].
  inversion H; subst. exact I.
Qed.

(* ---- the calls return ---- *)
Lemma nonempty_app : forall (A : Type) (l1 l2 : list A), nonempty (l1 ++ l2) = nonempty l1 || nonempty l2.
Proof. intros A [|a l1] l2; reflexivity. Qed.

Lemma nonempty_in : forall (A : Type) (l : list A) x, In x l -> nonempty l = true.
Proof. intros A [|a l] x H; [destruct H|reflexivity]. Qed.

(* the finding: a processing-unit suspend of the LAST worker spins for ever in yield_while(state == pre_sleep): the worker has
   been told to sleep, its own queues are empty, but the pool-wide low-priority queue, which it no longer serves, is not *)
Definition lowprio_blocked (c : cfg) (g : gst) (l : lstate) : Prop :=
  exists w, at_wait_sleep w l = true /\ lastw c w = true /\ st g w = rs_pre_sleep /\ own_work w g = false /\
            nonempty (qof (lowq c) (qs g) ++ qof (lowq c) (sq g)) = true.

(* no call blocks for ever, except (1) a pool-suspend that waits for the pool to drain while work remains and
   (2) the low-priority finding *)
(* stated for ANY state satisfying the hand-shake / lock invariant (reused by the high-priority layer, round p12a) *)
Lemma stuck_return_gen : forall c g (ls : locals lstate), INV4 c g ls -> stuck c (g, ls) ->
  forall t, client_done (ls t) = true \/ (at_wait_idle (ls t) = true /\ live g > 0) \/ lowprio_blocked c g (ls t).
Proof.
  intros c g ls I S t.
  destruct (ls t) as [pc|cl|] eqn:L; [left; reflexivity| |left; reflexivity].
  destruct (stuck_client c g ls t cl I S L) as [Ge Dis].
  pose proof (i_prog c g ls I t cl L) as Pok.
  unfold client_enabled in Dis. unfold lowprio_blocked. cbn [client_done at_wait_idle at_wait_sleep].
  destruct (todo cl) as [|p rest] eqn:E; [left; reflexivity|]. inversion Pok as [|? ? Pp _]; subst.
  assert (Hlock : forall w, pul g w <> None -> False).
  { intros w Hn. destruct (pul g w) as [t2|] eqn:P; [|congruence].
    destruct (i_lock c g ls I w t2 P) as (cl2 & L2 & Ge2 & Ph2).
    pose proof (i_hold c g ls I t2 cl2 w L2 Ph2) as HH.
    destruct (stuck_client c g ls t2 cl2 I S L2) as [_ D2]. unfold client_enabled in D2.
    destruct (todo cl2) as [|p2 r2]; [exact HH|]. destruct p2; cbn in HH; try contradiction; rewrite ?Ph2 in D2; discriminate. }
  destruct p; try discriminate.
  - (* PLockedCas *) destruct (ph cl); try discriminate; destruct (pul g w) eqn:P; try discriminate; exfalso; apply (Hlock w); rewrite P; discriminate.
  - (* PLockedNop *) destruct (ph cl); try discriminate; destruct (pul g w) eqn:P; try discriminate; exfalso; apply (Hlock w); rewrite P; discriminate.
  - (* PWaitNot *) right. right. cbn in Pp. destruct Pp as [-> Hw]. apply negb_false_iff in Dis. apply rs_eqb_eq in Dis.
    exists w. rewrite Nat.eqb_refl. split; [reflexivity|].
    destruct (i_roleW c g ls I w Hw) as (pc & Lw). pose proof (stuck_worker c g ls w pc I S Hw Lw) as D.
    destruct (i_hs c g ls I w pc Lw Hw) as [A _]. rewrite Dis in A. change g_sus_wait with rs_pre_sleep in Dis.
    assert (K : own_work w g || can_sleep c w g = false -> lastw c w = true /\ st g w = rs_pre_sleep /\ own_work w g = false /\
              nonempty (qof (lowq c) (qs g) ++ qof (lowq c) (sq g)) = true).
    { intros K. apply orb_false_iff in K. destruct K as [K1 K2]. unfold can_sleep in K2. rewrite Dis in K2. cbn in K2.
      apply negb_false_iff in K2. unfold qlen_tasks in K2. unfold own_work in K1. apply orb_false_iff in K1. destruct K1 as [K1a K1b].
      rewrite !nonempty_app, K1a, K1b in K2. cbn [orb] in K2. destruct (lastw c w); [|cbn in K2; discriminate K2].
      repeat split; try assumption. unfold own_work. rewrite K1a, K1b. reflexivity. }
    destruct pc as [|r| | | |r| | |r|[|]| | | |]; cbn in A; cbn [worker_enabled stale] in D; try discriminate;
      try (apply orb_false_iff in D; destruct D as [D D']; apply orb_false_iff in D; destruct D as [D _]; exact (K D)).
  - (* PResumeLoop *) exfalso. cbn in Pp. apply orb_false_iff in Dis. destruct Dis as [D1 D2]. apply negb_false_iff in D1.
    change g_resume_notifies with true in D2. cbn in D2.
    destruct (i_roleW c g ls I w Pp) as (pc & Lw). pose proof (stuck_worker c g ls w pc I S Pp Lw) as D.
    destruct (i_hs c g ls I w pc Lw Pp) as [A _]. change g_res_wait with rs_sleeping in D1. rewrite D1 in A.
    destruct pc; cbn in A, D; try discriminate. rewrite D2 in D. discriminate.
  - (* PWaitIdle *) right. left. split; [reflexivity|]. destruct (live g); [discriminate|lia].
Qed.

Lemma suspend_resume_return : forall c progs sched, (forall t, Forall (api_ok c) (progs t)) ->
  let cf := sr_run c progs sched in
  stuck c cf ->
  forall t, client_done (snd cf t) = true \/ (at_wait_idle (snd cf t) = true /\ live (fst cf) > 0) \/
            lowprio_blocked c (fst cf) (snd cf t).
Proof.
  intros c progs sched Hok cf S t. pose proof (sr_inv4 c progs sched Hok) as I. fold cf in I.
  destruct cf as [g ls]. cbn [fst snd] in *. exact (stuck_return_gen c g ls I S t).
Qed.

Lemma suspend_resume_return_guarded : forall c progs sched, (forall t, Forall (api_ok c) (progs t)) ->
  let cf := sr_run c progs sched in
  stuck c cf -> qof (lowq c) (qs (fst cf)) = [] -> qof (lowq c) (sq (fst cf)) = [] ->
  forall t, client_done (snd cf t) = true \/ (at_wait_idle (snd cf t) = true /\ live (fst cf) > 0).
Proof.
  intros c progs sched Hok cf S E1 E2 t. destruct (suspend_resume_return c progs sched Hok S t) as [H|[H|H]]; auto.
  exfalso. destruct H as (w & _ & _ & _ & _ & H). fold cf in H. rewrite E1, E2 in H. discriminate H.
Qed.

(* ---- nothing is left behind ---- *)
Lemma stuck_no_held : forall c g (ls : locals lstate), INV4 c g ls -> stuck c (g, ls) -> heldl g = [].
Proof.
  intros c g ls I S. destruct (heldl g) as [|[w tk] r] eqn:E; [reflexivity|exfalso].
  destruct (i_held c g ls I w tk) as [Hw L]; [rewrite E; left; reflexivity|].
  pose proof (stuck_worker c g ls w WExec I S Hw L) as D. discriminate.
Qed.

(* a running worker that is not enabled: nothing in its own queues, nothing a running worker may take *)
Lemma stuck_running : forall c g (ls : locals lstate) w, INV4 c g ls -> stuck c (g, ls) -> w < nw c ->
  st g w = rs_running -> own_work w g = false /\ run_work c w g = false.
Proof.
  intros c g ls w I S Hw Hr. destruct (i_roleW c g ls I w Hw) as (pc & L).
  pose proof (stuck_worker c g ls w pc I S Hw L) as D. destruct (i_hs c g ls I w pc L Hw) as [A _]. rewrite Hr in A.
  destruct pc; cbn in A; cbn [worker_enabled] in D; try discriminate;
    apply orb_false_iff in D; destruct D as [D _]; apply orb_false_iff in D; destruct D as [D D2];
    apply orb_false_iff in D; destruct D as [D _]; rewrite Hr in D2; cbn in D2; auto.
Qed.

Lemma has_normal_false : forall c l i tk, has_normal c l = false -> In (i, tk) l -> i < nw c -> False.
Proof.
  intros c l i tk H Hin Hi. assert (E : has_normal c l = true); [|congruence].
  unfold has_normal. apply existsb_exists. exists (i, tk). split; [exact Hin|]. cbn. apply Nat.ltb_lt. exact Hi.
Qed.

Lemma nonempty_false : forall (A : Type) (l : list A), nonempty l = false -> l = [].
Proof. intros A [|a l] H; [reflexivity|discriminate]. Qed.

Lemma qof_empty_not_in : forall w l tk, nonempty (qof w l) = false -> In (w, tk) l -> False.
Proof. intros w l tk H Hin. apply nonempty_false in H. apply in_qof in Hin. rewrite H in Hin. exact Hin. Qed.

(* stuck, and every processing unit is running again (every suspend was followed by a resume): nothing is left in any queue
   (normal or low-priority, staged or pending), every submitted task has been executed exactly once *)
Lemma no_task_stranded : forall c progs sched, (forall t, Forall (api_ok c) (progs t)) ->
  let cf := sr_run c progs sched in
  nw c > 0 -> stuck c cf -> (forall w, w < nw c -> st (fst cf) w = rs_running) ->
  qs (fst cf) = [] /\ sq (fst cf) = [] /\ heldl (fst cf) = [] /\ Permutation (map fst (executed (fst cf))) (submitted (fst cf)).
Proof.
  intros c progs sched Hok cf Hn S R. pose proof (sr_inv4 c progs sched Hok) as I.
  pose proof (sr_qi c progs sched Hn) as Q. pose proof (all_done_when_drained c progs sched) as AD. cbv zeta in AD.
  fold cf in I, Q, AD. destruct cf as [g ls]. cbn [fst snd] in *.
  assert (Hh : heldl g = []) by (eapply stuck_no_held; eassumption).
  assert (None : forall i tk, In (i, tk) (qs g) \/ In (i, tk) (sq g) -> False).
  { intros i tk Hin. pose proof (Q i tk Hin) as Hi. destruct (Nat.eq_dec i (nw c)) as [->|Ni].
    - assert (Hl : nw c - 1 < nw c) by lia.
      destruct (stuck_running c g ls (nw c - 1) I S Hl (R _ Hl)) as [_ RW]. unfold run_work in RW.
      apply orb_false_iff in RW. destruct RW as [RW LS]. apply orb_false_iff in RW. destruct RW as [_ LP].
      assert (LL : lastw c (nw c - 1) = true) by (unfold lastw; apply Nat.eqb_eq; lia). unfold low_s in LS. rewrite LL in LS. cbn [andb] in LS.
      unfold low_p in LP. destruct Hin as [Hin|Hin]; [exact (qof_empty_not_in _ _ _ LP Hin)|exact (qof_empty_not_in _ _ _ LS Hin)].
    - assert (Hl : i < nw c) by lia.
      destruct (stuck_running c g ls i I S Hl (R _ Hl)) as [OW _]. unfold own_work in OW. apply orb_false_iff in OW. destruct OW as [O1 O2].
      destruct Hin as [Hin|Hin]; [exact (qof_empty_not_in _ _ _ O1 Hin)|exact (qof_empty_not_in _ _ _ O2 Hin)]. }
  assert (E1 : qs g = []) by (destruct (qs g) as [|[i tk] r]; [reflexivity|exfalso; apply (None i tk); left; left; reflexivity]).
  assert (E2 : sq g = []) by (destruct (sq g) as [|[i tk] r]; [reflexivity|exfalso; apply (None i tk); right; left; reflexivity]).
  repeat split; try assumption. apply AD; assumption.
Qed.

(* with stealing one running worker is enough for everything except the STAGED low-priority tasks, which only the last
   worker converts: they remain (finding) unless w0 is the last worker *)
Lemma no_task_stranded_stealing : forall c progs sched w0, (forall t, Forall (api_ok c) (progs t)) ->
  let cf := sr_run c progs sched in
  stealing c = true -> stuck c cf -> w0 < nw c -> st (fst cf) w0 = rs_running ->
  qs (fst cf) = [] /\ heldl (fst cf) = [] /\
  (forall i tk, In (i, tk) (sq (fst cf)) -> i = lowq c /\ lastw c w0 = false) /\
  (qof (lowq c) (sq (fst cf)) = [] ->
   sq (fst cf) = [] /\ Permutation (map fst (executed (fst cf))) (submitted (fst cf))).
Proof.
  intros c progs sched w0 Hok cf St S Hw Hr. pose proof (sr_inv4 c progs sched Hok) as I.
  assert (Hn : nw c > 0) by lia.
  pose proof (sr_qi c progs sched Hn) as Q. pose proof (all_done_when_drained c progs sched) as AD. cbv zeta in AD.
  fold cf in I, Q, AD. destruct cf as [g ls]. cbn [fst snd] in *.
  assert (Hh : heldl g = []) by (eapply stuck_no_held; eassumption).
  destruct (stuck_running c g ls w0 I S Hw Hr) as [_ RW]. unfold run_work in RW.
  apply orb_false_iff in RW. destruct RW as [RW LS]. apply orb_false_iff in RW. destruct RW as [RW LP].
  apply orb_false_iff in RW. destruct RW as [SP SS]. unfold steal_p, steal_s in *. rewrite St in SP, SS. cbn in SP, SS.
  assert (E1 : qs g = []).
  { destruct (qs g) as [|[i tk] r] eqn:Eq; [reflexivity|exfalso].
    assert (Hin : In (i, tk) (qs g)) by (rewrite Eq; left; reflexivity). rewrite <- Eq in SP.
    pose proof (Q i tk (or_introl Hin)) as Hi. destruct (Nat.eq_dec i (nw c)) as [->|Ni].
    - unfold low_p in LP. eapply qof_empty_not_in; eassumption.
    - eapply has_normal_false; [exact SP|exact Hin|lia]. }
  assert (E3 : forall i tk, In (i, tk) (sq g) -> i = lowq c /\ lastw c w0 = false).
  { intros i tk Hin. pose proof (Q i tk (or_intror Hin)) as Hi. destruct (Nat.eq_dec i (nw c)) as [->|Ni].
    - split; [reflexivity|]. unfold low_s in LS. destruct (lastw c w0); [|reflexivity]. cbn in LS.
      exfalso. eapply qof_empty_not_in; eassumption.
    - exfalso. eapply has_normal_false; [exact SS|exact Hin|lia]. }
  split; [exact E1|split; [exact Hh|split; [exact E3|]]].
  intros El. assert (E2 : sq g = []).
  { destruct (sq g) as [|[i tk] r] eqn:Eq; [reflexivity|exfalso].
    assert (Hin : In (i, tk) (sq g)) by (rewrite Eq; left; reflexivity). rewrite <- Eq in El.
    destruct (E3 i tk) as [-> _]; [rewrite <- Eq; exact Hin|]. apply in_qof in Hin. rewrite El in Hin. exact Hin. }
  split; [exact E2|]. apply AD; assumption.
Qed.

(* ---- the low-priority finding: a concrete reachable stuck state ---- *)
Lemma run_untouched : forall c (sched : list (nat * oracle)) (cf : gst * locals lstate) t,
  ~ In t (map fst sched) -> snd (run (sr_tstep c) sched cf) t = snd cf t.
Proof.
  induction sched as [|[t0 o] s IH]; intros cf t H; [reflexivity|]. rewrite run_cons. rewrite IH.
  - unfold step. cbn [fst snd]. destruct (sr_tstep c o t0 (fst cf) (snd cf t0)) as [g' l']. cbn [snd].
    apply upd_other. intros ->. apply H. left. reflexivity.
  - intros Hin. apply H. right. exact Hin.
Qed.

(* two workers, elasticity and stealing; client 2 stages two low-priority tasks and then suspends processing unit 1 (the last
   one); worker 0 keeps running.  Mirrors notes/repro/c19_lowprio_suspend.cpp (variant with PU 0 left running). *)
Definition lp_cfg := {| nw := 2; elastic := true; stealing := true |}.
Definition lp_progs (t : nat) : list api :=
  match t with 2 => [ASubmitLow None; ASubmitLow None; ASuspendPU 1 false] | _ => [] end.
Definition lp_sched : list (nat * oracle) :=
  repeat (2, (false, 0)) 12 ++ flat_map (fun _ => [(0, (false, 1)); (1, (false, 0)); (2, (false, 0))]) (seq 0 30).

Lemma lp_stuck : stuck lp_cfg (sr_run lp_cfg lp_progs lp_sched).
Proof.
  intros t. destruct (Nat.ltb t 3) eqn:Lt.
  - apply Nat.ltb_lt in Lt. do 3 (destruct t as [|t]; [vm_compute; reflexivity|]). lia.
  - apply Nat.ltb_ge in Lt. unfold sr_run. rewrite run_untouched.
    + cbn [snd]. unfold sr_locals. replace (Nat.ltb t (nw lp_cfg)) with false by (symmetry; apply Nat.ltb_ge; cbn; lia).
      do 3 (destruct t as [|t]; [lia|]). cbn. reflexivity.
    + intros Hin. assert (B : forall x, In x (map fst lp_sched) -> x < 3).
      { intros x Hx. vm_compute in Hx. repeat (destruct Hx as [<-|Hx]; [lia|]). destruct Hx. }
      apply B in Hin. lia.
Qed.

Lemma lowprio_suspend_stuck_refuted :
  exists c progs sched, (forall t, Forall (api_ok c) (progs t)) /\
    let cf := sr_run c progs sched in
    stuck c cf /\
    (* the suspend call has not returned: its caller spins on the state of the last worker, which stays pre_sleep *)
    (exists t w, lastw c w = true /\ at_wait_sleep w (snd cf t) = true /\ client_done (snd cf t) = false /\
                 st (fst cf) w = rs_pre_sleep /\ calls (fst cf) = []) /\
    (* another worker is running, stealing is enabled *)
    (exists w0, w0 < nw c /\ st (fst cf) w0 = rs_running /\ stealing c = true) /\
    (* and yet a staged low-priority task has not run (and, the state being stuck, never will) *)
    (exists tk, In (lowq c, tk) (sq (fst cf)) /\ In tk (submitted (fst cf)) /\ ~ In tk (map fst (executed (fst cf)))) /\
    (* so the unguarded "one running worker suffices" / "the calls return" statements fail *)
    ~ (forall t, client_done (snd cf t) = true \/ (at_wait_idle (snd cf t) = true /\ live (fst cf) > 0)) /\
    sq (fst cf) <> [].
Proof.
  exists lp_cfg, lp_progs, lp_sched. split.
  - intros t. do 3 (destruct t as [|t]; [cbn; repeat constructor|]). constructor.
  - cbv zeta. split; [exact lp_stuck|]. split; [|split; [|split; [|split]]].
    + exists 2, 1. vm_compute. repeat split; reflexivity.
    + exists 0. vm_compute. repeat split; auto.
    + exists (2, 0). vm_compute. split; [left; reflexivity|split; [right; left; reflexivity|intros []]].
    + intros H. specialize (H 2). vm_compute in H. destruct H as [H|[H _]]; discriminate.
    + vm_compute. discriminate.
Qed.
