(* Proofs/SuspendResumeProofs.v — lemmas about Model/SuspendResume.v (C19). *)
From Coq Require Import List NArith Bool Arith Lia Permutation.
From Pika Require Import Base.Conc Gen.GenRuntimeState Model.SuspendResume.
Import ListNotations.

(* ------------------------------------------------------------------ part 1: conservation *)
Definition conserv (g : gst) : Prop :=
  Permutation (map snd (qs g) ++ map snd (heldl g) ++ map fst (executed g)) (submitted g) /\
  NoDup (submitted g) /\
  (forall tk, In tk (submitted g) -> snd tk < nxt g (fst tk)).

Lemma extract_perm : forall w l tk r, extract w l = Some (tk, r) -> Permutation l ((w, tk) :: r).
Proof.
  induction l as [|e l IH]; intros tk r H; cbn in H; [discriminate|].
  destruct (Nat.eqb (fst e) w) eqn:E.
  - inversion H; subst. apply Nat.eqb_eq in E. destruct e as [i x]; cbn in *; subst. apply Permutation_refl.
  - destruct (extract w l) as [[tk' r']|] eqn:E2; [|discriminate]. inversion H; subst.
    specialize (IH _ _ eq_refl). eapply Permutation_trans; [apply perm_skip; exact IH|apply perm_swap].
Qed.

Lemma extract_perm_snd : forall w l tk r, extract w l = Some (tk, r) -> Permutation (map snd l) (tk :: map snd r).
Proof. intros w l tk r H. apply extract_perm in H. apply (Permutation_map snd) in H. exact H. Qed.

Lemma conserv_same : forall g g', qs g' = qs g -> heldl g' = heldl g -> executed g' = executed g ->
  submitted g' = submitted g -> nxt g' = nxt g -> conserv g -> conserv g'.
Proof. intros g g' H1 H2 H3 H4 H5 (P & N & B). unfold conserv. rewrite H1, H2, H3, H4, H5. auto. Qed.

Lemma conserv_take : forall g w v g', take g w v = Some g' -> conserv g -> conserv g'.
Proof.
  intros g w v g' H (P & N & B). unfold take in H.
  destruct (extract v (qs g)) as [[tk r]|] eqn:E; [|discriminate]. inversion H; subst; clear H.
  unfold conserv; cbn. split; [|split; assumption].
  apply extract_perm_snd in E. eapply Permutation_trans; [|exact P].
  apply Permutation_sym. eapply Permutation_trans; [apply Permutation_app_tail; exact E|].
  cbn. apply Permutation_middle.
Qed.

Lemma conserv_exec : forall g w, conserv g -> conserv (exec g w).
Proof.
  intros g w (P & N & B). unfold exec. destruct (extract w (heldl g)) as [[tk r]|] eqn:E; [|repeat split; assumption].
  unfold conserv; cbn. split; [|split; assumption].
  apply extract_perm_snd in E. eapply Permutation_trans; [|exact P].
  apply Permutation_app_head. apply Permutation_sym.
  eapply Permutation_trans; [apply Permutation_app_tail; exact E|]. cbn. apply Permutation_middle.
Qed.

Lemma conserv_enqueue : forall g t i, conserv g -> conserv (enqueue g t i).
Proof.
  intros g t i (P & N & B). unfold conserv, enqueue; cbn. split; [|split].
  - rewrite map_app. cbn. rewrite <- app_assoc. cbn.
    apply Permutation_sym, Permutation_cons_app, Permutation_sym. exact P.
  - constructor; [|exact N]. intros H. apply B in H. cbn in H. lia.
  - intros tk [<-|H]; cbn.
    + rewrite upd_same. lia.
    + specialize (B _ H). unfold upd. destruct (Nat.eqb (fst tk) t) eqn:E; [apply Nat.eqb_eq in E; rewrite E in B; lia|exact B].
Qed.

Ltac same := (eapply conserv_same; [reflexivity|reflexivity|reflexivity|reflexivity|reflexivity|eassumption]).

Ltac brk := repeat match goal with
  | |- context [match ?x with _ => _ end] => destruct x eqn:?
  | |- context [if ?x then _ else _] => destruct x eqn:?
  end.
Ltac leafc H := cbn [fst]; first [exact H | same | (eapply conserv_take; eassumption) | (apply conserv_exec; exact H)
  | (apply conserv_enqueue; exact H)
  | (eapply conserv_same; [reflexivity|reflexivity|reflexivity|reflexivity|reflexivity|apply conserv_enqueue; exact H])].

Lemma worker_step_conserv : forall c o w g pc, conserv g -> conserv (fst (worker_step c o w g pc)).
Proof.
  intros c o w g pc H. destruct pc; cbn [worker_step]; cbv zeta; brk; leafc H.
Qed.

Lemma notify_conserv : forall g w, conserv g -> conserv (notify g w).
Proof. intros g w H. unfold notify. destruct g_resume_notifies; [same|exact H]. Qed.

Lemma client_step_conserv : forall c o t g cl, conserv g -> conserv (fst (client_step c o t g cl)).
Proof.
  intros c o t g cl H. unfold client_step. destruct (todo cl) as [|p rest]; [exact H|].
  destruct p; cbv zeta; brk; cbn [fst]; try (apply notify_conserv); try leafc H.
  all: match goal with E : match ?h with Some _ => _ | None => _ end = (_, ?g0) |- conserv ?g0 =>
         destruct h; inversion E; subst; leafc H end.
Qed.

Lemma tstep_conserv : forall c o t g l, conserv g -> conserv (fst (sr_tstep c o t g l)).
Proof.
  intros c o t g l H. destruct l as [pc|cl|]; cbn [sr_tstep].
  - destruct (Nat.ltb t (nw c)); [|exact H].
    pose proof (worker_step_conserv c o t g pc H) as W. destruct (worker_step c o t g pc). exact W.
  - destruct (Nat.ltb t (nw c)); [exact H|].
    pose proof (client_step_conserv c o t g cl H) as W. destruct (client_step c o t g cl). exact W.
  - exact H.
Qed.

Lemma conserv_init : conserv sr_g0.
Proof. unfold conserv; cbn. repeat split; [constructor|constructor|intros tk []]. Qed.

Lemma sr_conserv : forall c progs sched, conserv (fst (sr_run c progs sched)).
Proof.
  intros c progs sched. unfold sr_run.
  apply (run_ginv gst lstate oracle (sr_tstep c) conserv).
  - intros o t g l. apply tstep_conserv.
  - exact conserv_init.
Qed.

Lemma nodup_app_r : forall (A : Type) (l1 l2 : list A), NoDup (l1 ++ l2) -> NoDup l2.
Proof. induction l1 as [|a l1 IH]; intros l2 H; [exact H|]. inversion H; subst. apply IH. assumption. Qed.

Lemma no_dup_across_suspend : forall c progs sched,
  NoDup (map fst (executed (fst (sr_run c progs sched)))).
Proof.
  intros c progs sched. destruct (sr_conserv c progs sched) as (P & N & _).
  apply Permutation_sym in P. apply (Permutation_NoDup P) in N.
  apply nodup_app_r in N. apply nodup_app_r in N. exact N.
Qed.

Lemma no_task_lost : forall c progs sched tk,
  let g := fst (sr_run c progs sched) in
  (In tk (submitted g) -> In tk (map fst (executed g)) \/ In tk (map snd (heldl g)) \/ In tk (map snd (qs g))) /\
  (In tk (map fst (executed g)) -> In tk (submitted g)).
Proof.
  intros c progs sched tk g. destruct (sr_conserv c progs sched) as (P & _ & _). fold g in P. split; intros H.
  - apply Permutation_sym in P. apply (Permutation_in _ P) in H. rewrite !in_app_iff in H. tauto.
  - apply (Permutation_in _ P). rewrite !in_app_iff. tauto.
Qed.

Lemma all_done_when_drained : forall c progs sched,
  let g := fst (sr_run c progs sched) in
  qs g = [] -> heldl g = [] -> Permutation (map fst (executed g)) (submitted g) /\ NoDup (map fst (executed g)).
Proof.
  intros c progs sched g Hq Hh. split; [|apply no_dup_across_suspend].
  destruct (sr_conserv c progs sched) as (P & _ & _). fold g in P. rewrite Hq, Hh in P. exact P.
Qed.

(* ------------------------------------------------------------------ part 3: refusals *)
Definition callkind_of (a : api) : option callkind :=
  match a with
  | ASuspendPU _ _ => Some KSuspendPU | AResumePU _ => Some KResumePU
  | ASuspendPool _ => Some KSuspendPool | AResumePool => Some KResumePool | ASubmit _ => None
  end.

Definition same_core (g g' : gst) : Prop :=
  st g' = st g /\ pul g' = pul g /\ qs g' = qs g /\ heldl g' = heldl g /\ waiting g' = waiting g /\
  live g' = live g /\ executed g' = executed g /\ submitted g' = submitted g.

Lemma refused_expand : forall c a k, refused c a = true -> callkind_of a = Some k -> expand c a = [PRefuse; PRet k].
Proof.
  intros [n e s] a k Hr Hk. destruct a as [w self|w|self| |h]; cbn in Hr, Hk; try discriminate; inversion Hk; subst; clear Hk.
  - unfold expand, spu_direct. cbn [elastic stealing]. cbv zeta.
    change (nth 0 g_spu_refusal_returns false) with true. change (nth 1 g_spu_refusal_returns false) with true.
    destruct e; cbn in Hr |- *; [|reflexivity]. rewrite Hr. reflexivity.
  - subst. unfold expand, pool_suspend. change g_pool_refusal_returns with true. reflexivity.
Qed.

(* a refused call consists of two steps of the caller; whatever the other threads do in between (g1, g2
   arbitrary), the first changes nothing and the second only records (error = true) *)
Lemma unsupported_refused : forall c a k rest, refused c a = true -> callkind_of a = Some k ->
  forall t o1 o2 g1 g2 e,
    let cl0 := {| todo := expand c a ++ rest; ph := Ph0; err := e |} in
    let s1 := client_step c o1 t g1 cl0 in
    let s2 := client_step c o2 t g2 (snd s1) in
    fst s1 = g1 /\ same_core g2 (fst s2) /\ calls (fst s2) = (t, k, true) :: calls g2 /\
    snd s2 = {| todo := rest; ph := Ph0; err := false |}.
Proof.
  intros c a k rest Hr Hk t o1 o2 g1 g2 e. rewrite (refused_expand c a k Hr Hk). cbn.
  unfold same_core. cbn. repeat split; reflexivity.
Qed.

(* an accepted call never sets the error flag: only PRefuse does *)
Lemma spu_internal_no_refuse : forall w, ~ In PRefuse (spu_internal w).
Proof. intros w [H|[H|[]]]; discriminate. Qed.

Lemma accepted_no_refuse : forall c a, refused c a = false -> ~ In PRefuse (expand c a).
Proof.
  intros [n e s] a Hr. destruct a as [w self|w|self| |h]; cbn in Hr.
  - apply orb_false_iff in Hr. destruct Hr as [He Hs]. apply negb_false_iff in He. subst.
    unfold expand, spu_direct. cbn [elastic stealing negb]. cbv zeta. rewrite Hs.
    intros H. apply in_app_iff in H. destruct H as [H|[H|[]]]; [|discriminate]. exact (spu_internal_no_refuse w H).
  - intros [H|[H|[H|[]]]]; discriminate.
  - subst. unfold expand, pool_suspend. cbv zeta. intros H. apply in_app_iff in H. destruct H as [H|[H|[]]]; [|discriminate].
    destruct H as [H|H]; [discriminate|]. apply in_app_iff in H. destruct H as [H|H].
    + apply in_map_iff in H. destruct H as (x & Hx & _). discriminate.
    + apply in_flat_map in H. destruct H as (x & _ & Hx). exact (spu_internal_no_refuse x Hx).
  - unfold expand, pool_resume. intros H. apply in_app_iff in H. destruct H as [H|[H|[]]]; [|discriminate].
    apply in_app_iff in H. destruct H as [H|H].
    + apply in_map_iff in H. destruct H as (x & Hx & _). discriminate.
    + apply in_flat_map in H. destruct H as (x & _ & [Hx|[Hx|[]]]); discriminate.
  - intros [H|[]]; discriminate.
Qed.

(* ------------------------------------------------------------------ part 2: the sleep decision *)
Definition SC (w : nat) (g : gst) : Prop := incl (qof w (qs g)) (fresh g w).

Lemma qof_app : forall w l i tk, qof w (l ++ [(i, tk)]) = if Nat.eqb i w then qof w l ++ [tk] else qof w l.
Proof.
  intros w l i tk. unfold qof. rewrite filter_app, map_app. cbn. destruct (Nat.eqb i w); cbn; [reflexivity|apply app_nil_r].
Qed.

Lemma extract_qof_incl : forall v w l tk r, extract v l = Some (tk, r) -> incl (qof w r) (qof w l).
Proof.
  induction l as [|e l IH]; intros tk r H; cbn in H; [discriminate|].
  destruct (Nat.eqb (fst e) v) eqn:E.
  - inversion H; subst. unfold qof; cbn. destruct (Nat.eqb (fst e) w); cbn; [apply incl_tl|]; apply incl_refl.
  - destruct (extract v l) as [[tk' r']|] eqn:E2; [|discriminate]. inversion H; subst.
    specialize (IH _ _ eq_refl). unfold qof in *; cbn. destruct (Nat.eqb (fst e) w); cbn; [|exact IH].
    intros x [<-|Hx]; [left; reflexivity|right; apply IH, Hx].
Qed.

Lemma sc_same : forall w g g', qs g' = qs g -> fresh g' = fresh g -> SC w g -> SC w g'.
Proof. intros w g g' H1 H2 H. unfold SC. rewrite H1, H2. exact H. Qed.

Lemma sc_take : forall w g x v g', take g x v = Some g' -> SC w g -> SC w g'.
Proof.
  intros w g x v g' H S. unfold take in H. destruct (extract v (qs g)) as [[tk r]|] eqn:E; [|discriminate].
  inversion H; subst; clear H. unfold SC; cbn. eapply incl_tran; [eapply extract_qof_incl; exact E|exact S].
Qed.

Lemma sc_exec : forall w g x, SC w g -> SC w (exec g x).
Proof. intros w g x S. unfold exec. destruct (extract x (heldl g)) as [[tk r]|]; [|exact S]. exact S. Qed.

Lemma sc_enqueue : forall w g t i, SC w g -> SC w (enqueue g t i).
Proof.
  intros w g t i S. unfold SC, enqueue; cbn [qs fresh]. rewrite qof_app. unfold upd.
  destruct (Nat.eqb i w) eqn:E.
  - apply Nat.eqb_eq in E. subst. rewrite Nat.eqb_refl. apply incl_app; [apply incl_appl, S|apply incl_appr, incl_refl].
  - rewrite Nat.eqb_sym, E. exact S.
Qed.

Lemma sc_reset_other : forall w g t, w <> t -> SC w g -> SC w (set_fresh g (upd (fresh g) t [])).
Proof. intros w g t N S. unfold SC; cbn. rewrite upd_other by exact N. exact S. Qed.

Ltac sames := (eapply sc_same; [reflexivity|reflexivity|eassumption]).
Ltac leafs H := cbn [fst]; first [exact H | sames | (eapply sc_take; eassumption) | (apply sc_exec; exact H)
  | (apply sc_enqueue; exact H) | (apply sc_reset_other; assumption)
  | (eapply sc_same; [reflexivity|reflexivity|apply sc_enqueue; exact H])].

Lemma worker_step_sc_other : forall c o t g pc w, w <> t -> SC w g -> SC w (fst (worker_step c o t g pc)).
Proof.
  intros c o t g pc w N H. destruct pc; cbn [worker_step]; cbv zeta; brk; leafs H.
Qed.

Lemma notify_sc : forall g x w, SC w g -> SC w (notify g x).
Proof. intros g x w H. unfold notify. destruct g_resume_notifies; [sames|exact H]. Qed.

Lemma client_step_sc : forall c o t g cl w, SC w g -> SC w (fst (client_step c o t g cl)).
Proof.
  intros c o t g cl w H. unfold client_step. destruct (todo cl) as [|p rest]; [exact H|].
  destruct p; cbv zeta; brk; cbn [fst]; try (apply notify_sc); try leafs H.
  all: match goal with E : match ?h with Some _ => _ | None => _ end = (_, ?g0) |- SC _ ?g0 =>
         destruct h; inversion E; subst; leafs H end.
Qed.

Lemma worker_step_sc_self : forall c o t g pc,
  (sleepy pc = true -> SC t g) -> sleepy (snd (worker_step c o t g pc)) = true -> SC t (fst (worker_step c o t g pc)).
Proof.
  intros c o t g pc H. destruct pc; cbn [worker_step sleepy] in *; cbv zeta; brk; cbn [fst snd sleepy]; intros S; try discriminate;
    try (specialize (H eq_refl)); try leafs H.
  unfold SC; cbn [qs fresh set_fresh]. match goal with E : qof t (qs g) = [] |- _ => rewrite E end. apply incl_nil_l.
Qed.

Definition SCinv (g : gst) (ls : locals lstate) : Prop :=
  forall w pc, ls w = LWorker pc -> sleepy pc = true -> SC w g.

Lemma tstep_scinv : forall c o t g (ls : locals lstate), SCinv g ls ->
  SCinv (fst (sr_tstep c o t g (ls t))) (upd ls t (snd (sr_tstep c o t g (ls t)))).
Proof.
  intros c o t g ls I w pc Hw Hs. unfold upd in Hw. destruct (Nat.eqb w t) eqn:E.
  - apply Nat.eqb_eq in E. subst w. destruct (ls t) as [pc0|cl|] eqn:L; cbn [sr_tstep] in *.
    + destruct (Nat.ltb t (nw c)).
      * pose proof (worker_step_sc_self c o t g pc0 (I t pc0 L)) as W.
        destruct (worker_step c o t g pc0) as [g' pc']. cbn [fst snd] in *. inversion Hw; subst. apply W, Hs.
      * cbn [fst snd] in *. inversion Hw; subst. eapply I; eassumption.
    + destruct (Nat.ltb t (nw c)); [discriminate|]. destruct (client_step c o t g cl). discriminate.
    + discriminate.
  - apply Nat.eqb_neq in E. specialize (I w pc Hw Hs). destruct (ls t) as [pc0|cl|]; cbn [sr_tstep].
    + destruct (Nat.ltb t (nw c)); [|exact I].
      pose proof (worker_step_sc_other c o t g pc0 w E I) as W. destruct (worker_step c o t g pc0). exact W.
    + destruct (Nat.ltb t (nw c)); [exact I|].
      pose proof (client_step_sc c o t g cl w I) as W. destruct (client_step c o t g cl). exact W.
    + exact I.
Qed.

(* a worker that has decided to sleep (or sleeps) has in its queue only tasks that were enqueued after it
   last saw the queue empty with running = false *)
Lemma sr_sleep_check : forall c progs sched w pc,
  let cf := sr_run c progs sched in
  snd cf w = LWorker pc -> sleepy pc = true -> incl (qof w (qs (fst cf))) (fresh (fst cf) w).
Proof.
  intros c progs sched w pc cf. unfold cf, sr_run.
  pose proof (run_inv gst lstate oracle (sr_tstep c) SCinv (tstep_scinv c) sched (sr_g0, sr_locals c progs)) as R.
  cbn [fst snd] in R. intros Hw Hs. apply (R (fun w pc _ _ => incl_nil_l _) w pc Hw Hs).
Qed.
