(* Proofs/CondVarInvC.v — C07: the notified-flag component of the invariant and its assembly *)
From Coq Require Import List NArith Bool Arith Lia.
From Pika Require Import Base.Conc Base.Agent Model.CondVar Proofs.CondVarInvA Proofs.CondVarInvB.
Import ListNotations.

Lemma cv_step_s isos o t g (ls : locals cv_local) : cv_inv isos g ls -> forall t',
  in_wait (cpc (upd ls t (snd (cv_tstep isos o t g (ls t))) t')) = true ->
  (sig (fst (cv_tstep isos o t g (ls t))) t' = true <-> ~ In t' (cqueue (fst (cv_tstep isos o t g (ls t))))).
Proof.
  intros I t'. pose proof (c_s _ _ _ I t') as Hs. pose proof (c_nodup _ _ _ I) as Hn.
  pose proof (pend_nil isos g ls t I) as Hpn.
  cv_cases isos t g ls E; intros Hw; upd_cases t' t; rewrite ?E in *; lsimp;
    try discriminate; try (apply Hs; assumption); try tauto.
  all: try (rewrite in_app_iff; cbn [In]; split; [discriminate|tauto]).
  all: try (rewrite in_app_iff; cbn [In]; rewrite (Hs Hw); intuition congruence).
  all: try (rewrite in_cremove; rewrite (Hs Hw); tauto).
  - destruct (cmem t' (qw :: qr)) eqn:Em; [split; [intros _ []|reflexivity]|].
    apply cmem_false in Em. rewrite (Hs Hw). cbn [In] in *. tauto.
  - destruct (cmem t' [qw]) eqn:Em.
    + apply cmem_true in Em. destruct Em as [Em|[]]. subst. split; [intros _|reflexivity].
      cbn [app] in Hn. inversion Hn as [|? ? Hx _]. subst. intros Hi. apply Hx. rewrite in_app_iff. tauto.
    + apply cmem_false in Em. rewrite (Hs Hw). cbn [In] in *. tauto.
Qed.

Lemma cv_inv_step isos : forall o t g (ls : locals cv_local), cv_inv isos g ls ->
  cv_inv isos (fst (cv_tstep isos o t g (ls t))) (upd ls t (snd (cv_tstep isos o t g (ls t)))).
Proof.
  intros o t g ls I. constructor.
  - now apply cv_step_i.
  - now apply cv_step_u.
  - now apply cv_step_nodup.
  - now apply cv_step_q.
  - now apply cv_step_p.
  - now apply cv_step_b.
  - exact (cv_step_t isos o t g ls I).
  - now apply cv_step_s.
  - exact (cv_step_lu isos o t g ls I).
  - exact (cv_step_pf isos o t g ls I).
Qed.

Lemma cv_reach_inv isos progs sched :
  cv_inv isos (fst (cv_run isos sched progs)) (snd (cv_run isos sched progs)).
Proof.
  unfold cv_run. apply (run_inv _ _ _ (cv_tstep isos) (cv_inv isos) (cv_inv_step isos)). apply cv_inv_init.
Qed.
