(* Proofs/StopCallbacksProofs.v — the stop_callback part of C14 over Model/StopState.v:
   every concrete step of st_tstep is an abstract step of Proofs/StopCallbacksAbs.v, the combined
   invariant Inv2 holds in every reachable configuration, and the theorems about callbacks. *)
From Coq Require Import List NArith Bool Arith Lia.
From Pika Require Import Base.Conc Gen.GenStopBits Model.StopWord Model.StopState
  Proofs.StopFlagsProofs Proofs.StopStateProofs Proofs.StopCallbacksAbs.
Import ListNotations.

Ltac brk2 := cbv zeta; repeat (match goal with
  | |- OK2 _ _ _ _ (if ?b then _ else _) => destruct b eqn:?
  | |- OK2 _ _ _ _ (match ?x with _ => _ end) => destruct x eqn:?
  | |- OK2 _ _ _ _ (q_loop_head _ _) => unfold q_loop_head; cbn [cbs set_winner set_sig set_holder set_word]
  | |- OK2 _ _ _ _ (a_after_read _ _ _ _ _ _) => unfold a_after_read
  | |- OK2 _ _ _ _ (dispatch _ _ _ _ _) => unfold dispatch
  | |- context [if remflag ?g ?t then _ else _] => destruct (remflag g t)
  end; cbv zeta).

Ltac csame := unfold core_same, chg;
  cbn [cbs cb winner winner_ret sig_pika sig_os bad_run_after_dtor bad_dtor_during_run
       set_word set_holder set_cbs set_cb set_sig set_remflag set_winner set_bad add_log];
  repeat split; reflexivity.

Ltac chgt := unfold chgcb, chg, dtor_returns, ctor_returns, dviol;
  cbn [cbs cb winner winner_ret sig_pika sig_os bad_run_after_dtor bad_dtor_during_run
       set_word set_holder set_cbs set_cb set_sig set_remflag set_winner set_bad add_log];
  rewrite ?orb_false_r; try match goal with H : cbs _ = [] |- _ => rewrite H end;
  repeat split; reflexivity.

Ltac open_ok lab := unfold OK2; cbn [fst snd]; exists lab; split; [|split].

Ltac ci HC c :=
  let H := fresh "HCc" in
  pose proof (HC c) as H; unfold CI in H; cbv zeta in H;
  destruct H as (C1 & C2 & C3 & C4 & C5 & C6 & C7 & C8 & C10 & C11).

Ltac li2open := unfold LI2, kadds, dtor_returns, ctor_returns;
  cbn [pc frames set_pc set_frames set_held PCA pc_kadd app]; li2split.

Ltac atom := unat; cbn [cb cbs winner set_word set_holder set_cbs set_cb set_sig set_remflag
                        set_winner set_bad add_log]; rewrite ?upd_same; cbf.

Lemma RP_own_mono g g' t p p' :
  (forall c, cb_deq (cb g' c) = true -> cb_runs (cb g' c) = 0 ->
             cb_deq (cb g c) = true /\ cb_runs (cb g c) = 0) ->
  winner g' = winner g -> npend p = true -> RP g t p -> RP g' t p'.
Proof.
  intros Hm Hw Hn H c A B C. destruct (Hm c A B) as [A' B']. rewrite Hw in C.
  destruct (H c A' B' C) as [E|E]; subst p; discriminate.
Qed.

Ltac rp_mono HR := eapply RP_own_mono; [ | | | exact HR];
  [ cbn [cb set_word set_holder set_cbs set_cb set_sig set_remflag set_winner set_bad add_log];
    intros cx; unfold upd;
    try match goal with |- context [Nat.eqb cx ?c] => destruct (Nat.eqb_spec cx c) as [->|] end; cbf; try tauto;
    try (intros; split; [assumption|lia]); try (intros; exfalso; lia)
  | reflexivity | reflexivity ].

Lemma cas_facts g old sp : w_is_locked (word g) = isS (holder g) ->
  ((word g =? w_clear_lock old)%N && negb sp = true) ->
  holder g = None /\ w_stop_requested (word g) = w_stop_requested old.
Proof.
  intros Hlk H. apply cas_ok in H. destruct H as (_ & A & B & _). split; [|exact B].
  apply isS_false. congruence.
Qed.

Lemma no_winner g : w_stop_requested (word g) = isS (winner g) ->
  (winner_ret g = true -> isS (winner g) = true) ->
  w_stop_requested (word g) = false -> winner g = None /\ winner_ret g = false.
Proof.
  intros A B C. assert (winner g = None) by (apply isS_false; congruence). split; [assumption|].
  destruct (winner_ret g); [|reflexivity]. rewrite H in B. discriminate (B eq_refl).
Qed.

Lemma A1_A4 P g c t : GI2 P g -> A1 g c t -> A4 g c t.
Proof.
  intros (_ & _ & _ & _ & _ & _ & _ & HC) (K1 & K2 & K3 & K4 & K5). ci HC c.
  unfold A4. repeat split; try assumption.
  destruct (cb_running (cb g c)) eqn:E; [|reflexivity]. destruct (C8 n eq_refl). lia.
Qed.

Ltac to_arelease HG2 HA HF HN HR :=
  eapply ok2_same; [csame|]; li2open;
  [ eapply A1_A4; [exact HG2|exact HA] | exact HF
  | constructor; [eapply notin_kadds; [exact HF|apply HA]|exact HN]
  | eapply RP_move; [|exact HR]; reflexivity ].

Ltac to_a1 HA HF HN HR :=
  eapply ok2_same; [csame|]; li2open;
  [ first [exact HA | split; [exact HA|assumption]] | exact HF | exact HN
  | eapply RP_move; [|exact HR]; reflexivity ].

Lemma D2_D5 P g c t : GI2 P g -> D2 g c -> D5 g c t.
Proof.
  intros (_ & _ & _ & _ & _ & _ & _ & HC) ((K1 & K2 & K3) & K4 & K5). ci HC c.
  unfold D5. repeat split; try assumption; [congruence|]. left.
  destruct (cb_running (cb g c)) eqn:E; [|reflexivity].
  destruct (C8 n eq_refl) as [_ [[X _]|[X _]]]; congruence.
Qed.
Lemma D3_D5_self P g c t p : GI2 P g -> D3 g c -> winner g = Some t -> RP g t p ->
  npend p = true -> D5 g c t.
Proof.
  intros (_ & _ & _ & _ & _ & _ & _ & HC) ((K1 & K2 & K3) & K4) Hw HR Hn. ci HC c.
  unfold D5. repeat split; try assumption.
  - intros A. pose proof (RP_none g t p Hn HR c A Hw). lia.
  - destruct (cb_running (cb g c)) eqn:E; [|now left]. right.
    destruct (C8 n eq_refl) as [_ [[X _]|[_ X]]]; congruence.
Qed.
Lemma D3_D5_fin P g c t : GI2 P g -> D3 g c -> cb_finished (cb g c) = true -> D5 g c t.
Proof.
  intros (_ & _ & _ & _ & _ & _ & _ & HC) ((K1 & K2 & K3) & K4) Hf. ci HC c.
  destruct (C7 Hf). unfold D5. repeat split; try assumption; [congruence|now left].
Qed.

Lemma FR_pop g t k o r fs :
  Forall (FR g t) ((k, o :: r) :: fs) -> Forall (FR g t) ((k, r) :: fs).
Proof. intros H. inversion H; subst. constructor; assumption. Qed.

Lemma tstep_ok2 P o t g l0 : ids_faithful P -> GI g -> LI g t l0 -> GI2 P g -> LI2 g t l0 ->
  OK2 P t g (norm l0) (st_tstep P o t g l0).
Proof.
  intros Hid HG HL0 HG2 HL2. apply LI_norm in HL0. apply LI2_norm in HL2.
  unfold st_tstep. cbv zeta. pose proof (norm_normal l0) as Hn.
  generalize dependent (norm l0). intros l HL HL2 Hn.
  destruct HL2 as (HA & HF & HN & HR).
  unfold LI, LI3 in HL. destruct HL as (Hh & Hq & Hs1 & Hsw & Hws).
  destruct HG as (HW & Hlk & Hrq & Hcnt & Hret & Hsome).
  destruct (pc l) eqn:Epc; cbn [PCA holds sigpc sc] in *; brk2.
  all: unfold kadds in HN; rewrite ?Epc in HN; cbn [pc_kadd app] in HN.
  all: try match goal with H : frames _ = _ |- _ => rewrite H in HN end.
  all: try solve [eapply ok2_same; [csame|]; unfold LI2, kadds;
     cbn [pc frames set_pc set_frames set_held PCA pc_kadd app]; rewrite ?Epc;
     try match goal with H : frames _ = _ |- _ => rewrite H end; li2split;
     [ first [exact I | assumption | cbn [PCA]; assumption]
     | first [assumption | eapply FR_pop; eassumption]
     | assumption
     | eapply RP_move; [|exact HR]; reflexivity ] ].
  all: pose proof HG2 as (HND & HQ & HSG & HR4 & HR5 & HB1 & HB2 & HC).
  - (* OpAdd: constructor starts *)
    apply Nat.eqb_eq in Heqb. ci HC c0. destruct (C11 Heqb) as (K1 & K2 & K3).
    open_ok (@None nat).
    + eapply G_ctor_start with (c := c0); [assumption|chgt].
    + discriminate.
    + intros HF'. rewrite Heql1 in HF'. li2open.
      * atom. tauto.
      * eapply FR_pop; exact HF'.
      * exact HN.
      * rp_mono HR.
  - (* OpRem, registered: destructor starts *)
    apply andb_true_iff in Heqb. destruct Heqb as [E1 E2]. apply Nat.eqb_eq in E1, E2.
    open_ok (@None nat).
    + eapply G_dtor_start with (c := c0); [assumption|assumption|assumption|chgt].
    + discriminate.
    + intros HF'. rewrite Heql1 in HF'. li2open.
      * atom. repeat split; [assumption|assumption|lia].
      * eapply FR_pop; exact HF'.
      * exact HN.
      * rp_mono HR.
  - (* OpRem, constructor had reset state_: destructor returns at once *)
    apply andb_true_iff in Heqb. destruct Heqb as [E1 E2]. apply Nat.eqb_eq in E1, E2.
    ci HC c0. destruct (C6 E1 Heqb0) as (K1 & K2 & K3).
    open_ok (@None nat).
    + eapply G_dtor_ret with (c := c0); [|chgt]. unat. repeat split; try assumption; [congruence|now left].
    + discriminate.
    + intros HF'. rewrite Heql1 in HF'. li2open.
      * exact I.
      * eapply FR_pop; exact HF'.
      * exact HN.
      * rp_mono HR.
  - (* QCas wins, no callbacks *)
    destruct (cas_facts _ _ _ Hlk Heqb) as [Hho Hrq']. rewrite (Hq old eq_refl) in Hrq'.
    destruct (no_winner g Hrq Hret Hrq') as [Hwn Hwr].
    open_ok (@None nat).
    + eapply G_win_e; try assumption. chgt.
    + discriminate.
    + intros HF'. li2open.
      * cbn [PCA cbs set_winner set_sig set_holder set_word]. assumption.
      * exact HF'.
      * exact HN.
      * intros cx A B _. cbn [cb set_winner set_sig set_holder set_word] in A. ci HC cx.
        destruct (C4 A). contradiction.
  - (* QCas wins and dequeues the head *)
    destruct (cas_facts _ _ _ Hlk Heqb) as [Hho Hrq']. rewrite (Hq old eq_refl) in Hrq'.
    destruct (no_winner g Hrq Hret Hrq') as [Hwn Hwr].
    assert (Hqn : cb_queued (cb g n) = true) by (apply HQ; rewrite Heql1; now left).
    open_ok (@None nat).
    + eapply G_win_d with (c := n) (rest := l1); try assumption. chgt.
    + discriminate.
    + intros HF'. li2open.
      * atom. ci HC n. destruct (C3 Hqn) as (Q1 & Q2 & Q3 & Q4). tauto.
      * exact HF'.
      * exact HN.
      * intros cx A B _. cbn [cb set_cb set_cbs set_winner set_sig set_holder set_word] in A.
        unfold upd in A. destruct (Nat.eqb_spec cx n) as [E|E]; [rewrite E; now left|].
        ci HC cx. destruct (C4 A). contradiction.
  - (* QUnlock *)
    eapply ok2_same; [csame|]. li2open; try assumption.
    intros cx A B C. destruct (HR cx A B C) as [E|E]; inversion E; subst; now right.
  - (* QBegin: execute() entered from request_stop *)
    open_ok (@None nat).
    + eapply G_qbegin with (c := c); [exact HA|chgt].
    + discriminate.
    + intros HF'. destruct HA as (K1 & K2 & K3). li2open.
      * exact I.
      * constructor; [|exact HF']. unfold FR. cbn [fst]. atom. split; [assumption|lia].
      * exact HN.
      * intros cx A B C. exfalso.
        cbn [cb winner set_cb set_remflag set_bad add_log] in A, B, C. unfold upd in A, B.
        destruct (Nat.eqb_spec cx c) as [E|E]; [cbf; lia|].
        destruct (HR cx A B C) as [E'|E']; inversion E'; congruence.
  - (* QEnd, object destroyed from inside *)
    open_ok (@None nat).
    + eapply G_qend1 with (c := c); [exact HA|chgt].
    + discriminate.
    + intros HF'. li2open; try assumption; [exact I|rp_mono HR].
  - (* QEnd, hand-shake *)
    open_ok (@None nat).
    + eapply G_qend2 with (c := c); [exact HA|chgt].
    + discriminate.
    + intros HF'. li2open; try assumption; [exact I|rp_mono HR].
  - (* QRCas re-locks and dequeues the next callback *)
    destruct (cas_facts _ _ _ Hlk Heqb) as [Hho Hrq'].
    assert (Hsc : sc (QRCas old) (nk l) = 1) by (unfold sc in *; cbn [sigpc] in *; lia).
    destruct (Hsw Hsc) as [Hwt Hrf].
    assert (Hqn : cb_queued (cb g n) = true) by (apply HQ; rewrite Heql1; now left).
    open_ok (@None nat).
    + eapply G_deq with (c := n) (rest := l1); try assumption. chgt.
    + discriminate.
    + intros HF'. li2open.
      * atom. ci HC n. destruct (C3 Hqn) as (Q1 & Q2 & Q3 & Q4). tauto.
      * exact HF'.
      * exact HN.
      * intros cx A B C. cbn [cb winner set_cb set_cbs set_winner set_sig set_holder set_word] in A, B, C.
        unfold upd in A, B. destruct (Nat.eqb_spec cx n) as [E|E]; [rewrite E; now left|].
        exfalso. destruct (HR cx A B C) as [E'|E']; discriminate.
  - (* QFinal: request_stop returns true *)
    assert (Hsc : sc QFinal (nk l) = 1) by (unfold sc in *; cbn [sigpc] in *; lia).
    destruct (Hsw Hsc) as [Hwt Hrf].
    open_ok (@None nat).
    + eapply G_final; try assumption; [|chgt].
      intros cx A. ci HC cx. assert (cb_runs (cb g cx) <> 0); [|lia].
      intros B. destruct (HR cx A B Hwt); discriminate.
    + discriminate.
    + intros HF'. li2open; try assumption; [exact I|].
      eapply RP_own_mono; [| | |exact HR]; [|reflexivity|reflexivity].
      cbn [cb set_winner set_holder set_word add_log]. tauto.
  - to_arelease HG2 HA HF HN HR.
  - to_a1 HA HF HN HR.
  - (* ACas succeeds: callback pushed *)
    destruct HA as [HA Hold]. destruct (cas_facts _ _ _ Hlk Heqb) as [Hho Hrq']. rewrite Hold in Hrq'.
    destruct (no_winner g Hrq Hret Hrq') as [Hwn Hwr].
    open_ok (@None nat).
    + eapply G_push with (c := c); try assumption. chgt.
    + discriminate.
    + intros HF'. destruct HA as (K1 & K2 & K3 & K4 & K5). li2open; try assumption.
      * atom. tauto.
      * rp_mono HR.
  - destruct HA as [HA Hold]. to_a1 HA HF HN HR.
  - destruct HA as [HA Hold]. to_arelease HG2 HA HF HN HR.
  - destruct HA as [HA Hold]. to_a1 HA HF HN HR.
  - destruct HA as [HA Hold]. to_a1 HA HF HN HR.
  - to_arelease HG2 HA HF HN HR.
  - to_a1 HA HF HN HR.
  - (* AUnlock: constructor returns, registered *)
    open_ok (@None nat).
    + eapply G_ctor_ret_reg with (c := c); [now apply Hh|exact HA|chgt].
    + discriminate.
    + intros HF'. li2open; try assumption; [exact I|rp_mono HR].
  - (* ABegin: execute() entered from the constructor *)
    open_ok (@None nat).
    + eapply G_abegin with (c := c); [exact HA|chgt].
    + discriminate.
    + intros HF'. pose proof HA as (K1 & K2 & K3 & K4 & K5). li2open.
      * exact I.
      * constructor; [|exact HF']. unfold FR. cbn [fst]. atom. repeat split; try assumption. lia.
      * cbn. constructor; [eapply notin_kadds; [exact HF|assumption]|exact HN].
      * rp_mono HR.
  - (* AEnd *)
    open_ok (@None nat).
    + eapply G_aend with (c := c); [exact HA|chgt].
    + discriminate.
    + intros HF'. destruct HA as (K1 & K2 & K3 & K4 & K5). li2open; try assumption.
      * atom. tauto.
      * rp_mono HR.
  - (* ARelease: constructor returns, not registered *)
    open_ok (Some c).
    + eapply G_ctor_ret_noreg with (c := c); [exact HA|chgt].
    + intros c' E. inversion E. subst. exact Epc.
    + intros HF'. li2open; try assumption; [exact I|now inversion HN|rp_mono HR].
  - (* RCas: still queued, unlink *)
    cbn [cb set_holder set_word] in Heqb0. destruct (cas_facts _ _ _ Hlk Heqb) as [Hho Hrq'].
    open_ok (@None nat).
    + eapply G_unqueue with (c := c); try assumption. chgt.
    + discriminate.
    + intros HF'. li2open; try assumption.
      * cbn [PCA]. destruct HA as (K1 & K2 & K3). ci HC c. destruct (C3 Heqb0) as (Q1 & Q2 & Q3 & Q4).
        atom. tauto.
      * rp_mono HR.
  - (* RCas: not queued any more *)
    cbn [cb set_holder set_word] in Heqb0.
    eapply ok2_same; [csame|]. li2open; try assumption.
    + cbn [PCA]. split; assumption.
    + eapply RP_move; [|exact HR]; reflexivity.
  - (* RUnlock *)
    eapply ok2_same; [csame|]. destruct removed; li2open; try assumption.
    + eapply D2_D5; eassumption.
    + eapply RP_move; [|exact HR]; reflexivity.
    + eapply RP_move; [|exact HR]; reflexivity.
  - (* RCheck: own thread, inside the callback *)
    pose proof (same_thread_winner P g t Hid HSG Heqb) as Hwt.
    eapply ok2_same; [csame|]. li2open; try assumption.
    + eapply D3_D5_self; try eassumption. reflexivity.
    + eapply RP_move; [|exact HR]; reflexivity.
  - (* RCheck: own thread, callback already finished *)
    pose proof (same_thread_winner P g t Hid HSG Heqb) as Hwt.
    eapply ok2_same; [csame|]. li2open; try assumption.
    + eapply D3_D5_self; try eassumption. reflexivity.
    + eapply RP_move; [|exact HR]; reflexivity.
  - (* RCheck: other thread -> wait *)
    eapply ok2_same; [csame|]. li2open; try assumption.
    + cbn [PCA]. split; [assumption|]. intros Hwt.
      rewrite (same_thread_self P g t HSG Hwt) in Heqb. discriminate.
    + eapply RP_move; [|exact HR]; reflexivity.
  - (* RWait: finished *)
    destruct HA as [HA Hnw].
    eapply ok2_same; [csame|]. li2open; try assumption.
    + eapply D3_D5_fin; eassumption.
    + eapply RP_move; [|exact HR]; reflexivity.
  - (* RRelease: destructor returns *)
    open_ok (@None nat).
    + eapply G_dtor_ret with (c := c); [exact HA|chgt].
    + discriminate.
    + intros HF'. li2open; try assumption; [exact I|rp_mono HR].
Qed.

(* ---------------- the combined invariant over arbitrary schedules ---------------- *)
Theorem step_inv2 P o t g ls : ids_faithful P -> Inv2 P g ls ->
  Inv2 P (fst (st_tstep P o t g (ls t))) (upd ls t (snd (st_tstep P o t g (ls t)))).
Proof.
  intros Hid (HI & HG2 & HL2). pose proof HI as [HG HL].
  pose proof (step_inv P o t g ls HI) as HI'.
  destruct (tstep_ok2 P o t g (ls t) Hid HG (HL t) HG2 (HL2 t)) as (lab & HS & Hlab & Hli).
  split; [exact HI'|]. split; [eapply gstep_GI2; eassumption|].
  intros t'. unfold upd. destruct (Nat.eqb t' t) eqn:E.
  - apply Nat.eqb_eq in E. subst t'. apply Hli.
    pose proof (LI2_norm g t (ls t) (HL2 t)) as (HA & HF & HN & HR).
    eapply frames_stable; try eassumption.
    intros c Ec. specialize (Hlab c Ec). unfold kadds in HN. rewrite Hlab in HN.
    cbn [pc_kadd app] in HN. now inversion HN.
  - apply Nat.eqb_neq in E. eapply LI2_others; try eassumption; [apply HL|apply HL2].
Qed.

Lemma init_inv2 P w0 progs srcs : good_init w0 -> Inv2 P (st_init w0) (st_locals progs srcs).
Proof.
  intros (A & B & C). split; [now apply init_inv|]. split.
  - unfold GI2, sigs_ok. cbn. gi2split; try discriminate; try reflexivity.
    + constructor.
    + intros c. split; [intros []|discriminate].
    + tauto.
    + intros c. unfold CI. cbn. repeat split; intros; try discriminate; try lia; try tauto.
  - intros t. unfold LI2, kadds, RP. cbn. repeat split; try constructor; try exact I.
    + constructor.
    + discriminate.
Qed.

Theorem run_Inv2 P sched w0 progs srcs : ids_faithful P -> good_init w0 ->
  let c := st_run P sched w0 progs srcs in Inv2 P (fst c) (snd c).
Proof.
  intros Hid Hw. unfold st_run. apply (run_inv _ _ _ (st_tstep P) (Inv2 P)).
  - intros o t g ls H. now apply step_inv2.
  - now apply init_inv2.
Qed.

(* ---------------- the theorems ---------------- *)

(* each callback's execute() is entered at most once *)
Theorem callback_at_most_once P sched w0 progs srcs : ids_faithful P -> good_init w0 ->
  forall k, cb_runs (cb (fst (st_run P sched w0 progs srcs)) k) <= 1.
Proof.
  intros Hid Hw k. destruct (run_Inv2 P sched w0 progs srcs Hid Hw) as (_ & HG2 & _).
  cbv zeta in HG2. destruct HG2 as (_ & _ & _ & _ & _ & _ & _ & HC). apply (HC k).
Qed.

(* once a request_stop has returned true, every callback whose constructor has returned has been
   invoked exactly once, unless it was deregistered while still queued (registered, never
   dequeued by request_stop, destructor started) or add_callback refused it because the state
   was not stop_possible (not registered, never run) *)
Theorem callback_exactly_once P sched w0 progs srcs : ids_faithful P -> good_init w0 ->
  let g := fst (st_run P sched w0 progs srcs) in
  count_req_true (log g) = 1 ->
  forall k, cb_ctor (cb g k) = 2 ->
    cb_runs (cb g k) = 1 \/
    (cb_reg (cb g k) = true /\ cb_deq (cb g k) = false /\ 1 <= cb_dtor (cb g k)) \/
    (cb_reg (cb g k) = false /\ cb_runs (cb g k) = 0).
Proof.
  intros Hid Hw. cbv zeta. intros Hcnt k Hk.
  destruct (run_Inv2 P sched w0 progs srcs Hid Hw) as (HI & HG2 & _).
  cbv zeta in HI, HG2. destruct HI as [HG _]. destruct HG as (_ & _ & _ & Hc & _). rewrite Hc in Hcnt.
  assert (Hr : winner_ret (fst (st_run P sched w0 progs srcs)) = true)
    by (destruct (winner_ret _); [reflexivity|discriminate]).
  destruct HG2 as (_ & HQ & _ & HR4 & HR5 & _ & _ & HC). specialize (HR4 Hr). specialize (HR5 Hr).
  ci HC k. destruct (cb_reg (cb (fst (st_run P sched w0 progs srcs)) k)) eqn:Ereg.
  - destruct (C5 Hk eq_refl) as [X|[X|X]].
    + apply HQ in X. rewrite HR4 in X. destruct X.
    + left. now apply HR5.
    + destruct (cb_deq (cb (fst (st_run P sched w0 progs srcs)) k)) eqn:Ed.
      * left. now apply HR5.
      * right. left. tauto.
  - destruct (cb_runs (cb (fst (st_run P sched w0 progs srcs)) k)) as [|[|n]] eqn:Er.
    + right. right. tauto.
    + now left.
    + lia.
Qed.

(* the same, in the form "all threads have finished" *)
Corollary callback_exactly_once_done P sched w0 progs srcs : ids_faithful P -> good_init w0 ->
  let c := st_run P sched w0 progs srcs in
  (forall t, thread_done (snd c t) = true) -> count_req_true (log (fst c)) = 1 ->
  forall k, cb_ctor (cb (fst c) k) = 2 -> cb_reg (cb (fst c) k) = true ->
    (cb_dtor (cb (fst c) k) = 0 \/ cb_deq (cb (fst c) k) = true) -> cb_runs (cb (fst c) k) = 1.
Proof.
  intros Hid Hw. cbv zeta. intros _ Hcnt k Hk Hreg Hnd.
  destruct (callback_exactly_once P sched w0 progs srcs Hid Hw Hcnt k Hk) as [X|[(_ & X & Y)|(X & _)]].
  - exact X.
  - destruct Hnd; [lia|congruence].
  - congruence.
Qed.

(* execute() is never entered after the destructor of that callback has returned *)
Theorem no_callback_after_dtor P sched w0 progs srcs : ids_faithful P -> good_init w0 ->
  bad_run_after_dtor (fst (st_run P sched w0 progs srcs)) = false.
Proof.
  intros Hid Hw. destruct (run_Inv2 P sched w0 progs srcs Hid Hw) as (_ & HG2 & _).
  cbv zeta in HG2. apply HG2.
Qed.

(* ... stated on the program counters: once the destructor of k has returned no thread is
   about to invoke k, and k is not queued *)
Theorem no_pending_invocation_after_dtor P sched w0 progs srcs : ids_faithful P -> good_init w0 ->
  let c := st_run P sched w0 progs srcs in
  forall k, cb_dtor (cb (fst c) k) = 2 ->
    ~ In k (cbs (fst c)) /\
    forall t, pc (snd c t) <> QUnlock k /\ pc (snd c t) <> QBegin k /\ pc (snd c t) <> ABegin k.
Proof.
  intros Hid Hw. cbv zeta. intros k Hk.
  destruct (run_Inv2 P sched w0 progs srcs Hid Hw) as (_ & HG2 & HL2). cbv zeta in HG2, HL2.
  destruct HG2 as (_ & HQ & _ & _ & _ & _ & _ & HC). ci HC k. destruct (C10 Hk) as [Q1 Q2]. split.
  - rewrite HQ. congruence.
  - intros t. destruct (HL2 t) as (HA & _).
    repeat split; intros E; rewrite E in HA; cbn [PCA] in HA.
    + destruct HA as (K1 & K2 & _). specialize (Q2 K1). lia.
    + destruct HA as (K1 & K2 & _). specialize (Q2 K1). lia.
    + destruct HA as (K1 & _). assert (cb_ctor (cb (fst (st_run P sched w0 progs srcs)) k) = 2) by (apply C2; lia). lia.
Qed.

(* the destructor never returns while the callback is being executed by another thread *)
Theorem dtor_waits_for_other_thread P sched w0 progs srcs : ids_faithful P -> good_init w0 ->
  bad_dtor_during_run (fst (st_run P sched w0 progs srcs)) = false.
Proof.
  intros Hid Hw. destruct (run_Inv2 P sched w0 progs srcs Hid Hw) as (_ & HG2 & _).
  cbv zeta in HG2. apply HG2.
Qed.

(* ... stated on the program counters: a thread about to return from remove_callback(k) (its last
   step) sees k not executing, or executing on itself; a thread in the waiting loop is never
   waiting for a callback that executes on itself; and the identity test of remove_callback
   answers "same thread" exactly for the thread that is inside the winning request_stop *)
Theorem dtor_waits_other_not_self P sched w0 progs srcs : ids_faithful P -> good_init w0 ->
  let c := st_run P sched w0 progs srcs in
  forall t k,
    (pc (snd c t) = RRelease k ->
       cb_running (cb (fst c) k) = None \/ cb_running (cb (fst c) k) = Some t) /\
    (pc (snd c t) = RWait k -> cb_running (cb (fst c) k) <> Some t) /\
    (same_thread P (fst c) t = true <-> winner (fst c) = Some t).
Proof.
  intros Hid Hw. cbv zeta. intros t k.
  destruct (run_Inv2 P sched w0 progs srcs Hid Hw) as (_ & HG2 & HL2). cbv zeta in HG2, HL2.
  pose proof HG2 as (_ & _ & HSG & _ & _ & _ & _ & HC). destruct (HL2 t) as (HA & _).
  repeat split.
  - intros E. rewrite E in HA. apply HA.
  - intros E Hr. rewrite E in HA. cbn [PCA] in HA. destruct HA as (((K1 & _) & _) & Hnw).
    ci HC k. destruct (C8 t Hr) as [_ [[X _]|[_ X]]]; [lia|contradiction].
  - now apply same_thread_winner.
  - now apply same_thread_self.
Qed.
