(* C14: thread identity for pika TASKS.  Every model thread is a task with its own pika thread id; the OS thread it
   runs on is arbitrary (several tasks on one worker OS thread, or different ones).  The identity test of
   remove_callback (Model.StopState.same_thread) consults os_id only when BOTH ids are invalid, and ids_faithful
   constrains os_id only for threads without a pika id: such parameters are faithful whatever the OS thread ids are. *)
From Coq Require Import List NArith Bool Lia.
From Pika Require Import Base.Conc Gen.GenStopBits Model.StopWord Model.StopState
  Proofs.StopFlagsProofs Proofs.StopStateProofs Proofs.StopCallbacksAbs Proofs.StopCallbacksProofs.
Import ListNotations.

Definition task_params (body : nat -> list op) (osf : nat -> nat) : params :=
  {| cb_body := body; pika_id := fun t => Some t; os_id := osf |}.

Lemma task_params_faithful body osf : ids_faithful (task_params body osf).
Proof. intros t1 t2. cbn. intros H. exact H. Qed.

Lemma dtor_waits_tasks_any_os_thread : forall body osf sched w0 progs srcs, good_init w0 ->
  let P := task_params body osf in
  let c := st_run P sched w0 progs srcs in
  bad_dtor_during_run (fst c) = false /\
  forall t k,
    (pc (snd c t) = RRelease k ->
       cb_running (cb (fst c) k) = None \/ cb_running (cb (fst c) k) = Some t) /\
    (pc (snd c t) = RWait k -> cb_running (cb (fst c) k) <> Some t) /\
    (same_thread P (fst c) t = true <-> winner (fst c) = Some t).
Proof.
  intros body osf sched w0 progs srcs Hg. split.
  - apply dtor_waits_for_other_thread; [apply task_params_faithful|exact Hg].
  - apply dtor_waits_other_not_self; [apply task_params_faithful|exact Hg].
Qed.
