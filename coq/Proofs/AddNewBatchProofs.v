(* Proofs/AddNewBatchProofs.v — C01, round p13a: the conversion batch loop (Model/AddNewBatch.v)
   interpreted from the regenerated shape (Gen/GenAddNew.v) moves min(budget, |staged|)
   descriptions to the pending queue in order and drops none; with the two operands of the loop
   condition exchanged one description is lost per exhausted batch. *)
From Coq Require Import ZArith List Bool Lia.
From Pika Require Import Gen.GenAddNew Model.AddNewBatch.
Import ListNotations.
Local Open Scope Z_scope.

(* ---- facts about the REGENERATED shapes (each fails by name when the source changes) ---- *)
Lemma tq_add_new_tests_budget_before_pop : sh_order tq_add_new = BudgetThenPop.
Proof. reflexivity. Qed.
Lemma mc_add_new_tests_budget_before_pop : sh_order mc_add_new = BudgetThenPop.
Proof. reflexivity. Qed.
Lemma tq_add_new_budget_is_post_decremented : sh_test tq_add_new = PostDec.
Proof. reflexivity. Qed.
Lemma mc_add_new_budget_is_post_decremented : sh_test mc_add_new = PostDec.
Proof. reflexivity. Qed.
Lemma tq_add_new_guard_is_budget_zero : sh_guard tq_add_new = GuardBudgetZero.
Proof. reflexivity. Qed.
Lemma mc_add_new_guard_is_count_zero : sh_guard mc_add_new = GuardCountZero.
Proof. reflexivity. Qed.
(* the map-insert error path of thread_queue::add_new (the description is already destroyed)
   decrements new_tasks_count_ exactly once; thread_queue_mc::add_new has no such path *)
Lemma tq_add_new_error_path_decrements_once : sh_err_decs tq_add_new = 1%nat.
Proof. reflexivity. Qed.
Lemma mc_add_new_has_no_error_path : sh_err_decs mc_add_new = 0%nat.
Proof. reflexivity. Qed.

Section Proofs.
  Context {D : Type}.
  Notation bst := (bst D).

  (* what one execution of the loop body must do with the popped description: make a thread of
     it, enter it in the map, decrement new_tasks_count_ once, count it in `added`, queue it once *)
  Definition body_converts (k : Z) (ops : list an_op) : Prop :=
    forall (t : D) (s : bst), b_cur s = None ->
      run_body ops t s =
      mkB (b_pending s ++ [t]) (b_count s - 1) (t :: b_map s) (b_mapcount s + k) (S (b_added s)) None.

  Lemma tq_add_new_body_converts : body_converts 1 (sh_body tq_add_new).
  Proof. intros t [p c m mc a cu] H; cbn in H; subst cu. reflexivity. Qed.

  Lemma mc_add_new_body_converts : body_converts 0 (sh_body mc_add_new).
  Proof.
    intros t [p c m mc a cu] H; cbn in H; subst cu. cbn.
    f_equal. lia.
  Qed.

  Lemma batch_size_zero len : batch_size 0 len = 0%nat.
  Proof. unfold batch_size. cbn. reflexivity. Qed.

  Lemma batch_size_nil b : batch_size b 0 = 0%nat.
  Proof. unfold batch_size. destruct (b <? 0); [reflexivity | apply Nat.min_0_r]. Qed.

  Lemma batch_size_step b len : b <> 0 -> batch_size b (S len) = S (batch_size (b - 1) len).
  Proof.
    intros Hb. unfold batch_size.
    destruct (b <? 0) eqn:E1; destruct (b - 1 <? 0) eqn:E2;
      try apply Z.ltb_lt in E1; try apply Z.ltb_ge in E1;
      try apply Z.ltb_lt in E2; try apply Z.ltb_ge in E2; lia.
  Qed.

  Lemma batch_size_le b len : (batch_size b len <= len)%nat.
  Proof. unfold batch_size. destruct (b <? 0); lia. Qed.

  (* the loop with the budget tested first, post-decrement *)
  Lemma loop_budget_then_pop (sh : add_new_shape) (k : Z) :
    sh_order sh = BudgetThenPop -> sh_test sh = PostDec -> body_converts k (sh_body sh) ->
    forall (staged : list D) (b : Z) (s : bst), b_cur s = None ->
      let n := batch_size b (length staged) in
      let r := add_new_loop sh b staged s in
      fst (fst r) = skipn n staged /\
      b_pending (snd (fst r)) = b_pending s ++ firstn n staged /\
      b_count (snd (fst r)) = b_count s - Z.of_nat n /\
      b_added (snd (fst r)) = (b_added s + n)%nat /\
      b_map (snd (fst r)) = rev (firstn n staged) ++ b_map s /\
      b_mapcount (snd (fst r)) = b_mapcount s + k * Z.of_nat n /\
      b_cur (snd (fst r)) = None.
  Proof.
    intros Ho Ht Hb. induction staged as [|t rest IH]; intros b s Hc.
    - cbn [add_new_loop length]. rewrite Ho, Ht. cbn [test_budget]. rewrite batch_size_nil.
      destruct (negb (b =? 0)); cbn; rewrite app_nil_r; repeat split; auto; lia.
    - cbn [add_new_loop]. rewrite Ho, Ht. cbn [test_budget].
      destruct (b =? 0) eqn:E; cbn [negb].
      + apply Z.eqb_eq in E. subst b. cbn [length]. rewrite batch_size_zero.
        cbn. rewrite app_nil_r. repeat split; auto; lia.
      + apply Z.eqb_neq in E. cbn [length]. rewrite (batch_size_step b _ E).
        rewrite (Hb t s Hc).
        specialize (IH (b - 1)
          (mkB (b_pending s ++ [t]) (b_count s - 1) (t :: b_map s) (b_mapcount s + k) (S (b_added s)) None)
          eq_refl).
        cbn zeta in IH. cbn [b_pending b_count b_map b_mapcount b_added b_cur] in IH.
        destruct IH as (I1 & I2 & I3 & I4 & I5 & I6 & I7).
        cbn [skipn firstn rev].
        repeat split; auto.
        * rewrite I2, <- app_assoc. reflexivity.
        * rewrite I3. lia.
        * rewrite I4. lia.
        * rewrite I5. rewrite <- !app_assoc. reflexivity.
        * rewrite I6. lia.
  Qed.

  Definition good_shape (sh : add_new_shape) : Prop :=
    sh_order sh = BudgetThenPop /\ sh_test sh = PostDec /\
    (sh_guard sh = GuardBudgetZero \/ sh_guard sh = GuardCountZero) /\
    exists k, body_converts k (sh_body sh).

  Lemma tq_add_new_good : good_shape tq_add_new.
  Proof.
    split; [apply tq_add_new_tests_budget_before_pop |].
    split; [apply tq_add_new_budget_is_post_decremented |].
    split; [left; apply tq_add_new_guard_is_budget_zero |].
    exists 1. apply tq_add_new_body_converts.
  Qed.

  Lemma mc_add_new_good : good_shape mc_add_new.
  Proof.
    split; [apply mc_add_new_tests_budget_before_pop |].
    split; [apply mc_add_new_budget_is_post_decremented |].
    split; [right; apply mc_add_new_guard_is_count_zero |].
    exists 0. apply mc_add_new_body_converts.
  Qed.

  (* the whole call, quiescent counter (new_tasks_count_ = number of staged descriptions) *)
  Lemma add_new_good_batch (sh : add_new_shape) :
    good_shape sh ->
    forall (budget : Z) (staged : list D) (s : bst),
      b_count s = Z.of_nat (length staged) ->
      let n := batch_size budget (length staged) in
      let r := add_new sh budget staged s in
      fst r = skipn n staged /\
      b_pending (snd r) = b_pending s ++ firstn n staged /\
      b_pending (snd r) ++ fst r = b_pending s ++ staged /\
      b_count (snd r) = Z.of_nat (length (fst r)) /\
      b_added (snd r) = n /\
      b_map (snd r) = rev (firstn n staged) ++ b_map s.
  Proof.
    intros (Ho & Ht & Hg & k & Hb) budget staged s Hcnt n r.
    assert (Hskip : forall (skip : bool), (skip = true -> n = 0%nat) ->
              r = (if skip then (staged, mkB (b_pending s) (b_count s) (b_map s) (b_mapcount s) 0%nat None)
                   else fst (add_new_loop sh budget staged
                               (mkB (b_pending s) (b_count s) (b_map s) (b_mapcount s) 0%nat None))) ->
              fst r = skipn n staged /\
              b_pending (snd r) = b_pending s ++ firstn n staged /\
              b_pending (snd r) ++ fst r = b_pending s ++ staged /\
              b_count (snd r) = Z.of_nat (length (fst r)) /\
              b_added (snd r) = n /\
              b_map (snd r) = rev (firstn n staged) ++ b_map s).
    { intros skip Hn Hr. destruct skip.
      - rewrite Hr, (Hn eq_refl). cbn. rewrite app_nil_r. repeat split; auto.
      - pose proof (loop_budget_then_pop sh k Ho Ht Hb staged budget
                      (mkB (b_pending s) (b_count s) (b_map s) (b_mapcount s) 0%nat None) eq_refl) as L.
        cbn zeta in L. cbn [b_pending b_count b_map b_mapcount b_added b_cur] in L.
        fold n in L. destruct L as (L1 & L2 & L3 & L4 & L5 & _ & _).
        rewrite Hr. cbn [fst snd].
        repeat split; auto.
        + rewrite L1, L2, <- app_assoc, firstn_skipn. reflexivity.
        + rewrite L1, L3, Hcnt, skipn_length.
          pose proof (batch_size_le budget (length staged)). fold n in H. lia. }
    destruct Hg as [Hg | Hg].
    - apply (Hskip (budget =? 0)).
      + intros E. apply Z.eqb_eq in E. unfold n. rewrite E. apply batch_size_zero.
      + unfold r, add_new. rewrite Hg. reflexivity.
    - apply (Hskip (b_count s =? 0)).
      + intros E. apply Z.eqb_eq in E. rewrite Hcnt in E.
        destruct staged; [|cbn in E; lia]. unfold n. apply batch_size_nil.
      + unfold r, add_new. rewrite Hg. reflexivity.
  Qed.

  (* without the counter hypothesis: nothing is dropped or duplicated, order is kept, and the
     offset between new_tasks_count_ and the staged queue does not change *)
  Lemma add_new_good_never_drops (sh : add_new_shape) :
    good_shape sh ->
    forall (budget : Z) (staged : list D) (s : bst),
      let r := add_new sh budget staged s in
      b_pending (snd r) ++ fst r = b_pending s ++ staged /\
      b_count (snd r) - Z.of_nat (length (fst r)) = b_count s - Z.of_nat (length staged) /\
      Z.of_nat (b_added (snd r)) = b_count s - b_count (snd r).
  Proof.
    intros (Ho & Ht & Hg & k & Hb) budget staged s r.
    assert (Hloop : let r' := fst (add_new_loop sh budget staged
                               (mkB (b_pending s) (b_count s) (b_map s) (b_mapcount s) 0%nat None)) in
              b_pending (snd r') ++ fst r' = b_pending s ++ staged /\
              b_count (snd r') - Z.of_nat (length (fst r')) = b_count s - Z.of_nat (length staged) /\
              Z.of_nat (b_added (snd r')) = b_count s - b_count (snd r')).
    { pose proof (loop_budget_then_pop sh k Ho Ht Hb staged budget
                      (mkB (b_pending s) (b_count s) (b_map s) (b_mapcount s) 0%nat None) eq_refl) as L.
      cbn zeta in L. cbn [b_pending b_count b_map b_mapcount b_added b_cur] in L.
      destruct L as (L1 & L2 & L3 & L4 & _).
      cbn zeta. rewrite L1, L2, L3, L4, <- app_assoc, firstn_skipn, skipn_length.
      pose proof (batch_size_le budget (length staged)).
      repeat split; auto; lia. }
    cbn zeta in Hloop.
    unfold r, add_new.
    destruct (match sh_guard sh with
              | GuardNone => false | GuardBudgetZero => budget =? 0 | GuardCountZero => b_count s =? 0 end).
    - cbn. repeat split; auto; lia.
    - exact Hloop.
  Qed.

  (* the loop with the pop first: when the budget runs out before the staged queue does, the
     description popped by the last evaluation of the condition is lost *)
  Lemma loop_pop_then_budget (sh : add_new_shape) (k : Z) :
    sh_order sh = PopThenBudget -> sh_test sh = PostDec -> body_converts k (sh_body sh) ->
    forall (staged : list D) (b : Z) (s : bst), b_cur s = None ->
      0 <= b < Z.of_nat (length staged) ->
      let n := Z.to_nat b in
      let r := add_new_loop sh b staged s in
      fst (fst r) = skipn (S n) staged /\
      b_pending (snd (fst r)) = b_pending s ++ firstn n staged /\
      b_count (snd (fst r)) = b_count s - b /\
      b_added (snd (fst r)) = (b_added s + n)%nat.
  Proof.
    intros Ho Ht Hb. induction staged as [|t rest IH]; intros b s Hc Hr.
    - cbn in Hr. lia.
    - cbn [add_new_loop]. rewrite Ho, Ht. cbn [test_budget].
      destruct (b =? 0) eqn:E; cbn [negb].
      + apply Z.eqb_eq in E. subst b. cbn. rewrite app_nil_r. repeat split; auto; lia.
      + apply Z.eqb_neq in E. cbn [length] in Hr.
        rewrite (Hb t s Hc).
        specialize (IH (b - 1)
          (mkB (b_pending s ++ [t]) (b_count s - 1) (t :: b_map s) (b_mapcount s + k) (S (b_added s)) None)
          eq_refl ltac:(lia)).
        cbn zeta in IH. cbn [b_pending b_count b_map b_mapcount b_added b_cur] in IH.
        destruct IH as (I1 & I2 & I3 & I4).
        replace (Z.to_nat b) with (S (Z.to_nat (b - 1))) by lia.
        cbn [skipn firstn].
        repeat split; auto.
        * rewrite I2, <- app_assoc. reflexivity.
        * rewrite I3. lia.
        * rewrite I4. lia.
  Qed.

  Lemma swap_order_good (sh : add_new_shape) :
    good_shape sh ->
    sh_order (swap_order sh) = PopThenBudget /\ sh_test (swap_order sh) = PostDec /\
    sh_guard (swap_order sh) = sh_guard sh /\ exists k, body_converts k (sh_body (swap_order sh)).
  Proof.
    intros (Ho & Ht & _ & Hb). unfold swap_order. cbn. rewrite Ho. auto.
  Qed.

  (* every call with 0 < budget < |staged| loses exactly one description with the pop first *)
  Lemma add_new_pop_then_budget_loses_one (sh : add_new_shape) :
    sh = tq_add_new \/ sh = mc_add_new ->
    forall (budget : Z) (staged : list D) (s : bst),
      b_count s = Z.of_nat (length staged) -> 0 < budget < Z.of_nat (length staged) ->
      let n := Z.to_nat budget in
      let r := add_new (swap_order sh) budget staged s in
      fst r = skipn (S n) staged /\
      b_pending (snd r) = b_pending s ++ firstn n staged /\
      S (length (b_pending (snd r) ++ fst r)) = length (b_pending s ++ staged) /\
      b_count (snd r) = Z.of_nat (length (fst r)) + 1.
  Proof.
    intros Hsh budget staged s Hcnt Hr n r.
    assert (G : good_shape sh) by (destruct Hsh as [-> | ->]; [apply tq_add_new_good | apply mc_add_new_good]).
    destruct (swap_order_good sh G) as (Ho & Ht & Hg & k & Hb).
    pose proof (loop_pop_then_budget (swap_order sh) k Ho Ht Hb staged budget
                  (mkB (b_pending s) (b_count s) (b_map s) (b_mapcount s) 0%nat None) eq_refl ltac:(lia)) as L.
    cbn zeta in L. cbn [b_pending b_count b_map b_mapcount b_added b_cur] in L.
    fold n in L. destruct L as (L1 & L2 & L3 & _).
    assert (Hrr : r = fst (add_new_loop (swap_order sh) budget staged
                               (mkB (b_pending s) (b_count s) (b_map s) (b_mapcount s) 0%nat None))).
    { unfold r, add_new. rewrite Hg.
      destruct G as (_ & _ & [Hg' | Hg'] & _); rewrite Hg'.
      - destruct (budget =? 0) eqn:E; [apply Z.eqb_eq in E; lia | reflexivity].
      - destruct (b_count s =? 0) eqn:E; [apply Z.eqb_eq in E; lia | reflexivity]. }
    rewrite Hrr. cbn [fst snd].
    assert (Hlen : (S n <= length staged)%nat) by lia.
    repeat split; auto.
    - rewrite L1, L2, !app_length, skipn_length, firstn_length. lia.
    - rewrite L1, L3, Hcnt, skipn_length. lia.
  Qed.

  (* the regenerated loops *)
  Lemma add_new_batch_conserves (sh : add_new_shape) :
    sh = tq_add_new \/ sh = mc_add_new ->
    forall (budget : Z) (staged : list D) (s : bst),
      b_count s = Z.of_nat (length staged) ->
      let n := batch_size budget (length staged) in
      let r := add_new sh budget staged s in
      fst r = skipn n staged /\
      b_pending (snd r) = b_pending s ++ firstn n staged /\
      b_pending (snd r) ++ fst r = b_pending s ++ staged /\
      b_count (snd r) = Z.of_nat (length (fst r)) /\
      b_added (snd r) = n /\
      b_map (snd r) = rev (firstn n staged) ++ b_map s.
  Proof.
    intros [-> | ->]; apply add_new_good_batch; [apply tq_add_new_good | apply mc_add_new_good].
  Qed.

  Lemma add_new_batch_never_drops (sh : add_new_shape) :
    sh = tq_add_new \/ sh = mc_add_new ->
    forall (budget : Z) (staged : list D) (s : bst),
      let r := add_new sh budget staged s in
      b_pending (snd r) ++ fst r = b_pending s ++ staged /\
      b_count (snd r) - Z.of_nat (length (fst r)) = b_count s - Z.of_nat (length staged) /\
      Z.of_nat (b_added (snd r)) = b_count s - b_count (snd r).
  Proof.
    intros [-> | ->]; apply add_new_good_never_drops; [apply tq_add_new_good | apply mc_add_new_good].
  Qed.
End Proofs.

(* ---- the other operand order: pop first, then the budget test ---- *)
Definition drop_staged : list nat := [1; 2; 3]%nat.
Definition drop_state : bst nat := mkB [] 3 [] 0 0%nat None.

Lemma add_new_pop_then_budget_drops (sh : add_new_shape) :
  sh = tq_add_new \/ sh = mc_add_new ->
  exists (budget : Z) (staged : list nat) (s : bst nat),
    b_count s = Z.of_nat (length staged) /\ 0 <= budget < Z.of_nat (length staged) /\
    let r := add_new (swap_order sh) budget staged s in
    fst r = [] /\ b_pending (snd r) = [1; 2]%nat /\            (* 3 is in neither queue *)
    In 3%nat (b_pending s ++ staged) /\ ~ In 3%nat (b_pending (snd r) ++ fst r) /\
    b_count (snd r) = 1 /\ b_added (snd r) = 2%nat.              (* the counter still counts it *)
Proof.
  intros [-> | ->]; exists 2, drop_staged, drop_state; vm_compute;
    (split; [reflexivity |]); (split; [split; [discriminate | reflexivity] |]);
    repeat split; auto; intros [H | [H | []]]; discriminate H.
Qed.
