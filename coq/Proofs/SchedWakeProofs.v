(* Proofs/SchedWakeProofs.v — C02: the wake-up obligation invariant of the scheduler model. *)
From Coq Require Import List NArith Bool Arith Lia.
From Pika Require Import Base.Conc Gen.GenEnums Model.Sched Proofs.SchedProofs.
Import ListNotations.

Definition wA (p : N) : word := {| st := st_active; tag := p |}.
Definition wS (p : N) : word := {| st := st_suspended; tag := p |}.

(* agent a is inside set_thread_state(u) and has not yet decided / performed the CAS *)
Definition wit_sub (s : sub) (u : nat) : Prop :=
  match s with SLoad u' | SCas u' _ => u' = u | _ => False end.
Definition runnable (g : G) (h : nat) : Prop :=
  st (tw_of g h) = st_pending \/ st (tw_of g h) = st_active.
(* a retry helper for (u, prev) exists: as a staged description, or as a task that has not yet
   executed set_active_state and is pending or active *)
Definition helper_for (g : G) (u : nat) (prev : word) : Prop :=
  In (HelperBody u prev) (staged g) \/
  exists h, h < ntasks g /\ todo (tasks g h) = HelperBody u prev /\ runnable g h.
Definition inflight (g : G) (ls : nat -> pc) (u : nat) (p : N) : Prop :=
  (exists a, wit_sub (sub_of (ls a)) u) \/ helper_for g u (wA p).
(* a wake-up was issued for the phase (tag p) in which u registered, and u is still in that
   phase or in the suspension that ended it *)
Definition needs_wake (g : G) (u : nat) (p : N) : Prop :=
  wake (tasks g u) = Some p /\ (tw_of g u = wA p \/ tw_of g u = wS (p + 1)).
Definition is_user (b : body) : Prop := match b with UserBody _ => True | _ => False end.
Definition W1 (g : G) (ls : nat -> pc) : Prop :=
  forall u p, u < ntasks g -> needs_wake g u p -> inflight g ls u p.
Definition W5 (g : G) (ls : nat -> pc) : Prop :=
  forall a, match ls a with
            | WStoreL t _ _ | WStoreC t _ _ _ => is_user (todo (tasks g t))
            | _ => True
            end.
Definition WInv (g : G) (ls : nat -> pc) : Prop := W1 g ls /\ W5 g ls.

(* ------------------------------------------------------------------ the generic step lemma *)
Lemma W1_keep g ls g' a l' :
  (forall u p, u < ntasks g' -> needs_wake g' u p ->
     (u < ntasks g /\ needs_wake g u p) \/ wit_sub (sub_of l') u) ->
  (forall u p, helper_for g u (wA p) ->
     helper_for g' u (wA p) \/ wit_sub (sub_of l') u \/ ~ needs_wake g' u p) ->
  (forall u, wit_sub (sub_of (ls a)) u ->
     wit_sub (sub_of l') u \/ ntasks g' <= u \/ (forall p, needs_wake g' u p -> helper_for g' u (wA p))) ->
  W1 g ls -> W1 g' (upd ls a l').
Proof.
  intros H1 H2 H3 HW u p Hu Hn.
  destruct (H1 u p Hu Hn) as [[Hu0 Hn0]|Hw].
  2:{ left. exists a. now rewrite upd_same. }
  destruct (HW u p Hu0 Hn0) as [[b Hb]|Hh].
  - destruct (Nat.eq_dec b a) as [->|Hne].
    + destruct (H3 u Hb) as [Hw|[Hw|Hw]]; [left; exists a; now rewrite upd_same | lia | right; now apply Hw].
    + left. exists b. now rewrite upd_other.
  - destruct (H2 u p Hh) as [Hh'|[Hw|Hc]]; [right; exact Hh' | left; exists a; now rewrite upd_same | contradiction].
Qed.

Lemma helper_frame g g' u prev :
  (forall b, In b (staged g) -> In b (staged g')) ->
  ntasks g <= ntasks g' ->
  (forall h, h < ntasks g -> todo (tasks g h) = HelperBody u prev -> runnable g h ->
     todo (tasks g' h) = HelperBody u prev /\ runnable g' h) ->
  helper_for g u prev -> helper_for g' u prev.
Proof.
  intros Hs Hn Ht [H|(h & Hh & Hd & Hr)]; [left; auto|].
  right. exists h. destruct (Ht h Hh Hd Hr) as [H1 H2]. repeat split; auto. lia.
Qed.

(* needs_wake only looks at wake and the word *)
Lemma needs_wake_ext g g' u p :
  wake (tasks g' u) = wake (tasks g u) -> tw_of g' u = tw_of g u -> needs_wake g' u p -> needs_wake g u p.
Proof. unfold needs_wake. intros -> ->. tauto. Qed.

(* ------------------------------------------------------------------ views of the setters *)
Lemma tasks_set_task_same g t x : tasks (set_task g t x) t = x.
Proof. cbn. apply upd_same. Qed.
Lemma tasks_set_task_other g t x y : y <> t -> tasks (set_task g t x) y = tasks g y.
Proof. intros H. cbn. now apply upd_other. Qed.


(* a step that leaves task records of existing tasks alone except for fields that neither
   needs_wake nor helper_for look at *)
Definition same_wt (g g' : G) : Prop :=
  forall x, wake (tasks g' x) = wake (tasks g x) /\ tw (tasks g' x) = tw (tasks g x) /\
            (forall u prev, todo (tasks g x) = HelperBody u prev -> todo (tasks g' x) = HelperBody u prev).

Lemma keep_same g ls g' a l' :
  same_wt g g' -> ntasks g' = ntasks g -> (forall b, In b (staged g) -> In b (staged g')) ->
  (forall u, wit_sub (sub_of (ls a)) u -> wit_sub (sub_of l') u) ->
  W1 g ls -> W1 g' (upd ls a l').
Proof.
  intros Hs Hn Hst Hw. apply (W1_keep g ls).
  - intros u p Hu Hnw. left. split; [lia|]. destruct (Hs u) as (E1 & E2 & _).
    eapply needs_wake_ext; eauto.
  - intros u p Hh. left. eapply helper_frame; eauto; [lia|].
    intros h Hh' Hd Hr. destruct (Hs h) as (_ & E2 & E3). split; [now apply E3|].
    unfold runnable, tw_of in *. now rewrite E2.
  - intros u H. left. auto.
Qed.

Lemma same_wt_tasks g g' : tasks g' = tasks g -> same_wt g g'.
Proof. intros E x. rewrite E. tauto. Qed.
Lemma same_wt_rc_dec g t : same_wt g (rc_dec g t).
Proof. apply same_wt_tasks. apply rc_dec_view. Qed.
Lemma same_wt_refl g : same_wt g g.
Proof. intros x. tauto. Qed.
Lemma same_wt_trans g1 g2 g3 : same_wt g1 g2 -> same_wt g2 g3 -> same_wt g1 g3.
Proof.
  intros H1 H2 x. destruct (H1 x) as (A1 & A2 & A3), (H2 x) as (B1 & B2 & B3).
  repeat split; try congruence. intros u prev E. apply B3, A3, E.
Qed.
Lemma same_wt_add_log g e : same_wt g (add_log g e).
Proof. intros x. cbn. tauto. Qed.
Lemma same_wt_set_pend g p : same_wt g (set_pend g p).
Proof. intros x. cbn. tauto. Qed.
Lemma same_wt_set_staged g p : same_wt g (set_staged g p).
Proof. intros x. cbn. tauto. Qed.
Lemma same_wt_push g t : same_wt g (push g t).
Proof. intros x. cbn. tauto. Qed.
Lemma same_wt_set_task g t k :
  wake k = wake (tasks g t) -> tw k = tw (tasks g t) ->
  (forall u prev, todo (tasks g t) = HelperBody u prev -> todo k = HelperBody u prev) ->
  same_wt g (set_task g t k).
Proof.
  intros H1 H2 H3 x. cbn. unfold upd. destruct (Nat.eqb x t) eqn:E; [|tauto].
  apply Nat.eqb_eq in E. subst. tauto.
Qed.

Lemma In_remove_nth {A} (l : list A) i b x :
  nth_error l i = Some b -> In x l -> x = b \/ In x (remove_nth i l).
Proof.
  intros Hn Hx. destruct (remove_nth_split _ _ _ Hn) as (l1 & l2 & -> & ->).
  apply in_app_or in Hx. destruct Hx as [H|[H|H]]; [right; apply in_or_app; now left | now left | right; apply in_or_app; now right].
Qed.

(* creation of a new thread object (from a staged description at index i, or directly), in a
   fresh object or in a recycled one *)
Lemma new_slot_cases g h :
  (In (new_slot g h) (heap g) /\ ntasks (new_task g (UserBody []) h) = ntasks g) \/
  (new_slot g h = ntasks g /\ ntasks (new_task g (UserBody []) h) = S (ntasks g)).
Proof.
  unfold new_slot, new_task. cbn. destruct (nth_error (heap g) h) eqn:E; [left|right]; split; auto.
  eapply nth_error_In; eauto.
Qed.
Lemma ntasks_new_task g b b' h : ntasks (new_task g b h) = ntasks (new_task g b' h).
Proof. reflexivity. Qed.

Lemma keep_new g ls a l' b h (st' : list body) :
  heap_ok g ->
  (forall x, In x (staged g) -> x = b \/ In x st') ->
  (forall u, wit_sub (sub_of (ls a)) u -> wit_sub (sub_of l') u) ->
  W1 g ls -> W1 (new_task (set_staged g st') b h) (upd ls a l').
Proof.
  intros HH Hst Hw.
  set (g0 := set_staged g st').
  assert (Hslot : (In (new_slot g0 h) (heap g) /\ ntasks (new_task g0 b h) = ntasks g) \/
                  (new_slot g0 h = ntasks g /\ ntasks (new_task g0 b h) = S (ntasks g))).
  { rewrite (ntasks_new_task g0 b (UserBody []) h). exact (new_slot_cases g0 h). }
  assert (Hlt : forall u, u < ntasks (new_task g0 b h) -> u <> new_slot g0 h -> u < ntasks g).
  { intros u Hu Hne. destruct Hslot as [[_ E]|[E1 E2]]; lia. }
  assert (Hsl : new_slot g0 h < ntasks (new_task g0 b h)).
  { destruct Hslot as [[Hin E]|[E1 E2]]; [rewrite E; apply (HH _ Hin) | lia]. }
  assert (Hnr : forall x, x < ntasks g -> runnable g x -> x <> new_slot g0 h).
  { intros x Hx Hr ->. destruct Hslot as [[Hin _]|[E1 _]]; [|lia].
    destruct (HH _ Hin) as [_ Ht]. unfold runnable in Hr. destruct Hr as [Hr|Hr]; congruence. }
  apply (W1_keep g ls).
  - intros u p Hu [Hwk Hwd]. left.
    destruct (Nat.eq_dec u (new_slot g0 h)) as [->|Hne].
    + cbn in Hwk. rewrite upd_same in Hwk. discriminate.
    + split; [now apply Hlt|]. unfold needs_wake, tw_of in *. cbn in Hwk, Hwd.
      rewrite upd_other in Hwk, Hwd by assumption. tauto.
  - intros u p [Hh|(x & Hx & Hd & Hr)]; left.
    + destruct (Hst _ Hh) as [E|E]; [|left; exact E].
      right. exists (new_slot g0 h). split; [exact Hsl|].
      cbn. rewrite upd_same. unfold runnable, tw_of. cbn. rewrite upd_same. cbn. auto.
    + right. exists x. assert (Hne := Hnr x Hx Hr).
      unfold runnable, tw_of in *. cbn. rewrite upd_other by assumption.
      split; [|auto]. destruct (nth_error (heap g) h); lia.
  - intros u H. left. auto.
Qed.

Lemma same_wt_set_todo_user g t l r : todo (tasks g t) = UserBody l -> same_wt g (set_todo g t r).
Proof. intros H. apply same_wt_set_task; try reflexivity. intros u prev E. congruence. Qed.
Lemma same_wt_set_reg g t r : same_wt g (set_reg g t r).
Proof. apply same_wt_set_task; try reflexivity. cbn. auto. Qed.

Lemma spawn_W1 g ls a l' g0 b (now : bool) h :
  heap_ok g0 ->
  same_wt g g0 -> ntasks g0 = ntasks g -> staged g0 = staged g ->
  (forall u, wit_sub (sub_of (ls a)) u -> wit_sub (sub_of l') u) ->
  W1 g ls -> W1 (if now then new_task g0 b h else stage g0 b) (upd ls a l').
Proof.
  intros HH Hs Hn Hst Hw HW.
  assert (HW0 : W1 g0 (upd ls a (ls a))).
  { apply keep_same with (g := g); auto. rewrite Hst. auto. }
  assert (E : forall x, upd (upd ls a (ls a)) a l' x = upd ls a l' x).
  { intros x. unfold upd. destruct (Nat.eqb x a); reflexivity. }
  assert (HW1 : W1 (if now then new_task g0 b h else stage g0 b) (upd (upd ls a (ls a)) a l')).
  { destruct now.
    - replace g0 with (set_staged g0 (staged g0)) at 1 by (destruct g0; reflexivity).
      apply keep_new; auto. rewrite upd_same. exact Hw.
    - apply keep_same with (g := g0); auto.
      + apply same_wt_set_staged.
      + cbn. intros x Hx. now right.
      + rewrite upd_same. exact Hw. }
  intros u p Hu Hnw. destruct (HW1 u p Hu Hnw) as [[x Hx]|Hh]; [left; exists x; now rewrite <- E | right; exact Hh].
Qed.

(* ------------------------------------------------------------------ set_thread_state steps *)
Lemma sub_step_W1 g ls a l :
  SInv g ls -> ls a = l -> has_sub l -> W1 g ls ->
  W1 (fst (sub_step g (sub_of l))) (upd ls a (with_sub l (snd (sub_step g (sub_of l))))).
Proof.
  intros HI Ha Hsub HW.
  assert (Hpc := i_pc _ _ _ _ HI a). rewrite Ha in Hpc. destruct Hpc as [Hm Hs].
  assert (Hso : forall s', sub_of (with_sub l s') = s') by (intros; now apply sub_of_with_sub).
  destruct (sub_of l) as [|u0|u0|u0 prev|u0] eqn:Es; cbn [sub_step].
  - cbn [fst snd]. apply (keep_same g ls); auto using same_wt_refl. rewrite Ha, Es, Hso. auto.
  - (* SIssue *)
    destruct (reg (tasks g u0)) as [p0|] eqn:Er; cbn [fst snd].
    + apply (W1_keep g ls); auto.
      * intros u p Hu [Hwk Hwd]. rewrite Hso. destruct (Nat.eq_dec u u0) as [->|Hne]; [right; reflexivity|].
        left. split; [exact Hu|]. unfold needs_wake, tw_of in *. cbn in Hwk, Hwd. rewrite upd_other in Hwk, Hwd by assumption. tauto.
      * intros u p Hh. left. apply helper_frame with (g := g); [cbn; auto | cbn; lia | | exact Hh].
        intros h Hh' Hd Hr. unfold runnable, tw_of in *. cbn. unfold upd.
        destruct (Nat.eqb h u0) eqn:E; [apply Nat.eqb_eq in E; subst; cbn; auto | auto].
      * rewrite Ha, Es. cbn. tauto.
    + apply (keep_same g ls); auto using same_wt_add_log. rewrite Ha, Es. cbn. tauto.
  - (* SLoad *)
    assert (Hdrop : forall gg, same_wt g gg -> ntasks gg = ntasks g ->
              (forall b, In b (staged g) -> In b (staged gg)) ->
              (ntasks g <= u0 \/ (forall p, needs_wake gg u0 p -> helper_for gg u0 (wA p))) ->
              W1 gg (upd ls a (with_sub l SNone))).
    { intros gg Hsw Hn Hst Hd. apply (W1_keep g ls); auto.
      - intros u p Hu Hnw. left. split; [lia|]. destruct (Hsw u) as (E1 & E2 & _).
        eapply needs_wake_ext; eauto.
      - intros u p Hh. left. eapply helper_frame; eauto; [lia|].
        intros h Hh' Hd' Hr. destruct (Hsw h) as (_ & E2 & E3). split; [now apply E3|].
        unfold runnable, tw_of in *. now rewrite E2.
      - rewrite Ha, Es. intros u Hu. cbn in Hu. subst u. right.
        destruct Hd as [Hd|Hd]; [left; lia | right; exact Hd]. }
    destruct (u0 <? ntasks g) eqn:Eu; cbn [fst snd].
    2:{ apply Nat.ltb_ge in Eu. apply Hdrop; auto using same_wt_refl. }
    destruct (st (tw_of g u0)) eqn:Est; cbn [fst snd].
    all: try (apply Hdrop; auto using same_wt_refl; right; intros p [_ [Hw|Hw]]; rewrite Hw in Est; discriminate Est).
    + (* active: stage the helper *)
      apply Hdrop; [apply same_wt_tasks; reflexivity | reflexivity | cbn; auto |]. right.
      intros p [_ [Hw|Hw]];
        change (tw_of (add_log (stage (rc_inc g u0) (HelperBody u0 (tw_of g u0))) (EvHelp (gid g u0) (tw_of g u0))) u0) with (tw_of g u0) in Hw;
        [|rewrite Hw in Est; discriminate Est].
      left. cbn [staged stage set_staged add_log]. left. rewrite Hw. reflexivity.
    + (* suspended *) apply (keep_same g ls); auto using same_wt_refl. rewrite Ha, Es, Hso. cbn. auto.
    + (* pending_boost *) apply (keep_same g ls); auto using same_wt_refl. rewrite Ha, Es, Hso. cbn. auto.
  - (* SCas *)
    cbn in Hs. destruct Hs as [Hun Hprev].
    destruct (word_eqb (tw_of g u0) prev) eqn:Ew.
    2:{ cbn [fst snd]. apply (keep_same g ls); auto using same_wt_refl. rewrite Ha, Es, Hso. cbn. auto. }
    apply word_eqb_true in Ew.
    set (g1 := add_log (set_word g u0 (w_pending prev)) (EvWord (gid g u0) SiteSet prev (w_pending prev))).
    assert (Hgen : forall gg s', same_wt g1 gg -> ntasks gg = ntasks g -> staged gg = staged g ->
               W1 gg (upd ls a (with_sub l s'))).
    { intros gg s' Hsw Hn Hst. apply (W1_keep g ls); auto.
      - intros u p Hu [Hwk Hwd]. rewrite Hn in Hu. left. split; [exact Hu|].
        destruct (Hsw u) as (E1 & E2 & _). unfold tw_of in Hwd. rewrite E1 in Hwk. rewrite E2 in Hwd.
        destruct (Nat.eq_dec u u0) as [->|Hne].
        + unfold g1 in Hwd. cbn in Hwd. rewrite upd_same in Hwd. cbn in Hwd. destruct Hwd as [Hwd|Hwd]; discriminate Hwd.
        + unfold g1, needs_wake, tw_of in *. cbn in Hwk, Hwd. rewrite upd_other in Hwk, Hwd by assumption. tauto.
      - intros u p Hh. left. apply helper_frame with (g := g); [rewrite Hst; auto | lia | | exact Hh].
        intros h Hh' Hd Hr. destruct (Hsw h) as (_ & E2 & E3).
        destruct (Nat.eq_dec h u0) as [->|Hne].
        + exfalso. unfold runnable in Hr. rewrite Ew in Hr. destruct Hprev as [Hp|Hp], Hr as [Hr|Hr]; congruence.
        + split.
          * apply E3. unfold g1. cbn. rewrite upd_other by assumption. exact Hd.
          * unfold runnable, tw_of in *. rewrite E2. unfold g1. cbn. rewrite upd_other by assumption. exact Hr.
      - rewrite Ha, Es. intros u Hu. cbn in Hu. subst u. right. right.
        intros p [_ Hwd]. exfalso. destruct (Hsw u0) as (_ & E2 & _). unfold tw_of in Hwd. rewrite E2 in Hwd.
        unfold g1 in Hwd. cbn in Hwd. rewrite upd_same in Hwd. cbn in Hwd. destruct Hwd as [Hwd|Hwd]; discriminate Hwd. }
    destruct (sst_beq (st prev) st_suspended); cbn [fst snd].
    + destruct (match wake (tasks g u0) with Some p => negb (N.eqb (p + 1) (tag prev)) | None => true end);
        apply Hgen; auto using same_wt_refl, same_wt_add_log.
    + apply Hgen; auto using same_wt_refl.
  - (* SEnq *)
    cbn [fst snd]. apply (keep_same g ls); auto; [apply same_wt_tasks; reflexivity|].
    rewrite Ha, Es. cbn. tauto.
Qed.

(* a word change of task t by its holder: no new obligation arises, helpers other than t keep
   their state *)
Lemma keep_word g ls a l' g' t :
  ntasks g' = ntasks g -> staged g' = staged g -> t < ntasks g ->
  (forall x, x <> t -> tasks g' x = tasks g x) ->
  (forall p, needs_wake g' t p -> needs_wake g t p) ->
  (forall u prev, todo (tasks g t) = HelperBody u prev -> runnable g t ->
     todo (tasks g' t) = HelperBody u prev /\ runnable g' t) ->
  (forall u, wit_sub (sub_of (ls a)) u -> wit_sub (sub_of l') u) ->
  W1 g ls -> W1 g' (upd ls a l').
Proof.
  intros Hn Hst Ht Ho Hnw Hh Hw. apply (W1_keep g ls).
  - intros u p Hu Hnd. left. split; [lia|]. destruct (Nat.eq_dec u t) as [->|Hne]; [now apply Hnw|].
    unfold needs_wake, tw_of in *. rewrite Ho in Hnd by assumption. exact Hnd.
  - intros u p Hf. left. apply helper_frame with (g := g); [rewrite Hst; auto | lia | | exact Hf].
    intros h Hh' Hd Hr. destruct (Nat.eq_dec h t) as [->|Hne]; [now apply Hh|].
    unfold runnable, tw_of in *. rewrite Ho by assumption. auto.
  - intros u H. left. auto.
Qed.

Lemma set_todo_wt g t b x :
  wake (tasks (set_todo g t b) x) = wake (tasks g x) /\ tw (tasks (set_todo g t b) x) = tw (tasks g x).
Proof.
  cbn. unfold upd. destruct (Nat.eqb x t) eqn:E; [apply Nat.eqb_eq in E; subst; cbn|]; auto.
Qed.

Theorem step_W1 o a g ls :
  SInv g ls -> heap_ok g -> W5 g ls -> W1 g ls ->
  W1 (fst (tstep o a g (ls a))) (upd ls a (snd (tstep o a g (ls a)))).
Proof.
  intros HI HH H5 HW. assert (Hpc := i_pc _ _ _ _ HI a). specialize (H5 a).
  destruct (ls a) as [|t|t w0|t orig s|t orig ret|t orig ret cur|t|t prev|t|t|acts s] eqn:Ha; cbn [tstep].
  - (* WTop *)
    destruct (ob o).
    + destruct (nth_error (pend g) (oi o)); cbn [fst snd].
      * apply (keep_same g ls); auto using same_wt_set_pend. rewrite Ha. cbn. tauto.
      * apply (keep_same g ls); auto using same_wt_refl; rewrite Ha; cbn; tauto.
    + destruct (nth_error (staged g) (oi o)) as [b|] eqn:En; cbn [fst snd].
      * apply keep_new; auto.
        -- intros x Hx. eapply In_remove_nth; eauto.
        -- rewrite Ha. cbn. tauto.
      * destruct (term g); cbn [fst snd];
          (apply (keep_same g ls); [apply same_wt_tasks; reflexivity | reflexivity | auto | rewrite Ha; cbn; tauto | exact HW]).
  - cbn [fst snd]. apply (keep_same g ls); auto using same_wt_refl. rewrite Ha. cbn. tauto.
  - (* WLoaded *)
    destruct Hpc as [(Ht & Hw & Hp) _]. subst w0. rewrite Hp, word_eqb_refl. cbn [fst snd].
    apply (keep_word g ls) with (t := t); auto.
    + destruct (sref g t); reflexivity.
    + destruct (sref g t); reflexivity.
    + intros x Hx. destruct (sref g t); cbn; now rewrite upd_other.
    + intros p [Hwk _]. destruct (sref g t); cbn in Hwk; rewrite upd_same in Hwk; discriminate.
    + intros u prev Hd Hr. destruct (sref g t); cbn; rewrite upd_same; cbn; (split; [exact Hd|]);
        unfold runnable, tw_of; cbn; rewrite upd_same; cbn; now right.
    + rewrite Ha. cbn. tauto.
  - (* WRun *)
    destruct s as [|u|u|u prev|u].
    2-5: match goal with |- context [sub_step ?gg ?s] =>
           assert (Hs := sub_step_W1 gg ls a _ HI Ha I HW); cbn [sub_of with_sub] in Hs;
           destruct (sub_step gg s) as [g' s']; exact Hs end.
    destruct Hpc as [(Ht & Hw & Hact) _].
    unfold run_act. destruct (todo (tasks g t)) as [[|ac r]|u prev|u] eqn:Etd.
    + cbn [fst snd]. apply (keep_same g ls); auto using same_wt_refl. rewrite Ha. cbn. tauto.
    + assert (Hsw : same_wt g (set_todo g t (UserBody r))) by (eapply same_wt_set_todo_user; eauto).
      assert (Hsw' : same_wt g (self_ref (set_todo g t (UserBody r)) t)).
      { eapply same_wt_trans; [exact Hsw | apply same_wt_tasks; reflexivity]. }
      destruct ac as [| | | |b now|u|v]; cbn [fst snd].
      * apply (keep_same g ls); auto. rewrite Ha. cbn. tauto.
      * apply (keep_same g ls); auto. rewrite Ha. cbn. tauto.
      * apply (keep_same g ls); auto. rewrite Ha. cbn. tauto.
      * apply (keep_same g ls); auto.
        -- eapply same_wt_trans; [exact Hsw | apply same_wt_set_reg].
        -- rewrite Ha. cbn. tauto.
      * apply spawn_W1 with (g := g); auto.
        -- intros x Hx. rewrite tw_of_set_todo. apply (HH x Hx).
        -- rewrite Ha. cbn. tauto.
      * apply (keep_same g ls); auto. rewrite Ha. cbn. tauto.
      * apply (keep_same g ls); auto. rewrite Ha. cbn. tauto.
    + (* helper: set_active_state *)
      set (g1 := set_todo g t (HelperRun u)).
      assert (Hgen : forall gg s', same_wt g1 gg -> ntasks gg = ntasks g -> staged gg = staged g ->
                 (s' = SLoad u \/ (s' = SNone /\ forall p, prev = wA p -> ~ needs_wake g u p)) ->
                 W1 gg (upd ls a (WRun t orig s'))).
      { intros gg s' Hsw Hn Hst Hs'. apply (W1_keep g ls); auto.
        - intros x p Hx Hnd. left. rewrite Hn in Hx. split; [exact Hx|].
          destruct (Hsw x) as (E1 & E2 & _). unfold needs_wake, tw_of in *. rewrite E1, E2 in Hnd.
          unfold g1 in Hnd. destruct (set_todo_wt g t (HelperRun u) x) as [F1 F2]. rewrite F1, F2 in Hnd. exact Hnd.
        - intros x p [Hf|(h & Hh & Hd & Hr)].
          + left. left. rewrite Hst. exact Hf.
          + destruct (Nat.eq_dec h t) as [->|Hne].
            * rewrite Etd in Hd. inversion Hd; subst x prev.
              destruct Hs' as [->|[-> Hs']]; [right; left; reflexivity|].
              right. right. intros Hnd. apply (Hs' p eq_refl).
              destruct (Hsw u) as (E1 & E2 & _). unfold needs_wake, tw_of in *. rewrite E1, E2 in Hnd.
              unfold g1 in Hnd. destruct (set_todo_wt g t (HelperRun u) u) as [F1 F2]. rewrite F1, F2 in Hnd. exact Hnd.
            * left. right. exists h. destruct (Hsw h) as (_ & E2 & E3). split; [lia|]. split.
              -- apply E3. unfold g1. cbn. rewrite upd_other by assumption. exact Hd.
              -- unfold runnable, tw_of in *. rewrite E2. unfold g1. cbn. rewrite upd_other by assumption. exact Hr.
        - rewrite Ha. cbn. tauto. }
      destruct (sst_beq (st (tw_of g u)) (st prev) && negb (word_eqb (tw_of g u) prev)) eqn:Eab; cbn [fst snd].
      * apply Hgen; auto using same_wt_add_log. right. split; [reflexivity|].
        intros p -> [_ [Hwd|Hwd]]; rewrite Hwd in Eab; cbn in Eab.
        -- rewrite N.eqb_refl in Eab. discriminate.
        -- discriminate.
      * apply Hgen; auto using same_wt_refl.
    + (* helper: release of the bound id *)
      cbn [fst snd]. apply (keep_same g ls); auto.
      * eapply same_wt_trans; [|apply same_wt_rc_dec].
        apply same_wt_set_task; try reflexivity. intros u' prev' E. congruence.
      * rewrite ntasks_rc_dec. reflexivity.
      * destruct (rc_dec_view (set_todo g t (UserBody [])) u) as (_ & _ & _ & -> & _). auto.
      * rewrite Ha. cbn. tauto.
  - cbn [fst snd]. apply (keep_same g ls); auto using same_wt_refl. rewrite Ha. cbn. tauto.
  - (* WStoreC *)
    destruct Hpc as [(Ht & Hw & Hact & Hr & Hcur) _]. subst cur. subst orig.
    rewrite word_eqb_refl. cbn [fst snd]. cbv zeta. destruct (sst_beq ret st_terminated).
    all: match goal with |- W1 ?gg (upd _ _ ?ll) => apply (keep_word g ls a ll gg t) end; auto.
    all: try (intros x Hx; cbn; now rewrite upd_other).
    all: try (intros u prev Hd _; exfalso; cbn in H5; rewrite Hd in H5; exact H5).
    all: try (rewrite Ha; cbn; destruct ret; cbn; tauto).
    all: intros p [Hwk Hwd]; unfold needs_wake, tw_of in *; cbn in Hwk, Hwd; rewrite upd_same in Hwk, Hwd; cbn in Hwk, Hwd;
      (split; [exact Hwk|]); left; destruct Hwd as [Hwd|Hwd]; inversion Hwd as [[Hs Htg]];
      [ destruct Hr as [Hr|[Hr|[Hr|Hr]]]; congruence
      | assert (tag (tw (tasks g t)) = p) by lia; destruct (tw (tasks g t)) as [s0 t0]; cbn in *; subst; reflexivity ].
  - cbn [fst snd]. apply (keep_same g ls); auto using same_wt_refl. rewrite Ha. cbn. tauto.
  - (* WBoostC *)
    destruct Hpc as [(Ht & Hb) _].
    destruct (word_eqb (tw_of g t) prev) eqn:Ew; cbn [fst snd].
    + match goal with |- W1 ?gg (upd ls a ?ll) => apply (keep_word g ls a ll gg t) end; auto.
      * intros x Hx. cbn. now rewrite upd_other.
      * intros p [_ Hwd]. unfold tw_of in Hwd. cbn in Hwd. rewrite upd_same in Hwd. cbn in Hwd.
        destruct Hwd as [Hwd|Hwd]; discriminate Hwd.
      * intros u prev' Hd Hr. cbn. rewrite upd_same. cbn. split; [exact Hd|].
        unfold runnable, tw_of. cbn. rewrite upd_same. cbn. now left.
      * rewrite Ha. cbn. tauto.
    + apply (keep_same g ls); auto using same_wt_refl. rewrite Ha. cbn. tauto.
  - cbn [fst snd]. apply (keep_same g ls); auto using same_wt_push. rewrite Ha. cbn. tauto.
  - (* WRelease *)
    cbn [fst snd]. apply (keep_same g ls); auto using same_wt_rc_dec.
    + apply ntasks_rc_dec.
    + destruct (rc_dec_view g t) as (_ & _ & _ & -> & _). auto.
    + rewrite Ha. cbn. tauto.
  - (* XRun *)
    destruct s as [|u|u|u prev|u].
    2-5: match goal with |- context [sub_step ?gg ?s] =>
           assert (Hs := sub_step_W1 gg ls a _ HI Ha I HW); cbn [sub_of with_sub] in Hs;
           destruct (sub_step gg s) as [g' s']; exact Hs end.
    destruct acts as [|[| | | |b now|u|v] r]; cbn [fst snd];
      try (apply (keep_same g ls); auto using same_wt_refl; rewrite Ha; cbn; tauto).
    apply spawn_W1 with (g := g); auto using same_wt_refl. rewrite Ha. cbn. tauto.
Qed.

(* ------------------------------------------------------------------ W5: a task whose phase returned
   a state to the worker has a user body (a helper never reaches store_state with its bound
   set_active_state still pending) *)
Definition ustable (g g' : G) : Prop :=
  ntasks g <= ntasks g' /\
  forall t, t < ntasks g -> ~ In t (heap g) -> is_user (todo (tasks g t)) -> is_user (todo (tasks g' t)).
Lemma ustable_refl g : ustable g g.
Proof. split; auto. Qed.
Lemma ustable_then_same g g1 g2 :
  ustable g g1 -> tasks g2 = tasks g1 -> ntasks g2 = ntasks g1 -> ustable g g2.
Proof. intros [A1 A2] E1 E2. split; [lia|]. intros t Ht Hh Hu. rewrite E1. now apply A2. Qed.
Lemma ustable_then_new g g1 b h :
  ustable g g1 -> heap g1 = heap g -> ntasks g1 = ntasks g -> ustable g (new_task g1 b h).
Proof.
  intros [A1 A2] Eh En. split.
  - unfold new_task; cbn. destruct (nth_error (heap g1) h); lia.
  - intros t Ht Hh Hu. assert (Hne : t <> new_slot g1 h).
    { unfold new_slot. destruct (nth_error (heap g1) h) eqn:E; [|lia].
      intros ->. apply Hh. rewrite <- Eh. eapply nth_error_In; eauto. }
    unfold new_task; cbn. fold (new_slot g1 h). rewrite upd_other by assumption. now apply A2.
Qed.
Lemma ustable_set_task g t k :
  (is_user (todo k) \/ todo k = todo (tasks g t)) -> ustable g (set_task g t k).
Proof.
  intros H. split; [cbn; lia|]. intros x Hx _ Hu. cbn. unfold upd.
  destruct (Nat.eqb x t) eqn:E; [|exact Hu]. apply Nat.eqb_eq in E. subst.
  destruct H as [H|H]; [exact H | now rewrite H].
Qed.
Lemma ustable_same_tasks g g' : tasks g' = tasks g -> ntasks g' = ntasks g -> ustable g g'.
Proof. intros E1 E2. split; [lia|]. intros t Ht _ Hu. now rewrite E1. Qed.

Lemma ustable_by g g' :
  ntasks g <= ntasks g' ->
  (forall x, todo (tasks g' x) = todo (tasks g x) \/ is_user (todo (tasks g' x))) -> ustable g g'.
Proof.
  intros Hn H. split; [exact Hn|]. intros t Ht _ Hu. destruct (H t) as [E|E]; [now rewrite E | exact E].
Qed.
Ltac ust := apply ustable_by; [cbn; lia | intros x; cbn; unfold upd;
  repeat match goal with |- context [Nat.eqb x ?t] =>
    let E := fresh "E" in destruct (Nat.eqb x t) eqn:E; [apply Nat.eqb_eq in E; subst x|] end;
  rewrite ?Nat.eqb_refl; cbn; auto].

Lemma sub_step_ustable g s : ustable g (fst (sub_step g s)).
Proof.
  destruct s as [|u|u|u prev|u]; cbn [sub_step fst].
  - apply ustable_refl.
  - destruct (reg (tasks g u)); cbn [fst]; [|now apply ustable_same_tasks].
    ust.
  - destruct (u <? ntasks g); [|apply ustable_refl]. destruct (st (tw_of g u)); cbn [fst];
      try apply ustable_refl; now apply ustable_same_tasks.
  - destruct (word_eqb (tw_of g u) prev); [|apply ustable_refl].
    assert (H : ustable g (add_log (set_word g u (w_pending prev)) (EvWord (gid g u) SiteSet prev (w_pending prev)))) by ust.
    destruct (sst_beq (st prev) st_suspended); cbn [fst]; [|exact H].
    destruct (match wake (tasks g u) with Some p => negb (N.eqb (p + 1) (tag prev)) | None => true end); [|exact H].
    eapply ustable_then_same; [exact H | reflexivity | reflexivity].
  - now apply ustable_same_tasks.
Qed.

Lemma ustable_spawn g g1 b (now : bool) h :
  ustable g g1 -> heap g1 = heap g -> ntasks g1 = ntasks g ->
  ustable g (if now then new_task g1 b h else stage g1 b).
Proof.
  intros H Eh En. destruct now; [now apply ustable_then_new|].
  eapply ustable_then_same; [exact H | reflexivity | reflexivity].
Qed.

Lemma tstep_ustable o a g l : ustable g (fst (tstep o a g l)).
Proof.
  destruct l as [|t|t w0|t orig s|t orig ret|t orig ret cur|t|t prev|t|t|acts s]; cbn [tstep].
  - destruct (ob o).
    + destruct (nth_error (pend g) (oi o)); cbn [fst]; [now apply ustable_same_tasks | apply ustable_refl].
    + destruct (nth_error (staged g) (oi o)); cbn [fst].
      * apply ustable_then_new; [now apply ustable_same_tasks | reflexivity | reflexivity].
      * destruct (term g); cbn [fst]; [apply ustable_refl | now apply ustable_same_tasks].
  - apply ustable_refl.
  - destruct (st w0); try apply ustable_refl.
    + now apply ustable_same_tasks.
    + destruct (word_eqb (tw_of g t) w0); [|apply ustable_refl]. cbn [fst].
      destruct (sref g t); ust.
  - destruct s.
    2-5: match goal with |- context [sub_step ?gg ?s] =>
           assert (H := sub_step_ustable gg s); destruct (sub_step gg s); exact H end.
    unfold run_act. destruct (todo (tasks g t)) as [[|ac r]|u prev|u] eqn:Etd; [apply ustable_refl| | |].
    + assert (H1 : ustable g (set_todo g t (UserBody r))) by (apply ustable_set_task; left; exact I).
      destruct ac; cbn [fst]; try exact H1.
      * ust.
      * apply ustable_spawn; [exact H1 | reflexivity | reflexivity].
    + assert (H1 : ustable g (set_todo g t (HelperRun u))).
      { split; [cbn; lia|]. intros x Hx _ Hu. cbn. unfold upd.
        destruct (Nat.eqb x t) eqn:E; [|exact Hu]. apply Nat.eqb_eq in E. subst.
        rewrite Etd in Hu. contradiction. }
      destruct (sst_beq (st (tw_of g u)) (st prev) && negb (word_eqb (tw_of g u) prev)); cbn [fst]; [|exact H1].
      eapply ustable_then_same; [exact H1 | reflexivity | reflexivity].
    + assert (H1 : ustable g (set_todo g t (UserBody []))) by (apply ustable_set_task; left; exact I).
      cbn [fst]. eapply ustable_then_same; [exact H1 | apply rc_dec_view | apply rc_dec_view].
  - apply ustable_refl.
  - destruct (word_eqb (tw_of g t) orig); [|apply ustable_refl]. cbn [fst]. cbv zeta.
    destruct (sst_beq ret st_terminated); ust.
  - apply ustable_refl.
  - destruct (word_eqb (tw_of g t) prev); [|apply ustable_refl]. cbn [fst].
    ust.
  - now apply ustable_same_tasks.
  - apply ustable_same_tasks; apply rc_dec_view.
  - destruct s.
    2-5: match goal with |- context [sub_step ?gg ?s] =>
           assert (H := sub_step_ustable gg s); destruct (sub_step gg s); exact H end.
    destruct acts as [|ac r]; [apply ustable_refl|]. destruct ac; cbn [fst]; try apply ustable_refl.
    apply ustable_spawn; [apply ustable_refl | reflexivity | reflexivity].
Qed.

Theorem step_W5 o a g ls :
  SInv g ls -> heap_ok g -> W5 g ls ->
  W5 (fst (tstep o a g (ls a))) (upd ls a (snd (tstep o a g (ls a)))).
Proof.
  intros HI HH H5 b. destruct (Nat.eq_dec b a) as [->|Hne].
  - rewrite upd_same. specialize (H5 a). assert (Hpc := i_pc _ _ _ _ HI a).
    destruct (ls a) as [|t|t w0|t orig s|t orig ret|t orig ret cur|t|t prev|t|t|acts s] eqn:Ha; cbn [tstep].
    + destruct (ob o); [destruct (nth_error (pend g) (oi o)) | destruct (nth_error (staged g) (oi o)); [|destruct (term g)]]; exact I.
    + exact I.
    + destruct (st w0); try exact I. destruct (word_eqb (tw_of g t) w0); exact I.
    + destruct s.
      2-5: match goal with |- context [sub_step ?gg ?s] => destruct (sub_step gg s); exact I end.
      unfold run_act. destruct (todo (tasks g t)) as [[|ac r]|u prev|u] eqn:Etd; cbn [fst snd].
      * rewrite Etd. exact I.
      * destruct ac; cbn [fst snd]; try exact I; cbn; rewrite upd_same; exact I.
      * destruct (sst_beq (st (tw_of g u)) (st prev) && negb (word_eqb (tw_of g u) prev)); exact I.
      * exact I.
    + cbn [fst snd]. exact H5.
    + destruct (word_eqb (tw_of g t) orig); [|exact I]. destruct ret; exact I.
    + exact I.
    + destruct (word_eqb (tw_of g t) prev); exact I.
    + exact I.
    + exact I.
    + destruct s.
      2-5: match goal with |- context [sub_step ?gg ?s] => destruct (sub_step gg s); exact I end.
      destruct acts as [|ac r]; [exact I|]. destruct ac; exact I.
  - rewrite upd_other by assumption. specialize (H5 b). assert (Hpc := i_pc _ _ _ _ HI b).
    destruct (tstep_ustable o a g (ls a)) as [_ Hst].
    assert (Hnh : forall t, st (tw_of g t) = st_active -> ~ In t (heap g)).
    { intros t Hact Hin. destruct (HH t Hin) as [_ Ht]. congruence. }
    destruct (ls b); try exact I; destruct Hpc as [Hm _]; cbn in Hm; apply Hst; try tauto;
      apply Hnh; destruct Hm as (_ & <- & Hact & _); exact Hact.
Qed.

(* ------------------------------------------------------------------ reachable states, theorems *)
(* ------------------------------------------------------------------ the contract is weaker than
   "a suspension ends only by a wake-up issued for it" *)
Definition oP : oracle := {| oi := 0; ob := true; oh := 0 |}.
Definition oC : oracle := {| oi := 0; ob := false; oh := 0 |}.
(* thread 0: an OS thread that submits T = [Suspend] (run-now) and then resumes it; 1, 2: workers *)
Definition wit1_ext : nat -> option (list act) :=
  fun i => match i with 0 => Some [Spawn [Suspend] true; Resume 0] | _ => None end.
Definition wit1_sched : list (nat * oracle) :=
  [(0, oP); (1, oP); (1, oP); (1, oP);          (* T created; worker 1 pops it, loads, CAS -> active *)
   (0, oP); (0, oP); (0, oP);                   (* resume: T is ACTIVE and not registered: helper staged *)
   (1, oP); (1, oP); (1, oP);                   (* T suspends: store (suspended, 2) *)
   (2, oC); (2, oP); (2, oP); (2, oP);          (* worker 2 converts and starts the helper *)
   (2, oP); (2, oP); (2, oP); (2, oP)].         (* set_active_state: no abort; CAS suspended -> pending; enqueue *)

(* EvSpur u q is logged when a suspension (suspended, q) is ended although no wake-up was issued
   for the phase q-1 in which it started *)
Lemma wakeup_is_phase_scoped_refuted :
  exists sched ext u q,
    let lg := log (fst (sched_run sched ext)) in
    In (EvSpur u q) lg /\ (forall p, ~ In (EvIssue u (Some p)) lg) /\
    In u (pend (fst (sched_run sched ext))).
Proof.
  exists wit1_sched, wit1_ext, 0, 2%N. vm_compute. split; [|split].
  - tauto.
  - intros p H. repeat (destruct H as [H|H]; [discriminate H|]). exact H.
  - now left.
Qed.

(* ... and it is not even scoped to the phase in which the resume was issued: a delayed helper
   ends a suspension of a LATER phase.  T = [Yield; Suspend]; the resume is issued in phase 0
   (word (active,1)); T yields, runs phase 1 (word (active,3)), suspends (suspended,4); only then
   does the helper run: state differs from `active`, so it does not abort and wakes T. *)
Definition wit2_ext : nat -> option (list act) :=
  fun i => match i with 0 => Some [Spawn [Yield; Suspend] true; Resume 0] | _ => None end.
Definition wit2_sched : list (nat * oracle) :=
  [(0, oP); (1, oP); (1, oP); (1, oP);
   (0, oP); (0, oP); (0, oP);                   (* resume while (active,1): helper staged with prev = (active,1) *)
   (1, oP); (1, oP); (1, oP); (1, oP);          (* T yields: (pending,2), re-queued *)
   (1, oP); (1, oP); (1, oP);                   (* popped again: (active,3) *)
   (1, oP); (1, oP); (1, oP);                   (* T suspends: (suspended,4) *)
   (2, oC); (2, oP); (2, oP); (2, oP);
   (2, oP); (2, oP); (2, oP); (2, oP)].
Fixpoint split_issue (u : nat) (l : list ev) : option (list ev * list ev) :=
  match l with
  | [] => None
  | e :: r => match e with
              | EvIssue u' _ => if Nat.eqb u' u then Some ([], r)
                                else match split_issue u r with Some (a, b) => Some (e :: a, b) | None => None end
              | _ => match split_issue u r with Some (a, b) => Some (e :: a, b) | None => None end
              end
  end.
Lemma wakeup_crosses_phases_refuted :
  exists sched ext u before after,
    let lg := rev (log (fst (sched_run sched ext))) in     (* chronological *)
    split_issue u lg = Some (before, after) /\             (* the only wake-up ever issued for u ... *)
    split_issue u after = None /\
    In (EvExit u 0 1 st_pending) after /\                  (* ... is followed by the END of that phase (a yield), *)
    In (EvEnter u 1 1) after /\                            (* a new phase, *)
    In (EvExit u 1 1 st_suspended) after /\                (* its suspension, *)
    In (EvSpur u 4) after.                                 (* and that suspension is ended by the stale helper *)
Proof.
  exists wit2_sched, wit2_ext, 0. eexists. eexists. cbv zeta.
  split; [vm_compute; reflexivity|]. vm_compute. repeat split; tauto.
Qed.

(* non-vacuity of no_lost_wakeup: a registered waiter whose wake-up is issued while it is still
   active (the window "unlocked but word still active"), then suspends; the run ends stuck with
   the waiter terminated *)
Definition nv_ext : nat -> option (list act) :=
  fun i => match i with 0 => Some [Spawn [Register; Suspend] true; Resume 0] | _ => None end.
Definition nv_sched : list (nat * oracle) :=
  [(0, oP); (1, oP); (1, oP); (1, oP); (1, oP);           (* T active, registered (reg = Some 1) *)
   (0, oP); (0, oP); (0, oP);                            (* wake-up issued: wake = Some 1; T active: helper staged *)
   (1, oP); (1, oP); (1, oP)]                            (* T suspends: (suspended, 2) — wake-up pending *)
  ++ flat_map (fun _ => [(2, oC); (2, oP); (1, oP)]) (seq 0 12).
