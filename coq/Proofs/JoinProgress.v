(* Proofs/JoinProgress.v — C13 join_returns (safety form): in every reachable stuck state of the
   fixed code (lp = true, pf = true) no task is blocked in join(); with acyclic targets every task
   is PDone.  Covers the three orders of the target's exit-callback run versus the joiner's
   add_thread_exit_callback / suspend (refused: ran||terminated seen under the target's lock;
   callback invoked between the registration and the suspension: the resume leaves a token or the
   re-check of the flag sees it; normal wake-up), spurious returns of the suspension at any
   time (AResume / stale PCbRes / PIntrWake by anybody), and — session c13e — joiners that are
   interrupted inside join(), catch thread_interrupted (ACatch) and join AGAIN while their stale
   callback (with its own flag) is still registered, at any point of the target's exit loop.
   No hypothesis on the number of handles/joiners per target is needed any more: with the second
   fix (pf) every registered callback is taken out of the list under the lock and invoked once.
   Structure: [jeff] summarises one step; [JInv] is preserved by every effect. *)
From Coq Require Import List Arith Bool Lia.
From Pika Require Import Base.Conc Base.Agent Model.Join Proofs.JoinProofs.
Import ListNotations.

Definition joinpc (p : pcs) : option nat :=
  match p with
  | PJoinIP k _ | PJoinAdd k _ | PJoinChk k _ _ | PJoinSusp k _ | PJoinWake k _ | PJoinDet k _ => Some k
  | _ => None end.
Definition waitpc (p : pcs) : option nat :=
  match p with PJoinChk k _ _ | PJoinSusp k _ | PJoinWake k _ => Some k | _ => None end.
Definition issusp (p : pcs) : bool := match p with PJoinSusp _ _ => true | _ => false end.
Definition iswake (p : pcs) : bool := match p with PJoinWake _ _ => true | _ => false end.
(* the exit loop is over: the task will not look at its callback list again *)
Definition postcb (p : pcs) : bool := match p with PFree | PTerm | PDone => true | _ => false end.
Definition plain (p : pcs) : bool :=
  match p with PBody | PDtorStop _ | PDtorJoin _ | PIntrWake _ => true | _ => false end.

Section Prog.
  Variable tgt : nat -> nat -> nat.
  Notation tstep := (tstep true true tgt).

  Definition jchg (g g' : G) (h : nat -> nat -> bool) (c : nat -> list (nat * nat)) (r tm : nat -> bool)
             (f : nat -> nat -> nat -> bool) (a : nat -> agent_state) (gn : nat -> nat) : Prop :=
    hid g' = h /\ cbs g' = c /\ ran g' = r /\ term g' = tm /\ flag g' = f /\ ag g' = a /\ gen g' = gn.

  Inductive jeff (t : nat) (g : G) (l : L) (g' : G) (l' : L) : Prop :=
  | JE_stutter : g' = g -> l' = l -> jeff t g l g' l'
  | JE_plain h a : plain (pc l) = true -> plain (pc l') = true -> ~ (pc l = PBody /\ prog l = []) ->
      (forall x y, h x y = true -> hid g x y = true) -> (forall x y, x <> t -> h x y = hid g x y) ->
      (a = ag g \/ (exists x, a = set1 (ag g) x (a_resume (ag g x))) \/ a = set1 (ag g) t (a_phase_end (ag g t))) ->
      jchg g g' h (cbs g) (ran g) (term g) (flag g) a (gen g) -> jeff t g l g' l'
  | JE_start k d : plain (pc l) = true -> ~ (pc l = PBody /\ prog l = []) -> pc l' = PJoinIP k d -> hid g t k = true -> tgt t k <> t ->
      jchg g g' (hid g) (cbs g) (ran g) (term g) (flag g) (ag g) (gen g) -> jeff t g l g' l'
  (* an exception leaves the current operation: thread_interrupted (caught or not), join errors in ~jthread *)
  | JE_ended : in_exit (pc l) = false -> pc l <> PIdle -> ~ (pc l = PBody /\ prog l = []) -> pc l' = PBody ->
      jchg g g' (hid g) (cbs g) (ran g) (term g) (flag g) (ag g) (gen g) -> jeff t g l g' l'
  | JE_ip k d : pc l = PJoinIP k d -> pc l' = PJoinAdd k d ->
      jchg g g' (hid g) (cbs g) (ran g) (term g) (flag g) (ag g) (gen g) -> jeff t g l g' l'
  | JE_add_ref k d : pc l = PJoinAdd k d -> pc l' = PJoinDet k d ->
      jchg g g' (hid g) (cbs g) (ran g) (term g) (flag g) (ag g) (gen g) -> jeff t g l g' l'
  | JE_add_push k d : pc l = PJoinAdd k d -> pc l' = PJoinChk k d false ->
      ran g (tgt t k) = false -> term g (tgt t k) = false ->
      jchg g g' (hid g) (set1 (cbs g) (tgt t k) ((t, S (gen g t)) :: cbs g (tgt t k))) (ran g) (term g)
           (set3 (flag g) t (tgt t k) (S (gen g t)) false) (ag g) (set1 (gen g) t (S (gen g t))) -> jeff t g l g' l'
  | JE_chk_det k d w : pc l = PJoinChk k d w -> pc l' = PJoinDet k d -> flag g t (tgt t k) (gen g t) = true ->
      jchg g g' (hid g) (cbs g) (ran g) (term g) (flag g) (ag g) (gen g) -> jeff t g l g' l'
  | JE_chk_susp k d w : pc l = PJoinChk k d w -> pc l' = PJoinSusp k d -> flag g t (tgt t k) (gen g t) = false ->
      jchg g g' (hid g) (cbs g) (ran g) (term g) (flag g) (ag g) (gen g) -> jeff t g l g' l'
  | JE_susp k d : pc l = PJoinSusp k d -> pc l' = PJoinWake k d ->
      jchg g g' (hid g) (cbs g) (ran g) (term g) (flag g) (set1 (ag g) t (fst (a_suspend (ag g t)))) (gen g) -> jeff t g l g' l'
  | JE_wake k d : pc l = PJoinWake k d -> pc l' = PJoinChk k d true ->
      jchg g g' (hid g) (cbs g) (ran g) (term g) (flag g) (ag g) (gen g) -> jeff t g l g' l'
  | JE_det k d : pc l = PJoinDet k d -> pc l' = PBody ->
      jchg g g' (set2 (hid g) t k false) (cbs g) (ran g) (term g) (flag g) (ag g) (gen g) -> jeff t g l g' l'
  | JE_bodydone : pc l = PBody -> prog l = [] -> pc l' = PExit ->
      jchg g g' (hid g) (cbs g) (ran g) (term g) (flag g) (ag g) (gen g) -> jeff t g l g' l'
  (* the locked part of the exit loop: first entry (PExit) or after a callback (PCbPop) *)
  | JE_loop_empty : (pc l = PExit \/ pc l = PCbPop) -> cbs g t = [] -> pc l' = PFree ->
      jchg g g' (hid g) (cbs g) (set1 (ran g) t true) (term g) (flag g) (ag g) (gen g) -> jeff t g l g' l'
  | JE_loop_pop j c r : (pc l = PExit \/ pc l = PCbPop) -> cbs g t = (j, c) :: r -> pc l' = PCbRun j c ->
      jchg g g' (hid g) (set1 (cbs g) t r) (ran g) (term g) (flag g) (ag g) (gen g) -> jeff t g l g' l'
  | JE_run j c : pc l = PCbRun j c -> pc l' = PCbRes j ->
      jchg g g' (hid g) (cbs g) (ran g) (term g) (set3 (flag g) j t c true) (ag g) (gen g) -> jeff t g l g' l'
  | JE_res j : pc l = PCbRes j -> pc l' = PCbPop ->
      jchg g g' (hid g) (cbs g) (ran g) (term g) (flag g) (set1 (ag g) j (a_resume (ag g j))) (gen g) -> jeff t g l g' l'
  | JE_free : pc l = PFree -> pc l' = PTerm ->
      jchg g g' (hid g) (set1 (cbs g) t []) (ran g) (term g) (flag g) (ag g) (gen g) -> jeff t g l g' l'
  | JE_term : pc l = PTerm -> pc l' = PDone ->
      jchg g g' (hid g) (cbs g) (ran g) (set1 (term g) t true) (flag g) (set1 (ag g) t (a_phase_end (ag g t))) (gen g) ->
      jeff t g l g' l'.

  Ltac jc := unfold jchg; proj; repeat split; reflexivity.
  Ltac jplain Hpc :=
    eapply JE_plain; try rewrite Hpc; try reflexivity;
    [ .. | jc ]; proj; eauto; try (let X := fresh in intros [_ X]; congruence); try (let X := fresh in intros [X _]; congruence).

  Lemma ipoint_jchg p t g g' : ipoint_step p t g = Some g' ->
    jchg g g' (hid g) (cbs g) (ran g) (term g) (flag g) (ag g) (gen g).
  Proof.
    unfold ipoint_step. destruct (en g t && req g t); [|discriminate]. intros H. inversion H; subst. jc.
  Qed.

  (* every non-stutter step is taken by an unblocked task; PCbCall belongs to the code before the
     second fix and is never reached with pf = true (JInv.k9) *)
  Lemma tstep_jeff t g l : pc l <> PCbCall ->
    jeff t g l (fst (tstep tt t g l)) (snd (tstep tt t g l)) /\
    (blocked (ag g t) = true -> tstep tt t g l = (g, l)).
  Proof.
    intros Hncall.
    unfold Join.tstep. destruct (blocked (ag g t)) eqn:Hb; [split; [now apply JE_stutter|reflexivity]|].
    split; [|discriminate].
    destruct (pc l) eqn:Hpc; try (now apply JE_stutter); try congruence.
    - (* PBody *)
      destruct (prog l) as [|a rest] eqn:Hprog.
      { eapply JE_bodydone; eauto. jc. }
      assert (Hne : ~ (pc l = PBody /\ prog l = [])) by (intros [_ E]; congruence).
      destruct a; proj.
      + jplain Hpc.
      + jplain Hpc.
      + jplain Hpc.
      + unfold join_check. destruct (hid g t k) eqn:Hh; cbn [negb].
        * destruct (Nat.eqb (tgt t k) t) eqn:He; proj.
          -- jplain Hpc.
          -- apply Nat.eqb_neq in He. eapply JE_start; eauto; try (rewrite Hpc; reflexivity); try jc; try (let X := fresh in intros [X _]; congruence).
        * proj. jplain Hpc.
      + eapply (JE_plain _ _ _ _ _ (set2 (hid g) t k false) (ag g)); eauto; try rewrite Hpc; try reflexivity; try jc.
        * intros x y Hab. now apply set2_false_true in Hab.
        * intros x y Hx. apply set2_other. now left.
      + jplain Hpc.
      + destruct (hid g t k); proj; jplain Hpc.
      + jplain Hpc.
      + destruct (en g u); proj; jplain Hpc.
      + destruct (ipoint_step IPExplicit t g) eqn:E; proj.
        * eapply JE_ended; eauto; try rewrite Hpc; try reflexivity; try discriminate. eapply ipoint_jchg; eauto.
        * jplain Hpc.
      + jplain Hpc.
      + jplain Hpc.
    - (* PDtorStop *) proj. jplain Hpc.
    - (* PDtorJoin *)
      unfold join_check. destruct (hid g t k) eqn:Hh; cbn [negb].
      + destruct (Nat.eqb (tgt t k) t) eqn:He; proj.
        * eapply JE_ended; eauto; try rewrite Hpc; try reflexivity; try discriminate; [intros [E _]; congruence|jc].
        * apply Nat.eqb_neq in He. eapply JE_start; eauto; try (rewrite Hpc; reflexivity); try jc; try (let X := fresh in intros [X _]; congruence).
      + proj. eapply JE_ended; eauto; try rewrite Hpc; try reflexivity; try discriminate; [intros [E _]; congruence|jc].
    - (* PJoinIP *)
      destruct (ipoint_step IPJoinEntry t g) eqn:E; proj.
      + eapply JE_ended; eauto; try rewrite Hpc; try reflexivity; try discriminate; try apply thrown_pc; [intros [E' _]; congruence|eapply ipoint_jchg; eauto].
      + eapply JE_ip; eauto. jc.
    - (* PJoinAdd *)
      destruct (ran g (tgt t k) || term g (tgt t k)) eqn:Hrt; proj.
      + eapply JE_add_ref; eauto. jc.
      + apply orb_false_iff in Hrt. destruct Hrt. eapply JE_add_push; eauto. jc.
    - (* PJoinChk *)
      destruct (flag g t (tgt t k) (gen g t)) eqn:Hf; proj.
      + eapply JE_chk_det; eauto. jc.
      + eapply JE_chk_susp; eauto. jc.
    - (* PJoinSusp *)
      destruct (ipoint_step IPSuspendPre t g) eqn:E; proj.
      + eapply JE_ended; eauto; try rewrite Hpc; try reflexivity; try discriminate; try apply thrown_pc; [intros [E' _]; congruence|eapply ipoint_jchg; eauto].
      + eapply JE_susp; eauto. jc.
    - (* PJoinWake *)
      destruct (ipoint_step IPSuspendPost t g) eqn:E; proj.
      + eapply JE_ended; eauto; try rewrite Hpc; try reflexivity; try discriminate; try apply thrown_pc; [intros [E' _]; congruence|eapply ipoint_jchg; eauto].
      + eapply JE_wake; eauto. jc.
    - (* PJoinDet *)
      proj. eapply JE_det; eauto. destruct d; jc.
    - (* PIntrWake *) proj. jplain Hpc.
    - (* PExit *)
      destruct (cbs g t) as [|[j c] r] eqn:Hc; proj.
      + eapply JE_loop_empty; eauto. jc.
      + eapply JE_loop_pop; eauto. jc.
    - (* PCbRes *) proj. eapply JE_res; eauto. jc.
    - (* PCbPop *)
      destruct (cbs g t) as [|[j c] r] eqn:Hc; proj.
      + eapply JE_loop_empty; eauto. jc.
      + eapply JE_loop_pop; eauto. jc.
    - (* PFree *) proj. eapply JE_free; eauto. jc.
    - (* PTerm *) proj. eapply JE_term; eauto. jc.
    - (* PCbRun *) proj. eapply JE_run; eauto. jc.
  Qed.
End Prog.

Section JInv.
  Variable tgt : nat -> nat -> nat.
  Variable h0 : nat -> nat -> bool.
  Variable n : nat.

  (* joiner t (waiting on handle k, target u, in its registration number c = gen t — the FIRST join
     or a repeated one): it is, or is about to be, woken with the flag set; or this registration is
     still in the target's list and the target's exit loop is not over; or the target has taken
     exactly this entry out of the list and is about to invoke it; or the target has set the flag
     and is about to resume t.  Stale registrations (t, c') with c' < c play no role. *)
  Definition Jst (g : G) (ls : locals L) (t k : nat) : Prop :=
    let u := tgt t k in let c := gen g t in
    (flag g t u c = true /\ blocked (ag g t) = false /\ (issusp (pc (ls t)) = true -> tok (ag g t) = true)) \/
    (In (t, c) (cbs g u) /\ postcb (pc (ls u)) = false) \/
    pc (ls u) = PCbRun t c \/
    (pc (ls u) = PCbRes t /\ flag g t u c = true).

  Record JInv (g : G) (ls : locals L) : Prop := {
    k1 : forall t k, hid g t k = true -> h0 t k = true;
    k2 : forall t k, joinpc (pc (ls t)) = Some k -> hid g t k = true /\ tgt t k <> t;
    k3 : forall t, t < n -> pc (ls t) <> PIdle;
    k4 : forall t, blocked (ag g t) = true -> iswake (pc (ls t)) = true;
    k7 : forall u, postcb (pc (ls u)) = true -> ran g u = true;
    k8 : forall t k, waitpc (pc (ls t)) = Some k -> Jst g ls t k;
    k9 : forall t, pc (ls t) <> PCbCall }.

  Lemma upd_prog (ls : locals L) t l x : prog (upd ls t l x) = if Nat.eqb x t then prog l else prog (ls x).
  Proof. unfold upd. now destruct (Nat.eqb x t). Qed.

  Ltac updc x t := rewrite ?upd_pc, ?upd_prog in *; destruct (Nat.eqb_spec x t); subst.

  Ltac djeff He := destruct He as
    [ Eg El
    | h a Hpl Hpl' Hne Hhm Hhf Hag Hj
    | k d Hpl Hne Hpc' Hhid Htg Hj
    | Hex Hni Hne Hpc' Hj
    | k d Hpc Hpc' Hj
    | k d Hpc Hpc' Hj
    | k d Hpc Hpc' Hran Hterm Hj
    | k d w Hpc Hpc' Hfl Hj
    | k d w Hpc Hpc' Hfl Hj
    | k d Hpc Hpc' Hj
    | k d Hpc Hpc' Hj
    | k d Hpc Hpc' Hj
    | Hpc Hprog Hpc' Hj
    | Hpc Hcb Hpc' Hj
    | j c r Hpc Hcb Hpc' Hj
    | j c Hpc Hpc' Hj
    | j Hpc Hpc' Hj
    | Hpc Hpc' Hj
    | Hpc Hpc' Hj ];
    [ subst | destruct Hj as (Eh & Ec & Er & Et & Ef & Ea & Egn) .. ].

  (* facts shared by all effects *)
  Lemma jeff_hid t g l g' l' : jeff tgt t g l g' l' ->
    (forall a b, hid g' a b = true -> hid g a b = true) /\ (forall a b, a <> t -> hid g' a b = hid g a b).
  Proof.
    intros He. djeff He; try rewrite Eh; auto.
    - split; [intros a b; apply set2_false_true|]. intros a b Hn. apply set2_other. now left.
  Qed.

  Lemma jeff_pc t g l g' l' : jeff tgt t g l g' l' -> pc l <> PIdle -> pc l' <> PIdle.
  Proof.
    intros He Hn. djeff He; auto;
      try match goal with H : pc l' = _ |- _ => rewrite H; discriminate end.
    destruct (pc l'); try discriminate.
  Qed.

  Lemma jeff_ncall t g l g' l' : jeff tgt t g l g' l' -> pc l <> PCbCall -> pc l' <> PCbCall.
  Proof.
    intros He Hn. djeff He; auto;
      try match goal with H : pc l' = _ |- _ => rewrite H; discriminate end.
    destruct (pc l'); try discriminate.
  Qed.

  Lemma upd_self (ls : locals L) t x : upd ls t (ls t) x = ls x.
  Proof. unfold upd. destruct (Nat.eqb_spec x t); subst; reflexivity. Qed.

  Lemma plain_joinpc p : plain p = true -> joinpc p = None /\ in_exit p = false /\ postcb p = false /\
    waitpc p = None /\ iswake p = false /\ p <> PIdle.
  Proof. destruct p; cbn; try discriminate; intros _; repeat split; discriminate. Qed.

  Lemma P_k2 t g ls g' l' : JInv g ls -> jeff tgt t g (ls t) g' l' ->
    forall x k, joinpc (pc (upd ls t l' x)) = Some k -> hid g' x k = true /\ tgt x k <> x.
  Proof.
    intros I He. pose proof (jeff_hid _ _ _ _ _ He) as [_ Hfr]. pose proof (k2 _ _ I) as K2.
    assert (Hoth : forall x k, x <> t -> joinpc (pc (ls x)) = Some k -> hid g' x k = true /\ tgt x k <> x).
    { intros x k Hx E. rewrite Hfr by auto. auto. }
    djeff He; intros x k0; try (rewrite upd_self; apply K2);
      updc x t; auto; try rewrite Hpc'; cbn; try discriminate;
      try (intros E; inversion E; subst; rewrite Eh; first [apply K2; rewrite Hpc; reflexivity | split; assumption]).
    - destruct (plain_joinpc _ Hpl') as [E _]. rewrite E. discriminate.
  Qed.

  Lemma P_k3 t g ls g' l' : JInv g ls -> jeff tgt t g (ls t) g' l' ->
    forall x, x < n -> pc (upd ls t l' x) <> PIdle.
  Proof.
    intros I He x Hx. updc x t; [|now apply (k3 _ _ I)].
    eapply jeff_pc; eauto. now apply (k3 _ _ I).
  Qed.

  Lemma P_k9 t g ls g' l' : JInv g ls -> jeff tgt t g (ls t) g' l' ->
    forall x, pc (upd ls t l' x) <> PCbCall.
  Proof.
    intros I He x. updc x t; [|now apply (k9 _ _ I)].
    eapply jeff_ncall; eauto. now apply (k9 _ _ I).
  Qed.

  Lemma P_k4 t g ls g' l' : JInv g ls -> jeff tgt t g (ls t) g' l' -> blocked (ag g t) = false ->
    forall x, blocked (ag g' x) = true -> iswake (pc (upd ls t l' x)) = true.
  Proof.
    intros I He Hb. pose proof (k4 _ _ I) as K4.
    djeff He; intros x; try (rewrite upd_self; apply K4); rewrite Ea;
      try (intros Hx; updc x t; [congruence|now apply K4]).
    - (* plain *)
      destruct Hag as [->|[[y ->]| ->]].
      + intros Hx; updc x t; [congruence|now apply K4].
      + unfold set1. destruct (Nat.eqb_spec x y); [cbn; discriminate|].
        intros Hx; updc x t; [congruence|now apply K4].
      + unfold set1. destruct (Nat.eqb_spec x t); [subst; cbn; congruence|].
        intros Hx. updc x t; [congruence|now apply K4].
    - (* suspend *)
      unfold set1. destruct (Nat.eqb_spec x t); [subst; intros _; rewrite upd_pc, Nat.eqb_refl, Hpc'; reflexivity|].
      intros Hx. updc x t; [congruence|now apply K4].
    - (* resume *)
      unfold set1. destruct (Nat.eqb_spec x j); [cbn; discriminate|].
      intros Hx; updc x t; [congruence|now apply K4].
    - (* term *)
      unfold set1. destruct (Nat.eqb_spec x t); [subst; cbn; congruence|].
      intros Hx. updc x t; [congruence|now apply K4].
  Qed.

  Lemma P_k7 t g ls g' l' : JInv g ls -> jeff tgt t g (ls t) g' l' ->
    forall u, postcb (pc (upd ls t l' u)) = true -> ran g' u = true.
  Proof.
    intros I He. pose proof (k7 _ _ I) as K7.
    djeff He; intros u; try (rewrite upd_self; apply K7); rewrite Er;
      try (updc u t; [try rewrite Hpc'; cbn; try discriminate|apply K7]).
    - destruct (plain_joinpc _ Hpl') as (_ & _ & E & _). rewrite E. discriminate.
    - updc u t; [intros _; apply set1_same|]. intros Hu. rewrite set1_other by auto. now apply K7.
    - intros _. apply K7. rewrite Hpc. reflexivity.
    - intros _. apply K7. rewrite Hpc. reflexivity.
  Qed.

  Lemma flag_keep t g l g' l' x u c0 : jeff tgt t g l g' l' -> x <> t -> flag g x u c0 = true -> flag g' x u c0 = true.
  Proof.
    intros He Hx Hf. djeff He; auto; rewrite Ef; auto.
    - rewrite set3_other; auto.
    - apply set3_true. auto.
  Qed.

  Lemma gen_keep t g l g' l' x : jeff tgt t g l g' l' -> x <> t -> gen g' x = gen g x.
  Proof.
    intros He Hx. djeff He; auto; rewrite Egn; auto. now rewrite set1_other.
  Qed.

  Lemma ag_keep t g l g' l' x : jeff tgt t g l g' l' -> x <> t -> blocked (ag g x) = false ->
    blocked (ag g' x) = false /\ (tok (ag g x) = true -> tok (ag g' x) = true).
  Proof.
    intros He Hx Hb. djeff He; auto; rewrite Ea; auto.
    - destruct Hag as [->|[[y ->]| ->]]; auto.
      + unfold set1. destruct (Nat.eqb_spec x y); [subst; cbn; rewrite Hb; auto|auto].
      + rewrite set1_other by auto. auto.
    - rewrite set1_other by auto. auto.
    - unfold set1. destruct (Nat.eqb_spec x j); [subst; cbn; rewrite Hb; auto|auto].
    - rewrite set1_other by auto. auto.
  Qed.

  (* the list of another task only grows *)
  Lemma cbs_keep t g l g' l' u e : jeff tgt t g l g' l' -> u <> t -> In e (cbs g u) -> In e (cbs g' u).
  Proof.
    intros He Hu Hin. djeff He; auto; rewrite Ec; auto; try (rewrite set1_other by auto; exact Hin).
    unfold set1. destruct (Nat.eqb_spec u (tgt t k)); [subst; now right|exact Hin].
  Qed.

  Lemma waitpc_joinpc p k : waitpc p = Some k -> joinpc p = Some k.
  Proof. destruct p; cbn; congruence. Qed.

  Lemma postcb_false_of_ran g ls u : JInv g ls -> ran g u = false -> postcb (pc (ls u)) = false.
  Proof.
    intros I Hr. destruct (postcb (pc (ls u))) eqn:E; [|reflexivity]. apply (k7 _ _ I) in E. congruence.
  Qed.

  Lemma P_k8 t g ls g' l' : JInv g ls -> jeff tgt t g (ls t) g' l' -> blocked (ag g t) = false ->
    forall x k, waitpc (pc (upd ls t l' x)) = Some k -> Jst g' (upd ls t l') x k.
  Proof.
    intros I He Hb x k0 Hw. pose proof He as He'.
    destruct (P_k2 _ _ _ _ _ I He x k0 (waitpc_joinpc _ _ Hw)) as [_ Hself].
    revert Hw. unfold Jst. rewrite !upd_pc. destruct (Nat.eqb_spec x t) as [->|Hx].
    - (* the joiner itself steps *)
      destruct (Nat.eqb_spec (tgt t k0) t) as [E|_]; [congruence|].
      pose proof (k8 _ _ I t) as K8. unfold Jst in K8.
      djeff He; try rewrite Hpc'; cbn; try discriminate.
      + intros Hw. apply K8. exact Hw.
      + destruct (plain_joinpc _ Hpl') as (_ & _ & _ & E & _). congruence.
      + (* push: this registration is in the list and the target has not finished its loop *)
        intros Hk; inversion Hk; subst k0. right. left. rewrite Ec, Egn, !set1_same. split; [now left|].
        eapply postcb_false_of_ran; eauto.
      + (* flag not set: suspend next *)
        intros Hk; inversion Hk; subst k0. specialize (K8 k). rewrite Hpc in K8. specialize (K8 eq_refl).
        rewrite Ec, Ef, Ea, Egn. destruct K8 as [(F & _)|K8]; [congruence|right; exact K8].
      + (* suspend *)
        intros Hk; inversion Hk; subst k0. specialize (K8 k). rewrite Hpc in K8. specialize (K8 eq_refl).
        rewrite Ec, Ef, Ea, Egn, set1_same. destruct K8 as [(F & B & S)|K8]; [left|right; exact K8].
        cbn in S. specialize (S eq_refl). unfold a_suspend. rewrite S. cbn. repeat split; auto; discriminate.
      + (* woken *)
        intros Hk; inversion Hk; subst k0. specialize (K8 k). rewrite Hpc in K8. specialize (K8 eq_refl).
        rewrite Ec, Ef, Ea, Egn. destruct K8 as [(F & B & S)|K8]; [left|right; exact K8].
        repeat split; auto; discriminate.
    - (* another task steps *)
      intros Hw. pose proof (k8 _ _ I x k0 Hw) as J. unfold Jst in J.
      rewrite (gen_keep _ _ _ _ _ x He Hx).
      set (cx := gen g x) in *. set (u := tgt x k0) in *.
      assert (Hkeep : flag g x u cx = true /\ blocked (ag g x) = false /\ (issusp (pc (ls x)) = true -> tok (ag g x) = true) ->
                      flag g' x u cx = true /\ blocked (ag g' x) = false /\ (issusp (pc (ls x)) = true -> tok (ag g' x) = true)).
      { intros (F & B & S). destruct (ag_keep _ _ _ _ _ x He Hx B) as [B' T']. split; [eapply flag_keep; eauto|]. split; auto. }
      destruct (Nat.eqb_spec u t) as [Eu|Hu].
      + (* the stepping task is the target *)
        rewrite Eu in *.
        destruct J as [J|[(C & P)|[P|(P & F)]]]; [left; now apply Hkeep| | |].
        * (* registered, the loop is not over *)
          assert (Hsame : cbs g' t = cbs g t -> postcb (pc l') = false ->
                          (flag g' x t cx = true /\ blocked (ag g' x) = false /\ (issusp (pc (ls x)) = true -> tok (ag g' x) = true)) \/
                          (In (x, cx) (cbs g' t) /\ postcb (pc l') = false) \/ pc l' = PCbRun x cx \/ (pc l' = PCbRes x /\ flag g' x t cx = true)).
          { intros E1 E2. right. left. split; congruence. }
          djeff He; try (rewrite Hpc in P; discriminate);
            try (solve [apply Hsame; [try rewrite Ec; reflexivity|try rewrite Hpc'; reflexivity]]).
          -- apply Hsame; auto.
          -- apply Hsame; [rewrite Ec; reflexivity|]. destruct (plain_joinpc _ Hpl') as (_ & _ & E & _). exact E.
          -- apply Hsame; [|rewrite Hpc'; reflexivity]. rewrite Ec.
             destruct (k2 _ _ I t k) as [_ Hs]; [rewrite Hpc; reflexivity|]. rewrite set1_other by auto. reflexivity.
          -- rewrite Hcb in C. destruct C.
          -- rewrite Hcb in C. destruct C as [C|C].
             ++ inversion C; subst. right. right. left. exact Hpc'.
             ++ right. left. rewrite Ec, set1_same, Hpc'. split; [exact C|reflexivity].
        * (* taken out of the list, not yet invoked *)
          djeff He; try (rewrite Hpc in P; discriminate); try (destruct Hpc as [Hpc|Hpc]; rewrite Hpc in P; discriminate).
          -- right. right. left. exact P.
          -- destruct (plain_joinpc _ Hpl) as (_ & E & _). rewrite P in E. discriminate.
          -- destruct (plain_joinpc _ Hpl) as (_ & E & _). rewrite P in E. discriminate.
          -- rewrite P in Hex. discriminate.
          -- rewrite Hpc in P. inversion P; subst. right. right. right. split; [exact Hpc'|]. rewrite Ef. apply set3_same.
        * (* flag set, resume pending *)
          djeff He; try (rewrite Hpc in P; discriminate); try (destruct Hpc as [Hpc|Hpc]; rewrite Hpc in P; discriminate).
          -- right. right. right. auto.
          -- destruct (plain_joinpc _ Hpl) as (_ & E & _). rewrite P in E. discriminate.
          -- destruct (plain_joinpc _ Hpl) as (_ & E & _). rewrite P in E. discriminate.
          -- rewrite P in Hex. discriminate.
          -- rewrite Hpc in P. inversion P; subst j. left. rewrite Ef, Ea, set1_same. split; [exact F|]. split; [reflexivity|].
             intros Hs. cbn. destruct (blocked (ag g x)) eqn:Bx; [|reflexivity].
             apply (k4 _ _ I) in Bx. destruct (pc (ls x)); discriminate.
      + (* unrelated *)
        destruct J as [J|[(C & P)|[P|(P & F)]]]; [left; now apply Hkeep| | |].
        * right. left. split; [|exact P]. eapply cbs_keep; eauto.
        * right. right. left. exact P.
        * right. right. right. split; [exact P|]. eapply flag_keep; eauto.
  Qed.

  Lemma JInv_upd_self g ls t : JInv g ls -> JInv g (upd ls t (ls t)).
  Proof.
    intros I. destruct I as [i1 i2 i3 i4 i7 i8 i9]. constructor; intros *; rewrite ?upd_self; auto.
    - intros Hw. specialize (i8 _ _ Hw). unfold Jst in *. rewrite !upd_self. exact i8.
  Qed.

  Lemma JInv_step t g ls : JInv g ls ->
    JInv (fst (tstep true true tgt tt t g (ls t))) (upd ls t (snd (tstep true true tgt tt t g (ls t)))).
  Proof.
    intros I. destruct (tstep_jeff tgt t g (ls t) (k9 _ _ I t)) as [He Hst].
    destruct (blocked (ag g t)) eqn:Hb.
    - rewrite (Hst eq_refl). cbn [fst snd]. now apply JInv_upd_self.
    - constructor.
      + intros x k Hh. apply (k1 _ _ I). now apply (proj1 (jeff_hid _ _ _ _ _ He)).
      + eapply P_k2; eauto.
      + eapply P_k3; eauto.
      + eapply P_k4; eauto.
      + eapply P_k7; eauto.
      + eapply P_k8; eauto.
      + eapply P_k9; eauto.
  Qed.

  Lemma JInv_init progs : JInv (g_init h0) (l_init n progs).
  Proof.
    constructor; cbn; auto; try discriminate.
    - intros t k. unfold l_init. destruct (Nat.ltb t n); cbn; discriminate.
    - intros t Ht. unfold l_init. apply Nat.ltb_lt in Ht. rewrite Ht. cbn. discriminate.
    - intros u. unfold l_init. destruct (Nat.ltb u n); cbn; discriminate.
    - intros t k. unfold l_init. destruct (Nat.ltb t n); cbn; discriminate.
    - intros t. unfold l_init. destruct (Nat.ltb t n); cbn; discriminate.
  Qed.

  Lemma JInv_run progs sched : let c := jrun true true tgt h0 n progs sched in JInv (fst c) (snd c).
  Proof.
    unfold jrun. apply (run_inv _ _ _ (tstep true true tgt) JInv).
    - intros [] t g ls I. now apply JInv_step.
    - apply JInv_init.
  Qed.
End JInv.

Section Returns.
  Variable tgt : nat -> nat -> nat.
  Variable h0 : nat -> nat -> bool.
  Variable n : nat.

  Lemma after_catch_len p : length (after_catch p) <= length p.
  Proof. induction p as [|a r IH]; cbn; [lia|]. destruct a; cbn; lia. Qed.

  (* a task whose step is a stutter is blocked, not a task, or done *)
  Lemma stuck_task t g l : pc l <> PCbCall ->
    tstep true true tgt tt t g l = (g, l) -> blocked (ag g t) = true \/ pc l = PIdle \/ pc l = PDone.
  Proof.
    intros Hnc. unfold tstep. destruct (blocked (ag g t)); [auto|]. intros Hst. right.
    destruct (pc l) eqn:Hpc; auto; try congruence; exfalso;
      [destruct (prog l) as [|a rest] eqn:Hprog; [|destruct a]| ..];
      unfold ipoint_step, join_check, thrown, unwind, ended in Hst;
      repeat match type of Hst with
             | context [match ?x with _ => _ end] => destruct x eqn:?
             | context [if ?b then _ else _] => destruct b eqn:?
             end;
      apply (f_equal (fun r => (pc (snd r), length (prog (snd r))))) in Hst; cbn in Hst; rewrite ?Hpc, ?Hprog in Hst; cbn in Hst;
      inversion Hst; try lia.
    - pose proof (after_catch_len rest). lia.
  Qed.

  (* The registration of a waiting joiner is never lost — in EVERY reachable state, whether this is
     the joiner's first join or a join repeated after thread_interrupted left an earlier one. *)
  Theorem rejoin_registration_not_lost progs sched :
    let c := jrun true true tgt h0 n progs sched in
    forall t k, waitpc (pc (snd c t)) = Some k -> Jst tgt (fst c) (snd c) t k.
  Proof.
    intros c t k Hw. pose proof (JInv_run tgt h0 n progs sched) as I. cbv zeta in I. fold c in I.
    now apply (k8 _ _ _ _ _ I).
  Qed.

  (* W: a task blocked in a stuck state sits in join()'s suspension on a valid handle whose
     target is not a task at all or is itself blocked (in a join) — never on a target that has
     finished or can still run *)
  Theorem join_blocked_only_on_blocked progs sched :
    let c := jrun true true tgt h0 n progs sched in
    stuck true true tgt c ->
    forall t, blocked (ag (fst c) t) = true ->
      exists k d, pc (snd c t) = PJoinWake k d /\ h0 t k = true /\
                  (pc (snd c (tgt t k)) = PIdle \/ blocked (ag (fst c) (tgt t k)) = true).
  Proof.
    intros c St t Hb. pose proof (JInv_run tgt h0 n progs sched) as I. cbv zeta in I. fold c in I.
    pose proof (k4 _ _ _ _ _ I t Hb) as Hw. destruct (pc (snd c t)) eqn:Hpc; try discriminate.
    exists k, d. split; [reflexivity|].
    destruct (k2 _ _ _ _ _ I t k) as [Hh _]; [rewrite Hpc; reflexivity|]. split; [now apply (k1 _ _ _ _ _ I)|].
    assert (J : Jst tgt (fst c) (snd c) t k) by (apply (k8 _ _ _ _ _ I); rewrite Hpc; reflexivity).
    pose proof (stuck_task _ _ _ (k9 _ _ _ _ _ I (tgt t k)) (St (tgt t k))) as Su.
    assert (Hrun : forall p, pc (snd c (tgt t k)) = p -> iswake p = false -> p <> PIdle -> p <> PDone ->
                     pc (snd c (tgt t k)) = PIdle \/ blocked (ag (fst c) (tgt t k)) = true).
    { intros p E1 E2 E3 E4. destruct Su as [Su|[Su|Su]]; auto; try congruence. }
    destruct J as [(_ & B & _)|[(_ & P)|[P|(P & _)]]]; [congruence| | |].
    - destruct Su as [Su|[Su|Su]]; auto. rewrite Su in P. discriminate.
    - eapply Hrun; eauto; discriminate.
    - eapply Hrun; eauto; discriminate.
  Qed.

  (* targets are tasks created later than their joiner (no cycles) *)
  Definition acyclic_targets : Prop := forall t k, h0 t k = true -> t < tgt t k /\ tgt t k < n.

  Theorem join_returns progs sched : acyclic_targets ->
    let c := jrun true true tgt h0 n progs sched in
    stuck true true tgt c ->
    (forall t, blocked (ag (fst c) t) = false) /\ (forall t, t < n -> pc (snd c t) = PDone).
  Proof.
    intros Hac c St. pose proof (JInv_run tgt h0 n progs sched) as I. cbv zeta in I. fold c in I.
    pose proof (join_blocked_only_on_blocked progs sched St) as W. fold c in W.
    assert (Hnb : forall m t, n - t <= m -> blocked (ag (fst c) t) = false).
    { induction m as [|m IH]; intros t Hm; destruct (blocked (ag (fst c) t)) eqn:Hb; auto; exfalso;
        destruct (W t Hb) as (k & d & _ & Hh & Hu); destruct (Hac t k Hh) as [H1 H2].
      - lia.
      - destruct Hu as [Hu|Hu]; [now apply (k3 _ _ _ _ _ I _ H2)|]. rewrite IH in Hu; [discriminate|lia]. }
    split; [intros t; apply (Hnb (n - t)); lia|].
    intros t Ht. destruct (stuck_task _ _ _ (k9 _ _ _ _ _ I t) (St t)) as [S|[S|S]]; auto.
    - rewrite (Hnb (n - t)) in S; [discriminate|lia].
    - now apply (k3 _ _ _ _ _ I t Ht) in S.
  Qed.

  (* join again after an interruption: both halves together *)
  Theorem rejoin_after_interrupt_returns progs sched :
    let c := jrun true true tgt h0 n progs sched in
    (forall t k, waitpc (pc (snd c t)) = Some k -> Jst tgt (fst c) (snd c) t k) /\
    (acyclic_targets -> stuck true true tgt c ->
       (forall t, blocked (ag (fst c) t) = false) /\ (forall t, t < n -> pc (snd c t) = PDone)).
  Proof.
    cbv zeta. split; [apply rejoin_registration_not_lost|]. intros Hac St. now apply join_returns.
  Qed.
End Returns.

(* ------------------------------------------------------------------ witnesses *)
Definition jp_sch (l : list nat) : list (nat * unit) := map (fun t => (t, tt)) l.
Definition jp_rep (k t : nat) : list nat := repeat t k.

(* non-vacuity: a chain 0 joins 1 joins 2; both joiners block first, are woken by the exit
   callbacks (normal wake-up order) and everything terminates *)
Definition chain_tgt (t k : nat) : nat := S t.
Definition chain_h0 (t k : nat) : bool := Nat.eqb k 0 && Nat.ltb t 2.
Definition chain_progs (t : nat) : list act :=
  match t with 0 => [AJoin 0] | 1 => [AJoin 0] | _ => [AWork] end.
Definition chain_sched : list (nat * unit) :=
  jp_sch (jp_rep 5 0 ++ jp_rep 5 1 ++ jp_rep 8 2 ++ jp_rep 10 1 ++ jp_rep 7 0).

Lemma chain_hyps : acyclic_targets chain_tgt chain_h0 3.
Proof.
  unfold acyclic_targets, chain_tgt, chain_h0.
  intros t k H. apply andb_true_iff in H. destruct H as [_ H]. apply Nat.ltb_lt in H. lia.
Qed.

Lemma join_returns_example :
  let c := jrun true true chain_tgt chain_h0 3 chain_progs chain_sched in
  stuck true true chain_tgt c /\ pc (snd c 0) = PDone /\ pc (snd c 1) = PDone /\ pc (snd c 2) = PDone /\
  In (EJoinRet 0 0) (log (fst c)) /\ In (EJoinRet 1 0) (log (fst c)) /\
  (* both joiners really were blocked in join() on the way *)
  let c1 := jrun true true chain_tgt chain_h0 3 chain_progs (jp_sch (jp_rep 5 0 ++ jp_rep 5 1)) in
  blocked (ag (fst c1) 0) = true /\ blocked (ag (fst c1) 1) = true.
Proof.
  cbv zeta. set (c := jrun true true chain_tgt chain_h0 3 chain_progs chain_sched). vm_compute in c.
  split; [|vm_compute; repeat split; auto 10].
  intros t. subst c. destruct t as [|[|[|t]]]; vm_compute; reflexivity.
Qed.

(* E4 of the notes, code BEFORE the second fix (pf = false: front()() unlocked, pop_front() after
   re-locking): two tasks join the SAME target; the second registers while the target is between
   front()() and pop_front(); pop_front removes the NEW entry, the old one is invoked twice, the
   second joiner is never resumed.  Stuck with task 1 blocked in join() although its target is PDone.
   (Two pika::thread objects cannot refer to one thread; kept as the small form of the defect.) *)
Definition shared_tgt (t k : nat) : nat := 2.
Definition all_valid (t k : nat) : bool := true.
Definition shared_progs (t : nat) : list act :=
  match t with 0 => [AJoin 0] | 1 => [AJoin 0] | _ => [] end.
Definition shared_sched : list (nat * unit) :=
  jp_sch (jp_rep 5 0 ++ jp_rep 3 2 ++ jp_rep 5 1 ++ jp_rep 7 2 ++ jp_rep 7 0 ++ jp_rep 7 1).

Lemma shared_target_unfixed_strands :
  let c := jrun true false shared_tgt all_valid 3 shared_progs shared_sched in
  stuck true false shared_tgt c /\ blocked (ag (fst c) 1) = true /\ pc (snd c 1) = PJoinWake 0 false /\
  pc (snd c 2) = PDone /\ pc (snd c 0) = PDone /\ bdone (fst c) 2 = true /\ flag (fst c) 1 2 1 = false.
Proof.
  cbv zeta. set (c := jrun true false shared_tgt all_valid 3 shared_progs shared_sched). vm_compute in c.
  split; [|vm_compute; repeat split].
  intros t. subst c. destruct t as [|[|[|t]]]; vm_compute; reflexivity.
Qed.

Lemma shared_target_fixed_returns :
  let c := jrun true true shared_tgt all_valid 3 shared_progs shared_sched in
  stuck true true shared_tgt c /\ pc (snd c 0) = PDone /\ pc (snd c 1) = PDone /\ pc (snd c 2) = PDone /\
  In (EJoinRet 0 0) (log (fst c)) /\ In (EJoinRet 1 0) (log (fst c)).
Proof.
  cbv zeta. set (c := jrun true true shared_tgt all_valid 3 shared_progs shared_sched). vm_compute in c.
  split; [|vm_compute; repeat split; auto 10].
  intros t. subst c. destruct t as [|[|[|t]]]; vm_compute; reflexivity.
Qed.

(* join again after an interruption (public API only).  Task 0: try { t.join() } catch
   (thread_interrupted) {} t.join();  task 1 interrupts task 0;  task 2 is the target.
   Schedule: 0 registers (call 1) and suspends; 2 returns from its body, invokes the callback
   (flag 1 set, 0 resumed) and stands before the re-lock; 1 interrupts 0; 0 wakes, the interruption
   point after the suspension throws, 0 catches and joins again: registers call 2 (the target's
   callbacks are not yet marked as run), consumes the stale token, suspends; 2 continues. *)
Definition rj_tgt (t k : nat) : nat := 2.
Definition rj_h0 (t k : nat) : bool := Nat.eqb t 0 && Nat.eqb k 0.
Definition rj_progs (t : nat) : list act :=
  match t with 0 => [AJoin 0; ACatch; AJoin 0] | 1 => [AIntr 0] | _ => [] end.
Definition rj_sched : list (nat * unit) :=
  jp_sch (jp_rep 5 0 ++ jp_rep 4 2 ++ jp_rep 2 1 ++ jp_rep 9 0 ++ jp_rep 6 2 ++ jp_rep 7 0 ++ jp_rep 4 1).

Lemma rj_hyps : acyclic_targets rj_tgt rj_h0 3.
Proof.
  unfold acyclic_targets, rj_tgt, rj_h0. intros t k H. apply andb_true_iff in H. destruct H as [H _].
  apply Nat.eqb_eq in H. lia.
Qed.

(* code before the second fix: pop_front() removes the registration of the SECOND join, the stale
   one is invoked twice (flag 1 twice), flag 2 is never set: task 0 is blocked in join() for ever
   although its target has terminated *)
Lemma rejoin_unfixed_hangs :
  let c := jrun true false rj_tgt rj_h0 3 rj_progs rj_sched in
  stuck true false rj_tgt c /\ blocked (ag (fst c) 0) = true /\ pc (snd c 0) = PJoinWake 0 false /\
  pc (snd c 2) = PDone /\ pc (snd c 1) = PDone /\ term (fst c) 2 = true /\
  In (EIntrAt 0 IPSuspendPost true) (log (fst c)) /\ gen (fst c) 0 = 2 /\
  flag (fst c) 0 2 1 = true /\ flag (fst c) 0 2 2 = false /\ ~ In (EJoinRet 0 0) (log (fst c)).
Proof.
  cbv zeta. set (c := jrun true false rj_tgt rj_h0 3 rj_progs rj_sched). vm_compute in c.
  split; [|vm_compute; repeat split; auto 10; intros H; repeat (destruct H as [H|H]; [discriminate|]); exact H].
  intros t. subst c. destruct t as [|[|[|t]]]; vm_compute; reflexivity.
Qed.

(* the same schedule on the fixed code: both registrations are invoked, the second join returns *)
Lemma rejoin_fixed_returns :
  let c := jrun true true rj_tgt rj_h0 3 rj_progs rj_sched in
  stuck true true rj_tgt c /\ pc (snd c 0) = PDone /\ pc (snd c 1) = PDone /\ pc (snd c 2) = PDone /\
  In (EIntrAt 0 IPSuspendPost true) (log (fst c)) /\ In (EJoinRet 0 0) (log (fst c)) /\ gen (fst c) 0 = 2 /\
  flag (fst c) 0 2 1 = true /\ flag (fst c) 0 2 2 = true /\ hid (fst c) 0 0 = false /\
  (* on the way: after the second registration both entries are pending / held *)
  let c1 := jrun true true rj_tgt rj_h0 3 rj_progs (jp_sch (jp_rep 5 0 ++ jp_rep 4 2 ++ jp_rep 2 1 ++ jp_rep 9 0)) in
  cbs (fst c1) 2 = [(0, 2)] /\ pc (snd c1 2) = PCbPop /\ blocked (ag (fst c1) 0) = true.
Proof.
  cbv zeta. set (c := jrun true true rj_tgt rj_h0 3 rj_progs rj_sched). vm_compute in c.
  split; [|vm_compute; repeat split; auto 10].
  intros t. subst c. destruct t as [|[|[|t]]]; vm_compute; reflexivity.
Qed.

(* the code as it was before BOTH fixes (single suspend, no flag; front()()/pop_front()): on this
   schedule the second join returns — all callbacks were interchangeable ("resume the joiner"), the
   one invoked twice stood in for the one dropped.  The hang is specific to per-call flags. *)
Lemma rejoin_original_code_returns :
  let c := jrun false false rj_tgt rj_h0 3 rj_progs rj_sched in
  pc (snd c 0) = PDone /\ pc (snd c 2) = PDone /\ In (EJoinRet 0 0) (log (fst c)) /\ join_ok_b rj_tgt (fst c) = true.
Proof. vm_compute. repeat split; auto 10. Qed.
