(* Proofs/AgentUseProofs.v — the primitive models (C06 mutex, C07 condition variable, C08 semaphore,
   C09 latch / event / call_once, C13 join) change an agent_state only through the operations of
   Base/Agent.v that Model/WeakAgent.v reads in the weak agent machine (ag_fun): one operation per
   agent and step, or none. *)
From Coq Require Import List NArith ZArith Bool Arith Lia.
From Pika Require Import Base.Conc Base.Agent Model.WeakAgent.
From Pika Require Proofs.WeakAgentProofs.
From Pika Require Model.Mutex Model.CondVar Model.Semaphore Model.Latch Model.Event Model.Once Model.Join.
Import ListNotations.

Lemma upd_none a : ag_iface_upd a a.
Proof. exists OpReg. reflexivity. Qed.
Lemma upd_resume a : ag_iface_upd a (a_resume a).
Proof. exists OpResume. reflexivity. Qed.
Lemma upd_suspend a : ag_iface_upd a (fst (a_suspend a)).
Proof. exists OpSuspend. reflexivity. Qed.
Lemma upd_phase_end a : ag_iface_upd a (a_phase_end a).
Proof. exists OpPhaseEnd. reflexivity. Qed.
Lemma upd_tok a : ag_iface_upd a {| tok := true; blocked := false |}.
Proof. exists OpStaleTok. reflexivity. Qed.
Lemma upd_wake_blocked a : blocked a = true -> ag_iface_upd a {| tok := false; blocked := false |}.
Proof. intros H. exists OpResume. cbn. unfold a_resume. now rewrite H. Qed.
#[local] Hint Resolve upd_none upd_resume upd_suspend upd_phase_end upd_tok upd_wake_blocked : agu.

Ltac crush_upd u :=
  repeat match goal with
         | |- context [match ?x with _ => _ end] => destruct x eqn:?
         end;
  repeat match goal with
         | H : a_suspend ?x = (?a, _) |- _ => apply (f_equal fst) in H; cbn [fst] in H; subst a
         end;
  cbn; unfold upd;
  repeat match goal with
         | |- context [Nat.eqb u ?t] => let E := fresh "E" in destruct (Nat.eqb u t) eqn:E; [apply Nat.eqb_eq in E; subst|]
         end;
  auto with agu.

(* C06: pika::mutex / timed_mutex *)
Lemma mutex_agent_upd late t g l u :
  ag_iface_upd (Mutex.ag g u) (Mutex.ag (fst (Mutex.mx_tstep late t g l)) u).
Proof.
  unfold Mutex.mx_tstep, Mutex.lock_loop, Mutex.notify_one, Mutex.mx_set, Mutex.mx_set_ag.
  crush_upd u.
Qed.

(* C09: event (also the event inside call_once) *)
Lemma event_step_agent_upd t e pc u :
  ag_iface_upd (Event.eag e u) (Event.eag (fst (Event.ev_step t e pc)) u).
Proof.
  unfold Event.ev_step, Event.ev_resume. crush_upd u.
Qed.
Lemma event_spur_agent_upd t e u :
  ag_iface_upd (Event.eag e u) (Event.eag (Event.ev_spur e t) u).
Proof. unfold Event.ev_spur, Event.ev_resume. crush_upd u. Qed.
Lemma event_agent_upd o t g l u :
  ag_iface_upd (Event.eag (Event.est g) u) (Event.eag (Event.est (fst (Event.e_tstep o t g l))) u).
Proof.
  unfold Event.e_tstep. destruct o; [|cbn; apply event_spur_agent_upd].
  destruct (Event.epcs l) as [pc|].
  - assert (H := event_step_agent_upd t (Event.est g) pc u).
    destruct (Event.ev_step t (Event.est g) pc) as [e' pc']. cbn in H. destruct pc'; exact H.
  - destruct (Event.eprog l) as [|[] r]; cbn; auto with agu.
Qed.

(* C09: call_once (its event) *)
Lemma once_agent_upd o t g l u :
  ag_iface_upd (Event.eag (Once.oev g) u) (Event.eag (Once.oev (fst (Once.o_tstep o t g l))) u).
Proof.
  unfold Once.o_tstep. destruct o as [throws|]; [|cbn; apply event_spur_agent_upd].
  destruct (Once.opc l) as [[| | | |ok|ok sub|sub]|]; cbn [fst Once.oev].
  - destruct (N.eqb (Once.status g) GenOnce.once_complete); cbn; auto with agu.
  - destruct (N.eqb (Once.status g) GenOnce.once_cas_expected); cbn; auto with agu.
    destruct (N.eqb (Once.status g) GenOnce.once_complete); cbn; auto with agu.
  - cbn. auto with agu.
  - cbn. auto with agu.
  - destruct ok; cbn; auto with agu.
  - assert (H := event_step_agent_upd t (Once.oev g) sub u).
    destruct (Event.ev_step t (Once.oev g) sub) as [e' sub']. cbn in H. destruct sub'; try exact H.
    destruct ok; exact H.
  - assert (H := event_step_agent_upd t (Once.oev g) sub u).
    destruct (Event.ev_step t (Once.oev g) sub) as [e' sub']. cbn in H. destruct sub'; exact H.
  - destruct (Once.calls l); cbn; auto with agu.
Qed.

(* C09: latch *)
Lemma latch_notify_upd g setn u :
  ag_iface_upd (Latch.ag g u) (Latch.ag (fst (Latch.notify_one g setn)) u).
Proof. unfold Latch.notify_one. crush_upd u. Qed.
Lemma latch_agent_upd fixed o t g l u :
  ag_iface_upd (Latch.ag g u) (Latch.ag (fst (Latch.latch_tstep fixed o t g l)) u).
Proof.
  unfold Latch.latch_tstep, Latch.after_notify, Latch.enqueue_me, Latch.set_ag, Latch.llog_add.
  destruct o; [|crush_upd u].
  destruct (Latch.lpcs l) as [|first aw| | | |].
  3: { assert (H := latch_notify_upd g false u). destruct (Latch.notify_one g false) as [g' more].
       cbn [fst] in H. crush_upd u. }
  2: { destruct (Latch.locked g); [crush_upd u|].
       assert (H := latch_notify_upd g first u). destruct (Latch.notify_one g first) as [g' more].
       cbn [fst] in H. crush_upd u. }
  all: crush_upd u.
Qed.

(* C08: counting / sliding semaphore *)
Lemma semaphore_agent_upd kind passed t g l u :
  ag_iface_upd (Semaphore.ag g u) (Semaphore.ag (fst (Semaphore.sem_tstep kind passed t g l)) u).
Proof.
  unfold Semaphore.sem_tstep, Semaphore.sl_notify, Semaphore.notify, Semaphore.after_resume, Semaphore.finish_sig,
    Semaphore.fail_op, Semaphore.wait_or_take, Semaphore.arrive, Semaphore.enqueue, Semaphore.log_ev, Semaphore.take.
  crush_upd u.
Qed.

(* C07: condition variable (the branch `isos w` is the OS-thread default agent: a separate
   instance of the interface; its wake of a blocked agent has the shape of a_resume too) *)
Lemma condvar_agent_upd isos late t g l u :
  ag_iface_upd (CondVar.cag g u) (CondVar.cag (fst (CondVar.cv_tstep isos late t g l)) u).
Proof.
  unfold CondVar.cv_tstep, CondVar.ret, CondVar.g_ag, CondVar.g_log, CondVar.g_stop, CondVar.g_i,
    CondVar.g_u, CondVar.g_q, CondVar.g_flag.
  crush_upd u.
Qed.

(* C13: pika::thread / jthread join *)
Lemma join_ipoint_ag p t g g' : Join.ipoint_step p t g = Some g' -> Join.ag g' = Join.ag g.
Proof.
  unfold Join.ipoint_step. destruct (Join.en g t && Join.req g t); intros H; inversion H. reflexivity.
Qed.
Lemma join_agent_upd lp pf tgt x t g l u :
  ag_iface_upd (Join.ag g u) (Join.ag (fst (Join.tstep lp pf tgt x t g l)) u).
Proof.
  unfold Join.tstep, Join.thrown, Join.unwind, Join.ended, Join.set1.
  repeat match goal with
         | |- context [match ?x with _ => _ end] => destruct x eqn:?
         end;
  repeat match goal with
         | H : Join.ipoint_step _ _ _ = Some _ |- _ => apply join_ipoint_ag in H; cbn [fst]; rewrite H; clear H
         end;
  crush_upd u.
Qed.

(* ------------------------------------------------------------------ from the shape to the machine *)
Lemma ag_step_ag op s : ag (ag_step op s) = ag_fun op (ag s).
Proof. unfold ag_step. destruct op; cbn; repeat match goal with |- context [if ?b then _ else _] => destruct b end;
  try reflexivity; destruct (snd (a_suspend (ag s))); reflexivity. Qed.

Section Generic.
  Variables (G L O : Type) (tstep : O -> nat -> G -> L -> G * L) (agf : G -> nat -> agent_state).
  Hypothesis Hupd : forall o t g l u, ag_iface_upd (agf g u) (agf (fst (tstep o t g l)) u).

  Lemma fst_step c t o : fst (step tstep c (t, o)) = fst (tstep o t (fst c) (snd c t)).
  Proof. unfold step. destruct (tstep o t (fst c) (snd c t)); reflexivity. Qed.

  (* along every run of the model, the agent of thread u goes through a sequence of interface
     operations (with their ghosts) *)
  Lemma model_agent_ops u sched : forall c s0, ag s0 = agf (fst c) u ->
    exists ops s ks, ag_runs ops s0 s ks /\ ag s = agf (fst (run tstep sched c)) u.
  Proof.
    induction sched as [|[t o] r IH]; intros c s0 E.
    - exists [], s0, []. split; [constructor | exact E].
    - rewrite run_cons. destruct (Hupd o t (fst c) (snd c t) u) as [op Hop].
      rewrite <- fst_step in Hop.
      destruct op.
      1: { unfold ag_fun in Hop. destruct (IH (step tstep c (t, o)) s0) as (ops & s & ks & H1 & H2); [rewrite Hop; exact E|].
           exists ops, s, ks. auto. }
      all: match type of Hop with _ = ag_fun ?op _ =>
             destruct (IH (step tstep c (t, o)) (ag_step op s0)) as (ops & s & ks & H1 & H2);
               [rewrite ag_step_ag, E; symmetry; exact Hop|];
             exists (op :: ops), s, (ag_kinds op s0 ++ ks); split; [constructor; [exact I | exact H1] | exact H2]
           end.
  Qed.
End Generic.

(* so the agent of every thread in every run of a model that changes agents only through the
   interface is a behaviour of the weak agent machine, is never blocked while owed, and its events
   never show the lost pattern *)
Theorem model_agent_is_weak_agent (G L O : Type) (tstep : O -> nat -> G -> L -> G * L)
    (agf : G -> nat -> agent_state) :
  (forall o t g l u, ag_iface_upd (agf g u) (agf (fst (tstep o t g l)) u)) ->
  forall sched c u, agf (fst c) u = a_init ->
  exists ops s ks,
    ag_runs ops ag_init s ks /\ ag s = agf (fst (run tstep sched c)) u /\
    wa_replay ks wa_init_task = Some (ag_abs s) /\ ag_w2 s /\
    ~ (blocked (ag s) = true /\ gowed s = true) /\ ~ lost_pattern ks.
Proof.
  intros Hupd sched c u E.
  destruct (model_agent_ops G L O tstep agf Hupd u sched c ag_init) as (ops & s & ks & H1 & H2); [now rewrite E|].
  exists ops, s, ks. split; [exact H1|]. split; [exact H2|].
  now apply (Proofs.WeakAgentProofs.agent_runs_weak_agent ops s ks).
Qed.

Theorem primitive_models_use_the_interface :
  (forall late t g l u, ag_iface_upd (Mutex.ag g u) (Mutex.ag (fst (Mutex.mx_tstep late t g l)) u)) /\
  (forall isos late t g l u, ag_iface_upd (CondVar.cag g u) (CondVar.cag (fst (CondVar.cv_tstep isos late t g l)) u)) /\
  (forall kind passed t g l u,
     ag_iface_upd (Semaphore.ag g u) (Semaphore.ag (fst (Semaphore.sem_tstep kind passed t g l)) u)) /\
  (forall fixed o t g l u, ag_iface_upd (Latch.ag g u) (Latch.ag (fst (Latch.latch_tstep fixed o t g l)) u)) /\
  (forall o t g l u,
     ag_iface_upd (Event.eag (Event.est g) u) (Event.eag (Event.est (fst (Event.e_tstep o t g l))) u)) /\
  (forall o t g l u,
     ag_iface_upd (Event.eag (Once.oev g) u) (Event.eag (Once.oev (fst (Once.o_tstep o t g l))) u)) /\
  (forall lp pf tgt x t g l u, ag_iface_upd (Join.ag g u) (Join.ag (fst (Join.tstep lp pf tgt x t g l)) u)).
Proof.
  split; [exact mutex_agent_upd|]. split; [exact condvar_agent_upd|]. split; [exact semaphore_agent_upd|].
  split; [exact latch_agent_upd|]. split; [exact event_agent_upd|]. split; [exact once_agent_upd | exact join_agent_upd].
Qed.
