(* C16 - lemmas about the transcription of ini.cpp's ${..} / $[..] expansion (Model/Config.v:
   find_next, scan, at_dollar, brace_body, bracket_body, xp_all = section::expand,
   xp_only = section::expand_only, read_x = add_entry followed by get_entry). *)
From Coq Require Import String Ascii List NArith Bool Lia.
From Pika Require Import Gen.GenIni Model.Config.
Import ListNotations.
Open Scope string_scope.

(* ------------------------------------------------------------------ strings *)
Lemma app_empty_r : forall s : string, s ++ "" = s.
Proof. induction s; cbn; congruence. Qed.
Lemma app_assoc_s : forall a b c : string, (a ++ b) ++ c = a ++ (b ++ c).
Proof. induction a; cbn; intros; congruence. Qed.

Lemma aeqb_eq a b : aeqb a b = true -> a = b.
Proof. apply Ascii.eqb_eq. Qed.
Lemma aeqb_refl a : aeqb a a = true.
Proof. apply Ascii.eqb_refl. Qed.

Lemma dollars_app a b : dollars (a ++ b) = dollars a + dollars b.
Proof. induction a as [|c a IH]; cbn; [reflexivity|]. rewrite IH. lia. Qed.

(* split_at: the first occurrence *)
Lemma split_at_some c : forall s a b, split_at c s = Some (a, b) -> s = a ++ String c b /\ contains c a = false.
Proof.
  induction s as [|d s IH]; cbn; intros a b H; [discriminate|].
  destruct (aeqb c d) eqn:E.
  - inversion H; subst. apply aeqb_eq in E. subst. split; reflexivity.
  - destruct (split_at c s) as [[x y]|]; [|discriminate]. inversion H; subst.
    destruct (IH x b eq_refl) as [-> Hc]. split; [reflexivity|]. cbn. now rewrite E, Hc.
Qed.
Lemma split_at_none c : forall s, split_at c s = None -> contains c s = false.
Proof.
  induction s as [|d s IH]; cbn; intros H; [reflexivity|].
  destruct (aeqb c d); [discriminate|]. destruct (split_at c s) as [[x y]|]; [discriminate|]. now apply IH.
Qed.
Lemma aeqb_sym a b : aeqb a b = aeqb b a.
Proof. apply Ascii.eqb_sym. Qed.
Lemma no_dollar_count : forall s, contains c_dollar s = false -> dollars s = 0.
Proof.
  induction s as [|d s IH]; cbn [contains dollars]; intros H; [reflexivity|]. apply orb_false_iff in H. destruct H as [H1 H2].
  rewrite aeqb_sym, H1. now rewrite IH.
Qed.
Lemma count_no_dollar : forall s, dollars s = 0 -> split_at c_dollar s = None.
Proof.
  induction s as [|d s IH]; cbn [split_at dollars]; intros H; [reflexivity|].
  rewrite aeqb_sym. destruct (aeqb d c_dollar); [discriminate|]. now rewrite IH.
Qed.

(* ------------------------------------------------------------------ xres *)
Lemma xbind_ok r : xbind r XOk = r.
Proof. destruct r; reflexivity. Qed.
Lemma xmap_ok f s : xmap f (XOk s) = XOk (f s).
Proof. reflexivity. Qed.

(* one level of fuel *)
Lemma xp_all_S env look f s : xp_all env look (S f) s = scan env look None (xp_all env look f) (xp_all env look f) s.
Proof. reflexivity. Qed.
Lemma xp_only_S env look f k s :
  xp_only env look (S f) k s = scan env look (Some k) (xp_all env look f) (xp_only env look f k) s.
Proof. reflexivity. Qed.

(* ------------------------------------------------------------------ a value without placeholder is left alone *)
(* no '$' that is followed by '{' or '[' *)
Fixpoint noph (s : string) : bool :=
  match s with
  | EmptyString => true
  | String c r =>
      (if aeqb c c_dollar
       then match r with String b _ => negb (aeqb b c_lbrace || aeqb b c_lbrack) | EmptyString => true end
       else true) && noph r
  end.

Lemma noph_app_dollar : forall pre t, contains c_dollar pre = false ->
  noph (pre ++ String c_dollar t) = true ->
  noph t = true /\ match t with String b _ => aeqb b c_lbrace = false /\ aeqb b c_lbrack = false | EmptyString => True end.
Proof.
  induction pre as [|d pre IH]; intros t Hc H.
  - cbn [append noph] in H. rewrite aeqb_refl in H. apply andb_true_iff in H. destruct H as [H1 H2]. split; [exact H2|].
    destruct t as [|b t]; [exact I|]. apply negb_true_iff, orb_false_iff in H1. exact H1.
  - cbn [append noph] in H. apply andb_true_iff in H. destruct H as [_ H]. apply IH; [|exact H].
    cbn in Hc. apply orb_false_iff in Hc. tauto.
Qed.

Section Plain.
  Variable env : list (string * string).
  Variable look : string -> option string.

  (* one level: if the recursive calls leave such values alone, so does scan *)
  Lemma scan_noph only Eall Erec n :
    (forall t, noph t = true -> dollars t < n -> Erec t = XOk t) ->
    forall s, noph s = true -> dollars s <= n -> scan env look only Eall Erec s = XOk s.
  Proof.
    intros HE s Hs Hn. unfold scan. destruct (split_at c_dollar s) as [[pre t]|] eqn:Es; [|reflexivity].
    destruct t as [|b t']; [reflexivity|].
    destruct (split_at_some _ _ _ _ Es) as [-> Hpre].
    destruct (noph_app_dollar _ _ Hpre Hs) as [Ht [Hb1 Hb2]].
    rewrite dollars_app in Hn. cbn [dollars] in Hn. rewrite aeqb_refl in Hn.
    unfold at_dollar, step. rewrite Hb2, Hb1. cbn [xbind rescan_tail].
    rewrite HE; [reflexivity|exact Ht|]. cbn [dollars]. lia.
  Qed.

  Lemma xp_all_noph : forall fuel s, noph s = true -> dollars s < fuel -> xp_all env look fuel s = XOk s.
  Proof.
    induction fuel as [|f IH]; intros s Hs Hn; [lia|]. cbn [xp_all].
    apply scan_noph with (n := f); [|exact Hs|lia]. intros t Ht Hd. apply IH; assumption.
  Qed.
  Lemma xp_only_noph k : forall fuel s, noph s = true -> dollars s < fuel -> xp_only env look fuel k s = XOk s.
  Proof.
    induction fuel as [|f IH]; intros s Hs Hn; [lia|]. cbn [xp_only].
    apply scan_noph with (n := f); [|exact Hs|lia]. intros t Ht Hd. apply IH; assumption.
  Qed.

  (* add_entry followed by get_entry *)
  Lemma read_x_noph k s : noph s = true -> dollars s < xfuel -> read_x env look k s = XOk s.
  Proof.
    intros Hs Hn. unfold read_x, stored_x. rewrite xp_only_noph by assumption. cbn [xbind]. now apply xp_all_noph.
  Qed.
End Plain.

(* no dollar sign at all *)
Lemma no_dollar_noph : forall s, contains c_dollar s = false -> noph s = true.
Proof.
  induction s as [|d s IH]; cbn [contains noph]; intros H; [reflexivity|]. apply orb_false_iff in H. destruct H as [H1 H2].
  rewrite aeqb_sym, H1. now rewrite IH.
Qed.
Lemma xfuel_pos : 0 < xfuel.
Proof. unfold xfuel. lia. Qed.
Lemma read_x_no_dollar env look k s : contains c_dollar s = false -> read_x env look k s = XOk s.
Proof.
  intros H. apply read_x_noph; [now apply no_dollar_noph|]. rewrite (no_dollar_count _ H). exact xfuel_pos.
Qed.

(* ------------------------------------------------------------------ more fuel never changes a result *)
Definition xle (F G : string -> xres) : Prop := forall t r, F t = r -> r <> XFuel -> G t = r.

Lemma xbind_mono r r' k k' res :
  xbind r k = res -> res <> XFuel ->
  (forall x, r = x -> x <> XFuel -> r' = x) -> (forall s y, k s = y -> y <> XFuel -> k' s = y) ->
  xbind r' k' = res.
Proof.
  intros E Hne Hr Hk. destruct r as [s|]; cbn [xbind] in E.
  - rewrite (Hr _ eq_refl) by discriminate. cbn [xbind]. now apply Hk.
  - congruence.
Qed.

Section Mono.
  Variable env : list (string * string).
  Variable look : string -> option string.

  Lemma scan_mono only Eall Eall' Erec Erec' :
    xle Eall Eall' -> xle Erec Erec' ->
    xle (scan env look only Eall Erec) (scan env look only Eall' Erec').
  Proof.
    intros HA HR.
    assert (OKm : forall (f : string -> string) s y, XOk (f s) = y -> y <> XFuel -> XOk (f s) = y) by (intros; assumption).
    assert (RT : forall u res, rescan_tail Erec u = res -> res <> XFuel -> rescan_tail Erec' u = res).
    { intros u res E Hn. destruct u as [|a u1]; [exact E|]. cbn [rescan_tail] in *. unfold xmap in *.
      eapply xbind_mono; [exact E|exact Hn|apply HR|apply OKm]. }
    assert (GE : forall k d res, get_entry look Eall k d = res -> res <> XFuel -> get_entry look Eall' k d = res).
    { intros k d res E Hn. unfold get_entry in *. now apply HA. }
    assert (ST : forall t res, step env look only Eall Erec t = res -> res <> XFuel ->
                               step env look only Eall' Erec' t = res).
    { intros t res E Hn. unfold step in *. destruct t as [|b t']; [exact E|]. destruct (aeqb b c_lbrack).
      - unfold bracket_body in *. eapply xbind_mono; [exact E|exact Hn|apply HR|].
        intros r y Ey Hy. revert Ey. cbv beta. destruct (find_next c_rbrack r) as [inside after|]; [|intros Ey; exact Ey].
        destruct (split_colon inside) as [n d|n];
          (destruct (mine only _); [|intros Ey; exact Ey]); unfold xmap in *; intros Ey;
          (eapply xbind_mono; [exact Ey|exact Hy|apply GE|apply OKm]).
      - destruct (aeqb b c_lbrace); [|exact E].
        unfold brace_body in *. eapply xbind_mono; [exact E|exact Hn|apply HR|].
        intros r y Ey Hy. exact Ey. }
    intros s res E Hne. unfold scan in *.
    destruct (split_at c_dollar s) as [[pre t]|]; [|exact E]. destruct t as [|b t']; [exact E|].
    unfold xmap in *. eapply xbind_mono; [exact E|exact Hne| |apply OKm].
    intros x Ex Hx. unfold at_dollar in *. eapply xbind_mono; [exact Ex|exact Hx|apply ST|exact RT].
  Qed.

  Lemma xp_all_mono_S : forall f, xle (xp_all env look f) (xp_all env look (S f)).
  Proof.
    induction f as [|f IH]; [intros t r E Hn; cbn in E; congruence|].
    intros t r. rewrite (xp_all_S env look (S f)), (xp_all_S env look f). now apply scan_mono.
  Qed.
  Lemma xp_only_mono_S k : forall f, xle (xp_only env look f k) (xp_only env look (S f) k).
  Proof.
    induction f as [|f IH]; [intros t r E Hn; cbn in E; congruence|].
    intros t r. rewrite (xp_only_S env look (S f)), (xp_only_S env look f).
    apply scan_mono; [apply xp_all_mono_S|exact IH].
  Qed.

  (* the fuel bound: a result other than "out of fuel" is the result for every larger amount of fuel *)
  Theorem xp_all_fuel_monotone f g s r :
    xp_all env look f s = r -> r <> XFuel -> f <= g -> xp_all env look g s = r.
  Proof.
    intros E Hn Hle. induction Hle as [|g Hle IH]; [exact E|]. now apply xp_all_mono_S.
  Qed.
  Theorem xp_only_fuel_monotone k f g s r :
    xp_only env look f k s = r -> r <> XFuel -> f <= g -> xp_only env look g k s = r.
  Proof.
    intros E Hn Hle. induction Hle as [|g Hle IH]; [exact E|]. now apply xp_only_mono_S.
  Qed.
End Mono.

(* ------------------------------------------------------------------ a value that refers to itself behind its first character *)
(* A='x${A}': expanding ${A} gives x${A}, the scan goes on behind the x, finds ${A} again, ... the real
   string grows by one character per round and the loop never ends; the model runs out of EVERY amount of fuel *)
Definition env_loop : list (string * string) := [("A", "x${A}")].

Lemma loop_step look f :
  xp_all env_loop look (S (S f)) "${A}" = xmap (append "") (xmap (String "x") (xp_all env_loop look (S f) "${A}")).
Proof. reflexivity. Qed.
Lemma loop_only_step look k f :
  xp_only env_loop look (S (S f)) k "${A}" = xmap (append "") (xmap (String "x") (xp_only env_loop look (S f) k "${A}")).
Proof. reflexivity. Qed.

Theorem self_reference_loops look : forall fuel, xp_all env_loop look fuel "${A}" = XFuel.
Proof.
  induction fuel as [|f IH]; [reflexivity|]. destruct f as [|f]; [reflexivity|].
  rewrite loop_step, IH. reflexivity.
Qed.
Theorem self_reference_loops_only look k : forall fuel, xp_only env_loop look fuel k "${A}" = XFuel.
Proof.
  induction fuel as [|f IH]; [reflexivity|]. destruct f as [|f]; [reflexivity|].
  rewrite loop_only_step, IH. reflexivity.
Qed.
(* the exact self reference A='${A}' is harmless: the first character of the substituted text is skipped *)
Lemma exact_self_reference_stops look f :
  xp_all [("A", "${A}")] look (S (S f)) "${A}" = XOk "${A}".
Proof. reflexivity. Qed.

(* ------------------------------------------------------------------ a colon directly behind `${` / `$[` *)
(* find_next on a text that contains neither the delimiter nor a backslash in front of the first delimiter *)
Lemma find_next_plain c : forall s after,
  contains c s = false -> contains c_bs s = false -> find_next c (s ++ String c after) = FFound s after.
Proof.
  induction s as [|d s IH]; intros after Hc Hb.
  - cbn [append find_next]. rewrite aeqb_refl. reflexivity.
  - cbn [contains] in Hc, Hb. apply orb_false_iff in Hc, Hb. destruct Hc as [Hc1 Hc2], Hb as [Hb1 Hb2].
    specialize (IH after Hc2 Hb2). rewrite aeqb_sym in Hc1. rewrite aeqb_sym in Hb1.
    change (String d s ++ String c after) with (String d (s ++ String c after)).
    destruct (s ++ String c after) as [|e r'] eqn:Er.
    + destruct s; discriminate Er.
    + cbn [find_next]. rewrite Hc1, Hb1. cbn [andb]. cbn [find_next] in IH. rewrite IH. reflexivity.
Qed.

Lemma contains_app c : forall a b, contains c (a ++ b) = contains c a || contains c b.
Proof.
  induction a as [|d a IH]; intros b; [reflexivity|]. cbn [append contains]. rewrite IH. now rewrite orb_assoc.
Qed.

Lemma rescan_tail_no_dollar (Erec : string -> xres) d :
  (forall t, contains c_dollar t = false -> Erec t = XOk t) -> contains c_dollar d = false ->
  rescan_tail Erec d = XOk d.
Proof.
  intros HE Hd. destruct d as [|a u]; [reflexivity|]. cbn [rescan_tail]. cbn [contains] in Hd.
  apply orb_false_iff in Hd. destruct Hd as [_ Hu]. rewrite (HE u Hu). reflexivity.
Qed.

Section ColonAtStart.
  Variable env : list (string * string).
  Variable look : string -> option string.

  Lemma xp_all_no_dollar f t : contains c_dollar t = false -> xp_all env look (S f) t = XOk t.
  Proof.
    intros H. apply xp_all_noph; [now apply no_dollar_noph|]. rewrite (no_dollar_count _ H). lia.
  Qed.
  Lemma xp_only_no_dollar k f t : contains c_dollar t = false -> xp_only env look (S f) k t = XOk t.
  Proof.
    intros H. apply xp_only_noph; [now apply no_dollar_noph|]. rewrite (no_dollar_count _ H). lia.
  Qed.

  (* one loop iteration at "${:" ++ d ++ "}" / "$[:" ++ d ++ "]" *)
  Lemma scan_brace_colon only Eall (Erec : string -> xres) d :
    (forall t, contains c_dollar t = false -> Erec t = XOk t) ->
    contains c_dollar d = false -> contains c_rbrace d = false -> contains c_bs d = false ->
    scan env look only Eall Erec ("${:" ++ d ++ "}") = XOk d.
  Proof.
    intros HE Hd Hr Hb.
    assert (Hin : contains c_dollar (":" ++ d ++ "}") = false).
    { change (":" ++ d ++ "}") with (String ":" (d ++ "}")). cbn [contains]. rewrite contains_app, Hd. reflexivity. }
    unfold scan. change ("${:" ++ d ++ "}") with (String c_dollar (String c_lbrace (":" ++ d ++ "}"))).
    cbn [split_at]. rewrite aeqb_refl. unfold at_dollar, step.
    change (aeqb c_lbrace c_lbrack) with false. rewrite aeqb_refl. unfold brace_body.
    rewrite (HE _ Hin). cbn [xbind].
    change (":" ++ d ++ "}") with (String ":" d ++ String c_rbrace "").
    rewrite find_next_plain; [|cbn [contains]; rewrite Hr; reflexivity|cbn [contains]; rewrite Hb; reflexivity].
    unfold split_colon. destruct d as [|a u]; cbn [find_next getenv xbind append rescan_tail xmap]; [reflexivity|].
    change (aeqb ":" c_colon) with true. cbn [getenv xbind]. rewrite app_empty_r.
    rewrite (rescan_tail_no_dollar Erec (String a u) HE Hd). reflexivity.
  Qed.

  Lemma scan_bracket_colon (Eall Erec : string -> xres) d :
    look "" = None ->
    (forall t, contains c_dollar t = false -> Eall t = XOk t) ->
    (forall t, contains c_dollar t = false -> Erec t = XOk t) ->
    contains c_dollar d = false -> contains c_rbrack d = false -> contains c_bs d = false ->
    scan env look None Eall Erec ("$[:" ++ d ++ "]") = XOk d.
  Proof.
    intros HL HA HE Hd Hr Hb.
    assert (Hin : contains c_dollar (":" ++ d ++ "]") = false).
    { change (":" ++ d ++ "]") with (String ":" (d ++ "]")). cbn [contains]. rewrite contains_app, Hd. reflexivity. }
    unfold scan. change ("$[:" ++ d ++ "]") with (String c_dollar (String c_lbrack (":" ++ d ++ "]"))).
    cbn [split_at]. rewrite aeqb_refl. unfold at_dollar, step. rewrite aeqb_refl. unfold bracket_body.
    rewrite (HE _ Hin). cbn [xbind].
    change (":" ++ d ++ "]") with (String ":" d ++ String c_rbrack "").
    rewrite find_next_plain; [|cbn [contains]; rewrite Hr; reflexivity|cbn [contains]; rewrite Hb; reflexivity].
    unfold split_colon. cbn [find_next]. change (aeqb ":" c_colon) with true. cbv iota.
    unfold mine, get_entry. rewrite HL, (HA _ Hd). unfold xmap. cbn [xbind]. rewrite app_empty_r.
    rewrite (rescan_tail_no_dollar Erec d HE Hd). reflexivity.
  Qed.

  Theorem colon_at_start_brace k f d :
    contains c_dollar d = false -> contains c_rbrace d = false -> contains c_bs d = false ->
    xp_all env look (S (S f)) ("${:" ++ d ++ "}") = XOk d /\
    xp_only env look (S (S f)) k ("${:" ++ d ++ "}") = XOk d /\
    read_x env look k ("${:" ++ d ++ "}") = XOk d.
  Proof.
    intros Hd Hr Hb. split; [|split].
    - rewrite xp_all_S. apply scan_brace_colon; try assumption. intros t Ht. now apply xp_all_no_dollar.
    - rewrite xp_only_S. apply scan_brace_colon; try assumption. intros t Ht. now apply xp_only_no_dollar.
    - unfold read_x, stored_x, xfuel. rewrite xp_only_S.
      rewrite scan_brace_colon; try assumption; [|intros t Ht; now apply xp_only_no_dollar].
      cbn [xbind]. now apply xp_all_no_dollar.
  Qed.

  Theorem colon_at_start_bracket f d :
    look "" = None ->
    contains c_dollar d = false -> contains c_rbrack d = false -> contains c_bs d = false ->
    xp_all env look (S (S f)) ("$[:" ++ d ++ "]") = XOk d.
  Proof.
    intros HL Hd Hr Hb. rewrite xp_all_S.
    apply scan_bracket_colon; try assumption; intros t Ht; now apply xp_all_no_dollar.
  Qed.
End ColonAtStart.
