(* Proofs/BulkPlacementProofs.v — C10 <-> C11: placement of the bulk worker tasks and of f(i). *)
From Coq Require Import List Arith Lia Bool ZArith NArith.
From Pika Require Import Base.Conc Model.Placement Proofs.PlacementProofs Model.BulkPlacement.
From Pika Require Model.Bulk Model.IndexQueue.
Import ListNotations.

Ltac inv H := inversion H; subst; clear H.

(* the spawn loop's `queue.empty()` test of Model/Bulk.v (BSpawn) is [part_nonempty] *)
Lemma part_nonempty_is_queue_test W n k c :
  Bulk.get_chunk_size (N.of_nat W) n = Some c ->
  let nc := Bulk.get_num_chunks n c in
  part_nonempty W n k =
  negb (IndexQueue.range_empty (IndexQueue.cur
         (IndexQueue.iq_init (Bulk.part_begin (N.of_nat W) (N.of_nat k) nc) (Bulk.part_end (N.of_nat W) (N.of_nat k) nc)))).
Proof.
  intros E nc. unfold part_nonempty. rewrite E. fold nc.
  unfold IndexQueue.iq_init, IndexQueue.range_empty. cbn [IndexQueue.cur IndexQueue.first IndexQueue.last].
  rewrite N.ltb_antisym. reflexivity.
Qed.

Lemma lookup_In a l k : lookup a l = Some k -> In (a, k) l.
Proof.
  induction l as [|[a' k'] r IH]; cbn [lookup]; [discriminate|].
  destruct (Nat.eqb_spec a' a) as [->|N]; intros H; [inv H; now left|right; auto].
Qed.

(* ------------------------------------------------------------------ GI-level forms of the run lemmas *)
Section G.
  Variable cfg : nat -> pool_cfg.
  Variable roles : nat -> role.

  Lemma own_pool_GI g a p0 pr h t0 ph p w t :
    GI cfg roles g -> In (ESubmit a p0 pr h t0) (glog g) -> In (EEnter a ph p w t) (glog g) ->
    p = p0 /\ roles t = RWorker p0 w.
  Proof.
    intros G Hs He.
    destruct (gi_sub _ _ _ G _ _ _ _ _ Hs) as (tk & H1 & H2 & _).
    destruct (gi_enter _ _ _ G _ _ _ _ _ He) as (H3 & (tk' & H4 & H5)).
    assert (tk' = tk) by congruence. subst tk'. split; congruence.
  Qed.

  Lemma pinned_of_submit g a p pr h t0 tk :
    GI cfg roles g -> static_ok (cfg p) -> (pPrio (cfg p) = false \/ pr <> PLow) ->
    In (ESubmit a p pr h t0) (glog g) -> (forall t', ~ In (EYieldTo a t') (glog g)) ->
    get_task g a = Some tk -> pinned cfg g a tk /\ tk_pool tk = p.
  Proof.
    intros G Hok Hpr Hs Hny Ht.
    destruct (gi_sub _ _ _ G _ _ _ _ _ Hs) as (tk' & H1 & H2 & H3 & H4).
    assert (tk' = tk) by congruence. subst tk'. split; [|assumption].
    split; [assumption|]. rewrite H2. split; [assumption|]. split; [|now apply no_yieldto_of].
    destruct Hpr as [?|Hpr]; [now left|right]. rewrite H3. now apply stored_not_low.
  Qed.

  Lemma hint_pinned_GI g a p pr h t0 u ph p' w t :
    GI cfg roles g -> static_ok (cfg p) -> (pPrio (cfg p) = false \/ pr <> PLow) ->
    In (ESubmit a p pr h t0) (glog g) -> hint_num h = Some u ->
    (forall t', ~ In (EYieldTo a t') (glog g)) ->
    In (EEnter a ph p' w t) (glog g) ->
    p' = p /\ w = Z.to_nat (u mod Z.of_nat (pW (cfg p))) /\ roles t = RWorker p w.
  Proof.
    intros G Hok Hpr Hs Hu Hny He.
    destruct (own_pool_GI _ _ _ _ _ _ _ _ _ _ G Hs He) as [-> Hr].
    destruct (gi_sub _ _ _ G _ _ _ _ _ Hs) as (tk & H1 & H2 & H3 & H4).
    destruct (pinned_of_submit _ _ _ _ _ _ _ G Hok Hpr Hs Hny H1) as [Hp _].
    pose proof (gi_penter _ _ _ G _ _ _ _ _ _ Hp He) as Hw. rewrite (H4 _ Hu) in Hw.
    split; [reflexivity|]. split; assumption.
  Qed.

  Lemma same_worker_GI g a p pr h t0 ph1 p1 w1 t1 ph2 p2 w2 t2 :
    GI cfg roles g -> static_ok (cfg p) -> (pPrio (cfg p) = false \/ pr <> PLow) ->
    In (ESubmit a p pr h t0) (glog g) -> (forall t', ~ In (EYieldTo a t') (glog g)) ->
    In (EEnter a ph1 p1 w1 t1) (glog g) -> In (EEnter a ph2 p2 w2 t2) (glog g) ->
    p1 = p /\ p2 = p /\ w1 = w2.
  Proof.
    intros G Hok Hpr Hs Hny He1 He2.
    destruct (own_pool_GI _ _ _ _ _ _ _ _ _ _ G Hs He1) as [-> _].
    destruct (own_pool_GI _ _ _ _ _ _ _ _ _ _ G Hs He2) as [-> _].
    destruct (gi_sub _ _ _ G _ _ _ _ _ Hs) as (tk & H1 & _).
    destruct (pinned_of_submit _ _ _ _ _ _ _ G Hok Hpr Hs Hny H1) as [Hp _].
    rewrite (gi_penter _ _ _ G _ _ _ _ _ _ Hp He1), (gi_penter _ _ _ G _ _ _ _ _ _ Hp He2). auto.
  Qed.
End G.

(* ------------------------------------------------------------------ the bulk invariant *)
Section B.
  Variable cfg : nat -> pool_cfg.
  Variable roles : nat -> role.
  Variable bp : bulk_par.
  Let W := pW (cfg (bp_pool bp)).

  Definition has_task (g : gstate) (a : nat) : Prop := exists tk, get_task g a = Some tk.

  Record BI (g : gstate) (b : bk_state) : Prop := {
    bi_sv : forall a0 t0 lw, bk_sv b = Some (a0, t0, lw) ->
            has_task g a0 /\ exists p0 ph, roles t0 = RWorker p0 lw /\ In (EEnter a0 ph p0 lw t0) (glog g);
    bi_none : bk_sv b = None -> bk_tasks b = [] /\ bk_calls b = [];
    bi_tasks : forall a k, In (a, k) (bk_tasks b) ->
               exists a0 t0 lw, bk_sv b = Some (a0, t0, lw) /\ a <> a0 /\ k <> lw /\ k < W /\
                 part_nonempty W (bp_n bp) k = true /\
                 In (ESubmit a (bp_pool bp) (bp_prio bp) (bulk_task_hint (bp_hint bp) k) t0) (glog g);
    bi_calls : forall fc, In fc (bk_calls b) ->
               exists a0 t0 lw lbl, bk_sv b = Some (a0, t0, lw) /\
                 In (ECall lbl (CTask (fc_task fc)) (fc_thr fc)) (glog g) /\
                 ((fc_task fc <> a0 /\ In (fc_task fc, fc_k fc) (bk_tasks b)) \/
                  (fc_task fc = a0 /\ fc_k fc = lw))
  }.

  Lemma has_task_ext g g' a : gext g g' -> has_task g a -> has_task g' a.
  Proof. intros X [tk H]. destruct (ge_fwd _ _ X _ _ H) as (tk' & H' & _). now exists tk'. Qed.

  Lemma BI_ext g g' b : gext g g' -> BI g b -> BI g' b.
  Proof.
    intros X B. constructor.
    - intros a0 t0 lw H. destruct (bi_sv _ _ B _ _ _ H) as (H1 & p0 & ph & H2 & H3).
      split; [eapply has_task_ext; eauto|]. exists p0, ph. split; [assumption|]. eapply In_ext; eauto.
    - apply (bi_none _ _ B).
    - intros a k H. destruct (bi_tasks _ _ B _ _ H) as (a0 & t0 & lw & H1 & H2 & H3 & H4 & H5 & H6).
      exists a0, t0, lw. repeat split; auto. eapply In_ext; eauto.
    - intros fc H. destruct (bi_calls _ _ B _ H) as (a0 & t0 & lw & lbl & H1 & H2 & H3).
      exists a0, t0, lw, lbl. repeat split; auto. eapply In_ext; eauto.
  Qed.

  (* what the two Placement steps issued by the bulk layer log *)
  Lemma spawn_step_log t g l p w a p' pr h :
    pc l = Idle -> lrole l = RWorker p w -> cur l = Some a ->
    In (ESubmit (length (tasks g)) p' pr h t) (glog (fst (pl_tstep cfg (OAct (ASpawn p' pr h)) t g l))).
  Proof.
    intros Hpc Hr Hc. unfold pl_tstep. rewrite Hpc, Hr, Hc. cbn [act_task is_do_yield].
    destruct (spawn cfg t g p' pr h) as [g1 c1] eqn:E. cbn [fst].
    assert (g1 = fst (spawn cfg t g p' pr h)) by now rewrite E. subst g1. clear E.
    unfold spawn.
    match goal with |- In _ (glog (fst (begin_enqueue _ _ ?g1 _ _ _ _ _))) =>
      destruct (ge_log _ _ (begin_gext cfg t g1 p' (length (tasks g)) (qkind_of (cfg p') pr) h false)) as [evs Hl]
    end.
    rewrite Hl. apply in_or_app. right. now left.
  Qed.

  Lemma call_step_log t g l p w a lbl :
    pc l = Idle -> lrole l = RWorker p w -> cur l = Some a ->
    In (ECall lbl (CTask a) t) (glog (fst (pl_tstep cfg (OAct (ACall lbl)) t g l))).
  Proof.
    intros Hpc Hr Hc. unfold pl_tstep. rewrite Hpc, Hr, Hc. cbn [act_task is_do_yield fst log_ev glog]. now left.
  Qed.

  Definition CI (G : gstate * bk_state) (ls : nat -> local) : Prop :=
    Inv cfg roles (fst G) ls /\ BI (fst G) (snd G).

  Lemma CI_intro g b ls : Inv cfg roles g ls -> BI g b -> CI (g, b) ls.
  Proof. intros; split; assumption. Qed.

  Lemma BI_eq g b b' :
    bk_sv b' = bk_sv b -> bk_tasks b' = bk_tasks b -> bk_calls b' = bk_calls b -> BI g b -> BI g b'.
  Proof. intros E1 E2 E3 B. constructor; rewrite ?E1, ?E2, ?E3; apply B. Qed.

  Lemma pl_part o t g ls :
    Inv cfg roles g ls ->
    let r := pl_tstep cfg o t g (ls t) in
    Inv cfg roles (fst r) (upd ls t (snd r)) /\ gext g (fst r).
  Proof.
    intros I. split; [now apply Inv_step|]. destruct I as [G L]. now destruct (step_ok cfg roles o t g (ls t) G (L t)).
  Qed.

  Lemma Inv_stutter g ls t : Inv cfg roles g ls -> Inv cfg roles g (upd ls t (ls t)).
  Proof.
    intros [G L]. split; [assumption|]. intros t'. unfold upd. destruct (Nat.eqb_spec t' t) as [->|]; apply L.
  Qed.

  Lemma CI_step o t G ls : CI G ls ->
    CI (fst (bk_tstep cfg bp o t G (ls t))) (upd ls t (snd (bk_tstep cfg bp o t G (ls t)))).
  Proof.
    destruct G as [g b]. intros [I B]. cbn [fst snd] in I, B.
    assert (Stut : CI (g, b) (upd ls t (ls t))) by (split; [now apply Inv_stutter|assumption]).
    pose proof I as [GIg LIg].
    unfold bk_tstep. cbn [fst snd]. destruct o as [o'| | |i].
    - (* BO *)
      destruct (pl_part o' t g ls I) as [I' X]. destruct (pl_tstep cfg o' t g (ls t)) as [g' l'].
      cbn [fst snd] in *. apply CI_intro; [assumption|]. eapply BI_ext; eauto.
    - (* BSetValue *)
      destruct (pc (ls t)) eqn:Epc; try exact Stut.
      destruct (lrole (ls t)) as [|p0 w] eqn:Er; try exact Stut.
      destruct (cur (ls t)) as [a|] eqn:Ec; try exact Stut.
      destruct (bk_sv b) as [[[? ?] ?]|] eqn:Esv; try exact Stut.
      destruct (bp_n bp =? 0)%N; [exact Stut|].
      cbn [fst snd]. apply CI_intro; [now apply Inv_stutter|].
      destruct (bi_none _ _ B Esv) as [Ht Hc].
      destruct (li_cur _ _ _ _ _ (LIg t) _ Ec) as (p1 & w1 & ph & R & (tk & Htk & _) & He).
      pose proof (li_role _ _ _ _ _ (LIg t)) as R0. rewrite Er in R0. rewrite <- R0 in R. inv R.
      constructor; cbn [bk_sv bk_tasks bk_calls].
      + intros a0 t0 lw H. inv H. split; [now exists tk|]. exists p1, ph. split; [now symmetry|assumption].
      + discriminate.
      + rewrite Ht. intros ? ? [].
      + rewrite Hc. intros ? [].
    - (* BLoop *)
      destruct (pc (ls t)) eqn:Epc; try exact Stut.
      destruct (lrole (ls t)) as [|p0 w] eqn:Er; try exact Stut.
      destruct (cur (ls t)) as [a|] eqn:Ec; try exact Stut.
      destruct (bk_sv b) as [[[a0 t0] lw]|] eqn:Esv; try exact Stut.
      destruct (Nat.eqb a a0 && Nat.eqb t t0 && (bk_loop b <? pW (cfg (bp_pool bp)))) eqn:Eg; [|exact Stut].
      apply andb_prop in Eg. destruct Eg as [Eg Elt]. apply andb_prop in Eg. destruct Eg as [Ea Et].
      apply Nat.eqb_eq in Ea. apply Nat.eqb_eq in Et. apply Nat.ltb_lt in Elt. subst a t.
      destruct (Nat.eqb (bk_loop b) lw || negb (part_nonempty (pW (cfg (bp_pool bp))) (bp_n bp) (bk_loop b))) eqn:Esk.
      + cbn [fst snd]. apply CI_intro; [now apply Inv_stutter|].
        apply BI_eq with b; auto.
      + apply orb_false_elim in Esk. destruct Esk as [Ek Ene]. apply Nat.eqb_neq in Ek. apply negb_false_iff in Ene.
        set (h := bulk_task_hint (bp_hint bp) (bk_loop b)).
        pose proof (spawn_step_log t0 g (ls t0) p0 w a0 (bp_pool bp) (bp_prio bp) h Epc Er Ec) as Hsub.
        destruct (pl_part (OAct (ASpawn (bp_pool bp) (bp_prio bp) h)) t0 g ls I) as [I' X].
        destruct (pl_tstep cfg (OAct (ASpawn (bp_pool bp) (bp_prio bp) h)) t0 g (ls t0)) as [g' l'].
        cbn [fst snd] in *. apply CI_intro; [assumption|].
        pose proof (BI_ext _ _ _ X B) as B'.
        destruct (bi_sv _ _ B _ _ _ Esv) as ([tk0 Htk0] & _).
        rewrite <- Esv.
        constructor; cbn [bk_sv bk_tasks bk_calls].
        * apply (bi_sv _ _ B').
        * rewrite Esv. discriminate.
        * intros a k [H|H].
          -- inv H. exists a0, t0, lw. split; [assumption|]. split.
             ++ apply get_task_lt in Htk0. lia.
             ++ repeat split; auto.
          -- apply (bi_tasks _ _ B' _ _ H).
        * intros fc H. destruct (bi_calls _ _ B' _ H) as (a1 & t1 & lw1 & lbl & H1 & H2 & H3).
          exists a1, t1, lw1, lbl. split; [assumption|]. split; [assumption|].
          destruct H3 as [[H3 H4]|H3]; [left; split; [assumption|now right]|now right].
    - (* BF *)
      destruct (pc (ls t)) eqn:Epc; try exact Stut.
      destruct (lrole (ls t)) as [|p0 w] eqn:Er; try exact Stut.
      destruct (cur (ls t)) as [a|] eqn:Ec; try exact Stut.
      destruct (fcall_k cfg bp b a) as [k|] eqn:Ek; [|exact Stut].
      pose proof (call_step_log t g (ls t) p0 w a (N.to_nat i) Epc Er Ec) as Hcall.
      destruct (pl_part (OAct (ACall (N.to_nat i))) t g ls I) as [I' X].
      destruct (pl_tstep cfg (OAct (ACall (N.to_nat i))) t g (ls t)) as [g' l'].
      cbn [fst snd] in *. apply CI_intro; [assumption|].
      pose proof (BI_ext _ _ _ X B) as B'.
      constructor; cbn [bk_sv bk_tasks bk_calls]; [apply (bi_sv _ _ B')| |apply (bi_tasks _ _ B')|].
      + intros H. unfold fcall_k in Ek. rewrite H in Ek. discriminate.
      + intros fc [H|H]; [|apply (bi_calls _ _ B' _ H)].
        subst fc. cbn [fc_task fc_thr fc_k]. unfold fcall_k in Ek.
        destruct (bk_sv b) as [[[a0 t0] lw]|] eqn:Esv; [|discriminate].
        exists a0, t0, lw, (N.to_nat i). split; [reflexivity|]. split; [assumption|].
        destruct (Nat.eqb_spec a a0) as [->|Na].
        * right. destruct (_ <=? _); inv Ek. auto.
        * left. split; [assumption|]. now apply lookup_In.
  Qed.

  Lemma CI_init : CI (g_init, bk_init) (l_init roles).
  Proof.
    apply CI_intro; [apply Inv_init|]. constructor; cbn [bk_init bk_sv bk_tasks bk_calls In]; try discriminate; tauto.
  Qed.

  Lemma CI_run sched :
    CI (fst (bk_run cfg bp roles sched)) (snd (bk_run cfg bp roles sched)).
  Proof.
    unfold bk_run. apply (run_inv _ _ _ (bk_tstep cfg bp) CI).
    - intros; now apply CI_step.
    - apply CI_init.
  Qed.
End B.

(* ------------------------------------------------------------------ run-level statements *)
Definition bk_g cfg bp roles sched : gstate := fst (fst (bk_run cfg bp roles sched)).
Definition bk_b cfg bp roles sched : bk_state := snd (fst (bk_run cfg bp roles sched)).

Lemma bk_GI cfg bp roles sched : GI cfg roles (bk_g cfg bp roles sched).
Proof. apply (CI_run cfg roles bp sched). Qed.
Lemma bk_BI cfg bp roles sched : BI cfg roles bp (bk_g cfg bp roles sched) (bk_b cfg bp roles sched).
Proof. apply (CI_run cfg roles bp sched). Qed.

(* every f(i): inside a pika task, called by the worker that entered that task; it is either the task
   in which set_value ran (the local part, worker_thread = the local worker number read by set_value)
   or a task that the spawn loop registered on the scheduler's pool with the hint of its queue, which
   is a different task (never inline in set_value / in the caller of start) and runs on that pool *)
Lemma bulk_runs_on_pool_lemma cfg bp roles sched :
  let g := bk_g cfg bp roles sched in
  let b := bk_b cfg bp roles sched in
  forall fc, In fc (bk_calls b) ->
  exists a0 t0 lw pw w ph,
    bk_sv b = Some (a0, t0, lw) /\
    roles (fc_thr fc) = RWorker pw w /\ In (EEnter (fc_task fc) ph pw w (fc_thr fc)) (glog g) /\
    ((fc_task fc <> a0 /\ pw = bp_pool bp /\ fc_k fc <> lw /\ fc_k fc < pW (cfg (bp_pool bp)) /\
      part_nonempty (pW (cfg (bp_pool bp))) (bp_n bp) (fc_k fc) = true /\
      In (ESubmit (fc_task fc) (bp_pool bp) (bp_prio bp) (bulk_task_hint (bp_hint bp) (fc_k fc)) t0) (glog g)) \/
     (fc_task fc = a0 /\ fc_k fc = lw /\
      forall pr0 h0 t00, In (ESubmit a0 (bp_pool bp) pr0 h0 t00) (glog g) -> pw = bp_pool bp)).
Proof.
  cbn zeta. intros fc Hfc.
  pose proof (bk_GI cfg bp roles sched) as G. pose proof (bk_BI cfg bp roles sched) as B.
  destruct (bi_calls _ _ _ _ _ B _ Hfc) as (a0 & t0 & lw & lbl & Hsv & Hcall & Hk).
  destruct (gi_call _ _ _ G _ _ _ Hcall) as (pw & w & ph & Hr & He).
  exists a0, t0, lw, pw, w, ph. split; [assumption|]. split; [assumption|]. split; [assumption|].
  destruct Hk as [[Hne Hin]|[Heq Hkl]].
  - left. destruct (bi_tasks _ _ _ _ _ B _ _ Hin) as (a1 & t1 & lw1 & Hsv1 & H2 & H3 & H4 & H5 & H6).
    rewrite Hsv in Hsv1. inv Hsv1.
    destruct (own_pool_GI _ _ _ _ _ _ _ _ _ _ _ _ G H6 He) as [-> _]. repeat split; auto.
  - right. split; [assumption|]. split; [assumption|]. intros pr0 h0 t00 Hs. rewrite Heq in He.
    now destruct (own_pool_GI _ _ _ _ _ _ _ _ _ _ _ _ G Hs He) as [-> _].
Qed.

(* f is never called outside a pika task (external OS thread), whatever thread called start() *)
Lemma bulk_never_external_lemma cfg bp roles sched fc :
  In fc (bk_calls (bk_b cfg bp roles sched)) -> roles (fc_thr fc) <> RExt.
Proof.
  intros H. destruct (bulk_runs_on_pool_lemma cfg bp roles sched fc H) as (? & ? & ? & pw & w & ? & _ & Hr & _).
  rewrite Hr. discriminate.
Qed.

(* static policy: the task_function of queue k, when it is a spawned task, runs on worker
   size_t(hint) mod W where hint = k unless the scheduler has its own hint *)
Lemma bulk_static_spawned_lemma cfg bp roles sched fc a0 t0 lw u pw w :
  let g := bk_g cfg bp roles sched in
  let b := bk_b cfg bp roles sched in
  In fc (bk_calls b) -> bk_sv b = Some (a0, t0, lw) -> fc_task fc <> a0 ->
  static_ok (cfg (bp_pool bp)) -> (pPrio (cfg (bp_pool bp)) = false \/ bp_prio bp <> PLow) ->
  (forall t', ~ In (EYieldTo (fc_task fc) t') (glog g)) ->
  hint_num (bulk_task_hint (bp_hint bp) (fc_k fc)) = Some u ->
  roles (fc_thr fc) = RWorker pw w ->
  pw = bp_pool bp /\ w = Z.to_nat (u mod Z.of_nat (pW (cfg (bp_pool bp)))).
Proof.
  cbn zeta. intros Hfc Hsv Hne Hok Hpr Hny Hu Hr.
  pose proof (bk_GI cfg bp roles sched) as G.
  destruct (bulk_runs_on_pool_lemma cfg bp roles sched fc Hfc) as (a1 & t1 & lw1 & pw1 & w1 & ph & Hsv1 & Hr1 & He & Hc).
  rewrite Hsv in Hsv1. inv Hsv1. rewrite Hr in Hr1. inv Hr1.
  destruct Hc as [(_ & -> & _ & _ & _ & Hs)|(Heq & _)]; [|contradiction].
  destruct (hint_pinned_GI _ _ _ _ _ _ _ _ _ _ _ _ _ G Hok Hpr Hs Hu Hny He) as (_ & -> & _). auto.
Qed.

(* scheduler without a hint of its own: the spawned task for queue k runs on worker k *)
Lemma bulk_static_unhinted_lemma cfg bp roles sched fc a0 t0 lw pw w :
  let g := bk_g cfg bp roles sched in
  let b := bk_b cfg bp roles sched in
  In fc (bk_calls b) -> bk_sv b = Some (a0, t0, lw) -> fc_task fc <> a0 ->
  static_ok (cfg (bp_pool bp)) -> (pPrio (cfg (bp_pool bp)) = false \/ bp_prio bp <> PLow) ->
  (forall t', ~ In (EYieldTo (fc_task fc) t') (glog g)) ->
  bp_hint bp = HNone ->
  roles (fc_thr fc) = RWorker pw w ->
  pw = bp_pool bp /\ w = fc_k fc.
Proof.
  cbn zeta. intros Hfc Hsv Hne Hok Hpr Hny Hh Hr.
  destruct (bulk_runs_on_pool_lemma cfg bp roles sched fc Hfc) as (a1 & t1 & lw1 & pw1 & w1 & ph & Hsv1 & _ & _ & Hc).
  rewrite Hsv in Hsv1. inv Hsv1.
  destruct Hc as [(_ & _ & _ & Hlt & _)|(Heq & _)]; [|contradiction].
  pose proof Hok as (_ & _ & _ & HW & H15).
  assert (Hu : hint_num (bulk_task_hint (bp_hint bp) (fc_k fc)) = Some (Z.of_nat (fc_k fc))).
  { rewrite Hh. cbn [bulk_task_hint]. apply hint_num_worker. lia. }
  destruct (bulk_static_spawned_lemma cfg bp roles sched fc a1 t1 lw1 _ pw w Hfc Hsv Hne Hok Hpr Hny Hu Hr) as [-> ->].
  split; [reflexivity|]. rewrite Z.mod_small by lia. apply Nat2Z.id.
Qed.

(* static policy: the local part runs on the worker that set_value read as local_worker_thread,
   provided the task in which set_value runs was itself created on the scheduler's pool *)
Lemma bulk_static_local_lemma cfg bp roles sched fc a0 t0 lw pr0 h0 t00 pw w :
  let g := bk_g cfg bp roles sched in
  let b := bk_b cfg bp roles sched in
  In fc (bk_calls b) -> bk_sv b = Some (a0, t0, lw) -> fc_task fc = a0 ->
  In (ESubmit a0 (bp_pool bp) pr0 h0 t00) (glog g) ->
  static_ok (cfg (bp_pool bp)) -> (pPrio (cfg (bp_pool bp)) = false \/ pr0 <> PLow) ->
  (forall t', ~ In (EYieldTo a0 t') (glog g)) ->
  roles (fc_thr fc) = RWorker pw w ->
  pw = bp_pool bp /\ w = lw /\ fc_k fc = lw.
Proof.
  cbn zeta. intros Hfc Hsv Heq Hs Hok Hpr Hny Hr.
  pose proof (bk_GI cfg bp roles sched) as G. pose proof (bk_BI cfg bp roles sched) as B.
  destruct (bulk_runs_on_pool_lemma cfg bp roles sched fc Hfc) as (a1 & t1 & lw1 & pw1 & w1 & ph & Hsv1 & Hr1 & He & Hc).
  rewrite Hsv in Hsv1. inv Hsv1. rewrite Hr in Hr1. inv Hr1.
  destruct Hc as [(Hne & _)|(_ & Hk & _)]; [contradiction|].
  destruct (bi_sv _ _ _ _ _ B _ _ _ Hsv) as (_ & p0 & ph0 & _ & He0).
  destruct (same_worker_GI _ _ _ _ _ _ _ _ _ _ _ _ _ _ _ _ G Hok Hpr Hs Hny He He0) as (-> & _ & ->). auto.
Qed.

(* soundness of the acceptor used by the harness *)
Lemma static_okb_spec c pr : static_okb c pr = true -> static_ok c /\ (pPrio c = false \/ pr <> PLow).
Proof.
  unfold static_okb, static_ok. intros H.
  repeat (apply andb_prop in H; destruct H as [H ?]).
  apply negb_true_iff in H. rewrite H.
  match goal with X : negb (pElastic c) = true |- _ => apply negb_true_iff in X; rewrite X end.
  match goal with X : (0 <? pW c) = true |- _ => apply Nat.ltb_lt in X end.
  match goal with X : (_ <=? _)%Z = true |- _ => apply Z.leb_le in X end.
  repeat split; auto.
  - match goal with X : negb (pPrio c) || Nat.eqb _ _ = true |- _ => apply orb_prop in X; destruct X as [X|X] end;
      [left; now apply negb_true_iff|right; now apply Nat.eqb_eq].
  - match goal with X : negb (pPrio c) || negb (prio_low pr) = true |- _ => apply orb_prop in X; destruct X as [X|X] end;
      [left; now apply negb_true_iff|right; intros ->; discriminate].
Qed.

Lemma bulk_allowed_sound_lemma cfg bp roles sched fc a0 t0 lw pr0 h0 t00 pw w :
  let g := bk_g cfg bp roles sched in
  let b := bk_b cfg bp roles sched in
  In fc (bk_calls b) -> bk_sv b = Some (a0, t0, lw) ->
  In (ESubmit a0 (bp_pool bp) pr0 h0 t00) (glog g) ->
  (forall a t', ~ In (EYieldTo a t') (glog g)) ->
  roles (fc_thr fc) = RWorker pw w ->
  bulk_allowed cfg bp pr0 lw (fc_k fc) pw w = true.
Proof.
  cbn zeta. intros Hfc Hsv Hs Hny Hr.
  destruct (bulk_runs_on_pool_lemma cfg bp roles sched fc Hfc) as (a1 & t1 & lw1 & pw1 & w1 & ph & Hsv1 & Hr1 & He & Hc).
  rewrite Hsv in Hsv1. inv Hsv1. rewrite Hr in Hr1. inv Hr1.
  unfold bulk_allowed, bulk_worker.
  destruct Hc as [(Hne & -> & Hkl & Hlt & Hnz & Hsub)|(Heq & Hk & Hp)].
  - rewrite Nat.eqb_refl. cbn [andb].
    apply Nat.eqb_neq in Hkl. rewrite Hkl. cbn [orb]. apply Nat.ltb_lt in Hlt. rewrite Hlt, Hnz. cbn [andb].
    destruct (static_okb (cfg (bp_pool bp)) (bp_prio bp)) eqn:Eok; [|reflexivity].
    destruct (static_okb_spec _ _ Eok) as [Hok Hpr].
    destruct (hint_num (bulk_task_hint (bp_hint bp) (fc_k fc))) as [u|] eqn:Eu; [|reflexivity].
    destruct (bulk_static_spawned_lemma cfg bp roles sched fc a1 t1 lw1 u _ w1 Hfc Hsv Hne Hok Hpr (Hny _) Eu Hr) as [_ ->].
    apply Nat.eqb_refl.
  - rewrite (Hp _ _ _ Hs), Nat.eqb_refl. cbn [andb]. rewrite Hk, Nat.eqb_refl. cbn [orb andb].
    destruct (static_okb (cfg (bp_pool bp)) pr0) eqn:Eok; [|reflexivity].
    destruct (static_okb_spec _ _ Eok) as [Hok Hpr].
    destruct (bulk_static_local_lemma cfg bp roles sched fc a1 t1 lw1 pr0 h0 t00 _ w1 Hfc Hsv Heq Hs Hok Hpr (Hny _) Hr) as (_ & -> & _).
    apply Nat.eqb_refl.
Qed.
