(* Proofs/ErasedProofs.v — lemmas about Model/Erased.v (C18). *)
From Coq Require Import List Bool Arith ZArith NArith Lia Permutation.
From Pika Require Import Model.Erased.
Import ListNotations.

Definition cnt := count_occ Nat.eq_dec.

(* ------------------------------------------------------------------ lists *)
Lemma length_set_nth {A} (l : list A) j x : length (set_nth j x l) = length l.
Proof. revert j; induction l as [|h t IH]; intros [|j]; cbn; auto. Qed.

Lemma nth_set_nth_eq {A} (l : list A) j x d : j < length l -> nth j (set_nth j x l) d = x.
Proof. revert j; induction l as [|h t IH]; intros [|j] Hj; cbn in *; try lia; auto. apply IH; lia. Qed.

Lemma nth_set_nth_neq {A} (l : list A) j i x d : j <> i -> nth j (set_nth i x l) d = nth j l d.
Proof.
  revert j i; induction l as [|h t IH]; intros [|j] [|i] Hn; cbn; auto; try lia.
Qed.

Lemma set_nth_same {A} (l : list A) j d : set_nth j (nth j l d) l = l.
Proof. revert j; induction l as [|h t IH]; intros [|j]; cbn; auto. f_equal; apply IH. Qed.

Lemma map_set_nth {A B} (f : A -> B) l j x : map f (set_nth j x l) = set_nth j (f x) (map f l).
Proof. revert j; induction l as [|h t IH]; intros [|j]; cbn; auto. f_equal; apply IH. Qed.

Lemma cnt_app l1 l2 x : cnt (l1 ++ l2) x = cnt l1 x + cnt l2 x.
Proof. apply count_occ_app. Qed.

Lemma cnt_ids_set l j s x : j < length l ->
  cnt (ids (set_nth j s l)) x + cnt (sid (nth j l Empty)) x = cnt (sid s) x + cnt (ids l) x.
Proof.
  unfold ids. revert j; induction l as [|h t IH]; intros [|j] Hj; cbn [length] in Hj; try lia.
  - cbn [set_nth nth flat_map]. rewrite !cnt_app. lia.
  - cbn [set_nth nth flat_map]. rewrite !cnt_app. specialize (IH j ltac:(lia)). lia.
Qed.

Lemma cnt_seq n x : cnt (seq 0 n) x = if x <? n then 1 else 0.
Proof.
  induction n as [|n IH].
  - reflexivity.
  - rewrite seq_S, cnt_app, IH. cbn [cnt count_occ plus].
    destruct (Nat.eq_dec n x); destruct (Nat.ltb_spec x n); destruct (Nat.ltb_spec x (S n)); lia.
Qed.

(* ------------------------------------------------------------------ ledger invariant *)
(* [held]: the identities of the objects owned right now (by wrappers and by the running
   operation).  Every identity below [n] was constructed exactly once and is either held
   or destroyed exactly once; nothing else was ever constructed or destroyed. *)
Definition linvr (held : list nat) (n : nat) (log : list event) : Prop :=
  (forall x, cnt held x + cnt (flat_map ev_dtor log) x = if x <? n then 1 else 0) /\
  (forall x, cnt (flat_map ev_ctor log) x = if x <? n then 1 else 0).
Definition linv (held : list nat) (L : ledger) : Prop := linvr held (nxt L) (elog L).

Lemma linv_cnt_eq h h' L : (forall x, cnt h x = cnt h' x) -> linv h L -> linv h' L.
Proof. intros E [H1 H2]; split; auto. intro x; rewrite <- E; apply H1. Qed.

Ltac crush :=
  repeat match goal with
  | |- context [Nat.eq_dec ?a ?b] => destruct (Nat.eq_dec a b); try subst
  | H : context [Nat.eq_dec ?a ?b] |- _ => destruct (Nat.eq_dec a b); try subst
  end;
  repeat match goal with
  | |- context [?a <? ?b] => destruct (Nat.ltb_spec a b)
  | H : context [?a <? ?b] |- _ => destruct (Nat.ltb_spec a b)
  end; try lia.

(* release of an arbitrary (possibly nested) storage *)
Lemma release_nxt s : forall L, nxt (release s L) = nxt L.
Proof. induction s; intro L; cbn [release destroy nxt]; auto. Qed.
Lemma release_dt s : forall L x,
  count_occ Nat.eq_dec (flat_map ev_dtor (elog (release s L))) x =
  count_occ Nat.eq_dec (sid s) x + count_occ Nat.eq_dec (flat_map ev_dtor (elog L)) x.
Proof.
  induction s; intros L x; cbn [release destroy elog sid flat_map ev_dtor app count_occ]; auto.
  - destruct (Nat.eq_dec (oid o) x); lia.
  - destruct (Nat.eq_dec (oid o) x); lia.
Qed.
Lemma release_ct s : forall L x,
  count_occ Nat.eq_dec (flat_map ev_ctor (elog (release s L))) x =
  count_occ Nat.eq_dec (flat_map ev_ctor (elog L)) x.
Proof. induction s; intros L x; cbn [release destroy elog flat_map ev_ctor app]; auto. Qed.

Ltac red_led :=
  cbn [cnt count_occ flat_map ev_dtor ev_ctor app sid nxt elog oid ov fst snd
       release destroy fresh_obj copy_obj move_obj mk is_empty with_obj] in *.

(* the local preservation properties of wrapper operations *)
Definition local1 (f : storage -> ledger -> outcome * storage * ledger) : Prop :=
  forall s L held, linv (sid s ++ held) L ->
    match f s L with (_, s', L') => linv (sid s' ++ held) L' end.
Definition local2 (f : storage -> storage -> ledger -> outcome * storage * storage * ledger) : Prop :=
  forall a b L held, linv (sid a ++ sid b ++ held) L ->
    match f a b L with (_, a', b', L') => linv (sid a' ++ sid b' ++ held) L' end.

Ltac finish H1 H2 :=
  red_led; split; (let x := fresh "x" in intro x; specialize (H1 x); specialize (H2 x); red_led;
    unfold cnt in *;
    rewrite ?release_nxt, ?release_dt, ?release_ct, ?count_occ_app in *; red_led; crush).

Ltac ifs :=
  repeat match goal with
  | |- context [if ?c then _ else _] =>
    lazymatch c with
    | Nat.eq_dec _ _ => fail
    | Nat.ltb _ _ => fail
    | _ => destruct c
    end
  end.

Lemma w_store_local sbo v mv ctor : local1 (w_store sbo v mv ctor).
Proof.
  unfold local1, w_store, s_store, linv, linvr. intros s L held [H1 H2].
  destruct s as [|o|o|n], mv, ctor; red_led; ifs; finish H1 H2.
Qed.

Lemma w_move_local : local2 w_move.
Proof.
  unfold local2, w_move, s_move_assign, linv, linvr. intros a b L held [H1 H2].
  destruct a as [|o|o|n], b as [|p|p|m]; red_led; finish H1 H2.
Qed.

Lemma w_move_from_any_local : local2 w_move_from_any.
Proof.
  unfold local2, w_move_from_any, s_move_assign, linv, linvr. intros a b L held [H1 H2].
  destruct a as [|o|o|n], b as [|p|p|m]; red_led; finish H1 H2.
Qed.

Lemma w_copy_local : local2 w_copy.
Proof.
  unfold local2, w_copy, s_copy_assign, s_copy1, linv, linvr. intros a b L held [H1 H2].
  destruct a as [|o|o|n], b as [|p|p|[|q|q|m]]; red_led; finish H1 H2.
Qed.

Lemma w_nest_local : local2 w_nest.
Proof.
  unfold local2, w_nest, s_copy_assign, s_copy1, linv, linvr. intros a b L held [H1 H2].
  destruct a as [|o|o|n], b as [|p|p|[|q|q|m]]; red_led; finish H1 H2.
Qed.

Lemma w_reset_local : local1 w_reset.
Proof.
  unfold local1, w_reset, linv, linvr. intros s L held [H1 H2].
  destruct s as [|o|o|n]; red_led; finish H1 H2.
Qed.

Lemma w_connect_rv_local sbo : local1 (w_connect_rv sbo).
Proof.
  unfold local1, w_connect_rv, w_connect_rv1, s_move_assign, linv, linvr. intros s L held [H1 H2].
  destruct s as [|o|o|[|p|p|m]]; red_led; ifs; finish H1 H2.
Qed.

Lemma w_connect_lv_local sbo : local1 (w_connect_lv sbo).
Proof.
  unfold local1, w_connect_lv, w_connect_lv1, linv, linvr. intros s L held [H1 H2].
  destruct s as [|o|o|[|p|p|m]]; red_led; ifs; finish H1 H2.
Qed.

Lemma f_store_local v mv ctor : local1 (f_store v mv ctor).
Proof.
  unfold local1, f_store, f_assign, fn_place, linv, linvr. intros s L held [H1 H2].
  destruct s as [|o|o|n], mv, ctor; red_led; ifs; finish H1 H2.
Qed.

Lemma f_store_fn_local v ie mvi mv : local1 (f_store_fn v ie mvi mv).
Proof.
  unfold local1, f_store_fn, fn_place, linv, linvr. intros s L held [H1 H2].
  destruct s as [|o|o|n], ie, mvi, mv; red_led; ifs; finish H1 H2.
Qed.

Lemma f_copy_ctor_local : local2 f_copy_ctor.
Proof.
  unfold local2, f_copy_ctor, f_clone, f_clone1, fn_place, linv, linvr. intros a b L held [H1 H2].
  destruct a as [|o|o|n], b as [|p|p|[|q|q|m]]; red_led; ifs; finish H1 H2.
Qed.

Lemma f_move_ctor_local : local2 f_move_ctor.
Proof.
  unfold local2, f_move_ctor, linv, linvr. intros a b L held [H1 H2].
  destruct a as [|o|o|n], b as [|p|p|m]; red_led; finish H1 H2.
Qed.

Lemma f_copy_assign_local : local2 f_copy_assign.
Proof.
  unfold local2, f_copy_assign, vptr_eq, f_clone, f_clone1, fn_place, linv, linvr. intros a b L held [H1 H2].
  destruct a as [|o|o|n], b as [|p|p|[|q|q|m]]; red_led; ifs; finish H1 H2.
Qed.

Lemma f_move_assign_local : local2 f_move_assign.
Proof.
  unfold local2, f_move_assign, linv, linvr. intros a b L held [H1 H2].
  destruct a as [|o|o|n], b as [|p|p|m]; red_led; finish H1 H2.
Qed.

Lemma f_swap_local : local2 f_swap.
Proof.
  unfold local2, f_swap, linv, linvr. intros a b L held [H1 H2].
  destruct a as [|o|o|n], b as [|p|p|m]; red_led; finish H1 H2.
Qed.

Lemma f_reset_local : local1 f_reset.
Proof.
  unfold local1, f_reset, linv, linvr. intros s L held [H1 H2].
  destruct s as [|o|o|n]; red_led; finish H1 H2.
Qed.

Lemma f_invoke_local arg : local1 (f_invoke arg).
Proof.
  unfold local1, f_invoke, f_invoke1, linv, linvr. intros s L held [H1 H2].
  destruct s as [|o|o|[|p|p|m]]; red_led;
    try destruct (call (ov o) arg); try destruct (call (ov p) arg); finish H1 H2.
Qed.

(* ---- throwing constructors: the sender wrappers and the constructing function operations *)
Lemma w_store_throw_local v ctor : local1 (w_store_throw v ctor).
Proof.
  unfold local1, w_store_throw, linv, linvr. intros s L held [H1 H2].
  destruct s as [|o|o|n]; red_led; finish H1 H2.
Qed.
Lemma w_copy_throw_local : local2 w_copy_throw.
Proof.
  unfold local2, w_copy_throw. intros a b L held H. destruct b as [|p|p|m];
    [apply (w_copy_local a Empty L held H)| | |];
    unfold linv, linvr in *; destruct H as [H1 H2]; destruct a as [|o|o|n]; red_led; finish H1 H2.
Qed.
Lemma w_nest_throw_local : local2 w_nest_throw.
Proof.
  unfold local2, w_nest_throw. intros a b L held H. destruct b as [|p|p|m];
    [apply (w_nest_local a Empty L held H)| | |];
    unfold linv, linvr in *; destruct H as [H1 H2]; destruct a as [|o|o|n]; red_led; finish H1 H2.
Qed.
Lemma w_move_throw_local : local2 w_move_throw.
Proof.
  unfold local2, w_move_throw. intros a b L held H. destruct b as [|p|p|m];
    [apply (w_move_local a Empty L held H)|apply (w_move_local a (Heap p) L held H)|
     |apply (w_move_local a (Nested m) L held H)].
  unfold linv, linvr in *; destruct H as [H1 H2]; destruct a as [|o|o|n]; red_led; finish H1 H2.
Qed.
Lemma w_move_from_any_throw_local : local2 w_move_from_any_throw.
Proof.
  unfold local2, w_move_from_any_throw. intros a b L held H. destruct b as [|p|p|m];
    [apply (w_move_from_any_local a Empty L held H)|apply (w_move_from_any_local a (Heap p) L held H)|
     |apply (w_move_from_any_local a (Nested m) L held H)].
  unfold linv, linvr in *; destruct H as [H1 H2]; destruct a as [|o|o|n]; red_led; finish H1 H2.
Qed.
Lemma w_connect_rv_throw_local sbo : local1 (w_connect_rv_throw sbo).
Proof.
  unfold local1, w_connect_rv_throw. intros s L held H.
  destruct s as [|o|o|[|p|p|m]];
    try exact (w_connect_rv_local sbo _ L held H);
    unfold linv, linvr in *; destruct H as [H1 H2]; red_led; finish H1 H2.
Qed.
Lemma f_store_throw_ctor_local v : local1 (f_store_throw v true).
Proof.
  unfold local1, f_store_throw, linv, linvr. intros s L held [H1 H2].
  destruct s as [|o|o|n]; red_led; finish H1 H2.
Qed.
Lemma f_copy_ctor_throw_local : local2 f_copy_ctor_throw.
Proof.
  unfold local2, f_copy_ctor_throw. intros a b L held H. destruct b as [|p|p|m];
    [apply (f_copy_ctor_local a Empty L held H)| | |];
    unfold linv, linvr in *; destruct H as [H1 H2]; destruct a as [|o|o|n]; red_led; finish H1 H2.
Qed.

(* ------------------------------------------------------------------ histories *)
Definition ginv (st : state) : Prop := linv (ids (slots st)) (led st).

Lemma op1_ginv f j st : local1 f -> ginv st -> ginv (snd (op1 f j st)).
Proof.
  unfold ginv, op1, slot. intros Hf Hi.
  destruct (Nat.ltb_spec j (length (slots st))) as [Hj|Hj]; [|exact Hi].
  specialize (Hf (nth j (slots st) Empty) (led st) (ids (set_nth j Empty (slots st)))).
  destruct (f (nth j (slots st) Empty) (led st)) as [[r s'] L'].
  cbn [snd led slots].
  eapply linv_cnt_eq; [|apply Hf].
  - intro x. rewrite cnt_app.
    pose proof (cnt_ids_set (slots st) j s' x Hj).
    pose proof (cnt_ids_set (slots st) j Empty x Hj). cbn [sid cnt count_occ] in *. fold cnt in *. lia.
  - eapply linv_cnt_eq; [|exact Hi].
    intro x. rewrite cnt_app.
    pose proof (cnt_ids_set (slots st) j Empty x Hj). cbn [sid cnt count_occ] in *. fold cnt in *. lia.
Qed.

Lemma op2_ginv f j i st : local2 f -> ginv st -> ginv (snd (op2 f j i st)).
Proof.
  unfold ginv, op2, slot. intros Hf Hi.
  destruct (Nat.ltb_spec j (length (slots st))) as [Hj|Hj]; [|exact Hi].
  destruct (Nat.ltb_spec i (length (slots st))) as [Hi'|Hi']; [|exact Hi].
  destruct (Nat.eqb_spec j i) as [E|E]; [exact Hi|]. cbn [andb negb].
  set (l := slots st) in *.
  specialize (Hf (nth j l Empty) (nth i l Empty) (led st) (ids (set_nth j Empty (set_nth i Empty l)))).
  destruct (f (nth j l Empty) (nth i l Empty) (led st)) as [[[r a'] b'] L'].
  cbn [snd led slots].
  assert (Hji : forall b, j < length (set_nth i b l)) by (intro; rewrite length_set_nth; exact Hj).
  eapply linv_cnt_eq; [|apply Hf].
  - intro x. rewrite !cnt_app.
    pose proof (cnt_ids_set (set_nth i b' l) j a' x (Hji _)) as P1.
    pose proof (cnt_ids_set l i b' x Hi') as P2.
    pose proof (cnt_ids_set (set_nth i Empty l) j Empty x (Hji _)) as P3.
    pose proof (cnt_ids_set l i Empty x Hi') as P4.
    rewrite (nth_set_nth_neq l j i) in P1, P3 by exact E.
    cbn [sid cnt count_occ] in *. fold cnt in *. lia.
  - eapply linv_cnt_eq; [|exact Hi].
    intro x. rewrite !cnt_app.
    pose proof (cnt_ids_set (set_nth i Empty l) j Empty x (Hji _)) as P3.
    pose proof (cnt_ids_set l i Empty x Hi') as P4.
    rewrite (nth_set_nth_neq l j i) in P3 by exact E.
    cbn [sid cnt count_occ] in *. fold cnt in *. lia.
Qed.

Lemma init_ginv n : ginv (init n).
Proof.
  unfold ginv, init, linv, linvr. cbn [led slots nxt elog flat_map].
  assert (E : ids (repeat Empty n) = []) by (unfold ids; induction n; cbn; auto).
  rewrite E. split; intro x; reflexivity.
Qed.

Lemma sstep_ginv sbo op st : ginv st -> ginv (snd (sstep sbo op st)).
Proof.
  destruct op; cbn [sstep]; first [apply op1_ginv | apply op2_ginv];
    auto using w_store_local, w_move_local, w_move_from_any_local, w_copy_local, w_reset_local,
      w_connect_rv_local, w_connect_lv_local, w_nest_local.
Qed.

Lemma fstep_ginv op st : ginv st -> ginv (snd (fstep op st)).
Proof.
  destruct op; cbn [fstep]; first [apply op1_ginv | apply op2_ginv];
    auto using f_store_local, f_copy_ctor_local, f_move_ctor_local, f_copy_assign_local,
      f_move_assign_local, f_swap_local, f_reset_local, f_invoke_local, f_store_fn_local.
Qed.

Lemma run_ginv {Op} (step : Op -> state -> outcome * state) :
  (forall op st, ginv st -> ginv (snd (step op st))) ->
  forall ops st, ginv st -> ginv (run step ops st).
Proof. intros Hs ops; induction ops as [|op r IH]; intros st Hi; cbn [run]; auto. Qed.

Lemma release_all l : forall L held, linv (ids l ++ held) L ->
  linv held (fold_left (fun L s => release s L) l L).
Proof.
  induction l as [|s t IH]; intros L held Hi; cbn [fold_left]; [exact Hi|].
  apply IH. unfold ids in *. cbn [flat_map] in Hi. destruct Hi as [H1 H2].
  unfold linv, linvr.
  destruct s as [|o|o|n]; red_led; split; intro x; specialize (H1 x); specialize (H2 x);
    unfold cnt in *; rewrite ?release_nxt, ?release_dt, ?release_ct, ?count_occ_app in *; red_led; crush.
Qed.

Lemma destroy_all_linv st : ginv st -> linv [] (led (destroy_all st)).
Proof.
  unfold ginv, destroy_all; cbn [led]. intro Hi. apply release_all. rewrite app_nil_r. exact Hi.
Qed.

(* ---- readable consequences of the counting invariant *)
Lemma linv_perm held L : linv held L ->
  Permutation (seq 0 (nxt L)) (held ++ dtors L) /\ Permutation (seq 0 (nxt L)) (ctors L).
Proof.
  intros [H1 H2]. split; apply (Permutation_count_occ Nat.eq_dec); intro x; fold cnt.
  - rewrite cnt_seq, cnt_app. symmetry; apply H1.
  - rewrite cnt_seq. symmetry; apply H2.
Qed.

Lemma NoDup_perm_seq n l : Permutation (seq 0 n) l -> NoDup l.
Proof. intro P. eapply Permutation_NoDup; [exact P|apply seq_NoDup]. Qed.

(* at any point of any history *)
Lemma ginv_facts st : ginv st ->
  NoDup (ctors (led st)) /\ NoDup (ids (slots st) ++ dtors (led st)) /\
  Permutation (ctors (led st)) (ids (slots st) ++ dtors (led st)).
Proof.
  intro Hi. destruct (linv_perm _ _ Hi) as [P1 P2]. repeat split.
  - eapply NoDup_perm_seq; eauto.
  - eapply NoDup_perm_seq; eauto.
  - eapply perm_trans; [apply Permutation_sym; exact P2|exact P1].
Qed.

(* when all wrappers are gone *)
Lemma final_facts st : ginv st ->
  let L := led (destroy_all st) in
  NoDup (ctors L) /\ NoDup (dtors L) /\ Permutation (ctors L) (dtors L).
Proof.
  intro Hi. apply destroy_all_linv in Hi. destruct (linv_perm _ _ Hi) as [P1 P2].
  cbn [app] in P1. cbv zeta. repeat split.
  - eapply NoDup_perm_seq; eauto.
  - eapply NoDup_perm_seq; eauto.
  - eapply perm_trans; [apply Permutation_sym; exact P2|exact P1].
Qed.

Theorem sender_destroyed_once sbo n ops :
  let st := run (sstep sbo) ops (init n) in
  (NoDup (ctors (led st)) /\ NoDup (ids (slots st) ++ dtors (led st)) /\
   Permutation (ctors (led st)) (ids (slots st) ++ dtors (led st))) /\
  let L := led (destroy_all st) in
  NoDup (ctors L) /\ NoDup (dtors L) /\ Permutation (ctors L) (dtors L).
Proof.
  cbv zeta. assert (G : ginv (run (sstep sbo) ops (init n))).
  { apply run_ginv; [intros; apply sstep_ginv; auto|apply init_ginv]. }
  split; [apply ginv_facts|apply final_facts]; exact G.
Qed.

Theorem function_destroyed_once n ops :
  let st := run fstep ops (init n) in
  (NoDup (ctors (led st)) /\ NoDup (ids (slots st) ++ dtors (led st)) /\
   Permutation (ctors (led st)) (ids (slots st) ++ dtors (led st))) /\
  let L := led (destroy_all st) in
  NoDup (ctors L) /\ NoDup (dtors L) /\ Permutation (ctors L) (dtors L).
Proof.
  cbv zeta. assert (G : ginv (run fstep ops (init n))).
  { apply run_ginv; [intros; apply fstep_ginv; auto|apply init_ginv]. }
  split; [apply ginv_facts|apply final_facts]; exact G.
Qed.
