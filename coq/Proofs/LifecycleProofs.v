(* Proofs/LifecycleProofs.v — lemmas for C05 (Model/Lifecycle.v). *)
From Coq Require Import List NArith ZArith Bool Arith Lia.
From Pika Require Import Base.Conc Gen.GenLifecycle Model.Lifecycle.
Import ListNotations.

(* ================================================================== Part 1: API automaton *)
Ltac api_cases s c k :=
  unfold api_step, violates_pre; destruct k, c; destruct s as [p f e cf pd]; destruct p, f; cbn;
  try (destruct (pd =? 0)%N eqn:?; cbn).

Lemma api_err_iff s c k : snd (api_step s c k) = RErr <-> violates_pre s c k = true.
Proof. api_cases s c k; split; intros; congruence. Qed.

Lemma api_err_unchanged s c k : snd (api_step s c k) = RErr -> fst (api_step s c k) = s.
Proof. api_cases s c k; intros; congruence. Qed.

Lemma api_block_unchanged s c k : snd (api_step s c k) = RBlock -> fst (api_step s c k) = s.
Proof. api_cases s c k; intros; congruence. Qed.

Lemma api_ret_inv s c k v : snd (api_step s c k) = RRet v ->
  k = CStop /\ c = FromOs /\ fin s = true /\ ph s <> NoRt /\ v = eres s /\
  (ph s = Sleeping -> pend s = 0%N) /\ fst (api_step s c k) = api0.
Proof.
  api_cases s c k; intros H; try discriminate H; inversion H; subst;
    repeat split; try congruence; intros; try discriminate; apply N.eqb_eq; assumption.
Qed.

Lemma api_stop_blocks_without_finalize s c : fin s = false -> ph s <> NoRt -> c = FromOs ->
  api_step s c CStop = (s, RBlock).
Proof. intros Hf Hp ->. destruct s as [p f e cf pd]; cbn in *; subst; destruct p; cbn; congruence. Qed.

Definition no_ret (rs : list resp) : Prop := forall v, ~ In (RRet v) rs.

Lemma api_keep s c k : ph s <> NoRt -> (forall v, snd (api_step s c k) <> RRet v) ->
  ph (fst (api_step s c k)) <> NoRt /\ eres (fst (api_step s c k)) = eres s.
Proof.
  api_cases s c k; intros Hp Hn; cbn; split; try congruence; try reflexivity;
    exfalso; eapply Hn; reflexivity.
Qed.

Lemma api_result_kept : forall h s, ph s <> NoRt -> no_ret (api_resps h s) ->
  ph (api_run h s) <> NoRt /\ eres (api_run h s) = eres s.
Proof.
  induction h as [|[c k] h IH]; intros s Hp Hn; cbn; [split; [assumption|reflexivity]|].
  destruct (api_keep s c k Hp) as [Hp' He'].
  { intros v Hv. apply (Hn v). cbn. left. exact Hv. }
  destruct (IH (fst (api_step s c k)) Hp') as [A B].
  { intros v Hv. apply (Hn v). cbn. right. exact Hv. }
  split; [exact A|congruence].
Qed.

Lemma api_run_app : forall h1 h2 s0, api_run (h1 ++ h2) s0 = api_run h2 (api_run h1 s0).
Proof. induction h1 as [|[a b] h1 IH1]; intros; cbn; [reflexivity|apply IH1]. Qed.

Lemma api_stop_returns_entry_result s c cfg r h c' v :
  ph s = NoRt ->
  let s1 := fst (api_step s c (CStart cfg r)) in
  no_ret (api_resps h s1) ->
  snd (api_step (api_run h s1) c' CStop) = RRet v -> v = r /\ conf (api_run (h ++ [(c', CStop)]) s1) = 0%N.
Proof.
  intros Hp s1 Hn Hs.
  assert (H1 : ph s1 <> NoRt /\ eres s1 = r).
  { subst s1. unfold api_step. rewrite Hp. cbn. split; [discriminate|reflexivity]. }
  destruct H1 as [H1 H2].
  destruct (api_result_kept h s1 H1 Hn) as [A B].
  destruct (api_ret_inv _ _ _ _ Hs) as (_ & _ & _ & _ & Hv & _ & H0).
  split; [congruence|].
  rewrite api_run_app. cbn [api_run]. rewrite H0. reflexivity.
Qed.

Lemma api_resps_app : forall h1 h2 s,
  api_resps (h1 ++ h2) s = api_resps h1 s ++ api_resps h2 (api_run h1 s).
Proof. induction h1 as [|[c k] h1 IH]; intros; cbn; [reflexivity|now rewrite IH]. Qed.

Lemma api_restart_fresh h1 c h2 v :
  snd (api_step (api_run h1 api0) c CStop) = RRet v ->
  api_run (h1 ++ [(c, CStop)]) api0 = api0 /\
  api_resps (h1 ++ (c, CStop) :: h2) api0 = api_resps h1 api0 ++ RRet v :: api_resps h2 api0.
Proof.
  intros H. destruct (api_ret_inv _ _ _ _ H) as (_ & _ & _ & _ & _ & _ & H0).
  split.
  - rewrite api_run_app. cbn [api_run]. exact H0.
  - rewrite api_resps_app. cbn [api_resps]. rewrite H, H0. reflexivity.
Qed.

(* documented vs enforced preconditions: they differ in exactly one place *)
Lemma api_documented_pre_refuted :
  exists s c k, documented_pre s c k = true /\ snd (api_step s c k) = RErr.
Proof.
  exists {| ph := Sleeping; fin := false; eres := 0%Z; conf := 0%N; pend := 0%N |}, FromOs, CFinalize.
  split; reflexivity.
Qed.

Lemma api_documented_pre_partial s c k :
  (documented_pre s c k = false -> snd (api_step s c k) = RErr) /\
  (documented_pre s c k = true -> ~ (k = CFinalize /\ ph s = Sleeping) -> snd (api_step s c k) <> RErr).
Proof.
  unfold api_step, documented_pre; destruct k, c; destruct s as [p f e cf pd]; destruct p, f; cbn;
    try (destruct (pd =? 0)%N eqn:?; cbn); split; intros; try congruence; try discriminate;
    exfalso; apply H0; split; reflexivity.
Qed.

(* ================================================================== Part 2: counting *)
Definition b2n (b : bool) : nat := if b then 1 else 0.

Lemma nlive_ext : forall n f g, (forall i, i < n -> f i = g i) -> nlive n f = nlive n g.
Proof.
  induction n as [|n IH]; intros f g H; cbn; [reflexivity|].
  rewrite (H n) by lia. rewrite (IH f g); [reflexivity|]. intros; apply H; lia.
Qed.

Lemma nlive_upd : forall n f id s, id < n ->
  nlive n (upd f id s) + b2n (is_live (f id)) = nlive n f + b2n (is_live s).
Proof.
  induction n as [|n IH]; intros f id s H; [lia|]. cbn [nlive].
  destruct (Nat.eq_dec id n) as [->|Hne].
  - rewrite upd_same. rewrite (nlive_ext n (upd f n s) f).
    + unfold b2n. destruct (is_live (f n)), (is_live s); lia.
    + intros i Hi. apply upd_other. lia.
  - rewrite upd_other by lia. specialize (IH f id s ltac:(lia)). lia.
Qed.

Lemma nlive_fresh n f s : nlive (S n) (upd f n s) = b2n (is_live s) + nlive n f.
Proof.
  cbn [nlive]. rewrite upd_same. rewrite (nlive_ext n (upd f n s) f); [reflexivity|].
  intros i Hi. apply upd_other. lia.
Qed.

Lemma nlive_zero : forall n f, nlive n f = 0 -> forall i, i < n -> is_live (f i) = false.
Proof.
  induction n as [|n IH]; intros f H i Hi; [lia|]. cbn [nlive] in H.
  destruct (is_live (f n)) eqn:E; [lia|].
  destruct (Nat.eq_dec i n) as [->|]; [exact E|]. apply IH; lia.
Qed.

Lemma nlive_one n f a b : nlive n f <= 1 -> a < n -> b < n ->
  is_live (f a) = true -> is_live (f b) = true -> a = b.
Proof.
  intros H Ha Hb La Lb. destruct (Nat.eq_dec a b) as [|Hne]; [assumption|exfalso].
  pose proof (nlive_upd n f a Destroyed Ha) as E. rewrite La in E. cbn in E.
  assert (Z0 : nlive n (upd f a Destroyed) = 0) by lia.
  pose proof (nlive_zero _ _ Z0 b Hb) as F. rewrite upd_other in F by lia. congruence.
Qed.

Lemma nlive_ndestroyed : forall n f, (forall i, i < n -> f i <> Unborn) -> nlive n f + ndestroyed n f = n.
Proof.
  induction n as [|n IH]; intros f H; [reflexivity|]. cbn [nlive ndestroyed].
  specialize (IH f ltac:(intros; apply H; lia)). specialize (H n ltac:(lia)).
  destruct (f n); cbn; try lia. congruence.
Qed.

Lemma nlive_pos n f id : id < n -> is_live (f id) = true -> 1 <= nlive n f.
Proof.
  intros H L. pose proof (nlive_upd n f id Destroyed H) as E. rewrite L in E. cbn in E. lia.
Qed.

(* ================================================================== Part 2: ownership invariant *)
Definition owner_of (s : tstate) : option nat :=
  match s with Created t | Active t | Terminated t | Recycled t | ExtOp t => Some t | _ => None end.

Definition owns (g : shared) (t : nat) (p : pc) : Prop :=
  match p with
  | PRun id _ => tst g id = Active t
  | PSpawn2 id _ ch => tst g id = Active t /\ tst g ch = Created t
  | PTerm id => tst g id = Terminated t
  | PRecyc id => tst g id = Recycled t
  | XSpawn2 ch => tst g ch = Created t
  | XInflight id => tst g id = ExtOp t
  | _ => True
  end.

Record I1 (g : shared) (ls : locals local) : Prop := mkI1 {
  i1_count : count g = N.of_nat (nlive (nextid g) (tst g));
  i1_fresh : forall id, nextid g <= id -> tst g id = Unborn;
  i1_born : forall id, id < nextid g -> tst g id <> Unborn;
  i1_nodup : NoDup (queue g);
  i1_queue : forall id, In id (queue g) -> tst g id = Queued;
  i1_owns : forall t, owns g t (lpc (ls t));
  i1_res : is_dead (tst g 0) = true -> result g = entry_res g;
  i1_n1 : 1 <= nextid g }.

Lemma owns_tst_eq g g' t p : tst g' = tst g -> owns g t p -> owns g' t p.
Proof. intros E. destruct p; cbn; rewrite ?E; auto. Qed.

Lemma owns_other g g' t' p id s1 :
  tst g' = upd (tst g) id s1 -> owner_of (tst g id) <> Some t' -> owns g t' p -> owns g' t' p.
Proof.
  intros E Hn. 
  assert (K : forall x s, tst g x = s -> owner_of s = Some t' -> tst g' x = s).
  { intros x s Hx Ho. rewrite E. unfold upd. destruct (Nat.eqb x id) eqn:Q; [|exact Hx].
    apply Nat.eqb_eq in Q. subst x. rewrite Hx in Hn. contradiction. }
  destruct p; cbn; auto;
    try (intros [H1 H2]; split; (eapply K; [eassumption|reflexivity]));
    intros H; (eapply K; [exact H|reflexivity]).
Qed.

Lemma I1_same g (ls : locals local) g' t l' :
  I1 g ls -> count g' = count g -> nextid g' = nextid g -> tst g' = tst g -> queue g' = queue g ->
  result g' = result g -> entry_res g' = entry_res g -> owns g' t (lpc l') -> I1 g' (upd ls t l').
Proof.
  intros [Hc Hf Hb Hn Hq Ho Hr H1] Ec En Et Eq Er Ee Hown.
  constructor; rewrite ?Ec, ?En, ?Et, ?Eq, ?Er, ?Ee; auto.
  intros t0. destruct (Nat.eq_dec t0 t) as [->|Hne].
  - rewrite upd_same. exact Hown.
  - rewrite upd_other by assumption. apply (owns_tst_eq g g'); auto.
Qed.

Lemma I1_touch g (ls : locals local) : I1 g ls -> I1 (touch g) ls.
Proof.
  intros H. unfold touch. destruct (suspended g); [|exact H].
  destruct H as [Hc Hf Hb Hn Hq Ho Hr H1]. constructor; cbn; auto.
Qed.

Lemma I1_trans g (ls : locals local) g' t l' id s1 :
  I1 g ls ->
  id < nextid g -> s1 <> Unborn ->
  (forall t', t' <> t -> owner_of (tst g id) <> Some t') ->
  tst g' = upd (tst g) id s1 -> nextid g' = nextid g ->
  (N.of_nat (b2n (is_live (tst g id))) + count g' = count g + N.of_nat (b2n (is_live s1)))%N ->
  NoDup (queue g') ->
  (forall x, In x (queue g') -> (x = id /\ s1 = Queued) \/ (x <> id /\ In x (queue g))) ->
  entry_res g' = entry_res g ->
  ((result g' = result g /\ (is_dead s1 = true -> is_dead (tst g id) = true \/ id <> 0)) \/
   result g' = entry_res g) ->
  owns g' t (lpc l') ->
  I1 g' (upd ls t l').
Proof.
  intros [Hc Hf Hb Hn Hq Ho Hr H1] Hid Hs1 Hoth Et En Ec Hnd Hq' Ee Hres Hown.
  constructor.
  - rewrite Et, En. pose proof (nlive_upd (nextid g) (tst g) id s1 Hid) as E.
    rewrite Hc in Ec. lia.
  - intros x Hx. rewrite Et, upd_other; [apply Hf|]; lia.
  - intros x Hx. rewrite Et. unfold upd. destruct (Nat.eqb x id); [exact Hs1|]. apply Hb. lia.
  - exact Hnd.
  - intros x Hx. rewrite Et. destruct (Hq' x Hx) as [[-> ->]|[Hne Hin]].
    + apply upd_same.
    + rewrite upd_other by assumption. apply Hq. exact Hin.
  - intros t0. destruct (Nat.eq_dec t0 t) as [->|Hne].
    + rewrite upd_same. exact Hown.
    + rewrite upd_other by assumption. apply (owns_other g g' t0 _ id s1 Et); auto.
  - rewrite Et, Ee. unfold upd. destruct (Nat.eqb 0 id) eqn:Q.
    + apply Nat.eqb_eq in Q. subst id. intros Hd. destruct Hres as [[Er Hk]|Er]; [|exact Er].
      rewrite Er. apply Hr. destruct (Hk Hd) as [K|K]; [exact K|contradiction].
    + intros Hd. destruct Hres as [[Er _]|Er]; [|exact Er]. rewrite Er. apply Hr. exact Hd.
  - rewrite En. exact H1.
Qed.

Lemma I1_alloc g (ls : locals local) t l' st p par :
  I1 g ls -> owner_of st = Some t -> is_live st = true -> is_dead st = false ->
  owns (alloc g st p par) t (lpc l') ->
  I1 (alloc g st p par) (upd ls t l').
Proof.
  intros [Hc Hf Hb Hn Hq Ho Hr H1] Hown Hl Hd Hmine.
  assert (Hu : tst g (nextid g) = Unborn) by (apply Hf; lia).
  constructor; cbn [count nextid tst queue result entry_res alloc].
  - rewrite nlive_fresh, Hl, Hc. cbn [b2n]. lia.
  - intros x Hx. rewrite upd_other by lia. apply Hf. lia.
  - intros x Hx. unfold upd. destruct (Nat.eqb x (nextid g)) eqn:Q.
    + intros K. rewrite K in Hl. discriminate.
    + apply Hb. apply Nat.eqb_neq in Q. lia.
  - exact Hn.
  - intros x Hx. rewrite upd_other; [apply Hq; exact Hx|].
    intros ->. rewrite (Hq _ Hx) in Hu. discriminate.
  - intros t0. destruct (Nat.eq_dec t0 t) as [->|Hne].
    + rewrite upd_same. exact Hmine.
    + rewrite upd_other by assumption.
      apply (owns_other g (alloc g st p par) t0 _ (nextid g) st); [reflexivity| |apply Ho].
      rewrite Hu. discriminate.
  - unfold upd. destruct (Nat.eqb 0 (nextid g)); [rewrite Hd; discriminate|exact Hr].
  - lia.
Qed.

Lemma remove_nth_in : forall l k x, In x (remove_nth k l) -> In x l.
Proof.
  induction l as [|a l IH]; intros k x H; cbn in H; [destruct k; exact H|].
  destruct k; [right; exact H|]. destruct H as [->|H]; [left; reflexivity|right; eapply IH; exact H].
Qed.

Lemma remove_nth_nodup : forall l k, NoDup l -> NoDup (remove_nth k l).
Proof.
  induction l as [|a l IH]; intros k H; cbn; [destruct k; constructor|].
  inversion H; subst. destruct k; [assumption|]. constructor; [|apply IH; assumption].
  intros K. apply remove_nth_in in K. contradiction.
Qed.

Lemma remove_nth_notin : forall l k, NoDup l -> k < length l -> ~ In (nth k l 0) (remove_nth k l).
Proof.
  induction l as [|a l IH]; intros k H Hk; cbn in *; [lia|].
  inversion H; subst. destruct k; [assumption|].
  intros [K|K].
  - apply H2. rewrite K. apply nth_In. lia.
  - revert K. apply IH; [assumption|lia].
Qed.

Lemma born_lt g (ls : locals local) id : I1 g ls -> tst g id <> Unborn -> id < nextid g.
Proof.
  intros H Hn. destruct (Nat.lt_ge_cases id (nextid g)) as [|K]; [assumption|].
  exfalso. apply Hn. apply (i1_fresh _ _ H). exact K.
Qed.

Lemma touch_core g : count (touch g) = count g /\ nextid (touch g) = nextid g /\ tst (touch g) = tst g /\
  queue (touch g) = queue g /\ result (touch g) = result g /\ entry_res (touch g) = entry_res g.
Proof. unfold touch. destruct (suspended g); cbn; repeat split. Qed.

Lemma cas_core g i : count (cas_presleep g i) = count g /\ nextid (cas_presleep g i) = nextid g /\
  tst (cas_presleep g i) = tst g /\ queue (cas_presleep g i) = queue g /\
  result (cas_presleep g i) = result g /\ entry_res (cas_presleep g i) = entry_res g.
Proof. unfold cas_presleep. destruct (wstate_eqb (wst g i) WsRunning); cbn; repeat split. Qed.

Lemma I1_noop g (ls : locals local) t : I1 g ls -> I1 g (upd ls t (ls t)).
Proof. intros H. apply (I1_same g ls g t (ls t)); auto. apply (i1_owns _ _ H). Qed.

Lemma I1_pop pick t g (ls : locals local) : I1 g ls ->
  I1 (fst (pop_or_idle pick t g (ls t))) (upd ls t (snd (pop_or_idle pick t g (ls t)))).
Proof.
  intros H. unfold pop_or_idle. destruct (queue g) as [|a q] eqn:Q; [apply I1_noop; exact H|].
  rewrite <- Q. set (k := pick mod length (queue g)). set (id := nth k (queue g) 0).
  assert (Hk : k < length (queue g)) by (apply Nat.mod_upper_bound; rewrite Q; cbn; lia).
  assert (Hin : In id (queue g)) by (apply nth_In; exact Hk).
  assert (Hq : tst g id = Queued) by (apply (i1_queue _ _ H); exact Hin).
  cbn [fst snd]. apply I1_touch.
  apply (I1_trans g ls _ t _ id (Active t) H); cbn.
  - apply (born_lt g ls); auto. rewrite Hq; discriminate.
  - discriminate.
  - intros; rewrite Hq; discriminate.
  - reflexivity.
  - reflexivity.
  - rewrite Hq. unfold b2n, is_live. lia.
  - apply remove_nth_nodup, (i1_nodup _ _ H).
  - intros x Hx. right. split; [|eapply remove_nth_in; exact Hx]. intros ->. revert Hx.
    apply remove_nth_notin; [apply (i1_nodup _ _ H)|exact Hk].
  - reflexivity.
  - left. split; [reflexivity|discriminate].
  - apply upd_same.
Qed.

Lemma nodup_snoc : forall (l : list nat) x, NoDup l -> ~ In x l -> NoDup (l ++ [x]).
Proof.
  induction l as [|a l IH]; intros x H Hn; cbn; [constructor; [intros []|constructor]|].
  inversion H; subst. constructor.
  - rewrite in_app_iff. intros [K|[K|[]]]; [contradiction|]. apply Hn. left. symmetry. exact K.
  - apply IH; [assumption|]. intros K. apply Hn. right. exact K.
Qed.

Lemma owner_not_queued s t : owner_of s = Some t -> s <> Queued.
Proof. intros H ->. discriminate. Qed.

Lemma I1_set g (ls : locals local) g' t l' id s0 s1 :
  I1 g ls -> tst g id = s0 -> owner_of s0 = Some t -> is_live s0 = true -> is_live s1 = true -> s1 <> Queued ->
  tst g' = upd (tst g) id s1 -> nextid g' = nextid g -> count g' = count g -> queue g' = queue g ->
  entry_res g' = entry_res g ->
  ((result g' = result g /\ (is_dead s1 = true -> is_dead s0 = true \/ id <> 0)) \/ result g' = entry_res g) ->
  owns g' t (lpc l') -> I1 g' (upd ls t l').
Proof.
  intros H Hs Ho L0 L1 Hnq Et En Ec Eq Ee Hres Hown.
  apply (I1_trans g ls g' t l' id s1 H); auto.
  - apply (born_lt g ls); auto. rewrite Hs. intros K. rewrite K in L0. discriminate.
  - intros K. rewrite K in L1. discriminate.
  - intros t' Hne. rewrite Hs, Ho. congruence.
  - rewrite Hs, L0, L1, Ec. lia.
  - rewrite Eq. apply (i1_nodup _ _ H).
  - intros x Hx. rewrite Eq in Hx. right. split; [|exact Hx]. intros ->.
    apply (i1_queue _ _ H) in Hx. rewrite Hx in Hs. subst s0. discriminate.
  - rewrite Hs. exact Hres.
Qed.

Lemma I1_enq g (ls : locals local) g' t l' id s0 :
  I1 g ls -> tst g id = s0 -> owner_of s0 = Some t -> is_live s0 = true ->
  tst g' = upd (tst g) id Queued -> nextid g' = nextid g -> count g' = count g -> queue g' = queue g ++ [id] ->
  entry_res g' = entry_res g -> result g' = result g -> owns g' t (lpc l') -> I1 g' (upd ls t l').
Proof.
  intros H Hs Ho L0 Et En Ec Eq Ee Er Hown.
  assert (Hni : ~ In id (queue g)).
  { intros K. apply (i1_queue _ _ H) in K. rewrite K in Hs. subst s0. discriminate. }
  apply (I1_trans g ls g' t l' id Queued H); auto.
  - apply (born_lt g ls); auto. rewrite Hs. intros K. rewrite K in L0. discriminate.
  - discriminate.
  - intros t' Hne. rewrite Hs, Ho. congruence.
  - rewrite Hs, L0, Ec. cbn [is_live]. lia.
  - rewrite Eq. apply nodup_snoc; [apply (i1_nodup _ _ H)|exact Hni].
  - intros x Hx. rewrite Eq, in_app_iff in Hx. destruct Hx as [Hx|[<-|[]]].
    + right. split; [|exact Hx]. intros ->. contradiction.
    + left. split; reflexivity.
  - left. split; [exact Er|discriminate].
Qed.

Lemma I1_rel g (ls : locals local) g' t l' id s0 s1 :
  I1 g ls -> tst g id = s0 -> owner_of s0 = Some t -> is_live s0 = true -> is_live s1 = false -> s1 <> Unborn ->
  (is_dead s1 = true -> is_dead s0 = true) ->
  tst g' = upd (tst g) id s1 -> nextid g' = nextid g -> count g' = N.pred (count g) -> queue g' = queue g ->
  entry_res g' = entry_res g -> result g' = result g -> owns g' t (lpc l') -> I1 g' (upd ls t l').
Proof.
  intros H Hs Ho L0 L1 Hnu Hd Et En Ec Eq Ee Er Hown.
  assert (Hlt : id < nextid g).
  { apply (born_lt g ls); auto. rewrite Hs. intros K. rewrite K in L0. discriminate. }
  apply (I1_trans g ls g' t l' id s1 H); auto.
  - intros t' Hne. rewrite Hs, Ho. congruence.
  - rewrite Hs, L0, L1, Ec. pose proof (nlive_pos (nextid g) (tst g) id Hlt) as P.
    rewrite Hs in P. specialize (P L0). rewrite (i1_count _ _ H). cbn [b2n]. lia.
  - rewrite Eq. apply (i1_nodup _ _ H).
  - intros x Hx. rewrite Eq in Hx. right. split; [|exact Hx]. intros ->.
    apply (i1_queue _ _ H) in Hx. rewrite Hx in Hs. subst s0. discriminate.
  - left. split; [exact Er|]. intros K. left. rewrite Hs. apply Hd. exact K.
Qed.

Ltac fin_same H :=
  cbn [fst snd]; try apply I1_touch; eapply I1_same; [exact H | reflexivity .. | cbn; auto].

Lemma I1_ctl g (ls : locals local) t : I1 g ls ->
  I1 (fst (ctl_step g (ls t))) (upd ls t (snd (ctl_step g (ls t)))).
Proof.
  intros H. pose proof (i1_owns _ _ H t) as Hown. unfold ctl_step.
  destruct (ls t) as [p xt kt] eqn:El. cbn [lpc ktodo xtodo] in *.
  destruct p; try (fin_same H; fail).
  - destruct kt as [|[] r]; [fin_same H| |]; destruct (suspended g); fin_same H.
  - destruct (gen_wait_continue (count g) false); fin_same H.
  - destruct (i <=? nworkers g); [|fin_same H]. unfold cas_presleep.
    destruct (wstate_eqb (wst g i) WsRunning); fin_same H.
  - destruct (i <=? nworkers g); [|fin_same H]. unfold cas_presleep.
    destruct (wstate_eqb (wst g i) WsRunning); fin_same H.
  - destruct (wstate_eqb (wst g i) WsPreSleep); fin_same H.
  - destruct (i <=? nworkers g); [|fin_same H].
    destruct (wstate_eqb (wst g i) WsSleeping); fin_same H.
Qed.

Lemma I1_ext g (ls : locals local) t : I1 g ls ->
  I1 (fst (ext_step t g (ls t))) (upd ls t (snd (ext_step t g (ls t)))).
Proof.
  intros H. pose proof (i1_owns _ _ H t) as Hown. unfold ext_step.
  destruct (ls t) as [p xt kt] eqn:El. cbn [lpc ktodo xtodo] in *.
  destruct p; try (fin_same H; fail).
  - destruct xt as [|[] r]; try (fin_same H; fail).
    + cbn [fst snd]. apply I1_alloc; auto. cbn. apply upd_same.
    + cbn [fst snd]. apply I1_alloc; auto. cbn. apply upd_same.
  - cbn [fst snd]. cbn in Hown.
    eapply (I1_enq g ls _ t _ child (Created t) H Hown); try reflexivity; try (cbn; exact I).
  - cbn [fst snd]. cbn in Hown.
    eapply (I1_rel g ls _ t _ id (ExtOp t) ExtDone H Hown); try reflexivity; try discriminate;
      try (cbn; exact I).
  - destruct (finalized g); fin_same H.
  - destruct (gen_wait_continue (count g) false); fin_same H.
  - destruct (gen_wait_continue (count g) false); fin_same H.
Qed.

Lemma I1_worker o g (ls : locals local) t : I1 g ls ->
  I1 (fst (worker_step o t g (ls t))) (upd ls t (snd (worker_step o t g (ls t)))).
Proof.
  intros H. pose proof (i1_owns _ _ H t) as Hown. unfold worker_step.
  destruct (ls t) as [p xt kt] eqn:El. cbn [lpc ktodo xtodo] in *.
  destruct p; try (fin_same H; fail).
  - (* PIdle *)
    destruct (wst g t); [| destruct (snd o); [fin_same H|] |]; rewrite <- El; apply I1_pop; exact H.
  - (* PRun *) cbn in Hown.
    destruct rest as [|[] r].
    + cbn [fst snd]. apply I1_touch. destruct (Nat.eqb id 0) eqn:E0.
      * eapply (I1_set g ls _ t _ id (Active t) (Terminated t) H Hown);
          try reflexivity; try discriminate; [right; reflexivity|cbn; apply upd_same].
      * eapply (I1_set g ls _ t _ id (Active t) (Terminated t) H Hown);
          try reflexivity; try discriminate; [|cbn; apply upd_same].
        left. split; [reflexivity|]. intros _. right. apply Nat.eqb_neq. exact E0.
    + fin_same H.
    + cbn [fst snd]. apply I1_touch.
      eapply (I1_enq g ls _ t _ id (Active t) H Hown); try reflexivity; try (cbn; exact I).
    + cbn [fst snd]. apply I1_touch. apply I1_alloc; auto. cbn. split; [|apply upd_same].
      rewrite upd_other; [exact Hown|].
      assert (id < nextid g); [|lia]. apply (born_lt g ls id H). rewrite Hown. discriminate.
    + destruct (gen_wait_continue (count g) true); [|fin_same H].
      cbn [fst snd]. apply I1_touch.
      eapply (I1_enq g ls _ t _ id (Active t) H Hown); try reflexivity; try (cbn; exact I).
    + fin_same H.
  - (* PSpawn2 *) cbn in Hown. destruct Hown as [Ha Hc]. cbn [fst snd]. apply I1_touch.
    eapply (I1_enq g ls _ t _ child (Created t) H Hc); try reflexivity.
    cbn. rewrite upd_other; [exact Ha|]. intros ->. rewrite Ha in Hc. discriminate.
  - (* PTerm *) cbn in Hown. cbn [fst snd].
    eapply (I1_set g ls _ t _ id (Terminated t) (Recycled t) H Hown);
      try reflexivity; try discriminate; [|cbn; apply upd_same].
    left. split; [reflexivity|]. intros _. left. reflexivity.
  - (* PRecyc *) cbn in Hown. cbn [fst snd].
    eapply (I1_rel g ls _ t _ id (Recycled t) Destroyed H Hown); try reflexivity; try discriminate;
      try (cbn; exact I).
  - (* PAsleep *) destruct (wake g t); fin_same H.
Qed.

Lemma I1_step o t g (ls : locals local) : I1 g ls ->
  I1 (fst (lc_tstep o t g (ls t))) (upd ls t (snd (lc_tstep o t g (ls t)))).
Proof.
  intros H. unfold lc_tstep. destruct (Nat.eqb t 0); [apply I1_ctl; exact H|].
  destruct (is_worker g t); [apply I1_worker|apply I1_ext]; exact H.
Qed.

Lemma I1_init w entry r xs ks : I1 (lc_init w entry r) (lc_locals xs ks).
Proof.
  constructor; cbn [count nextid tst queue result entry_res lc_init lc_locals lpc].
  - reflexivity.
  - intros id Hid. apply upd_other. lia.
  - intros id Hid. assert (id = 0) by lia. subst. rewrite upd_same. discriminate.
  - constructor; [intros []|constructor].
  - intros id [<-|[]]. apply upd_same.
  - intros t. exact I.
  - rewrite upd_same. discriminate.
  - lia.
Qed.

Theorem I1_reachable sched w entry r xs ks :
  let c := lc_run sched w entry r xs ks in I1 (fst c) (snd c).
Proof.
  unfold lc_run. apply (run_inv shared local (nat * bool) lc_tstep I1).
  - intros o t g ls H. apply I1_step. exact H.
  - apply I1_init.
Qed.

(* ================================================================== consequences *)
Lemma api_preconditions s c k :
  (snd (api_step s c k) = RErr <-> violates_pre s c k = true) /\
  (snd (api_step s c k) = RErr -> fst (api_step s c k) = s) /\
  (snd (api_step s c k) = RBlock -> fst (api_step s c k) = s).
Proof. split; [apply api_err_iff|split; [apply api_err_unchanged|apply api_block_unchanged]]. Qed.

Lemma wait_os_zero c : gen_wait_continue c false = false -> c = 0%N.
Proof. unfold gen_wait_continue, gen_wait_offset. intros H. apply N.ltb_ge in H. lia. Qed.

Lemma wait_task_le1 c : gen_wait_continue c true = false -> (c <= 1)%N.
Proof. unfold gen_wait_continue, gen_wait_offset. intros H. apply N.ltb_ge in H. exact H. Qed.

Lemma not_live_destroyed g (ls : locals local) id :
  I1 g ls -> id < nextid g -> is_live (tst g id) = false -> is_destroyed (tst g id) = true.
Proof.
  intros H Hid L. pose proof (i1_born _ _ H id Hid) as B. destruct (tst g id); try discriminate; auto; congruence.
Qed.

Lemma count_is_live sched w entry r xs ks :
  let g := fst (lc_run sched w entry r xs ks) in
  count g = N.of_nat (nlive (nextid g) (tst g)) /\
  (count g + N.of_nat (ndestroyed (nextid g) (tst g)) = N.of_nat (nextid g))%N.
Proof.
  cbn zeta. pose proof (I1_reachable sched w entry r xs ks) as H. cbn zeta in H.
  set (c := lc_run sched w entry r xs ks) in *. split; [apply (i1_count _ _ H)|].
  rewrite (i1_count _ _ H). pose proof (nlive_ndestroyed (nextid (fst c)) (tst (fst c)) (i1_born _ _ H)). lia.
Qed.

Lemma wait_drains_os sched w entry r xs ks :
  let g := fst (lc_run sched w entry r xs ks) in
  gen_wait_continue (count g) false = false ->
  forall id, id < nextid g -> is_destroyed (tst g id) = true.
Proof.
  cbn zeta. pose proof (I1_reachable sched w entry r xs ks) as H. cbn zeta in H.
  set (c := lc_run sched w entry r xs ks) in *. intros Hw id Hid.
  apply wait_os_zero in Hw. rewrite (i1_count _ _ H) in Hw.
  apply (not_live_destroyed _ _ _ H Hid). apply (nlive_zero (nextid (fst c))); [lia|exact Hid].
Qed.

Lemma wait_drains_task sched w entry r xs ks t self rest :
  let c := lc_run sched w entry r xs ks in
  lpc (snd c t) = PRun self (AWait :: rest) ->
  gen_wait_continue (count (fst c)) true = false ->
  tst (fst c) self = Active t /\
  forall id, id < nextid (fst c) -> id <> self -> is_destroyed (tst (fst c) id) = true.
Proof.
  cbn zeta. pose proof (I1_reachable sched w entry r xs ks) as H. cbn zeta in H.
  set (c := lc_run sched w entry r xs ks) in *. intros Hpc Hw.
  pose proof (i1_owns _ _ H t) as Ho. rewrite Hpc in Ho. cbn in Ho. split; [exact Ho|].
  intros id Hid Hne. apply wait_task_le1 in Hw. rewrite (i1_count _ _ H) in Hw.
  apply (not_live_destroyed _ _ _ H Hid).
  destruct (is_live (tst (fst c) id)) eqn:L; [|reflexivity]. exfalso. apply Hne.
  apply (nlive_one (nextid (fst c)) (tst (fst c)) id self); auto; [lia| |rewrite Ho; reflexivity].
  apply (born_lt _ _ _ H). rewrite Ho. discriminate.
Qed.

Lemma stop_reads_entry_result sched w entry r xs ks :
  let g := fst (lc_run sched w entry r xs ks) in
  gen_wait_continue (count g) false = false -> tst g 0 <> ExtDone ->
  tst g 0 = Destroyed /\ result g = entry_res g.
Proof.
  cbn zeta. intros Hw Hne. pose proof (I1_reachable sched w entry r xs ks) as H. cbn zeta in H.
  pose proof (wait_drains_os sched w entry r xs ks Hw 0) as D. cbn zeta in D.
  set (c := lc_run sched w entry r xs ks) in *.
  specialize (D (i1_n1 _ _ H)).
  assert (E : tst (fst c) 0 = Destroyed) by (destruct (tst (fst c) 0); try discriminate; congruence).
  split; [exact E|]. apply (i1_res _ _ H). rewrite E. reflexivity.
Qed.

(* ================================================================== suspend / resume invariant *)
Definition wk (g : shared) (j : nat) : Prop := 1 <= j <= nworkers g.

Definition ctl_inv (g : shared) (p : pc) : Prop :=
  match p with
  | KSusWait => suspended g = false /\ forall j, wk g j -> wst g j = WsRunning
  | KCas1 i => 1 <= i /\ suspended g = false /\ forall j, wk g j -> j < i -> wst g j <> WsRunning
  | KCas2 i => 1 <= i /\ suspended g = false /\ (forall j, wk g j -> wst g j <> WsRunning) /\
               (forall j, wk g j -> j < i -> wst g j = WsSleeping)
  | KSpin i => wk g i /\ suspended g = false /\ (forall j, wk g j -> wst g j <> WsRunning) /\
               (forall j, wk g j -> j < i -> wst g j = WsSleeping)
  | KRes i => 1 <= i /\ suspended g = false /\ (forall j, wk g j -> wst g j <> WsPreSleep) /\
              (forall j, wk g j -> j < i -> wst g j = WsRunning)
  | _ => if suspended g then forall j, wk g j -> wst g j = WsSleeping
         else forall j, wk g j -> wst g j = WsRunning
  end.

Record I2 (g : shared) (ls : locals local) : Prop := mkI2 {
  i2_ctl : ctl_inv g (lpc (ls 0));
  i2_wake : forall j, wake g j = true -> wk g j /\ wst g j = WsSleeping /\ lpc (ls 0) = KRes j;
  i2_sleep : forall j, wk g j -> wst g j = WsSleeping -> lpc (ls j) = PAsleep;
  i2_bad : bad g = false }.

Definition neutral (g g' : shared) : Prop :=
  wst g' = wst g /\ wake g' = wake g /\ suspended g' = suspended g /\ nworkers g' = nworkers g /\
  (suspended g = false -> bad g' = bad g).

Lemma neutral_refl g : neutral g g.
Proof. repeat split. Qed.

Lemma neutral_touch g g' : wst g' = wst g -> wake g' = wake g -> suspended g' = suspended g ->
  nworkers g' = nworkers g -> bad g' = bad g -> neutral g (touch g').
Proof.
  intros A B C D E. unfold touch, neutral. destruct (suspended g') eqn:S; cbn.
  - split; [exact A|split; [exact B|split; [congruence|split; [exact D|]]]].
    intros K. congruence.
  - split; [exact A|split; [exact B|split; [congruence|split; [exact D|]]]]. intros _. exact E.
Qed.

Lemma wstate_eqb_eq a b : wstate_eqb a b = true <-> a = b.
Proof. destruct a, b; cbn; split; intros; congruence. Qed.

Lemma ctl_inv_same g g' p : wst g' = wst g -> suspended g' = suspended g -> nworkers g' = nworkers g ->
  ctl_inv g p -> ctl_inv g' p.
Proof. intros A B C. unfold ctl_inv, wk. destruct p; rewrite ?A, ?B, ?C; auto. Qed.

Lemma is_worker_wk g t : is_worker g t = true <-> wk g t.
Proof.
  unfold is_worker, wk. rewrite andb_true_iff, !Nat.leb_le. tauto.
Qed.

(* what a worker step does to the fields the suspend protocol looks at *)
Lemma worker_shape o t g l :
  let g' := fst (worker_step o t g l) in let l' := snd (worker_step o t g l) in
  (neutral g g' /\ (lpc l = PAsleep -> g' = g /\ l' = l) /\ (lpc l' = PAsleep -> lpc l = PAsleep)) \/
  (lpc l = PIdle /\ wst g t = WsPreSleep /\ wst g' = upd (wst g) t WsSleeping /\ wake g' = wake g /\
   suspended g' = suspended g /\ nworkers g' = nworkers g /\ bad g' = bad g /\ lpc l' = PAsleep) \/
  (lpc l = PAsleep /\ wake g t = true /\ wst g' = upd (wst g) t WsRunning /\ wake g' = upd (wake g) t false /\
   suspended g' = suspended g /\ nworkers g' = nworkers g /\ bad g' = bad g /\ lpc l' = PIdle).
Proof.
  cbn zeta. unfold worker_step. destruct l as [p xt kt]. cbn [lpc].
  assert (POP : forall pick, let r := pop_or_idle pick t g {| lpc := PIdle; xtodo := xt; ktodo := kt |} in
            neutral g (fst r) /\ (PIdle = PAsleep -> fst r = g /\ snd r = {| lpc := PIdle; xtodo := xt; ktodo := kt |}) /\
            (lpc (snd r) = PAsleep -> PIdle = PAsleep)).
  { intros pick. cbn zeta. unfold pop_or_idle. destruct (queue g); cbn [fst snd lpc set_pc].
    - split; [apply neutral_refl|split; [discriminate|auto]].
    - split; [apply neutral_touch; reflexivity|split; discriminate]. }
  destruct p; try (left; cbn [fst snd lpc]; split; [apply neutral_refl|split; [discriminate|auto]]; fail).
  - (* PIdle *)
    destruct (wst g t) eqn:W; [left; apply POP| |left; apply POP].
    destruct (snd o); [|left; apply POP].
    right; left. cbn. repeat split; auto.
  - (* PRun *)
    left. destruct rest as [|[] r]; cbn [fst snd lpc set_pc];
      try (split; [apply neutral_touch; reflexivity|split; discriminate]).
    + split; [|split; discriminate]. destruct (Nat.eqb id 0); apply neutral_touch; reflexivity.
    + destruct (gen_wait_continue (count g) true); cbn [fst snd lpc set_pc];
        (split; [apply neutral_touch; reflexivity|split; discriminate]).
  - left. cbn [fst snd lpc set_pc]. split; [apply neutral_touch; reflexivity|split; discriminate].
  - left. cbn [fst snd lpc set_pc]. split; [repeat split|split; discriminate].
  - left. cbn [fst snd lpc set_pc]. split; [repeat split|split; discriminate].
  - (* PAsleep *)
    destruct (wake g t) eqn:K.
    + right; right. cbn. repeat split; auto.
    + left. cbn [fst snd lpc]. split; [apply neutral_refl|split; auto].
Qed.

Lemma ext_shape t g l : neutral g (fst (ext_step t g l)).
Proof.
  unfold ext_step. destruct l as [p xt kt]. cbn [lpc xtodo].
  destruct p; try apply neutral_refl; cbn [fst].
  - destruct xt as [|[] r]; cbn [fst]; try apply neutral_refl; repeat split.
  - repeat split.
  - repeat split.
  - destruct (finalized g); apply neutral_refl.
  - destruct (gen_wait_continue (count g) false); [apply neutral_refl|repeat split].
  - destruct (gen_wait_continue (count g) false); [apply neutral_refl|repeat split].
Qed.

Lemma pc_eq_asleep (p : pc) : p = PAsleep \/ p <> PAsleep.
Proof. destruct p; try (right; discriminate). left; reflexivity. Qed.

Lemma I2_awake_not_suspended g (ls : locals local) t :
  I2 g ls -> wk g t -> lpc (ls t) <> PAsleep -> suspended g = false.
Proof.
  intros H Hw Hp. destruct (suspended g) eqn:S; [exfalso|reflexivity].
  assert (W : wst g t = WsSleeping).
  { pose proof (i2_ctl _ _ H) as C. unfold ctl_inv in C. rewrite S in C.
    destruct (lpc (ls 0)); try (apply C; exact Hw); exfalso;
      repeat match goal with K : _ /\ _ |- _ => destruct K end; discriminate. }
  apply Hp. apply (i2_sleep _ _ H t Hw W).
Qed.

Lemma I2_neutral g (ls : locals local) g' t l' :
  I2 g ls -> t <> 0 -> neutral g g' ->
  (wk g t -> wst g t = WsSleeping -> lpc l' = PAsleep) ->
  (suspended g = false \/ bad g' = bad g) ->
  I2 g' (upd ls t l').
Proof.
  intros H Ht (A & B & C & D & E) Hs Hb. constructor.
  - rewrite upd_other by auto. apply (ctl_inv_same g g'); auto. apply (i2_ctl _ _ H).
  - intros j. unfold wk. rewrite A, B, D, upd_other by auto. apply (i2_wake _ _ H).
  - intros j. unfold wk. rewrite A, D. intros Hj Hw. destruct (Nat.eq_dec j t) as [->|Hne].
    + rewrite upd_same. apply Hs; auto.
    + rewrite upd_other by auto. apply (i2_sleep _ _ H); auto.
  - destruct Hb as [Hb|Hb]; [rewrite E by exact Hb|rewrite Hb]; apply (i2_bad _ _ H).
Qed.

Lemma I2_worker o g (ls : locals local) t : I2 g ls -> t <> 0 -> wk g t ->
  I2 (fst (worker_step o t g (ls t))) (upd ls t (snd (worker_step o t g (ls t)))).
Proof.
  intros H Ht Hw. pose proof (worker_shape o t g (ls t)) as S. cbn zeta in S.
  set (g' := fst (worker_step o t g (ls t))) in *. set (l' := snd (worker_step o t g (ls t))) in *.
  destruct S as [(N & Hsame & Hback)|[(Hp & Hpre & A & B & C & D & E & Hp')|(Hp & Hk & A & B & C & D & E & Hp')]].
  - apply (I2_neutral g ls g' t l' H Ht N).
    + intros _ Hsl. pose proof (i2_sleep _ _ H t Hw Hsl) as P. destruct (Hsame P) as [_ ->]. exact P.
    + destruct (pc_eq_asleep (lpc (ls t))) as [P|P].
      * right. destruct (Hsame P) as [-> _]. reflexivity.
      * left. apply (I2_awake_not_suspended g ls t H Hw P).
  - (* going to sleep *)
    pose proof (i2_ctl _ _ H) as Cc. constructor.
    + rewrite upd_other by auto. unfold ctl_inv, wk in *. rewrite A, C, D.
      destruct (lpc (ls 0)) eqn:P0;
        try (destruct (suspended g); intros j Hj; specialize (Cc t Hw); congruence).
      * destruct Cc as [Cs Cr]. specialize (Cr t Hw). congruence.
      * destruct Cc as (C1 & C2 & C3). repeat split; auto. intros j Hj Hlt. unfold upd.
        destruct (Nat.eqb j t); [discriminate|apply C3; auto].
      * destruct Cc as (C1 & C2 & C3 & C4). repeat split; auto; intros j Hj; unfold upd;
          destruct (Nat.eqb j t); try discriminate; auto.
      * destruct Cc as (C1 & C2 & C3 & C4). repeat split; auto; try apply C1; intros j Hj; unfold upd;
          destruct (Nat.eqb j t); try discriminate; auto.
      * destruct Cc as (C1 & C2 & C3 & C4). specialize (C3 t Hw). congruence.
    + intros j. rewrite upd_other by auto. unfold wk. rewrite A, B, D. intros K.
      destruct (i2_wake _ _ H j K) as (W0 & W1 & W2).
      split; [exact W0|]. split; [|exact W2]. unfold upd. destruct (Nat.eqb j t); [reflexivity|exact W1].
    + intros j. unfold wk. rewrite A, D. intros Hj. unfold upd at 1. destruct (Nat.eqb j t) eqn:Q.
      * apply Nat.eqb_eq in Q. subst j. intros _. rewrite upd_same. exact Hp'.
      * intros Hs. apply Nat.eqb_neq in Q. rewrite upd_other by auto. apply (i2_sleep _ _ H); auto.
    + rewrite E. apply (i2_bad _ _ H).
  - (* woken by resume *)
    destruct (i2_wake _ _ H t Hk) as (W0 & W1 & W2). pose proof (i2_ctl _ _ H) as Cc. rewrite W2 in Cc.
    constructor.
    + rewrite upd_other by auto. rewrite W2. unfold ctl_inv, wk in *. rewrite A, C, D.
      destruct Cc as (C1 & C2 & C3 & C4). repeat split; auto; intros j Hj; unfold upd;
        destruct (Nat.eqb j t); try discriminate; auto.
    + intros j. rewrite upd_other by auto. rewrite A, B. unfold upd. destruct (Nat.eqb j t) eqn:Q; [discriminate|].
      intros K. destruct (i2_wake _ _ H j K) as (V0 & V1 & V2). rewrite W2 in V2. inversion V2. subst j.
      rewrite Nat.eqb_refl in Q. discriminate.
    + intros j. unfold wk. rewrite A, D. intros Hj. unfold upd at 1. destruct (Nat.eqb j t) eqn:Q; [discriminate|].
      intros Hs. apply Nat.eqb_neq in Q. rewrite upd_other by auto. apply (i2_sleep _ _ H); auto.
    + rewrite E. apply (i2_bad _ _ H).
Qed.

Lemma ext_bad t g l : bad (fst (ext_step t g l)) = bad g.
Proof.
  unfold ext_step. destruct l as [p xt kt]. cbn [lpc xtodo].
  destruct p; try reflexivity; cbn [fst].
  - destruct xt as [|[] r]; reflexivity.
  - destruct (finalized g); reflexivity.
  - destruct (gen_wait_continue (count g) false); reflexivity.
  - destruct (gen_wait_continue (count g) false); reflexivity.
Qed.

Lemma I2_ext g (ls : locals local) t : I2 g ls -> t <> 0 -> ~ wk g t ->
  I2 (fst (ext_step t g (ls t))) (upd ls t (snd (ext_step t g (ls t)))).
Proof.
  intros H Ht Hn. apply (I2_neutral g ls _ t _ H Ht (ext_shape t g (ls t))).
  - intros K. contradiction.
  - right. apply ext_bad.
Qed.

Lemma cas_fields g i :
  wake (cas_presleep g i) = wake g /\ suspended (cas_presleep g i) = suspended g /\
  nworkers (cas_presleep g i) = nworkers g /\ bad (cas_presleep g i) = bad g /\
  wst (cas_presleep g i) i <> WsRunning /\
  (forall j, j <> i -> wst (cas_presleep g i) j = wst g j) /\
  (forall j, wst (cas_presleep g i) j = WsSleeping -> wst g j = WsSleeping) /\
  (forall j, wst g j <> WsRunning -> wst (cas_presleep g i) j = wst g j).
Proof.
  unfold cas_presleep. destruct (wstate_eqb (wst g i) WsRunning) eqn:Q; cbn.
  - apply wstate_eqb_eq in Q. repeat split; auto.
    + rewrite upd_same. discriminate.
    + intros j Hj. apply upd_other. exact Hj.
    + intros j. unfold upd. destruct (Nat.eqb j i); [discriminate|auto].
    + intros j. unfold upd. destruct (Nat.eqb j i) eqn:E; [|auto]. apply Nat.eqb_eq in E. subst. congruence.
  - repeat split; auto. intros K. apply wstate_eqb_eq in K. congruence.
Qed.

Lemma I2_ctl_gen g (ls : locals local) g' l' :
  I2 g ls -> nworkers g' = nworkers g -> ctl_inv g' (lpc l') ->
  (forall j, wake g' j = true -> wk g j /\ wst g' j = WsSleeping /\ lpc l' = KRes j) ->
  (forall j, wk g j -> wst g' j = WsSleeping -> wst g j = WsSleeping) ->
  bad g' = bad g -> I2 g' (upd ls 0 l').
Proof.
  intros H N C W S B. constructor.
  - rewrite upd_same. exact C.
  - intros j. rewrite upd_same. unfold wk. rewrite N. apply W.
  - intros j. unfold wk. rewrite N. intros Hj Hs. rewrite upd_other by (destruct Hj; lia).
    apply (i2_sleep _ _ H j Hj). apply S; auto.
  - rewrite B. apply (i2_bad _ _ H).
Qed.

Lemma I2_ctl g (ls : locals local) : I2 g ls ->
  I2 (fst (ctl_step g (ls 0))) (upd ls 0 (snd (ctl_step g (ls 0)))).
Proof.
  intros H. pose proof (i2_ctl _ _ H) as C. pose proof (i2_wake _ _ H) as Wk.
  unfold ctl_step. destruct (ls 0) as [p xt kt] eqn:El. cbn [lpc ktodo xtodo] in *.
  assert (NOWAKE : (forall i, p <> KRes i) ->
            forall j (q : pc), wake g j = true -> wk g j /\ wst g j = WsSleeping /\ q = KRes j).
  { intros Hp j q K. destruct (Wk j K) as (_ & _ & E). exfalso. apply (Hp j). exact E. }
  destruct p;
    try (cbn [fst snd]; apply (I2_ctl_gen g ls g _ H); auto; try (intros j0 K0; eapply NOWAKE; [intros; discriminate|exact K0]); fail).
  - (* PIdle *)
    destruct kt as [|[] r]; cbn [fst snd].
    + apply (I2_ctl_gen g ls g _ H); auto; try (intros j0 K0; eapply NOWAKE; [intros; discriminate|exact K0]).
    + destruct (suspended g) eqn:S; cbn [fst snd]; apply (I2_ctl_gen g ls g _ H); auto;
        try (intros j0 K0; eapply NOWAKE; [intros; discriminate|exact K0]); cbn; rewrite ?S; auto.
      unfold ctl_inv in C. rewrite S in C. split; auto.
    + destruct (suspended g) eqn:S; cbn [fst snd].
      * apply (I2_ctl_gen g ls _ _ H); auto; cbn.
        -- unfold ctl_inv in C. rewrite S in C. repeat split; auto.
           ++ intros j Hj. rewrite (C j Hj). discriminate.
           ++ intros j [Hj _] Hlt. lia.
        -- intros j K. destruct (Wk j K) as (_ & _ & E). discriminate.
      * apply (I2_ctl_gen g ls g _ H); auto; try (intros j0 K0; eapply NOWAKE; [intros; discriminate|exact K0]);
          try (cbn; rewrite S; unfold ctl_inv in C; rewrite S in C; exact C).
  - (* KSusWait *)
    destruct (gen_wait_continue (count g) false); cbn [fst snd]; apply (I2_ctl_gen g ls g _ H); auto;
      try (intros j0 K0; eapply NOWAKE; [intros; discriminate|exact K0]).
    cbn. destruct C as [C1 C2]. repeat split; auto. intros j [Hj _] Hlt. lia.
  - (* KCas1 *)
    destruct C as (C1 & C2 & C3). destruct (i <=? nworkers g) eqn:Q; cbn [fst snd].
    + destruct (cas_fields g i) as (F1 & F2 & F3 & F4 & F5 & F6 & F7 & F8).
      apply (I2_ctl_gen g ls _ _ H); auto.
      * cbn. unfold wk. rewrite F2, F3. repeat split; auto.
        intros j Hj Hlt. destruct (Nat.eq_dec j i) as [->|Hne]; [exact F5|].
        rewrite F6 by exact Hne. apply C3; [exact Hj|lia].
      * intros j. rewrite F1. intros K. destruct (Wk j K) as (_ & _ & E). discriminate.
    + apply Nat.leb_gt in Q. apply (I2_ctl_gen g ls g _ H); auto; try (intros j0 K0; eapply NOWAKE; [intros; discriminate|exact K0]).
      cbn. repeat split; auto.
      * intros j Hj. apply C3; [exact Hj|]. unfold wk in Hj; cbn in Hj; lia.
      * intros j [Hj _] Hlt. lia.
  - (* KCas2 *)
    destruct C as (C1 & C2 & C3 & C4). destruct (i <=? nworkers g) eqn:Q; cbn [fst snd].
    + apply Nat.leb_le in Q. destruct (cas_fields g i) as (F1 & F2 & F3 & F4 & F5 & F6 & F7 & F8).
      apply (I2_ctl_gen g ls _ _ H); auto.
      * cbn. unfold wk. rewrite F2, F3. repeat split; auto.
        -- intros j Hj. rewrite F8; auto.
        -- intros j Hj Hlt. rewrite F8; auto.
      * intros j. rewrite F1. intros K. destruct (Wk j K) as (_ & _ & E). discriminate.
    + apply Nat.leb_gt in Q. apply (I2_ctl_gen g ls _ _ H); auto; cbn.
      * intros j Hj. apply C4; [exact Hj|]. unfold wk in Hj; cbn in Hj; lia.
      * intros j K. destruct (Wk j K) as (_ & _ & E). discriminate.
  - (* KSpin *)
    destruct C as (C1 & C2 & C3 & C4). destruct (wstate_eqb (wst g i) WsPreSleep) eqn:Q; cbn [fst snd];
      apply (I2_ctl_gen g ls g _ H); auto; try (intros j0 K0; eapply NOWAKE; [intros; discriminate|exact K0]).
    + cbn. repeat split; auto; apply C1.
    + cbn. destruct C1 as [C1a C1b]. repeat split; auto.
      intros j Hj Hlt. destruct (Nat.eq_dec j i) as [->|Hne]; [|apply C4; [exact Hj|lia]].
      specialize (C3 i Hj). destruct (wst g i); try congruence. discriminate.
  - (* KRes *)
    destruct C as (C1 & C2 & C3 & C4). destruct (i <=? nworkers g) eqn:Q; cbn [fst snd].
    + apply Nat.leb_le in Q. destruct (wstate_eqb (wst g i) WsSleeping) eqn:E; cbn [fst snd].
      * apply wstate_eqb_eq in E. apply (I2_ctl_gen g ls _ _ H); auto; cbn.
        -- repeat split; auto.
        -- intros j. unfold upd. destruct (Nat.eqb j i) eqn:J.
           ++ apply Nat.eqb_eq in J. subst j. intros _. unfold wk. repeat split; auto.
           ++ intros K. apply (Wk j K).
      * apply (I2_ctl_gen g ls g _ H); auto.
        -- cbn. repeat split; auto. intros j Hj Hlt.
           destruct (Nat.eq_dec j i) as [->|Hne]; [|apply C4; [exact Hj|lia]].
           specialize (C3 i Hj). destruct (wst g i); try congruence; discriminate.
        -- intros j K. destruct (Wk j K) as (V0 & V1 & V2). inversion V2. subst j.
           rewrite V1 in E. discriminate.
    + apply Nat.leb_gt in Q. apply (I2_ctl_gen g ls _ _ H); auto; cbn.
      * rewrite C2. intros j Hj. apply C4; [exact Hj|]. unfold wk in Hj; cbn in Hj; lia.
      * intros j K. destruct (Wk j K) as (V0 & V1 & V2). inversion V2. subst j. destruct V0. lia.
Qed.

Lemma I2_step o t g (ls : locals local) : I2 g ls ->
  I2 (fst (lc_tstep o t g (ls t))) (upd ls t (snd (lc_tstep o t g (ls t)))).
Proof.
  intros H. unfold lc_tstep. destruct (Nat.eqb t 0) eqn:T0.
  - apply Nat.eqb_eq in T0. subst t. apply I2_ctl. exact H.
  - apply Nat.eqb_neq in T0. destruct (is_worker g t) eqn:W.
    + apply I2_worker; auto. apply is_worker_wk. exact W.
    + apply I2_ext; auto. intros K. apply is_worker_wk in K. congruence.
Qed.

Lemma I2_init w entry r xs ks : I2 (lc_init w entry r) (lc_locals xs ks).
Proof.
  constructor; cbn; auto; intros; discriminate.
Qed.

Theorem I2_reachable sched w entry r xs ks :
  let c := lc_run sched w entry r xs ks in I2 (fst c) (snd c).
Proof.
  unfold lc_run. apply (run_inv shared local (nat * bool) lc_tstep I2).
  - intros o t g ls H. apply I2_step. exact H.
  - apply I2_init.
Qed.

Lemma I2_suspended_asleep g (ls : locals local) t :
  I2 g ls -> suspended g = true -> wk g t -> wst g t = WsSleeping /\ lpc (ls t) = PAsleep.
Proof.
  intros H S Hw.
  assert (W : wst g t = WsSleeping).
  { pose proof (i2_ctl _ _ H) as C. unfold ctl_inv in C. rewrite S in C.
    destruct (lpc (ls 0)); try (apply C; exact Hw); exfalso;
      repeat match goal with K : _ /\ _ |- _ => destruct K end; discriminate. }
  split; [exact W|]. apply (i2_sleep _ _ H t Hw W).
Qed.

(* between suspend() returning and resume() being called no worker touches a task: every worker is
   blocked in scheduler_base::suspend, and the ghost flag [bad] (set by any pop / body / spawn /
   yield / terminate step taken while [suspended]) is never set *)
Lemma suspended_runs_nothing sched w entry r xs ks :
  let c := lc_run sched w entry r xs ks in
  bad (fst c) = false /\
  (suspended (fst c) = true ->
   forall t, 1 <= t <= nworkers (fst c) -> wst (fst c) t = WsSleeping /\ lpc (snd c t) = PAsleep).
Proof.
  cbn zeta. pose proof (I2_reachable sched w entry r xs ks) as H. cbn zeta in H.
  split; [apply (i2_bad _ _ H)|]. intros S t Ht. apply (I2_suspended_asleep _ _ t H S Ht).
Qed.

(* when resume() has returned (the controlling thread is between calls and the runtime is not
   suspended) every worker's scheduler state is running, and a running idle worker facing a
   non-empty queue takes a task on its next step *)
Lemma resume_runs_all sched w entry r xs ks :
  let c := lc_run sched w entry r xs ks in
  lpc (snd c 0) = PIdle -> suspended (fst c) = false ->
  forall t, 1 <= t <= nworkers (fst c) -> wst (fst c) t = WsRunning.
Proof.
  cbn zeta. pose proof (I2_reachable sched w entry r xs ks) as H. cbn zeta in H.
  intros P S t Ht. pose proof (i2_ctl _ _ H) as C. rewrite P in C. cbn in C. rewrite S in C. apply C. exact Ht.
Qed.

Lemma running_worker_takes_work o t g l :
  wst g t = WsRunning -> lpc l = PIdle -> queue g <> [] ->
  exists id, In id (queue g) /\ lpc (snd (worker_step o t g l)) = PRun id (tprog g id).
Proof.
  intros W P Q. unfold worker_step. rewrite P, W. unfold pop_or_idle.
  destruct (queue g) as [|a q] eqn:E; [congruence|]. cbn [snd set_pc lpc].
  eexists. split; [|reflexivity]. rewrite <- E. apply nth_In. apply Nat.mod_upper_bound. rewrite E. cbn. lia.
Qed.

(* ================================================================== only running tasks spawn *)
Definition rank (s : tstate) : nat :=
  match s with
  | Unborn => 0 | Created _ => 1 | Queued | Active _ | ExtOp _ => 2
  | Terminated _ => 3 | Recycled _ => 4 | Destroyed | ExtDone => 5
  end.

Definition tshape (g g' : shared) (t : nat) : Prop :=
  (tst g' = tst g /\ nextid g' = nextid g /\ parent g' = parent g) \/
  (exists id s1, tst g' = upd (tst g) id s1 /\ nextid g' = nextid g /\ parent g' = parent g /\
                 rank (tst g id) <= rank s1) \/
  (exists st par, tst g' = upd (tst g) (nextid g) st /\ nextid g' = S (nextid g) /\
                  parent g' = upd (parent g) (nextid g) par /\
                  (forall p, par = Some p -> tst g p = Active t)).

Lemma tshape_touch g g' t : tshape g g' t -> tshape g (touch g') t.
Proof. unfold touch. destruct (suspended g'); auto. Qed.

Lemma tshape_same g g' t : tst g' = tst g -> nextid g' = nextid g -> parent g' = parent g -> tshape g g' t.
Proof. intros. left. auto. Qed.

Lemma tshape_set g g' t id s0 s1 : tst g id = s0 -> rank s0 <= rank s1 ->
  tst g' = upd (tst g) id s1 -> nextid g' = nextid g -> parent g' = parent g -> tshape g g' t.
Proof.
  intros H0 Hd A B C. right; left. exists id, s1. repeat split; auto. rewrite H0. exact Hd.
Qed.

Lemma ctl_tshape g l : tshape g (fst (ctl_step g l)) 0.
Proof.
  unfold ctl_step. destruct l as [p xt kt]. cbn [lpc ktodo].
  destruct p; try (apply tshape_same; reflexivity).
  - destruct kt as [|[] r]; [|destruct (suspended g)..]; apply tshape_same; reflexivity.
  - destruct (gen_wait_continue (count g) false); apply tshape_same; reflexivity.
  - destruct (i <=? nworkers g); [|apply tshape_same; reflexivity]. unfold cas_presleep. cbn [fst].
    destruct (wstate_eqb (wst g i) WsRunning); apply tshape_same; reflexivity.
  - destruct (i <=? nworkers g); [|apply tshape_same; reflexivity]. unfold cas_presleep. cbn [fst].
    destruct (wstate_eqb (wst g i) WsRunning); apply tshape_same; reflexivity.
  - destruct (wstate_eqb (wst g i) WsPreSleep); apply tshape_same; reflexivity.
  - destruct (i <=? nworkers g); [|apply tshape_same; reflexivity].
    destruct (wstate_eqb (wst g i) WsSleeping); apply tshape_same; reflexivity.
Qed.

Lemma ext_tshape t g l : owns g t (lpc l) -> tshape g (fst (ext_step t g l)) t.
Proof.
  intros Ho. unfold ext_step. destruct l as [p xt kt]. cbn [lpc xtodo] in *.
  destruct p; try (apply tshape_same; reflexivity); cbn [fst].
  - destruct xt as [|[] r]; try (apply tshape_same; reflexivity); cbn [fst].
    + right; right. exists (Created t), None. repeat split. intros p0 K. discriminate.
    + right; right. exists (ExtOp t), None. repeat split. intros p0 K. discriminate.
  - cbn in Ho. apply (tshape_set g _ t child (Created t) Queued Ho); try reflexivity; cbn; lia.
  - cbn in Ho. apply (tshape_set g _ t id (ExtOp t) ExtDone Ho); try reflexivity; cbn; lia.
  - destruct (finalized g); apply tshape_same; reflexivity.
  - destruct (gen_wait_continue (count g) false); apply tshape_same; reflexivity.
  - destruct (gen_wait_continue (count g) false); apply tshape_same; reflexivity.
Qed.

Lemma worker_tshape o t g (ls : locals local) : I1 g ls -> tshape g (fst (worker_step o t g (ls t))) t.
Proof.
  intros H. pose proof (i1_owns _ _ H t) as Ho. unfold worker_step.
  destruct (ls t) as [p xt kt] eqn:El. cbn [lpc] in *.
  assert (POP : forall pick l0, tshape g (fst (pop_or_idle pick t g l0)) t).
  { intros pick l0. unfold pop_or_idle. destruct (queue g) as [|a q] eqn:Q; [apply tshape_same; reflexivity|].
    cbn [fst]. apply tshape_touch. rewrite <- Q.
    eapply (tshape_set g _ t _ Queued (Active t)); try reflexivity; try (cbn; lia).
    apply (i1_queue _ _ H). apply nth_In. apply Nat.mod_upper_bound. rewrite Q. cbn. lia. }
  destruct p; try (apply tshape_same; reflexivity).
  - destruct (wst g t); [apply POP| |apply POP]. destruct (snd o); [apply tshape_same; reflexivity|apply POP].
  - cbn in Ho. destruct rest as [|[] r]; cbn [fst]; try (apply tshape_touch; apply tshape_same; reflexivity).
    + apply tshape_touch. destruct (Nat.eqb id 0);
        apply (tshape_set g _ t id (Active t) (Terminated t) Ho); try reflexivity; cbn; lia.
    + apply tshape_touch. apply (tshape_set g _ t id (Active t) Queued Ho); try reflexivity; cbn; lia.
    + apply tshape_touch. right; right. exists (Created t), (Some id). repeat split.
      intros p0 K. inversion K. subst. exact Ho.
    + destruct (gen_wait_continue (count g) true); cbn [fst]; apply tshape_touch;
        [apply (tshape_set g _ t id (Active t) Queued Ho); try reflexivity; cbn; lia|apply tshape_same; reflexivity].
  - cbn in Ho. destruct Ho as [Ha Hc]. cbn [fst]. apply tshape_touch.
    apply (tshape_set g _ t child (Created t) Queued Hc); try reflexivity; cbn; lia.
  - cbn in Ho. cbn [fst]. apply (tshape_set g _ t id (Terminated t) (Recycled t) Ho); try reflexivity; cbn; lia.
  - cbn in Ho. cbn [fst]. apply (tshape_set g _ t id (Recycled t) Destroyed Ho); try reflexivity; cbn; lia.
  - destruct (wake g t); apply tshape_same; reflexivity.
Qed.

Lemma step_tshape o t g (ls : locals local) : I1 g ls -> tshape g (fst (lc_tstep o t g (ls t))) t.
Proof.
  intros H. unfold lc_tstep. destruct (Nat.eqb t 0) eqn:T0.
  - apply Nat.eqb_eq in T0. subst t. apply ctl_tshape.
  - destruct (is_worker g t); [apply worker_tshape; exact H|apply ext_tshape; apply (i1_owns _ _ H)].
Qed.

Definition J (g0 g : shared) : Prop :=
  nextid g0 <= nextid g /\
  (forall p, rank (tst g0 p) <= rank (tst g p)) /\
  (forall c p, nextid g0 <= c -> c < nextid g -> parent g c = Some p -> rank (tst g0 p) <= 2).

Lemma J_step g0 o t g (ls : locals local) : I1 g ls -> J g0 g -> J g0 (fst (lc_tstep o t g (ls t))).
Proof.
  intros H (J1 & J2 & J3).
  destruct (step_tshape o t g ls H) as [(A & B & C)|[(id & s1 & A & B & C & D)|(st & par & A & B & C & D)]];
    unfold J; rewrite A, B, C.
  - auto.
  - split; [exact J1|split; [|exact J3]]. intros p. unfold upd. destruct (Nat.eqb p id) eqn:Q.
    + apply Nat.eqb_eq in Q. subst p. specialize (J2 id). lia.
    + apply J2.
  - split; [lia|split].
    + intros p. unfold upd. destruct (Nat.eqb p (nextid g)) eqn:Q; [|apply J2].
      apply Nat.eqb_eq in Q. subst p. specialize (J2 (nextid g)).
      rewrite (i1_fresh _ _ H (nextid g)) in J2 by lia. cbn in J2. lia.
    + intros c p Hc Hlt. unfold upd. destruct (Nat.eqb c (nextid g)) eqn:Q.
      * intros K. specialize (D p K). specialize (J2 p). rewrite D in J2. cbn in J2. exact J2.
      * apply Nat.eqb_neq in Q. apply J3; [exact Hc|lia].
Qed.

Lemma J_run g0 : forall sched c, I1 (fst c) (snd c) -> J g0 (fst c) ->
  I1 (fst (run lc_tstep sched c)) (snd (run lc_tstep sched c)) /\ J g0 (fst (run lc_tstep sched c)).
Proof.
  intros sched c H HJ.
  apply (run_inv shared local (nat * bool) lc_tstep (fun g ls => I1 g ls /\ J g0 g)); [|split; assumption].
  intros o t g ls [A B]. split; [apply I1_step; exact A|apply J_step; assumption].
Qed.

Lemma destroyed_rank s : is_destroyed s = true <-> rank s = 5.
Proof. destruct s; cbn; split; intros; try discriminate; try reflexivity; lia. Qed.

(* the other half of wait_drains: after the predicate let the caller go, everything that existed stays
   destroyed and can never get a descendant — every task created later was spawned by an OS thread
   or by a task that was itself created later *)
Lemma no_late_descendants sched0 w entry r xs ks sched1 :
  let c0 := lc_run sched0 w entry r xs ks in
  gen_wait_continue (count (fst c0)) false = false ->
  let c1 := run lc_tstep sched1 c0 in
  (forall p, p < nextid (fst c0) -> is_destroyed (tst (fst c1) p) = true) /\
  (forall c p, nextid (fst c0) <= c -> c < nextid (fst c1) -> parent (fst c1) c = Some p -> nextid (fst c0) <= p).
Proof.
  cbn zeta. intros Hw. pose proof (I1_reachable sched0 w entry r xs ks) as H0. cbn zeta in H0.
  pose proof (wait_drains_os sched0 w entry r xs ks Hw) as D. cbn zeta in D.
  set (c0 := lc_run sched0 w entry r xs ks) in *.
  assert (J0 : J (fst c0) (fst c0)).
  { split; [lia|split; [auto|]]. intros c p A B. lia. }
  destruct (J_run (fst c0) sched1 c0 H0 J0) as [H1 (J1 & J2 & J3)]. split.
  - intros p Hp. specialize (D p Hp). apply destroyed_rank in D. apply destroyed_rank.
    specialize (J2 p). assert (rank (tst (fst (run lc_tstep sched1 c0)) p) <= 5) by (destruct (tst (fst (run lc_tstep sched1 c0)) p); cbn; lia).
    lia.
  - intros c p A B K. destruct (Nat.lt_ge_cases p (nextid (fst c0))) as [Hp|Hp]; [exfalso|exact Hp].
    specialize (J3 c p A B K). specialize (D p Hp). apply destroyed_rank in D. lia.
Qed.
