(* Proofs/RwMutexReqProofs.v — request indices: the group number of an access is a monotone
   function of its request index, so "sorted by group" is "in request order". *)
From Coq Require Import List Arith Bool Lia Sorted.
From Pika Require Import Base.Conc Model.RwMutex Proofs.RwMutexProofs Proofs.RwMutexLogProofs.
Import ListNotations.

(* tokens that stand for a request: access references and tokens that were granted *)
Definition rq (tk : nat -> token) (log : list ev) (e : nat) : Prop :=
  acc (tst (tk e)) = true \/ In e (grant_toks log).

Record GDc (tk : nat -> token) (ng nr : nat) (log : list ev) : Prop := {
  d1 : forall e, rq tk log e -> tgrp (tk e) < ng /\ treq (tk e) < nr;
  d2 : forall e1 e2, rq tk log e1 -> rq tk log e2 -> tgrp (tk e1) < tgrp (tk e2) -> treq (tk e1) < treq (tk e2)
}.
Definition GD (g : shared) : Prop := GDc (tok g) (ngrp g) (nreq g) (elog g).

Lemma GD_init : GD rw_init.
Proof. constructor; unfold rq; cbn; intros; intuition discriminate. Qed.

Lemma GD_mono tk tk' ng ng' nr nr' log log' : GDc tk ng nr log -> ng <= ng' -> nr <= nr' ->
  (forall e, rq tk' log' e -> rq tk log e /\ tgrp (tk' e) = tgrp (tk e) /\ treq (tk' e) = treq (tk e)) ->
  GDc tk' ng' nr' log'.
Proof.
  intros [D1 D2] Hg Hr Hs. constructor.
  - intros e He. destruct (Hs e He) as [X [-> ->]]. destruct (D1 e X). lia.
  - intros e1 e2 H1 H2. destruct (Hs e1 H1) as [X1 [-> ->]], (Hs e2 H2) as [X2 [-> ->]]. auto.
Qed.

Lemma GD_new tk nt nk ng ng' nr nr' log : GDc tk ng nr log -> ~ rq tk log nt -> ng <= ng' -> nr <= nr' ->
  (acc (tst nk) = true ->
     (exists src, rq tk log src /\ tgrp nk = tgrp (tk src) /\ treq nk = treq (tk src)) \/
     (treq nk = nr /\ nr < nr' /\ tgrp nk < ng' /\ forall e, rq tk log e -> tgrp (tk e) <= tgrp nk)) ->
  GDc (fset tk nt nk) ng' nr' log.
Proof.
  intros [D1 D2] Hf Hg Hr Hn.
  assert (Hold : forall e, e <> nt -> rq (fset tk nt nk) log e -> rq tk log e).
  { intros e He. unfold rq. rewrite fset_other by assumption. auto. }
  assert (Hnt : rq (fset tk nt nk) log nt -> acc (tst nk) = true).
  { unfold rq. rewrite fset_same. intros [X|X]; [exact X|]. exfalso. apply Hf. right. exact X. }
  constructor.
  - intros e He. destruct (Nat.eq_dec e nt) as [->|Hne].
    + rewrite fset_same. destruct (Hn (Hnt He)) as [[src [Hs [-> ->]]]|[-> [Hlt [Hk _]]]]; [destruct (D1 src Hs); lia|lia].
    + rewrite fset_other by assumption. destruct (D1 e (Hold e Hne He)). lia.
  - intros e1 e2 H1 H2.
    destruct (Nat.eq_dec e1 nt) as [->|N1], (Nat.eq_dec e2 nt) as [->|N2];
      rewrite ?fset_same; rewrite ?fset_other by assumption.
    + lia.
    + pose proof (Hold e2 N2 H2) as R2.
      destruct (Hn (Hnt H1)) as [[src [Hs [-> ->]]]|[-> [Hlt [Hk Hmax]]]]; [apply D2; auto|].
      intros Hc. specialize (Hmax e2 R2). lia.
    + pose proof (Hold e1 N1 H1) as R1.
      destruct (Hn (Hnt H2)) as [[src [Hs [-> ->]]]|[-> [Hlt [Hk Hmax]]]]; [apply D2; auto|].
      intros _. destruct (D1 e1 R1). lia.
    + apply D2; auto.
Qed.

Lemma GD_st tk ng nr log e s : GDc tk ng nr log -> (acc s = true -> acc (tst (tk e)) = true) ->
  GDc (fset tk e (set_st (tk e) s)) ng nr log.
Proof.
  intros HD Ha. eapply GD_mono; [exact HD|lia|lia|].
  intros e0. unfold rq, fset. destruct (Nat.eqb_spec e0 e); subst; cbn; intuition.
Qed.

Lemma GD_ev0 tk ng nr log v : GDc tk ng nr log -> ev_gtok v = [] -> GDc tk ng nr (v :: log).
Proof.
  intros HD Hv. eapply GD_mono; [exact HD|lia|lia|].
  intros e0. unfold rq, grant_toks. cbn. rewrite Hv. cbn. intuition.
Qed.

Lemma GD_grant tk ng nr log e k r : GDc tk ng nr log -> acc (tst (tk e)) = true -> GDc tk ng nr (EGrant e k r :: log).
Proof.
  intros HD Ha. eapply GD_mono; [exact HD|lia|lia|].
  intros e0. unfold rq, grant_toks. cbn. intros [X|[X|X]]; subst; auto.
Qed.

Lemma GD_take ng nr log t : forall l tk, GDc tk ng nr log -> (forall e, In e l -> acc (tst (tk e)) = true) ->
  GDc (take_all tk l t) ng nr log.
Proof.
  induction l as [|e l IH]; intros tk HD Hl; [exact HD|]. cbn. apply IH.
  - apply GD_st; [exact HD|]. intros _. apply Hl. now left.
  - intros e' Hin. unfold fset. destruct (Nat.eqb_spec e' e); subst; cbn; [reflexivity|]. apply Hl. now right.
Qed.

Lemma GD_use g e : GD g -> GD (do_use g e).
Proof. intros HD. unfold GD, do_use. cbn. apply GD_ev0; [exact HD|reflexivity]. Qed.
Lemma GD_vdec g : GD g -> GD (do_vdec g).
Proof.
  intros HD. unfold do_vdec. destruct (Nat.eqb (pred (vrefs g)) 0 && negb (vfreed g)); [|exact HD].
  unfold GD. cbn. apply GD_ev0; [exact HD|reflexivity].
Qed.
Lemma GD_do_rel t g e rest : GD g -> GD (fst (do_rel t g e rest)).
Proof.
  intros HD. unfold do_rel. cbn [fst]. unfold GD, upd_grp, set_tst.
  destruct (is_wrapper (tst (tok g e))); cbn.
  - apply GD_st; [apply GD_ev0; [exact HD|reflexivity]|cbn; discriminate].
  - apply GD_st; [exact HD|cbn; discriminate].
Qed.

Lemma fresh_rq g n : GI g -> GB g -> ntok g <= n -> ~ rq (tok g) (elog g) n.
Proof.
  intros H HB Hn [X|X].
  - rewrite (a0 _ _ _ _ _ _ H n Hn) in X. discriminate.
  - apply gtoks_in in X. destruct X as [k [r X]]. destruct (b2 _ _ _ HB _ _ _ X). lia.
Qed.

Lemma GD_work sp t g w rest : GI g -> GB g -> GD g -> GD (fst (do_work sp t g w rest)).
Proof.
  intros H HB HD. destruct w as [e|e nx|e|e|k|k|k tmp|]; cbn [do_work].
  - destruct (is_starting t (tst (tok g e))) eqn:Es; cbn [negb]; [|exact HD]. apply is_starting_spec in Es.
    destruct (head (grp g (tgrp (tok g e)))) as [|[|x l]]; cbn [hptr fst]; try exact HD.
    unfold GD, set_tst. cbn. apply GD_st; [exact HD|rewrite Es; reflexivity].
  - destruct (is_starting t (tst (tok g e))) eqn:Es; cbn [negb]; [|exact HD]. apply is_starting_spec in Es.
    destruct (head (grp g (tgrp (tok g e)))) as [|l] eqn:Eh.
    + cbn [fst]. unfold GD, set_tst. cbn. apply GD_st; [exact HD|rewrite Es; reflexivity].
    + destruct (nxt_eqb nx (hptr (HList l)) && negb sp); [|exact HD].
      cbn [fst]. unfold GD, set_tst, upd_grp. cbn. apply GD_st; [exact HD|rewrite Es; reflexivity].
  - destruct (is_granting t (tst (tok g e))) eqn:Es; cbn [negb]; [|exact HD].
    apply is_granting_spec in Es. cbn [fst].
    assert (HD1 : GD (with_ev (set_tst g e (if tauto (tok g e) then TAuto t else TLive))
                 (EGrant e (tgrp (tok g e)) (treq (tok g e)) :: elog g))).
    { unfold GD, set_tst. cbn. apply GD_grant.
      - apply GD_st; [exact HD|rewrite Es; reflexivity].
      - rewrite fset_same. cbn. destruct (tauto (tok g e)); reflexivity. }
    destruct (tuse (tok g e)); [apply GD_use|]; exact HD1.
  - destruct (owned_by t (tst (tok g e))); cbn [negb]; [|exact HD]. apply GD_do_rel; exact HD.
  - destruct (Nat.eqb (gphase (grp g k)) 1 && Nat.eqb (gown (grp g k)) t); cbn [negb]; [|exact HD].
    cbn [fst]. apply GD_vdec. exact HD.
  - destruct (Nat.eqb (gphase (grp g k)) 2 && Nat.eqb (gown (grp g k)) t); cbn [negb]; [|exact HD].
    destruct (linked (grp g k)); cbn [fst]; [|exact HD].
    unfold GD, new_tok, upd_grp. cbn.
    apply GD_new with (ng := ngrp g) (nr := nreq g); [exact HD|apply fresh_rq; auto|lia|lia|cbn; discriminate].
  - destruct (match tmp with None => Nat.eqb k 0 | Some e => is_done t (tst (tok g e)) && Nat.eqb (tgrp (tok g e)) k end);
      cbn [negb]; [|exact HD].
    destruct (head (grp g k)) as [|l] eqn:Eh; [exact HD|].
    cbn [fst]. unfold GD, upd_grp. cbn. apply GD_take; [exact HD|].
    intros e Hin. destruct (a10 _ _ _ _ _ _ H _ _ _ Eh Hin) as [-> _]. reflexivity.
  - destruct (malive g || negb (mvheld g)); cbn [fst]; [exact HD|]. apply GD_vdec. exact HD.
Qed.

Lemma GD_cmd t g c : GI g -> GB g -> GD g -> GD (fst (do_cmd t g c)).
Proof.
  intros H HB HD.
  assert (Hf : forall n, ntok g <= n -> ~ rq (tok g) (elog g) n) by (intros; apply fresh_rq; auto).
  destruct c as [sp|kd|e auto usev|e|e|e|e|]; cbn [do_cmd].
  - exact HD.
  - destruct (malive g); cbn [negb]; [|exact HD].
    assert (Hreq : forall k ng', k < ng' -> ngrp g <= S k -> ngrp g <= ng' ->
      GDc (fset (tok g) (ntok g) {| tgrp := k; treq := nreq g; tauto := false; tuse := false; tstarted := false; tst := TSender |})
          ng' (S (nreq g)) (elog g)).
    { intros k ng' Hk Hk2 Hng. apply GD_new with (ng := ngrp g) (nr := nreq g); [exact HD|apply Hf; lia|lia|lia|].
      cbn. intros _. right. repeat split; try lia. intros e He. destruct (d1 _ _ _ _ HD e He). lia. }
    destruct kd, (mprev g), (mstate g) as [p|] eqn:Ems; cbn [fst]; unfold GD, upd_grp, new_tok; cbn;
      try (pose proof (a6 _ _ _ _ _ _ H p Ems) as Hp);
      first [ solve [apply Hreq; lia]
            | apply GD_new with (ng := S (ngrp g)) (nr := S (nreq g)); [apply Hreq; lia| |lia|lia|cbn; discriminate] ].
    all: intros [X|X]; [rewrite fset_other in X by lia; rewrite (a0 _ _ _ _ _ _ H (S (ntok g))) in X by lia; discriminate
                       |apply (Hf (S (ntok g))); [lia|right; exact X]].
  - destruct (Nat.ltb e (ntok g) && is_sender (tst (tok g e))) eqn:Eg; [|exact HD].
    apply andb_true_iff in Eg. destruct Eg as [_ Es]. apply is_sender_spec in Es.
    cbn [fst]. unfold GD. cbn. eapply GD_mono; [exact HD|lia|lia|].
    intros e0. unfold rq, fset. destruct (Nat.eqb_spec e0 e); subst; cbn; [|intuition].
    rewrite Es. cbn. intuition.
  - destruct (Nat.ltb e (ntok g) && is_sender (tst (tok g e))); [|exact HD].
    cbn [fst]. unfold GD, set_tst. cbn. apply GD_st; [exact HD|cbn; discriminate].
  - destruct (Nat.ltb e (ntok g) && kind_eqb (gkind (grp g (tgrp (tok g e)))) KR &&
              (is_sender (tst (tok g e)) || is_live (tst (tok g e)))) eqn:Eg; [|exact HD].
    apply andb_true_iff in Eg. destruct Eg as [_ Es].
    cbn [fst]. unfold GD, upd_grp, new_tok. cbn.
    apply GD_new with (ng := ngrp g) (nr := nreq g); [exact HD|apply Hf; lia|lia|lia|].
    cbn. intros Ha. left. exists e. repeat split. left. exact Ha.
  - destruct (Nat.ltb e (ntok g) && is_live (tst (tok g e))); [|exact HD]. apply GD_do_rel. exact HD.
  - destruct (Nat.ltb e (ntok g) && is_live (tst (tok g e))); [|exact HD]. cbn [fst]. apply GD_use. exact HD.
  - destruct (malive g); cbn [negb]; [|exact HD]. destruct (mstate g); cbn [fst]; [|exact HD].
    unfold GD, new_tok. cbn.
    apply GD_new with (ng := ngrp g) (nr := nreq g); [exact HD|apply Hf; lia|lia|lia|cbn; discriminate].
Qed.

Definition GLD (g : shared) : Prop := GL g /\ GD g.
Lemma GLD_step c t g l : GLD g -> GLD (fst (rw_tstep c t g l)).
Proof.
  intros [HL HD]. split; [apply GL_step; exact HL|].
  destruct HL as [H [_ [HB _]]]. destruct l as [|w rest]; cbn [rw_tstep]; [apply GD_cmd|apply GD_work]; assumption.
Qed.
Theorem GLD_run sched : GLD (fst (rw_run sched)).
Proof.
  unfold rw_run. apply run_ginv; [intros; apply GLD_step; assumption|].
  split; [|apply GD_init]. exact (GL_run []).
Qed.

(* grants of different groups are ordered like their request indices; two grants with the same
   request index (a read sender and its copies) belong to the same group *)
Lemma rw_request_index sched : let g := fst (rw_run sched) in
  forall e1 k1 r1 e2 k2 r2, In (EGrant e1 k1 r1) (elog g) -> In (EGrant e2 k2 r2) (elog g) ->
    (k1 < k2 -> r1 < r2) /\ (r1 = r2 -> k1 = k2) /\ r1 < nreq g /\ k1 < ngrp g.
Proof.
  intros g e1 k1 r1 e2 k2 r2 H1 H2. destruct (GLD_run sched) as [[_ [_ [HB _]]] HD]. fold g in HB, HD.
  destruct (b2 _ _ _ HB _ _ _ H1) as [_ [<- [<- _]]], (b2 _ _ _ HB _ _ _ H2) as [_ [<- [<- _]]].
  assert (R1 : rq (tok g) (elog g) e1) by (right; eapply in_gtoks; eauto).
  assert (R2 : rq (tok g) (elog g) e2) by (right; eapply in_gtoks; eauto).
  pose proof (d2 _ _ _ _ HD e1 e2 R1 R2) as X. pose proof (d2 _ _ _ _ HD e2 e1 R2 R1) as Y.
  destruct (d1 _ _ _ _ HD e1 R1). repeat split; auto. intros Hq. lia.
Qed.
