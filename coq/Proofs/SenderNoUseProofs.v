(* Proofs/SenderNoUseProofs.v — C03: no operation state is used after it has signalled its
   receiver; a shared state is not used after it has been destroyed.  For every term on which
   the ledger evaluator is defined (all well-formed ones: SenderLedgerProofs.lrun_good), at every
   position of the operation-state tree.

   Method: a trace is fine iff every ordered pair of events is fine ([ok_pair]).  Events are
   "firsts" (Sg q: the operation at q has signalled; Del (q, KShared): shared state q destroyed)
   or "seconds" (a touch of operation state q'; a use of shared state q').  Pairs from
   different subtrees never conflict (path geometry: [paths]); pairs inside one child come from
   the induction hypothesis; what remains per adaptor is: after the node's own Sg (i :: p) only
   touch-free parts of child i follow, and its own Del (p, KShared) comes last. *)
From Coq Require Import List NArith ZArith Bool Lia Arith.
From Pika Require Import Model.Sender Model.SenderLedger Proofs.SenderProofs Proofs.SenderLedgerProofs.
Import ListNotations.

(* ------------------------------------------------------------------ the specification *)
Definition shared_use (p : path) (e : lev) : Prop :=
  e = AccSh p \/ e = RefInc p \/ e = RefDec p \/ e = New (p, KShVar).

(* b may follow a *)
Definition ok_pair (a b : lev) : Prop :=
  match a with
  | Sg q _ => forall q', touch b = Some q' -> ~ under q q'
  | Del (p, KShared) => ~ shared_use p b
  | _ => True
  end.

Fixpoint nouse (l : list lev) : Prop :=
  match l with [] => True | a :: r => Forall (ok_pair a) r /\ nouse r end.

Definition okp (X Y : list lev) : Prop := Forall (fun a => Forall (ok_pair a) Y) X.

Lemma underb_spec q q' : underb q q' = true <-> under q q'.
Proof.
  induction q' as [|x r IH]; cbn [underb].
  - rewrite orb_false_r, path_eqb_eq. split; [intros ->; apply under_refl|].
    intros [l H]. destruct l; [cbn in H; congruence|discriminate].
  - rewrite orb_true_iff, path_eqb_eq, IH. split.
    + intros [->|H]; [apply under_refl|]. destruct H as [l ->]. exists (x :: l). reflexivity.
    + intros [l H]. destruct l as [|y l]; [left; cbn in H; congruence|].
      right. injection H as _ ->. now exists l.
Qed.

Lemma uses_shared_spec p e : uses_shared p e = true <-> shared_use p e.
Proof.
  unfold shared_use. destruct e as [[x k]|o|x|x|x|x|x c|c]; cbn [uses_shared];
    try (split; [discriminate|intros [H|[H|[H|H]]]; discriminate]).
  - destruct k; try (split; [discriminate|intros [H|[H|[H|H]]]; discriminate]).
    rewrite path_eqb_eq. split; [intros ->; auto|intros [H|[H|[H|H]]]; congruence].
  - rewrite path_eqb_eq. split; [intros ->; auto|intros [H|[H|[H|H]]]; congruence].
  - rewrite path_eqb_eq. split; [intros ->; auto|intros [H|[H|[H|H]]]; congruence].
  - rewrite path_eqb_eq. split; [intros ->; auto 6|intros [H|[H|[H|H]]]; congruence].
Qed.

Lemma existsb_false {A} (f : A -> bool) l : existsb f l = false <-> Forall (fun x => f x = false) l.
Proof.
  induction l as [|a l IH]; cbn [existsb]; [split; auto|].
  rewrite orb_false_iff, IH. split; [intros [? ?]; constructor; auto|intros H; inversion H; auto].
Qed.

Lemma nouse_ok_nouse l : nouse_ok l = true <-> nouse l.
Proof.
  induction l as [|a l IH]; [cbn; tauto|].
  assert (G : nouse_ok (a :: l) = true <-> Forall (ok_pair a) l /\ nouse_ok l = true).
  { destruct a as [o|[x k]|x|x|x|x|x c0|c]; cbn [nouse_ok ok_pair];
      try (split; [intros H; split; [apply Forall_forall; intros; exact I|exact H]|tauto]).
    - destruct k; try (split; [intros H; split; [apply Forall_forall; intros; exact I|exact H]|tauto]).
      rewrite andb_true_iff, negb_true_iff, existsb_false. split; intros [H1 H2]; split; auto.
      + eapply Forall_impl; [|exact H1]. intros b Hb Hu. apply uses_shared_spec in Hu. congruence.
      + eapply Forall_impl; [|exact H1]. intros b Hb. cbv beta in Hb.
        destruct (uses_shared x b) eqn:E; [|reflexivity]. apply uses_shared_spec in E. contradiction.
    - rewrite andb_true_iff, negb_true_iff, existsb_false. split; intros [H1 H2]; split; auto.
      + eapply Forall_impl; [|exact H1]. intros b Hb q' Hq Hu. unfold touches_under in Hb. rewrite Hq in Hb.
        apply underb_spec in Hu. congruence.
      + eapply Forall_impl; [|exact H1]. intros b Hb. cbv beta in Hb. unfold touches_under.
        destruct (touch b) as [q'|] eqn:E; [|reflexivity]. destruct (underb x q') eqn:E2; [|reflexivity].
        apply underb_spec in E2. exfalso. exact (Hb q' E E2). }
  rewrite G. cbn [nouse]. rewrite IH. tauto.
Qed.

(* the boolean monitor says exactly: whatever follows [Sg q c] in the trace does not read, write
   or construct into an operation state of the subtree of q (destruction by the owner, stack
   objects, shared states are not touches); whatever follows the destruction of the shared state
   of p neither accesses it nor copies / releases a reference to it nor stores its variant *)
Theorem nouse_ok_spec l : nouse_ok l = true <->
  (forall l1 q c l2, l = l1 ++ Sg q c :: l2 -> forall e q', In e l2 -> touch e = Some q' -> ~ under q q') /\
  (forall l1 p l2, l = l1 ++ Del (p, KShared) :: l2 -> forall e, In e l2 -> ~ shared_use p e).
Proof.
  rewrite nouse_ok_nouse. induction l as [|a l IH]; cbn [nouse].
  - split; [|tauto]. intros _. split; intros l1 ? ? ? H; destruct l1; discriminate.
  - rewrite IH. split.
    + intros (Ha & H1 & H2). split.
      * intros l1 q c l2 E e q' He. destruct l1 as [|a' l1]; cbn [app] in E; injection E as -> ->.
        -- rewrite Forall_forall in Ha. exact (Ha e He q').
        -- eapply H1; [reflexivity|exact He].
      * intros l1 p l2 E e He. destruct l1 as [|a' l1]; cbn [app] in E; injection E as -> ->.
        -- rewrite Forall_forall in Ha. exact (Ha e He).
        -- eapply H2; [reflexivity|exact He].
    + intros (H1 & H2). split; [|split].
      * apply Forall_forall. intros b Hb. destruct a as [o|[x k]|x|x|x|x|x c0|c]; cbn [ok_pair]; auto.
        -- destruct k; auto. exact (H2 [] x l eq_refl b Hb).
        -- intros q'. exact (H1 [] x c0 l eq_refl b q' Hb).
      * intros l1 q c l2 E. apply (H1 (a :: l1) q c l2). cbn [app]. now rewrite E.
      * intros l1 p l2 E. apply (H2 (a :: l1) p l2). cbn [app]. now rewrite E.
Qed.

(* ------------------------------------------------------------------ pairs and concatenation *)
Lemma nouse_app X Y : nouse (X ++ Y) <-> nouse X /\ nouse Y /\ okp X Y.
Proof.
  unfold okp. induction X as [|a X IH]; cbn [app nouse].
  - split; [intros H; repeat split; auto|tauto].
  - rewrite IH, Forall_app, Forall_cons_iff. tauto.
Qed.

Lemma okp_app_l X1 X2 Y : okp (X1 ++ X2) Y <-> okp X1 Y /\ okp X2 Y.
Proof. unfold okp. apply Forall_app. Qed.
Lemma okp_app_r X Y1 Y2 : okp X (Y1 ++ Y2) <-> okp X Y1 /\ okp X Y2.
Proof.
  unfold okp. rewrite !Forall_forall. split.
  - intros H. split; intros a Ha; specialize (H a Ha); apply Forall_app in H; tauto.
  - intros [H1 H2] a Ha. apply Forall_app. auto.
Qed.
Lemma okp_nil_l Y : okp [] Y.
Proof. constructor. Qed.
Lemma okp_nil_r X : okp X [].
Proof. unfold okp. apply Forall_forall. intros; constructor. Qed.
Lemma okp_in X Y : okp X Y <-> forall a b, In a X -> In b Y -> ok_pair a b.
Proof.
  unfold okp. rewrite Forall_forall. split.
  - intros H a b Ha Hb. specialize (H a Ha). rewrite Forall_forall in H. auto.
  - intros H a Ha. apply Forall_forall. auto.
Qed.

(* footprints *)
Definition fe (AS AD : path -> Prop) (e : lev) : Prop :=
  match e with Sg q _ => AS q | Del (q, KShared) => AD q | _ => True end.
Definition se (BT BU : path -> Prop) (e : lev) : Prop :=
  (forall q, touch e = Some q -> BT q) /\ (forall q, shared_use q e -> BU q).
Definition firsts AS AD (l : list lev) : Prop := Forall (fe AS AD) l.
Definition seconds BT BU (l : list lev) : Prop := Forall (se BT BU) l.

Definition PF : path -> Prop := fun _ => False.

Lemma ok_pair_by AS AD BT BU a b : fe AS AD a -> se BT BU b ->
  (forall q q', AS q -> BT q' -> under q q' -> False) -> (forall q, AD q -> BU q -> False) -> ok_pair a b.
Proof.
  intros Ha [Hb1 Hb2] D1 D2. destruct a as [o|[x k]|x|x|x|x|x c0|c]; cbn [ok_pair fe] in *; auto.
  - destruct k; auto. intros Hu. eauto.
  - intros q' Hq Hu. eauto.
Qed.

Lemma okp_by AS AD BT BU X Y : firsts AS AD X -> seconds BT BU Y ->
  (forall q q', AS q -> BT q' -> under q q' -> False) -> (forall q, AD q -> BU q -> False) -> okp X Y.
Proof.
  intros HX HY D1 D2. apply okp_in. intros a b Ha Hb.
  unfold firsts, seconds in *. rewrite Forall_forall in HX, HY.
  eapply ok_pair_by; eauto.
Qed.

Lemma firsts_app AS AD X Y : firsts AS AD (X ++ Y) <-> firsts AS AD X /\ firsts AS AD Y.
Proof. apply Forall_app. Qed.
Lemma seconds_app BT BU X Y : seconds BT BU (X ++ Y) <-> seconds BT BU X /\ seconds BT BU Y.
Proof. apply Forall_app. Qed.
Lemma firsts_weaken (AS AD AS' AD' : path -> Prop) X :
  (forall q, AS q -> AS' q) -> (forall q, AD q -> AD' q) -> firsts AS AD X -> firsts AS' AD' X.
Proof.
  intros H1 H2. apply Forall_impl. intros e. destruct e as [o|[x k]|x|x|x|x|x c0|c]; cbn [fe]; auto.
  destruct k; auto.
Qed.
Lemma seconds_weaken (BT BU BT' BU' : path -> Prop) X :
  (forall q, BT q -> BT' q) -> (forall q, BU q -> BU' q) -> seconds BT BU X -> seconds BT' BU' X.
Proof. intros H1 H2. apply Forall_impl. intros e [A B]. split; intros q Hq; auto. Qed.

Lemma nouse_nofirst X : firsts PF PF X -> nouse X.
Proof.
  induction X as [|a X IH]; intros H; [exact I|]. inversion H as [|? ? Ha HX]; subst. split; [|auto].
  apply Forall_forall. intros b _. destruct a as [o|[x k]|x|x|x|x|x c0|c]; cbn [ok_pair fe] in *; auto; try contradiction.
  destruct k; auto; contradiction.
Qed.

(* destruction of something that is not a shared state: never a first, never a second *)
Definition inert (e : lev) : Prop := exists q k, e = Del (q, k) /\ k <> KShared.
Lemma inert_fe e : inert e -> fe PF PF e.
Proof. intros (q & k & -> & Hk). cbn [fe]. destruct k; auto; congruence. Qed.
Lemma inert_se e : inert e -> se PF PF e.
Proof. intros (q & k & -> & Hk). split; intros x H; [discriminate|]. destruct H as [H|[H|[H|H]]]; discriminate. Qed.
Lemma inert_firsts X : Forall inert X -> firsts PF PF X.
Proof. apply Forall_impl, inert_fe. Qed.
Lemma inert_seconds X : Forall inert X -> seconds PF PF X.
Proof. apply Forall_impl, inert_se. Qed.

(* path geometry: derive a contradiction from [under] facts below one node *)
Ltac paths :=
  cbv beta in *; unfold PF in *;
  repeat match goal with
  | H : _ \/ _ |- _ => destruct H
  | H : exists _, _ |- _ => destruct H
  | H : _ /\ _ |- _ => destruct H
  | H : False |- _ => destruct H
  end; subst;
  repeat match goal with
  | H1 : under ?a ?b, H2 : under ?b ?c |- _ =>
      lazymatch goal with | _ : under a c |- _ => fail | _ => pose proof (under_trans _ _ _ H1 H2) end
  end;
  match goal with
  | H : under (_ :: ?p) ?p |- _ => exact (not_under_self _ _ H)
  | H1 : under (?i :: ?p) ?x, H2 : under (?j :: ?p) ?x |- _ =>
      pose proof (under_siblings _ _ _ _ H1 H2); first [discriminate | lia | congruence]
  end.

(* weakening of footprints towards [under p] *)
Ltac upw := cbv beta; unfold PF; intros;
  repeat match goal with
  | H : _ \/ _ |- _ => destruct H
  | H : False |- _ => destruct H
  end; subst; eauto using under_refl, under_cons.

(* ------------------------------------------------------------------ the node invariant *)
Definition W (r : nrun) : list lev := n_con r ++ n_pre r ++ n_res r.

Record NI (p : path) (r : nrun) : Prop := {
  ni_use : nouse (W r);
  ni_f : firsts (under p) (under p) (W r);
  ni_sc : seconds (under p) (under p) (n_con r);
  ni_sp : seconds (under p) (under p) (n_pre r);
  ni_sr : seconds PF (under p) (n_res r);          (* destruction touches nothing *)
  ni_post : Forall inert (n_post r)
}.

Lemma NI_parts p r : NI p r ->
  nouse (n_con r) /\ nouse (n_pre r) /\ nouse (n_res r) /\
  okp (n_con r) (n_pre r) /\ okp (n_con r) (n_res r) /\ okp (n_pre r) (n_res r) /\
  firsts (under p) (under p) (n_con r) /\ firsts (under p) (under p) (n_pre r) /\ firsts (under p) (under p) (n_res r).
Proof.
  intros [U F _ _ _ _]. unfold W in *.
  apply nouse_app in U. destruct U as (U1 & U2 & U3). apply nouse_app in U2. destruct U2 as (U2 & U4 & U5).
  apply okp_app_r in U3. destruct U3 as (U3 & U6).
  apply firsts_app in F. destruct F as (F1 & F2). apply firsts_app in F2. destruct F2 as (F2 & F3).
  repeat split; assumption.
Qed.

Lemma cons_app {A} (a : A) l : a :: l = [a] ++ l.
Proof. reflexivity. Qed.

Ltac split_use :=
  repeat first [ rewrite nouse_app | rewrite okp_app_l | rewrite okp_app_r ]; repeat split.

Ltac seg_solve :=
  match goal with
  | |- True => exact I
  | |- Forall _ [] => apply Forall_nil
  | |- nouse [] => exact I
  | |- nouse [_] => split; [constructor|exact I]
  | |- nouse _ => first [assumption | apply nouse_nofirst; assumption]
  | |- okp [] _ => apply okp_nil_l
  | |- okp _ [] => apply okp_nil_r
  | |- okp _ _ => first [assumption | eapply okp_by; [eassumption|eassumption|intros; paths|intros; paths]]
  end.

(* facts about single own events *)
Lemma sg_firsts q c : firsts (under q) PF [Sg q c].
Proof. constructor; [cbn [fe]; apply under_refl|constructor]. Qed.
Lemma sg_seconds q c : seconds PF PF [Sg q c].
Proof. constructor; [|constructor]. split; intros x H; [discriminate|destruct H as [H|[H|[H|H]]]; discriminate]. Qed.
Lemma acc_firsts p : firsts PF PF [Acc p].
Proof. constructor; [exact I|constructor]. Qed.
Lemma acc_seconds p : seconds (eq p) (eq p) [Acc p].
Proof. constructor; [|constructor]. split; intros x H; [injection H as <-; reflexivity|destruct H as [H|[H|[H|H]]]; discriminate]. Qed.

(* concrete event lists *)
Ltac se_solve :=
  split; [ let q := fresh "q" in let H := fresh "H" in intros q H; cbn [touch in_state] in H; try discriminate H;
           injection H as <-; auto using under_refl
         | let q := fresh "q" in let H := fresh "H" in intros q H; destruct H as [H|[H|[H|H]]]; try discriminate H;
           injection H as <-; auto using under_refl ].
Ltac conc_seconds := unfold seconds; repeat (apply Forall_cons; [se_solve|]); apply Forall_nil.
Ltac conc_firsts := unfold firsts; repeat (apply Forall_cons; [cbn [fe]; auto using under_refl|]); apply Forall_nil.
Ltac conc_inert := repeat (apply Forall_cons; [eexists; eexists; split; [reflexivity|discriminate]|]); apply Forall_nil.

Ltac fp_firsts :=
  repeat first [ apply Forall_nil | apply firsts_app; split | (apply Forall_cons; [cbn [fe]; eauto using under_refl, under_cons|]) ];
  try (eapply firsts_weaken; [| |eassumption]; upw).
Ltac fp_seconds :=
  repeat first [ apply Forall_nil | apply seconds_app; split | (apply Forall_cons; [se_solve; eauto using under_refl, under_cons|]) ];
  try (eapply seconds_weaken; [| |eassumption]; upw).

Lemma leaf_NI p k b c : k = KLeaf \/ k = KSched -> NI p (leaf p k b c).
Proof.
  intros [-> | ->]; constructor; unfold W, leaf; cbn [n_con n_pre n_res n_post]; destruct b; cbn [app];
    first [ apply nouse_nofirst; conc_firsts | conc_firsts | conc_seconds | constructor ].
Qed.

Lemma unode_NI p oc os ors inside ch rc :
  NI (0 :: p) ch ->
  firsts PF PF oc -> seconds (eq p) (eq p) oc ->
  firsts PF PF os -> seconds (eq p) (eq p) os ->
  Forall inert ors ->
  nouse (r_ev (rc (n_c ch)) ++ r_res (rc (n_c ch))) ->
  firsts (under (1 :: p)) (under (1 :: p)) (r_ev (rc (n_c ch))) ->
  firsts (under (1 :: p)) (under (1 :: p)) (r_res (rc (n_c ch))) ->
  seconds (fun q => q = p \/ under (1 :: p) q) (fun q => q = p \/ under (1 :: p) q) (r_ev (rc (n_c ch))) ->
  seconds PF (fun q => q = p \/ under (1 :: p) q) (r_res (rc (n_c ch))) ->
  Forall inert (r_post (rc (n_c ch))) ->
  NI p (unode p oc os ors inside ch rc).
Proof.
  intros Hch Foc Soc Fos Sos Iors Ue Fe Fr Se Sr Ipost.
  destruct (NI_parts _ _ Hch) as (UC & UP & UR & CP & CR & PR & FC & FP & FR).
  destruct Hch as [_ _ SC SP SR IP].
  set (E := r_ev (rc (n_c ch))) in *. set (RR := r_res (rc (n_c ch))) in *.
  apply nouse_app in Ue. destruct Ue as (UE & URR & ERR).
  pose proof (inert_firsts _ Iors) as Fors. pose proof (inert_seconds _ Iors) as Sors.
  pose proof (sg_firsts (0 :: p) (n_c ch)) as Fsg. pose proof (sg_seconds (0 :: p) (n_c ch)) as Ssg.
  pose proof (acc_firsts p) as Fa. pose proof (acc_seconds p) as Sa.
  constructor; unfold W, unode; cbn [n_con n_pre n_res n_post]; fold E RR.
  - destruct inside; rewrite <- ?app_assoc;
      rewrite (cons_app (Sg (0 :: p) (n_c ch))), ?(cons_app (Acc p) (_ ++ _));
      split_use; seg_solve.
  - destruct inside; rewrite <- ?app_assoc; fp_firsts.
  - fp_seconds.
  - destruct inside; fp_seconds.
  - destruct inside; fp_seconds.
  - apply Forall_app. split; assumption.
Qed.

(* ------------------------------------------------------------------ receivers *)
Definition here1 (p : path) : path -> Prop := fun q => q = p \/ under (1 :: p) q.

Definition RF (p : path) (r : recv) : Prop :=
  nouse (r_ev r ++ r_res r) /\
  firsts (under (1 :: p)) (under (1 :: p)) (r_ev r) /\ firsts (under (1 :: p)) (under (1 :: p)) (r_res r) /\
  seconds (here1 p) (here1 p) (r_ev r) /\ seconds PF (here1 p) (r_res r) /\ Forall inert (r_post r).

Lemma unode_NI' p oc os ors inside ch rc :
  NI (0 :: p) ch ->
  firsts PF PF oc -> seconds (eq p) (eq p) oc ->
  firsts PF PF os -> seconds (eq p) (eq p) os ->
  Forall inert ors -> RF p (rc (n_c ch)) ->
  NI p (unode p oc os ors inside ch rc).
Proof. intros Hch ? ? ? ? ? (? & ? & ? & ? & ? & ?). apply unode_NI; assumption. Qed.

Ltac conc_okpair :=
  cbn [ok_pair]; try exact I;
  let q := fresh "q" in let H := fresh "H" in
  intros q H; cbn [touch in_state] in H; try discriminate H; injection H as <-; apply not_under_self.
Ltac conc_nouse :=
  cbn [nouse app]; repeat split; repeat (apply Forall_cons; [conc_okpair|]); apply Forall_nil.

Ltac rf_split := split; [|split; [|split; [|split; [|split]]]].

Lemma RF_plain p evs c : firsts PF PF evs -> seconds (eq p) (eq p) evs -> RF p (plain evs c).
Proof.
  intros F S. unfold RF, plain; cbn [r_ev r_res r_post]. rewrite app_nil_r. repeat split.
  - now apply nouse_nofirst.
  - eapply firsts_weaken; [| |exact F]; upw.
  - constructor.
  - eapply seconds_weaken; [| |exact S]; unfold here1; upw.
  - constructor.
  - constructor.
Qed.

Lemma RF_fn p c : RF p (fn_recv p c).
Proof.
  unfold RF, fn_recv, here1; cbn [r_ev r_res r_post app]. rf_split;
    first [ apply nouse_nofirst; conc_firsts | conc_firsts | conc_seconds | conc_inert ].
Qed.

Lemma RF_drop p c : RF p (drop_recv p c).
Proof.
  destruct c; [|apply RF_plain; constructor|apply RF_plain; constructor].
  unfold RF, drop_recv, here1; cbn [r_ev r_res r_post app]. rf_split;
    first [ apply nouse_nofirst; conc_firsts | conc_firsts | conc_seconds | conc_inert ].
Qed.

Lemma RF_sched p s c : RF p (sched_recv p s c).
Proof.
  destruct c; [|apply RF_plain; [conc_firsts|conc_seconds]|apply RF_plain; [conc_firsts|conc_seconds]].
  unfold RF, sched_recv, leaf, here1; cbn [r_ev r_res r_post n_con n_pre n_res n_post n_c app]. rf_split;
    first [ conc_nouse | conc_firsts | conc_seconds | conc_inert ].
Qed.

Lemma RF_let p st su : st = KVals 0 \/ st = KErr ->
  match su with inl _ => True | inr s => NI (1 :: p) s end -> RF p (let_recv p st su).
Proof.
  intros Hst Hsu. destruct su as [e|s].
  - unfold RF, let_recv, here1; cbn [r_ev r_res r_post app]. destruct Hst as [-> | ->]; rf_split;
      first [ apply nouse_nofirst; conc_firsts | conc_firsts | conc_seconds | conc_inert ].
  - destruct (NI_parts _ _ Hsu) as (UC & UP & UR & CP & CR & PR & FC & FP & FR).
    destruct Hsu as [_ _ SC SP SR IP].
    unfold RF, here1; cbn [let_recv r_ev r_res r_post].
    remember [Acc p; New (@pair path okind p st); Acc p] as O3 eqn:EO. remember [Del (@pair path okind p st)] as D1 eqn:ED.
    assert (FO : firsts PF PF O3) by (rewrite EO; conc_firsts).
    assert (SO : seconds (eq p) (eq p) O3) by (rewrite EO; destruct Hst as [-> | ->]; conc_seconds).
    assert (ID : Forall inert D1) by (rewrite ED; destruct Hst as [-> | ->]; conc_inert).
    clear EO ED.
    pose proof (inert_firsts _ ID) as FD. pose proof (inert_seconds _ ID) as SD.
    pose proof (sg_firsts (1 :: p) (n_c s)) as Fsg. pose proof (sg_seconds (1 :: p) (n_c s)) as Ssg.
    rf_split.
    + rewrite <- ?app_assoc. split_use; seg_solve.
    + fp_firsts.
    + fp_firsts.
    + fp_seconds.
    + fp_seconds.
    + exact IP.
Qed.

(* ------------------------------------------------------------------ lists of children *)
Lemma ok_pair_passive a b : se PF PF b -> ok_pair a b.
Proof. intros Hb. apply (ok_pair_by (fun _ => True) (fun _ => True) PF PF); auto. destruct a as [o|[x k]|x|x|x|x|x c0|c]; cbn [fe]; auto. destruct k; auto. Qed.
Lemma ok_pair_nofirst a b : fe PF PF a -> ok_pair a b.
Proof. intros Ha. destruct a as [o|[x k]|x|x|x|x|x c0|c]; cbn [fe ok_pair] in *; auto; try contradiction. destruct k; auto; contradiction. Qed.

Lemma nouse_flat_map (f : nrun -> list lev) : forall chs,
  (forall ch, In ch chs -> nouse (f ch)) ->
  (forall k m chk chm, k < m -> nth_error chs k = Some chk -> nth_error chs m = Some chm -> okp (f chk) (f chm)) ->
  nouse (flat_map f chs).
Proof.
  induction chs as [|ch rest IH]; intros Hn Hp; [exact I|].
  cbn [flat_map]. apply nouse_app. split; [|split].
  - apply Hn. now left.
  - apply IH; [intros; apply Hn; now right|]. intros k m chk chm Hkm Hk Hm. apply (Hp (S k) (S m)); [lia|exact Hk|exact Hm].
  - apply okp_in. intros a b Ha Hb. apply in_flat_map in Hb. destruct Hb as (ch' & Hin & Hb).
    apply In_nth_error in Hin. destruct Hin as (m & Hm).
    pose proof (Hp 0 (S m) ch ch' ltac:(lia) eq_refl Hm) as Hokp. rewrite okp_in in Hokp. auto.
Qed.

Section Join.
  Variables (p : path) (off : nat) (L : nat -> path -> Prop).
  Definition LU (k : nat) : path -> Prop := fun q => L k q \/ q = p.

  Record CI (k : nat) (ch : nrun) : Prop := {
    ci_use : nouse (W ch);
    ci_f : firsts (L k) (L k) (W ch);
    ci_sc : seconds (L k) (LU k) (n_con ch);
    ci_sp : seconds (L k) (LU k) (n_pre ch);
    ci_sr : seconds PF (LU k) (n_res ch);
    ci_post : Forall inert (n_post ch)
  }.

  Hypothesis G1 : forall j k q q', j <> k -> L j q -> L k q' -> under q q' -> False.
  Hypothesis G2 : forall k q, L k q -> under q p -> False.
  Hypothesis G3 : forall j k q', j < k -> L k q' -> under (off + j :: p) q' -> False.
  Hypothesis G4 : forall k q, L k q -> under p q.

  Lemma CI_fe k ch a : CI k ch -> In a (W ch) -> fe (L k) (L k) a.
  Proof. intros H Ha. pose proof (ci_f _ _ H) as F. unfold firsts in F. rewrite Forall_forall in F. auto. Qed.

  Lemma CI_se k ch b : CI k ch -> In b (W ch) -> se (L k) (LU k) b.
  Proof.
    intros [_ _ SC SP SR _] Hb. unfold W in Hb. unfold seconds in *. rewrite Forall_forall in SC, SP, SR.
    apply in_app_or in Hb. destruct Hb as [Hb|Hb]; [auto|]. apply in_app_or in Hb. destruct Hb as [Hb|Hb]; [auto|].
    destruct (SR b Hb) as [A B]. split; [intros q Hq; destruct (A q Hq)|exact B].
  Qed.

  Lemma cross j k chj chk a b : j <> k -> CI j chj -> CI k chk -> In a (W chj) -> In b (W chk) -> ok_pair a b.
  Proof.
    intros Hjk Hj Hk Ha Hb.
    apply (ok_pair_by (L j) (L j) (L k) (LU k)); [exact (CI_fe _ _ _ Hj Ha)|exact (CI_se _ _ _ Hk Hb)| |].
    - intros q q' Hq Hq' Hu. exact (G1 _ _ _ _ Hjk Hq Hq' Hu).
    - intros q Hq [Hq'| ->]; [exact (G1 _ _ _ _ Hjk Hq Hq' (under_refl _))|exact (G2 _ _ Hq (under_refl _))].
  Qed.

  Lemma child_own k ch a b : CI k ch -> In a (W ch) -> se (eq p) (eq p) b -> ok_pair a b.
  Proof.
    intros Hk Ha Hb.
    apply (ok_pair_by (L k) (L k) (eq p) (eq p)); [exact (CI_fe _ _ _ Hk Ha)|exact Hb| |].
    - intros q q' Hq <- Hu. exact (G2 _ _ Hq Hu).
    - intros q Hq <-. exact (G2 _ _ Hq (under_refl _)).
  Qed.

  Lemma in_W_con ch a : In a (n_con ch) -> In a (W ch).
  Proof. intros H. unfold W. apply in_or_app. now left. Qed.
  Lemma in_W_pre ch a : In a (n_pre ch) -> In a (W ch).
  Proof. intros H. unfold W. apply in_or_app. right. apply in_or_app. now left. Qed.
  Lemma in_W_res ch a : In a (n_res ch) -> In a (W ch).
  Proof. intros H. unfold W. apply in_or_app. right. apply in_or_app. now right. Qed.

  Variables (n : nat) (loop : list lev).
  Hypothesis loopF : firsts PF PF loop.
  Hypothesis loopS : seconds (eq p) (eq p) loop.

  Fixpoint jpre (i : nat) (chs : list nrun) (j : join) : list lev :=
    match chs with
    | [] => []
    | ch :: rest =>
        loop ++ n_pre ch ++ [Sg (off + i :: p) (n_c ch)] ++ jrecv_events p j i (n_c ch) ++
        match rest with
        | [] => [Acc p]
        | _ :: _ => n_post ch ++ jpre (S i) rest (join_child n j (i, Sig (n_c ch)))
        end
    end.

  Lemma jfold_shape : forall chs i j pre c post jf, jfold p off n loop i chs j = Some (pre, c, post, jf) ->
    pre = jpre i chs j /\ exists ch, In ch chs /\ post = n_post ch.
  Proof.
    induction chs as [|ch rest IH]; intros i j pre c post jf H; [discriminate|].
    cbn [jfold] in H. cbn [jpre].
    set (j' := join_child n j (i, Sig (n_c ch))) in *.
    destruct (j_out j') as [|[c0|] [|? ?]] eqn:Eo; destruct rest as [|ch2 rest2]; try discriminate.
    - destruct (jfold p off n loop (S i) (ch2 :: rest2) j') as [[[[pre' c'] post'] jf']|] eqn:Er; [|discriminate].
      injection H as <- <- <- <-. destruct (IH _ _ _ _ _ _ Er) as (-> & ch' & Hin & ->). split.
      + rewrite <- !app_assoc. reflexivity.
      + exists ch'. split; [now right|reflexivity].
    - injection H as <- <- <- <-. split.
      + rewrite <- !app_assoc. reflexivity.
      + exists ch. split; [now left|reflexivity].
  Qed.

  Lemma jrecv_firsts j i c : firsts PF PF (jrecv_events p j i c).
  Proof. unfold jrecv_events. destruct c; destruct (j_flag j); cbn [app]; conc_firsts. Qed.
  Lemma jrecv_seconds j i c : seconds (eq p) (eq p) (jrecv_events p j i c).
  Proof. unfold jrecv_events. destruct c; destruct (j_flag j); cbn [app]; conc_seconds. Qed.

  Definition PreEv (i : nat) (chs : list nrun) (e : lev) : Prop :=
    (fe PF PF e /\ se (eq p) (eq p) e) \/
    (exists k ch, nth_error chs k = Some ch /\ In e (n_pre ch)) \/
    inert e \/
    (exists k ch, nth_error chs k = Some ch /\ e = Sg (off + (i + k) :: p) (n_c ch)).

  Lemma own_in X e : firsts PF PF X -> seconds (eq p) (eq p) X -> In e X -> fe PF PF e /\ se (eq p) (eq p) e.
  Proof. unfold firsts, seconds. rewrite !Forall_forall. auto. Qed.

  Lemma jpre_ev : forall chs i j e, (forall ch, In ch chs -> Forall inert (n_post ch)) ->
    In e (jpre i chs j) -> PreEv i chs e.
  Proof.
    induction chs as [|ch rest IH]; intros i j e Hpost He; [destruct He|].
    cbn [jpre] in He.
    apply in_app_or in He. destruct He as [He|He]; [left; now apply (own_in loop)|].
    apply in_app_or in He. destruct He as [He|He]; [right; left; exists 0, ch; auto|].
    apply in_app_or in He. destruct He as [He|He].
    { destruct He as [<-|[]]. right. right. right. exists 0, ch. split; [reflexivity|]. now rewrite Nat.add_0_r. }
    apply in_app_or in He. destruct He as [He|He]; [left; eapply own_in; [apply jrecv_firsts|apply jrecv_seconds|exact He]|].
    destruct rest as [|ch2 rest2].
    { left. apply (own_in [Acc p]); [apply acc_firsts|apply acc_seconds|exact He]. }
    apply in_app_or in He. destruct He as [He|He].
    { right. right. left. specialize (Hpost ch (or_introl eq_refl)). rewrite Forall_forall in Hpost. auto. }
    apply IH in He; [|intros ch' Hch'; apply Hpost; now right].
    destruct He as [Ho|[(k & chk & Hk & Hin)|[Hi|(k & chk & Hk & ->)]]].
    - now left.
    - right. left. exists (S k), chk. auto.
    - right. right. now left.
    - right. right. right. exists (S k), chk. split; [exact Hk|]. do 2 f_equal. lia.
  Qed.

  Lemma okp_nofirst X Y : firsts PF PF X -> okp X Y.
  Proof. intros F. apply okp_in. intros a b Ha _. apply ok_pair_nofirst. unfold firsts in F. rewrite Forall_forall in F. auto. Qed.

  Lemma CI_parts k ch : CI k ch ->
    nouse (n_con ch) /\ nouse (n_pre ch) /\ nouse (n_res ch) /\
    okp (n_con ch) (n_pre ch) /\ okp (n_con ch) (n_res ch) /\ okp (n_pre ch) (n_res ch).
  Proof.
    intros [U _ _ _ _ _]. unfold W in *.
    apply nouse_app in U. destruct U as (U1 & U2 & U3). apply nouse_app in U2. destruct U2 as (U2 & U4 & U5).
    apply okp_app_r in U3. destruct U3 as (U3 & U6). repeat split; assumption.
  Qed.

  (* what can come later in the join's start(): own events, later children's start, passive events *)
  Definition Snd (rest : list nrun) (b : lev) : Prop :=
    se (eq p) (eq p) b \/ (exists k chk, nth_error rest k = Some chk /\ In b (n_pre chk)) \/ se PF PF b.

  Lemma sg_se q c : se PF PF (Sg q c).
  Proof. split; intros x H; [discriminate|destruct H as [H|[H|[H|H]]]; discriminate]. Qed.

  Lemma PreEv_Snd i rest b : PreEv i rest b -> Snd rest b.
  Proof.
    intros [[_ Ho]|[Hc|[Hi|(k & chk & _ & ->)]]].
    - now left.
    - right. now left.
    - right. right. now apply inert_se.
    - right. right. apply sg_se.
  Qed.

  Lemma vs_later i ch rest a b : CI i ch -> (forall k chk, nth_error rest k = Some chk -> CI (S i + k) chk) ->
    In a (W ch) -> Snd rest b -> ok_pair a b.
  Proof.
    intros Hch Hrest Ha [Ho|[(k & chk & Hk & Hb)|Hp]].
    - eapply child_own; eassumption.
    - eapply (cross i (S i + k)); [lia|exact Hch|exact (Hrest _ _ Hk)|exact Ha|apply in_W_pre, Hb].
    - now apply ok_pair_passive.
  Qed.

  Lemma sg_later i c rest b : (forall k chk, nth_error rest k = Some chk -> CI (S i + k) chk) ->
    Snd rest b -> ok_pair (Sg (off + i :: p) c) b.
  Proof.
    intros Hrest [[Ho _]|[(k & chk & Hk & Hb)|Hp]].
    - cbn [ok_pair]. intros q' Hq. rewrite <- (Ho q' Hq). apply not_under_self.
    - cbn [ok_pair]. intros q' Hq Hu. destruct (CI_se _ _ _ (Hrest _ _ Hk) (in_W_pre _ _ Hb)) as [A _].
      apply (G3 i (S i + k) q'); [lia|exact (A q' Hq)|exact Hu].
    - now apply ok_pair_passive.
  Qed.

  Lemma jpre_nouse : forall chs i j, (forall k ch, nth_error chs k = Some ch -> CI (i + k) ch) -> nouse (jpre i chs j).
  Proof.
    induction chs as [|ch rest IH]; intros i j HC; [exact I|].
    assert (Hch : CI i ch) by (rewrite <- (Nat.add_0_r i); apply HC; reflexivity).
    assert (Hrest : forall k chk, nth_error rest k = Some chk -> CI (S i + k) chk).
    { intros k chk Hk. replace (S i + k) with (i + S k) by lia. apply HC. exact Hk. }
    assert (Hposts : forall ch', In ch' (ch :: rest) -> Forall inert (n_post ch')).
    { intros ch' Hin. apply In_nth_error in Hin. destruct Hin as (k & Hk). exact (ci_post _ _ (HC _ _ Hk)). }
    destruct (CI_parts _ _ Hch) as (_ & UP & _ & _ & _ & _).
    cbn [jpre].
    set (J := jrecv_events p j i (n_c ch)).
    set (TAIL := match rest with [] => [Acc p] | _ :: _ => n_post ch ++ jpre (S i) rest (join_child n j (i, Sig (n_c ch))) end).
    assert (HJ : forall b, In b J -> Snd rest b).
    { intros b Hb. left. exact (proj2 (own_in J b (jrecv_firsts _ _ _) (jrecv_seconds _ _ _) Hb)). }
    assert (HT : forall b, In b TAIL -> Snd rest b).
    { intros b Hb. subst TAIL. destruct rest as [|ch2 rest2].
      - left. exact (proj2 (own_in [Acc p] b (acc_firsts p) (acc_seconds p) Hb)).
      - apply in_app_or in Hb. destruct Hb as [Hb|Hb].
        + right. right. apply inert_se. pose proof (ci_post _ _ Hch) as Hp. rewrite Forall_forall in Hp. auto.
        + apply jpre_ev in Hb; [eapply PreEv_Snd; exact Hb|]. intros ch' Hin. apply Hposts. now right. }
    assert (UT : nouse TAIL).
    { subst TAIL. destruct rest as [|ch2 rest2]; [split; [constructor|exact I]|].
      apply nouse_app. split; [|split].
      - apply nouse_nofirst, inert_firsts, (ci_post _ _ Hch).
      - apply IH. exact Hrest.
      - apply okp_nofirst, inert_firsts, (ci_post _ _ Hch). }
    apply nouse_app. split; [now apply nouse_nofirst|split; [|now apply okp_nofirst]].
    apply nouse_app. split; [exact UP|split].
    - apply nouse_app. split; [split; [constructor|exact I]|split].
      + apply nouse_app. split; [apply nouse_nofirst, jrecv_firsts|split; [exact UT|apply okp_nofirst, jrecv_firsts]].
      + apply okp_in. intros a b [<-|[]] Hb. apply (sg_later i _ rest); [exact Hrest|].
        apply in_app_or in Hb. destruct Hb as [Hb|Hb]; [exact (HJ _ Hb)|exact (HT _ Hb)].
    - apply okp_in. intros a b Ha Hb. apply (vs_later i ch rest); [exact Hch|exact Hrest|apply in_W_pre, Ha|].
      change ([Sg (off + i :: p) (n_c ch)] ++ J ++ TAIL) with (Sg (off + i :: p) (n_c ch) :: J ++ TAIL) in Hb.
      destruct Hb as [<-|Hb]; [right; right; apply sg_se|]. apply in_app_or in Hb.
      destruct Hb as [Hb|Hb]; [exact (HJ _ Hb)|exact (HT _ Hb)].
  Qed.

  (* the start() part of the join against what precedes and what follows it *)
  Lemma okp_X_pre X chs j :
    (forall ch, In ch chs -> Forall inert (n_post ch)) ->
    (forall a b, In a X -> se (eq p) (eq p) b -> ok_pair a b) ->
    (forall k ch, nth_error chs k = Some ch -> okp X (n_pre ch)) ->
    okp X (jpre 0 chs j).
  Proof.
    intros Hposts Hown Hch. apply okp_in. intros a b Ha Hb. apply jpre_ev in Hb; [|exact Hposts].
    destruct Hb as [[_ Ho]|[(k & chk & Hk & Hb)|[Hi|(k & chk & _ & ->)]]].
    - auto.
    - specialize (Hch _ _ Hk). rewrite okp_in in Hch. auto.
    - apply ok_pair_passive, inert_se, Hi.
    - apply ok_pair_passive, sg_se.
  Qed.

  Lemma okp_pre_Y Y BU chs j :
    (forall ch, In ch chs -> Forall inert (n_post ch)) ->
    (forall k ch, nth_error chs k = Some ch -> okp (n_pre ch) Y) -> seconds PF BU Y ->
    okp (jpre 0 chs j) Y.
  Proof.
    intros Hposts Hch HY. apply okp_in. intros a b Ha Hb. apply jpre_ev in Ha; [|exact Hposts].
    destruct Ha as [[Hf _]|[(k & chk & Hk & Ha)|[Hi|(k & chk & _ & ->)]]].
    - now apply ok_pair_nofirst.
    - specialize (Hch _ _ Hk). rewrite okp_in in Hch. auto.
    - apply ok_pair_nofirst, inert_fe, Hi.
    - cbn [ok_pair]. intros q' Hq. unfold seconds in HY. rewrite Forall_forall in HY. destruct (HY b Hb) as [A _]. destruct (A q' Hq).
  Qed.

  Lemma jpre_foot chs j : (forall k ch, nth_error chs k = Some ch -> CI k ch) ->
    firsts (under p) (under p) (jpre 0 chs j) /\ seconds (under p) (under p) (jpre 0 chs j).
  Proof.
    intros HC.
    assert (Hposts : forall ch', In ch' chs -> Forall inert (n_post ch')).
    { intros ch' Hin. apply In_nth_error in Hin. destruct Hin as (k & Hk). exact (ci_post _ _ (HC _ _ Hk)). }
    split; apply Forall_forall; intros e He; apply jpre_ev in He; try exact Hposts;
      destruct He as [[Hf Ho]|[(k & chk & Hk & He)|[Hi|(k & chk & _ & ->)]]].
    - destruct e as [o|[x k]|x|x|x|x|x c0|c]; cbn [fe] in *; auto; try contradiction. destruct k; auto; contradiction.
    - pose proof (CI_fe _ _ _ (HC _ _ Hk) (in_W_pre _ _ He)) as F.
      destruct e as [o|[x k']|x|x|x|x|x c0|c]; cbn [fe] in *; eauto. destruct k'; eauto.
    - apply inert_fe in Hi. destruct e as [o|[x k]|x|x|x|x|x c0|c]; cbn [fe] in *; auto; try contradiction. destruct k; auto; contradiction.
    - cbn [fe]. eapply under_cons, under_refl.
    - destruct Ho as [A B]. split; intros q Hq; [rewrite <- (A q Hq)|rewrite <- (B q Hq)]; apply under_refl.
    - destruct (CI_se _ _ _ (HC _ _ Hk) (in_W_pre _ _ He)) as [A B]. split; intros q Hq; [eapply G4, A, Hq|].
      destruct (B q Hq) as [Hl| ->]; [eapply G4, Hl|apply under_refl].
    - destruct (inert_se _ Hi) as [A B]. split; intros q Hq; [destruct (A q Hq)|destruct (B q Hq)].
    - destruct (sg_se (off + (0 + k) :: p) (n_c chk)) as [A B]. split; intros q Hq; [destruct (A q Hq)|destruct (B q Hq)].
  Qed.

  Lemma nth_error_fun {A} (l : list A) k a b : nth_error l k = Some a -> nth_error l k = Some b -> a = b.
  Proof. congruence. Qed.

  (* two parts of (possibly different) children, the first listed before the second in W *)
  Lemma parts_ok chs (f g : nrun -> list lev) :
    (forall k ch, nth_error chs k = Some ch -> CI k ch) ->
    (forall ch a, In a (f ch) -> In a (W ch)) -> (forall ch a, In a (g ch) -> In a (W ch)) ->
    (forall k ch, nth_error chs k = Some ch -> okp (f ch) (g ch)) ->
    forall k m chk chm, nth_error chs k = Some chk -> nth_error chs m = Some chm -> okp (f chk) (g chm).
  Proof.
    intros HC Hf Hg Hsame k m chk chm Hk Hm. destruct (Nat.eq_dec k m) as [->|Hne].
    - rewrite (nth_error_fun _ _ _ _ Hk Hm). eapply Hsame; eassumption.
    - apply okp_in. intros a b Ha Hb. eapply (cross k m); eauto.
  Qed.

  Lemma okp_flat_l (f : nrun -> list lev) chs Y : (forall ch, In ch chs -> okp (f ch) Y) -> okp (flat_map f chs) Y.
  Proof.
    intros H. apply okp_in. intros a b Ha Hb. apply in_flat_map in Ha. destruct Ha as (ch & Hin & Ha).
    specialize (H ch Hin). rewrite okp_in in H. auto.
  Qed.
  Lemma okp_flat_r (f : nrun -> list lev) chs X : (forall ch, In ch chs -> okp X (f ch)) -> okp X (flat_map f chs).
  Proof.
    intros H. apply okp_in. intros a b Ha Hb. apply in_flat_map in Hb. destruct Hb as (ch & Hin & Hb).
    specialize (H ch Hin). rewrite okp_in in H. auto.
  Qed.

  Lemma join_node_NI (vec : bool) xc xr chs r :
    n = length chs -> loop = (if vec then [Acc p] else []) ->
    join_node p off vec xc xr chs = Some r ->
    (forall k ch, nth_error chs k = Some ch -> CI k ch) ->
    nouse xc -> firsts (under p) (under p) xc -> seconds (under p) (under p) xc ->
    (forall a b, In a xc -> se (eq p) (eq p) b -> ok_pair a b) ->
    (forall ch, In ch chs -> okp xc (W ch)) ->
    nouse xr -> firsts (under p) (under p) xr -> seconds PF PF xr ->
    NI p r.
  Proof.
    intros Hn Hloop Hr HC Uxc Fxc Sxc Hxown Hxch Uxr Fxr Sxr.
    assert (Xown : forall Y, seconds (eq p) (eq p) Y -> okp xc Y).
    { intros Y HY. apply okp_in. intros a b Ha Hb. apply Hxown; [exact Ha|]. unfold seconds in HY. rewrite Forall_forall in HY. auto. }
    assert (Hposts : forall ch', In ch' chs -> Forall inert (n_post ch')).
    { intros ch' Hin. apply In_nth_error in Hin. destruct Hin as (k & Hk). exact (ci_post _ _ (HC _ _ Hk)). }
    assert (HCin : forall ch, In ch chs -> exists k, nth_error chs k = Some ch /\ CI k ch).
    { intros ch Hin. apply In_nth_error in Hin. destruct Hin as (k & Hk). eauto. }
    unfold join_node in Hr. cbv zeta in Hr.
    pose proof (acc_firsts p) as Fa. pose proof (acc_seconds p) as Sa.
    destruct chs as [|ch0 rest].
    - destruct vec; [|discriminate]. injection Hr as <-.
      match goal with |- NI _ {| n_con := _ ++ ?oc; n_pre := _; n_c := _; n_res := ?d1 :: ?d2 :: _; n_post := _ |} =>
        change (d1 :: d2 :: xr) with ([d1; d2] ++ xr); remember oc as OC eqn:EOC; remember [d1; d2] as OR eqn:EOR end.
      assert (FOC : firsts PF PF OC) by (rewrite EOC; conc_firsts).
      assert (SOC : seconds (eq p) (eq p) OC) by (rewrite EOC; conc_seconds).
      assert (IOR : Forall inert OR) by (rewrite EOR; conc_inert).
      clear EOC EOR.
      pose proof (inert_firsts _ IOR) as FOR. pose proof (inert_seconds _ IOR) as SOR.
      pose proof (Xown _ SOC) as X1. pose proof (Xown _ Sa) as X2.
      constructor; unfold W; cbn [n_con n_pre n_res n_post].
      + rewrite <- ?app_assoc. split_use; seg_solve.
      + rewrite <- ?app_assoc. fp_firsts.
      + fp_seconds.
      + fp_seconds.
      + fp_seconds.
      + constructor.
    - cbv iota in Hr. remember (ch0 :: rest) as chs eqn:Echs in *. rewrite <- Hloop, <- Hn in Hr.
      destruct (jfold p off n loop 0 chs (join_init n)) as [[[[pre c] post] jf]|] eqn:Ej; [|discriminate].
      destruct (jfold_shape _ _ _ _ _ _ _ Ej) as (-> & chl & Hchl & ->).
      injection Hr as <-.
      match goal with |- NI _ {| n_con := _ ++ ?k :: ?oc ++ ?cc; n_pre := _; n_c := _; n_res := _ ++ ?sd ++ ?or ++ _; n_post := _ |} =>
        change (k :: oc ++ cc) with ((k :: oc) ++ cc);
        remember (k :: oc) as OC eqn:EOC; remember or as OR eqn:EOR; remember sd as SD eqn:ESD end.
      assert (FOC : firsts PF PF OC) by (rewrite EOC; destruct vec; conc_firsts).
      assert (SOC : seconds (eq p) (eq p) OC) by (rewrite EOC; destruct vec; conc_seconds).
      assert (IOR : Forall inert OR) by (rewrite EOR; destruct vec; cbn [app]; conc_inert).
      assert (ISD : Forall inert SD).
      { rewrite ESD. unfold slot_dels. apply Forall_app. split.
        - apply Forall_forall. intros e He. apply in_map_iff in He. destruct He as (sl & <- & _).
          eexists; eexists; split; [reflexivity|discriminate].
        - destruct (j_err jf); conc_inert. }
      clear EOC EOR ESD.
      pose proof (inert_firsts _ IOR) as FOR. pose proof (inert_seconds _ IOR) as SOR.
      pose proof (inert_firsts _ ISD) as FSD. pose proof (inert_seconds _ ISD) as SSD.
      set (PRE := jpre 0 chs (join_init n)).
      set (CC := flat_map n_con chs). set (RRs := flat_map n_res chs).
      (* footprints *)
      destruct (jpre_foot chs (join_init n) HC) as (FPRE & SPRE). fold PRE in FPRE, SPRE.
      assert (FCC : firsts (under p) (under p) CC).
      { apply Forall_flat_map, Forall_forall. intros ch Hin. destruct (HCin ch Hin) as (k & Hk & Hci).
        apply Forall_forall. intros e He. pose proof (CI_fe _ _ _ Hci (in_W_con _ _ He)) as F.
        destruct e as [o|[x k']|x|x|x|x|x c0|c']; cbn [fe] in *; eauto. destruct k'; eauto. }
      assert (SCC : seconds (under p) (under p) CC).
      { apply Forall_flat_map, Forall_forall. intros ch Hin. destruct (HCin ch Hin) as (k & Hk & Hci).
        apply Forall_forall. intros e He. destruct (CI_se _ _ _ Hci (in_W_con _ _ He)) as [A B].
        split; intros q Hq; [eapply G4, A, Hq|]. destruct (B q Hq) as [Hl| ->]; [eapply G4, Hl|apply under_refl]. }
      assert (FRR : firsts (under p) (under p) RRs).
      { apply Forall_flat_map, Forall_forall. intros ch Hin. destruct (HCin ch Hin) as (k & Hk & Hci).
        apply Forall_forall. intros e He. pose proof (CI_fe _ _ _ Hci (in_W_res _ _ He)) as F.
        destruct e as [o|[x k']|x|x|x|x|x c0|c']; cbn [fe] in *; eauto. destruct k'; eauto. }
      assert (SRR : seconds PF (under p) RRs).
      { apply Forall_flat_map, Forall_forall. intros ch Hin. destruct (HCin ch Hin) as (k & Hk & Hci).
        pose proof (ci_sr _ _ Hci) as S. eapply seconds_weaken; [| |exact S]; [auto|].
        intros q [Hl| ->]; [eapply G4, Hl|apply under_refl]. }
      (* sections against each other *)
      assert (UCC : nouse CC).
      { apply nouse_flat_map.
        - intros ch Hin. destruct (HCin ch Hin) as (k & Hk & Hci). exact (proj1 (CI_parts _ _ Hci)).
        - intros k m chk chm Hkm Hk Hm. apply okp_in. intros a b Ha Hb.
          eapply (cross k m); [lia|exact (HC _ _ Hk)|exact (HC _ _ Hm)|apply in_W_con, Ha|apply in_W_con, Hb]. }
      assert (URR : nouse RRs).
      { apply nouse_flat_map.
        - intros ch Hin. destruct (HCin ch Hin) as (k & Hk & Hci). exact (proj1 (proj2 (proj2 (CI_parts _ _ Hci)))).
        - intros k m chk chm Hkm Hk Hm. apply okp_in. intros a b Ha Hb.
          eapply (cross k m); [lia|exact (HC _ _ Hk)|exact (HC _ _ Hm)|apply in_W_res, Ha|apply in_W_res, Hb]. }
      assert (UPRE : nouse PRE) by (apply jpre_nouse; exact HC).
      assert (CPRE : okp CC PRE).
      { apply okp_flat_l. intros ch Hin. destruct (HCin ch Hin) as (k & Hk & Hci). apply okp_X_pre; [exact Hposts| |].
        - intros a b Ha Hb. eapply child_own; [exact Hci|apply in_W_con, Ha|exact Hb].
        - intros m chm Hm. apply (parts_ok chs n_con n_pre HC in_W_con in_W_pre) with (k := k) (m := m); auto.
          intros k' ch' Hk'. exact (proj1 (proj2 (proj2 (proj2 (CI_parts _ _ (HC _ _ Hk')))))). }
      assert (CRR : okp CC RRs).
      { apply okp_flat_l. intros ch Hin. destruct (HCin ch Hin) as (k & Hk & Hci). apply okp_flat_r. intros chm Hinm.
        destruct (HCin chm Hinm) as (m & Hm & _).
        apply (parts_ok chs n_con n_res HC in_W_con in_W_res) with (k := k) (m := m); auto.
        intros k' ch' Hk'. exact (proj1 (proj2 (proj2 (proj2 (proj2 (CI_parts _ _ (HC _ _ Hk'))))))). }
      assert (PRR : okp PRE RRs).
      { apply (okp_pre_Y RRs (under p)); [exact Hposts| |exact SRR].
        intros k ch Hk. apply okp_flat_r. intros chm Hinm. destruct (HCin chm Hinm) as (m & Hm & _).
        apply (parts_ok chs n_pre n_res HC in_W_pre in_W_res) with (k := k) (m := m); auto.
        intros k' ch' Hk'. exact (proj2 (proj2 (proj2 (proj2 (proj2 (CI_parts _ _ (HC _ _ Hk'))))))). }
      assert (CL0 : okp CC loop).
      { apply okp_flat_l. intros ch Hin. destruct (HCin ch Hin) as (k & Hk & Hci). apply okp_in. intros a b Ha Hb.
        eapply child_own; [exact Hci|apply in_W_con, Ha|]. pose proof loopS as SL. unfold seconds in SL. rewrite Forall_forall in SL. auto. }
      assert (XCC : okp xc CC).
      { apply okp_flat_r. intros ch Hin. specialize (Hxch ch Hin). unfold W in Hxch. apply okp_app_r in Hxch. tauto. }
      assert (XRR : okp xc RRs).
      { apply okp_flat_r. intros ch Hin. specialize (Hxch ch Hin). unfold W in Hxch. rewrite !okp_app_r in Hxch. tauto. }
      assert (XPRE : okp xc PRE).
      { apply okp_X_pre; [exact Hposts|exact Hxown|]. intros k ch Hk. apply nth_error_In in Hk.
        specialize (Hxch ch Hk). unfold W in Hxch. rewrite !okp_app_r in Hxch. tauto. }
      pose proof (Xown _ SOC) as X1. pose proof (Xown _ loopS) as X2.
      clearbody PRE CC RRs.
      constructor; unfold W; cbn [n_con n_pre n_res n_post].
      + rewrite <- ?app_assoc. split_use; seg_solve.
      + rewrite <- ?app_assoc. fp_firsts.
      + fp_seconds.
      + fp_seconds.
      + fp_seconds.
      + apply Hposts. exact Hchl.
  Qed.
End Join.

(* ------------------------------------------------------------------ shared states *)
Lemma pred_run_facts p (ref : bool) pr : NI (0 :: p) pr ->
  nouse (pred_run p ref pr) /\ firsts (under (0 :: p)) (under (0 :: p)) (pred_run p ref pr) /\
  seconds (under (0 :: p)) (fun q => q = p \/ under (0 :: p) q) (pred_run p ref pr) /\
  okp (n_con pr) (pred_run p ref pr).
Proof.
  intros Hpr. destruct (NI_parts _ _ Hpr) as (UC & UP & UR & CP & CR & PR & FC & FP & FR).
  destruct Hpr as [_ _ SC SP SR IP].
  pose proof (inert_firsts _ IP) as FPO. pose proof (inert_seconds _ IP) as SPO.
  pose proof (sg_firsts (0 :: p) (n_c pr)) as Fsg. pose proof (sg_seconds (0 :: p) (n_c pr)) as Ssg.
  unfold pred_run.
  remember [AccSh p; New (@pair path okind p KShVar)] as U1 eqn:E1. remember [AccSh p; AccSh p; AccSh p] as U3 eqn:E3.
  remember (if ref then [RefDec p] else []) as U4 eqn:E4.
  assert (F1 : firsts PF PF U1) by (rewrite E1; conc_firsts). assert (S1 : seconds PF (eq p) U1) by (rewrite E1; conc_seconds).
  assert (F3 : firsts PF PF U3) by (rewrite E3; conc_firsts). assert (S3 : seconds PF (eq p) U3) by (rewrite E3; conc_seconds).
  assert (F4 : firsts PF PF U4) by (rewrite E4; destruct ref; conc_firsts).
  assert (S4 : seconds PF (eq p) U4) by (rewrite E4; destruct ref; conc_seconds).
  assert (F2 : firsts PF PF [AccSh p]) by conc_firsts. assert (S2 : seconds PF (eq p) [AccSh p]) by conc_seconds.
  clear E1 E3 E4.
  rewrite (cons_app (Sg (0 :: p) (n_c pr))), (cons_app (AccSh p) (n_res pr ++ _)). rewrite <- ?app_assoc.
  split; [|split; [|split]].
  - split_use; seg_solve.
  - fp_firsts.
  - fp_seconds.
  - split_use; seg_solve.
Qed.

Definition LS (p : path) (k : nat) : path -> Prop :=
  match k with O => fun q => under (1 :: p) q \/ under (0 :: p) q | S k' => under (S (S k') :: p) end.

Lemma consumer_CI p ref pr k : NI (0 :: p) pr -> CI p (LS p) k (consumer p ref pr k).
Proof.
  intros Hpr. destruct k as [|k'].
  - destruct (pred_run_facts p ref pr Hpr) as (UPR & FPR & SPR & _).
    unfold consumer. set (PRN := pred_run p ref pr) in *. clearbody PRN.
    match goal with |- CI _ _ _ {| n_con := ?a1; n_pre := _ :: _ ++ ?a2; n_c := _; n_res := ?a3; n_post := _ |} =>
      remember a1 as A1 eqn:E1; remember a2 as A2 eqn:E2; remember a3 as A3 eqn:E3 end.
    assert (F1 : firsts PF PF A1) by (rewrite E1; conc_firsts).
    assert (S1 : seconds (under (1 :: p)) (eq p) A1) by (rewrite E1; conc_seconds).
    assert (F2 : firsts PF PF A2) by (rewrite E2; conc_firsts). assert (S2 : seconds PF (eq p) A2) by (rewrite E2; conc_seconds).
    assert (F3 : firsts PF PF A3) by (rewrite E3; conc_firsts). assert (S3 : seconds PF (eq p) A3) by (rewrite E3; conc_seconds).
    assert (F0 : firsts PF PF [AccSh p]) by conc_firsts. assert (S0 : seconds PF (eq p) [AccSh p]) by conc_seconds.
    clear E1 E2 E3.
    constructor; unfold W, LU, LS; cbn [n_con n_pre n_res n_post].
    + rewrite (cons_app (AccSh p)). rewrite <- ?app_assoc. split_use; seg_solve.
    + rewrite (cons_app (AccSh p)). rewrite <- ?app_assoc. fp_firsts.
    + fp_seconds.
    + rewrite (cons_app (AccSh p)). fp_seconds.
    + fp_seconds.
    + constructor.
  - constructor; unfold W, LU, LS, consumer; cbn [n_con n_pre n_res n_post app];
      first [ apply nouse_nofirst; conc_firsts | conc_firsts | conc_seconds | constructor ].
Qed.

Lemma LS_G1 p : forall j k q q', j <> k -> LS p j q -> LS p k q' -> under q q' -> False.
Proof. intros [|j] [|k] q q' Hjk Hq Hq' Hu; cbn [LS] in *; try congruence; paths. Qed.
Lemma LS_G2 p : forall k q, LS p k q -> under q p -> False.
Proof. intros [|k] q Hq Hu; cbn [LS] in *; paths. Qed.
Lemma LS_G3 p : forall j k q', j < k -> LS p k q' -> under (1 + j :: p) q' -> False.
Proof. intros j [|k] q' Hjk Hq Hu; cbn [LS] in *; [lia|]. paths. Qed.
Lemma LS_G4 p : forall k q, LS p k q -> under p q.
Proof. intros [|k] q Hq; cbn [LS] in *; [destruct Hq|]; eauto using under_cons. Qed.

(* plain children: child k sits at k :: p *)
Definition LC (p : path) (k : nat) : path -> Prop := under (k :: p).
Lemma LC_G1 p : forall j k q q', j <> k -> LC p j q -> LC p k q' -> under q q' -> False.
Proof. unfold LC. intros; paths. Qed.
Lemma LC_G2 p : forall k q, LC p k q -> under q p -> False.
Proof. unfold LC. intros; paths. Qed.
Lemma LC_G3 p : forall j k q', j < k -> LC p k q' -> under (0 + j :: p) q' -> False.
Proof. unfold LC. intros; paths. Qed.
Lemma LC_G4 p : forall k q, LC p k q -> under p q.
Proof. unfold LC. intros. eauto using under_cons. Qed.

Lemma NI_CI p k ch : NI (k :: p) ch -> CI p (LC p) k ch.
Proof.
  intros [U F SC SP SR IP]. constructor; unfold LC, LU; auto.
  - eapply seconds_weaken; [| |exact SC]; auto.
  - eapply seconds_weaken; [| |exact SP]; auto.
  - eapply seconds_weaken; [| |exact SR]; auto.
Qed.

Lemma lgo_NI p ts : Forall (fun t => forall p r, lrun t p = Some r -> NI p r) ts ->
  forall i chs, lgo p i ts = Some chs -> forall k ch, nth_error chs k = Some ch -> NI (i + k :: p) ch.
Proof.
  induction 1 as [|t ts Ht _ IH]; intros i chs Hgo k ch Hk.
  - injection Hgo as <-. destruct k; discriminate.
  - cbn [lgo] in Hgo. destruct (lrun t (i :: p)) as [x|] eqn:Ex; [|discriminate].
    destruct (lgo p (S i) ts) as [xs|] eqn:Exs; [|discriminate]. injection Hgo as <-.
    destruct k as [|k]; cbn [nth_error] in Hk.
    + injection Hk as <-. rewrite Nat.add_0_r. eapply Ht, Ex.
    + replace (i + S k) with (S i + k) by lia. eapply IH; eassumption.
Qed.

Lemma nouse_nil : nouse []. Proof. exact I. Qed.

Lemma plain_join_NI p (vec : bool) chs r :
  join_node p 0 vec [] [] chs = Some r -> (forall k ch, nth_error chs k = Some ch -> NI (k :: p) ch) -> NI p r.
Proof.
  intros Hr HC.
  eapply (join_node_NI p 0 (LC p) (LC_G1 p) (LC_G2 p) (LC_G3 p) (LC_G4 p) (length chs) (if vec then [Acc p] else []));
    try exact Hr; try reflexivity.
  all: match goal with
    | |- nouse [] => exact I
    | |- firsts _ _ [] => constructor
    | |- seconds _ _ [] => constructor
    | |- firsts _ _ (if ?v then _ else _) => destruct v; conc_firsts
    | |- seconds _ _ (if ?v then _ else _) => destruct v; conc_seconds
    | |- forall a b, In a [] -> _ => intros a b []
    | |- forall ch, In ch _ -> okp [] _ => intros; apply okp_nil_l
    | |- forall k ch, nth_error _ k = Some ch -> CI _ _ _ _ => intros k ch Hk; apply NI_CI, HC, Hk
    end.
Qed.

Lemma CI_ext p L k ch ch' : n_con ch' = n_con ch -> n_pre ch' = n_pre ch -> n_res ch' = n_res ch -> n_post ch' = n_post ch ->
  CI p L k ch -> CI p L k ch'.
Proof. intros E1 E2 E3 E4 [U F SC SP SR IP]. constructor; unfold W in *; rewrite ?E1, ?E2, ?E3, ?E4; assumption. Qed.

Lemma consumer_okp p ref pr k : NI (0 :: p) pr -> okp (n_con pr) (W (consumer p ref pr k)).
Proof.
  intros Hpr. destruct (NI_parts _ _ Hpr) as (_ & _ & _ & _ & _ & _ & FC & _ & _).
  destruct k as [|k'].
  - destruct (pred_run_facts p ref pr Hpr) as (_ & _ & _ & CPR).
    unfold W, consumer; cbn [n_con n_pre n_res]. set (PRN := pred_run p ref pr) in *. clearbody PRN.
    match goal with |- okp _ (?a1 ++ (_ :: _ ++ ?a2) ++ ?a3) =>
      remember a1 as A1 eqn:E1; remember a2 as A2 eqn:E2; remember a3 as A3 eqn:E3 end.
    assert (S1 : seconds (under (1 :: p)) (eq p) A1) by (rewrite E1; conc_seconds).
    assert (S2 : seconds PF (eq p) A2) by (rewrite E2; conc_seconds).
    assert (S3 : seconds PF (eq p) A3) by (rewrite E3; conc_seconds).
    assert (S0 : seconds PF (eq p) [AccSh p]) by conc_seconds.
    clear E1 E2 E3. rewrite (cons_app (AccSh p)). rewrite <- ?app_assoc. split_use; seg_solve.
  - unfold W, consumer; cbn [n_con n_pre n_res app].
    apply (okp_by (under (0 :: p)) (under (0 :: p)) (under (S (S k') :: p)) (eq p)); [exact FC|conc_seconds|intros; paths|intros; paths].
Qed.

Lemma nth_map_seq {A} (f : nat -> A) : forall n a k x, nth_error (map f (seq a n)) k = Some x -> x = f (a + k).
Proof.
  induction n as [|n IH]; intros a k x H; [destruct k; discriminate|].
  cbn [seq map] in H. destruct k as [|k]; cbn [nth_error] in H.
  - injection H as <-. now rewrite Nat.add_0_r.
  - apply IH in H. rewrite H. f_equal. lia.
Qed.

Lemma shared_join_NI p (vec ref : bool) pr chs xr r (xc0 : list lev) :
  NI (0 :: p) pr ->
  join_node p 1 vec (xc0 ++ n_con pr) xr chs = Some r ->
  firsts PF PF xc0 -> seconds PF (eq p) xc0 ->
  (forall k ch, nth_error chs k = Some ch ->
     n_con ch = n_con (consumer p ref pr k) /\ n_pre ch = n_pre (consumer p ref pr k) /\
     n_res ch = n_res (consumer p ref pr k) /\ n_post ch = n_post (consumer p ref pr k)) ->
  (xr = [] \/ xr = [Del (p, KShVar); Del (p, KShared)]) ->
  NI p r.
Proof.
  intros Hpr Hr F0 S0 Hch Hxr.
  destruct (NI_parts _ _ Hpr) as (UC & _ & _ & _ & _ & _ & FC & _ & _).
  pose proof (ni_sc _ _ Hpr) as SC.
  eapply (join_node_NI p 1 (LS p) (LS_G1 p) (LS_G2 p) (LS_G3 p) (LS_G4 p) (length chs) (if vec then [Acc p] else []));
    try exact Hr; try reflexivity.
  all: match goal with
    | |- firsts _ _ (if ?v then _ else _) => destruct v; conc_firsts
    | |- seconds _ _ (if ?v then _ else _) => destruct v; conc_seconds
    | _ => idtac
    end.
  - intros k ch Hk. destruct (Hch k ch Hk) as (E1 & E2 & E3 & E4).
    eapply CI_ext; [exact E1|exact E2|exact E3|exact E4|]. apply consumer_CI, Hpr.
  - apply nouse_app. split; [now apply nouse_nofirst|split; [exact UC|now apply okp_nofirst]].
  - fp_firsts.
  - fp_seconds.
  - intros a b Ha Hb. apply in_app_or in Ha. destruct Ha as [Ha|Ha].
    + apply ok_pair_nofirst. unfold firsts in F0. rewrite Forall_forall in F0. auto.
    + apply (ok_pair_by (under (0 :: p)) (under (0 :: p)) (eq p) (eq p)); [|exact Hb|intros; paths|intros; paths].
      unfold firsts in FC. rewrite Forall_forall in FC. auto.
  - intros ch Hin. apply In_nth_error in Hin. destruct Hin as (k & Hk). destruct (Hch k ch Hk) as (E1 & E2 & E3 & E4).
    apply okp_app_l. split; [now apply okp_nofirst|].
    unfold W. rewrite E1, E2, E3. apply (consumer_okp p ref pr k Hpr).
  - destruct Hxr as [-> | ->]; [exact I|conc_nouse].
  - destruct Hxr as [-> | ->]; conc_firsts.
  - destruct Hxr as [-> | ->]; conc_seconds.
Qed.

Lemma ensure_NI p pr : NI (0 :: p) pr ->
  NI p {| n_con := [New (p, KShared); RefInc p] ++ n_con pr ++ [RefInc p; AccSh p] ++ pred_run p true pr ++ [New (p, KState)];
          n_pre := [AccSh p; AccSh p];
          n_c := n_c pr;
          n_res := [Del (p, KState); RefDec p] ++ [Del (p, KShVar); Del (p, KShared)];
          n_post := [] |}.
Proof.
  intros Hpr. destruct (NI_parts _ _ Hpr) as (UC & _ & _ & _ & _ & _ & FC & _ & _).
  pose proof (ni_sc _ _ Hpr) as SC.
  destruct (pred_run_facts p true pr Hpr) as (UPR & FPR & SPR & CPR).
  set (PRN := pred_run p true pr) in *. clearbody PRN.
  match goal with |- NI _ {| n_con := ?b1 ++ _ ++ ?b2 ++ _ ++ ?b3; n_pre := ?b4; n_c := _; n_res := ?b5 ++ ?xr; n_post := _ |} =>
    remember b1 as B1 eqn:E1; remember b2 as B2 eqn:E2; remember b3 as B3 eqn:E3; remember b4 as B4 eqn:E4;
    remember b5 as B5 eqn:E5; remember xr as XR eqn:EX end.
  assert (F1 : firsts PF PF B1) by (rewrite E1; conc_firsts). assert (S1 : seconds PF (eq p) B1) by (rewrite E1; conc_seconds).
  assert (F2 : firsts PF PF B2) by (rewrite E2; conc_firsts). assert (S2 : seconds PF (eq p) B2) by (rewrite E2; conc_seconds).
  assert (F3 : firsts PF PF B3) by (rewrite E3; conc_firsts). assert (S3 : seconds (eq p) (eq p) B3) by (rewrite E3; conc_seconds).
  assert (F4 : firsts PF PF B4) by (rewrite E4; conc_firsts). assert (S4 : seconds PF (eq p) B4) by (rewrite E4; conc_seconds).
  assert (F5 : firsts PF PF B5) by (rewrite E5; conc_firsts). assert (S5 : seconds PF (eq p) B5) by (rewrite E5; conc_seconds).
  assert (UX : nouse XR) by (rewrite EX; conc_nouse).
  assert (FX : firsts (under p) (under p) XR) by (rewrite EX; conc_firsts).
  assert (SX : seconds PF PF XR) by (rewrite EX; conc_seconds).
  clear E1 E2 E3 E4 E5 EX.
  constructor; unfold W; cbn [n_con n_pre n_res n_post].
  - rewrite <- ?app_assoc. split_use; seg_solve.
  - rewrite <- ?app_assoc. fp_firsts.
  - fp_seconds.
  - fp_seconds.
  - fp_seconds.
  - constructor.
Qed.

(* ------------------------------------------------------------------ every pipeline *)
Ltac un_case IHt :=
  let p := fresh "p" in let r := fresh "r" in let Hr := fresh "Hr" in let ch := fresh "ch" in let Ech := fresh "Ech" in
  intros p r Hr; cbn [lrun] in Hr; destruct (lrun _ (0 :: p)) as [ch|] eqn:Ech; [|discriminate];
  injection Hr as <-; apply unode_NI';
  [ eapply IHt; exact Ech | conc_firsts | conc_seconds | conc_firsts | conc_seconds | conc_inert
  | first [ apply RF_fn | apply RF_drop | apply RF_sched | apply RF_plain; [conc_firsts|conc_seconds] ] ].

Theorem lrun_NI : forall t p r, lrun t p = Some r -> NI p r.
Proof.
  induction t using term_ind'.
  - intros p r [= <-]. apply leaf_NI; auto.
  - intros p r [= <-]. apply leaf_NI; auto.
  - intros p r [= <-]. apply leaf_NI; auto.
  - intros p r [= <-]. apply leaf_NI; auto.
  - (* then *) un_case IHt.
  - (* let_value *)
    intros p r Hr. cbn [lrun] in Hr. destruct (lrun t (0 :: p)) as [ch|] eqn:Ech; [|discriminate].
    assert (Hlc : firsts PF PF (let_con p) /\ seconds (eq p) (eq p) (let_con p) /\ Forall inert (let_res p)).
    { unfold let_con, let_res. split; [conc_firsts|split; [conc_seconds|conc_inert]]. }
    destruct Hlc as (L1 & L2 & L3).
    destruct (n_c ch) as [vs|e|] eqn:Ec.
    + destruct (thr vs) as [e|].
      * injection Hr as <-. apply unode_NI'; [eapply IHt; exact Ech|exact L1|exact L2|constructor|constructor|exact L3|].
        apply (RF_let p (KVals 0) (inl e)); auto.
      * destruct (lrun (k vs) (1 :: p)) as [su|] eqn:Es; [|discriminate]. injection Hr as <-.
        apply unode_NI'; [eapply IHt; exact Ech|exact L1|exact L2|constructor|constructor|exact L3|].
        apply (RF_let p (KVals 0) (inr su)); [auto|eapply H, Es].
    + injection Hr as <-. apply unode_NI'; [eapply IHt; exact Ech|exact L1|exact L2|constructor|constructor|exact L3|].
      apply RF_plain; [conc_firsts|conc_seconds].
    + injection Hr as <-. apply unode_NI'; [eapply IHt; exact Ech|exact L1|exact L2|constructor|constructor|exact L3|].
      apply RF_plain; [conc_firsts|conc_seconds].
  - (* let_error *)
    intros p r Hr. cbn [lrun] in Hr. destruct (lrun t (0 :: p)) as [ch|] eqn:Ech; [|discriminate].
    assert (Hlc : firsts PF PF (let_con p) /\ seconds (eq p) (eq p) (let_con p) /\ Forall inert (let_res p)).
    { unfold let_con, let_res. split; [conc_firsts|split; [conc_seconds|conc_inert]]. }
    destruct Hlc as (L1 & L2 & L3).
    destruct (n_c ch) as [vs|e|] eqn:Ec.
    + injection Hr as <-. apply unode_NI'; [eapply IHt; exact Ech|exact L1|exact L2|constructor|constructor|exact L3|].
      apply RF_plain; [conc_firsts|conc_seconds].
    + destruct (thr e) as [e'|].
      * injection Hr as <-. apply unode_NI'; [eapply IHt; exact Ech|exact L1|exact L2|constructor|constructor|exact L3|].
        apply (RF_let p KErr (inl e')); auto.
      * destruct (lrun (k e) (1 :: p)) as [su|] eqn:Es; [|discriminate]. injection Hr as <-.
        apply unode_NI'; [eapply IHt; exact Ech|exact L1|exact L2|constructor|constructor|exact L3|].
        apply (RF_let p KErr (inr su)); [auto|eapply H, Es].
    + injection Hr as <-. apply unode_NI'; [eapply IHt; exact Ech|exact L1|exact L2|constructor|constructor|exact L3|].
      apply RF_plain; [conc_firsts|conc_seconds].
  - (* when_all *)
    intros p r Hr. cbn [lrun] in Hr.
    change (match lgo p 0 ts with Some chs => join_node p 0 false [] [] chs | None => None end = Some r) in Hr.
    destruct (lgo p 0 ts) as [chs|] eqn:Eg; [|discriminate].
    eapply plain_join_NI; [exact Hr|]. intros k ch Hk. exact (lgo_NI p ts H 0 chs Eg k ch Hk).
  - (* when_all_vector *)
    intros p r Hr. cbn [lrun] in Hr.
    change (match lgo p 0 ts with Some chs => join_node p 0 true [] [] chs | None => None end = Some r) in Hr.
    destruct (lgo p 0 ts) as [chs|] eqn:Eg; [|discriminate].
    eapply plain_join_NI; [exact Hr|]. intros k ch Hk. exact (lgo_NI p ts H 0 chs Eg k ch Hk).
  - (* split *)
    intros p r Hr. cbn [lrun] in Hr. destruct (lrun t (0 :: p)) as [pr|] eqn:Epr; [|discriminate].
    eapply (shared_join_NI p true true pr _ _ r [New (p, KShared); RefInc p]); [eapply IHt; exact Epr|exact Hr|conc_firsts|conc_seconds| |].
    + intros k ch Hk. apply nth_map_seq in Hk. subst ch. cbn [Nat.add]. repeat split; reflexivity.
    + destruct n as [|m].
      * left. reflexivity.
      * right. replace (1 + Z.of_nat (S m) - 1 - Z.of_nat (S m))%Z with 0%Z by lia. reflexivity.
  - (* split_tuple *)
    intros p r Hr. cbn [lrun] in Hr. destruct (lrun t (0 :: p)) as [pr|] eqn:Epr; [|discriminate].
    eapply (shared_join_NI p false true pr _ _ r [New (p, KShared); RefInc p]); [eapply IHt; exact Epr|exact Hr|conc_firsts|conc_seconds| |].
    + intros k ch Hk. destruct k as [|[|k]]; cbn [nth_error] in Hk; try (destruct k; discriminate);
        injection Hk as <-; repeat split; reflexivity.
    + right. reflexivity.
  - (* ensure_started *)
    intros p r Hr. cbn [lrun] in Hr. destruct (lrun t (0 :: p)) as [pr|] eqn:Epr; [|discriminate].
    injection Hr as <-. apply ensure_NI. eapply IHt, Epr.
  - (* drop_value *) un_case IHt.
  - (* drop_operation_state *) un_case IHt.
  - (* require_started *) un_case IHt.
  - (* unpack *) un_case IHt.
  - (* continues_on *) un_case IHt.
  - (* bulk *) un_case IHt.
  - (* any_sender *) un_case IHt.
Qed.

(* the terminal receiver's call and the stack unwinding are neither firsts nor seconds *)
Lemma term_fe c : fe PF PF (Term c). Proof. exact I. Qed.
Lemma term_se c : se PF PF (Term c).
Proof. split; intros x H; [discriminate|destruct H as [H|[H|[H|H]]]; discriminate]. Qed.

Theorem ltrace_nouse t p r rd : lrun t p = Some r -> nouse (ltrace rd r).
Proof.
  intros Hr. pose proof (lrun_NI t p r Hr) as H.
  destruct (NI_parts _ _ H) as (UC & UP & UR & CP & CR & PR & FC & FP & FR).
  destruct H as [_ _ SC SP SR IP].
  pose proof (inert_firsts _ IP) as FPO. pose proof (inert_seconds _ IP) as SPO.
  assert (FT : firsts PF PF [Term (n_c r)]) by (constructor; [exact I|constructor]).
  assert (ST : seconds PF PF [Term (n_c r)]) by (constructor; [apply term_se|constructor]).
  unfold ltrace. rewrite (cons_app (Term (n_c r))). destruct rd; split_use; seg_solve.
Qed.

Theorem no_use_after_signal : forall t, wfl t -> forall rd,
  exists r, lrun t [] = Some r /\ sigs t = [Sig (n_c r)] /\ nouse_ok (ltrace rd r) = true.
Proof.
  intros t Hw rd. destruct (ledger_balanced t Hw) as (r & Hr & Hs & _).
  exists r. split; [exact Hr|split; [exact Hs|]]. apply nouse_ok_nouse. eapply ltrace_nouse, Hr.
Qed.

(* also after the call of the terminal receiver nothing touches any operation state of the
   pipeline, in both destruction modes (the terminal receiver plays the role of the root's Sg) *)
Theorem no_touch_after_term : forall t p r rd, lrun t p = Some r ->
  exists l2, ltrace rd r = n_con r ++ n_pre r ++ Term (n_c r) :: l2 /\ forall e, In e l2 -> touch e = None.
Proof.
  intros t p r rd Hr. pose proof (lrun_NI t p r Hr) as [_ _ _ _ SR IP].
  eexists. split; [reflexivity|]. intros e' He'.
  assert (Hin : In e' (n_res r) \/ In e' (n_post r)) by (destruct rd; apply in_app_or in He'; tauto).
  destruct Hin as [Hin|Hin].
  - unfold seconds in SR. rewrite Forall_forall in SR. destruct (SR e' Hin) as [A _].
    destruct (touch e') as [q|] eqn:Eq; [destruct (A q eq_refl)|reflexivity].
  - rewrite Forall_forall in IP. destruct (IP e' Hin) as (q & k & -> & _). reflexivity.
Qed.

(* at every position of the operation-state tree, for every term on which the evaluator is defined *)
Theorem ltrace_nouse_ok : forall t p r rd, lrun t p = Some r -> nouse_ok (ltrace rd r) = true.
Proof. intros t p r rd Hr. apply nouse_ok_nouse. eapply ltrace_nouse, Hr. Qed.
