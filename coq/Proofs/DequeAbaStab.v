(* Proofs/DequeAbaStab.v — (node-reuse version of Proofs/DequeConcStab.v, unguarded since the repair) stability of a thread's register invariant [J] under the steps of
   OTHER threads: [J_frame] (steps that leave the anchor alone: private stores, allocation,
   deallocation, the link CAS of stabilize) and [J_acas] (a successful anchor CAS). *)
From Coq Require Import List NArith Bool Lia Arith Permutation.
From Pika Require Import Base.Conc Model.IndexQueue Model.DequeSpec Model.Deque Model.DequeLin
  Proofs.DequeProofs Proofs.DequeConcDefs Proofs.DequeConcStab Proofs.DequeAbaDefs.
Import ListNotations.
Local Open Scope N_scope.

Section Frame.
  Variables (g g' : dq_shared) (c pend pend' : list addr) (l : dq_local).
  Hypothesis Hanc : anc g' = anc g.
  Hypothesis Hkeep : forall x, In x pend -> owns (dpc l) = Some x -> In x pend'.
  Hypothesis Hsub : forall x, In x pend' -> In x pend.
  Hypothesis Hown : forall x, owns (dpc l) = Some x -> ~ In x pend -> live g x ->
                              live g' x /\ heap g' x = heap g x.
  Hypothesis Hmono : forall x, epoch g x <= epoch g' x.
  Hypothesis Hpend : forall x, In x pend -> epoch g' x = epoch g x -> In x pend'.
  Hypothesis Hchain : forall x s, In x c ->
     epoch g' x = epoch g x /\
     (outward s (heap g' x) = outward s (heap g x) \/
      (ltag (outward s (heap g x)) < ltag (outward s (heap g' x)) /\
       forall n, second s c n x -> ast (anc g) = push_status s -> lptr (outward s (heap g' x)) = n)).
  (* link tags never decrease at an address that has ever been handed out — across free and
     re-allocation: this is what the repair of F15 (tags continue across reuse) provides *)
  Hypothesis Hlive_nz : forall x, In x c -> epoch g x <> 0.
  Hypothesis Htag : forall x s, epoch g x <> 0 ->
     ltag (outward s (heap g x)) <= ltag (outward s (heap g' x)).

  Lemma snap_frame lrs : snap_ok g lrs -> snap_ok g' lrs.
  Proof. unfold snap_ok. rewrite Hanc. trivial. Qed.

  Lemma stab_frame s lrs : stab_ok g s lrs -> stab_ok g' s lrs.
  Proof. intros (A & B & C). split; [apply snap_frame; exact A|auto]. Qed.

  Lemma notin_frame x : ~ In x (c ++ pend) -> ~ In x (c ++ pend').
  Proof. intros H H'. apply H. apply in_app_or in H'. apply in_or_app. destruct H'; auto. Qed.

  Lemma push_own_frame s n : owns (dpc l) = Some n -> push_own g c pend l s n -> push_own g' c pend' l s n.
  Proof.
    intros Ho (A & B & C). destruct (Hown n Ho (proj2 (notin_app _ _ _ B)) A) as [E1 E2].
    split; [exact E1|]. split; [apply notin_frame; exact B|]. rewrite E2. exact C.
  Qed.

  Lemma Jk_frame k : owns (dpc l) = kown k -> Jk g c pend l k -> Jk g' c pend' l k.
  Proof.
    destruct k as [|s n|s]; cbn [Jk kown]; intros Ho H; [exact I| |exact H].
    apply push_own_frame; assumption.
  Qed.

  Lemma lnk_chain_frame s p pn : In p c ->
    outward s (heap g p) = pn \/ lnk_lt g s p pn ->
    outward s (heap g' p) = pn \/ lnk_lt g' s p pn.
  Proof.
    intros Hp H. unfold lnk_lt in *. destruct (Hchain p s Hp) as [_ [E|[E _]]].
    - rewrite E. exact H.
    - right. destruct H as [H|H]; [rewrite <- H|]; lia.
  Qed.

  Lemma J_frame : J g c pend l -> J g' c pend' l.
  Proof.
    unfold J. casepc l; try rewrite Hanc; trivial.
    - intros (A & B & C). destruct (Hown n ltac:(ow) (proj2 (notin_app _ _ _ B)) A) as [E1 E2].
      split; [exact E1|]. split; [apply notin_frame; exact B|exact C].
    - apply push_own_frame. ow.
    - intros (A & B & C). split; [apply push_own_frame; [ow|auto]|]. split; [apply snap_frame; exact B|exact C].
    - intros (A & B & C). split; [apply push_own_frame; [ow|auto]|]. split; [apply snap_frame; exact B|].
      destruct emp; [exact C|]. destruct A as (A1 & A2 & A3).
      destruct (Hown n ltac:(ow) (proj2 (notin_app _ _ _ A2)) A1) as [E1 E2]. rewrite E2. exact C.
    - intros (A & B & C). split; [exact A|]. split; [apply snap_frame; exact B|exact C].
    - intros (A & B & C). split; [exact A|]. split; [apply snap_frame; exact B|exact C].
    - intros (A & B & C). split; [exact A|]. split; [apply snap_frame; exact B|exact C].
    - intros (A & B). split; [exact A|]. apply Hkeep; [auto|ow].
    - intros (A & B). split; [apply Jk_frame; [ow|auto]|apply stab_frame; exact B].
    - intros (A & B & C). split; [apply Jk_frame; [ow|auto]|]. split; [apply stab_frame; exact B|exact C].
    - intros (A & B & C). split; [apply Jk_frame; [ow|auto]|]. split; [apply stab_frame; exact B|exact C].
    - intros (A & B & C & D & Le & E). split; [apply Jk_frame; [ow|auto]|]. split; [apply stab_frame; exact B|].
      split; [exact C|]. split; [exact D|]. split; [pose proof (Hmono (lptr prev)); lia|]. intros EA.
      destruct (E EA) as [E1 E2]. pose proof (proj2 (second_in _ _ _ _ (C EA))) as Hp. split.
      + apply lnk_chain_frame; assumption.
      + rewrite (proj1 (Hchain _ s Hp)). exact E2.
    - intros (A & B & C & D & Le & E). split; [apply Jk_frame; [ow|auto]|]. split; [apply stab_frame; exact B|].
      split; [exact C|]. split; [exact D|]. split; [pose proof (Hmono (lptr prev)); lia|].
      destruct E as [(EA & E & Ee)|E].
      + pose proof (proj2 (second_in _ _ _ _ (C EA))) as Hp.
        destruct (lnk_chain_frame s (lptr prev) pn Hp (or_introl E)) as [E'|E'].
        * left. split; [exact EA|]. split; [exact E'|]. rewrite (proj1 (Hchain _ s Hp)). exact Ee.
        * right. split; [exact E'|]. rewrite (proj1 (Hchain _ s Hp)). exact (Hlive_nz _ Hp).
      + right. destruct E as [Lt Nz]. pose proof (Hmono (lptr prev)) as M. split.
        * unfold lnk_lt in *. pose proof (Htag (lptr prev) s Nz). lia.
        * lia.
    - intros (A & B & C). split; [apply Jk_frame; [ow|auto]|]. split; [apply stab_frame; exact B|].
      intros EA n p r Hv. specialize (C EA n p r Hv).
      assert (Hp : In p c). { apply (in_vw s). rewrite Hv. cbn; auto. }
      destruct (Hchain p s Hp) as [_ [E|[_ E]]]; [rewrite E; exact C|].
      apply E; [exists r; exact Hv|]. destruct B as (_ & B & _). rewrite <- EA. exact B.
  Qed.
End Frame.

Section Acas.
  Variables (g g' : dq_shared) (c c' pend pend' : list addr) (l : dq_local).
  Hypothesis Htag : atag (anc g') = atag (anc g) + 1.
  Hypothesis Hheap : heap g' = heap g.
  Hypothesis Hep : epoch g' = epoch g.
  Hypothesis Hc : forall x, In x c -> In x c' \/ In x pend'.
  Hypothesis Hp : forall x, In x pend -> In x pend'.
  Hypothesis Hown : forall x, owns (dpc l) = Some x -> ~ In x (c ++ pend) -> ~ In x (c' ++ pend').
  Hypothesis Hfix : forall s, ast (anc g) = push_status s -> fixed g s c.

  Lemma snap_acas lrs : snap_ok g lrs -> atag lrs < atag (anc g').
  Proof. intros [->|H]; lia. Qed.

  Lemma snap_acas_ok lrs : snap_ok g lrs -> snap_ok g' lrs.
  Proof. intros H. right. apply snap_acas. exact H. Qed.

  Lemma snap_acas_ne lrs : snap_ok g lrs -> lrs <> anc g'.
  Proof. intros H E. apply snap_acas in H. rewrite E in H. lia. Qed.

  Lemma stab_acas s lrs : stab_ok g s lrs -> stab_ok g' s lrs.
  Proof. intros (A & B & C). split; [apply snap_acas_ok; exact A|auto]. Qed.

  Lemma push_own_acas s n : owns (dpc l) = Some n -> push_own g c pend l s n -> push_own g' c' pend' l s n.
  Proof.
    intros Ho (A & B & C). unfold push_own, live. rewrite Hheap, Hep. split; [exact A|]. split; [|exact C].
    apply Hown; assumption.
  Qed.

  Lemma Jk_acas k : owns (dpc l) = kown k -> Jk g c pend l k -> Jk g' c' pend' l k.
  Proof.
    destruct k as [|s n|s]; cbn [Jk kown]; intros Ho H; [exact I| |exact H].
    apply push_own_acas; assumption.
  Qed.

  Lemma J_acas : J g c pend l -> J g' c' pend' l.
  Proof.
    unfold J. casepc l; trivial.
    - unfold live. rewrite Hep. intros (A & B & C). split; [exact A|]. split; [apply Hown; [ow|auto]|exact C].
    - apply push_own_acas. ow.
    - intros (A & B & C). split; [apply push_own_acas; [ow|auto]|]. split; [apply snap_acas_ok; exact B|exact C].
    - intros (A & B & C). split; [apply push_own_acas; [ow|auto]|]. split; [apply snap_acas_ok; exact B|].
      rewrite Hheap. exact C.
    - intros (A & B & C). split; [exact A|]. split; [apply snap_acas_ok; exact B|exact C].
    - intros (A & B & C). split; [exact A|]. split; [apply snap_acas_ok; exact B|exact C].
    - intros (A & B & C & D). split; [exact A|]. split; [apply snap_acas_ok; exact B|]. split; [exact C|].
      destruct np as [p|]; [|exact D]. destruct D as (D1 & D2 & D3). split; [exact D1|]. split; [exact D2|].
      intros E. exfalso. exact (snap_acas_ne lrs B E).
    - intros (A & B). split; [exact A|]. apply Hp. exact B.
    - intros (A & B). split; [apply Jk_acas; [ow|auto]|apply stab_acas; exact B].
    - intros (A & B & C). split; [apply Jk_acas; [ow|auto]|]. split; [apply stab_acas; exact B|].
      intros E. exfalso. exact (snap_acas_ne lrs (proj1 B) E).
    - intros (A & B & C & D). split; [apply Jk_acas; [ow|auto]|]. split; [apply stab_acas; exact B|].
      split; [|exact D]. intros E. exfalso. exact (snap_acas_ne lrs (proj1 B) E).
    - intros (A & B & C & D & Le & E). split; [apply Jk_acas; [ow|auto]|]. split; [apply stab_acas; exact B|].
      split; [intros E'; exfalso; exact (snap_acas_ne lrs (proj1 B) E')|]. split; [exact D|].
      split; [rewrite Hep; exact Le|]. intros E'; exfalso; exact (snap_acas_ne lrs (proj1 B) E').
    - intros (A & B & C & D & Le & E). split; [apply Jk_acas; [ow|auto]|]. split; [apply stab_acas; exact B|].
      split; [intros E'; exfalso; exact (snap_acas_ne lrs (proj1 B) E')|]. split; [exact D|].
      split; [rewrite Hep; exact Le|]. right. unfold lnk_lt. rewrite Hheap, Hep.
      destruct E as [(EA & E & _)|E].
      + exfalso. destruct B as (_ & B & _). rewrite EA in B. destruct (C EA) as [r Hr].
        pose proof (Hfix s B _ _ _ Hr) as F. rewrite E in F. apply D. exact F.
      + exact E.
    - intros (A & B & C). split; [apply Jk_acas; [ow|auto]|]. split; [apply stab_acas; exact B|].
      intros E. exfalso. exact (snap_acas_ne lrs (proj1 B) E).
  Qed.
End Acas.
