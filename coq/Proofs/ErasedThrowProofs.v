(* Proofs/ErasedThrowProofs.v — C18: throwing copy / move constructors of the wrapped object,
   nested wrappers, target<T>(), and the generated storage decision. *)
From Coq Require Import List Bool Arith ZArith NArith Lia Permutation.
From Pika Require Import Gen.GenErased Model.Erased Proofs.ErasedProofs Proofs.ErasedSpecProofs.
Import ListNotations.

(* ------------------------------------------------------------------ senders: every history *)
Lemma sxstep_ginv sbo op st : ginv st -> ginv (snd (sxstep sbo op st)).
Proof.
  destruct op; cbn [sxstep]; [apply sstep_ginv| | | | | |];
    first [apply op1_ginv | apply op2_ginv];
    auto using w_store_throw_local, w_copy_throw_local, w_nest_throw_local, w_move_throw_local,
      w_move_from_any_throw_local, w_connect_rv_throw_local.
Qed.

Definition facts (st : state) : Prop :=
  (NoDup (ctors (led st)) /\ NoDup (ids (slots st) ++ dtors (led st)) /\
   Permutation (ctors (led st)) (ids (slots st) ++ dtors (led st))) /\
  let L := led (destroy_all st) in
  NoDup (ctors L) /\ NoDup (dtors L) /\ Permutation (ctors L) (dtors L).

Lemma ginv_all_facts st : ginv st -> facts st.
Proof. intro G. split; [apply ginv_facts|apply final_facts]; exact G. Qed.

Theorem sender_throw_destroyed_once sbo n ops : facts (run (sxstep sbo) ops (init n)).
Proof.
  apply ginv_all_facts. apply run_ginv; [intros; apply sxstep_ginv; auto|apply init_ginv].
Qed.

(* a wrapper after a step that threw: unchanged, or empty *)
Definition safe1 (f : storage -> ledger -> outcome * storage * ledger) : Prop :=
  forall s L, match f s L with (r, s', _) => r = OThrew 0 -> s' = s \/ s' = Empty end.
Definition safe2 (f : storage -> storage -> ledger -> outcome * storage * storage * ledger) : Prop :=
  forall a b L, match f a b L with (r, a', b', _) => r = OThrew 0 -> (a' = a \/ a' = Empty) /\ (b' = b \/ b' = Empty) end.

Lemma op1_safe f j st k : safe1 f -> fst (op1 f j st) = OThrew 0 ->
  slot (slots (snd (op1 f j st))) k = slot (slots st) k \/ slot (slots (snd (op1 f j st))) k = Empty.
Proof.
  intros Hf. destruct (Nat.eq_dec k j) as [->|E]; [|intros _; left; apply op1_frame; exact E].
  unfold op1. destruct (Nat.ltb_spec j (length (slots st))) as [Hj|Hj]; [|intros _; left; reflexivity].
  specialize (Hf (slot (slots st) j) (led st)). destruct (f _ _) as [[r s'] L']. cbn [fst snd slots].
  intro Hr. unfold slot at 1 3. rewrite !nth_set_nth_eq by exact Hj. apply Hf; exact Hr.
Qed.

Lemma op2_safe f j i st k : safe2 f -> fst (op2 f j i st) = OThrew 0 ->
  slot (slots (snd (op2 f j i st))) k = slot (slots st) k \/ slot (slots (snd (op2 f j i st))) k = Empty.
Proof.
  intros Hf. unfold op2.
  destruct (Nat.ltb_spec j (length (slots st))) as [Hj|Hj]; [|intros _; left; reflexivity].
  destruct (Nat.ltb_spec i (length (slots st))) as [Hi|Hi]; [|intros _; left; reflexivity].
  destruct (Nat.eqb_spec j i) as [E|E]; [intros _; left; reflexivity|]. cbn [andb negb].
  specialize (Hf (slot (slots st) j) (slot (slots st) i) (led st)).
  destruct (f _ _ _) as [[[r a'] b'] L']. cbn [fst snd slots]. intro Hr. destruct (Hf Hr) as [Ha Hb].
  unfold slot at 1 3.
  destruct (Nat.eq_dec k j) as [->|Ej].
  - rewrite nth_set_nth_eq by (rewrite length_set_nth; exact Hj). exact Ha.
  - rewrite nth_set_nth_neq by exact Ej. destruct (Nat.eq_dec k i) as [->|Ei].
    + rewrite nth_set_nth_eq by exact Hi. exact Hb.
    + left. apply nth_set_nth_neq; exact Ei.
Qed.

Ltac safe_tac := intros; cbn; intuition (auto; try discriminate).

Lemma w_store_throw_safe v ctor : safe1 (w_store_throw v ctor).
Proof. intros s L. unfold w_store_throw, fresh_obj. cbn. auto. Qed.
Lemma w_copy_throw_safe : safe2 w_copy_throw.
Proof.
  intros a b L. unfold w_copy_throw, w_copy. destruct b; [cbn; destruct (is_empty a); safe_tac| | |]; safe_tac.
Qed.
Lemma w_nest_throw_safe : safe2 w_nest_throw.
Proof.
  intros a b L. unfold w_nest_throw, w_nest. destruct b; [cbn; destruct (is_empty a); safe_tac| | |]; safe_tac.
Qed.
Lemma w_move_throw_safe : safe2 w_move_throw.
Proof.
  intros a b L. unfold w_move_throw, w_move, s_move_assign. destruct b; cbn; try destruct (is_empty a); safe_tac.
Qed.
Lemma w_move_from_any_throw_safe : safe2 w_move_from_any_throw.
Proof.
  intros a b L. unfold w_move_from_any_throw, w_move_from_any, s_move_assign.
  destruct b; cbn; try destruct (is_empty a); safe_tac.
Qed.
Lemma w_connect_rv_throw_safe sbo : safe1 (w_connect_rv_throw sbo).
Proof.
  intros s L. pose proof (sstep_refines sbo (SConnectRv 0) {| led := L; slots := [s] |}) as [_ R].
  cbn [sstep sspec] in R. unfold op1, sp1, absl, slot in R. cbn [slots length Nat.ltb Nat.leb nth map led] in R.
  unfold w_connect_rv_throw.
  assert (G : match w_connect_rv sbo s L with (r, s', _) => r = OThrew 0 -> s' = s \/ s' = Empty end).
  { destruct (w_connect_rv sbo s L) as [[r s'] L']. cbn [snd slots set_nth map] in R. intros _. right.
    apply abs_none. destruct (abs s); cbn in R; injection R; auto. }
  destruct s as [|o|o|[|p|p|m]]; try exact G; cbn; auto.
Qed.

Theorem sender_throw_unchanged_or_empty sbo op st k :
  sx_is_throw op = true -> fst (sxstep sbo op st) = OThrew 0 ->
  slot (slots (snd (sxstep sbo op st))) k = slot (slots st) k \/
  slot (slots (snd (sxstep sbo op st))) k = Empty.
Proof.
  destruct op; cbn [sx_is_throw sxstep]; try discriminate; intros _;
    first [apply op1_safe | apply op2_safe];
    auto using w_store_throw_safe, w_copy_throw_safe, w_nest_throw_safe, w_move_throw_safe,
      w_move_from_any_throw_safe, w_connect_rv_throw_safe.
Qed.

(* ------------------------------------------------------------------ functions: the safe steps *)
Definition nostale (x : xstate) : Prop := forall j, nth j (stale x) None = None.
Definition xinv (x : xstate) : Prop := ginv (xs x) /\ nostale x.

Lemma nostale_existsb x l : nostale x -> existsb (is_stale x) l = false.
Proof.
  intro H. induction l as [|a t IH]; cbn; auto. unfold is_stale at 1. rewrite H. exact IH.
Qed.

Lemma nth_set_nth_none {A} (l : list (option A)) j k :
  nth k l None = None -> nth k (set_nth j None l) None = None.
Proof.
  revert j k; induction l as [|h t IH]; intros [|j] [|k]; cbn; auto.
Qed.

Lemma nostale_set_none x j : nostale x -> nostale (set_stale x j None).
Proof. intros H k. unfold set_stale; cbn [stale]. apply nth_set_nth_none. apply H. Qed.

Lemma xinit_xinv n : xinv (xinit n).
Proof.
  split; [apply init_ginv|]. intro j. unfold xinit; cbn [stale].
  revert j; induction n; intros [|j]; cbn; auto.
Qed.

Lemma gstep_xinv op x : gsafe op = true -> xinv x -> xinv (snd (gstep op x)).
Proof.
  intros Hs [G N]. destruct op; cbn [gsafe] in Hs; try discriminate; cbn [gstep].
  - rewrite (nostale_existsb x _ N). unfold lift; cbn [snd xs stale]. split; [apply fstep_ginv; exact G|exact N].
  - destruct (is_stale x j); split; assumption.
  - subst ctor. rewrite (N j). cbn [negb andb]. unfold lift; cbn [snd xs stale].
    split; [apply op1_ginv; [apply f_store_throw_ctor_local|exact G]|exact N].
  - unfold is_stale. rewrite (N i). unfold lift.
    destruct (_ && _); cbn [snd xs stale set_stale]; (split; [apply op2_ginv; [apply f_copy_ctor_throw_local|exact G]|]);
      [intro k; apply nth_set_nth_none; apply N|exact N].
Qed.

Lemma grun_xinv ops : forall x, forallb gsafe ops = true -> xinv x -> xinv (grun ops x).
Proof.
  induction ops as [|op r IH]; intros x Hs Hi; cbn [grun]; [exact Hi|].
  cbn [forallb] in Hs. apply andb_prop in Hs. destruct Hs as [H1 H2].
  apply IH; [exact H2|apply gstep_xinv; assumption].
Qed.

Theorem function_throw_destroyed_once_partial n ops : forallb gsafe ops = true ->
  facts (xs (grun ops (xinit n))) /\ nostale (grun ops (xinit n)).
Proof.
  intro Hs. destruct (grun_xinv ops (xinit n) Hs (xinit_xinv n)) as [G N].
  split; [apply ginv_all_facts; exact G|exact N].
Qed.

Lemma f_store_throw_ctor_safe v : safe1 (f_store_throw v true).
Proof. intros s L. unfold f_store_throw, fresh_obj. cbn. auto. Qed.
Lemma f_copy_ctor_throw_safe : safe2 f_copy_ctor_throw.
Proof.
  intros a b L. unfold f_copy_ctor_throw, f_copy_ctor, f_clone, f_clone1. destruct b; safe_tac.
Qed.

Theorem function_throw_unchanged_or_empty op x k :
  gsafe op = true -> g_is_throw op = true -> nostale x -> fst (gstep op x) = OThrew 0 ->
  (slot (slots (xs (snd (gstep op x)))) k = slot (slots (xs x)) k \/
   slot (slots (xs (snd (gstep op x)))) k = Empty) /\ nostale (snd (gstep op x)).
Proof.
  intros Hs Ht N. destruct op; cbn [gsafe g_is_throw] in *; try discriminate; cbn [gstep].
  - subst ctor. rewrite (N j). cbn [negb andb]. unfold lift; cbn [fst snd xs stale]. intro Hr.
    split; [apply op1_safe; [apply f_store_throw_ctor_safe|exact Hr]|exact N].
  - unfold is_stale. rewrite (N i). unfold lift. cbn [fst snd xs]. intro Hr.
    split; [apply op2_safe; [apply f_copy_ctor_throw_safe|exact Hr]|].
    destruct (_ && _); [apply nostale_set_none|]; exact N.
Qed.

(* ------------------------------------------------------------------ functions: the unsafe steps *)
Definition cv (big : bool) (k : Z) : oval :=
  {| vbig := big; vcpy := true; valn := false; vbeh := 0; vpay := k; vcalls := 0 |}.

(* F9b: function::operator=(function const&) onto a function of the same stored type *)
Definition f9b_witness : list gop :=
  [GF (FStore 0 (cv false 1) true false); GF (FStore 1 (cv false 2) true false); GCopyAssignThrow 0 1].
Lemma throwing_copy_double_destroy_refuted :
  exists n ops x, count_occ Nat.eq_dec (dtors (led (destroy_all (xs (grun ops (xinit n)))))) x = 2.
Proof. exists 2, f9b_witness, 1. vm_compute. reflexivity. Qed.

(* the same pattern in basic_function::assign(F&&), vptr == f_vptr branch *)
Definition assign_witness : list gop :=
  [GF (FStore 0 (cv false 1) true false); GStoreThrow 0 (cv false 2) false].
Lemma throwing_assign_double_destroy_refuted :
  exists n ops x, count_occ Nat.eq_dec (dtors (led (destroy_all (xs (grun ops (xinit n)))))) x = 2.
Proof. exists 1, assign_witness, 1. vm_compute. reflexivity. Qed.

(* basic_function::assign(F&&) onto an EMPTY function, else branch: the wrapper reports empty but
   keeps T's vtable; a later copy assignment from a function holding a T does nothing *)
Definition stale_witness : list gop :=
  [GStoreThrow 0 (cv false 1) false; GF (FStore 1 (cv false 2) true false); GF (FCopyAssign 0 1)].
Lemma throwing_assign_stale_refuted :
  exists n ops, let r := gtrace ops (xinit n) in
    map (fun t => (fst (fst t), snd t)) (fst r) =
      [(OThrew 0, [true; true]); (ONone, [true; false]); (ONone, [true; false])] /\
    is_stale (snd r) 0 = true /\
    fst (gstep (GF (FInvoke 0 0)) (snd r)) = OUndef.
Proof. exists 2, stale_witness. vm_compute. repeat split. Qed.

(* ------------------------------------------------------------------ nested wrappers *)
(* a unique_function that stores a function holding v behaves as one holding v *)
Theorem nested_function_transparent st j v mvi mv arg : j < length (slots st) ->
  let st' := snd (fstep (FStoreFn j v false mvi mv) st) in
  abs (slot (slots st') j) = Some v /\
  (exists s, slot (slots st') j = Nested s) /\
  fst (fstep (FInvoke j arg) st') = fst (call v arg) /\
  abs (slot (slots (snd (fstep (FInvoke j arg) st'))) j) = Some (snd (call v arg)).
Proof.
  intro Hj. cbv zeta.
  assert (E : exists c, slot (slots (snd (fstep (FStoreFn j v false mvi mv) st))) j = Nested (fn_place c) /\ ov c = v).
  { cbn [fstep]. unfold op1. destruct (Nat.ltb_spec j (length (slots st))); [|lia].
    unfold f_store_fn, fresh_obj, mk, move_obj, copy_obj. destruct mvi, mv; cbn [snd slots ov oid nxt];
      unfold slot; rewrite nth_set_nth_eq by lia; eexists; split; reflexivity. }
  destruct E as [c [E Ec]].
  assert (A : abs (slot (slots (snd (fstep (FStoreFn j v false mvi mv) st))) j) = Some v).
  { rewrite E. unfold fn_place. rewrite <- Ec. destruct (vbig (ov c)); reflexivity. }
  assert (Hl : j < length (slots (snd (fstep (FStoreFn j v false mvi mv) st)))).
  { cbn [fstep]. unfold op1. destruct (Nat.ltb_spec j (length (slots st))); [|lia].
    destruct (f_store_fn _ _ _ _ _ _) as [[r s'] L']. cbn [snd slots]. rewrite length_set_nth. lia. }
  split; [exact A|]. split; [eexists; exact E|].
  apply invoke_transparent; assumption.
Qed.

(* a unique_any_sender that stores (a copy of) an any_sender: it completes as the any_sender's
   sender; the source is unchanged; it is NOT empty even when the any_sender is *)
Theorem nested_sender_transparent sbo st j i : j < length (slots st) -> i < length (slots st) -> j <> i ->
  let st' := snd (sstep sbo (SNest j i) st) in
  abs (slot (slots st') j) = Some (nest_val (abs (slot (slots st) i))) /\
  abs (slot (slots st') i) = abs (slot (slots st) i) /\
  is_empty (slot (slots st') j) = false /\
  fst (sstep sbo (SConnectRv j) st') = direct_connect (nest_val (abs (slot (slots st) i))).
Proof.
  intros Hj Hi E. cbv zeta. destruct (sstep_refines sbo (SNest j i) st) as [_ R]. cbn [sspec] in R.
  rewrite sp2_at in R by (rewrite ?absl_len; auto). cbn [fst snd] in R.
  assert (A : abs (slot (slots (snd (sstep sbo (SNest j i) st))) j) = Some (nest_val (abs (slot (slots st) i)))).
  { rewrite !slot_abs, R. apply nth_set_nth_eq. rewrite length_set_nth, absl_len; auto. }
  split; [exact A|]. split.
  { rewrite !slot_abs, R. rewrite nth_set_nth_neq by auto. apply nth_set_nth_eq. rewrite absl_len; auto. }
  split.
  { rewrite is_empty_abs, A. reflexivity. }
  assert (Hl : j < length (slots (snd (sstep sbo (SNest j i) st)))).
  { rewrite <- absl_len, R, !length_set_nth, absl_len. exact Hj. }
  destruct (connect_transparent sbo _ j _ Hl A) as [C _]. exact C.
Qed.

Lemma direct_connect_bad : direct_connect bad_val = OThrewBad.
Proof. reflexivity. Qed.

(* target<T>() sees the type that is stored: the nested function, not the callable inside it *)
Theorem target_sees_nesting s o :
  f_target None (Nested s) = OValue 1 /\
  (forall q, f_target (Some q) (Nested s) = ONone) /\
  f_target None (Heap o) = ONone /\ f_target None (Inline o) = ONone /\
  f_target (Some (vbig (ov o), vcpy (ov o), valn (ov o))) (Heap o) = OValue (vpay (ov o) * 100 + vcalls (ov o)) /\
  f_target (Some (vbig (ov o), vcpy (ov o), valn (ov o))) (Inline o) = OValue (vpay (ov o) * 100 + vcalls (ov o)) /\
  (forall q, f_target q Empty = ONone).
Proof.
  cbn [f_target]. rewrite !Bool.eqb_reflx. cbn [andb].
  repeat split; auto; intros [[[? ?] ?]|]; reflexivity.
Qed.

(* ------------------------------------------------------------------ the generated storage decision *)
Local Open Scope N_scope.
Theorem embedded_decision sbo k size align :
  sender_embeds sbo k size align = true <->
  sbo = true /\ size <= embedded_size k /\ align <= sbo_alignment_size.
Proof.
  unfold sender_embeds, can_use_embedded_storage, fits_storage, sufficiently_aligned.
  rewrite !andb_true_iff, !N.leb_le. tauto.
Qed.

Theorem function_decision size :
  (function_inline size = true <-> size <= function_storage_size) /\
  allocate_heap size function_storage_size = deallocate_heap size function_storage_size.
Proof.
  unfold function_inline, allocate_heap, deallocate_heap. split; [|reflexivity].
  rewrite negb_true_iff, N.ltb_ge. tauto.
Qed.

Theorem storage_constants :
  sbo_alignment_size = ptr_size /\ unique_any_sender_embedded_size = any_sender_embedded_size /\
  ptr_size <= unique_any_sender_embedded_size /\ ptr_size <= operation_state_embedded_size /\
  ptr_size <= function_storage_size.
Proof. vm_compute. repeat split; discriminate. Qed.

Theorem class_bits_decide sbo k size align v :
  class_ok sbo k size align (vbig v) (valn v) = true -> can_embed sbo v = sender_embeds sbo k size align.
Proof.
  unfold class_ok, can_embed. rewrite !andb_true_iff. intros [[H _] _]. apply eqb_prop in H. symmetry; exact H.
Qed.

(* ------------------------------------------------------------------ the combined statements of Props *)
Local Close Scope N_scope.
Lemma sender_exception_safety : forall sbo n ops,
  (let st := run (sxstep sbo) ops (init n) in
   (NoDup (ctors (led st)) /\ NoDup (ids (slots st) ++ dtors (led st)) /\
    Permutation (ctors (led st)) (ids (slots st) ++ dtors (led st))) /\
   let L := led (destroy_all st) in
   NoDup (ctors L) /\ NoDup (dtors L) /\ Permutation (ctors L) (dtors L)) /\
  (forall op st k, sx_is_throw op = true -> fst (sxstep sbo op st) = OThrew 0 ->
     slot (slots (snd (sxstep sbo op st))) k = slot (slots st) k \/
     slot (slots (snd (sxstep sbo op st))) k = Empty).
Proof.
  intros sbo n ops. split; [exact (sender_throw_destroyed_once sbo n ops)|].
  intros op st k. exact (sender_throw_unchanged_or_empty sbo op st k).
Qed.

Lemma function_exception_safety_partial : forall n ops, forallb gsafe ops = true ->
  (let st := xs (grun ops (xinit n)) in
   (NoDup (ctors (led st)) /\ NoDup (ids (slots st) ++ dtors (led st)) /\
    Permutation (ctors (led st)) (ids (slots st) ++ dtors (led st))) /\
   let L := led (destroy_all st) in
   NoDup (ctors L) /\ NoDup (dtors L) /\ Permutation (ctors L) (dtors L)) /\
  (forall j, nth j (stale (grun ops (xinit n))) None = None) /\
  (forall op x k, gsafe op = true -> g_is_throw op = true -> (forall j, nth j (stale x) None = None) ->
     fst (gstep op x) = OThrew 0 ->
     (slot (slots (xs (snd (gstep op x)))) k = slot (slots (xs x)) k \/
      slot (slots (xs (snd (gstep op x)))) k = Empty) /\
     (forall j, nth j (stale (snd (gstep op x))) None = None)).
Proof.
  intros n ops Hs. destruct (function_throw_destroyed_once_partial n ops Hs) as [F N].
  split; [exact F|]. split; [exact N|]. intros op x k. exact (function_throw_unchanged_or_empty op x k).
Qed.
