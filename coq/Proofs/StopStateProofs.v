(* Proofs/StopStateProofs.v — invariants of Model/StopState.v over arbitrary schedules, thread
   counts, programs and callback bodies. *)
From Coq Require Import List NArith ZArith Bool Arith Lia.
From Pika Require Import Base.Conc Gen.GenStopBits Model.StopWord Model.StopState Proofs.StopFlagsProofs.
Import ListNotations.

(* ---- the flag lemmas, restated on the tests the code performs ---- *)
Lemma f_set_lock w : W w -> W (w_set_lock w) /\ w_is_locked (w_set_lock w) = true /\
  w_stop_requested (w_set_lock w) = w_stop_requested w.
Proof. intros H. rewrite is_locked_lk, !requested_rq. now apply set_lock_spec. Qed.
Lemma f_set_req_lock w : W w -> W (w_set_req_lock w) /\ w_is_locked (w_set_req_lock w) = true /\
  w_stop_requested (w_set_req_lock w) = true.
Proof. intros H. rewrite is_locked_lk, !requested_rq. now apply set_req_lock_spec. Qed.
Lemma f_clear_lock w : W w -> W (w_clear_lock w) /\ w_is_locked (w_clear_lock w) = false /\
  w_stop_requested (w_clear_lock w) = w_stop_requested w.
Proof. intros H. rewrite is_locked_lk, !requested_rq. now apply clear_lock_spec. Qed.
Lemma f_unlock w : W w -> w_is_locked w = true -> W (w_sub w locked_flag) /\
  w_is_locked (w_sub w locked_flag) = false /\ w_stop_requested (w_sub w locked_flag) = w_stop_requested w.
Proof. intros H. rewrite !is_locked_lk, !requested_rq. now apply unlock_spec. Qed.
Lemma f_tok_add w : W w -> tok_room w = true -> W (w_add w token_ref_increment) /\
  w_is_locked (w_add w token_ref_increment) = w_is_locked w /\
  w_stop_requested (w_add w token_ref_increment) = w_stop_requested w.
Proof. intros H G. apply N.ltb_lt in G. rewrite !is_locked_lk, !requested_rq. now apply tok_add_spec. Qed.
Lemma f_tok_sub w : W w -> tok_spare w = true -> W (w_sub w token_ref_increment) /\
  w_is_locked (w_sub w token_ref_increment) = w_is_locked w /\
  w_stop_requested (w_sub w token_ref_increment) = w_stop_requested w.
Proof. intros H G. apply N.ltb_lt in G. rewrite !is_locked_lk, !requested_rq. now apply tok_sub_spec. Qed.
Lemma f_src_add w : W w -> src_room w = true -> W (w_add w source_ref_increment) /\
  w_is_locked (w_add w source_ref_increment) = w_is_locked w /\
  w_stop_requested (w_add w source_ref_increment) = w_stop_requested w.
Proof. intros H G. apply N.ltb_lt in G. rewrite !is_locked_lk, !requested_rq. now apply src_add_spec. Qed.
Lemma f_src_sub w : W w -> src_some w = true -> W (w_sub w source_ref_increment) /\
  w_is_locked (w_sub w source_ref_increment) = w_is_locked w /\
  w_stop_requested (w_sub w source_ref_increment) = w_stop_requested w.
Proof. intros H G. apply N.ltb_lt in G. rewrite !is_locked_lk, !requested_rq. now apply src_sub_spec. Qed.

Global Opaque w_set_lock w_set_req_lock w_clear_lock w_sub w_add w_is_locked w_stop_requested
  w_stop_possible w_tokens w_sources tok_room tok_spare src_room src_some.

(* ---- who is inside the winning request_stop ---- *)
Definition sigpc (p : pcs) : bool :=
  match p with
  | QUnlock _ | QBegin _ | QEnd _ | QRLoad | QRCas _ | QRSpin | QFinal => true
  | _ => false
  end.
Definition holds (p : pcs) : bool :=
  match p with QUnlock _ | QFinal | AUnlock _ | RUnlock _ _ => true | _ => false end.
Definition is_kreq (f : ctx * list op) : bool := match fst f with KReq _ => true | _ => false end.
Definition sigcount (l : local) : nat :=
  (if sigpc (pc l) then 1 else 0) + length (filter is_kreq (frames l)).

Definition isS {A} (o : option A) : bool := match o with Some _ => true | None => false end.

Definition GI6 (w : N) (h wn : option nat) (r : bool) (cnt : nat) (sm : bool) : Prop :=
  W w /\ w_is_locked w = isS h /\ w_stop_requested w = isS wn /\ cnt = (if r then 1 else 0) /\
  (r = true -> isS wn = true) /\ (sm = true -> w_stop_requested w = true).
Definition GI (g : shared) : Prop :=
  GI6 (word g) (holder g) (winner g) (winner_ret g) (count_req_true (log g)) (some_req (log g)).
Definition sc (p : pcs) (k : nat) : nat := (if sigpc p then 1 else 0) + k.
Definition LI3 (h wn : option nat) (r : bool) (t : nat) (p : pcs) (k : nat) : Prop :=
  (holds p = true -> h = Some t) /\ (forall old, p = QCas old -> w_stop_requested old = false) /\
  sc p k <= 1 /\ (sc p k = 1 -> wn = Some t /\ r = false) /\ (wn = Some t -> r = false -> sc p k = 1).
Definition nk (l : local) : nat := length (filter is_kreq (frames l)).
Definition LI (g : shared) (t : nat) (l : local) : Prop :=
  LI3 (holder g) (winner g) (winner_ret g) t (pc l) (nk l).
Definition Inv (g : shared) (ls : nat -> local) : Prop := GI g /\ forall t, LI g t (ls t).

Lemma norm_sc l : sc (pc (norm l)) (nk (norm l)) = sc (pc l) (nk l).
Proof.
  unfold norm. destruct (pc l) eqn:E; try (rewrite E; reflexivity).
  destruct (frames l) as [|[[|c|c] [|o r]] fs] eqn:F; try (rewrite E; reflexivity);
    unfold sc, nk; cbn; rewrite F; cbn; reflexivity.
Qed.
Lemma norm_holds l : holds (pc (norm l)) = holds (pc l).
Proof.
  unfold norm. destruct (pc l) eqn:E; try (rewrite E; reflexivity).
  destruct (frames l) as [|[[|c|c] [|o r]] fs]; cbn; rewrite ?E; reflexivity.
Qed.
Lemma norm_qcas l old : pc (norm l) = QCas old -> pc l = QCas old.
Proof.
  unfold norm. destruct (pc l) eqn:E; try (rewrite E; intros H; exact H).
  destruct (frames l) as [|[[|c|c] [|o r]] fs]; cbn; rewrite ?E; intros H; try discriminate; exact H.
Qed.
Lemma LI_norm g t l : LI g t l -> LI g t (norm l).
Proof.
  unfold LI, LI3. rewrite norm_sc, norm_holds. intros (A & B & C & D & E).
  repeat split; try assumption; try (apply D; assumption).
  intros old H. apply (B old). now apply norm_qcas.
Qed.
(* a normalised local never sits at Idle on an exhausted callback frame *)
Definition normal (l : local) : Prop :=
  match pc l, frames l with
  | Idle, (KReq _, []) :: _ => False | Idle, (KAdd _, []) :: _ => False | _, _ => True end.
Lemma norm_normal l : normal (norm l).
Proof.
  unfold norm, normal. destruct (pc l) eqn:E; try (rewrite E; exact I).
  destruct (frames l) as [|[[|c|c] [|o r]] fs] eqn:F; cbn; rewrite ?E, ?F; exact I.
Qed.

Lemma f_clear_flags w : w_is_locked (w_clear_lock w) = false /\
  w_stop_requested (w_clear_lock w) = w_stop_requested w.
Proof. rewrite is_locked_lk, !requested_rq. apply clear_lock_flags. Qed.

(* a successful compare_exchange: state_ == expected *)
Lemma cas_ok g old sp : ((word g =? w_clear_lock old)%N && negb sp = true) ->
  word g = w_clear_lock old /\ w_is_locked (word g) = false /\
  w_stop_requested (word g) = w_stop_requested old /\
  w_set_lock old = w_set_lock (word g) /\ w_set_req_lock old = w_set_req_lock (word g).
Proof.
  intros H. apply andb_true_iff in H. destruct H as [H _]. apply N.eqb_eq in H.
  destruct (f_clear_flags old) as [A B]. rewrite H. repeat split; try assumption.
  - apply set_lock_clear.
  - apply set_req_lock_clear.
Qed.

Lemma isS_false {A} (o : option A) : isS o = false -> o = None.
Proof. destruct o; [discriminate|reflexivity]. Qed.
Lemma isS_true {A} (o : option A) : isS o = true -> exists x, o = Some x.
Proof. destruct o; [eauto|discriminate]. Qed.

Ltac wfacts :=
  repeat match goal with
  | HW : W ?w |- context [w_set_lock ?w] =>
      lazymatch goal with _ : W (w_set_lock w) |- _ => fail | _ => idtac end;
      destruct (f_set_lock w HW) as (? & ? & ?)
  | HW : W ?w |- context [w_set_req_lock ?w] =>
      lazymatch goal with _ : W (w_set_req_lock w) |- _ => fail | _ => idtac end;
      destruct (f_set_req_lock w HW) as (? & ? & ?)
  end.

Ltac fin := cbn in *; intuition (try congruence; try discriminate; try lia).

Definition OK (t : nat) (g : shared) (r : shared * local) : Prop :=
  GI (fst r) /\ LI (fst r) t (snd r) /\
  (forall t' p k, t' <> t -> LI3 (holder g) (winner g) (winner_ret g) t' p k ->
                  LI3 (holder (fst r)) (winner (fst r)) (winner_ret (fst r)) t' p k).

Global Opaque W.

Ltac brk := cbv zeta; repeat (match goal with
  | |- OK _ _ (if ?b then _ else _) => destruct b eqn:?
  | |- OK _ _ (match ?x with _ => _ end) => destruct x eqn:?
  | |- OK _ _ (q_loop_head _ _) => unfold q_loop_head; cbn [cbs set_winner set_sig set_holder set_word]
  | |- OK _ _ (a_after_read _ _ _ _ _ _) => unfold a_after_read
  | |- OK _ _ (dispatch _ _ _ _ _) => unfold dispatch
  | |- context [if remflag ?g ?t then _ else _] => destruct (remflag g t)
  end; cbv zeta).

Ltac notyet P := lazymatch goal with _ : P |- _ => fail | _ => idtac end.
Ltac wf := repeat match goal with
  | H : ((_ =? _)%N && negb _)%bool = true |- _ =>
      apply cas_ok in H; let a := fresh "Hc" in let b := fresh "Hc" in
      destruct H as (? & ? & ? & a & b); rewrite ?a, ?b
  | HW : W ?w, H : w_is_locked ?w = true |- context [w_sub ?w locked_flag] =>
      notyet (W (w_sub w locked_flag)); destruct (f_unlock w HW H) as (? & ? & ?)
  | HW : W ?w |- context [w_set_lock ?w] =>
      notyet (W (w_set_lock w)); destruct (f_set_lock w HW) as (? & ? & ?)
  | HW : W ?w |- context [w_set_req_lock ?w] =>
      notyet (W (w_set_req_lock w)); destruct (f_set_req_lock w HW) as (? & ? & ?)
  | HW : W ?w, H : tok_room ?w = true |- context [w_add ?w token_ref_increment] =>
      notyet (W (w_add w token_ref_increment)); destruct (f_tok_add w HW H) as (? & ? & ?)
  | HW : W ?w, H : tok_spare ?w = true |- context [w_sub ?w token_ref_increment] =>
      notyet (W (w_sub w token_ref_increment)); destruct (f_tok_sub w HW H) as (? & ? & ?)
  | HW : W ?w, H : src_room ?w = true |- context [w_add ?w source_ref_increment] =>
      notyet (W (w_add w source_ref_increment)); destruct (f_src_add w HW H) as (? & ? & ?)
  | HW : W ?w, H : src_some ?w = true |- context [w_sub ?w source_ref_increment] =>
      notyet (W (w_sub w source_ref_increment)); destruct (f_src_sub w HW H) as (? & ? & ?)
  end.

Ltac core :=
  match goal with
  | HG : GI ?g, HL : LI3 _ _ _ _ _ _ |- _ =>
      unfold GI, GI6 in HG; destruct HG as (HW & Hlk & Hrq & Hcnt & Hret & Hsome);
      unfold LI3 in HL; destruct HL as (Hh & Hq & Hs1 & Hsw & Hws)
  end.

Ltac fin1 := unfold GI, LI3, GI6, sc, count_req_true, some_req in *; cbn in *;
  intuition (try congruence; try discriminate; try lia).

Lemma tstep_ok P o t g l0 : GI g -> LI g t l0 -> OK t g (st_tstep P o t g l0).
Proof.
  intros HG HL0. apply LI_norm in HL0. unfold st_tstep. cbv zeta.
  generalize dependent (norm l0). intros l HL. unfold LI in HL.
  destruct (pc l) eqn:Epc; brk.
  all: core; cbn [holds sigpc sc] in *; try (specialize (Hh eq_refl)).
  all: try (match type of Hh with holder _ = Some _ => rewrite Hh in *; cbn [isS] in * end).
  all: try (match type of Hq with forall old, QCas ?o = QCas old -> _ => specialize (Hq o eq_refl) end).
  all: unfold OK, LI, nk in *; cbn [fst snd frames pc set_pc set_frames set_held] in *.
  all: repeat match goal with H : frames ?ll = _ |- _ => rewrite H in * end.
  all: rewrite ?Epc in *.
  all: try match goal with c : ctx |- _ => destruct c end.
  all: cbn [filter is_kreq fst length] in *.
  all: try match goal with |- context [length (filter is_kreq ?x)] =>
         remember (length (filter is_kreq x)) as K eqn:EK; clear EK; destruct K as [|[|K]] end.
  all: wf.
  all: unfold GI, GI6 in *; cbn [word holder winner winner_ret log set_word set_holder set_cbs set_cb set_sig set_remflag set_winner set_bad add_log dtor_returns ctor_returns] in *.
  all: try (assert (Hhn : holder g = None) by (apply isS_false; congruence); rewrite Hhn in *).
  all: try (assert (Hwn : winner g = None) by (apply isS_false; congruence); rewrite Hwn in *).
  all: try (destruct Hsw as [Hwt Hrf]; [reflexivity|]; rewrite Hwt, ?Hrf in * ).
  all: try solve [fin1].
  all: destruct (winner_ret g) eqn:Hwr.
  all: try solve [fin1].
  all: match goal with removed : bool |- _ => destruct removed end; fin1.
Qed.

Theorem step_inv P o t g ls : Inv g ls ->
  Inv (fst (st_tstep P o t g (ls t))) (upd ls t (snd (st_tstep P o t g (ls t)))).
Proof.
  intros [HG HL]. destruct (tstep_ok P o t g (ls t) HG (HL t)) as (A & B & C).
  split; [exact A|]. intros t'. unfold upd. destruct (Nat.eqb t' t) eqn:E.
  - apply Nat.eqb_eq in E. subst t'. exact B.
  - apply Nat.eqb_neq in E. unfold LI. apply C; [exact E|]. apply HL.
Qed.

Lemma init_inv w0 progs srcs : W w0 -> w_is_locked w0 = false -> w_stop_requested w0 = false ->
  Inv (st_init w0) (st_locals progs srcs).
Proof.
  intros HW H1 H2. split.
  - unfold GI, GI6. cbn. intuition congruence.
  - intros t. unfold LI, LI3, sc, nk. cbn. intuition (try congruence; try discriminate; try lia).
Qed.

Theorem run_Inv P sched w0 progs srcs : W w0 -> w_is_locked w0 = false -> w_stop_requested w0 = false ->
  let c := st_run P sched w0 progs srcs in Inv (fst c) (snd c).
Proof.
  intros HW H1 H2. unfold st_run. apply (run_inv _ _ _ (st_tstep P) Inv).
  - intros o t g ls H. now apply step_inv.
  - now apply init_inv.
Qed.


(* ---- request_stop: one winner ---- *)
Definition good_init (w0 : N) : Prop := W w0 /\ w_is_locked w0 = false /\ w_stop_requested w0 = false.

Theorem request_stop_at_most_one P sched w0 progs srcs : good_init w0 ->
  count_req_true (log (fst (st_run P sched w0 progs srcs))) <= 1.
Proof.
  intros (A & B & C). destruct (run_Inv P sched w0 progs srcs A B C) as [(_ & _ & _ & H & _) _].
  cbv zeta in H. rewrite H. destruct (winner_ret _); lia.
Qed.

Lemma done_sc l : thread_done l = true -> sc (pc l) (nk l) = 0.
Proof.
  unfold thread_done, sc, nk. destruct (pc l); try discriminate.
  destruct (frames l) as [|[[| |] [|]] [|]]; try discriminate. reflexivity.
Qed.

(* once every thread has finished its program: if request_stop was called at all, exactly one
   call returned true, and the stop-requested bit is set *)
Theorem request_stop_exactly_one P sched w0 progs srcs : good_init w0 ->
  let c := st_run P sched w0 progs srcs in
  (forall t, thread_done (snd c t) = true) -> some_req (log (fst c)) = true ->
  count_req_true (log (fst c)) = 1 /\ w_stop_requested (word (fst c)) = true.
Proof.
  intros (A & B & C). cbv zeta. intros Hdone Hsome.
  destruct (run_Inv P sched w0 progs srcs A B C) as [(HW & Hlk & Hrq & Hcnt & Hret & Hs) HL].
  cbv zeta in *. specialize (Hs Hsome). split; [|exact Hs].
  rewrite Hcnt. destruct (winner_ret _) eqn:Er; [reflexivity|exfalso].
  rewrite Hs in Hrq. symmetry in Hrq. apply isS_true in Hrq. destruct Hrq as [t Ht].
  destruct (HL t) as (_ & _ & _ & _ & H5). specialize (H5 Ht Er).
  rewrite done_sc in H5 by apply Hdone. discriminate.
Qed.

(* any request_stop that has returned (true or false) saw / made the request *)
Theorem request_returned_requested P sched w0 progs srcs : good_init w0 ->
  let c := st_run P sched w0 progs srcs in
  some_req (log (fst c)) = true -> w_stop_requested (word (fst c)) = true.
Proof.
  intros (A & B & C). cbv zeta. intros Hsome.
  destruct (run_Inv P sched w0 progs srcs A B C) as [(_ & _ & _ & _ & _ & Hs) _]. now apply Hs.
Qed.

(* ---- requested is sticky ---- *)
Lemma winner_mono P o t g l : isS (winner g) = true -> isS (winner (fst (st_tstep P o t g l))) = true.
Proof.
  intros H. unfold st_tstep. cbv zeta. generalize (norm l). clear l. intros l.
  destruct (pc l);
  repeat (match goal with
  | |- context [if ?b then _ else _] => destruct b
  | |- context [match ?x with _ => _ end] => destruct x
  | |- context [q_loop_head _ _] => unfold q_loop_head
  | |- context [a_after_read _ _ _ _ _ _] => unfold a_after_read
  | |- context [dispatch _ _ _ _ _] => unfold dispatch
  end; cbv zeta); cbn; try exact H; reflexivity.
Qed.

Theorem requested_is_sticky P s1 s2 w0 progs srcs : good_init w0 ->
  w_stop_requested (word (fst (st_run P s1 w0 progs srcs))) = true ->
  w_stop_requested (word (fst (st_run P (s1 ++ s2) w0 progs srcs))) = true.
Proof.
  intros (A & B & C) H. unfold st_run in *. rewrite run_app.
  set (c1 := run (st_tstep P) s1 (st_init w0, st_locals progs srcs)) in *.
  assert (I1 : Inv (fst c1) (snd c1)) by (apply (run_Inv P s1 w0 progs srcs A B C)).
  assert (K : (fun g ls => Inv g ls /\ isS (winner g) = true)
                (fst (run (st_tstep P) s2 c1)) (snd (run (st_tstep P) s2 c1))).
  { apply (run_inv _ _ _ (st_tstep P) (fun g ls => Inv g ls /\ isS (winner g) = true)).
    - intros o t g ls [HI Hw]. split; [now apply step_inv|now apply winner_mono].
    - split; [exact I1|]. destruct I1 as [(_ & _ & Hrq & _) _]. now rewrite <- Hrq. }
  destruct K as [[(_ & _ & Hrq & _) _] Hw]. now rewrite Hrq.
Qed.

(* the lock bit is held by at most one thread, and unlock is only executed by the holder *)
Theorem lock_exclusive P sched w0 progs srcs : good_init w0 ->
  let c := st_run P sched w0 progs srcs in
  forall t1 t2, holds (pc (snd c t1)) = true -> holds (pc (snd c t2)) = true -> t1 = t2.
Proof.
  intros (A & B & C). cbv zeta. intros t1 t2 H1 H2.
  destruct (run_Inv P sched w0 progs srcs A B C) as [_ HL].
  destruct (HL t1) as (X & _). destruct (HL t2) as (Y & _). cbv zeta in *.
  specialize (X H1). specialize (Y H2). congruence.
Qed.
