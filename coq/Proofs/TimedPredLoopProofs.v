(* Proofs/TimedPredLoopProofs.v — C07: the timed predicate loop returns the value of the LAST evaluation of the
   predicate, and that evaluation comes after the last inner wait.  Stated for the three on-timeout expressions
   regenerated from the header (Gen/GenTimedPred.v): the proofs go through only for `return pred();`. *)
From Coq Require Import List Bool Arith Lia.
From Pika Require Import Gen.GenTimedPred Model.TimedPredLoop.
Import ListNotations.

(* the property of one call: result = value of the newest event, which is a predicate evaluation; all earlier
   evaluations were false; one more evaluation than inner waits unless the first evaluation was already true *)
Definition tp_good (p : nat -> bool) (i0 : nat) (tr0 : list tp_ev) (res : bool * list tp_ev) : Prop :=
  exists n rest, snd res = TpPred (fst res) :: rest /\ fst res = p (i0 + n) /\
                 (forall k, k < n -> p (i0 + k) = false) /\
                 tp_evals (snd res) = tp_evals tr0 + S n.

Lemma tp_reeval_good : forall fuel p w i j tr res,
  tp_run OT_Reeval fuel p w i j tr = Some res -> tp_good p i tr res.
Proof.
  induction fuel as [|f IH]; intros p w i j tr res H; [discriminate H|].
  cbn [tp_run] in H. destruct (p i) eqn:Ep.
  - inversion H; subst. exists 0, tr. cbn [fst snd tp_evals]. rewrite Nat.add_0_r.
    repeat split; auto; [intros k Hk; lia|lia].
  - destruct (w j) eqn:Ew.
    + inversion H; subst. exists 1, (TpWait true :: TpPred false :: tr). cbn [fst snd tp_evals].
      replace (i + 1) with (S i) by lia. repeat split; auto; [|lia].
      intros k Hk. assert (k = 0) by lia. subst. now rewrite Nat.add_0_r.
    + apply IH in H. destruct H as [n [rest [H1 [H2 [H3 H4]]]]].
      exists (S n), rest. cbn [tp_evals] in H4.
      replace (i + S n) with (S i + n) by lia. repeat split; auto; [|lia].
      intros k Hk. destruct k as [|k]; [now rewrite Nat.add_0_r|].
      replace (i + S k) with (S i + k) by lia. apply H3. lia.
Qed.

Lemma tp_terminates : forall ot k p w i j tr,
  w (j + k) = true -> exists res, tp_run ot (S k) p w i j tr = Some res.
Proof.
  intros ot k. induction k as [|k IH]; intros p w i j tr Hw; cbn [tp_run].
  - rewrite Nat.add_0_r in Hw. rewrite Hw. destruct (p i); [eauto|]. destruct ot; eauto.
  - destruct (p i); [eauto|]. destruct (w j); [destruct ot; eauto|].
    apply IH. now replace (S j + k) with (j + S k) by lia.
Qed.

(* the three loops of the header, with the expression each of them has NOW *)
Lemma cv_timed_pred_good : forall fuel p w res,
  tp_call cv_on_timeout fuel p w = Some res -> tp_good p 0 [] res.
Proof. intros fuel p w res. unfold tp_call. exact (tp_reeval_good fuel p w 0 0 [] res). Qed.
Lemma cva_timed_pred_good : forall fuel p w res,
  tp_call cva_on_timeout fuel p w = Some res -> tp_good p 0 [] res.
Proof. intros fuel p w res. unfold tp_call. exact (tp_reeval_good fuel p w 0 0 [] res). Qed.
Lemma cvs_timed_pred_good : forall fuel p w res,
  tp_call cvs_on_timeout fuel p w = Some res -> tp_good p 0 [] res.
Proof. intros fuel p w res. unfold tp_call. exact (tp_reeval_good fuel p w 0 0 [] res). Qed.

Lemma timed_pred_returns_last_evaluation : forall fuel p w res,
  (tp_call cv_on_timeout fuel p w = Some res \/ tp_call cva_on_timeout fuel p w = Some res \/
   tp_call cvs_on_timeout fuel p w = Some res) ->
  exists n rest, snd res = TpPred (fst res) :: rest /\ fst res = p n /\ (forall k, k < n -> p k = false) /\
                 tp_evals (snd res) = S n.
Proof.
  intros fuel p w res [H|[H|H]];
    [apply cv_timed_pred_good in H | apply cva_timed_pred_good in H | apply cvs_timed_pred_good in H];
    destruct H as [n [rest [H1 [H2 [H3 H4]]]]]; exists n, rest; cbn in *; auto.
Qed.

(* a loop that returns a constant after the time-out does NOT have the property: the late scenario *)
Lemma const_false_is_stale :
  let p := script [false; true] false in let w := script [true] true in
  tp_call (OT_Const false) 3 p w = Some (false, [TpWait true; TpPred false]) /\
  tp_call OT_Reeval 3 p w = Some (true, [TpPred true; TpWait true; TpPred false]).
Proof. split; reflexivity. Qed.
