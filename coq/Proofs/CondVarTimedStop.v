(* Proofs/CondVarTimedStop.v — C07: the timed stop-token wait
   condition_variable_any::wait_until / wait_for (lock, stop_token, t, pred) = op CWaitStopFor of Model/CondVar.v.
   A small extra invariant (who can be inside suspend, who has released U) and the theorems: a timed
   stop-token waiter is never blocked in suspend, the only thing that can hold it up for ever is the user lock,
   a stop request issued after the callback registration reaches it, and once stop has been requested it
   returns after a bounded number of its own steps. *)
From Coq Require Import List NArith Bool Arith Lia.
From Pika Require Import Base.Conc Base.Agent Model.CondVar
  Proofs.CondVarInvA Proofs.CondVarInvB Proofs.CondVarInvC Proofs.CondVarProofs Proofs.CondVarStop.
Import ListNotations.

Definition is_dwait (o : cv_op) : bool := match o with CDWait => true | _ => false end.
(* program counters at which the caller of a public wait has released U and not yet re-acquired it *)
Definition no_u (p : cv_pc) (o : cv_op) : bool :=
  match p with
  | CPush | CPreSusp | CSusp | CSleep | CRelockI | CCheck => negb (is_dwait o)
  | CStopChk2 _ | CLockU _ => true
  | _ => false
  end.

Record cv_tinv (ls : locals cv_local) : Prop := {
  t_s : forall t, cpc (ls t) = CSusp -> is_timed (cur_op (ls t)) = false;
  t_h : forall t, no_u (cpc (ls t)) (cur_op (ls t)) = true -> hu (ls t) = false;
  t_2 : forall t sg, cpc (ls t) = CStopChk2 sg -> cur_op (ls t) = CWaitStopFor
}.

Lemma cv_tinv_init progs : cv_tinv (cv_locals progs).
Proof. constructor; cbn; intros; try discriminate; reflexivity. Qed.

Ltac tsimp := cbn [cpc ctodo hu reg l_pc l_hu l_pop no_u is_dwait is_timed cur_op negb] in *.

Lemma cv_tinv_step1 isos o t g (ls : locals cv_local) : cv_tinv ls -> forall t',
  let l' := upd ls t (snd (cv_tstep isos o t g (ls t))) t' in
  (cpc l' = CSusp -> is_timed (cur_op l') = false) /\
  (no_u (cpc l') (cur_op l') = true -> hu l' = false) /\
  (forall sg, cpc l' = CStopChk2 sg -> cur_op l' = CWaitStopFor).
Proof.
  intros T t'. pose proof (t_s _ T t') as Hs. pose proof (t_h _ T t') as Hh. pose proof (t_2 _ T t') as H2.
  cbv zeta.
  cv_cases isos t g ls E; upd_cases t' t; rewrite ?E in *; tsimp;
    repeat split; intros; try discriminate; auto; try (eapply H2; eassumption).
Qed.

Lemma cv_tinv_step isos : forall o t (g : cv_shared) (ls : locals cv_local), cv_tinv ls ->
  cv_tinv (upd ls t (snd (cv_tstep isos o t g (ls t)))).
Proof.
  intros o t g ls T. constructor; intros t'; apply (cv_tinv_step1 isos o t g ls T t').
Qed.

Lemma cv_reach_tinv isos progs sched : cv_tinv (snd (cv_run isos sched progs)).
Proof.
  unfold cv_run.
  apply (run_inv _ _ _ (cv_tstep isos) (fun _ ls => cv_tinv ls) (fun o t g ls => cv_tinv_step isos o t g ls)).
  apply cv_tinv_init.
Qed.

(* 1. a timed wait never suspends: its agent is never blocked (any mix of tasks and OS threads) *)
Lemma timed_never_blocked : forall isos progs sched t,
  let c := cv_run isos sched progs in
  is_timed (cur_op (snd c t)) = true -> blocked (cag (fst c) t) = false.
Proof.
  intros isos progs sched t c Ht. destruct (blocked (cag (fst c) t)) eqn:Hb; [exfalso|reflexivity].
  pose proof (cv_reach_inv isos progs sched) as I. fold c in I.
  destruct (c_b _ _ _ I t Hb) as [Hp _].
  pose proof (t_s _ (cv_reach_tinv isos progs sched) t Hp) as H. fold c in H. congruence.
Qed.

(* 2. pika tasks: in a state in which nothing can move, a thread inside a timed stop-token wait is waiting
   for the user lock, which another thread holds — nothing of the condition variable holds it up *)
Lemma timed_stop_stuck_only_user_lock : forall isos progs sched t,
  (forall w, isos w = false) ->
  let c := cv_run isos sched progs in
  cv_stuck isos (fst c) (snd c) -> cur_op (snd c t) = CWaitStopFor ->
  exists sg n, cpc (snd c t) = CLockU sg /\ uowner (fst c) = Some n /\ n <> t.
Proof.
  intros isos progs sched t Hos c Hst Hop.
  pose proof (cv_reach_inv isos progs sched) as I. fold c in I.
  pose proof (cv_reach_tinv isos progs sched) as T. fold c in T.
  pose proof (tasks_stuck_no_i_holder isos _ _ Hos I Hst) as Hi.
  assert (Hnb : blocked (cag (fst c) t) = false).
  { apply timed_never_blocked. fold c. rewrite Hop. reflexivity. }
  pose proof (Hst t) as He. unfold cv_enabled in He.
  destruct (cpc (snd c t)) eqn:Hp; try discriminate He;
    try (rewrite Hi in He; discriminate He).
  - unfold cur_op in Hop. destruct (ctodo (snd c t)) as [|o' ?]; [discriminate Hop|]. subst o'. discriminate He.
  - rewrite Hnb in He. discriminate He.
  - destruct (uowner (fst c)) as [n|] eqn:Eu; [|discriminate He].
    exists sg, n. repeat split. intros ->.
    apply (c_u _ _ _ I) in Eu.
    assert (Hn : no_u (cpc (snd c t)) (cur_op (snd c t)) = true) by (rewrite Hp; reflexivity).
    apply (t_h _ T) in Hn. congruence.
  - destruct (pend (fst c)) as [|w ?]; [discriminate He|]. rewrite Hos in He. discriminate He.
Qed.

(* 3. the stop request is not lost: past the stop_requested() re-check (made under I) the stop_callback is
   registered, so a request_stop issued from then on runs it; and whenever stop has been requested while the
   waiter is (about to be) queued, a notify_all that will take its entry is pending *)
Lemma timed_stop_registered : forall isos progs sched t,
  let c := cv_run isos sched progs in
  cur_op (snd c t) = CWaitStopFor -> past_chk (cpc (snd c t)) = true ->
  reg (snd c t) = true /\ In t (cbs (fst c)).
Proof.
  intros isos progs sched t c Hop Hp. destruct (cv_reach_sinv isos progs sched) as [_ S]. fold c in S.
  assert (Hr : reg (snd c t) = true) by (apply (s_b _ _ S t); [rewrite Hop; reflexivity|exact Hp]).
  split; [exact Hr|]. apply (s_c _ _ S). exact Hr.
Qed.

Lemma timed_stop_request_reaches_waiter : forall isos progs sched t,
  let c := cv_run isos sched progs in
  stopreq (fst c) = true -> cur_op (snd c t) = CWaitStopFor ->
  (cpc (snd c t) = CUnlockU \/ cpc (snd c t) = CPush \/
   (in_wait (cpc (snd c t)) = true /\ In t (cqueue (fst c)))) ->
  exists n, pending_all (cpc (snd c n)) = true.
Proof.
  intros isos progs sched t c Hs Hop Hx. destruct (cv_reach_sinv isos progs sched) as [_ S]. fold c in S.
  apply (s_r _ _ S Hs). exists t. split; [rewrite Hop; reflexivity|exact Hx].
Qed.

(* 4. the steps that decide: the re-check under I returns false once stop has been requested; after the
   detail wait should_stop = timeout || stop_requested(); with should_stop the wait returns pred() *)
Lemma timed_stop_steps : forall isos late t g td h r,
  let at_pc p := {| ctodo := CWaitStopFor :: td; cpc := p; hu := h; reg := r |} in
  (stopreq g = true ->
     let s := cv_tstep isos late t g (at_pc CStopChk) in
     cvlog (fst s) = ERet t CWaitStopFor false :: cvlog g /\ ilock (fst s) = None /\ ctodo (snd s) = td) /\
  (forall sg, let s := cv_tstep isos late t g (at_pc (CStopChk2 sg)) in
     cpc (snd s) = CLockU (sg && negb (stopreq g)) /\ ilock (fst s) = None) /\
  (uowner g = None ->
     let s := cv_tstep isos late t g (at_pc (CLockU false)) in
     cpc (snd s) = CPredRet /\ uowner (fst s) = Some t /\ hu (snd s) = true /\ cvlog (fst s) = cvlog g) /\
  (let s := cv_tstep isos late t g (at_pc CPredRet) in
     cvlog (fst s) = ERet t CWaitStopFor (flag g) :: cvlog g /\ uowner (fst s) = uowner g /\ ctodo (snd s) = td) /\
  (uowner g = None -> cpc (snd (cv_tstep isos late t g (at_pc (CLockU true)))) = CPredTest) /\
  (* the deadline oracle: a sleeper is always enabled and leaves the sleep as soon as the deadline has passed *)
  (cv_enabled isos t g (at_pc CSleep) = true /\ cpc (snd (cv_tstep isos true t g (at_pc CSleep))) = CRelockI).
Proof.
  intros isos late t g td h r at_pc. unfold at_pc. split; [|split; [|split; [|split; [|split; [|split]]]]].
  - intros Hs. cbn. rewrite Hs. cbn. destruct r; repeat split.
  - intros sg. cbn. split; reflexivity.
  - intros Hu. cbn. rewrite Hu. cbn. repeat split.
  - cbn. destruct r; repeat split.
  - intros Hu. cbn. rewrite Hu. reflexivity.
  - reflexivity.
  - cbn. destruct (isos t); reflexivity.
Qed.

(* 5. once stop has been requested the waiter is on a loop-free path to its return: every enabled step of
   its own (with the deadline passed when it looks at the clock) returns or strictly decreases the rank *)
Definition ts_rank (p : cv_pc) : nat :=
  match p with
  | CStopChk => 1 | CPredRet => 1 | CLockI => 2 | CPredTest => 3 | CLockU _ => 4 | CStopChk2 _ => 5 | CCheck => 6
  | CRelockI => 7 | CSleep => 8 | CPreSusp => 9 | CPush => 10 | CUnlockU => 11 | _ => 0
  end.

Lemma timed_stop_progress : forall isos t g (l : cv_local),
  cur_op l = CWaitStopFor -> stopreq g = true -> 1 <= ts_rank (cpc l) ->
  cv_enabled isos t g l = true ->
  let s := cv_tstep isos true t g l in
  stopreq (fst s) = true /\
  ((exists b, cvlog (fst s) = ERet t CWaitStopFor b :: cvlog g /\ ctodo (snd s) = tl (ctodo l) /\ cpc (snd s) = CIdle) \/
   (cur_op (snd s) = CWaitStopFor /\ 1 <= ts_rank (cpc (snd s)) < ts_rank (cpc l))).
Proof.
  intros isos t g l Hop Hs Hr He. unfold cv_enabled in He. unfold cur_op in Hop.
  destruct l as [td p h r]. cbn [ctodo cpc] in *.
  destruct td as [|o' td]; [discriminate Hop|]. subst o'.
  destruct p; cbn [ts_rank] in Hr; try lia; cbn [cv_tstep cpc ctodo cur_op hu reg is_timed]; unfold ret; cbn [cpc ctodo cur_op hu reg].
  - (* CPredTest *) destruct (flag g).
    + destruct r; cbn; (split; [assumption|left; eexists; repeat split]).
    + cbn. split; [assumption|right; split; [reflexivity|lia]].
  - (* CLockI *) destruct (ilock g); [discriminate He|]. cbn. split; [assumption|right; split; [reflexivity|lia]].
  - (* CStopChk *) rewrite Hs. destruct r; cbn; (split; [assumption|left; eexists; repeat split]).
  - (* CUnlockU *) cbn. split; [assumption|right; split; [reflexivity|lia]].
  - (* CPush *) cbn. split; [assumption|right; split; [reflexivity|lia]].
  - (* CPreSusp *) cbn. split; [assumption|right; split; [reflexivity|lia]].
  - (* CSleep *) destruct (isos t); cbn; (split; [assumption|right; split; [reflexivity|lia]]).
  - (* CRelockI *) destruct (ilock g); [discriminate He|]. cbn. split; [assumption|right; split; [reflexivity|lia]].
  - (* CCheck *) cbn. split; [assumption|right; split; [reflexivity|lia]].
  - (* CStopChk2 *) cbn. split; [assumption|right; split; [reflexivity|lia]].
  - (* CLockU *) destruct (uowner g); [discriminate He|]. destruct sg.
    + cbn. split; [assumption|right; split; [reflexivity|lia]].
    + cbn. split; [assumption|right; split; [reflexivity|lia]].
  - (* CPredRet *) destruct r; cbn; (split; [assumption|left; eexists; repeat split]).
Qed.

(* the statement of Props/Properties_C07.v *)
Lemma timed_stop_wait_returns : forall isos progs sched t,
  (forall w, isos w = false) ->
  let c := cv_run isos sched progs in
  cur_op (snd c t) = CWaitStopFor ->
  blocked (cag (fst c) t) = false /\
  (cv_stuck isos (fst c) (snd c) ->
     exists sg n, cpc (snd c t) = CLockU sg /\ uowner (fst c) = Some n /\ n <> t) /\
  (past_chk (cpc (snd c t)) = true -> reg (snd c t) = true /\ In t (cbs (fst c))) /\
  (stopreq (fst c) = true ->
     (cpc (snd c t) = CUnlockU \/ cpc (snd c t) = CPush \/
      (in_wait (cpc (snd c t)) = true /\ In t (cqueue (fst c)))) ->
     exists n, pending_all (cpc (snd c n)) = true) /\
  (stopreq (fst c) = true -> 1 <= ts_rank (cpc (snd c t)) -> cv_enabled isos t (fst c) (snd c t) = true ->
     let s := cv_tstep isos true t (fst c) (snd c t) in
     stopreq (fst s) = true /\
     ((exists b, cvlog (fst s) = ERet t CWaitStopFor b :: cvlog (fst c) /\
                 ctodo (snd s) = tl (ctodo (snd c t)) /\ cpc (snd s) = CIdle) \/
      (cur_op (snd s) = CWaitStopFor /\ 1 <= ts_rank (cpc (snd s)) < ts_rank (cpc (snd c t))))) /\
  (forall late b, let s := cv_tstep isos late t (fst c) (snd c t) in
     cvlog (fst s) = ERet t CWaitStopFor b :: cvlog (fst c) ->
     uowner (fst s) = Some t /\ hu (snd s) = true /\ b = flag (fst s)).
Proof.
  intros isos progs sched t Hos c Hop. repeat apply conj.
  - apply timed_never_blocked. fold c. rewrite Hop. reflexivity.
  - intros Hst. now apply timed_stop_stuck_only_user_lock.
  - intros Hp. now apply timed_stop_registered.
  - intros Hs Hx. now apply (timed_stop_request_reaches_waiter isos progs sched t).
  - intros Hs Hr He. now apply timed_stop_progress.
  - intros late b s Hl.
    destruct (wait_returns_with_lock_and_pred isos progs sched late t CWaitStopFor b Hl) as [H1 [H2 H3]]; [discriminate|].
    repeat split; auto.
Qed.
