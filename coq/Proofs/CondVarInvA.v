(* Proofs/CondVarProofs.v — C07: invariants of the condition variable model (Model/CondVar.v) over
   arbitrary thread counts, mixes of pika tasks and plain OS threads, programs, schedules and deadline
   oracles. *)
From Coq Require Import List NArith Bool Arith Lia.
From Pika Require Import Base.Conc Base.Agent Model.CondVar.
Import ListNotations.

Ltac upd_cases t' t :=
  let Hne := fresh "Hne" in
  destruct (Nat.eq_dec t' t) as [->|Hne];
  [rewrite ?upd_same in * | rewrite ?(upd_other _ _ _ _ _ Hne) in *].

Lemma cmem_true t q : cmem t q = true <-> In t q.
Proof.
  unfold cmem. rewrite existsb_exists. split.
  - intros [x [Hx He]]. apply Nat.eqb_eq in He. now subst.
  - intros H. exists t. split; [exact H|apply Nat.eqb_refl].
Qed.
Lemma cmem_false t q : cmem t q = false <-> ~ In t q.
Proof. rewrite <- cmem_true. destruct (cmem t q); split; congruence. Qed.
Lemma in_cremove x t q : In x (cremove t q) <-> In x q /\ x <> t.
Proof. unfold cremove. rewrite filter_In, negb_true_iff, Nat.eqb_neq. tauto. Qed.
Lemma nodup_cremove t q : NoDup q -> NoDup (cremove t q).
Proof. apply NoDup_filter. Qed.
Lemma nodup_snoc (t : nat) q : NoDup q -> ~ In t q -> NoDup (q ++ [t]).
Proof.
  intros H Hn. induction H as [|x q Hx Hq IH]; cbn.
  - constructor; [intros []|constructor].
  - constructor.
    + rewrite in_app_iff. cbn. intros [H|[H|[]]]; [auto|]. subst. apply Hn. now left.
    + apply IH. intros H. apply Hn. now right.
Qed.

Definition in_wait (p : cv_pc) : bool :=
  match p with CPreSusp | CSusp | CSleep | CRelockI | CCheck => true | _ => false end.
Definition is_nres (p : cv_pc) : bool := match p with NRes _ _ _ => true | _ => false end.
Definition is_pred_op (o : cv_op) : bool :=
  match o with CWaitPred | CWaitForPred | CWaitStop | CWaitStopFor => true | _ => false end.
(* program counters at which the caller of a public wait still holds U *)
Definition needs_u (p : cv_pc) (o : cv_op) : bool :=
  match p with
  | CPredTest | CPredRet | CStopReg | CStopChk | CUnlockU => true
  | CLockI => match o with CDWait => false | _ => true end
  | NLockI _ _ il | NPop _ _ il | NRes _ _ il => il
  | _ => false
  end.
(* the predicate was evaluated to false under U and U has not been released since *)
Definition pred_false (p : cv_pc) (o : cv_op) : bool :=
  match p with CLockI | CStopChk | CUnlockU => is_pred_op o | _ => false end.

Record cv_inv (isos : nat -> bool) (g : cv_shared) (ls : locals cv_local) : Prop := {
  c_i : forall t, holds_i (cpc (ls t)) = true <-> ilock g = Some t;
  c_u : forall t, hu (ls t) = true <-> uowner g = Some t;
  c_nodup : NoDup (cqueue g ++ pend g);
  c_q : forall t, In t (cqueue g ++ pend g) -> in_wait (cpc (ls t)) = true;
  c_p : pend g <> [] -> exists n, ilock g = Some n /\ is_nres (cpc (ls n)) = true;
  c_b : forall t, blocked (cag g t) = true -> cpc (ls t) = CSusp /\ In t (cqueue g ++ pend g);
  c_t : forall t, cpc (ls t) = CPreSusp -> is_timed (cur_op (ls t)) = false ->
          ~ In t (cqueue g ++ pend g) -> isos t = false /\ tok (cag g t) = true;
  c_s : forall t, in_wait (cpc (ls t)) = true -> (sig g t = true <-> ~ In t (cqueue g));
  c_lu : forall t, needs_u (cpc (ls t)) (cur_op (ls t)) = true -> hu (ls t) = true;
  c_pf : forall t, pred_false (cpc (ls t)) (cur_op (ls t)) = true -> flag g = false
}.

Lemma cv_inv_init isos progs : cv_inv isos cv_init (cv_locals progs).
Proof.
  constructor; cbn; try tauto; try discriminate; try (intros t; split; discriminate); try constructor.
Qed.

(* case analysis of one step *)
Ltac cv_split isos t g :=
  repeat match goal with
   | |- context [match uowner g with _ => _ end] => destruct (uowner g) as [uo|] eqn:Eu
   | |- context [match ilock g with _ => _ end] => destruct (ilock g) as [io|] eqn:Ei
   | |- context [if stopreq g then _ else _] => destruct (stopreq g) eqn:Es
   | |- context [if flag g then _ else _] => destruct (flag g) eqn:Ef
   | |- context [match cbs g with _ => _ end] => destruct (cbs g) as [|cb1 cbr] eqn:En
   | |- context [if isos t then _ else _] => destruct (isos t) eqn:Eo
   | |- context [if blocked (cag g t) then _ else _] => destruct (blocked (cag g t)) eqn:Eb
   | |- context [match pend g with _ => _ end] => destruct (pend g) as [|pw pr] eqn:Ep
   | |- context [if isos ?w then _ else _] => destruct (isos w) eqn:Eow
   | |- context [if blocked (cag g ?w) then _ else _] => destruct (blocked (cag g w)) eqn:Ebw
   | |- context [match cqueue g with _ => _ end] => destruct (cqueue g) as [|qw qr] eqn:Eq
   | |- context [if ?h then _ else _] => is_var h; destruct h
   | |- context [match ?n with O => _ | S _ => _ end] => is_var n; destruct n as [|[|?]]
   end;
  cbn [fst snd g_log g_u g_i g_q g_ag g_flag g_stop l_pc l_hu l_pop
       uowner ilock cqueue pend cag flag stopreq cbs sig cvlog ctodo cpc hu reg];
  repeat match goal with
   | H : ilock g = _ |- context [ilock g] => rewrite H
   | H : uowner g = _ |- context [uowner g] => rewrite H
   | H : stopreq g = _ |- context [stopreq g] => rewrite H
   | H : flag g = _ |- context [flag g] => rewrite H
   | H : cbs g = _ |- context [cbs g] => rewrite H
   | H : pend g = _ |- context [pend g] => rewrite H
   | H : cqueue g = _ |- context [cqueue g] => rewrite H
   end.

Ltac cv_cases isos t g ls E :=
  unfold cv_tstep, ret;
  let td := fresh "td" in let p := fresh "p" in let h := fresh "h" in let r := fresh "r" in
  destruct (ls t) as [td p h r] eqn:E; cbn [cpc ctodo hu reg cur_op];
  destruct p; [destruct td as [|[] ?]|..];
  unfold cur_op; cbn [ctodo];
  repeat match goal with
   | |- context [match ?td with [] => _ | _ :: _ => _ end] => is_var td; destruct td as [|[] ?]
   end;
  cbn [is_timed];
  cv_split isos t g; cv_split isos t g.

Ltac lsimp := cbn [cpc ctodo hu reg l_pc l_hu l_pop holds_i in_wait is_nres needs_u pred_false is_pred_op cur_op is_timed] in *.

Lemma cv_step_i isos o t g (ls : locals cv_local) : cv_inv isos g ls -> forall t',
  holds_i (cpc (upd ls t (snd (cv_tstep isos o t g (ls t))) t')) = true <->
  ilock (fst (cv_tstep isos o t g (ls t))) = Some t'.
Proof.
  intros I t'. pose proof (c_i _ _ _ I) as Hi. pose proof (Hi t) as Hit. pose proof (Hi t') as Hit'.
  cv_cases isos t g ls E; upd_cases t' t; rewrite ?E in *; lsimp;
    try tauto; try (split; congruence); try (intuition congruence).
Qed.

Lemma cv_step_u isos o t g (ls : locals cv_local) : cv_inv isos g ls -> forall t',
  hu (upd ls t (snd (cv_tstep isos o t g (ls t))) t') = true <->
  uowner (fst (cv_tstep isos o t g (ls t))) = Some t'.
Proof.
  intros I t'. pose proof (c_u _ _ _ I) as Hu. pose proof (Hu t) as Hut. pose proof (Hu t') as Hut'.
  pose proof (c_lu _ _ _ I t) as Hlu.
  cv_cases isos t g ls E; upd_cases t' t; rewrite ?E in *; lsimp;
    try tauto; try (split; congruence); try (intuition congruence).
Qed.

Lemma cv_step_lu isos o t g (ls : locals cv_local) : cv_inv isos g ls -> forall t',
  let l' := upd ls t (snd (cv_tstep isos o t g (ls t))) t' in
  needs_u (cpc l') (cur_op l') = true -> hu l' = true.
Proof.
  intros I t'. pose proof (c_lu _ _ _ I t') as Hlu. cbv zeta.
  cv_cases isos t g ls E; upd_cases t' t; rewrite ?E in *; lsimp; auto; try discriminate; try congruence.
Qed.

Lemma cv_step_pf isos o t g (ls : locals cv_local) : cv_inv isos g ls -> forall t',
  let l' := upd ls t (snd (cv_tstep isos o t g (ls t))) t' in
  pred_false (cpc l') (cur_op l') = true -> flag (fst (cv_tstep isos o t g (ls t))) = false.
Proof.
  intros I t'. pose proof (c_pf _ _ _ I t') as Hpf. pose proof (c_lu _ _ _ I) as Hlu.
  pose proof (c_u _ _ _ I) as Hu. cbv zeta.
  cv_cases isos t g ls E; upd_cases t' t; rewrite ?E in *; lsimp; auto; try discriminate; try congruence.
  (* somebody else writes the flag: it holds U, so t' (which has not released U) cannot be there *)
  all: intros Hp; exfalso; assert (H1 : hu (ls t') = true).
  all: try (apply Hlu; fold (cur_op (ls t')) in Hp |- *; unfold pred_false in Hp; unfold needs_u;
            destruct (cpc (ls t')); try discriminate Hp; auto;
            destruct (cur_op (ls t')); try discriminate Hp; auto).
  all: apply Hu in H1; pose proof (proj1 (Hu t)) as H2; rewrite E in H2; specialize (H2 eq_refl); congruence.
Qed.
