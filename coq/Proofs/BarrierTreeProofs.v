(* Proofs/BarrierTreeProofs.v — the counting invariant of the tournament tree and what follows
   from it.  Per round r with ce_r participants (ce_0 = E, ce_(r+1) = (ce_r+1)/2):
     entered_r = |inside_r| + half_r + full_r      entered_0 = started, entered_(r+1) = full_r
   where half_r counts paired nodes that left the old phase and full_r nodes at full step. *)
From Coq Require Import List NArith Arith Bool Lia ZArith ZifyNat ZifyN.
From Pika Require Import Base.Conc Gen.GenBarrier Model.BarrierTree.
Import ListNotations.

Ltac Zify.zify_post_hook ::= Z.div_mod_to_equations.

(* ---------- counting over an initial segment of nat ---------- *)
Fixpoint cnt (P : nat -> bool) (n : nat) : nat :=
  match n with 0 => 0 | S k => cnt P k + (if P k then 1 else 0) end.

Lemma cnt_le P n : cnt P n <= n.
Proof. induction n as [|n IH]; cbn [cnt]; [lia|]. destruct (P n); lia. Qed.

Lemma cnt_ext P Q n : (forall k, k < n -> P k = Q k) -> cnt P n = cnt Q n.
Proof.
  induction n as [|n IH]; intros H; cbn [cnt]; [reflexivity|].
  rewrite IH by (intros; apply H; lia). rewrite (H n) by lia. reflexivity.
Qed.

Lemma cnt_flip P Q n x : x < n -> P x = false -> Q x = true ->
  (forall k, k <> x -> P k = Q k) -> cnt Q n = S (cnt P n).
Proof.
  induction n as [|n IH]; intros Hx HP HQ Ho; [lia|]. cbn [cnt].
  destruct (Nat.eq_dec x n) as [->|Hne].
  - rewrite HP, HQ. rewrite (cnt_ext Q P n) by (intros; symmetry; apply Ho; lia). lia.
  - rewrite IH by (auto; lia). rewrite (Ho n) by lia. lia.
Qed.

Lemma cnt_full P n : cnt P n = n -> forall k, k < n -> P k = true.
Proof.
  induction n as [|n IH]; intros H k Hk; [lia|]. cbn [cnt] in H.
  pose proof (cnt_le P n). destruct (P n) eqn:HPn; [|lia].
  destruct (Nat.eq_dec k n) as [->|]; [exact HPn|]. apply IH; lia.
Qed.

Lemma cnt_all P n : (forall k, k < n -> P k = true) -> cnt P n = n.
Proof.
  induction n as [|n IH]; intros H; cbn [cnt]; [reflexivity|].
  rewrite IH by (intros; apply H; lia). rewrite H by lia. lia.
Qed.

Lemma cnt_none P n : (forall k, k < n -> P k = false) -> cnt P n = 0.
Proof.
  induction n as [|n IH]; intros H; cbn [cnt]; [reflexivity|].
  rewrite IH by (intros; apply H; lia). rewrite H by lia. lia.
Qed.

(* ---------- remove_one ---------- *)
Lemma remove_one_length t l : In t l -> S (length (remove_one t l)) = length l.
Proof.
  induction l as [|x l IH]; intros H; [destruct H|]. cbn [remove_one].
  destruct (Nat.eqb x t) eqn:Hx; [reflexivity|]. cbn [length]. f_equal. apply IH.
  destruct H as [->|H]; [rewrite Nat.eqb_refl in Hx; discriminate|exact H].
Qed.

Lemma remove_one_other t t0 l : t0 <> t -> In t0 l -> In t0 (remove_one t l).
Proof.
  induction l as [|x l IH]; intros Hne H; [destruct H|]. cbn [remove_one].
  destruct (Nat.eqb x t) eqn:Hx.
  - apply Nat.eqb_eq in Hx. destruct H as [->|H]; [congruence|exact H].
  - destruct H as [->|H]; [left; reflexivity|right; auto].
Qed.

(* ---------- the shape of the tree ---------- *)
Fixpoint cef (E r : nat) : nat := match r with 0 => E | S r' => (cef E r' + 1) / 2 end.
Definition nodes (E r : nat) : nat := (cef E r + 1) / 2.
Definition pairs (E r : nat) : nat := cef E r / 2.

Lemma nodes_pairs E r : nodes E r + pairs E r = cef E r.
Proof. unfold nodes, pairs. lia. Qed.
Lemma nodes_succ E r : nodes E r = cef E (S r).
Proof. reflexivity. Qed.

Lemma cef_shift E r : cef E (S r) = cef ((E + 1) / 2) r.
Proof. induction r as [|r IH]; [reflexivity|]. cbn [cef] in *. rewrite IH. reflexivity. Qed.

Lemma final_round : forall k E, E <= k -> 2 <= E ->
  exists R, 2 <= cef E R /\ cef E (S R) <= 1 /\ forall r, r <= R -> 2 <= cef E r.
Proof.
  induction k as [|k IH]; intros E Hk HE; [lia|].
  destruct (le_lt_dec ((E + 1) / 2) 1) as [Hs|Hs].
  - exists 0. cbn [cef]. repeat split; [lia|lia|]. intros r Hr. assert (r = 0) by lia. subst. cbn. lia.
  - destruct (IH ((E + 1) / 2)) as [R [H1 [H2 H3]]]; [lia|lia|].
    exists (S R). rewrite (cef_shift E R), (cef_shift E (S R)). repeat split; [exact H1|exact H2|].
    intros [|r] Hr; [cbn; lia|]. rewrite cef_shift. apply H3. lia.
Qed.

Lemma cef_le1 E : E <= 1 -> forall r, cef E r <= 1.
Proof. intros H r. induction r as [|r IH]; cbn [cef]; lia. Qed.

Lemma cef_mono E r : 1 <= E -> 1 <= cef E r.
Proof. intros HE. induction r as [|r IH]; cbn [cef]; lia. Qed.

(* ---------- the invariant ---------- *)
Definition Hc (E : nat) (p : N) (tr : tree) (r : nat) : nat :=
  cnt (fun n => negb (N.eqb (tk tr r n) p)) (pairs E r).
Definition Fc (E : nat) (p : N) (tr : tree) (r : nat) : nat :=
  cnt (fun n => N.eqb (tk tr r n) (full_of p)) (nodes E r).

Record TInv (E : nat) (p : N) (tr : tree) (pcof : nat -> option tpc) : Prop := {
  iA_scan : forall t r c e, pcof t = Some (TScan r c e) ->
            In t (act tr r) /\ e = cef E r /\ 2 <= e /\ c <= nodes E r;
  iA_sec : forall t r c e, pcof t = Some (TSecond r c e) ->
            In t (act tr r) /\ e = cef E r /\ 2 <= e /\ c < nodes E r;
  iB0 : 2 <= E -> length (act tr 0) + Hc E p tr 0 + Fc E p tr 0 = started tr;
  iB1 : forall r, 2 <= cef E (S r) ->
        length (act tr (S r)) + Hc E p tr (S r) + Fc E p tr (S r) = Fc E p tr r;
  iB2 : forall r, 2 <= cef E r -> cef E (S r) <= 1 -> wins tr = Fc E p tr r;
  iB3 : E <= 1 -> wins tr = started tr }.

Definition distinct3 (p : N) : Prop :=
  half_of p <> p /\ full_of p <> p /\ full_of p <> half_of p.

Lemma distinct3_byte p : (p < pmod)%N -> distinct3 p.
Proof.
  unfold distinct3, half_of, full_of, pmod, phase_bits, half_inc, full_inc.
  change (2 ^ 8)%N with 256%N. intros H. repeat split; lia.
Qed.

Lemma full_of_lt p : (full_of p < pmod)%N.
Proof. unfold full_of, pmod, phase_bits. change (2 ^ 8)%N with 256%N. lia. Qed.
Lemma next_phase_full p : next_phase p = full_of p.
Proof. reflexivity. Qed.

Lemma Hc_ext E p tr tr' r :
  (forall n, n < pairs E r -> negb (N.eqb (tk tr' r n) p) = negb (N.eqb (tk tr r n) p)) ->
  Hc E p tr' r = Hc E p tr r.
Proof. intros H. unfold Hc. apply cnt_ext. exact H. Qed.
Lemma Fc_ext E p tr tr' r :
  (forall n, n < nodes E r -> N.eqb (tk tr' r n) (full_of p) = N.eqb (tk tr r n) (full_of p)) ->
  Fc E p tr' r = Fc E p tr r.
Proof. intros H. unfold Fc. apply cnt_ext. exact H. Qed.

Lemma tk_set_same tr r n v : tk (set_tk tr r n v) r n = v.
Proof. cbn. now rewrite !Nat.eqb_refl. Qed.
Lemma tk_set_other tr r n v r' n' : (r' <> r \/ n' <> n) -> tk (set_tk tr r n v) r' n' = tk tr r' n'.
Proof.
  intros H. cbn. destruct (Nat.eqb r' r) eqn:H1; destruct (Nat.eqb n' n) eqn:H2; cbn; try reflexivity.
  apply Nat.eqb_eq in H1, H2. lia.
Qed.

(* a description of how one step changed the tree, enough to re-establish the invariant *)
Definition b2n (b : bool) : nat := if b then 1 else 0.
Record Delta (E : nat) (p : N) (t : nat) (tr tr' : tree) (r : nat) (dH dF : nat) (lv : bool) (en : bool) (wn : bool) : Prop := {
  d_H : Hc E p tr' r = dH + Hc E p tr r;
  d_Ho : forall r0, r0 <> r -> Hc E p tr' r0 = Hc E p tr r0;
  d_F : Fc E p tr' r = dF + Fc E p tr r;
  d_Fo : forall r0, r0 <> r -> Fc E p tr' r0 = Fc E p tr r0;
  d_len_r : length (act tr' r) + b2n lv = length (act tr r);
  d_len_sr : length (act tr' (S r)) = length (act tr (S r)) + b2n en;
  d_len_o : forall r0, r0 <> r -> r0 <> S r -> length (act tr' r0) = length (act tr r0);
  d_act_in : forall r0 t0, t0 <> t -> In t0 (act tr r0) -> In t0 (act tr' r0);
  d_act_me : en = true -> In t (act tr' (S r));
  d_act_keep : lv = false -> forall r0, In t (act tr r0) -> In t (act tr' r0);
  d_started : started tr' = started tr;
  d_wins : wins tr' = b2n wn + wins tr }.

Lemma cef_ge2_down E : forall a b, a < b -> 2 <= cef E b -> 2 <= cef E (S a).
Proof.
  intros a b Hab. induction b as [|b IHb]; [lia|]. intros Hb.
  destruct (Nat.eq_dec a b) as [->|]; [exact Hb|]. apply IHb; [lia|]. cbn [cef] in Hb. lia.
Qed.

Lemma TInv_delta E p t tr tr' r dH dF lv en wn pcof pcof' :
  TInv E p tr pcof -> Delta E p t tr tr' r dH dF lv en wn ->
  2 <= cef E r ->
  dH + dF = b2n lv ->
  (en = true -> dF = 1 /\ 2 <= cef E (S r)) -> (wn = true -> dF = 1 /\ cef E (S r) <= 1) ->
  (dF = 1 -> en = true \/ wn = true) ->
  (forall t0, t0 <> t -> pcof' t0 = pcof t0) ->
  (forall r0 c e, pcof' t = Some (TScan r0 c e) ->
      (en = true /\ r0 = S r /\ e = cef E (S r) /\ c <= nodes E (S r)) \/
      (lv = false /\ r0 = r /\ e = cef E r /\ c <= nodes E r /\ In t (act tr r))) ->
  (forall r0 c e, pcof' t = Some (TSecond r0 c e) ->
      lv = false /\ r0 = r /\ e = cef E r /\ c < nodes E r /\ In t (act tr r)) ->
  TInv E p tr' pcof'.
Proof.
  intros I D Hr Hacc Hen Hwn HdF Hoth Hscan Hsec.
  destruct D as [DH DHo DF DFo DLr DLs DLo DI DM DK DS DW].
  split.
  - intros t0 r0 c e H0. destruct (Nat.eq_dec t0 t) as [->|Hne].
    + destruct (Hscan _ _ _ H0) as [[He [-> [-> Hc0]]]|[Hl [-> [-> [Hc0 Hin]]]]].
      * repeat split; [apply DM; exact He| |exact Hc0]. destruct (Hen He). lia.
      * repeat split; [|exact Hr|exact Hc0]. apply DK; assumption.
    + rewrite Hoth in H0 by exact Hne. destruct (iA_scan _ _ _ _ I _ _ _ _ H0) as [Hin Hrest].
      split; [apply DI; assumption|exact Hrest].
  - intros t0 r0 c e H0. destruct (Nat.eq_dec t0 t) as [->|Hne].
    + destruct (Hsec _ _ _ H0) as [Hl [-> [-> [Hc0 Hin]]]].
      repeat split; [|exact Hr|exact Hc0]. apply DK; assumption.
    + rewrite Hoth in H0 by exact Hne. destruct (iA_sec _ _ _ _ I _ _ _ _ H0) as [Hin Hrest].
      split; [apply DI; assumption|exact Hrest].
  - intros HE. pose proof (iB0 _ _ _ _ I HE) as B0. rewrite DS.
    destruct (Nat.eq_dec 0 r) as [<-|Hn].
    + rewrite DH, DF. lia.
    + rewrite (DHo 0), (DFo 0) by lia. destruct (Nat.eq_dec 0 (S r)); [lia|]. rewrite (DLo 0) by lia. lia.
  - intros r0 Hr0. pose proof (iB1 _ _ _ _ I r0 Hr0) as B1.
    destruct (Nat.eq_dec (S r0) r) as [H1|H1]; destruct (Nat.eq_dec r0 r) as [H2|H2]; try lia.
    + subst r. rewrite DH, DF, (DFo r0) by lia. lia.
    + subst r0. rewrite (DHo (S r)), (DFo (S r)), DF, DLs by lia.
      destruct en; cbn [b2n].
      * destruct (Hen eq_refl). lia.
      * destruct (Nat.eq_dec dF 1) as [Hd|Hd]; [|destruct lv; cbn [b2n] in *; lia].
        destruct (HdF Hd) as [?|Hw]; [discriminate|]. destruct (Hwn Hw). lia.
    + rewrite (DHo (S r0)), (DFo (S r0)), (DFo r0), (DLo (S r0)) by lia. lia.
  - intros r0 Hr0 Hs0. pose proof (iB2 _ _ _ _ I r0 Hr0 Hs0) as B2. rewrite DW.
    destruct (Nat.eq_dec r0 r) as [H2|H2].
    + subst r0. rewrite DF. destruct wn; cbn [b2n].
      * destruct (Hwn eq_refl). lia.
      * destruct (Nat.eq_dec dF 1) as [Hd|Hd]; [|destruct lv; cbn [b2n] in *; lia].
        destruct (HdF Hd) as [He|?]; [|discriminate]. destruct (Hen He). lia.
    + rewrite (DFo r0) by lia. destruct wn; cbn [b2n]; [|lia]. destruct (Hwn eq_refl) as [_ Hw].
      exfalso. destruct (Nat.lt_total r0 r) as [Hlt|[Heq|Hgt]]; [|congruence|].
      * pose proof (cef_ge2_down E r0 r Hlt Hr). lia.
      * pose proof (cef_ge2_down E r r0 Hgt Hr0). lia.
  - intros HE. exfalso. clear - HE Hr. assert (forall r, cef E r <= 1) as Hle.
    { induction r0 as [|r0 IH]; cbn [cef]; lia. }
    specialize (Hle r). lia.
Qed.

(* ---------- the steps ---------- *)
Lemma act_enter_same tr r t : act (enter tr r t) r = t :: act tr r.
Proof. cbn. now rewrite Nat.eqb_refl. Qed.
Lemma act_enter_other tr r t r0 : r0 <> r -> act (enter tr r t) r0 = act tr r0.
Proof. intros H. cbn. apply Nat.eqb_neq in H. now rewrite H. Qed.
Lemma act_leave_same tr r t : act (leave tr r t) r = remove_one t (act tr r).
Proof. cbn. now rewrite Nat.eqb_refl. Qed.
Lemma act_leave_other tr r t r0 : r0 <> r -> act (leave tr r t) r0 = act tr r0.
Proof. intros H. cbn. apply Nat.eqb_neq in H. now rewrite H. Qed.

Lemma Neqb_false a b : a <> b -> N.eqb a b = false.
Proof. intros H. now apply N.eqb_neq. Qed.

Section Steps.
  Variables (E : nat) (p : N).
  Hypothesis Hd : distinct3 p.

  (* counters after writing v to ticket (r,cur) *)
  Lemma Hc_set_other_round tr r cur v r0 : r0 <> r -> Hc E p (set_tk tr r cur v) r0 = Hc E p tr r0.
  Proof. intros H. apply Hc_ext. intros n _. rewrite tk_set_other by (left; exact H). reflexivity. Qed.
  Lemma Fc_set_other_round tr r cur v r0 : r0 <> r -> Fc E p (set_tk tr r cur v) r0 = Fc E p tr r0.
  Proof. intros H. apply Fc_ext. intros n _. rewrite tk_set_other by (left; exact H). reflexivity. Qed.

  Lemma Hc_set_same tr r cur v :
    (cur < pairs E r -> negb (N.eqb v p) = negb (N.eqb (tk tr r cur) p)) ->
    Hc E p (set_tk tr r cur v) r = Hc E p tr r.
  Proof.
    intros H. apply Hc_ext. intros n Hn. destruct (Nat.eq_dec n cur) as [->|Hne].
    - rewrite tk_set_same. auto.
    - rewrite tk_set_other by (right; exact Hne). reflexivity.
  Qed.
  Lemma Fc_set_same tr r cur v :
    N.eqb v (full_of p) = N.eqb (tk tr r cur) (full_of p) ->
    Fc E p (set_tk tr r cur v) r = Fc E p tr r.
  Proof.
    intros H. apply Fc_ext. intros n Hn. destruct (Nat.eq_dec n cur) as [->|Hne].
    - rewrite tk_set_same. auto.
    - rewrite tk_set_other by (right; exact Hne). reflexivity.
  Qed.
  Lemma Fc_set_full tr r cur : cur < nodes E r -> tk tr r cur <> full_of p ->
    Fc E p (set_tk tr r cur (full_of p)) r = 1 + Fc E p tr r.
  Proof.
    intros Hc0 Hv. unfold Fc. apply (cnt_flip _ _ _ cur Hc0).
    - now apply Neqb_false.
    - rewrite tk_set_same. apply N.eqb_refl.
    - intros k Hk. rewrite tk_set_other by (right; exact Hk). reflexivity.
  Qed.
  Lemma Hc_set_half tr r cur : cur < pairs E r -> tk tr r cur = p ->
    Hc E p (set_tk tr r cur (half_of p)) r = 1 + Hc E p tr r.
  Proof.
    intros Hc0 Hv. unfold Hc. apply (cnt_flip _ _ _ cur Hc0).
    - rewrite Hv, N.eqb_refl. reflexivity.
    - rewrite tk_set_same. destruct Hd as [H1 _]. rewrite (Neqb_false _ _ H1). reflexivity.
    - intros k Hk. rewrite tk_set_other by (right; exact Hk). reflexivity.
  Qed.

  Lemma full_step_inv tr pcof pcof' t r cur tr' pc' :
    TInv E p tr pcof -> 2 <= cef E r -> In t (act tr r) -> cur < nodes E r ->
    tk tr r cur <> full_of p -> (cur < pairs E r -> tk tr r cur <> p) ->
    advance t (set_tk tr r cur (full_of p)) r cur (cef E r) = (tr', pc') ->
    (forall t0, t0 <> t -> pcof' t0 = pcof t0) -> (pcof' t = Some pc' \/ pcof' t = None) ->
    TInv E p tr' pcof'.
  Proof.
    intros I Hr Hin Hcur Hnf Hnp Hadv Hoth Hme.
    unfold advance in Hadv. fold (nodes E r) in Hadv.
    assert (HH : Hc E p (set_tk tr r cur (full_of p)) r = Hc E p tr r).
    { apply Hc_set_same. intros Hlt. destruct Hd as [_ [H2 _]]. rewrite (Neqb_false _ _ H2).
      rewrite (Neqb_false _ _ (Hnp Hlt)). reflexivity. }
    pose proof (Fc_set_full tr r cur Hcur Hnf) as HF.
    pose proof (remove_one_length t (act tr r) Hin) as HL.
    destruct (nodes E r <=? 1) eqn:Hfin; inversion Hadv; subst tr' pc'; clear Hadv.
    - apply Nat.leb_le in Hfin.
      apply (TInv_delta E p t tr _ r 0 1 true false true pcof pcof' I); try assumption; try reflexivity.
      + split; try reflexivity; cbn [b2n].
        * exact HH.
        * intros r0 H0. apply (Hc_set_other_round tr r cur (full_of p) r0 H0).
        * exact HF.
        * intros r0 H0. apply (Fc_set_other_round tr r cur (full_of p) r0 H0).
        * change (act (win (leave (set_tk tr r cur (full_of p)) r t)) r) with (act (leave tr r t) r).
          rewrite act_leave_same. lia.
        * change (act (win (leave (set_tk tr r cur (full_of p)) r t)) (S r)) with (act (leave tr r t) (S r)).
          rewrite act_leave_other by lia. lia.
        * intros r0 H0 H1. change (act (win (leave (set_tk tr r cur (full_of p)) r t)) r0) with (act (leave tr r t) r0).
          rewrite act_leave_other by lia. reflexivity.
        * intros r0 t0 Hne Hi. change (act (win (leave (set_tk tr r cur (full_of p)) r t)) r0) with (act (leave tr r t) r0).
          destruct (Nat.eq_dec r0 r) as [->|Hn].
          -- rewrite act_leave_same. apply remove_one_other; assumption.
          -- rewrite act_leave_other by exact Hn. exact Hi.
        * discriminate.
        * discriminate.
      + discriminate.
      + intros _. rewrite <- nodes_succ. split; [reflexivity|exact Hfin].
      + intros _. right. reflexivity.
      + intros r0 c e H0. destruct Hme as [Hm|Hm]; rewrite Hm in H0; discriminate.
      + intros r0 c e H0. destruct Hme as [Hm|Hm]; rewrite Hm in H0; discriminate.
    - apply Nat.leb_gt in Hfin.
      apply (TInv_delta E p t tr _ r 0 1 true true false pcof pcof' I); try assumption; try reflexivity.
      + split; try reflexivity; cbn [b2n].
        * exact HH.
        * intros r0 H0. apply (Hc_set_other_round tr r cur (full_of p) r0 H0).
        * exact HF.
        * intros r0 H0. apply (Fc_set_other_round tr r cur (full_of p) r0 H0).
        * rewrite act_enter_other by lia.
          change (act (leave (set_tk tr r cur (full_of p)) r t) r) with (act (leave tr r t) r).
          rewrite act_leave_same. lia.
        * rewrite act_enter_same.
          change (act (leave (set_tk tr r cur (full_of p)) r t) (S r)) with (act (leave tr r t) (S r)).
          rewrite act_leave_other by lia. cbn [length]. lia.
        * intros r0 H0 H1. rewrite act_enter_other by lia.
          change (act (leave (set_tk tr r cur (full_of p)) r t) r0) with (act (leave tr r t) r0).
          rewrite act_leave_other by lia. reflexivity.
        * intros r0 t0 Hne Hi.
          assert (In t0 (act (leave tr r t) r0)) as Hi2.
          { destruct (Nat.eq_dec r0 r) as [->|Hn].
            - rewrite act_leave_same. apply remove_one_other; assumption.
            - rewrite act_leave_other by exact Hn. exact Hi. }
          destruct (Nat.eq_dec r0 (S r)) as [->|Hn2].
          -- rewrite act_enter_same. right. exact Hi2.
          -- rewrite act_enter_other by exact Hn2. exact Hi2.
        * intros _. rewrite act_enter_same. left. reflexivity.
        * discriminate.
      + intros _. rewrite <- nodes_succ. split; [reflexivity|lia].
      + discriminate.
      + intros _. left. reflexivity.
      + intros r0 c e H0. destruct Hme as [Hm|Hm]; rewrite Hm in H0; [|discriminate].
        inversion H0; subst. left. repeat split.
        change (fst (Nat.divmod cur 1 0 1)) with (cur / 2).
        unfold nodes at 1. change (cef E (S r)) with (nodes E r). lia.
      + intros r0 c e H0. destruct Hme as [Hm|Hm]; rewrite Hm in H0; discriminate.
  Qed.

  Lemma TInv_repc tr pcof pcof' t :
    TInv E p tr pcof -> (forall t0, t0 <> t -> pcof' t0 = pcof t0) ->
    (forall r c e, pcof' t = Some (TScan r c e) -> In t (act tr r) /\ e = cef E r /\ 2 <= e /\ c <= nodes E r) ->
    (forall r c e, pcof' t = Some (TSecond r c e) -> In t (act tr r) /\ e = cef E r /\ 2 <= e /\ c < nodes E r) ->
    TInv E p tr pcof'.
  Proof.
    intros I Hoth H1 H2. split; try apply I.
    - intros t0 r c e H0. destruct (Nat.eq_dec t0 t) as [->|Hne]; [auto|].
      rewrite Hoth in H0 by exact Hne. exact (iA_scan _ _ _ _ I _ _ _ _ H0).
    - intros t0 r c e H0. destruct (Nat.eq_dec t0 t) as [->|Hne]; [auto|].
      rewrite Hoth in H0 by exact Hne. exact (iA_sec _ _ _ _ I _ _ _ _ H0).
  Qed.

  Lemma half_step_inv tr pcof pcof' t r cur :
    TInv E p tr pcof -> 2 <= cef E r -> In t (act tr r) -> cur < pairs E r -> tk tr r cur = p ->
    (forall t0, t0 <> t -> pcof' t0 = pcof t0) -> (pcof' t = Some (TRet false) \/ pcof' t = None) ->
    TInv E p (leave (set_tk tr r cur (half_of p)) r t) pcof'.
  Proof.
    intros I Hr Hin Hcur Hv Hoth Hme.
    pose proof (remove_one_length t (act tr r) Hin) as HL.
    apply (TInv_delta E p t tr _ r 1 0 true false false pcof pcof' I); try assumption; try reflexivity; try discriminate.
    - split; try reflexivity; cbn [b2n]; try discriminate.
      + apply (Hc_set_half tr r cur Hcur Hv).
      + intros r0 H0. apply (Hc_set_other_round tr r cur (half_of p) r0 H0).
      + apply (Fc_set_same tr r cur (half_of p)). rewrite Hv. destruct Hd as [_ [H2 H3]].
        rewrite (Neqb_false (half_of p) (full_of p)) by congruence.
        rewrite (Neqb_false p (full_of p)) by congruence. reflexivity.
      + intros r0 H0. apply (Fc_set_other_round tr r cur (half_of p) r0 H0).
      + change (act (leave (set_tk tr r cur (half_of p)) r t) r) with (act (leave tr r t) r).
        rewrite act_leave_same. lia.
      + change (act (leave (set_tk tr r cur (half_of p)) r t) (S r)) with (act (leave tr r t) (S r)).
        rewrite act_leave_other by lia. lia.
      + intros r0 H0 H1. change (act (leave (set_tk tr r cur (half_of p)) r t) r0) with (act (leave tr r t) r0).
        rewrite act_leave_other by lia. reflexivity.
      + intros r0 t0 Hne Hi. change (act (leave (set_tk tr r cur (half_of p)) r t) r0) with (act (leave tr r t) r0).
        destruct (Nat.eq_dec r0 r) as [->|Hn].
        * rewrite act_leave_same. apply remove_one_other; assumption.
        * rewrite act_leave_other by exact Hn. exact Hi.
    - intros r0 c e H0. destruct Hme as [Hm|Hm]; rewrite Hm in H0; discriminate.
    - intros r0 c e H0. destruct Hme as [Hm|Hm]; rewrite Hm in H0; discriminate.
  Qed.

  Lemma tree_step_inv tr pcof pcof' t pc tr' pc' :
    TInv E p tr pcof -> pcof t = Some pc -> tree_step p t tr pc = (tr', pc') ->
    (forall t0, t0 <> t -> pcof' t0 = pcof t0) -> (pcof' t = Some pc' \/ pcof' t = None) ->
    TInv E p tr' pcof'.
  Proof.
    intros I Hpc Hst Hoth Hme. destruct pc as [r c0 e|r cur e|b]; cbn [tree_step] in Hst.
    - destruct (iA_scan _ _ _ _ I _ _ _ _ Hpc) as [Hin [He [He2 Hc0]]]. subst e.
      fold (nodes E r) in Hst.
      assert (Hn1 : 1 <= nodes E r) by (unfold nodes; lia).
      set (cur := if Nat.eqb c0 (nodes E r) then 0 else c0) in *.
      assert (Hcur : cur < nodes E r).
      { unfold cur. destruct (Nat.eqb c0 (nodes E r)) eqn:Hq; [lia|]. apply Nat.eqb_neq in Hq. lia. }
      pose proof (nodes_pairs E r) as Hnp.
      destruct (Nat.eqb cur (nodes E r - 1) && Nat.odd (cef E r)) eqn:Hodd.
      + apply andb_true_iff in Hodd. destruct Hodd as [Hl Ho]. apply Nat.eqb_eq in Hl.
        apply Nat.odd_spec in Ho. destruct Ho as [m Hm].
        assert (Hpr : pairs E r = cur) by (unfold pairs, nodes in *; lia).
        destruct (N.eqb (tk tr r cur) p) eqn:Hv.
        * apply N.eqb_eq in Hv.
          apply (full_step_inv tr pcof pcof' t r cur tr' pc' I He2 Hin Hcur); try assumption.
          -- rewrite Hv. destruct Hd as [_ [H2 _]]. congruence.
          -- lia.
        * inversion Hst; subst tr' pc'. apply (TInv_repc tr pcof pcof' t I Hoth).
          -- intros r0 c e H0. destruct Hme as [Hm'|Hm']; rewrite Hm' in H0; [|discriminate].
             inversion H0; subst. repeat split; try assumption; try lia.
          -- intros r0 c e H0. destruct Hme as [Hm'|Hm']; rewrite Hm' in H0; discriminate.
      + assert (Hpr : cur < pairs E r).
        { apply andb_false_iff in Hodd. destruct Hodd as [Hl|Ho].
          - apply Nat.eqb_neq in Hl.
            destruct (Nat.Even_or_Odd (cef E r)) as [[m Hm]|[m Hm]]; unfold pairs, nodes in *; lia.
          - destruct (Nat.Even_or_Odd (cef E r)) as [[m Hm]|Hm].
            + unfold pairs, nodes in *; lia.
            + apply Nat.odd_spec in Hm. congruence. }
        destruct (N.eqb (tk tr r cur) p) eqn:Hv.
        * apply N.eqb_eq in Hv. inversion Hst; subst tr' pc'.
          apply (half_step_inv tr pcof pcof' t r cur I He2 Hin Hpr Hv Hoth Hme).
        * destruct (N.eqb (tk tr r cur) (half_of p)) eqn:Hv2; inversion Hst; subst tr' pc'.
          -- apply (TInv_repc tr pcof pcof' t I Hoth).
             ++ intros r0 c e H0. destruct Hme as [Hm'|Hm']; rewrite Hm' in H0; discriminate.
             ++ intros r0 c e H0. destruct Hme as [Hm'|Hm']; rewrite Hm' in H0; [|discriminate].
                inversion H0; subst. repeat split; assumption.
          -- apply (TInv_repc tr pcof pcof' t I Hoth).
             ++ intros r0 c e H0. destruct Hme as [Hm'|Hm']; rewrite Hm' in H0; [|discriminate].
                inversion H0; subst. repeat split; try assumption; try lia.
             ++ intros r0 c e H0. destruct Hme as [Hm'|Hm']; rewrite Hm' in H0; discriminate.
    - destruct (iA_sec _ _ _ _ I _ _ _ _ Hpc) as [Hin [He [He2 Hc0]]]. subst e.
      destruct (N.eqb (tk tr r cur) (half_of p)) eqn:Hv.
      + apply N.eqb_eq in Hv.
        apply (full_step_inv tr pcof pcof' t r cur tr' pc' I He2 Hin Hc0); try assumption.
        * rewrite Hv. destruct Hd as [_ [_ H3]]. congruence.
        * intros _. rewrite Hv. destruct Hd as [H1 _]. exact H1.
      + inversion Hst; subst tr' pc'. apply (TInv_repc tr pcof pcof' t I Hoth).
        * intros r0 c e H0. destruct Hme as [Hm'|Hm']; rewrite Hm' in H0; [|discriminate].
          inversion H0; subst. repeat split; try assumption; try lia.
        * intros r0 c e H0. destruct Hme as [Hm'|Hm']; rewrite Hm' in H0; discriminate.
    - inversion Hst; subst tr' pc'. apply (TInv_repc tr pcof pcof' t I Hoth).
      + intros r0 c e H0. destruct Hme as [Hm'|Hm']; rewrite Hm' in H0; discriminate.
      + intros r0 c e H0. destruct Hme as [Hm'|Hm']; rewrite Hm' in H0; discriminate.
  Qed.

  (* entry of arrive(): requires that the thread is not inside an arrival *)
  Lemma tree_start_inv tr pcof pcof' t start tr' pc' :
    TInv E p tr pcof -> tree_start E t tr start = (tr', pc') ->
    (forall t0, t0 <> t -> pcof' t0 = pcof t0) -> (pcof' t = Some pc' \/ pcof' t = None) ->
    TInv E p tr' pcof'.
  Proof.
    intros I Hst Hoth Hme. unfold tree_start in Hst.
    destruct (E <=? 1) eqn:HE; inversion Hst; subst tr' pc'; clear Hst.
    - apply Nat.leb_le in HE.
      assert (Hle : forall r, cef E r <= 1) by (induction r as [|r IH]; cbn [cef]; lia).
      split.
      + intros t0 r c e H0. destruct (Nat.eq_dec t0 t) as [->|Hne].
        * destruct Hme as [Hm|Hm]; rewrite Hm in H0; discriminate.
        * rewrite Hoth in H0 by exact Hne. destruct (iA_scan _ _ _ _ I _ _ _ _ H0) as [_ [-> [H2 _]]].
          specialize (Hle r). lia.
      + intros t0 r c e H0. destruct (Nat.eq_dec t0 t) as [->|Hne].
        * destruct Hme as [Hm|Hm]; rewrite Hm in H0; discriminate.
        * rewrite Hoth in H0 by exact Hne. destruct (iA_sec _ _ _ _ I _ _ _ _ H0) as [_ [-> [H2 _]]].
          specialize (Hle r). lia.
      + lia.
      + intros r Hr. specialize (Hle (S r)). lia.
      + intros r Hr. specialize (Hle r). lia.
      + intros _. cbn. rewrite (iB3 _ _ _ _ I HE). reflexivity.
    - apply Nat.leb_gt in HE.
      split.
      + intros t0 r c e H0. destruct (Nat.eq_dec t0 t) as [->|Hne].
        * destruct Hme as [Hm|Hm]; rewrite Hm in H0; [|discriminate].
          injection H0 as Hr0 Hcc Hee. subst r c e.
          rewrite act_enter_same. repeat split; [left; reflexivity|lia|].
          change (nodes E 0) with ((E + 1) / 2). apply Nat.lt_le_incl. apply Nat.mod_upper_bound. lia.
        * rewrite Hoth in H0 by exact Hne. destruct (iA_scan _ _ _ _ I _ _ _ _ H0) as [Hin Hrest].
          split; [|exact Hrest]. destruct (Nat.eq_dec r 0) as [->|Hn].
          -- rewrite act_enter_same. right. exact Hin.
          -- rewrite act_enter_other by exact Hn. exact Hin.
      + intros t0 r c e H0. destruct (Nat.eq_dec t0 t) as [->|Hne].
        * destruct Hme as [Hm|Hm]; rewrite Hm in H0; discriminate.
        * rewrite Hoth in H0 by exact Hne. destruct (iA_sec _ _ _ _ I _ _ _ _ H0) as [Hin Hrest].
          split; [|exact Hrest]. destruct (Nat.eq_dec r 0) as [->|Hn].
          -- rewrite act_enter_same. right. exact Hin.
          -- rewrite act_enter_other by exact Hn. exact Hin.
      + intros H2. rewrite act_enter_same. pose proof (iB0 _ _ _ _ I H2) as B0.
        change (Hc E p (enter (start1 tr) 0 t) 0) with (Hc E p tr 0).
        change (Fc E p (enter (start1 tr) 0 t) 0) with (Fc E p tr 0).
        change (act (start1 tr) 0) with (act tr 0). change (started (enter (start1 tr) 0 t)) with (S (started tr)).
        cbn [length]. lia.
      + intros r Hr. rewrite act_enter_other by lia. exact (iB1 _ _ _ _ I r Hr).
      + intros r Hr Hs. exact (iB2 _ _ _ _ I r Hr Hs).
      + lia.
  Qed.
End Steps.

(* ---------- consequences of the invariant ---------- *)
Section Conseq.
  Variables (E : nat) (p : N).
  Hypothesis Hd : distinct3 p.

  Lemma Fc_le tr r : Fc E p tr r <= nodes E r.
  Proof. apply cnt_le. Qed.
  Lemma Hc_le tr r : Hc E p tr r <= pairs E r.
  Proof. apply cnt_le. Qed.

  Lemma all_full tr r : Fc E p tr r = nodes E r -> forall n, n < nodes E r -> tk tr r n = full_of p.
  Proof. intros H n Hn. apply N.eqb_eq. exact (cnt_full _ _ H n Hn). Qed.

  Lemma Hc_of_full tr r : (forall n, n < nodes E r -> tk tr r n = full_of p) -> Hc E p tr r = pairs E r.
  Proof.
    intros H. apply cnt_all. intros k Hk. pose proof (nodes_pairs E r).
    rewrite H by (unfold nodes, pairs in *; lia). destruct Hd as [_ [H2 _]].
    rewrite (Neqb_false _ _ H2). reflexivity.
  Qed.

  Lemma round_le_final R r : 2 <= cef E R -> cef E (S R) <= 1 -> 2 <= cef E r -> r <= R.
  Proof.
    intros H1 H2 H3. destruct (le_lt_dec r R) as [|Hlt]; [assumption|].
    pose proof (cef_ge2_down E R r Hlt H3). lia.
  Qed.

  (* a winner exists => all E arrivals have started, nobody else is inside, all tickets reset *)
  Lemma winner_facts tr pcof : TInv E p tr pcof -> 1 <= E -> started tr <= E -> 1 <= wins tr ->
    started tr = E /\ wins tr = 1 /\
    forall r, 2 <= cef E r -> act tr r = [] /\ forall n, n < nodes E r -> tk tr r n = full_of p.
  Proof.
    intros I HE Hs Hw. destruct (le_lt_dec E 1) as [H1|H2].
    - pose proof (iB3 _ _ _ _ I H1). repeat split; try lia.
      + pose proof (cef_le1 E H1) as Hle.
        specialize (Hle r). lia.
      + pose proof (cef_le1 E H1) as Hle.
        specialize (Hle r). lia.
    - destruct (final_round E E (le_n _) H2) as [R [HR1 [HR2 HR3]]].
      pose proof (iB2 _ _ _ _ I R HR1 HR2) as B2. pose proof (Fc_le tr R) as HFR.
      rewrite nodes_succ in HFR.
      assert (Hdown : forall k, k <= R -> Fc E p tr (R - k) = nodes E (R - k)).
      { induction k as [|k IH]; intros Hk.
        - rewrite Nat.sub_0_r. rewrite nodes_succ. lia.
        - assert (Hk' : k <= R) by lia. specialize (IH Hk').
          replace (R - k) with (S (R - S k)) in IH by lia.
          pose proof (all_full _ _ IH) as Hall. pose proof (Hc_of_full _ _ Hall) as HH.
          assert (Hr2 : 2 <= cef E (S (R - S k))) by (apply HR3; lia).
          pose proof (iB1 _ _ _ _ I (R - S k) Hr2) as B1.
          pose proof (Fc_le tr (R - S k)). pose proof (nodes_pairs E (S (R - S k))).
          rewrite nodes_succ in *. lia. }
      assert (Hall : forall r, r <= R -> Fc E p tr r = nodes E r).
      { intros r Hr. replace r with (R - (R - r)) by lia. apply Hdown. lia. }
      assert (Hact : forall r, r <= R -> length (act tr r) = 0 /\ (r = 0 -> started tr = E)).
      { intros r Hr. pose proof (Hall r Hr) as HF. pose proof (Hc_of_full _ _ (all_full _ _ HF)) as HH.
        pose proof (nodes_pairs E r). destruct r as [|r].
        - pose proof (iB0 _ _ _ _ I H2) as B0. cbn [cef] in *. lia.
        - assert (Hr2 : 2 <= cef E (S r)) by (apply HR3; lia).
          pose proof (iB1 _ _ _ _ I r Hr2) as B1. pose proof (Fc_le tr r). rewrite nodes_succ in *.
          split; [lia|discriminate]. }
      repeat split.
      + apply (Hact 0); lia.
      + lia.
      + pose proof (round_le_final R r HR1 HR2 H) as Hr. destruct (Hact r Hr) as [Hl _].
        destruct (act tr r); [reflexivity|discriminate].
      + pose proof (round_le_final R r HR1 HR2 H) as Hr. apply all_full. apply Hall. exact Hr.
  Qed.

  Lemma wins_le_1 tr pcof : TInv E p tr pcof -> 1 <= E -> started tr <= E -> wins tr <= 1.
  Proof.
    intros I HE Hs. destruct (le_lt_dec (wins tr) 0) as [|Hw]; [lia|].
    destruct (winner_facts tr pcof I HE Hs Hw) as [_ [H _]]. lia.
  Qed.

  (* all E arrivals started and none is inside the tree => exactly one won, tickets reset *)
  Lemma quiescent_facts tr pcof : TInv E p tr pcof -> 1 <= E -> started tr = E ->
    (forall r, act tr r = []) ->
    wins tr = 1 /\ forall r, 2 <= cef E r -> forall n, n < nodes E r -> tk tr r n = full_of p.
  Proof.
    intros I HE Hs Hact. destruct (le_lt_dec E 1) as [H1|H2].
    - pose proof (iB3 _ _ _ _ I H1). split; [lia|]. intros r Hr.
      pose proof (cef_le1 E H1) as Hle.
      specialize (Hle r). lia.
    - assert (Hup : forall r, 2 <= cef E r -> Fc E p tr r = nodes E r).
      { induction r as [|r IH]; intros Hr.
        - pose proof (iB0 _ _ _ _ I H2) as B0. rewrite Hact in B0. cbn [length] in B0.
          pose proof (Fc_le tr 0). pose proof (Hc_le tr 0). pose proof (nodes_pairs E 0). cbn [cef] in *. lia.
        - assert (Hr' : 2 <= cef E r) by (cbn [cef] in Hr; lia). specialize (IH Hr').
          pose proof (iB1 _ _ _ _ I r Hr) as B1. rewrite Hact in B1. cbn [length] in B1.
          pose proof (Fc_le tr (S r)). pose proof (Hc_le tr (S r)). pose proof (nodes_pairs E (S r)).
          rewrite nodes_succ in *. lia. }
      split.
      + destruct (final_round E E (le_n _) H2) as [R [HR1 [HR2 HR3]]].
        rewrite (iB2 _ _ _ _ I R HR1 HR2), (Hup R HR1), nodes_succ.
        assert (1 <= cef E (S R)) by (cbn [cef]; lia). lia.
      + intros r Hr. apply all_full. apply Hup. exact Hr.
  Qed.

  Lemma TInv_init : TInv E p (tree_init p) (fun _ => None).
  Proof.
    assert (HH : forall r, Hc E p (tree_init p) r = 0).
    { intros r. apply cnt_none. intros k _. cbn. rewrite N.eqb_refl. reflexivity. }
    assert (HF : forall r, Fc E p (tree_init p) r = 0).
    { intros r. apply cnt_none. intros k _. cbn. destruct Hd as [_ [H2 _]]. apply Neqb_false. congruence. }
    split; try discriminate.
    - intros _. rewrite HH, HF. reflexivity.
    - intros r _. rewrite HH, !HF. reflexivity.
    - intros r _ _. rewrite HF. reflexivity.
    - reflexivity.
  Qed.
End Conseq.

(* ---------- the ghost [act] is exactly the set of threads inside each round ---------- *)
Definition actv (o : option tpc) (r : nat) : Prop :=
  exists c e, o = Some (TScan r c e) \/ o = Some (TSecond r c e).
Definition inactive (o : option tpc) : Prop := forall r, ~ actv o r.

Definition AInv (a : nat -> list nat) (pcof : nat -> option tpc) : Prop :=
  (forall r, NoDup (a r)) /\ (forall t r, In t (a r) -> actv (pcof t) r).

Definition leaveA (a : nat -> list nat) (r t : nat) : nat -> list nat :=
  fun r' => if Nat.eqb r' r then remove_one t (a r') else a r'.
Definition enterA (a : nat -> list nat) (r t : nat) : nat -> list nat :=
  fun r' => if Nat.eqb r' r then t :: a r' else a r'.

Lemma actv_round o r r' : actv o r -> actv o r' -> r = r'.
Proof. intros [c [e [H|H]]] [c' [e' [H'|H']]]; rewrite H in H'; inversion H'; reflexivity. Qed.

Lemma remove_one_in t t0 l : In t0 (remove_one t l) -> In t0 l.
Proof.
  induction l as [|x l IH]; cbn [remove_one]; [auto|]. destruct (Nat.eqb x t); intros H.
  - right. exact H.
  - destruct H as [->|H]; [left; reflexivity|right; auto].
Qed.
Lemma remove_one_nodup t l : NoDup l -> NoDup (remove_one t l) /\ ~ In t (remove_one t l).
Proof.
  induction l as [|x l IH]; intros H; cbn [remove_one]; [split; [constructor|auto]|].
  inversion H as [|? ? Hx Hl]; subst. destruct (Nat.eqb x t) eqn:Hq.
  - apply Nat.eqb_eq in Hq. subst. split; assumption.
  - apply Nat.eqb_neq in Hq. destruct (IH Hl) as [H1 H2]. split.
    + constructor; [|exact H1]. intros Hc. apply Hx. eapply remove_one_in. exact Hc.
    + intros [Hc|Hc]; [congruence|auto].
Qed.

Lemma A_leave a pcof pcof' t r : AInv a pcof -> actv (pcof t) r ->
  (forall t0, t0 <> t -> pcof' t0 = pcof t0) -> AInv (leaveA a r t) pcof' /\ forall r0, ~ In t (leaveA a r t r0).
Proof.
  intros [Hnd Hin] Hact Hoth. split; [split|].
  - intros r0. unfold leaveA. destruct (Nat.eqb r0 r); [apply remove_one_nodup|]; apply Hnd.
  - intros t0 r0 H0. unfold leaveA in H0. destruct (Nat.eqb r0 r) eqn:Hq.
    + apply Nat.eqb_eq in Hq. subst r0. destruct (remove_one_nodup t (a r) (Hnd r)) as [_ Hn].
      assert (t0 <> t) by (intros ->; auto). rewrite Hoth by assumption. apply Hin.
      eapply remove_one_in. exact H0.
    + apply Nat.eqb_neq in Hq. assert (t0 <> t).
      { intros ->. apply Hq. eapply actv_round; [apply Hin; exact H0|exact Hact]. }
      rewrite Hoth by assumption. apply Hin. exact H0.
  - intros r0 H0. unfold leaveA in H0. destruct (Nat.eqb r0 r) eqn:Hq.
    + apply Nat.eqb_eq in Hq. subst r0. destruct (remove_one_nodup t (a r) (Hnd r)) as [_ Hn]. auto.
    + apply Nat.eqb_neq in Hq. apply Hq. eapply actv_round; [apply Hin; exact H0|exact Hact].
Qed.

Lemma A_enter a pcof' t r : AInv a pcof' -> (forall r0, ~ In t (a r0)) -> actv (pcof' t) r ->
  AInv (enterA a r t) pcof'.
Proof.
  intros [Hnd Hin] Hno Hact. split.
  - intros r0. unfold enterA. destruct (Nat.eqb r0 r); [constructor; [apply Hno|apply Hnd]|apply Hnd].
  - intros t0 r0 H0. unfold enterA in H0. destruct (Nat.eqb r0 r) eqn:Hq.
    + apply Nat.eqb_eq in Hq. subst r0. destruct H0 as [<-|H0]; [exact Hact|apply Hin; exact H0].
    + apply Hin. exact H0.
Qed.

Lemma A_repc a pcof pcof' t : AInv a pcof -> (forall t0, t0 <> t -> pcof' t0 = pcof t0) ->
  (forall r, actv (pcof t) r -> actv (pcof' t) r) -> AInv a pcof'.
Proof.
  intros [Hnd Hin] Hoth Hsame. split; [exact Hnd|]. intros t0 r H0.
  destruct (Nat.eq_dec t0 t) as [->|Hne]; [apply Hsame, Hin, H0|rewrite Hoth by exact Hne; apply Hin, H0].
Qed.

(* weaken pcof at t to anything when t is in no round *)
Lemma A_free a pcof pcof' t : AInv a pcof -> (forall r0, ~ In t (a r0)) ->
  (forall t0, t0 <> t -> pcof' t0 = pcof t0) -> AInv a pcof'.
Proof.
  intros [Hnd Hin] Hno Hoth. split; [exact Hnd|]. intros t0 r H0.
  destruct (Nat.eq_dec t0 t) as [->|Hne]; [destruct (Hno r H0)|rewrite Hoth by exact Hne; apply Hin, H0].
Qed.

Definition is_ret (pc : tpc) : bool := match pc with TRet _ => true | _ => false end.

Lemma advance_A t tr2 r cur ce tr' pc' pcof pcof' :
  AInv (act tr2) pcof -> actv (pcof t) r -> advance t tr2 r cur ce = (tr', pc') ->
  (forall t0, t0 <> t -> pcof' t0 = pcof t0) -> (is_ret pc' = false -> pcof' t = Some pc') ->
  AInv (act tr') pcof'.
Proof.
  intros HA Hact Hadv Hoth Hme. unfold advance in Hadv.
  destruct (A_leave _ _ (fun t0 => if Nat.eqb t0 t then None else pcof t0) t r HA Hact) as [HA1 Hno].
  { intros t0 Hne. apply Nat.eqb_neq in Hne. now rewrite Hne. }
  destruct ((ce + 1) / 2 <=? 1); inversion Hadv; subst tr' pc'; clear Hadv.
  - change (act (win (leave tr2 r t))) with (leaveA (act tr2) r t).
    apply (A_free _ _ pcof' t HA1 Hno). intros t0 Hne. rewrite Hoth by exact Hne.
    apply Nat.eqb_neq in Hne. now rewrite Hne.
  - change (act (enter (leave tr2 r t) (S r) t)) with (enterA (leaveA (act tr2) r t) (S r) t).
    apply A_enter; [|exact Hno|].
    + apply (A_free _ _ pcof' t HA1 Hno). intros t0 Hne. rewrite Hoth by exact Hne.
      apply Nat.eqb_neq in Hne. now rewrite Hne.
    + rewrite Hme by reflexivity. eexists _, _. left. reflexivity.
Qed.

Lemma tree_step_A p t tr pc tr' pc' pcof pcof' :
  AInv (act tr) pcof -> pcof t = Some pc -> tree_step p t tr pc = (tr', pc') ->
  (forall t0, t0 <> t -> pcof' t0 = pcof t0) -> (is_ret pc' = false -> pcof' t = Some pc') ->
  AInv (act tr') pcof'.
Proof.
  intros HA Hpc Hst Hoth Hme. destruct pc as [r c0 e|r cur e|b]; cbn [tree_step] in Hst.
  - assert (Hact : actv (pcof t) r) by (rewrite Hpc; eexists _, _; left; reflexivity).
    set (cur := if Nat.eqb c0 ((e + 1) / 2) then 0 else c0) in *.
    destruct (Nat.eqb cur ((e + 1) / 2 - 1) && Nat.odd e).
    + destruct (N.eqb (tk tr r cur) p).
      * eapply advance_A; [|exact Hact|exact Hst|exact Hoth|exact Hme]. exact HA.
      * inversion Hst; subst tr' pc'. apply (A_repc _ pcof pcof' t HA Hoth).
        intros r0 H0. rewrite Hme by reflexivity. rewrite (actv_round _ _ _ H0 Hact).
        eexists _, _. left. reflexivity.
    + destruct (N.eqb (tk tr r cur) p).
      * inversion Hst; subst tr' pc'.
        change (act (leave (set_tk tr r cur (half_of p)) r t)) with (leaveA (act tr) r t).
        destruct (A_leave _ _ (fun t0 => if Nat.eqb t0 t then None else pcof t0) t r HA Hact) as [HA1 Hno].
        { intros t0 Hne. apply Nat.eqb_neq in Hne. now rewrite Hne. }
        apply (A_free _ _ pcof' t HA1 Hno). intros t0 Hne. rewrite Hoth by exact Hne.
        apply Nat.eqb_neq in Hne. now rewrite Hne.
      * destruct (N.eqb (tk tr r cur) (half_of p)); inversion Hst; subst tr' pc';
          apply (A_repc _ pcof pcof' t HA Hoth); intros r0 H0; rewrite Hme by reflexivity;
          rewrite (actv_round _ _ _ H0 Hact); eexists _, _; [right|left]; reflexivity.
  - assert (Hact : actv (pcof t) r) by (rewrite Hpc; eexists _, _; right; reflexivity).
    destruct (N.eqb (tk tr r cur) (half_of p)).
    + eapply advance_A; [|exact Hact|exact Hst|exact Hoth|exact Hme]. exact HA.
    + inversion Hst; subst tr' pc'. apply (A_repc _ pcof pcof' t HA Hoth).
      intros r0 H0. rewrite Hme by reflexivity. rewrite (actv_round _ _ _ H0 Hact).
      eexists _, _. left. reflexivity.
  - inversion Hst; subst tr' pc'. apply (A_repc _ pcof pcof' t HA Hoth).
    intros r0 [c [e [H0|H0]]]; rewrite Hpc in H0; discriminate.
Qed.

Lemma tree_start_A E t tr start tr' pc' pcof pcof' :
  AInv (act tr) pcof -> inactive (pcof t) -> tree_start E t tr start = (tr', pc') ->
  (forall t0, t0 <> t -> pcof' t0 = pcof t0) -> (is_ret pc' = false -> pcof' t = Some pc') ->
  AInv (act tr') pcof'.
Proof.
  intros HA Hin Hst Hoth Hme. unfold tree_start in Hst.
  assert (Hno : forall r0, ~ In t (act tr r0)).
  { intros r0 H0. destruct HA as [_ HA2]. exact (Hin r0 (HA2 _ _ H0)). }
  destruct (E <=? 1); inversion Hst; subst tr' pc'; clear Hst.
  - change (act (win (start1 tr))) with (act tr). apply (A_free _ pcof pcof' t HA Hno Hoth).
  - change (act (enter (start1 tr) 0 t)) with (enterA (act tr) 0 t). apply A_enter.
    + apply (A_free _ pcof pcof' t HA Hno Hoth).
    + exact Hno.
    + rewrite Hme by reflexivity. eexists _, _. left. reflexivity.
Qed.

(* ---------- counters ---------- *)
Definition won (pc : tpc) : nat := match pc with TRet true => 1 | _ => 0 end.

Lemma advance_counts t tr r cur ce tr' pc' : advance t tr r cur ce = (tr', pc') ->
  started tr' = started tr /\ wins tr' = wins tr + won pc'.
Proof.
  unfold advance. destruct ((ce + 1) / 2 <=? 1); intros H; inversion H; subst; cbn; split; lia.
Qed.

Lemma tree_step_counts p t tr pc tr' pc' : is_ret pc = false -> tree_step p t tr pc = (tr', pc') ->
  started tr' = started tr /\ wins tr' = wins tr + won pc'.
Proof.
  intros Hr H. destruct pc as [r c0 e|r cur e|b]; cbn [tree_step] in H; [| |discriminate].
  - set (cur := if Nat.eqb c0 ((e + 1) / 2) then 0 else c0) in *.
    destruct (Nat.eqb cur ((e + 1) / 2 - 1) && Nat.odd e).
    + destruct (N.eqb (tk tr r cur) p).
      * apply advance_counts in H. exact H.
      * inversion H; subst; cbn; split; lia.
    + destruct (N.eqb (tk tr r cur) p); [inversion H; subst; cbn; split; lia|].
      destruct (N.eqb (tk tr r cur) (half_of p)); inversion H; subst; cbn; split; lia.
  - destruct (N.eqb (tk tr r cur) (half_of p)).
    + apply advance_counts in H. exact H.
    + inversion H; subst; cbn; split; lia.
Qed.

Lemma tree_start_counts E t tr start tr' pc' : tree_start E t tr start = (tr', pc') ->
  started tr' = S (started tr) /\ wins tr' = wins tr + won pc'.
Proof.
  unfold tree_start. destruct (E <=? 1); intros H; inversion H; subst; cbn; split; lia.
Qed.

(* ---------- the stand-alone tree model ---------- *)
Section TreeRun.
  Variables (E : nat) (p : N).
  Hypothesis HE : 1 <= E.
  Hypothesis Hp : (p < pmod)%N.

  Definition wins_of (lg : list (nat * bool * nat)) : nat :=
    length (filter (fun e => snd (fst e)) lg).

  Definition pcs (ls : locals tr_local) : nat -> option tpc := fun t => tp (ls t).

  Record TrInv (g : tr_shared) (ls : locals tr_local) : Prop := {
    ti_T : TInv E p (tre g) (pcs ls);
    ti_A : AInv (act (tre g)) (pcs ls);
    ti_noret : forall t, match tp (ls t) with Some pc => is_ret pc = false | None => True end;
    ti_log : forall t b s, In (t, b, s) (trlog g) ->
             s <= started (tre g) /\ (b = true -> s <= E -> s = E);
    ti_wins : wins_of (trlog g) = wins (tre g);
    ti_rets : wins (tre g) <= length (trlog g) }.

  Lemma TrInv_init progs : TrInv (tr_init p) (tr_locals progs).
  Proof.
    split; cbn; try (intros; contradiction); try reflexivity; try lia.
    - apply TInv_init. apply distinct3_byte. exact Hp.
    - split; [intros; constructor|intros t r []].
  Qed.

  Lemma finish_spec g' lg t pc' k gs l' : finish g' lg t pc' k = (gs, l') ->
    tre gs = g' /\ todo l' = k /\
    (is_ret pc' = false -> tp l' = Some pc' /\ trlog gs = lg) /\
    (forall b, pc' = TRet b -> tp l' = None /\ trlog gs = (t, b, started g') :: lg).
  Proof.
    destruct pc'; cbn [finish]; intros H; inversion H; subst; cbn; repeat split; try discriminate;
      intros; try congruence.
  Qed.

  Lemma TrInv_step start t g (ls : locals tr_local) : TrInv g ls ->
    TrInv (fst (tr_tstep E p start t g (ls t))) (upd ls t (snd (tr_tstep E p start t g (ls t)))).
  Proof.
    intros I. pose proof (distinct3_byte p Hp) as Hd.
    assert (Hsame : forall l', tp l' = tp (ls t) -> TrInv g (upd ls t l')).
    { intros l' Hl. assert (Hpc : forall t0, pcs (upd ls t l') t0 = pcs ls t0).
      { intros t0. unfold pcs. destruct (Nat.eq_dec t0 t) as [->|Hne];
          [rewrite upd_same; exact Hl|rewrite upd_other by exact Hne; reflexivity]. }
      destruct I as [IT IA INr IL IW IR]. split; try assumption.
      - apply (TInv_repc E p (tre g) (pcs ls) _ t IT); [intros; apply Hpc| |].
        + intros r c e H0. rewrite Hpc in H0. exact (iA_scan _ _ _ _ IT _ _ _ _ H0).
        + intros r c e H0. rewrite Hpc in H0. exact (iA_sec _ _ _ _ IT _ _ _ _ H0).
      - destruct IA as [A1 A2]. split; [exact A1|]. intros t0 r H0. rewrite Hpc. apply A2, H0.
      - intros t0. destruct (Nat.eq_dec t0 t) as [->|Hne];
          [rewrite upd_same, Hl; apply INr|rewrite upd_other by exact Hne; apply INr]. }
    unfold tr_tstep. destruct (tp (ls t)) as [pc|] eqn:Htp.
    - (* a tree step *)
      destruct (tree_step p t (tre g) pc) as [g' pc'] eqn:Hst.
      destruct (finish g' (trlog g) t pc' (todo (ls t))) as [gs l'] eqn:Hf. cbn [fst snd].
      destruct (finish_spec _ _ _ _ _ _ _ Hf) as [Hg [_ [Hact Hret]]].
      destruct I as [IT IA INr IL IW IR].
      assert (Hnr : is_ret pc = false) by (specialize (INr t); rewrite Htp in INr; exact INr).
      destruct (tree_step_counts _ _ _ _ _ _ Hnr Hst) as [Hs Hw].
      assert (Hoth : forall t0, t0 <> t -> pcs (upd ls t l') t0 = pcs ls t0).
      { intros t0 Hne. unfold pcs. rewrite upd_other by exact Hne. reflexivity. }
      assert (Hme : pcs (upd ls t l') t = tp l') by (unfold pcs; rewrite upd_same; reflexivity).
      assert (IT' : TInv E p g' (pcs (upd ls t l'))).
      { apply (tree_step_inv E p Hd (tre g) (pcs ls) _ t pc g' pc' IT Htp Hst Hoth).
        rewrite Hme. destruct (is_ret pc') eqn:Hq.
        - destruct pc'; try discriminate. right. exact (proj1 (Hret b eq_refl)).
        - left. exact (proj1 (Hact eq_refl)). }
      split.
      + rewrite Hg. exact IT'.
      + rewrite Hg. apply (tree_step_A p t (tre g) pc g' pc' (pcs ls) _ IA Htp Hst Hoth).
        intros Hq. rewrite Hme. exact (proj1 (Hact Hq)).
      + intros t0. destruct (Nat.eq_dec t0 t) as [->|Hne]; [|rewrite upd_other by exact Hne; apply INr].
        rewrite upd_same. destruct (is_ret pc') eqn:Hq.
        * destruct pc'; try discriminate. rewrite (proj1 (Hret b eq_refl)). exact Logic.I.
        * rewrite (proj1 (Hact eq_refl)). exact Hq.
      + rewrite Hg. intros t0 b s H0. destruct (is_ret pc') eqn:Hq.
        * destruct pc' as [| |b']; try discriminate. rewrite (proj2 (Hret b' eq_refl)) in H0.
          destruct H0 as [H0|H0].
          -- injection H0 as H01 H02 H03. subst t0 b s. split; [lia|]. intros -> Hle.
             destruct (winner_facts E p Hd g' _ IT' HE Hle) as [H1 _]; [cbn [won] in Hw; lia|exact H1].
          -- destruct (IL _ _ _ H0). split; [lia|assumption].
        * rewrite (proj2 (Hact eq_refl)) in H0. destruct (IL _ _ _ H0). split; [lia|assumption].
      + rewrite Hg. unfold wins_of in *. destruct (is_ret pc') eqn:Hq.
        * destruct pc' as [| |b']; try discriminate. rewrite (proj2 (Hret b' eq_refl)). cbn [filter fst snd].
          destruct b'; cbn [length won] in *; lia.
        * rewrite (proj2 (Hact eq_refl)). destruct pc' as [| |b']; try discriminate; cbn [won] in Hw; lia.
      + rewrite Hg. destruct (is_ret pc') eqn:Hq.
        * destruct pc' as [| |b']; try discriminate. rewrite (proj2 (Hret b' eq_refl)). cbn [length].
          destruct b'; cbn [won] in Hw; lia.
        * rewrite (proj2 (Hact eq_refl)). destruct pc' as [| |b']; try discriminate; cbn [won] in Hw; lia.
    - destruct (todo (ls t)) as [|k] eqn:Htodo.
      + cbn [fst snd]. apply Hsame. exact Htp.
      + destruct (tree_start E t (tre g) start) as [g' pc'] eqn:Hst.
        destruct (finish g' (trlog g) t pc' k) as [gs l'] eqn:Hf. cbn [fst snd].
        destruct (finish_spec _ _ _ _ _ _ _ Hf) as [Hg [_ [Hact Hret]]].
        destruct I as [IT IA INr IL IW IR].
        destruct (tree_start_counts _ _ _ _ _ _ Hst) as [Hs Hw].
        assert (Hoth : forall t0, t0 <> t -> pcs (upd ls t l') t0 = pcs ls t0).
        { intros t0 Hne. unfold pcs. rewrite upd_other by exact Hne. reflexivity. }
        assert (Hme : pcs (upd ls t l') t = tp l') by (unfold pcs; rewrite upd_same; reflexivity).
        assert (IT' : TInv E p g' (pcs (upd ls t l'))).
        { apply (tree_start_inv E p (tre g) (pcs ls) _ t start g' pc' IT Hst Hoth).
          rewrite Hme. destruct (is_ret pc') eqn:Hq.
          - destruct pc'; try discriminate. right. exact (proj1 (Hret b eq_refl)).
          - left. exact (proj1 (Hact eq_refl)). }
        split.
        * rewrite Hg. exact IT'.
        * rewrite Hg. apply (tree_start_A E t (tre g) start g' pc' (pcs ls) _ IA); try assumption.
          -- intros r [c [e [H0|H0]]]; unfold pcs in H0; rewrite Htp in H0; discriminate.
          -- intros Hq. rewrite Hme. exact (proj1 (Hact Hq)).
        * intros t0. destruct (Nat.eq_dec t0 t) as [->|Hne]; [|rewrite upd_other by exact Hne; apply INr].
          rewrite upd_same. destruct (is_ret pc') eqn:Hq.
          -- destruct pc'; try discriminate. rewrite (proj1 (Hret b eq_refl)). exact Logic.I.
          -- rewrite (proj1 (Hact eq_refl)). exact Hq.
        * rewrite Hg. intros t0 b s H0. destruct (is_ret pc') eqn:Hq.
          -- destruct pc' as [| |b']; try discriminate. rewrite (proj2 (Hret b' eq_refl)) in H0.
             destruct H0 as [H0|H0].
             ++ injection H0 as H01 H02 H03. subst t0 b s. split; [lia|]. intros -> Hle.
                destruct (winner_facts E p Hd g' _ IT' HE Hle) as [H1 _]; [cbn [won] in Hw; lia|exact H1].
             ++ destruct (IL _ _ _ H0). split; [lia|assumption].
          -- rewrite (proj2 (Hact eq_refl)) in H0. destruct (IL _ _ _ H0). split; [lia|assumption].
        * rewrite Hg. unfold wins_of in *. destruct (is_ret pc') eqn:Hq.
          -- destruct pc' as [| |b']; try discriminate. rewrite (proj2 (Hret b' eq_refl)). cbn [filter fst snd].
             destruct b'; cbn [length won] in *; lia.
          -- rewrite (proj2 (Hact eq_refl)). destruct pc' as [| |b']; try discriminate; cbn [won] in Hw; lia.
        * rewrite Hg. destruct (is_ret pc') eqn:Hq.
          -- destruct pc' as [| |b']; try discriminate. rewrite (proj2 (Hret b' eq_refl)). cbn [length].
             destruct b'; cbn [won] in Hw; lia.
          -- rewrite (proj2 (Hact eq_refl)). destruct pc' as [| |b']; try discriminate; cbn [won] in Hw; lia.
  Qed.

  Lemma TrInv_run sched progs :
    TrInv (fst (tr_run E p sched progs)) (snd (tr_run E p sched progs)).
  Proof.
    unfold tr_run. apply (run_inv _ _ _ (tr_tstep E p) TrInv).
    - intros o t g ls H. apply TrInv_step. exact H.
    - apply TrInv_init.
  Qed.
End TreeRun.

(* ---------- phases compose ---------- *)
Lemma cef_le E E' r : E' <= E -> cef E' r <= cef E r.
Proof. intros H. induction r as [|r IH]; cbn [cef]; lia. Qed.

Definition reset_tree (tr : tree) : tree := {| tk := tk tr; started := 0; wins := 0; act := act tr |}.

Lemma TInv_ext E p tr pcof pcof' : (forall t, pcof' t = pcof t) -> TInv E p tr pcof -> TInv E p tr pcof'.
Proof.
  intros H I. apply (TInv_repc E p tr pcof pcof' 0 I); [intros; apply H| |].
  - intros r c e H0. rewrite H in H0. exact (iA_scan _ _ _ _ I _ _ _ _ H0).
  - intros r c e H0. rewrite H in H0. exact (iA_sec _ _ _ _ I _ _ _ _ H0).
Qed.

(* after a phase with a winner the tree is ready for the next phase value full_of p, for every
   participant count E' <= E (arrive_and_drop only lowers the count) *)
Lemma TInv_next_phase E E' p tr pcof pcof' : (p < pmod)%N -> TInv E p tr pcof ->
  started tr <= E -> 1 <= wins tr -> E' <= E -> (forall t, pcof' t = pcof t) ->
  TInv E' (full_of p) (reset_tree tr) pcof' /\ (forall t, inactive (pcof t)).
Proof.
  intros Hp I Hs Hw HE' Hpc. pose proof (distinct3_byte p Hp) as Hd.
  pose proof (distinct3_byte (full_of p) (full_of_lt p)) as Hd2.
  assert (HE : 1 <= E).
  { destruct (le_lt_dec E 0) as [H0|]; [|lia]. assert (E <= 1) as H1 by lia.
    pose proof (iB3 _ _ _ _ I H1). lia. }
  destruct (winner_facts E p Hd tr pcof I HE Hs Hw) as [Hst [Hw1 Hall]].
  assert (Hused : forall r, 2 <= cef E' r -> 2 <= cef E r) by (intros r Hr; pose proof (cef_le E E' r HE'); lia).
  assert (Hnodes : forall r, nodes E' r <= nodes E r).
  { intros r. unfold nodes. pose proof (cef_le E E' r HE'). lia. }
  assert (Hin : forall t, inactive (pcof t)).
  { intros t r [c [e [H0|H0]]].
    - destruct (iA_scan _ _ _ _ I _ _ _ _ H0) as [Hi [-> [H2 _]]]. destruct (Hall r H2) as [Ha _].
      rewrite Ha in Hi. destruct Hi.
    - destruct (iA_sec _ _ _ _ I _ _ _ _ H0) as [Hi [-> [H2 _]]]. destruct (Hall r H2) as [Ha _].
      rewrite Ha in Hi. destruct Hi. }
  assert (HH : forall r, 2 <= cef E' r -> Hc E' (full_of p) (reset_tree tr) r = 0).
  { intros r Hr. apply cnt_none. intros k Hk. cbn [reset_tree tk].
    destruct (Hall r (Hused r Hr)) as [_ Hf]. assert (pairs E' r <= nodes E' r) by (unfold pairs, nodes; lia). pose proof (Hnodes r).
    rewrite Hf by lia. rewrite N.eqb_refl. reflexivity. }
  assert (HF : forall r, 2 <= cef E' r -> Fc E' (full_of p) (reset_tree tr) r = 0).
  { intros r Hr. apply cnt_none. intros k Hk. cbn [reset_tree tk].
    destruct (Hall r (Hused r Hr)) as [_ Hf]. pose proof (Hnodes r).
    rewrite Hf by lia. destruct Hd2 as [_ [H2 _]]. apply Neqb_false. congruence. }
  split; [|exact Hin]. split.
  - intros t r c e H0. rewrite Hpc in H0. exfalso. apply (Hin t r). eexists _, _. left. exact H0.
  - intros t r c e H0. rewrite Hpc in H0. exfalso. apply (Hin t r). eexists _, _. right. exact H0.
  - intros H2. rewrite HH, HF by (cbn [cef]; lia). cbn [reset_tree act started].
    destruct (Hall 0) as [Ha _]; [cbn [cef]; lia|]. rewrite Ha. reflexivity.
  - intros r Hr. assert (Hr' : 2 <= cef E' r) by (cbn [cef] in Hr; lia).
    rewrite HH, !HF by assumption. cbn [reset_tree act].
    destruct (Hall (S r) (Hused _ Hr)) as [Ha _]. rewrite Ha. reflexivity.
  - intros r Hr _. rewrite HF by assumption. reflexivity.
  - reflexivity.
Qed.

(* ---------- final statements about the stand-alone tree ---------- *)
Lemma tree_one_winner E p progs sched : 1 <= E -> (p < pmod)%N ->
  let c := tr_run E p sched progs in
  let g := fst c in
  started (tre g) <= E ->
  wins_of (trlog g) <= 1 /\
  (forall t s, In (t, true, s) (trlog g) -> s = E) /\
  (wins_of (trlog g) = 1 -> started (tre g) = E /\ forall t, tp (snd c t) = None) /\
  (started (tre g) = E -> (forall t, tp (snd c t) = None) -> wins_of (trlog g) = 1).
Proof.
  intros HE Hp c g Hs. pose proof (TrInv_run E p HE Hp sched progs) as I. fold c in I. fold g in I.
  pose proof (distinct3_byte p Hp) as Hd.
  destruct I as [IT IA INr IL IW IR]. rewrite IW. repeat split.
  - apply (wins_le_1 E p Hd _ _ IT HE Hs).
  - intros t s H. destruct (IL _ _ _ H) as [H1 H2]. apply H2; [reflexivity|lia].
  - destruct (winner_facts E p Hd _ _ IT HE Hs) as [H1 _]; [lia|exact H1].
  - intros t. destruct (winner_facts E p Hd _ _ IT HE Hs) as [_ [_ Hall]]; [lia|].
    destruct (tp (snd c t)) as [pc|] eqn:Htp; [exfalso|reflexivity].
    specialize (INr t). rewrite Htp in INr. destruct pc as [r cu e|r cu e|b]; [| |discriminate].
    + destruct (iA_scan _ _ _ _ IT t r cu e Htp) as [Hi [-> [H2 _]]]. destruct (Hall r H2) as [Ha _].
      rewrite Ha in Hi. destruct Hi.
    + destruct (iA_sec _ _ _ _ IT t r cu e Htp) as [Hi [-> [H2 _]]]. destruct (Hall r H2) as [Ha _].
      rewrite Ha in Hi. destruct Hi.
  - intros Hst Hnone. apply (quiescent_facts E p _ _ IT HE Hst).
    intros r. destruct IA as [_ IA2]. destruct (act (tre g) r) as [|t l] eqn:Ha; [reflexivity|exfalso].
    assert (Hin : In t (act (tre g) r)) by (rewrite Ha; left; reflexivity).
    destruct (IA2 t r Hin) as [cu [e [H|H]]]; unfold pcs in H; rewrite Hnone in H; discriminate.
Qed.

(* at the end of a phase every ticket that the phase used carries old_phase + 2 (mod 2^8) *)
Lemma tree_tickets_reset E p progs sched : 1 <= E -> (p < pmod)%N ->
  let g := fst (tr_run E p sched progs) in
  started (tre g) <= E -> wins_of (trlog g) = 1 ->
  (forall r n, 2 <= cef E r -> n < nodes E r -> tk (tre g) r n = full_of p) /\
  (full_of p < pmod)%N /\ full_of p <> p.
Proof.
  intros HE Hp g Hs Hw. pose proof (TrInv_run E p HE Hp sched progs) as I. fold g in I.
  pose proof (distinct3_byte p Hp) as Hd. destruct I as [IT IA INr IL IW IR]. rewrite IW in Hw.
  destruct (winner_facts E p Hd _ _ IT HE Hs) as [_ [_ Hall]]; [lia|].
  repeat split.
  - intros r n Hr Hn. apply (Hall r Hr). exact Hn.
  - apply full_of_lt.
  - apply Hd.
Qed.

(* every ticket access is inside the allocated arrays: node < (E+1)>>1, round < ticket_slots *)
Lemma cef_pow E : forall r, cef E r * 2 ^ r < E + 2 ^ r.
Proof.
  induction r as [|r IH]; cbn [cef Nat.pow]; [lia|].
  assert (0 < 2 ^ r) by (apply Nat.neq_0_lt_0, Nat.pow_nonzero; lia).
  assert ((cef E r + 1) / 2 * 2 <= cef E r + 1) by lia. nia.
Qed.

Lemma tree_in_bounds E p progs sched t r c e : 1 <= E -> (p < pmod)%N -> E < 2 ^ (ticket_slots - 1) ->
  let cfg := tr_run E p sched progs in
  (tp (snd cfg t) = Some (TScan r c e) \/ tp (snd cfg t) = Some (TSecond r c e)) ->
  r < ticket_slots /\ (if Nat.eqb c ((e + 1) / 2) then 0 else c) < (E + 1) / 2.
Proof.
  intros HE Hp Hbig cfg H. pose proof (TrInv_run E p HE Hp sched progs) as I. fold cfg in I.
  destruct I as [IT _ _ _ _ _].
  assert (Hfacts : e = cef E r /\ 2 <= e /\ c <= nodes E r).
  { destruct H as [H|H].
    - destruct (iA_scan _ _ _ _ IT t r c e H) as [_ [H1 [H2 H3]]]. auto.
    - destruct (iA_sec _ _ _ _ IT t r c e H) as [_ [H1 [H2 H3]]]. repeat split; auto; lia. }
  destruct Hfacts as [-> [H2 H3]]. split.
  - destruct (le_lt_dec ticket_slots r) as [Hle|]; [exfalso|assumption].
    pose proof (cef_pow E r).
    assert (2 ^ (ticket_slots - 1) <= 2 ^ r) by (apply Nat.pow_le_mono_r; lia).
    assert (0 < 2 ^ r) by (apply Nat.neq_0_lt_0, Nat.pow_nonzero; lia). nia.
  - fold (nodes E r). assert (nodes E r <= nodes E 0).
    { unfold nodes. assert (cef E r <= E); [|cbn [cef]; lia].
      clear. induction r as [|r IH]; cbn [cef]; lia. }
    change ((E + 1) / 2) with (nodes E 0).
    assert (1 <= nodes E r) by (unfold nodes; lia).
    destruct (Nat.eqb c (nodes E r)) eqn:Hq; [lia|]. apply Nat.eqb_neq in Hq. lia.
Qed.
