(* Proofs/StopNoSourceProofs.v — C14, round p12a: the no-source half of the refusal is ABSORBING.
   Once no stop_source exists (source field 0: none held by a modelled thread, none outside) and stop was not requested,
   [w_stop_possible] stays false for ever: nobody can call request_stop (it is a member of stop_source: the local invariant QS —
   a thread inside the CAS loop of request_stop holds a stop_source), nobody can copy a stop_source (HS), so the requested bit
   (= a winner exists, GI) and the source field (= exact count, SI) do not change. *)
From Coq Require Import List NArith ZArith Bool Arith Lia.
From Pika Require Import Base.Conc Gen.GenStopBits Model.StopWord Model.StopState
  Proofs.StopFlagsProofs Proofs.StopStateProofs Proofs.StopProgressStep Proofs.StopSourcesProofs.
Import ListNotations.

Local Open Scope N_scope.
Transparent w_stop_possible w_sources w_stop_requested.
Lemma land_src w : N.land w source_ref_mask = w_sources w * 2 ^ 32.
Proof.
  unfold w_sources. rewrite layout_src_mask, layout_src_inc, land_shiftl, N.land_ones, N.shiftr_div_pow2, !N.shiftl_mul_pow2.
  rewrite N.div_mul; [reflexivity|discriminate].
Qed.
Lemma not_possible_conv w : w_stop_requested w = false -> w_sources w = 0 -> w_stop_possible w = false.
Proof.
  intros H1 H2. unfold w_stop_possible. rewrite H1. cbn [orb]. rewrite land_src, H2. reflexivity.
Qed.
Global Opaque w_stop_possible w_sources w_stop_requested.
Local Close Scope N_scope.

(* the one local invariant: request_stop is entered (OpReq) only by a thread that holds a stop_source, and the handle is not
   given up inside the call *)
Definition QS (l : local) : Prop :=
  match pc l with QLoad | QCas _ | QSpin => 1 <= hsrc l | _ => True end.

Lemma QS_norm l : QS l -> QS (norm l).
Proof.
  unfold norm, QS. destruct (pc l) eqn:E; rewrite ?E; try tauto.
  destruct (frames l) as [|[[|c|c] [|o r]] fs]; cbn; rewrite ?E; tauto.
Qed.

(* one step: QS is preserved, and the winner (hence the requested bit) changes only in the CAS of request_stop *)
Lemma S15 P o t g l0 : QS (norm l0) ->
  On (fun g' l' => QS l' /\ ((forall old, pc (norm l0) <> QCas old) -> winner g' = winner g)) (st_tstep P o t g l0).
Proof.
  intros HQ. unfold st_tstep. cbv zeta. revert HQ. generalize (norm l0). intros l HQ.
  destruct (pc l) eqn:Epc; brkOn; unfold On; proj; unfold QS in *; proj; rewrite ?Epc in *.
  all: try match goal with H : (0 <? _)%nat = true |- _ => apply Nat.ltb_lt in H end.
  all: try solve [split; [first [exact I | assumption | lia]|intros; reflexivity]].
  all: try solve [split; [first [exact I | assumption | lia]|intros Hn; exfalso; eapply Hn; reflexivity]].
  all: try match goal with removed : bool |- _ => destruct removed end.
  all: split; [exact I|intros; reflexivity].
Qed.

Definition NSI (nthr : nat) (base : N) (g : shared) (ls : nat -> local) : Prop :=
  Inv g ls /\ SI nthr base g ls /\ forall t, QS (ls t).

Lemma NSI_step P o t g ls nthr base : NSI nthr base g ls ->
  NSI nthr base (fst (st_tstep P o t g (ls t))) (upd ls t (snd (st_tstep P o t g (ls t)))).
Proof.
  intros (HI & HS' & HQ). split; [now apply step_inv|split; [now apply SI_step|]].
  pose proof (S15 P o t g (ls t) (QS_norm _ (HQ t))) as F. unfold On in F. destruct F as [F _].
  intros x. unfold upd. destruct (Nat.eqb_spec x t); [exact F|apply HQ].
Qed.

Lemma run_NSI P sched w0 progs srcs nthr base : good_init w0 -> good_srcs nthr base w0 srcs ->
  let c := st_run P sched w0 progs srcs in NSI nthr base (fst c) (snd c).
Proof.
  intros (A & B & C) [G1 G2]. unfold st_run.
  apply (run_inv _ _ _ (st_tstep P) (NSI nthr base)).
  - intros o t g ls. apply NSI_step.
  - split; [now apply init_inv|split].
    + split; [|split].
      * intros t. exact I.
      * intros t Ht. cbn. now apply G1.
      * cbn [fst snd st_init word]. rewrite G2. reflexivity.
    + intros t. exact I.
Qed.

(* in a state without any source nobody holds one *)
Lemma no_source_none_held nthr base g ls : SI nthr base g ls -> w_sources (word g) = 0%N ->
  base = 0%N /\ forall t, held (ls t) = 0.
Proof.
  intros (H1 & H2 & H3) B. rewrite B in H3. split; [lia|].
  intros t. destruct (Nat.lt_ge_cases t nthr) as [Hlt|Hge]; [|now apply H2].
  apply (sumf_zero (fun x => held (ls x)) nthr); [lia|assumption].
Qed.

Lemma no_source_step P o t g ls nthr base : NSI nthr base g ls -> w_stop_possible (word g) = false ->
  w_stop_possible (word (fst (st_tstep P o t g (ls t)))) = false.
Proof.
  intros HN Hnp. pose proof (NSI_step P o t g ls nthr base HN) as (HI' & _ & _).
  destruct HN as (HI & HS' & HQ). apply not_possible in Hnp. destruct Hnp as [Hr Hs].
  destruct (no_source_none_held nthr base g ls HS' Hs) as [_ Hh].
  destruct HI as [HG HL]. destruct HS' as (H1 & _ & _).
  destruct (held_norm (ls t)) as [En Hn].
  pose proof (S10 P o t g (ls t) HG (LI_norm _ _ _ (HL t)) (Hn (H1 t))) as F. unfold On in F.
  rewrite En, (Hh t) in F. destruct F as (_ & F2 & F3). specialize (F3 eq_refl). rewrite F3, Hs in F2.
  pose proof (S15 P o t g (ls t) (QS_norm _ (HQ t))) as G. unfold On in G. destruct G as [_ G].
  assert (NC : forall old, pc (norm (ls t)) <> QCas old).
  { intros old E. pose proof (QS_norm _ (HQ t)) as Q. unfold QS in Q. rewrite E in Q.
    pose proof (Hh t) as Z. rewrite <- En in Z. unfold held in Z. rewrite E in Z. lia. }
  specialize (G NC).
  destruct HI' as [HG' _]. destruct HG' as (_ & _ & Hrq' & _). destruct HG as (_ & _ & Hrq & _).
  apply not_possible_conv.
  - rewrite Hrq'. rewrite G. rewrite <- Hrq. exact Hr.
  - lia.
Qed.

(* once no stop_source exists and stop was not requested, no later step makes stop_possible true again; and no thread ever holds a
   stop_source again *)
Theorem no_source_is_absorbing P s1 s2 w0 progs srcs nthr base : good_init w0 -> good_srcs nthr base w0 srcs ->
  let c1 := st_run P s1 w0 progs srcs in
  let c2 := st_run P (s1 ++ s2) w0 progs srcs in
  w_stop_possible (word (fst c1)) = false ->
  w_stop_possible (word (fst c2)) = false /\ w_stop_requested (word (fst c2)) = false /\ w_sources (word (fst c2)) = 0%N /\
  base = 0%N /\ forall t, held (snd c2 t) = 0.
Proof.
  intros Hw Hs. cbv zeta. intros Hnp.
  pose proof (run_NSI P s1 w0 progs srcs nthr base Hw Hs) as HN. cbv zeta in HN.
  unfold st_run in *. rewrite run_app.
  set (c1 := run (st_tstep P) s1 (st_init w0, st_locals progs srcs)) in *. clearbody c1.
  assert (K : NSI nthr base (fst (run (st_tstep P) s2 c1)) (snd (run (st_tstep P) s2 c1)) /\
              w_stop_possible (word (fst (run (st_tstep P) s2 c1))) = false).
  { revert c1 HN Hnp. induction s2 as [|[t o] s IH]; intros c1 HN Hnp; [split; assumption|].
    rewrite run_cons. apply IH.
    - unfold step. cbn [fst snd]. pose proof (NSI_step P o t (fst c1) (snd c1) nthr base HN) as W.
      destruct (st_tstep P o t (fst c1) (snd c1 t)) as [g' l']. exact W.
    - unfold step. cbn [fst snd]. pose proof (no_source_step P o t (fst c1) (snd c1) nthr base HN Hnp) as W.
      destruct (st_tstep P o t (fst c1) (snd c1 t)) as [g' l']. exact W. }
  destruct K as [(_ & HS2 & _) K2]. split; [exact K2|]. pose proof (not_possible _ K2) as [A B].
  split; [exact A|split; [exact B|]]. exact (no_source_none_held nthr base _ _ HS2 B).
Qed.

Theorem request_stop_needs_source P sched w0 progs srcs nthr base : good_init w0 -> good_srcs nthr base w0 srcs ->
  let c := st_run P sched w0 progs srcs in
  forall t, match pc (snd c t) with QLoad | QCas _ | QSpin => 1 <= hsrc (snd c t) | _ => True end.
Proof. intros Hw Hs. cbv zeta. intros t. exact (proj2 (proj2 (run_NSI P sched w0 progs srcs nthr base Hw Hs)) t). Qed.
