(* Proofs/WeakAgentProofs.v — C02 layering: the scheduler-core model (Model/Sched.v) refines the
   weak agent machine (Model/WeakAgent.v); W2 on traces; Base/Agent.v read in the machine. *)
From Coq Require Import List NArith Bool Arith Lia.
From Pika Require Import Base.Conc Base.Agent Gen.GenEnums Model.Sched Model.WeakAgent
  Proofs.SchedProofs Proofs.SchedWakeProofs Proofs.SchedRecycleProofs Proofs.SchedAbortProofs.
Import ListNotations.

(* ================================================================== 1. the machine *)
Lemma wa_step_ext_l l c1 c2 c' : (forall i, c1 i = c2 i) -> wa_step l c1 c' -> wa_step l c2 c'.
Proof.
  intros E (s' & H1 & H2). exists s'. split; [now rewrite <- E|].
  intros i. rewrite H2. destruct (Nat.eqb i (snd l)); auto.
Qed.
Lemma wa_run_ext_l tr c1 c2 c' : (forall i, c1 i = c2 i) -> wa_run tr c1 c' -> wa_run tr c2 c'.
Proof.
  intros E H. destruct H as [c c' H|l tr c c1 c' H1 H2].
  - constructor. intros i. now rewrite H, E.
  - econstructor; [eapply wa_step_ext_l; eauto | exact H2].
Qed.
Lemma wa_run_app tr1 tr2 c c1 c' : wa_run tr1 c c1 -> wa_run tr2 c1 c' -> wa_run (tr1 ++ tr2) c c'.
Proof.
  induction 1 as [c c1 H|l tr c c0 c1 H1 H2 IH]; intros H3; cbn.
  - eapply wa_run_ext_l; [|exact H3]. exact H.
  - econstructor; [exact H1 | now apply IH].
Qed.

(* the must steps are steps *)
Lemma wa_must_enabled l c : wa_must l c -> exists c', wa_step l c c'.
Proof.
  destruct l as [k t]. intros (Hk & Hm & _). cbn in *. subst k.
  exists (fun i => if Nat.eqb i t then wa_fresh MRun else c i). exists (wa_fresh MRun).
  split; [|reflexivity]. cbn. unfold wa_tstep. now rewrite Hm.
Qed.
(* W1: a blocked task can always be woken *)
Lemma wa_wake_enabled c t : wmode (c t) = MBlk -> exists c', wa_step (KWake, t) c c'.
Proof.
  intros Hm. exists (fun i => if Nat.eqb i t then wa_fresh MRun else c i). exists (wa_fresh MRun).
  split; [|reflexivity]. cbn. unfold wa_tstep. now rewrite Hm.
Qed.

(* a run is, per task, the replay of its projection *)
Lemma wa_run_proj tr c c' : wa_run tr c c' -> forall t, wa_replay (wa_proj t tr) (c t) = Some (c' t).
Proof.
  induction 1 as [c c' H|l tr c c1 c' (s' & H1 & H2) _ IH]; intros t; cbn.
  - now rewrite H.
  - unfold wa_proj in *. cbn [filter]. specialize (IH t). rewrite H2 in IH.
    destruct (Nat.eqb (snd l) t) eqn:E.
    + apply Nat.eqb_eq in E. subst t. rewrite Nat.eqb_refl in IH. cbn [map wa_replay]. rewrite H1. exact IH.
    + rewrite Nat.eqb_sym, E in IH. exact IH.
Qed.

Lemma wa_replay_app p q s :
  wa_replay (p ++ q) s = match wa_replay p s with Some s' => wa_replay q s' | None => None end.
Proof.
  revert s. induction p as [|k p IH]; intros s; cbn; [reflexivity|].
  destruct (wa_tstep k s); [apply IH | reflexivity].
Qed.

(* one phase: no Wake / Yield / Term *)
Lemma no_end_replay p : no_end p -> forall s s', wa_replay p s = Some s' ->
  (wmode s = MBlk -> wmode s' = MBlk) /\
  (In KSusp p -> wmode s' = MBlk) /\
  (wowed s = true -> wowed s' = true) /\
  (wreg s = true \/ wowed s = true -> wreg s' = true \/ wowed s' = true).
Proof.
  induction p as [|k p IH]; intros Hn s s' Hr; cbn in Hr.
  - inversion Hr; subst. repeat split; auto. intros [].
  - assert (Hk : phase_end k = false) by (apply Hn; now left).
    assert (Hn' : no_end p) by (intros k' Hk'; apply Hn; now right).
    destruct (wa_tstep k s) as [s1|] eqn:E1; [|discriminate].
    destruct (IH Hn' s1 s' Hr) as (A1 & A2 & A3 & A4).
    unfold wa_tstep in E1.
    destruct k; try discriminate Hk; destruct (wmode s) eqn:Em; try discriminate E1; inversion E1; subst s1; clear E1; cbn in *.
    all: repeat split; auto.
    all: try (intros [H|H]; [discriminate H | auto]).
    all: try (intros [H|H]; [auto | auto]; fail).
    all: try (intros H; apply A3; rewrite H; reflexivity).
    all: try (intros [H|H]; apply A4; rewrite H; auto using orb_true_r).
Qed.

(* W2 on traces, soundness: the pattern implies blocked and owed *)
Lemma lost_pattern_owed p s0 s :
  lost_pattern p -> wa_replay p s0 = Some s -> wmode s = MBlk /\ wowed s = true.
Proof.
  intros (p1 & p2 & p3 & -> & Hn & Hs) Hr.
  rewrite wa_replay_app in Hr. destruct (wa_replay p1 s0) as [s1|]; [|discriminate].
  cbn [wa_replay] in Hr. destruct (wa_tstep KReg s1) as [s2|] eqn:E2; [|discriminate].
  rewrite wa_replay_app in Hr. destruct (wa_replay p2 s2) as [s3|] eqn:E3; [|discriminate].
  cbn [wa_replay] in Hr. destruct (wa_tstep KRes s3) as [s4|] eqn:E4; [|discriminate].
  assert (Hn2 : no_end p2) by (intros k Hk; apply Hn; apply in_or_app; now left).
  assert (Hn3 : no_end p3) by (intros k Hk; apply Hn; apply in_or_app; now right).
  destruct (no_end_replay p2 Hn2 s2 s3 E3) as (A1 & A2 & A3 & A4).
  destruct (no_end_replay p3 Hn3 s4 s Hr) as (B1 & B2 & B3 & B4).
  assert (R2 : wreg s2 = true).
  { unfold wa_tstep in E2. destruct (wmode s1); inversion E2; reflexivity. }
  assert (O4 : wowed s4 = true /\ wmode s4 = wmode s3).
  { unfold wa_tstep in E4. inversion E4; subst s4; cbn. split; [|reflexivity].
    destruct A4 as [H|H]; [now left | | ]; rewrite H; auto using orb_true_r. }
  destruct O4 as [O4 M4]. split; [|now apply B3].
  apply in_app_or in Hs. destruct Hs as [Hs|Hs]; [|now apply B2].
  apply B1. rewrite M4. now apply A2.
Qed.

(* ================================================================== 2. the abstraction function *)
(* what the abstraction reads of a task record *)
Definition akey (k : task) : word * option N * option N := (tw k, reg k, wake k).
Lemma abs_task_akey k k' : akey k = akey k' -> abs_task k = abs_task k'.
Proof. unfold akey, abs_task. intros H. inversion H as [[H1 H2 H3]]. now rewrite H1, H2, H3. Qed.
Lemma abs_task_terminated k : st (tw k) = st_terminated -> abs_task k = wa_fresh MDone.
Proof.
  intros H. unfold abs_task, oflag, cur_phase. rewrite H.
  destruct (reg k), (wake k); reflexivity.
Qed.

Definition ginj (g : G) : Prop :=
  forall x y, x < ntasks g -> y < ntasks g -> gid g x = gid g y -> x = y.

Lemma find_ext {A} (f h : A -> bool) l : (forall x, In x l -> f x = h x) -> find f l = find h l.
Proof.
  induction l as [|a l IH]; intros H; cbn; [reflexivity|].
  rewrite (H a) by now left. destruct (h a); [reflexivity|]. apply IH. intros x Hx. apply H. now right.
Qed.
Lemma obj_of_some g i x : obj_of g i = Some x -> x < ntasks g /\ gid g x = i.
Proof.
  unfold obj_of. intros H. apply find_some in H. destruct H as [H1 H2].
  apply in_seq in H1. apply Nat.eqb_eq in H2. split; [lia | exact H2].
Qed.
Lemma obj_of_none g i : obj_of g i = None -> forall x, x < ntasks g -> gid g x <> i.
Proof.
  unfold obj_of. intros H x Hx E.
  assert (Hin : In x (seq 0 (ntasks g))) by (apply in_seq; lia).
  apply (find_none _ _ H) in Hin. apply Nat.eqb_neq in Hin. auto.
Qed.
Lemma obj_of_gid g x : ginj g -> x < ntasks g -> obj_of g (gid g x) = Some x.
Proof.
  intros Hi Hx. destruct (obj_of g (gid g x)) as [y|] eqn:E.
  - apply obj_of_some in E. destruct E as [E1 E2]. f_equal. now apply Hi.
  - exfalso. exact (obj_of_none _ _ E x Hx eq_refl).
Qed.
Lemma obj_of_unbound g i : (forall x, x < ntasks g -> gid g x <> i) -> obj_of g i = None.
Proof.
  intros H. destruct (obj_of g i) as [y|] eqn:E; [|reflexivity].
  apply obj_of_some in E. destruct E as [E1 E2]. exfalso. exact (H y E1 E2).
Qed.

Definition gsame (g g' : G) : Prop :=
  ntasks g' = ntasks g /\ ninc g' = ninc g /\ forall y, gid g' y = gid g y.
Definition frame (g g' : G) (x : nat) : Prop :=
  gsame g g' /\ forall y, y < ntasks g -> y <> x -> akey (tasks g' y) = akey (tasks g y).
Definition vsame (g g' : G) : Prop :=
  gsame g g' /\ forall y, y < ntasks g -> akey (tasks g' y) = akey (tasks g y).

Lemma obj_of_gsame g g' i : gsame g g' -> obj_of g' i = obj_of g i.
Proof.
  intros (E1 & _ & E3). unfold obj_of. rewrite E1. apply find_ext. intros x _. now rewrite E3.
Qed.

Lemma abs_silent g g' :
  gsame g g' -> (forall y, y < ntasks g -> abs_task (tasks g' y) = abs_task (tasks g y)) ->
  forall i, wa_abs g' i = wa_abs g i.
Proof.
  intros Hs H i. unfold wa_abs. rewrite (obj_of_gsame g g' i Hs).
  destruct (obj_of g i) as [y|] eqn:E.
  - apply obj_of_some in E. apply H. tauto.
  - destruct Hs as (_ & -> & _). reflexivity.
Qed.

Lemma abs_visible g g' x k :
  ginj g -> x < ntasks g -> gsame g g' ->
  (forall y, y < ntasks g -> y <> x -> abs_task (tasks g' y) = abs_task (tasks g y)) ->
  wa_tstep k (abs_task (tasks g x)) = Some (abs_task (tasks g' x)) ->
  wa_step (k, gid g x) (wa_abs g) (wa_abs g').
Proof.
  intros Hi Hx Hs Ho Hk. exists (abs_task (tasks g' x)). cbn [fst snd]. split.
  - unfold wa_abs. now rewrite (obj_of_gid g x Hi Hx).
  - intros i. unfold wa_abs. rewrite (obj_of_gsame g g' i Hs).
    destruct (Nat.eqb i (gid g x)) eqn:E.
    + apply Nat.eqb_eq in E. subst i. now rewrite (obj_of_gid g x Hi Hx).
    + destruct (obj_of g i) as [y|] eqn:Eo.
      * apply obj_of_some in Eo. destruct Eo as [H1 H2]. apply Ho; auto.
        intros ->. rewrite H2, Nat.eqb_refl in E. discriminate.
      * destruct Hs as (_ & -> & _). reflexivity.
Qed.

(* creation / rebinding of a thread object is invisible: the new incarnation starts in the
   initial state of the machine, the incarnation that loses its object terminated before *)
Lemma abs_new g g' x :
  ginj g -> ginj g' -> (forall y, y < ntasks g -> gid g y < ninc g) ->
  ((x = ntasks g /\ ntasks g' = S (ntasks g)) \/
   (x < ntasks g /\ st (tw (tasks g x)) = st_terminated /\ ntasks g' = ntasks g)) ->
  ninc g' = S (ninc g) ->
  (forall y, gid g' y = if Nat.eqb y x then ninc g else gid g y) ->
  abs_task (tasks g' x) = wa_init_task ->
  (forall y, y < ntasks g -> y <> x -> abs_task (tasks g' y) = abs_task (tasks g y)) ->
  forall i, wa_abs g' i = wa_abs g i.
Proof.
  intros Hi Hi' Hlt Hx Hn Hg Hfresh Hoth i.
  assert (Hxn : x < ntasks g') by (destruct Hx as [[-> ->]|(? & ? & ->)]; lia).
  assert (Hle : ntasks g <= ntasks g') by (destruct Hx as [[_ ->]|(_ & _ & ->)]; lia).
  assert (Hgx : gid g' x = ninc g) by (rewrite Hg, Nat.eqb_refl; reflexivity).
  assert (Hgo : forall y, y <> x -> gid g' y = gid g y).
  { intros y Hy. rewrite Hg. apply Nat.eqb_neq in Hy. now rewrite Hy. }
  assert (Hlt' : forall y, y < ntasks g' -> y <> x -> y < ntasks g).
  { destruct Hx as [[-> E]|(_ & _ & E)]; rewrite E; intros; lia. }
  destruct (Nat.eq_dec i (ninc g)) as [->|Hne].
  - assert (E1 : obj_of g' (ninc g) = Some x) by (rewrite <- Hgx; now apply obj_of_gid).
    assert (E2 : obj_of g (ninc g) = None).
    { apply obj_of_unbound. intros y Hy E. specialize (Hlt y Hy). lia. }
    unfold wa_abs. rewrite E1, E2, Hfresh, Nat.ltb_irrefl. reflexivity.
  - destruct (obj_of g i) as [y|] eqn:Eo.
    + destruct (obj_of_some _ _ _ Eo) as [Hy Hgy].
      destruct (Nat.eq_dec y x) as [->|Hyx].
      * destruct Hx as [[Hx _]|(Hx1 & Hterm & Hnt)]; [lia|].
        assert (E1 : obj_of g' i = None).
        { apply obj_of_unbound. intros z Hz Ez. destruct (Nat.eq_dec z x) as [->|Hzx]; [congruence|].
          rewrite Hgo in Ez by assumption. apply Hzx. apply Hi; [now apply Hlt' | assumption | congruence]. }
        unfold wa_abs. rewrite E1, Eo, Hn.
        assert (Hl : i <? S (ninc g) = true) by (apply Nat.ltb_lt; specialize (Hlt x Hx1); lia).
        rewrite Hl. symmetry. now apply abs_task_terminated.
      * assert (E1 : obj_of g' i = Some y).
        { rewrite <- Hgy, <- (Hgo y Hyx). apply obj_of_gid; [assumption | lia]. }
        unfold wa_abs. rewrite E1, Eo. now apply Hoth.
    + assert (E1 : obj_of g' i = None).
      { apply obj_of_unbound. intros z Hz Ez. destruct (Nat.eq_dec z x) as [->|Hzx]; [congruence|].
        rewrite Hgo in Ez by assumption. exact (obj_of_none _ _ Eo z (Hlt' z Hz Hzx) Ez). }
      unfold wa_abs. rewrite E1, Eo, Hn.
      destruct (i <? S (ninc g)) eqn:A, (i <? ninc g) eqn:B; try reflexivity;
        [apply Nat.ltb_lt in A; apply Nat.ltb_ge in B | apply Nat.ltb_ge in A; apply Nat.ltb_lt in B]; lia.
Qed.

Lemma abs_init i : wa_abs init_g i = wa_init i.
Proof. reflexivity. Qed.

(* ================================================================== 3. what a step does to the view *)
Inductive tchg (g g' : G) : option wa_label -> Prop :=
  | tc_same : vsame g g' -> tchg g g' None
  | tc_act x w' : x < ntasks g -> frame g g' x -> st (tw_of g x) = st_pending -> st w' = st_active ->
      akey (tasks g' x) = (w', None, None) -> tchg g g' None
  | tc_boost x w' : x < ntasks g -> frame g g' x ->
      (st (tw_of g x) = st_pending \/ st (tw_of g x) = st_pending_boost) -> st w' = st_pending ->
      akey (tasks g' x) = (w', reg (tasks g x), wake (tasks g x)) -> tchg g g' None
  | tc_store x ret k : x < ntasks g -> frame g g' x -> st (tw_of g x) = st_active ->
      kind_of_ret ret = Some k ->
      akey (tasks g' x) = ({| st := ret; tag := tag (tw_of g x) + 1 |}, reg (tasks g x), wake (tasks g x)) ->
      tchg g g' (Some (k, gid g x))
  | tc_reg x : x < ntasks g -> frame g g' x -> st (tw_of g x) = st_active ->
      akey (tasks g' x) = (tw_of g x, Some (tag (tw_of g x)), wake (tasks g x)) ->
      tchg g g' (Some (KReg, gid g x))
  | tc_issue x : x < ntasks g -> frame g g' x ->
      akey (tasks g' x) = (tw_of g x, None,
                           match reg (tasks g x) with Some p => Some p | None => wake (tasks g x) end) ->
      tchg g g' (Some (KRes, gid g x))
  | tc_wake x : x < ntasks g -> frame g g' x -> st (tw_of g x) = st_suspended ->
      akey (tasks g' x) = ({| st := st_pending; tag := tag (tw_of g x) + 1 |}, reg (tasks g x), wake (tasks g x)) ->
      tchg g g' (Some (KWake, gid g x))
  | tc_new x : ((x = ntasks g /\ ntasks g' = S (ntasks g)) \/ (In x (heap g) /\ ntasks g' = ntasks g)) ->
      ninc g' = S (ninc g) -> (forall y, gid g' y = if Nat.eqb y x then ninc g else gid g y) ->
      akey (tasks g' x) = (w_init, None, None) ->
      (forall y, y < ntasks g -> y <> x -> akey (tasks g' y) = akey (tasks g y)) -> tchg g g' None.

Lemma gsame_intro g g' : ntasks g' = ntasks g -> ninc g' = ninc g -> gid g' = gid g -> gsame g g'.
Proof. intros E1 E2 E3. split; [exact E1|]. split; [exact E2|]. intros y. now rewrite E3. Qed.
Lemma vsame_tasks g g' :
  ntasks g' = ntasks g -> ninc g' = ninc g -> gid g' = gid g -> tasks g' = tasks g -> vsame g g'.
Proof. intros E1 E2 E3 E4. split; [now apply gsame_intro|]. intros y _. now rewrite E4. Qed.
Lemma vsame_refl g : vsame g g.
Proof. now apply vsame_tasks. Qed.
Lemma vsame_key g g' :
  ntasks g' = ntasks g -> ninc g' = ninc g -> gid g' = gid g ->
  (forall y, akey (tasks g' y) = akey (tasks g y)) -> vsame g g'.
Proof. intros E1 E2 E3 E4. split; [now apply gsame_intro|]. intros y _. apply E4. Qed.
Lemma frame_intro g g' x :
  ntasks g' = ntasks g -> ninc g' = ninc g -> gid g' = gid g ->
  (forall y, y <> x -> tasks g' y = tasks g y) -> frame g g' x.
Proof. intros E1 E2 E3 E4. split; [now apply gsame_intro|]. intros y _ Hy. now rewrite E4. Qed.

Lemma akey_set_todo g t b y : akey (tasks (set_todo g t b) y) = akey (tasks g y).
Proof.
  cbn. unfold upd. destruct (Nat.eqb y t) eqn:E; [apply Nat.eqb_eq in E; subst|]; reflexivity.
Qed.
Lemma vsame_set_todo g t b : vsame g (set_todo g t b).
Proof. apply vsame_key; try reflexivity. intros y. apply akey_set_todo. Qed.
Lemma vsame_rc_dec g g1 t : vsame g g1 -> vsame g (rc_dec g1 t).
Proof.
  intros ((E1 & E2 & E3) & E4). destruct (rc_dec_view g1 t) as (F1 & F2 & _ & _ & _ & F6 & F7 & _).
  split; [split; [congruence | split; [congruence | intros y; rewrite F6; apply E3]]|].
  intros y Hy. rewrite F1. now apply E4.
Qed.

(* a thread object obtained after some bookkeeping g -> g1 that the view does not see *)
Lemma tchg_new g g1 b h :
  vsame g g1 -> heap g1 = heap g -> heap_ok g -> tchg g (new_task g1 b h) None.
Proof.
  intros ((E1 & E2 & E3) & E4) Eh HH.
  apply tc_new with (x := new_slot g1 h).
  - unfold new_slot, new_task. cbn [ntasks]. rewrite Eh, E1.
    destruct (nth_error (heap g) h) eqn:E; [right | left]; split; auto.
    eapply nth_error_In; eauto.
  - cbn. now rewrite E2.
  - intros y. cbn. fold (new_slot g1 h). unfold upd. rewrite E2, E3. reflexivity.
  - cbn. fold (new_slot g1 h). rewrite upd_same. reflexivity.
  - intros y Hy Hne. cbn. fold (new_slot g1 h). rewrite upd_other by assumption. now apply E4.
Qed.

Lemma tchg_spawn g g1 b (now : bool) h :
  vsame g g1 -> heap g1 = heap g -> heap_ok g ->
  tchg g (if now then new_task g1 b h else stage g1 b) None.
Proof.
  intros Hv Eh HH. destruct now; [now apply tchg_new|].
  apply tc_same. destruct Hv as ((E1 & E2 & E3) & E4).
  split; [split; [exact E1 | split; [exact E2 | exact E3]]|]. exact E4.
Qed.

Lemma sub_step_tchg g s :
  sub_ok (ntasks g) (tw_of g) s -> tchg g (fst (sub_step g s)) (sub_lbl g s).
Proof.
  intros Hs. destruct s as [|u|u|u prev|u]; cbn [sub_step sub_lbl].
  - apply tc_same, vsame_refl.
  - (* SIssue *)
    destruct (u <? ntasks g) eqn:Eu.
    + apply Nat.ltb_lt in Eu. destruct (reg (tasks g u)) as [p|] eqn:Er; cbn [fst].
      * apply tc_issue; auto.
        -- apply frame_intro; try reflexivity. intros y Hy. cbn. now rewrite upd_other.
        -- unfold akey, tw_of. cbn. rewrite upd_same, Er. reflexivity.
      * apply tc_issue; auto.
        -- apply frame_intro; reflexivity.
        -- unfold akey, tw_of. cbn. rewrite Er. reflexivity.
    + apply Nat.ltb_ge in Eu. destruct (reg (tasks g u)) as [p|] eqn:Er; cbn [fst].
      * apply tc_same. split; [apply gsame_intro; reflexivity|].
        intros y Hy. cbn. rewrite upd_other by lia. reflexivity.
      * apply tc_same. now apply vsame_tasks.
  - (* SLoad *)
    destruct (u <? ntasks g); [|apply tc_same, vsame_refl].
    destruct (st (tw_of g u)); cbn [fst]; try apply tc_same, vsame_refl.
    apply tc_same. now apply vsame_tasks.
  - (* SCas *)
    cbn in Hs. destruct Hs as [Hu Hprev].
    destruct (word_eqb (tw_of g u) prev) eqn:Ew; cbn [andb]; [|apply tc_same, vsame_refl].
    apply word_eqb_true in Ew. subst prev.
    set (prev := tw_of g u) in *.
    assert (Hf : forall gg, tasks gg = tasks (set_word g u (w_pending prev)) -> ntasks gg = ntasks g ->
                   ninc gg = ninc g -> gid gg = gid g -> frame g gg u).
    { intros gg F1 F2 F3 F4. apply frame_intro; auto. intros y Hy. rewrite F1. cbn. now rewrite upd_other. }
    assert (Hk : forall gg, tasks gg = tasks (set_word g u (w_pending prev)) ->
                   akey (tasks gg u) = (w_pending prev, reg (tasks g u), wake (tasks g u))).
    { intros gg F1. rewrite F1. cbn. rewrite upd_same. reflexivity. }
    destruct (sst_beq (st prev) st_suspended) eqn:Es; cbn [fst].
    + apply sst_beq_true in Es.
      destruct (match wake (tasks g u) with Some p => negb (N.eqb (p + 1) (tag prev)) | None => true end);
        (apply tc_wake with (x := u); [assumption | apply Hf; reflexivity | exact Es | apply Hk; reflexivity]).
    + apply tc_boost with (x := u) (w' := w_pending prev);
        [exact Hu | apply Hf; reflexivity | apply sst_beq_false in Es; fold prev; tauto | reflexivity
        | apply Hk; reflexivity].
  - apply tc_same. now apply vsame_tasks.
Qed.

Theorem tstep_tchg o a g ls :
  SInv g ls -> heap_ok g -> tchg g (fst (tstep o a g (ls a))) (lbl_of g (ls a)).
Proof.
  intros HI HH. assert (Hpc := i_pc _ _ _ _ HI a).
  destruct (ls a) as [|t|t w0|t orig s|t orig ret|t orig ret cur|t|t prev|t|t|acts s] eqn:Ha; cbn [tstep lbl_of].
  - (* WTop *)
    destruct (ob o).
    + destruct (nth_error (pend g) (oi o)); cbn [fst]; apply tc_same; [now apply vsame_tasks | apply vsame_refl].
    + destruct (nth_error (staged g) (oi o)) as [b|] eqn:En; cbn [fst].
      * apply tchg_new; auto. now apply vsame_tasks.
      * destruct (term g); cbn [fst]; apply tc_same; [apply vsame_refl | now apply vsame_tasks].
  - apply tc_same, vsame_refl.
  - (* WLoaded *)
    destruct Hpc as [(Ht & Hw & Hp) _]. subst w0. rewrite Hp, word_eqb_refl. cbn [fst].
    apply tc_act with (x := t) (w' := {| st := st_active; tag := tag (tw_of g t) + 1 |}); auto.
    + apply frame_intro; try (destruct (sref g t); reflexivity).
      intros y Hy. destruct (sref g t); cbn; now rewrite upd_other.
    + destruct (sref g t); cbn; rewrite upd_same; reflexivity.
  - (* WRun *)
    destruct s as [|u|u|u prev|u].
    2-5: destruct Hpc as [_ Hs]; cbn [sub_of] in Hs;
         match goal with |- context [sub_step ?gg ?s] =>
           assert (H := sub_step_tchg gg s Hs); destruct (sub_step gg s) as [g' s']; exact H end.
    destruct Hpc as [(Ht & Hw & Hact) _]. subst orig.
    unfold run_act. destruct (todo (tasks g t)) as [[|ac r]|u prev|u] eqn:Etd.
    + apply tc_same, vsame_refl.
    + assert (Hv := vsame_set_todo g t (UserBody r)).
      destruct ac as [| | | |b now|u|v]; cbn [fst]; try (apply tc_same; exact Hv).
      * (* Register *)
        apply tc_reg; auto.
        -- apply frame_intro; try reflexivity. intros y Hy. cbn. now rewrite !upd_other.
        -- cbn. rewrite !upd_same. cbn. reflexivity.
      * apply tchg_spawn; auto.
    + destruct (sst_beq (st (tw_of g u)) (st prev) && negb (word_eqb (tw_of g u) prev)); cbn [fst];
        apply tc_same; [|apply vsame_set_todo].
      apply vsame_key; try reflexivity. intros y. apply (akey_set_todo g t (HelperRun u) y).
    + cbn [fst]. apply tc_same. apply vsame_rc_dec. apply vsame_set_todo.
  - apply tc_same, vsame_refl.
  - (* WStoreC *)
    destruct Hpc as [(Ht & Hw & Hact & Hr & Hcur) _]. subst cur. subst orig.
    rewrite word_eqb_refl. cbn [fst]. cbv zeta.
    assert (Hk : exists k, kind_of_ret ret = Some k) by (destruct Hr as [->|[->|[->| ->]]]; cbn; eauto).
    destruct Hk as [k Hk]. rewrite Hk.
    apply tc_store with (ret := ret); auto.
    + apply frame_intro; try (destruct (sst_beq ret st_terminated); reflexivity).
      intros y Hy. destruct (sst_beq ret st_terminated); cbn; now rewrite upd_other.
    + destruct (sst_beq ret st_terminated); cbn; rewrite upd_same; reflexivity.
  - apply tc_same, vsame_refl.
  - (* WBoostC *)
    destruct Hpc as [(Ht & Hb) _].
    destruct (word_eqb (tw_of g t) prev) eqn:Ew; cbn [fst]; [|apply tc_same, vsame_refl].
    match goal with |- tchg g (add_log (set_word g t ?w) _) _ => apply tc_boost with (x := t) (w' := w) end; auto.
    + apply frame_intro; try reflexivity. intros y Hy. cbn. now rewrite upd_other.
    + tauto.
    + cbn. rewrite upd_same. reflexivity.
  - apply tc_same. now apply vsame_tasks.
  - cbn [fst]. apply tc_same. apply vsame_rc_dec, vsame_refl.
  - (* XRun *)
    destruct s as [|u|u|u prev|u].
    2-5: destruct Hpc as [_ Hs]; cbn [sub_of] in Hs;
         match goal with |- context [sub_step ?gg ?s] =>
           assert (H := sub_step_tchg gg s Hs); destruct (sub_step gg s) as [g' s']; exact H end.
    cbn [sub_lbl].
    destruct acts as [|[| | | |b now|u|v] r]; cbn [fst]; try apply tc_same, vsame_refl.
    apply tchg_spawn; auto. apply vsame_refl.
Qed.

(* ================================================================== 4. reg / wake belong to the current activation *)
Definition jok (k : word * option N * option N) : Prop :=
  let '(w, r, wk) := k in
  (forall p, r = Some p -> st w = st_active -> tag w = p) /\
  (forall p, wk = Some p -> st w = st_active -> tag w = p) /\
  (forall p q, r = Some p -> wk = Some q -> p = q).
Definition JInv (g : G) : Prop := forall x, x < ntasks g -> jok (akey (tasks g x)).

Lemma JInv_frame g g' x k :
  JInv g -> frame g g' x -> akey (tasks g' x) = k -> jok k -> JInv g'.
Proof.
  intros HJ ((E1 & _) & Hf) Hk Hj y Hy. rewrite E1 in Hy.
  destruct (Nat.eq_dec y x) as [->|Hne]; [rewrite Hk; exact Hj | rewrite Hf; auto].
Qed.

Lemma JInv_step g g' l : JInv g -> tchg g g' l -> JInv g'.
Proof.
  intros HJ H.
  destruct H as [((E1 & _) & E4)|x w' Hx Hf Hst Hw' Hk|x w' Hx Hf Hst Hw' Hk|x ret k Hx Hf Hst Hret Hk
                 |x Hx Hf Hst Hk|x Hx Hf Hk|x Hx Hf Hst Hk|x Hx Hn Hg Hk Ho].
  - intros y Hy. rewrite E1 in Hy. rewrite E4 by assumption. now apply HJ.
  - eapply JInv_frame; eauto. repeat split; intros; discriminate.
  - eapply JInv_frame; eauto. destruct (HJ x Hx) as (J1 & J2 & J3). cbn.
    repeat split; try (intros; congruence). exact J3.
  - eapply JInv_frame; eauto. destruct (HJ x Hx) as (J1 & J2 & J3). cbn.
    repeat split; try exact J3; intros p _ Hact; cbn in Hact; subst ret; discriminate Hret.
  - eapply JInv_frame; eauto. destruct (HJ x Hx) as (J1 & J2 & J3). cbn. repeat split.
    + intros p E _. now inversion E.
    + exact J2.
    + intros p q E1 E2. inversion E1; subst p. now apply J2.
  - eapply JInv_frame; eauto. destruct (HJ x Hx) as (J1 & J2 & J3). cbn. repeat split.
    + intros; discriminate.
    + destruct (reg (tasks g x)) as [p0|]; [|exact J2]. intros p E. inversion E; subst p0. now apply J1.
    + intros; discriminate.
  - eapply JInv_frame; eauto. destruct (HJ x Hx) as (J1 & J2 & J3). cbn.
    repeat split; try exact J3; intros; discriminate.
  - intros y Hy. destruct (Nat.eq_dec y x) as [->|Hne].
    + rewrite Hk. repeat split; intros; discriminate.
    + assert (Hy0 : y < ntasks g) by (destruct Hx as [[-> E]|[_ E]]; rewrite E in Hy; lia).
      rewrite Ho by assumption. now apply HJ.
Qed.

Lemma JInv_init : JInv init_g.
Proof. intros x Hx. cbn in Hx. lia. Qed.

(* ================================================================== 5. every change of the view is a step of the machine *)
Lemma abs_task_of_key k w r wk :
  akey k = (w, r, wk) -> abs_task k = {| wmode := mode_of (st w); wreg := oflag w r; wowed := oflag w wk |}.
Proof. unfold akey, abs_task. intros H. inversion H. reflexivity. Qed.
Lemma abs_task_self k :
  abs_task k = {| wmode := mode_of (st (tw k)); wreg := oflag (tw k) (reg k); wowed := oflag (tw k) (wake k) |}.
Proof. reflexivity. Qed.
Lemma oflag_off w o : st w <> st_active -> st w <> st_suspended -> oflag w o = false.
Proof.
  intros H1 H2. destruct o as [p|]; [|reflexivity]. cbn. unfold cur_phase.
  apply sst_beq_false in H1, H2. now rewrite H1, H2.
Qed.
Lemma N_eqb_succ a b : N.eqb (a + 1) (b + 1) = N.eqb a b.
Proof. destruct (N.eqb_spec a b), (N.eqb_spec (a + 1) (b + 1)); try reflexivity; lia. Qed.
Lemma oflag_susp w o : st w = st_active -> oflag {| st := st_suspended; tag := tag w + 1 |} o = oflag w o.
Proof.
  intros H. destruct o as [p|]; [|reflexivity]. cbn. unfold cur_phase. cbn. rewrite H. cbn.
  now rewrite N_eqb_succ, orb_false_r.
Qed.
Lemma frame_abs_other g g' x :
  frame g g' x -> forall y, y < ntasks g -> y <> x -> abs_task (tasks g' y) = abs_task (tasks g y).
Proof. intros [_ Hf] y Hy Hne. apply abs_task_akey. now apply Hf. Qed.
Lemma frame_silent g g' x :
  frame g g' x -> abs_task (tasks g' x) = abs_task (tasks g x) -> forall i, wa_abs g' i = wa_abs g i.
Proof.
  intros Hf Hx. apply abs_silent; [apply Hf|]. intros y Hy.
  destruct (Nat.eq_dec y x) as [->|Hne]; [exact Hx | now apply (frame_abs_other g g' x)].
Qed.

Theorem tchg_sim g g' l :
  ginj g -> ginj g' -> (forall y, y < ntasks g -> gid g y < ninc g) -> heap_ok g -> JInv g ->
  tchg g g' l ->
  match l with
  | None => forall i, wa_abs g' i = wa_abs g i
  | Some l => wa_step l (wa_abs g) (wa_abs g')
  end.
Proof.
  intros Hi Hi' Hlt HH HJ H.
  destruct H as [(Hs & E4)|x w' Hx Hf Hst Hw' Hk|x w' Hx Hf Hst Hw' Hk|x ret k Hx Hf Hst Hret Hk
                 |x Hx Hf Hst Hk|x Hx Hf Hk|x Hx Hf Hst Hk|x Hx Hn Hg Hk Ho].
  - apply abs_silent; [exact Hs|]. intros y Hy. apply abs_task_akey. now apply E4.
  - apply (frame_silent g g' x Hf). rewrite (abs_task_of_key _ _ _ _ Hk), abs_task_self.
    unfold tw_of in Hst. rewrite Hst, Hw'. cbn. rewrite !oflag_off by (rewrite Hst; discriminate). reflexivity.
  - apply (frame_silent g g' x Hf). rewrite (abs_task_of_key _ _ _ _ Hk), abs_task_self.
    unfold tw_of in Hst. rewrite Hw'.
    rewrite !(oflag_off w') by (rewrite Hw'; discriminate).
    rewrite !(oflag_off (tw (tasks g x))) by (destruct Hst as [E|E]; rewrite E; discriminate).
    destruct Hst as [E|E]; rewrite E; reflexivity.
  - (* the store that ends a phase *)
    apply abs_visible; auto; [apply Hf | apply (frame_abs_other g g' x Hf) |].
    rewrite (abs_task_of_key _ _ _ _ Hk), abs_task_self. unfold tw_of in *. unfold wa_tstep. rewrite Hst. cbn.
    destruct ret; try discriminate Hret; inversion Hret; subst k; cbn.
    + rewrite !oflag_off by (cbn; discriminate). reflexivity.
    + rewrite !oflag_susp by assumption. reflexivity.
    + rewrite !oflag_off by (cbn; discriminate). reflexivity.
    + rewrite !oflag_off by (cbn; discriminate). reflexivity.
  - (* Register *)
    apply abs_visible; auto; [apply Hf | apply (frame_abs_other g g' x Hf) |].
    rewrite (abs_task_of_key _ _ _ _ Hk), abs_task_self. unfold tw_of in *. unfold wa_tstep. rewrite Hst. cbn.
    unfold cur_phase. rewrite Hst, N.eqb_refl. reflexivity.
  - (* the waker pops the entry *)
    apply abs_visible; auto; [apply Hf | apply (frame_abs_other g g' x Hf) |].
    rewrite (abs_task_of_key _ _ _ _ Hk), abs_task_self. unfold tw_of in *. unfold wa_tstep. cbn [wmode wreg wowed].
    destruct (HJ x Hx) as (_ & _ & J3). cbn in J3.
    destruct (reg (tasks g x)) as [p|] eqn:Er; cbn [oflag].
    + destruct (wake (tasks g x)) as [q|] eqn:Ewk; cbn [oflag].
      * rewrite (J3 p q eq_refl eq_refl). now rewrite orb_diag.
      * reflexivity.
    + now rewrite orb_false_r.
  - (* the suspended -> pending CAS *)
    apply abs_visible; auto; [apply Hf | apply (frame_abs_other g g' x Hf) |].
    rewrite (abs_task_of_key _ _ _ _ Hk), abs_task_self. unfold tw_of in *. unfold wa_tstep. rewrite Hst. cbn.
    rewrite !oflag_off by (cbn; discriminate). reflexivity.
  - (* a thread object is created or rebound *)
    apply abs_new with (x := x); auto.
    + destruct Hx as [Hx|[Hin E]]; [left; exact Hx | right].
      destruct (HH x Hin) as [H1 H2]. auto.
    + rewrite (abs_task_of_key _ _ _ _ Hk). reflexivity.
    + intros y Hy Hne. apply abs_task_akey. now apply Ho.
Qed.

(* ================================================================== 6. reachable configurations; the theorems *)
Definition SimInv (g : G) (ls : nat -> pc) : Prop := AllInv g ls /\ JInv g.

Lemma SimInv_step o a g ls :
  SimInv g ls -> SimInv (fst (tstep o a g (ls a))) (upd ls a (snd (tstep o a g (ls a)))).
Proof.
  intros [HA HJ]. split; [now apply AllInv_step|].
  destruct HA as (H1 & _ & _ & H5). eapply JInv_step; [exact HJ|].
  apply tstep_tchg; [exact H1 | eapply heap_ok_of; eauto].
Qed.
Lemma SimInv_init ext : SimInv init_g (init_ls ext).
Proof. split; [exact (AllInv_reach [] ext) | exact JInv_init]. Qed.
Theorem SimInv_reach sched ext : SimInv (fst (sched_run sched ext)) (snd (sched_run sched ext)).
Proof.
  unfold sched_run. apply (run_inv _ _ _ tstep SimInv).
  - intros o t g ls H. now apply SimInv_step.
  - apply SimInv_init.
Qed.

(* the simulation, one step: zero or one step of the weak agent machine *)
Theorem step_sim o a g ls :
  SimInv g ls ->
  match lbl_of g (ls a) with
  | None => forall i, wa_abs (fst (tstep o a g (ls a))) i = wa_abs g i
  | Some l => wa_step l (wa_abs g) (wa_abs (fst (tstep o a g (ls a))))
  end.
Proof.
  intros HS. assert (HS' := SimInv_step o a g ls HS).
  destruct HS as [(H1 & H2 & H3 & H5) HJ]. destruct HS' as [(_ & H2' & _) _].
  assert (HH : heap_ok g) by (eapply heap_ok_of; eauto).
  apply tchg_sim; [exact (l_inj _ H2) | exact (l_inj _ H2') | exact (l_gid _ H2) | exact HH | exact HJ |].
  now apply tstep_tchg.
Qed.

Lemma trace_sim s : forall c, SimInv (fst c) (snd c) ->
  wa_run (trace_from s c) (wa_abs (fst c)) (wa_abs (fst (run tstep s c))).
Proof.
  induction s as [|[a o] s IH]; intros [g ls] HS; cbn [trace_from].
  - constructor. reflexivity.
  - rewrite run_cons. cbn [fst snd] in *.
    assert (Hstep := step_sim o a g ls HS). assert (HS' := SimInv_step o a g ls HS).
    unfold step. cbn [fst snd]. destruct (tstep o a g (ls a)) as [g' l'] eqn:Et. cbn [fst snd] in *.
    specialize (IH (g', upd ls a l') HS'). cbn [fst snd] in IH.
    destruct (lbl_of g (ls a)) as [l|]; cbn [olist app].
    + econstructor; [exact Hstep | exact IH].
    + eapply wa_run_ext_l; [|exact IH]. exact Hstep.
Qed.

(* the simulation, whole runs: the projection of every run of the scheduler model on the labels
   is a run of the weak agent machine that ends in the abstraction of the final configuration *)
Theorem sched_refines_weak_agent sched ext :
  wa_run (sched_trace sched ext) wa_init (wa_abs (fst (sched_run sched ext))).
Proof.
  unfold sched_trace, sched_run.
  eapply wa_run_ext_l; [|apply (trace_sim sched (init_g, init_ls ext)); apply SimInv_init].
  intros i. reflexivity.
Qed.

Lemma cur_phase_true w p : cur_phase w p = true -> w = wA p \/ w = wS (p + 1).
Proof.
  unfold cur_phase. intros H. apply orb_true_iff in H.
  destruct H as [H|H]; apply andb_true_iff in H; destruct H as [H1 H2];
    apply sst_beq_true in H1; apply N.eqb_eq in H2; [left|right]; now apply word_ext.
Qed.

(* a stuck configuration of the scheduler model is abstracted to a configuration in which the
   weak agent machine may stop: no blocked task is owed a wake-up (this is C02_no_lost_wakeup) *)
Theorem sched_abs_stuck sched ext w :
  ext w = None -> let c := sched_run sched ext in stuck c -> wa_stuck (wa_abs (fst c)).
Proof.
  intros Hw c Hst [k i] (Hk & Hm & Ho). cbn [fst snd] in *. unfold wa_abs in Hm, Ho.
  destruct (obj_of (fst c) i) as [x|] eqn:E.
  - apply obj_of_some in E. destruct E as [Hx _]. cbn in Ho.
    destruct (wake (tasks (fst c) x)) as [p|] eqn:Ewk; [|discriminate]. cbn in Ho.
    apply cur_phase_true in Ho.
    destruct (no_lost_wakeup sched ext w Hw Hst x p Hx Ewk) as [N1 N2]. unfold tw_of in *.
    destruct Ho; contradiction.
  - destruct (i <? ninc (fst c)); discriminate Hm.
Qed.

(* the same on observable events only: in no stuck configuration is there a task incarnation
   whose event sequence ends with  Reg .. Res .. (Susp somewhere after the Reg)  and no Wake *)
Theorem sched_no_lost_resume_trace sched ext w :
  ext w = None -> stuck (sched_run sched ext) ->
  forall i, ~ lost_pattern (wa_proj i (sched_trace sched ext)).
Proof.
  intros Hw Hst i Hl. assert (Hr := sched_refines_weak_agent sched ext).
  apply wa_run_proj with (t := i) in Hr.
  destruct (lost_pattern_owed _ _ _ Hl Hr) as [Hm Ho].
  apply (sched_abs_stuck sched ext w Hw Hst (KWake, i)). repeat split; auto.
Qed.

(* ================================================================== 7. W2 on traces, tightness:
   wowed is set ONLY by a Res that follows a Reg of the same phase *)
Lemma wa_replay_snoc p k s :
  wa_replay (p ++ [k]) s = match wa_replay p s with Some s1 => wa_tstep k s1 | None => None end.
Proof.
  rewrite wa_replay_app. destruct (wa_replay p s) as [s1|]; [|reflexivity].
  cbn. destruct (wa_tstep k s1); reflexivity.
Qed.
Lemma no_end_snoc l k : no_end l -> phase_end k = false -> no_end (l ++ [k]).
Proof.
  intros H Hk x Hx. apply in_app_or in Hx. destruct Hx as [Hx|[<-|[]]]; [now apply H | exact Hk].
Qed.
Lemma snoc3 (p1 p2 p3 : list wa_kind) k :
  (p1 ++ KReg :: p2 ++ KRes :: p3) ++ [k] = p1 ++ KReg :: p2 ++ KRes :: (p3 ++ [k]).
Proof. rewrite <- app_assoc. cbn. rewrite <- app_assoc. reflexivity. Qed.
Lemma snoc2 (p1 p2 : list wa_kind) k : (p1 ++ KReg :: p2) ++ [k] = p1 ++ KReg :: (p2 ++ [k]).
Proof. rewrite <- app_assoc. reflexivity. Qed.

Definition reg_pat (p : list wa_kind) (s : wa_task) : Prop :=
  exists p1 p2, p = p1 ++ KReg :: p2 /\ no_end p2 /\ (wmode s = MBlk -> In KSusp p2).
Definition owed_pat (p : list wa_kind) (s : wa_task) : Prop :=
  exists p1 p2 p3, p = p1 ++ KReg :: p2 ++ KRes :: p3 /\ no_end (p2 ++ p3) /\ (wmode s = MBlk -> In KSusp (p2 ++ p3)).

Lemma owed_pattern p : forall s, wa_replay p wa_init_task = Some s ->
  (wreg s = true -> reg_pat p s) /\ (wowed s = true -> owed_pat p s).
Proof.
  induction p as [|k p IH] using rev_ind; intros s Hr.
  - cbn in Hr. inversion Hr; subst. split; intros H; discriminate H.
  - rewrite wa_replay_snoc in Hr. destruct (wa_replay p wa_init_task) as [s1|] eqn:E1; [|discriminate].
    destruct (IH s1 eq_refl) as [A B]. clear IH.
    assert (Hreg : forall m, phase_end k = false -> (m = MBlk -> wmode s1 = MBlk \/ k = KSusp) ->
              wreg s1 = true -> reg_pat (p ++ [k]) {| wmode := m; wreg := true; wowed := wowed s1 |}).
    { intros m Hk Hm H. destruct (A H) as (p1 & p2 & -> & Hn & Hs). exists p1, (p2 ++ [k]).
      split; [apply snoc2|]. split; [now apply no_end_snoc|]. cbn. intros Em.
      apply in_or_app. destruct (Hm Em) as [Hb| ->]; [left; now apply Hs | right; now left]. }
    assert (Howed : forall m r, phase_end k = false -> (m = MBlk -> wmode s1 = MBlk \/ k = KSusp) ->
              wowed s1 = true -> owed_pat (p ++ [k]) {| wmode := m; wreg := r; wowed := true |}).
    { intros m r Hk Hm H. destruct (B H) as (p1 & p2 & p3 & -> & Hn & Hs). exists p1, p2, (p3 ++ [k]).
      split; [apply snoc3|]. rewrite app_assoc. split; [now apply no_end_snoc|]. cbn. intros Em.
      apply in_or_app. destruct (Hm Em) as [Hb| ->]; [left; now apply Hs | right; now left]. }
    unfold wa_tstep in Hr.
    destruct k; destruct (wmode s1) eqn:Em; try discriminate Hr; inversion Hr; subst s; clear Hr;
      cbn [wreg wowed wa_fresh]; split; intros H; try discriminate H.
    + (* Reg: a fresh registration *)
      exists p, []. split; [reflexivity|]. split; [intros x []|]. cbn. discriminate.
    + rewrite H. apply Howed; auto; discriminate.
    + (* Susp *)
      rewrite H. apply Hreg; auto.
    + rewrite H. apply Howed; auto.
    + (* Res, running *)
      apply orb_true_iff in H. rewrite (proj2 (orb_true_iff _ _) H).
      destruct (wowed s1) eqn:Eo; [apply Howed; auto; discriminate|].
      destruct H as [H|H]; [discriminate|].
      destruct (A H) as (p1 & p2 & -> & Hn & Hs). exists p1, p2, []. rewrite app_nil_r.
      split; [rewrite <- app_assoc; reflexivity|]. split; [exact Hn|]. cbn. discriminate.
    + (* Res, blocked *)
      apply orb_true_iff in H. rewrite (proj2 (orb_true_iff _ _) H).
      destruct (wowed s1) eqn:Eo; [apply Howed; auto|].
      destruct H as [H|H]; [discriminate|].
      destruct (A H) as (p1 & p2 & -> & Hn & Hs). exists p1, p2, []. rewrite app_nil_r.
      split; [rewrite <- app_assoc; reflexivity|]. split; [exact Hn|]. cbn. intros _. now apply Hs.
    + (* Res, terminated *)
      apply orb_true_iff in H. rewrite (proj2 (orb_true_iff _ _) H).
      destruct (wowed s1) eqn:Eo; [apply Howed; auto; discriminate|].
      destruct H as [H|H]; [discriminate|].
      destruct (A H) as (p1 & p2 & -> & Hn & Hs). exists p1, p2, []. rewrite app_nil_r.
      split; [rewrite <- app_assoc; reflexivity|]. split; [exact Hn|]. cbn. discriminate.
Qed.

(* W2 on traces, both directions: blocked-and-owed is exactly the pattern *)
Theorem lost_pattern_iff p s :
  wa_replay p wa_init_task = Some s -> (lost_pattern p <-> wmode s = MBlk /\ wowed s = true).
Proof.
  intros Hr. split; [intros H; eapply lost_pattern_owed; eauto|].
  intros [Hm Ho]. destruct (owed_pattern p s Hr) as [_ B].
  destruct (B Ho) as (p1 & p2 & p3 & E & Hn & Hs). exists p1, p2, p3. auto.
Qed.

(* the weak agent machine: never a lost resume *)
Theorem weak_agent_no_lost_resume tr c :
  wa_run tr wa_init c ->
  (forall t, lost_pattern (wa_proj t tr) <-> wa_must (KWake, t) c) /\
  (forall l, wa_must l c -> exists c', wa_step l c c') /\
  (wa_stuck c -> forall t, ~ lost_pattern (wa_proj t tr)).
Proof.
  intros Hr.
  assert (H1 : forall t, lost_pattern (wa_proj t tr) <-> wa_must (KWake, t) c).
  { intros t. assert (Ht := wa_run_proj tr wa_init c Hr t). rewrite (lost_pattern_iff _ _ Ht).
    unfold wa_must. cbn. tauto. }
  split; [exact H1|]. split; [intros l; apply wa_must_enabled|].
  intros Hs t Hl. apply (Hs (KWake, t)). now apply H1.
Qed.

(* ================================================================== 8. Base/Agent.v in the machine *)
Theorem agent_interface_is_weak_agent op s :
  ag_pre op s -> ag_wf s ->
  ag (ag_step op s) = ag_fun op (ag s) /\
  wa_replay (ag_kinds op s) (ag_abs s) = Some (ag_abs (ag_step op s)) /\
  ag_wf (ag_step op s) /\
  (ag_w2 s -> ag_w2 (ag_step op s)).
Proof.
  destruct s as [[tk bl] r o].
  unfold ag_pre, ag_wf, ag_w2, ag_abs, ag_step, ag_kinds, ag_fun, a_suspend, a_resume, a_phase_end.
  cbn [ag greg gowed tok blocked].
  destruct op, bl, tk; cbn; intros Hp Hwf; intuition congruence.
Qed.

(* the shapes in which the models write these operations *)
Lemma stale_token_is_resume a : blocked a = false -> {| tok := true; blocked := false |} = a_resume a.
Proof. intros H. unfold a_resume. now rewrite H. Qed.
Lemma wake_blocked_is_resume a : blocked a = true -> {| tok := false; blocked := false |} = a_resume a.
Proof. intros H. unfold a_resume. now rewrite H. Qed.

Theorem agent_runs_weak_agent ops s ks :
  ag_runs ops ag_init s ks ->
  wa_replay ks wa_init_task = Some (ag_abs s) /\ ag_w2 s /\
  ~ (blocked (ag s) = true /\ gowed s = true) /\ ~ lost_pattern ks.
Proof.
  intros H.
  assert (G : forall ops s0 s ks, ag_runs ops s0 s ks -> ag_wf s0 ->
            wa_replay ks (ag_abs s0) = Some (ag_abs s) /\ (ag_w2 s0 -> ag_w2 s)).
  { clear. induction 1 as [s|op ops s s' ks Hp _ IH]; intros Hwf; [split; [reflexivity | auto]|].
    destruct (agent_interface_is_weak_agent op s Hp Hwf) as (_ & A1 & A2 & A3).
    destruct (IH A2) as [IH1 IH2].
    split; [rewrite wa_replay_app, A1; exact IH1 | auto]. }
  destruct (G _ _ _ _ H) as [G1 G2]; [intros E; discriminate E|].
  change (ag_abs ag_init) with wa_init_task in G1.
  assert (W : ag_w2 s) by (apply G2; intros E; discriminate E).
  assert (NB : ~ (blocked (ag s) = true /\ gowed s = true)).
  { intros [B O]. destruct (W O) as [B' _]. congruence. }
  split; [exact G1|]. split; [exact W|]. split; [exact NB|].
  intros Hl. destruct (lost_pattern_owed _ _ _ Hl G1) as [Hm Ho]. apply NB. cbn in Hm, Ho.
  split; [destruct (blocked (ag s)); [reflexivity | discriminate Hm] | exact Ho].
Qed.

(* ================================================================== 9. statements for Props/Properties_C02.v *)
Theorem sched_refines_weak_agent_full sched ext :
  let c := sched_run sched ext in
  wa_run (sched_trace sched ext) wa_init (wa_abs (fst c)) /\
  (forall a o,
     match lbl_of (fst c) (snd c a) with
     | None => forall i, wa_abs (fst (tstep o a (fst c) (snd c a))) i = wa_abs (fst c) i
     | Some l => wa_step l (wa_abs (fst c)) (wa_abs (fst (tstep o a (fst c) (snd c a))))
     end).
Proof.
  intros c. split; [apply sched_refines_weak_agent|].
  intros a o. apply step_sim. apply SimInv_reach.
Qed.

(* per incarnation: its projected event sequence replays in the machine from the initial state
   to the abstraction of its current state *)
Theorem sched_incarnation_replay sched ext i :
  wa_replay (wa_proj i (sched_trace sched ext)) wa_init_task = Some (wa_abs (fst (sched_run sched ext)) i).
Proof. exact (wa_run_proj _ _ _ (sched_refines_weak_agent sched ext) i). Qed.

Theorem sched_no_lost_resume sched ext w :
  ext w = None -> let c := sched_run sched ext in stuck c ->
  wa_stuck (wa_abs (fst c)) /\ forall i, ~ lost_pattern (wa_proj i (sched_trace sched ext)).
Proof.
  intros Hw c Hst. split; [now apply (sched_abs_stuck sched ext w) | now apply (sched_no_lost_resume_trace sched ext w)].
Qed.

(* ------------------------------------------------------------------ a concrete run (non-vacuity):
   thread 0 is an OS thread that submits T = [Register; Suspend; Suspend] and resumes it twice;
   threads 1, 2 are workers *)
Definition wx_ext : nat -> option (list act) :=
  fun i => match i with 0 => Some [Spawn [Register; Suspend; Suspend] true; Resume 0; Resume 0] | _ => None end.
Definition wx_rep (n : nat) (x : nat * oracle) : list (nat * oracle) := map (fun _ => x) (seq 0 n).
Definition wx_sched : list (nat * oracle) :=
  [(0, oP)] ++ wx_rep 4 (1, oP)        (* T created; worker 1 runs it: Register *)
  ++ wx_rep 3 (0, oP)                  (* Resume 0: entry popped (Res: owed), T found active: helper staged *)
  ++ wx_rep 4 (1, oP)                  (* T suspends *)
  ++ [(2, oC)] ++ wx_rep 8 (2, oP)     (* the helper wakes T: the owed Wake (6th of these steps) *)
  ++ wx_rep 3 (1, oP)                  (* T runs again *)
  ++ wx_rep 3 (0, oP)                  (* Resume 0: T is not registered: nothing is owed; helper staged *)
  ++ wx_rep 4 (1, oP)                  (* T suspends again *)
  ++ wx_rep 5 (2, oP)                  (* the first helper terminates *)
  ++ [(2, oC)] ++ wx_rep 8 (2, oP).    (* the second helper wakes T: a spurious Wake *)
