(* Proofs/BulkChunkCalls.v — C11: the end-to-end acceptor [chunk_calls] (the number of calls of f a
   worker makes for one chunk whose index range starts at i and has [fuel] indices, and whether one of
   them threw) characterised for every throwing predicate, start, length and accumulator:
     - nothing throws in the range      -> all [fuel] indices are called, no throw;
     - x is the first throwing index    -> exactly the indices i..x are called (x - i + 1 calls), throw;
   and its agreement with the generic-bulk loop [gen_loop] of bulk.hpp on the same range. *)
From Coq Require Import List NArith Lia Bool Arith.
From Pika Require Import Base.Conc Model.IndexQueue Model.Bulk.
Import ListNotations.
Local Open Scope N_scope.

Lemma chunk_calls_nothrow throws : forall fuel i acc,
  (forall j, i <= j -> j < i + N.of_nat fuel -> throws j = false) ->
  chunk_calls throws i fuel acc = (acc + N.of_nat fuel, false).
Proof.
  induction fuel as [|f IH]; intros i acc Hno; cbn [chunk_calls].
  - f_equal. cbn. lia.
  - rewrite (Hno i) by lia.
    rewrite IH.
    + f_equal. lia.
    + intros j H1 H2. apply Hno; lia.
Qed.

Lemma chunk_calls_first_throw throws : forall fuel i acc x,
  i <= x -> x < i + N.of_nat fuel -> throws x = true ->
  (forall j, i <= j -> j < x -> throws j = false) ->
  chunk_calls throws i fuel acc = (acc + (x - i) + 1, true).
Proof.
  induction fuel as [|f IH]; intros i acc x Hle Hlt Hx Hno; cbn [chunk_calls].
  - cbn in Hlt. lia.
  - destruct (N.eq_dec x i) as [->|Hne].
    + rewrite Hx. f_equal. lia.
    + rewrite (Hno i) by lia.
      rewrite (IH (i + 1) (acc + 1) x).
      * f_equal. lia.
      * lia.
      * lia.
      * exact Hx.
      * intros j H1 H2. apply Hno; lia.
Qed.

(* the two cases are exhaustive: either nothing in the range throws or there is a first throwing index *)
Lemma first_throw_dec throws : forall fuel i,
  (forall j, i <= j -> j < i + N.of_nat fuel -> throws j = false) \/
  (exists x, i <= x /\ x < i + N.of_nat fuel /\ throws x = true /\
             forall j, i <= j -> j < x -> throws j = false).
Proof.
  induction fuel as [|f IH]; intros i.
  - left. intros j H1 H2. cbn in H2. lia.
  - destruct (throws i) eqn:Hi.
    + right. exists i. repeat split; try lia; try exact Hi.
    + destruct (IH (i + 1)) as [Hno|[x [H1 [H2 [H3 H4]]]]].
      * left. intros j Hj1 Hj2. destruct (N.eq_dec j i) as [->|Hne]; [exact Hi|]. apply Hno; lia.
      * right. exists x. repeat split; try lia; try exact H3.
        intros j Hj1 Hj2. destruct (N.eq_dec j i) as [->|Hne]; [exact Hi|]. apply H4; lia.
Qed.

(* consequences that need no case distinction *)
Lemma chunk_calls_bounds throws fuel i acc :
  let r := chunk_calls throws i fuel acc in
  acc <= fst r /\ fst r <= acc + N.of_nat fuel /\
  (snd r = false -> fst r = acc + N.of_nat fuel) /\
  (snd r = true -> (0 < fuel)%nat /\ acc + 1 <= fst r /\ throws (i + (fst r - acc) - 1) = true).
Proof.
  cbn zeta. destruct (first_throw_dec throws fuel i) as [Hno|[x [H1 [H2 [H3 H4]]]]].
  - rewrite (chunk_calls_nothrow throws fuel i acc Hno). cbn [fst snd].
    repeat split; try lia; discriminate.
  - rewrite (chunk_calls_first_throw throws fuel i acc x H1 H2 H3 H4). cbn [fst snd].
    repeat split; try lia; try discriminate.
    replace (i + (acc + (x - i) + 1 - acc) - 1) with x by lia. exact H3.
Qed.

Lemma chunk_calls_threw_iff throws fuel i acc :
  snd (chunk_calls throws i fuel acc) = true <->
  exists x, i <= x /\ x < i + N.of_nat fuel /\ throws x = true.
Proof.
  destruct (first_throw_dec throws fuel i) as [Hno|[x [H1 [H2 [H3 H4]]]]].
  - rewrite (chunk_calls_nothrow throws fuel i acc Hno). cbn [snd]. split; [discriminate|].
    intros [x [H1 [H2 H3]]]. rewrite (Hno x H1 H2) in H3. discriminate.
  - rewrite (chunk_calls_first_throw throws fuel i acc x H1 H2 H3 H4). cbn [snd]. split; [|reflexivity].
    intros _. exists x. auto.
Qed.

(* agreement with the generic-bulk loop of bulk.hpp run on the same index range: the same number of
   calls, and a throw exactly when the loop ends with an error *)
Lemma gen_loop_chunk_calls throws : forall fuel i acc,
  N.of_nat (length (fst (gen_loop throws i fuel acc))) =
    fst (chunk_calls throws i fuel (N.of_nat (length acc))) /\
  (match snd (gen_loop throws i fuel acc) with Some _ => true | None => false end) =
    snd (chunk_calls throws i fuel (N.of_nat (length acc))).
Proof.
  induction fuel as [|f IH]; intros i acc; cbn [gen_loop chunk_calls].
  - cbn [fst snd]. now rewrite rev_length.
  - destruct (throws i); cbn [fst snd].
    + rewrite rev_length. cbn [length]. split; [lia|reflexivity].
    + destruct (IH (i + 1) (i :: acc)) as [E1 E2]. cbn [length] in E1, E2.
      replace (N.of_nat (length acc) + 1) with (N.of_nat (S (length acc))) by lia. auto.
Qed.

(* the error index of the generic loop is the first throwing index; the calls are i, i+1, ... in order *)
Lemma gen_loop_calls throws : forall fuel i acc,
  exists k, (k <= fuel)%nat /\
    fst (gen_loop throws i fuel acc) = rev acc ++ map (fun d => i + N.of_nat d) (seq 0 k).
Proof.
  induction fuel as [|f IH]; intros i acc; cbn [gen_loop].
  - exists 0%nat. cbn. split; [lia|now rewrite app_nil_r].
  - destruct (throws i); cbn [fst].
    + exists 1%nat. cbn. split; [lia|]. now rewrite N.add_0_r.
    + destruct (IH (i + 1) (i :: acc)) as [k [Hk E]]. exists (S k). split; [lia|].
      rewrite E. cbn [rev seq map]. rewrite <- app_assoc. cbn [app]. rewrite N.add_0_r.
      do 2 f_equal. rewrite <- seq_shift, map_map. apply map_ext. intros d. lia.
Qed.

(* ------------------------------------------------------------------------------------------------
   Tie of the acceptor to the model's step function: a worker that stands at the loop head of
   do_work_chunk ([BRun off idx i e], e = i + fuel, no wrap-around: e < 2^bits) and takes
   2 * (number of calls predicted by [chunk_calls]) of its own steps has entered f exactly that many
   times, for exactly the indices i, i+1, ..., and stands at the exception exchange with the first
   throwing index iff [chunk_calls] reports a throw, else back at the loop head with i = e. *)
Lemma chunk_calls_acc throws : forall fuel i acc,
  chunk_calls throws i fuel acc =
    (acc + fst (chunk_calls throws i fuel 0), snd (chunk_calls throws i fuel 0)).
Proof.
  induction fuel as [|f IH]; intros i acc; cbn [chunk_calls].
  - cbn [fst snd]. f_equal. lia.
  - destruct (throws i); cbn [fst snd].
    + reflexivity.
    + rewrite (IH (i + 1) (acc + 1)), (IH (i + 1) (0 + 1)). cbn [fst snd]. f_equal. lia.
Qed.

Fixpoint solo (cf : cfg) (t : nat) (n : nat) (c : bshared * bpc) : bshared * bpc :=
  match n with
  | O => c
  | S m => solo cf t m (bstep cf false t (fst c) (snd c))
  end.

Lemma solo_chunk cf t off idx : forall fuel i e g,
  e = i + N.of_nat fuel -> e < 2 ^ cbits cf ->
  let r := chunk_calls (cthrows cf) i fuel 0 in
  let k := N.to_nat (fst r) in
  let c' := solo cf t (2 * k) (g, BRun off idx i e) in
  map fst (calls (fst c')) = rev (map (fun d => i + N.of_nat d) (seq 0 k)) ++ map fst (calls g) /\
  snd c' = (if snd r then BExch (i + fst r - 1) else BRun off idx e e) /\
  sigs (fst c') = sigs g /\ remaining (fst c') = remaining g /\ queues (fst c') = queues g.
Proof.
  induction fuel as [|f IH]; intros i e g He Hlt.
  - cbn. replace e with i by (cbn in He; lia). auto.
  - cbn zeta. cbn [chunk_calls]. destruct (cthrows cf i) eqn:Hthr.
    + (* f(i) throws: one call, then the exchange *)
      cbn [fst snd]. change (N.to_nat (0 + 1)) with 1%nat. cbn [Nat.mul Nat.add solo fst snd bstep].
      assert (Hie : (i <? e) = true) by (apply N.ltb_lt; lia). rewrite Hie. cbn [fst snd bstep].
      rewrite Hthr. cbn [fst snd calls sigs remaining queues seq map rev app].
      rewrite N.add_0_r. replace (i + (0 + 1) - 1) with i by lia. auto.
    + (* f(i) returns: two steps, then the rest of the chunk from i + 1 *)
      rewrite chunk_calls_acc. cbn [fst snd].
      set (r := chunk_calls (cthrows cf) (i + 1) f 0) in *.
      replace (N.to_nat (0 + 1 + fst r)) with (S (N.to_nat (fst r))) by lia.
      replace (2 * S (N.to_nat (fst r)))%nat with (S (S (2 * N.to_nat (fst r)))) by lia.
      cbn [solo fst snd bstep].
      assert (Hie : (i <? e) = true) by (apply N.ltb_lt; lia). rewrite Hie. cbn [fst snd bstep].
      rewrite Hthr.
      assert (Hw : wrap (cbits cf) (i + 1) = i + 1) by (unfold wrap; apply N.mod_small; lia).
      rewrite Hw.
      match goal with |- context [solo cf t _ (?g1, BRun off idx (i + 1) e)] =>
        destruct (IH (i + 1) e g1 ltac:(lia) Hlt) as [H1 [H2 [H3 [H4 H5]]]] end.
      fold r in H1, H2. cbn [fst] in H1, H2, H3, H4, H5 |- *.
      split; [|split; [|split; [|split]]].
      * rewrite H1. cbn [calls map fst seq rev]. rewrite N.add_0_r.
        rewrite <- seq_shift, map_map, <- app_assoc. cbn [app]. f_equal.
        f_equal. apply map_ext. intros d. lia.
      * rewrite H2. destruct (snd r); [|reflexivity]. f_equal. lia.
      * exact H3.
      * exact H4.
      * exact H5.
Qed.
