(* Proofs/BulkChunkCalls.v — C11: the end-to-end acceptor [chunk_calls] (the number of calls of f a
   worker makes for one chunk whose index range starts at i and has [fuel] indices, and whether one of
   them threw) characterised for every throwing predicate, start, length and accumulator:
     - nothing throws in the range      -> all [fuel] indices are called, no throw;
     - x is the first throwing index    -> exactly the indices i..x are called (x - i + 1 calls), throw;
   and its agreement with the generic-bulk loop [gen_loop] of bulk.hpp on the same range. *)
From Coq Require Import List NArith Lia Bool Arith.
From Pika Require Import Base.Conc Model.IndexQueue Model.Bulk.
Import ListNotations.
Local Open Scope N_scope.

Lemma chunk_calls_nothrow throws : forall fuel i acc,
  (forall j, i <= j -> j < i + N.of_nat fuel -> throws j = false) ->
  chunk_calls throws i fuel acc = (acc + N.of_nat fuel, false).
Proof.
  induction fuel as [|f IH]; intros i acc Hno; cbn [chunk_calls].
  - f_equal. cbn. lia.
  - rewrite (Hno i) by lia.
    rewrite IH.
    + f_equal. lia.
    + intros j H1 H2. apply Hno; lia.
Qed.

Lemma chunk_calls_first_throw throws : forall fuel i acc x,
  i <= x -> x < i + N.of_nat fuel -> throws x = true ->
  (forall j, i <= j -> j < x -> throws j = false) ->
  chunk_calls throws i fuel acc = (acc + (x - i) + 1, true).
Proof.
  induction fuel as [|f IH]; intros i acc x Hle Hlt Hx Hno; cbn [chunk_calls].
  - cbn in Hlt. lia.
  - destruct (N.eq_dec x i) as [->|Hne].
    + rewrite Hx. f_equal. lia.
    + rewrite (Hno i) by lia.
      rewrite (IH (i + 1) (acc + 1) x).
      * f_equal. lia.
      * lia.
      * lia.
      * exact Hx.
      * intros j H1 H2. apply Hno; lia.
Qed.

(* the two cases are exhaustive: either nothing in the range throws or there is a first throwing index *)
Lemma first_throw_dec throws : forall fuel i,
  (forall j, i <= j -> j < i + N.of_nat fuel -> throws j = false) \/
  (exists x, i <= x /\ x < i + N.of_nat fuel /\ throws x = true /\
             forall j, i <= j -> j < x -> throws j = false).
Proof.
  induction fuel as [|f IH]; intros i.
  - left. intros j H1 H2. cbn in H2. lia.
  - destruct (throws i) eqn:Hi.
    + right. exists i. repeat split; try lia; try exact Hi.
    + destruct (IH (i + 1)) as [Hno|[x [H1 [H2 [H3 H4]]]]].
      * left. intros j Hj1 Hj2. destruct (N.eq_dec j i) as [->|Hne]; [exact Hi|]. apply Hno; lia.
      * right. exists x. repeat split; try lia; try exact H3.
        intros j Hj1 Hj2. destruct (N.eq_dec j i) as [->|Hne]; [exact Hi|]. apply H4; lia.
Qed.

(* consequences that need no case distinction *)
Lemma chunk_calls_bounds throws fuel i acc :
  let r := chunk_calls throws i fuel acc in
  acc <= fst r /\ fst r <= acc + N.of_nat fuel /\
  (snd r = false -> fst r = acc + N.of_nat fuel) /\
  (snd r = true -> (0 < fuel)%nat /\ acc + 1 <= fst r /\ throws (i + (fst r - acc) - 1) = true).
Proof.
  cbn zeta. destruct (first_throw_dec throws fuel i) as [Hno|[x [H1 [H2 [H3 H4]]]]].
  - rewrite (chunk_calls_nothrow throws fuel i acc Hno). cbn [fst snd].
    repeat split; try lia; discriminate.
  - rewrite (chunk_calls_first_throw throws fuel i acc x H1 H2 H3 H4). cbn [fst snd].
    repeat split; try lia; try discriminate.
    replace (i + (acc + (x - i) + 1 - acc) - 1) with x by lia. exact H3.
Qed.

Lemma chunk_calls_threw_iff throws fuel i acc :
  snd (chunk_calls throws i fuel acc) = true <->
  exists x, i <= x /\ x < i + N.of_nat fuel /\ throws x = true.
Proof.
  destruct (first_throw_dec throws fuel i) as [Hno|[x [H1 [H2 [H3 H4]]]]].
  - rewrite (chunk_calls_nothrow throws fuel i acc Hno). cbn [snd]. split; [discriminate|].
    intros [x [H1 [H2 H3]]]. rewrite (Hno x H1 H2) in H3. discriminate.
  - rewrite (chunk_calls_first_throw throws fuel i acc x H1 H2 H3 H4). cbn [snd]. split; [|reflexivity].
    intros _. exists x. auto.
Qed.

(* agreement with the generic-bulk loop of bulk.hpp run on the same index range: the same number of
   calls, and a throw exactly when the loop ends with an error *)
Lemma gen_loop_chunk_calls throws : forall fuel i acc,
  N.of_nat (length (fst (gen_loop throws i fuel acc))) =
    fst (chunk_calls throws i fuel (N.of_nat (length acc))) /\
  (match snd (gen_loop throws i fuel acc) with Some _ => true | None => false end) =
    snd (chunk_calls throws i fuel (N.of_nat (length acc))).
Proof.
  induction fuel as [|f IH]; intros i acc; cbn [gen_loop chunk_calls].
  - cbn [fst snd]. now rewrite rev_length.
  - destruct (throws i); cbn [fst snd].
    + rewrite rev_length. cbn [length]. split; [lia|reflexivity].
    + destruct (IH (i + 1) (i :: acc)) as [E1 E2]. cbn [length] in E1, E2.
      replace (N.of_nat (length acc) + 1) with (N.of_nat (S (length acc))) by lia. auto.
Qed.

(* the error index of the generic loop is the first throwing index; the calls are i, i+1, ... in order *)
Lemma gen_loop_calls throws : forall fuel i acc,
  exists k, (k <= fuel)%nat /\
    fst (gen_loop throws i fuel acc) = rev acc ++ map (fun d => i + N.of_nat d) (seq 0 k).
Proof.
  induction fuel as [|f IH]; intros i acc; cbn [gen_loop].
  - exists 0%nat. cbn. split; [lia|now rewrite app_nil_r].
  - destruct (throws i); cbn [fst].
    + exists 1%nat. cbn. split; [lia|]. now rewrite N.add_0_r.
    + destruct (IH (i + 1) (i :: acc)) as [k [Hk E]]. exists (S k). split; [lia|].
      rewrite E. cbn [rev seq map]. rewrite <- app_assoc. cbn [app]. rewrite N.add_0_r.
      do 2 f_equal. rewrite <- seq_shift, map_map. apply map_ext. intros d. lia.
Qed.
