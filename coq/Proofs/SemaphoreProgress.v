(* Proofs/SemaphoreProgress.v — progress half of C08 (safety form): in every reachable state in
   which no thread can take a non-stutter step (whatever the deadline oracle says)
     - counting/binary semaphore, public API (every wait has count 1): nobody waits while value >= 1
     - sliding semaphore (any program): nobody waits with upper - max_difference <= lower
   under the weak agent contract (stale resumes at any time), for every mix of pika tasks and OS
   threads (OS threads must not use timed waits: that is finding F14), every thread count,
   program and schedule.

   Structure: [eff] is a summary of what one step of thread t does to the fields the argument
   needs (sem_tstep_eff: every step is one of 14 effects); the per-thread invariant [TI]
   (queue/popped membership, signaller bookkeeping, agent state, lock holder and its target),
   the counting invariant [CI]  queue = [] \/ value <= |popped| + remaining signal iterations
   and the positional sliding invariant [SI] (covered) are preserved by every effect. *)
From Coq Require Import List ZArith Bool Arith Lia.
From Pika Require Import Base.Conc Base.Agent Model.Semaphore Proofs.SemaphoreProofs.
Import ListNotations.
Local Open Scope Z_scope.

(* ------------------------------------------------------------------ occurrences in queue / popped *)
Fixpoint cnt (u : nat) (q : list nat) : nat :=
  match q with [] => 0%nat | x :: q' => ((if Nat.eqb x u then 1 else 0) + cnt u q')%nat end.

Lemma cnt_app u a b : cnt u (a ++ b) = (cnt u a + cnt u b)%nat.
Proof. induction a as [|x a IH]; cbn; [reflexivity|]. rewrite IH. lia. Qed.

Lemma cnt_rm_same t q : cnt t (rm t q) = 0%nat.
Proof.
  unfold rm. induction q as [|x q IH]; cbn; [reflexivity|].
  destruct (Nat.eqb x t) eqn:E; cbn; [exact IH|]. rewrite E. exact IH.
Qed.

Lemma cnt_rm_other u t q : u <> t -> cnt u (rm t q) = cnt u q.
Proof.
  intros Hne. unfold rm. induction q as [|x q IH]; cbn; [reflexivity|].
  destruct (Nat.eqb x t) eqn:E; cbn.
  - apply Nat.eqb_eq in E. subst x. destruct (Nat.eqb t u) eqn:E2; [apply Nat.eqb_eq in E2; congruence|]. exact IH.
  - rewrite IH. reflexivity.
Qed.

Lemma len_rm t q : (length (rm t q) + cnt t q = length q)%nat.
Proof.
  unfold rm. induction q as [|x q IH]; cbn; [reflexivity|].
  destruct (Nat.eqb x t) eqn:E; cbn; lia.
Qed.

Lemma cnt_in u q : In u q -> (1 <= cnt u q)%nat.
Proof.
  induction q as [|x q IH]; cbn; [tauto|]. intros [->|H].
  - rewrite Nat.eqb_refl. lia.
  - specialize (IH H). lia.
Qed.

Lemma in_cnt u q : (1 <= cnt u q)%nat -> In u q.
Proof.
  induction q as [|x q IH]; cbn; [lia|]. destruct (Nat.eqb x u) eqn:E.
  - apply Nat.eqb_eq in E. auto.
  - intros H. right. apply IH. lia.
Qed.

Lemma cnt_hd u q : hd_error q = Some u -> (1 <= cnt u q)%nat.
Proof. destruct q as [|x q]; cbn; [discriminate|]. intros [= ->]. rewrite Nat.eqb_refl. lia. Qed.

Lemma mem_cnt t q : mem t q = true -> (1 <= cnt t q)%nat.
Proof.
  unfold mem. induction q as [|x q IH]; cbn; [discriminate|].
  rewrite (Nat.eqb_sym x t). destruct (Nat.eqb t x); cbn; [lia|]. intros H. specialize (IH H). lia.
Qed.

Lemma cnt_cons_same u q : cnt u (u :: q) = S (cnt u q).
Proof. cbn. now rewrite Nat.eqb_refl. Qed.
Lemma cnt_cons_other u w q : u <> w -> cnt u (w :: q) = cnt u q.
Proof. intros H. cbn. destruct (Nat.eqb w u) eqn:E; [apply Nat.eqb_eq in E; congruence|reflexivity]. Qed.
Lemma cnt_snoc_same u q : cnt u (q ++ [u]) = S (cnt u q).
Proof. rewrite cnt_app, cnt_cons_same. cbn. lia. Qed.
Lemma cnt_snoc_other u t q : u <> t -> cnt u (q ++ [t]) = cnt u q.
Proof. intros H. rewrite cnt_app, cnt_cons_other by exact H. cbn. lia. Qed.

(* ------------------------------------------------------------------ signallers: remaining iterations *)
Fixpoint sg (u : nat) (s : list (nat * Z)) : Z :=
  match s with [] => 0 | x :: s' => (if Nat.eqb (fst x) u then Z.max 0 (snd x) else 0) + sg u s' end.
Fixpoint tot (s : list (nat * Z)) : Z :=
  match s with [] => 0 | x :: s' => Z.max 0 (snd x) + tot s' end.

Lemma sg_nonneg u s : 0 <= sg u s.
Proof. induction s as [|x s IH]; cbn; [lia|]. destruct (Nat.eqb (fst x) u); lia. Qed.
Lemma tot_nonneg s : 0 <= tot s.
Proof. induction s as [|x s IH]; cbn; lia. Qed.

Lemma sg_rm_same t s : sg t (rm_sig t s) = 0.
Proof.
  unfold rm_sig. induction s as [|x s IH]; cbn; [reflexivity|].
  destruct (Nat.eqb (fst x) t) eqn:E; cbn; [exact IH|]. rewrite E. lia.
Qed.
Lemma sg_rm_other u t s : u <> t -> sg u (rm_sig t s) = sg u s.
Proof.
  intros Hne. unfold rm_sig. induction s as [|x s IH]; cbn; [reflexivity|].
  destruct (Nat.eqb (fst x) t) eqn:E; cbn.
  - apply Nat.eqb_eq in E. destruct (Nat.eqb (fst x) u) eqn:E2; [apply Nat.eqb_eq in E2; congruence|]. lia.
  - rewrite IH. reflexivity.
Qed.
Lemma tot_rm t s : tot (rm_sig t s) = tot s - sg t s.
Proof.
  unfold rm_sig. induction s as [|x s IH]; cbn; [reflexivity|].
  destruct (Nat.eqb (fst x) t) eqn:E; cbn; lia.
Qed.
Lemma sg_cons_same t k s : sg t ((t, k) :: s) = Z.max 0 k + sg t s.
Proof. cbn. now rewrite Nat.eqb_refl. Qed.
Lemma sg_cons_other u t k s : u <> t -> sg u ((t, k) :: s) = sg u s.
Proof. intros H. cbn. destruct (Nat.eqb t u) eqn:E; [apply Nat.eqb_eq in E; congruence|lia]. Qed.

Lemma tot_zero s : (forall u, sg u s <= 0) -> tot s = 0.
Proof.
  induction s as [|[x k] s IH]; intros H; cbn; [reflexivity|].
  pose proof (H x) as Hx. rewrite sg_cons_same in Hx. pose proof (sg_nonneg x s).
  rewrite IH; [lia|]. intros u. specialize (H u). cbn in H. pose proof (sg_nonneg u s).
  destruct (Nat.eqb x u); lia.
Qed.

(* ------------------------------------------------------------------ effects of one step *)
Definition iswait (p : spc) : bool := match p with Susp _ | Blk _ | TSleep _ => true | _ => false end.
Definition issusp (p : spc) : bool := match p with Susp _ => true | _ => false end.
Definition isblk (p : spc) : bool := match p with Blk _ => true | _ => false end.
Definition isres (p : spc) : bool := match p with ResWait _ _ _ => true | _ => false end.
Definition sigk (p : spc) : Z := match p with SigLoop _ k | ResWait _ _ k => Z.max 0 k | _ => 0 end.

Definition chg (g g' : sem_g) (v lo md : Z) (q : list nat) (h : option nat) (a : nat -> agent_state)
           (p : list nat) (s : list (nat * Z)) : Prop :=
  value g' = v /\ lower g' = lo /\ maxd g' = md /\ queue g' = q /\ holder g' = h /\ ag g' = a /\
  popped g' = p /\ sigl g' = s.

Definition dec_of (o : sop) : option Z :=
  match o with Acquire n | TimedAcquire n | TryWait n => Some n | TryAcquire => Some 1 | _ => None end.
Definition op_cond (o : sop) (c : wcond) : Prop :=
  match c with CAcq n => o = Acquire n \/ o = TimedAcquire n | CSl u => o = SlWait u end.
Definition enq_pc (p : spc) (c : wcond) : Prop := p = Susp c \/ exists n, c = CAcq n /\ p = TSleep n.
(* woken waiter about to re-enter its critical section *)
Definition wk (p : spc) (c : wcond) (blk : bool) : Prop :=
  (p = Blk c /\ blk = false) \/ exists n, c = CAcq n /\ p = TSleep n.
Definition renq (p : spc) : spc := match p with Blk c => Susp c | _ => p end.

(* new (lower_limit_, max_difference_) written by the first critical section of the sliding operations
   that run the "touch upon all threads" loop *)
Definition slsig_of (g : sem_g) (o : sop) : option (Z * Z) :=
  match o with
  | SlSignal x => Some (Z.max x (lower g), maxd g)
  | SlSignalAll => Some (Z.max (lower g) (lower g), maxd g)
  | SlSetMaxDiff md lo => Some (lo, md)
  | _ => None
  end.

Definition sig_pre (g : sem_g) (l : sem_l) (k v1 lo1 md1 : Z) (chk : bool) : Prop :=
  (pc l = Idle /\ exists n, cur_op l = Release n /\ 0 <= n /\ k = n /\ v1 = value g + n /\ lo1 = lower g /\ md1 = maxd g /\ chk = true) \/
  (pc l = Idle /\ slsig_of g (cur_op l) = Some (lo1, md1) /\ k = Z.of_nat (length (queue g)) /\ v1 = value g /\ chk = false) \/
  (pc l = SigLoop chk k /\ v1 = value g /\ lo1 = lower g /\ md1 = maxd g).

Inductive eff (kind : nat -> akind) (t : nat) (g : sem_g) (l : sem_l) (g' : sem_g) (l' : sem_l) : Prop :=
| E_stutter : g' = g -> l' = l -> eff kind t g l g' l'
| E_stale w : pc l = Idle -> pc l' = Idle ->
    chg g g' (value g) (lower g) (maxd g) (queue g) (holder g)
        (match kind w with Task => upd (ag g) w (a_resume (ag g w)) | OsThr => ag g end) (popped g) (sigl g) ->
    eff kind t g l g' l'
| E_idle d : pc l = Idle -> pc l' = Idle -> holder g = None -> (d = 0 \/ dec_of (cur_op l) = Some d) ->
    chg g g' (value g - d) (lower g) (maxd g) (queue g) None (ag g) (popped g) (sigl g) -> eff kind t g l g' l'
| E_enq c : pc l = Idle -> holder g = None -> enq_pc (pc l') c -> cond_blocked g c = true -> op_cond (cur_op l) c ->
    chg g g' (value g) (lower g) (maxd g) (queue g ++ [t]) None (ag g) (popped g) (sigl g) -> eff kind t g l g' l'
| E_susp c : pc l = Susp c -> pc l' = Blk c ->
    chg g g' (value g) (lower g) (maxd g) (queue g) (holder g) (upd (ag g) t (fst (a_suspend (ag g t)))) (popped g) (sigl g) ->
    eff kind t g l g' l'
| E_wtake c : wk (pc l) c (blocked (ag g t)) -> pc l' = Idle -> holder g = None -> cond_blocked g c = false ->
    chg g g' (value g - taken_of c) (lower g) (maxd g) (rm t (queue g)) None (ag g) (rm t (popped g)) (sigl g) ->
    eff kind t g l g' l'
| E_timeout n : pc l = TSleep n -> pc l' = Idle -> holder g = None -> mem t (queue g) = true ->
    chg g g' (value g) (lower g) (maxd g) (rm t (queue g)) None (ag g) (rm t (popped g)) (sigl g) -> eff kind t g l g' l'
| E_wenq c : wk (pc l) c (blocked (ag g t)) -> pc l' = renq (pc l) -> holder g = None -> cond_blocked g c = true ->
    chg g g' (value g) (lower g) (maxd g) (rm t (queue g) ++ [t]) None (ag g) (rm t (popped g)) (sigl g) ->
    eff kind t g l g' l'
| E_sfin k v1 lo1 md1 chk : sig_pre g l k v1 lo1 md1 chk -> holder g = None -> (k <= 0 \/ queue g = []) -> pc l' = Idle ->
    chg g g' v1 lo1 md1 (queue g) None (ag g) (popped g) (rm_sig t (sigl g)) -> eff kind t g l g' l'
| E_scont k v1 lo1 md1 chk w q' : sig_pre g l k v1 lo1 md1 chk -> holder g = None -> 0 < k -> queue g = w :: q' -> q' <> [] ->
    (kind w = Task \/ blocked (ag g w) = true) -> pc l' = SigLoop chk (k - 1) ->
    chg g g' v1 lo1 md1 q' None (upd (ag g) w (a_resume (ag g w))) (w :: popped g) ((t, k - 1) :: rm_sig t (sigl g)) ->
    eff kind t g l g' l'
| E_sfin1 k v1 lo1 md1 chk w : sig_pre g l k v1 lo1 md1 chk -> holder g = None -> 0 < k -> queue g = [w] ->
    (kind w = Task \/ blocked (ag g w) = true) -> pc l' = Idle ->
    chg g g' v1 lo1 md1 [] None (upd (ag g) w (a_resume (ag g w))) (w :: popped g) (rm_sig t (sigl g)) ->
    eff kind t g l g' l'
| E_shold k v1 lo1 md1 chk w q' : sig_pre g l k v1 lo1 md1 chk -> holder g = None -> 0 < k -> queue g = w :: q' ->
    kind w = OsThr -> blocked (ag g w) = false -> pc l' = ResWait w chk (k - 1) ->
    chg g g' v1 lo1 md1 q' (Some t) (ag g) (w :: popped g) ((t, k - 1) :: rm_sig t (sigl g)) -> eff kind t g l g' l'
| E_rfin w chk k : pc l = ResWait w chk k -> blocked (ag g w) = true -> queue g = [] -> pc l' = Idle ->
    chg g g' (value g) (lower g) (maxd g) [] None (upd (ag g) w (a_resume (ag g w))) (popped g) (rm_sig t (sigl g)) ->
    eff kind t g l g' l'
| E_rcont w chk k : pc l = ResWait w chk k -> blocked (ag g w) = true -> queue g <> [] -> pc l' = SigLoop chk k ->
    chg g g' (value g) (lower g) (maxd g) (queue g) None (upd (ag g) w (a_resume (ag g w))) (popped g) ((t, k) :: rm_sig t (sigl g)) ->
    eff kind t g l g' l'.

Ltac chg_done := unfold chg; cbn; repeat split; try reflexivity; try lia; try assumption.

Lemma is_free_none g : is_free g = true -> holder g = None.
Proof. unfold is_free. destruct (holder g); [discriminate|reflexivity]. Qed.

Lemma finish_sig_eff kind t g g1 l k chk :
  sig_pre g l k (value g1) (lower g1) (maxd g1) chk -> holder g = None -> (k <= 0 \/ queue g = []) ->
  queue g1 = queue g -> holder g1 = None -> ag g1 = ag g -> popped g1 = popped g -> sigl g1 = sigl g ->
  eff kind t g l (fst (finish_sig t g1 l)) (snd (finish_sig t g1 l)).
Proof.
  intros Hp Hh Hk H2 H3 H4 H5 H6. eapply E_sfin; eauto. unfold chg, finish_sig. cbn.
  rewrite H2, H3, H4, H5, H6. repeat split; reflexivity.
Qed.

Lemma notify_eff kind t g g1 l k chk :
  sig_pre g l k (value g1) (lower g1) (maxd g1) chk -> holder g = None -> 0 <= value g1 ->
  queue g1 = queue g -> holder g1 = None -> ag g1 = ag g -> popped g1 = popped g -> sigl g1 = sigl g ->
  eff kind t g l (fst (notify kind t g1 l chk k)) (snd (notify kind t g1 l chk k)).
Proof.
  intros Hp Hh Hv H2 H3 H4 H5 H6. unfold notify.
  assert (Hc : (negb chk || (0 <=? value g1)) = true).
  { apply orb_true_iff. right. now apply Z.leb_le. }
  rewrite Hc. cbn [andb]. destruct (0 <? k) eqn:Hk; zb.
  2:{ apply finish_sig_eff with (k := k) (chk := chk); auto. }
  pose proof H2 as H2'. rewrite H2. destruct (queue g) as [|w q'] eqn:Hq.
  { apply finish_sig_eff with (k := k) (chk := chk); auto; congruence. }
  destruct (kind w) eqn:Hkw.
  - (* task: resume at once *)
    unfold after_resume. cbn [queue set_ag set_popped set_queue]. destruct q' as [|w2 q2].
    + unfold finish_sig. cbn [fst snd]. eapply E_sfin1; eauto. unfold chg. cbn. rewrite H3, H4, H5, H6. repeat split; reflexivity.
    + cbn [fst snd]. eapply E_scont; eauto; [discriminate|]. unfold chg. cbn. rewrite H3, H4, H5, H6. repeat split; reflexivity.
  - destruct (blocked (ag g1 w)) eqn:Hb; rewrite H4 in Hb.
    + unfold after_resume. cbn [queue set_ag set_popped set_queue]. destruct q' as [|w2 q2].
      * unfold finish_sig. cbn [fst snd]. eapply E_sfin1; eauto. unfold chg. cbn. rewrite H3, H4, H5, H6. repeat split; reflexivity.
      * cbn [fst snd]. eapply E_scont; eauto; [discriminate|]. unfold chg. cbn. rewrite H3, H4, H5, H6. repeat split; reflexivity.
    + cbn [fst snd]. eapply E_shold; eauto. unfold chg. cbn. rewrite H4, H5, H6. repeat split; reflexivity.
Qed.

Lemma wait_or_take_idle_eff kind t g l c :
  pc l = Idle -> holder g = None -> op_cond (cur_op l) c ->
  eff kind t g l (fst (wait_or_take t g l c)) (snd (wait_or_take t g l c)).
Proof.
  intros Hpc Hh Hop. unfold wait_or_take. destruct (cond_blocked g c) eqn:Hb; cbn [fst snd].
  - eapply E_enq with (c := c); eauto; [left; reflexivity|chg_done].
  - destruct c as [n|u].
    + eapply E_idle with (d := n); eauto; [|chg_done].
      right. destruct Hop as [-> | ->]; reflexivity.
    + eapply E_idle with (d := 0); eauto; chg_done.
Qed.

Lemma wait_or_take_wake_eff kind t g l c :
  wk (pc l) c (blocked (ag g t)) -> holder g = None ->
  pc l = Blk c ->
  eff kind t g l (fst (wait_or_take t (arrive g t) l c)) (snd (wait_or_take t (arrive g t) l c)).
Proof.
  intros Hwk Hh Hpc. unfold wait_or_take.
  assert (Hcb : cond_blocked (arrive g t) c = cond_blocked g c) by (destruct c; reflexivity).
  rewrite Hcb. destruct (cond_blocked g c) eqn:Hb; cbn [fst snd].
  - eapply E_wenq with (c := c); eauto; [cbn; rewrite Hpc; reflexivity|chg_done].
  - eapply E_wtake with (c := c); eauto. destruct c; chg_done.
Qed.

Lemma sem_tstep_eff kind o t g l : 0 <= value g -> lwf l ->
  eff kind t g l (fst (sem_tstep kind o t g l)) (snd (sem_tstep kind o t g l)).
Proof.
  intros Hv Hl. unfold sem_tstep.
  destruct (pc l) as [|c|c|n|chk k|w chk k] eqn:Hpc.
  - (* Idle *)
    destruct (todo l) as [|op rest] eqn:Htd; [now apply E_stutter|].
    assert (Hcur : cur_op l = op) by (unfold cur_op; now rewrite Htd).
    assert (Hwf : wf_op op) by (destruct Hl as [H1 _]; rewrite Htd in H1; now inversion H1).
    destruct op; try (destruct (is_free g) eqn:Hf; [apply is_free_none in Hf|now apply E_stutter]).
    + apply wait_or_take_idle_eff; auto; try (rewrite Hcur; cbn; auto).
    + destruct (value g <? n) eqn:Hlt; cbn [fst snd].
      * eapply E_enq with (c := CAcq n); eauto; [right; eauto|rewrite Hcur; cbn; auto|chg_done].
      * eapply E_idle with (d := n); eauto; [right; rewrite Hcur; reflexivity|chg_done].
    + destruct (value g <? n) eqn:Hlt; cbn [fst snd].
      * eapply E_idle with (d := 0); eauto; chg_done.
      * eapply E_idle with (d := n); eauto; [right; rewrite Hcur; reflexivity|chg_done].
    + destruct (1 <=? value g) eqn:Hlt; cbn [fst snd].
      * eapply E_idle with (d := 1); eauto; [right; rewrite Hcur; reflexivity|chg_done].
      * eapply E_idle with (d := 0); eauto; chg_done.
    + cbn in Hwf. apply notify_eff with (g := g); auto; try reflexivity; try (cbn; lia).
      left. split; [assumption|]. exists n. cbn. repeat split; auto.
    + apply wait_or_take_idle_eff; auto; try (rewrite Hcur; cbn; auto).
    + destruct (cond_blocked g (CSl u)); cbn [fst snd]; eapply E_idle with (d := 0); eauto; chg_done.
    + unfold sl_notify. apply notify_eff with (g := g); auto; try reflexivity.
      right. left. split; [assumption|]. rewrite Hcur. cbn. repeat split; auto.
    + unfold sl_notify. apply notify_eff with (g := g); auto; try reflexivity.
      right. left. split; [assumption|]. rewrite Hcur. cbn. repeat split; auto.
    + unfold sl_notify. apply notify_eff with (g := g); auto; try reflexivity.
      right. left. split; [assumption|]. rewrite Hcur. cbn. repeat split; auto.
    + cbn [fst snd]. eapply E_stale with (w := w); eauto. destruct (kind w); chg_done.
  - (* Susp *)
    cbn [fst snd]. eapply E_susp; eauto. chg_done.
  - (* Blk *)
    destruct (is_free g) eqn:Hf; cbn [andb]; [apply is_free_none in Hf|now apply E_stutter].
    destruct (blocked (ag g t)) eqn:Hb; cbn [negb]; [now apply E_stutter|].
    apply wait_or_take_wake_eff; auto. left. rewrite Hb. auto.
  - (* TSleep *)
    destruct o; [|now apply E_stutter].
    destruct (is_free g) eqn:Hf; [apply is_free_none in Hf|now apply E_stutter].
    destruct (mem t (queue g)) eqn:Hm.
    + unfold fail_op. cbn [fst snd]. eapply E_timeout; eauto. chg_done.
    + assert (Hva : value (arrive g t) = value g) by reflexivity. rewrite Hva.
      destruct (value g <? n) eqn:Hlt; cbn [fst snd].
      * eapply E_wenq with (c := CAcq n); eauto; [right; eauto|rewrite Hpc; reflexivity|chg_done].
      * eapply E_wtake with (c := CAcq n); eauto; [right; eauto|chg_done].
  - (* SigLoop *)
    destruct (is_free g) eqn:Hf; [apply is_free_none in Hf|now apply E_stutter].
    apply notify_eff with (g := g); auto. right. right. auto.
  - (* ResWait *)
    destruct (blocked (ag g w)) eqn:Hb; [|now apply E_stutter].
    unfold after_resume. cbn [queue set_holder set_ag]. destruct (queue g) eqn:Hq.
    + unfold finish_sig. cbn [fst snd]. eapply E_rfin; eauto. unfold chg. cbn. rewrite Hq. repeat split; reflexivity.
    + cbn [fst snd]. eapply E_rcont; eauto; [congruence|]. unfold chg. cbn. rewrite Hq. repeat split; reflexivity.
Qed.

(* ------------------------------------------------------------------ per-thread invariant *)
Lemma upd_eq {A} (f : nat -> A) t x : upd f t x t = x.
Proof. unfold upd. now rewrite Nat.eqb_refl. Qed.
Lemma upd_neq {A} (f : nat -> A) t x u : u <> t -> upd f t x u = f u.
Proof. intros H. unfold upd. apply Nat.eqb_neq in H. now rewrite H. Qed.

(* the agent the lock holder (inside default_agent::resume) is waiting for: newest popped waiter *)
Definition target (g : sem_g) : option nat :=
  match holder g with Some _ => hd_error (popped g) | None => None end.

Record TI (kind : nat -> akind) (g : sem_g) (u : nat) (p : spc) : Prop := {
  ti_cnt : (cnt u (queue g) + cnt u (popped g) = if iswait p then 1 else 0)%nat;
  ti_sig : sg u (sigl g) <= sigk p;
  ti_blk : blocked (ag g u) = true -> isblk p = true;
  ti_ostok : kind u = OsThr -> tok (ag g u) = false;
  ti_osq : kind u = OsThr -> isblk p = true -> cnt u (queue g) = 1%nat -> blocked (ag g u) = true;
  ti_hold : holder g = Some u <-> isres p = true;
  ti_res : forall w chk k, p = ResWait w chk k -> hd_error (popped g) = Some w;
  ti_pop : cnt u (popped g) = 1%nat ->
           (issusp p = true -> tok (ag g u) = true \/ target g = Some u) /\
           (isblk p = true -> blocked (ag g u) = false \/ target g = Some u);
  ti_targ : target g = Some u -> kind u = OsThr /\ (isblk p = true -> blocked (ag g u) = true)
}.

Lemma TI_frame kind g g' u p :
  TI kind g u p ->
  cnt u (queue g') = cnt u (queue g) -> cnt u (popped g') = cnt u (popped g) ->
  sg u (sigl g') = sg u (sigl g) -> ag g' u = ag g u ->
  (holder g' = Some u <-> holder g = Some u) ->
  (isres p = true -> hd_error (popped g') = hd_error (popped g)) ->
  (target g' = Some u <-> target g = Some u) ->
  TI kind g' u p.
Proof.
  intros [] Hq Hp Hs Ha Hh Hr Ht. constructor; rewrite ?Hq, ?Hp, ?Hs, ?Ha, ?Hh, ?Ht; auto.
  intros w chk k E. rewrite Hr; [eauto|]. subst p. reflexivity.
Qed.

Ltac simp_cnt := repeat first
  [ rewrite cnt_snoc_same | rewrite cnt_cons_same | rewrite cnt_rm_same | rewrite sg_rm_same
  | rewrite sg_cons_same | rewrite upd_eq
  | rewrite cnt_snoc_other by congruence | rewrite cnt_cons_other by congruence
  | rewrite cnt_rm_other by congruence | rewrite sg_rm_other by congruence
  | rewrite sg_cons_other by congruence | rewrite upd_neq by congruence ].

Lemma target_none g : holder g = None -> target g = None.
Proof. unfold target. now intros ->. Qed.

Ltac ti_fin Ev :=
  let Eva := fresh "Ev" in let El := fresh "El" in let Em := fresh "Em" in let Eq := fresh "Eq" in
  let Eh := fresh "Eh" in let Ea := fresh "Ea" in let Ep := fresh "Ep" in let Es := fresh "Es" in
  destruct Ev as (Eva & El & Em & Eq & Eh & Ea & Ep & Es);
  constructor; rewrite ?Eq, ?Ep, ?Es, ?Ea, ?Eh; unfold target; rewrite ?Eh, ?Ep;
  simp_cnt; cbn [iswait issusp isblk isres sigk hd_error].

Ltac ti_frame HT g Ev :=
  let Eva := fresh "Ev" in let El := fresh "El" in let Em := fresh "Em" in let Eq := fresh "Eq" in
  let Eh := fresh "Eh" in let Ea := fresh "Ea" in let Ep := fresh "Ep" in let Es := fresh "Es" in
  destruct Ev as (Eva & El & Em & Eq & Eh & Ea & Ep & Es);
  apply TI_frame with (g := g);
  [ apply HT
  | rewrite Eq; simp_cnt; try reflexivity
  | rewrite Ep; simp_cnt; try reflexivity
  | rewrite Es; simp_cnt; try reflexivity
  | rewrite Ea; simp_cnt; try reflexivity
  | rewrite Eh; try tauto
  | rewrite Ep; try reflexivity
  | unfold target; rewrite Eh, ?Ep; try tauto ].

Ltac ti_auto := auto; try lia; try discriminate; try congruence;
  try (let E := fresh in intros ? ? ? E; rewrite E in *; cbn in *; congruence); try (split; congruence);
  try (intuition congruence).
Ltac t_pre HT t Hpc :=
  let Tt := fresh "Tt" in
  pose proof (HT t) as Tt; rewrite ?Hpc in Tt; destruct Tt as [t1 t2 t3 t4 t5 t6 t7 t8 t9];
  cbn [iswait issusp isblk isres sigk] in *.

Ltac fr_auto HT u Hh :=
  cbn [hd_error]; rewrite ?Hh; try tauto; try (split; congruence);
  try (let R := fresh in intros R; apply (ti_hold _ _ _ _ (HT u)) in R; congruence).

Lemma sig_pre_pc g l k v1 lo1 md1 chk : sig_pre g l k v1 lo1 md1 chk ->
  iswait (pc l) = false /\ isblk (pc l) = false /\ isres (pc l) = false /\ issusp (pc l) = false /\ sigk (pc l) <= Z.max 0 k.
Proof. intros [[-> _]|[[-> _]|[-> _]]]; cbn; repeat split; lia. Qed.

Lemma eff_TI kind t g ls g' l' :
  (forall u, TI kind g u (pc (ls u))) -> eff kind t g (ls t) g' l' ->
  forall u, TI kind g' u (pc (upd ls t l' u)).
Proof.
  intros HT He.
  destruct He as [Eg El | w Hpc Hpc' Ev | d Hpc Hpc' Hh Hd Ev | c Hpc Hh Hpc' Hcb Hop Ev | c Hpc Hpc' Ev
                 | c Hwk Hpc' Hh Hcb Ev | n Hpc Hpc' Hh Hm Ev | c Hwk Hpc' Hh Hcb Ev
                 | k v1 lo1 md1 chk Hsp Hh Hk Hpc' Ev | k v1 lo1 md1 chk w q' Hsp Hh Hk Hq Hq' Hkw Hpc' Ev
                 | k v1 lo1 md1 chk w Hsp Hh Hk Hq Hkw Hpc' Ev | k v1 lo1 md1 chk w q' Hsp Hh Hk Hq Hkw Hb Hpc' Ev
                 | w chk k Hpc Hb Hq Hpc' Ev | w chk k Hpc Hb Hq Hpc' Ev ]; intros u.
  - (* stutter *)
    subst g' l'. destruct (Nat.eq_dec u t) as [->|N]; [rewrite upd_eq|rewrite upd_neq by auto]; apply HT.
  - (* stale *)
    assert (Hp : pc (upd ls t l' u) = pc (ls u)).
    { destruct (Nat.eq_dec u t) as [->|N]; [rewrite upd_eq; congruence|now rewrite upd_neq by auto]. }
    rewrite Hp. clear Hp. destruct (kind w) eqn:Hkw; [|ti_frame HT g Ev].
    destruct (Nat.eq_dec u w) as [->|Nw]; [|ti_frame HT g Ev].
    pose proof (HT w) as [t1 t2 t3 t4 t5 t6 t7 t8 t9]. ti_fin Ev; auto; try congruence.
    + cbn. discriminate.
    + intros Hc. specialize (t8 Hc). cbn. destruct t8 as [t8a t8b]. split.
      * intros Hs. left. destruct (blocked (ag g w)) eqn:Hb; [|reflexivity].
        specialize (t3 eq_refl). destruct (pc (ls w)); discriminate.
      * intros _. now left.
    + intros Ht. apply t9 in Ht. destruct Ht. congruence.
  - (* idle *)
    assert (Hp : pc (upd ls t l' u) = pc (ls u)).
    { destruct (Nat.eq_dec u t) as [->|N]; [rewrite upd_eq; congruence|now rewrite upd_neq by auto]. }
    rewrite Hp. clear Hp. ti_frame HT g Ev; rewrite Hh; tauto.
  - (* enqueue *)
    destruct (Nat.eq_dec u t) as [->|N].
    + rewrite upd_eq. pose proof (HT t) as Tt. rewrite Hpc in Tt. destruct Tt as [t1 t2 t3 t4 t5 t6 t7 t8 t9].
      cbn [iswait issusp isblk isres sigk] in *. rewrite ?(target_none g Hh) in *.
      assert (Hw : iswait (pc l') = true /\ isblk (pc l') = false /\ isres (pc l') = false /\ sigk (pc l') = 0).
      { destruct Hpc' as [->|[n [_ ->]]]; cbn; auto. }
      destruct Hw as (W1 & W2 & W3 & W4). ti_fin Ev; rewrite ?W1, ?W2, ?W3, ?W4; ti_auto.
    + rewrite upd_neq by auto. ti_frame HT g Ev; rewrite ?Hh; try tauto.
  - (* suspend *)
    destruct (Nat.eq_dec u t) as [->|N].
    + rewrite upd_eq, Hpc'. t_pre HT t Hpc. ti_fin Ev; unfold a_suspend; destruct (ag g t) as [[|] [|]]; cbn in *; ti_auto.
    + rewrite upd_neq by auto. ti_frame HT g Ev; tauto.
  - (* woken: take *)
    destruct (Nat.eq_dec u t) as [->|N].
    + rewrite upd_eq, Hpc'.
      destruct Hwk as [[Hpc Hb]|[n [-> Hpc]]]; t_pre HT t Hpc; rewrite ?(target_none g Hh) in *; ti_fin Ev; ti_auto.
    + rewrite upd_neq by auto. ti_frame HT g Ev; fr_auto HT u Hh.
  - (* timeout *)
    destruct (Nat.eq_dec u t) as [->|N].
    + rewrite upd_eq, Hpc'. t_pre HT t Hpc; rewrite ?(target_none g Hh) in *; ti_fin Ev; ti_auto.
    + rewrite upd_neq by auto. ti_frame HT g Ev; fr_auto HT u Hh.
  - (* woken: enqueue again *)
    destruct (Nat.eq_dec u t) as [->|N].
    + rewrite upd_eq, Hpc'.
      destruct Hwk as [[Hpc Hb]|[n [-> Hpc]]]; t_pre HT t Hpc; rewrite ?(target_none g Hh) in *; rewrite Hpc; cbn [renq];
        ti_fin Ev; ti_auto.
    + rewrite upd_neq by auto. ti_frame HT g Ev; fr_auto HT u Hh.
  - (* signal: finish *)
    destruct (sig_pre_pc _ _ _ _ _ _ _ Hsp) as (W1 & W2 & W3 & W4 & W5).
    destruct (Nat.eq_dec u t) as [->|N].
    + rewrite upd_eq, Hpc'. t_pre HT t Hpc. rewrite W1, W2, W3, W4 in *. rewrite ?(target_none g Hh) in *. ti_fin Ev; ti_auto.
    + rewrite upd_neq by auto. ti_frame HT g Ev; fr_auto HT u Hh.
  - (* signal: pop resume continue *)
    destruct (sig_pre_pc _ _ _ _ _ _ _ Hsp) as (W1 & W2 & W3 & W4 & W5).
    assert (Nw : w <> t).
    { intros ->. destruct (HT t) as [c1 _ _ _ _ _ _ _ _]. rewrite W1, Hq, cnt_cons_same in c1. lia. }
    destruct (Nat.eq_dec u t) as [->|N]; [|destruct (Nat.eq_dec u w) as [->|N2]].
    + rewrite upd_eq, Hpc'. destruct (HT t) as [t1 t2 t3 t4 t5 t6 t7 t8 t9]. rewrite ?W1, ?W2, ?W3, ?W4 in *.
      rewrite ?(target_none g Hh) in *. rewrite Hq in *. rewrite cnt_cons_other in * by congruence.
      ti_fin Ev; ti_auto.
    + rewrite upd_neq by auto. destruct (HT w) as [t1 t2 t3 t4 t5 t6 t7 t8 t9].
      rewrite ?(target_none g Hh) in *. rewrite Hq in *. rewrite cnt_cons_same in *.
      ti_fin Ev; destruct (pc (ls w)); cbn [iswait issusp isblk isres sigk] in *;
        destruct (ag g w) as [[|] [|]]; cbn in *; ti_auto.
    + rewrite upd_neq by auto. ti_frame HT g Ev; fr_auto HT u Hh; rewrite Hq; simp_cnt; reflexivity.
  - (* signal: pop resume finish *)
    destruct (sig_pre_pc _ _ _ _ _ _ _ Hsp) as (W1 & W2 & W3 & W4 & W5).
    assert (Nw : w <> t).
    { intros ->. destruct (HT t) as [c1 _ _ _ _ _ _ _ _]. rewrite W1, Hq, cnt_cons_same in c1. lia. }
    destruct (Nat.eq_dec u t) as [->|N]; [|destruct (Nat.eq_dec u w) as [->|N2]].
    + rewrite upd_eq, Hpc'. destruct (HT t) as [t1 t2 t3 t4 t5 t6 t7 t8 t9]. rewrite ?W1, ?W2, ?W3, ?W4 in *.
      rewrite ?(target_none g Hh) in *. rewrite Hq in *. rewrite cnt_cons_other in * by congruence.
      ti_fin Ev; ti_auto.
    + rewrite upd_neq by auto. destruct (HT w) as [t1 t2 t3 t4 t5 t6 t7 t8 t9].
      rewrite ?(target_none g Hh) in *. rewrite Hq in *. rewrite cnt_cons_same in *.
      ti_fin Ev; destruct (pc (ls w)); cbn [iswait issusp isblk isres sigk] in *;
        destruct (ag g w) as [[|] [|]]; cbn in *; ti_auto.
    + rewrite upd_neq by auto. ti_frame HT g Ev; fr_auto HT u Hh; rewrite Hq; simp_cnt; reflexivity.
  - (* signal: pop, hold the lock inside default_agent::resume *)
    destruct (sig_pre_pc _ _ _ _ _ _ _ Hsp) as (W1 & W2 & W3 & W4 & W5).
    assert (Nw : w <> t).
    { intros ->. destruct (HT t) as [c1 _ _ _ _ _ _ _ _]. rewrite W1, Hq, cnt_cons_same in c1. lia. }
    destruct (Nat.eq_dec u t) as [->|N]; [|destruct (Nat.eq_dec u w) as [->|N2]].
    + rewrite upd_eq, Hpc'. destruct (HT t) as [t1 t2 t3 t4 t5 t6 t7 t8 t9]. rewrite ?W1, ?W2, ?W3, ?W4 in *.
      rewrite ?(target_none g Hh) in *. rewrite Hq in *. rewrite cnt_cons_other in * by congruence.
      ti_fin Ev; ti_auto.
    + rewrite upd_neq by auto. destruct (HT w) as [t1 t2 t3 t4 t5 t6 t7 t8 t9].
      rewrite ?(target_none g Hh) in *. rewrite Hq in *. rewrite cnt_cons_same in *.
      ti_fin Ev; destruct (pc (ls w)); cbn [iswait issusp isblk isres sigk] in *; ti_auto.
      intros _. exfalso. rewrite t5 in Hb; auto; [discriminate|lia].
    + rewrite upd_neq by auto. ti_frame HT g Ev; fr_auto HT u Hh; try (rewrite Hq; simp_cnt; reflexivity).
  - (* resume wait over: queue empty *)
    assert (Hh : holder g = Some t).
    { destruct (HT t) as [_ _ _ _ _ c6 _ _ _]. rewrite Hpc in c6. apply c6. reflexivity. }
    assert (Hhd : hd_error (popped g) = Some w).
    { destruct (HT t) as [_ _ _ _ _ _ c7 _ _]. eapply c7. exact Hpc. }
    assert (Htg : target g = Some w) by (unfold target; rewrite Hh; exact Hhd).
    assert (Hbw : isblk (pc (ls w)) = true) by (destruct (HT w) as [_ _ c3 _ _ _ _ _ _]; auto).
    assert (Nw : w <> t) by (intros ->; rewrite Hpc in Hbw; discriminate).
    pose proof (cnt_hd _ _ Hhd) as Hcw.
    destruct (Nat.eq_dec u t) as [->|N]; [|destruct (Nat.eq_dec u w) as [->|N2]].
    + rewrite upd_eq, Hpc'. t_pre HT t Hpc. ti_fin Ev; ti_auto.
    + rewrite upd_neq by auto. destruct (HT w) as [t1 t2 t3 t4 t5 t6 t7 t8 t9].
      ti_fin Ev; destruct (pc (ls w)); try discriminate; cbn [iswait issusp isblk isres sigk] in *;
        destruct (ag g w) as [[|] [|]]; cbn in *; ti_auto.
    + rewrite upd_neq by auto. ti_frame HT g Ev; rewrite ?Hh, ?Hhd; try tauto; try (split; congruence); try (rewrite Hq; reflexivity).
  - (* resume wait over: continue the loop *)
    assert (Hh : holder g = Some t).
    { destruct (HT t) as [_ _ _ _ _ c6 _ _ _]. rewrite Hpc in c6. apply c6. reflexivity. }
    assert (Hhd : hd_error (popped g) = Some w).
    { destruct (HT t) as [_ _ _ _ _ _ c7 _ _]. eapply c7. exact Hpc. }
    assert (Htg : target g = Some w) by (unfold target; rewrite Hh; exact Hhd).
    assert (Hbw : isblk (pc (ls w)) = true) by (destruct (HT w) as [_ _ c3 _ _ _ _ _ _]; auto).
    assert (Nw : w <> t) by (intros ->; rewrite Hpc in Hbw; discriminate).
    pose proof (cnt_hd _ _ Hhd) as Hcw.
    destruct (Nat.eq_dec u t) as [->|N]; [|destruct (Nat.eq_dec u w) as [->|N2]].
    + rewrite upd_eq, Hpc'. t_pre HT t Hpc. ti_fin Ev; ti_auto.
    + rewrite upd_neq by auto. destruct (HT w) as [t1 t2 t3 t4 t5 t6 t7 t8 t9].
      ti_fin Ev; destruct (pc (ls w)); try discriminate; cbn [iswait issusp isblk isres sigk] in *;
        destruct (ag g w) as [[|] [|]]; cbn in *; ti_auto.
    + rewrite upd_neq by auto. ti_frame HT g Ev; rewrite ?Hh, ?Hhd; try tauto; try (split; congruence); try (rewrite Hq; reflexivity).
Qed.

(* ------------------------------------------------------------------ counting invariant (public API) *)
Definition pub_op (o : sop) : Prop :=
  match o with
  | Acquire n | TimedAcquire n => n = 1
  | TryWait n | Release n => 0 <= n
  | TryAcquire | StaleResume _ => True
  | SlWait _ | SlTryWait _ | SlSignal _ | SlSignalAll | SlSetMaxDiff _ _ => False
  end.

Lemma pub_cur l : Forall pub_op (todo l) -> pub_op (cur_op l).
Proof. unfold cur_op. destruct (todo l); cbn; [trivial|]. intros H. now inversion H. Qed.

Definition CI (g : sem_g) : Prop :=
  queue g = [] \/ value g <= Z.of_nat (length (popped g)) + tot (sigl g).

Lemma pub_wk l c b : lwf l -> pub_op (cur_op l) -> wk (pc l) c b -> c = CAcq 1.
Proof.
  intros [_ Hp] Hpub Hw. unfold pc_ok in Hp.
  destruct Hw as [[Hpc _]|[n [-> Hpc]]]; rewrite Hpc in Hp.
  - destruct c; destruct Hp as [Hc _]; rewrite Hc in Hpub; cbn in Hpub; [now subst|contradiction].
  - destruct Hp as [Hc _]. rewrite Hc in Hpub. cbn in Hpub. now subst.
Qed.

Lemma pub_budget g l k v1 lo1 md1 chk s :
  pub_op (cur_op l) -> sig_pre g l k v1 lo1 md1 chk -> 0 <= s <= sigk (pc l) ->
  v1 + s <= value g + Z.max 0 k.
Proof.
  intros Hpub [[Hpc [n (Hc & Hn & -> & -> & _)]]|[[Hpc (Hc & _)]|[Hpc [-> _]]]] Hs; rewrite Hpc in Hs; cbn in Hs.
  - lia.
  - destruct (cur_op l); cbn in Hpub, Hc; try contradiction; discriminate.
  - lia.
Qed.

Lemma eff_CI kind t g ls g' l' :
  CI g -> (forall u, TI kind g u (pc (ls u))) -> lwf (ls t) -> pub_op (cur_op (ls t)) ->
  eff kind t g (ls t) g' l' -> CI g'.
Proof.
  intros HC HT Hl Hpub He. unfold CI in *.
  pose proof (tot_nonneg (sigl g)) as Htn. pose proof (sg_nonneg t (sigl g)) as Hsn.
  pose proof (tot_rm t (sigl g)) as Htr. pose proof (len_rm t (popped g)) as Hlr.
  pose proof (tot_nonneg (rm_sig t (sigl g))) as Htn'.
  destruct (HT t) as [t1 t2 _ _ _ _ _ _ _].
  destruct He as [Eg El | w Hpc Hpc' Ev | d Hpc Hpc' Hh Hd Ev | c Hpc Hh Hpc' Hcb Hop Ev | c Hpc Hpc' Ev
                 | c Hwk Hpc' Hh Hcb Ev | n Hpc Hpc' Hh Hm Ev | c Hwk Hpc' Hh Hcb Ev
                 | k v1 lo1 md1 chk Hsp Hh Hk Hpc' Ev | k v1 lo1 md1 chk w q' Hsp Hh Hk Hq Hq' Hkw Hpc' Ev
                 | k v1 lo1 md1 chk w Hsp Hh Hk Hq Hkw Hpc' Ev | k v1 lo1 md1 chk w q' Hsp Hh Hk Hq Hkw Hb Hpc' Ev
                 | w chk k Hpc Hb Hq Hpc' Ev | w chk k Hpc Hb Hq Hpc' Ev ];
    try (destruct Ev as (Ev & El & Em & Eq & Eh & Ea & Ep & Es); rewrite Ev, Eq, Ep, Es).
  - subst g'. exact HC.
  - exact HC.
  - assert (0 <= d).
    { destruct Hd as [->|Hd]; [lia|]. destruct (cur_op (ls t)); cbn in *; try discriminate; injection Hd as <-; lia. }
    destruct HC as [HC|HC]; [now left|right; lia].
  - assert (c = CAcq 1).
    { destruct c; cbn in Hop.
      - destruct Hop as [Hop|Hop]; rewrite Hop in Hpub; cbn in Hpub; now subst.
      - rewrite Hop in Hpub. contradiction. }
    subst c. cbn in Hcb. zb. right. lia.
  - exact HC.
  - assert (c = CAcq 1) by (eapply pub_wk; eauto). subst c. cbn in Hcb. zb. cbn [taken_of].
    destruct HC as [HC|HC]; [left; rewrite HC; reflexivity|right].
    assert (iswait (pc (ls t)) = true) as Hw by (destruct Hwk as [[-> _]|[n [_ ->]]]; reflexivity).
    rewrite Hw in t1. lia.
  - pose proof (mem_cnt _ _ Hm) as Hc. rewrite Hpc in t1. cbn in t1.
    destruct HC as [HC|HC]; [rewrite HC in Hm; discriminate|right]. lia.
  - assert (c = CAcq 1) by (eapply pub_wk; eauto). subst c. cbn in Hcb. zb. right. lia.
  - destruct (sig_pre_pc _ _ _ _ _ _ _ Hsp) as (_ & _ & _ & _ & W5).
    pose proof (pub_budget _ _ _ _ _ _ _ (sg t (sigl g)) Hpub Hsp ltac:(lia)) as Hbud.
    destruct HC as [HC|HC]; [now left|]. destruct Hk as [Hk|Hk]; [right; lia|now left].
  - pose proof (pub_budget _ _ _ _ _ _ _ (sg t (sigl g)) Hpub Hsp ltac:(lia)) as Hbud.
    destruct HC as [HC|HC]; [congruence|right]. cbn [tot snd length]. lia.
  - now left.
  - pose proof (pub_budget _ _ _ _ _ _ _ (sg t (sigl g)) Hpub Hsp ltac:(lia)) as Hbud.
    destruct HC as [HC|HC]; [congruence|right]. cbn [tot snd length]. lia.
  - now left.
  - rewrite Hpc in t2. cbn in t2. destruct HC as [HC|HC]; [congruence|right]. cbn [tot snd]. lia.
Qed.

(* ------------------------------------------------------------------ sliding invariant (positional) *)
(* every queued waiter whose condition holds is within reach of the remaining notify iterations *)
Fixpoint covered (sat : nat -> Prop) (q : list nat) (s : Z) : Prop :=
  match q with [] => True | u :: q' => (sat u -> 1 <= s) /\ covered sat q' (s - 1) end.

Lemma cov_mono sat q : forall s s', s <= s' -> covered sat q s -> covered sat q s'.
Proof.
  induction q as [|u q IH]; cbn; [trivial|]. intros s s' Hs [H1 H2]. split; [intros H; specialize (H1 H); lia|].
  apply (IH (s - 1)); [lia|exact H2].
Qed.
Lemma cov_ext (sat sat' : nat -> Prop) q : (forall u, sat' u -> sat u) -> forall s, covered sat q s -> covered sat' q s.
Proof. intros He. induction q as [|u q IH]; cbn; [trivial|]. intros s [H1 H2]. split; [auto|apply IH; exact H2]. Qed.
Lemma cov_rm sat t q : forall s, covered sat q s -> covered sat (rm t q) s.
Proof.
  unfold rm. induction q as [|u q IH]; cbn; [trivial|]. intros s [H1 H2].
  destruct (Nat.eqb u t); cbn.
  - apply cov_mono with (s := s - 1); [lia|apply IH; exact H2].
  - split; [exact H1|apply IH; exact H2].
Qed.
Lemma cov_app sat t q : ~ sat t -> forall s, covered sat q s -> covered sat (q ++ [t]) s.
Proof. intros Ht. induction q as [|u q IH]; cbn; [tauto|]. intros s [H1 H2]. split; [exact H1|apply IH; exact H2]. Qed.
Lemma cov_len sat q : covered sat q (Z.of_nat (length q)).
Proof.
  induction q as [|u q IH]; [exact I|]. cbn [covered]. split; [intros _; cbn [length]; lia|].
  replace (Z.of_nat (length (u :: q)) - 1) with (Z.of_nat (length q)) by (cbn [length]; lia). exact IH.
Qed.
Lemma cov_zero sat q : forall s, covered sat q s -> s <= 0 -> forall u, In u q -> ~ sat u.
Proof.
  induction q as [|x q IH]; cbn; [tauto|]. intros s [H1 H2] Hs u [->|Hin] Hu.
  - specialize (H1 Hu). lia.
  - apply (IH (s - 1) H2 ltac:(lia) u Hin Hu).
Qed.

Definition satb (g : sem_g) (p : spc) : bool :=
  match p with Susp (CSl x) | Blk (CSl x) => x - maxd g <=? lower g | _ => false end.
Definition SI (g : sem_g) (ls : nat -> sem_l) : Prop :=
  covered (fun u => satb g (pc (ls u)) = true) (queue g) (tot (sigl g)).

Lemma satb_eq g g' p : lower g' = lower g -> maxd g' = maxd g -> satb g' p = satb g p.
Proof. intros H1 H2. unfold satb. now rewrite H1, H2. Qed.

Lemma sat_frame g g' (ls : nat -> sem_l) t l' :
  lower g' = lower g -> maxd g' = maxd g -> (satb g' (pc l') = true -> satb g (pc (ls t)) = true) ->
  forall u, satb g' (pc (upd ls t l' u)) = true -> satb g (pc (ls u)) = true.
Proof.
  intros H1 H2 H3 u. destruct (Nat.eq_dec u t) as [->|N]; [rewrite upd_eq; exact H3|].
  rewrite upd_neq by auto. now rewrite (satb_eq g g').
Qed.

Lemma satb_blocked g g' p c : lower g' = lower g -> maxd g' = maxd g ->
  (p = Susp c \/ exists n, p = TSleep n) -> cond_blocked g c = true -> satb g' p = false.
Proof.
  intros H1 H2 [->|[n ->]] Hc; [|reflexivity]. destruct c; [reflexivity|]. cbn in *. rewrite H1, H2.
  zb. apply Z.leb_gt. lia.
Qed.

Lemma eff_SI kind t g ls g' l' :
  SI g ls -> (forall u, TI kind g u (pc (ls u))) -> eff kind t g (ls t) g' l' -> SI g' (upd ls t l').
Proof.
  intros HS HT He. unfold SI in *.
  pose proof (tot_nonneg (sigl g)) as Htn. pose proof (sg_nonneg t (sigl g)) as Hsn.
  pose proof (tot_rm t (sigl g)) as Htr. pose proof (tot_nonneg (rm_sig t (sigl g))) as Htn'.
  destruct (HT t) as [t1 t2 _ _ _ _ _ _ _].
  assert (Hsig : forall k v1 lo1 md1 chk, sig_pre g (ls t) k v1 lo1 md1 chk -> lower g' = lo1 -> maxd g' = md1 ->
             satb g' (pc l') = false ->
             covered (fun u => satb g' (pc (upd ls t l' u)) = true) (queue g) (tot (sigl g) - sg t (sigl g) + Z.max 0 k)).
  { intros k v1 lo1 md1 chk Hsp El Em Hf.
    destruct (sig_pre_pc _ _ _ _ _ _ _ Hsp) as (_ & _ & _ & _ & W5).
    destruct Hsp as [[Hpc [n (Hc & Hn & -> & -> & -> & -> & _)]]|[[Hpc (Hc & -> & _)]|[Hpc (-> & -> & ->)]]].
    - eapply cov_mono; [|eapply cov_ext; [|exact HS]]; [lia|].
      apply sat_frame; auto. rewrite Hf. discriminate.
    - eapply cov_mono; [|apply cov_len]. lia.
    - eapply cov_mono; [|eapply cov_ext; [|exact HS]]; [lia|].
      apply sat_frame; auto. rewrite Hf. discriminate. }
  destruct He as [Eg El | w Hpc Hpc' Ev | d Hpc Hpc' Hh Hd Ev | c Hpc Hh Hpc' Hcb Hop Ev | c Hpc Hpc' Ev
                 | c Hwk Hpc' Hh Hcb Ev | n Hpc Hpc' Hh Hm Ev | c Hwk Hpc' Hh Hcb Ev
                 | k v1 lo1 md1 chk Hsp Hh Hk Hpc' Ev | k v1 lo1 md1 chk w q' Hsp Hh Hk Hq Hq' Hkw Hpc' Ev
                 | k v1 lo1 md1 chk w Hsp Hh Hk Hq Hkw Hpc' Ev | k v1 lo1 md1 chk w q' Hsp Hh Hk Hq Hkw Hb Hpc' Ev
                 | w chk k Hpc Hb Hq Hpc' Ev | w chk k Hpc Hb Hq Hpc' Ev ];
    try (destruct Ev as (Ev & El & Em & Eq & Eh & Ea & Ep & Es); rewrite Eq, Es).
  - subst g' l'. eapply cov_ext; [|exact HS]. intros u. destruct (Nat.eq_dec u t) as [->|N]; [now rewrite upd_eq|now rewrite upd_neq by auto].
  - eapply cov_ext; [|exact HS]. apply sat_frame; auto. rewrite Hpc'. discriminate.
  - eapply cov_ext; [|exact HS]. apply sat_frame; auto. rewrite Hpc'. discriminate.
  - assert (Hf : satb g' (pc l') = false).
    { apply (satb_blocked g g' (pc l') c); auto. destruct Hpc' as [->|[n [_ ->]]]; eauto. }
    apply cov_app.
    + rewrite upd_eq, Hf. discriminate.
    + eapply cov_ext; [|exact HS]. apply sat_frame; auto. rewrite Hf. discriminate.
  - eapply cov_ext; [|exact HS]. apply sat_frame; auto. rewrite Hpc, Hpc'. cbn. now rewrite El, Em.
  - apply cov_rm. eapply cov_ext; [|exact HS]. apply sat_frame; auto. rewrite Hpc'. discriminate.
  - apply cov_rm. eapply cov_ext; [|exact HS]. apply sat_frame; auto. rewrite Hpc'. discriminate.
  - assert (Hf : satb g' (pc l') = false).
    { apply (satb_blocked g g' (pc l') c); auto. rewrite Hpc'.
      destruct Hwk as [[-> _]|[n [_ ->]]]; cbn; eauto. }
    apply cov_app.
    + rewrite upd_eq, Hf. discriminate.
    + apply cov_rm. eapply cov_ext; [|exact HS]. apply sat_frame; auto. rewrite Hf. discriminate.
  - specialize (Hsig _ _ _ _ _ Hsp El Em ltac:(rewrite Hpc'; reflexivity)).
    destruct Hk as [Hk|Hk]; [|rewrite Hk; exact I].
    eapply cov_mono; [|exact Hsig]. lia.
  - specialize (Hsig _ _ _ _ _ Hsp El Em ltac:(rewrite Hpc'; reflexivity)).
    rewrite Hq in Hsig. destruct Hsig as [_ Hsig]. eapply cov_mono; [|exact Hsig]. cbn [tot snd]. lia.
  - exact I.
  - specialize (Hsig _ _ _ _ _ Hsp El Em ltac:(rewrite Hpc'; reflexivity)).
    rewrite Hq in Hsig. destruct Hsig as [_ Hsig]. eapply cov_mono; [|exact Hsig]. cbn [tot snd]. lia.
  - exact I.
  - rewrite Hpc in t2. cbn in t2. eapply cov_mono; [|eapply cov_ext; [|exact HS]]; [cbn [tot snd]; lia|].
    apply sat_frame; auto. rewrite Hpc'. discriminate.
Qed.

(* ------------------------------------------------------------------ the combined invariant *)
Definition no_timed (o : sop) : Prop := match o with TimedAcquire _ => False | _ => True end.
Definition NT (kind : nat -> akind) (u : nat) (l : sem_l) : Prop := kind u = OsThr -> Forall no_timed (todo l).

Lemma todo_step kind o t g l :
  todo (snd (sem_tstep kind o t g l)) = todo l \/ todo (snd (sem_tstep kind o t g l)) = tl (todo l).
Proof.
  unfold sem_tstep, sl_notify, wait_or_take, fail_op, notify, after_resume, finish_sig.
  destruct (pc l); [destruct (todo l) as [|[] ?] eqn:Htd| | |destruct o| |];
    repeat match goal with
           | |- context [if ?b then _ else _] => destruct b
           | |- context [match ?x with _ => _ end] => destruct x
           end; cbn; rewrite ?Htd; cbn; auto.
Qed.

Lemma Forall_tl {A} (P : A -> Prop) l : Forall P l -> Forall P (tl l).
Proof. destruct l; cbn; [auto|]. intros H. now inversion H. Qed.

Lemma todo_step_forall (P : sop -> Prop) kind o t g l :
  Forall P (todo l) -> Forall P (todo (snd (sem_tstep kind o t g l))).
Proof. intros H. destruct (todo_step kind o t g l) as [-> | ->]; [exact H|now apply Forall_tl]. Qed.

Record PI (kind : nat -> akind) (v0 lo0 md : Z) (g : sem_g) (ls : nat -> sem_l) : Prop := {
  pi_g : GInv v0 lo0 md g;
  pi_l : forall u, lwf (ls u);
  pi_t : forall u, TI kind g u (pc (ls u));
  pi_s : SI g ls;
  pi_n : forall u, NT kind u (ls u)
}.

Lemma PI_step kind v0 lo0 md o t g ls :
  PI kind v0 lo0 md g ls ->
  PI kind v0 lo0 md (fst (sem_tstep kind o t g (ls t))) (upd ls t (snd (sem_tstep kind o t g (ls t)))).
Proof.
  intros [Hg Hl Ht Hs Hn].
  pose proof (sem_step_inv v0 lo0 md kind o t g (ls t) Hg (Hl t)) as [Hg' Hl'].
  pose proof (sem_tstep_eff kind o t g (ls t) (gi_nonneg _ _ _ _ Hg) (Hl t)) as He.
  constructor.
  - exact Hg'.
  - intros u. destruct (Nat.eq_dec u t) as [->|N]; [now rewrite upd_eq|rewrite upd_neq by auto; apply Hl].
  - now apply eff_TI with (g := g).
  - eapply eff_SI; eauto.
  - intros u. destruct (Nat.eq_dec u t) as [->|N]; [rewrite upd_eq|rewrite upd_neq by auto; apply Hn].
    intros Hk. apply todo_step_forall. now apply Hn.
Qed.

Definition pubs (ls : nat -> sem_l) : Prop := forall u, Forall pub_op (todo (ls u)).

Lemma PIpub_step kind v0 lo0 md o t g ls :
  PI kind v0 lo0 md g ls /\ pubs ls /\ CI g ->
  let g' := fst (sem_tstep kind o t g (ls t)) in let ls' := upd ls t (snd (sem_tstep kind o t g (ls t))) in
  PI kind v0 lo0 md g' ls' /\ pubs ls' /\ CI g'.
Proof.
  intros (HP & Hpub & HC). cbv zeta. split; [now apply PI_step|]. split.
  - intros u. destruct (Nat.eq_dec u t) as [->|N]; [rewrite upd_eq|rewrite upd_neq by auto; apply Hpub].
    apply todo_step_forall. apply Hpub.
  - destruct HP as [Hg Hl Ht Hs Hn]. eapply eff_CI; eauto.
    + apply pub_cur. apply Hpub.
    + apply sem_tstep_eff; [exact (gi_nonneg _ _ _ _ Hg)|apply Hl].
Qed.

Definition os_untimed (kind : nat -> akind) (progs : nat -> list sop) : Prop :=
  forall t, kind t = OsThr -> Forall no_timed (progs t).

Lemma TI_init kind v lo md u : TI kind (sem_init v lo md) u Idle.
Proof.
  constructor; cbn; try reflexivity; try lia; try discriminate; auto;
    try (split; discriminate); try (intros ? ? ? ?; discriminate).
Qed.

Lemma PI_init kind v0 lo0 md progs : 0 <= v0 -> wf_progs progs -> os_untimed kind progs ->
  PI kind v0 lo0 md (sem_init v0 lo0 md) (sem_locals progs).
Proof.
  intros Hv Hw Ho. constructor.
  - now apply GInv_init.
  - intros u. now apply lwf_init.
  - intros u. apply TI_init.
  - exact I.
  - intros u Hk. apply Ho. exact Hk.
Qed.

Lemma PI_run kind sched v0 lo0 md progs : 0 <= v0 -> wf_progs progs -> os_untimed kind progs ->
  let c := sem_run kind sched v0 lo0 md progs in PI kind v0 lo0 md (fst c) (snd c).
Proof.
  intros Hv Hw Ho. cbv zeta. unfold sem_run.
  apply (run_inv _ _ _ (sem_tstep kind) (PI kind v0 lo0 md)).
  - intros o t g ls. apply PI_step.
  - now apply PI_init.
Qed.

Definition pub_progs (progs : nat -> list sop) : Prop := forall t, Forall pub_op (progs t).

Lemma pub_wf progs : pub_progs progs -> wf_progs progs.
Proof.
  intros H t. eapply Forall_impl; [|apply H]. intros o. destruct o; cbn; auto.
Qed.

Lemma PIpub_run kind sched v0 lo0 md progs : 0 <= v0 -> pub_progs progs -> os_untimed kind progs ->
  let c := sem_run kind sched v0 lo0 md progs in PI kind v0 lo0 md (fst c) (snd c) /\ pubs (snd c) /\ CI (fst c).
Proof.
  intros Hv Hw Ho. cbv zeta. unfold sem_run.
  apply (run_inv _ _ _ (sem_tstep kind) (fun g ls => PI kind v0 lo0 md g ls /\ pubs ls /\ CI g)).
  - intros o t g ls. apply PIpub_step.
  - split; [apply PI_init; auto; now apply pub_wf|]. split; [exact Hw|left; reflexivity].
Qed.

(* ------------------------------------------------------------------ what a stuck state looks like *)
Definition tstuck (kind : nat -> akind) (t : nat) (g : sem_g) (l : sem_l) : Prop :=
  forall o, sem_tstep kind o t g l = (g, l).

Lemma stuck_susp kind t g l c : tstuck kind t g l -> pc l = Susp c -> False.
Proof.
  intros H Hpc. specialize (H true). unfold sem_tstep in H. rewrite Hpc in H.
  apply (f_equal (fun r => pc (snd r))) in H. cbn in H. congruence.
Qed.

Lemma stuck_reswait kind t g l w chk k : tstuck kind t g l -> pc l = ResWait w chk k -> blocked (ag g w) = false.
Proof.
  intros H Hpc. specialize (H true). unfold sem_tstep in H. rewrite Hpc in H.
  destruct (blocked (ag g w)); [exfalso|reflexivity].
  unfold after_resume, finish_sig in H. apply (f_equal (fun r => pc (snd r))) in H.
  destruct (queue _); cbn in H; congruence.
Qed.

Lemma mem_false_rm t q : mem t q = false -> rm t q = q.
Proof.
  unfold mem, rm. induction q as [|x q IH]; cbn; [reflexivity|].
  rewrite (Nat.eqb_sym x t). destruct (Nat.eqb t x); cbn; [discriminate|]. intros H. now rewrite IH.
Qed.

Lemma stuck_free kind t g l : tstuck kind t g l -> holder g = None -> isres (pc l) = false ->
  (pc l = Idle /\ todo l = []) \/ (exists c, pc l = Blk c /\ blocked (ag g t) = true).
Proof.
  intros H Hh Hr. specialize (H true). unfold sem_tstep, is_free in H. rewrite Hh in H.
  destruct (pc l) as [|c|c|n|chk k|w chk k] eqn:Hpc.
  - destruct (todo l) as [|op rest] eqn:Htd; [now left|exfalso].
    apply (f_equal (fun r => (pc (snd r), length (todo (snd r))))) in H. cbv beta in H. cbn [snd] in H. rewrite Hpc, Htd in H.
    unfold sl_notify, wait_or_take, fail_op, notify, after_resume, finish_sig in H.
    destruct op;
      repeat match type of H with
             | context [if ?b then _ else _] => destruct b
             | context [match ?x with _ => _ end] => destruct x
             end; cbn in H; rewrite ?Htd in H; cbn in H; inversion H; lia.
  - exfalso. apply (f_equal (fun r => pc (snd r))) in H. cbn in H. congruence.
  - cbn [andb] in H. destruct (blocked (ag g t)) eqn:Hb; [right; eauto|exfalso]. cbn [negb] in H.
    apply (f_equal (fun r => pc (snd r))) in H. unfold wait_or_take in H.
    destruct (cond_blocked _ _); cbn in H; congruence.
  - exfalso. destruct (mem t (queue g)) eqn:Hm.
    + apply (f_equal (fun r => pc (snd r))) in H. cbn in H. congruence.
    + destruct (value (arrive g t) <? n).
      * apply (f_equal (fun r => length (queue (fst r)))) in H. cbn in H.
        rewrite (mem_false_rm _ _ Hm), app_length in H. cbn in H. lia.
      * apply (f_equal (fun r => pc (snd r))) in H. cbn in H. congruence.
  - exfalso. apply (f_equal (fun r => pc (snd r))) in H. cbv beta in H. cbn [snd] in H. rewrite Hpc in H.
    unfold notify, after_resume, finish_sig in H.
    repeat match type of H with
           | context [if ?b then _ else _] => destruct b
           | context [match ?x with _ => _ end] => destruct x
           end; cbn in H; try discriminate; inversion H; lia.
  - discriminate.
Qed.

Lemma stuck_holder kind v0 lo0 md g ls : PI kind v0 lo0 md g ls -> stuck kind g ls -> holder g = None.
Proof.
  intros [Hg Hl Ht Hs Hn] St. destruct (holder g) as [s|] eqn:Hh; [exfalso|reflexivity].
  destruct (Ht s) as [_ _ _ _ _ s6 s7 _ _]. pose proof (proj1 s6 Hh) as Hres.
  destruct (pc (ls s)) as [| | | | |w chk k] eqn:Hpc; try discriminate.
  specialize (s7 _ _ _ eq_refl).
  assert (Hb : blocked (ag g w) = false) by (eapply stuck_reswait; [intros o; apply St|exact Hpc]).
  assert (Htg : target g = Some w) by (unfold target; rewrite Hh; exact s7).
  destruct (Ht w) as [w1 _ _ _ _ _ _ _ w9]. destruct (w9 Htg) as [Hkw Hbl].
  pose proof (cnt_hd _ _ s7) as Hc.
  destruct (pc (ls w)) as [|c|c|n| |] eqn:Hpw; cbn in w1; try lia.
  - eapply stuck_susp; [intros o; apply St|exact Hpw].
  - rewrite Hbl in Hb; [discriminate|reflexivity].
  - destruct (Hl w) as [_ Hp]. unfold pc_ok in Hp. rewrite Hpw in Hp. destruct Hp as [Hcur Hne].
    specialize (Hn w Hkw). unfold cur_op in Hcur. destruct (todo (ls w)) as [|o rest]; [congruence|].
    cbn in Hcur. subst o. inversion Hn as [|? ? Hno _]. exact Hno.
Qed.

Lemma stuck_shape kind v0 lo0 md g ls : PI kind v0 lo0 md g ls -> stuck kind g ls ->
  forall t, (pc (ls t) = Idle /\ todo (ls t) = []) \/ (exists c, pc (ls t) = Blk c /\ blocked (ag g t) = true).
Proof.
  intros HP St t. pose proof (stuck_holder _ _ _ _ _ _ HP St) as Hh. destruct HP as [Hg Hl Ht Hs Hn].
  apply (stuck_free kind t g (ls t)); [intros o; apply St|exact Hh|].
  destruct (Ht t) as [_ _ _ _ _ t6 _ _ _]. destruct (isres (pc (ls t))); [|reflexivity].
  rewrite Hh in t6. destruct t6 as [_ t6]. specialize (t6 eq_refl). discriminate.
Qed.

Lemma stuck_popped kind v0 lo0 md g ls : PI kind v0 lo0 md g ls -> stuck kind g ls -> popped g = [].
Proof.
  intros HP St. pose proof (stuck_holder _ _ _ _ _ _ HP St) as Hh.
  pose proof (stuck_shape _ _ _ _ _ _ HP St) as Hsh. destruct HP as [Hg Hl Ht Hs Hn].
  destruct (popped g) as [|w p] eqn:Hp; [reflexivity|exfalso].
  assert (Hc : (1 <= cnt w (popped g))%nat) by (rewrite Hp, cnt_cons_same; lia).
  destruct (Ht w) as [w1 _ _ _ _ _ _ w8 _].
  destruct (Hsh w) as [[Hpc _]|[c [Hpc Hb]]]; rewrite Hpc in *; cbn in w1; [lia|].
  assert (Hc1 : cnt w (popped g) = 1%nat) by lia. destruct (w8 Hc1) as [_ w8b].
  rewrite (target_none g Hh) in w8b. destruct (w8b eq_refl); congruence.
Qed.

Lemma stuck_sigl kind v0 lo0 md g ls : PI kind v0 lo0 md g ls -> stuck kind g ls -> tot (sigl g) = 0.
Proof.
  intros HP St. pose proof (stuck_shape _ _ _ _ _ _ HP St) as Hsh. destruct HP as [Hg Hl Ht Hs Hn].
  apply tot_zero. intros u. destruct (Ht u) as [_ u2 _ _ _ _ _ _ _].
  destruct (Hsh u) as [[Hpc _]|[c [Hpc _]]]; rewrite Hpc in u2; exact u2.
Qed.

Lemma stuck_blocked_queued kind v0 lo0 md g ls t c : PI kind v0 lo0 md g ls -> stuck kind g ls ->
  pc (ls t) = Blk c -> In t (queue g).
Proof.
  intros HP St Hpc. pose proof (stuck_popped _ _ _ _ _ _ HP St) as Hp. destruct HP as [Hg Hl Ht Hs Hn].
  destruct (Ht t) as [t1 _ _ _ _ _ _ _ _]. rewrite Hpc, Hp in t1. cbn in t1. apply in_cnt. lia.
Qed.

(* ------------------------------------------------------------------ C08: no acquirer blocked with permits *)
Definition finished (l : sem_l) : Prop := pc l = Idle /\ todo l = [].

Theorem no_blocked_with_permits kind sched v0 lo0 md progs :
  0 <= v0 -> pub_progs progs -> os_untimed kind progs ->
  let c := sem_run kind sched v0 lo0 md progs in
  stuck kind (fst c) (snd c) ->
  (forall t n, waiting_for (snd c t) (CAcq n) -> value (fst c) < n) /\
  (forall t, finished (snd c t) \/ (pc (snd c t) = Blk (CAcq 1) /\ value (fst c) = 0)) /\
  value (fst c) = v0 + released (fst c) - acquired (fst c) /\
  holder (fst c) = None /\ popped (fst c) = [] /\ tot (sigl (fst c)) = 0.
Proof.
  intros Hv Hpub Hos c St.
  destruct (PIpub_run kind sched v0 lo0 md progs Hv Hpub Hos) as (HP & Hpubs & HC). fold c in HP, Hpubs, HC.
  pose proof (stuck_holder _ _ _ _ _ _ HP St) as Hh.
  pose proof (stuck_shape _ _ _ _ _ _ HP St) as Hsh.
  pose proof (stuck_popped _ _ _ _ _ _ HP St) as Hp.
  pose proof (stuck_sigl _ _ _ _ _ _ HP St) as Hs.
  assert (Hblk : forall t c', pc (snd c t) = Blk c' -> c' = CAcq 1 /\ value (fst c) = 0).
  { intros t c' Hpc. pose proof (stuck_blocked_queued _ _ _ _ _ _ t c' HP St Hpc) as Hin.
    destruct HP as [Hg Hl Ht _ _]. split.
    - eapply (pub_wk (snd c t) c' false); [apply Hl|apply pub_cur; apply Hpubs|left; auto].
    - destruct HC as [HC|HC]; [rewrite HC in Hin; destruct Hin|].
      rewrite Hp, Hs in HC. cbn in HC. pose proof (gi_nonneg _ _ _ _ Hg). lia. }
  split; [|split; [|split; [|auto]]].
  - intros t n Hw. destruct (Hsh t) as [[Hpc _]|[c' [Hpc _]]].
    + destruct Hw as [Hw|[Hw|[n' [_ Hw]]]]; congruence.
    + destruct (Hblk t c' Hpc) as [-> Hv0].
      destruct Hw as [Hw|[Hw|[n' [_ Hw]]]]; try congruence. rewrite Hpc in Hw. injection Hw as <-. lia.
  - intros t. destruct (Hsh t) as [Hf|[c' [Hpc _]]]; [now left|right].
    destruct (Hblk t c' Hpc) as [-> Hv0]. auto.
  - destruct HP as [Hg _ _ _ _]. pose proof (gi_cons _ _ _ _ Hg). lia.
Qed.

(* ------------------------------------------------------------------ C08: sliding wait progress *)
Theorem sliding_wait_progress kind sched v0 lo0 md progs :
  0 <= v0 -> wf_progs progs -> os_untimed kind progs ->
  let c := sem_run kind sched v0 lo0 md progs in
  stuck kind (fst c) (snd c) ->
  (forall t u, waiting_for (snd c t) (CSl u) -> lower (fst c) < u - maxd (fst c)) /\
  (forall t, finished (snd c t) \/ exists w, pc (snd c t) = Blk w /\ forall u, w = CSl u -> lower (fst c) < u - maxd (fst c)).
Proof.
  intros Hv Hwf Hos c St.
  pose proof (PI_run kind sched v0 lo0 md progs Hv Hwf Hos) as HP. fold c in HP.
  pose proof (stuck_shape _ _ _ _ _ _ HP St) as Hsh.
  pose proof (stuck_sigl _ _ _ _ _ _ HP St) as Hs.
  assert (Hblk : forall t u, pc (snd c t) = Blk (CSl u) -> lower (fst c) < u - maxd (fst c)).
  { intros t u Hpc. pose proof (stuck_blocked_queued _ _ _ _ _ _ t _ HP St Hpc) as Hin.
    destruct HP as [Hg _ _ HS _]. unfold SI in HS. rewrite Hs in HS.
    pose proof (cov_zero _ _ _ HS ltac:(lia) t Hin) as Hns. cbv beta in Hns. rewrite Hpc in Hns. cbn in Hns.
    destruct (u - maxd (fst c) <=? lower (fst c)) eqn:E; [now elim Hns|]. zb. lia. }
  split.
  - intros t u Hw. destruct (Hsh t) as [[Hpc _]|[c' [Hpc _]]].
    + destruct Hw as [Hw|[Hw|[n' [Hw _]]]]; congruence.
    + destruct Hw as [Hw|[Hw|[n' [Hw _]]]]; try congruence. rewrite Hpc in Hw. injection Hw as ->. eapply Hblk; eauto.
  - intros t. destruct (Hsh t) as [Hf|[c' [Hpc _]]]; [now left|right].
    exists c'. split; [exact Hpc|]. intros u ->. eapply Hblk; eauto.
Qed.

(* ------------------------------------------------------------------ detail API with mixed counts: refuted *)
(* wait(l,2) and wait(l,1) queued (in this order), signal(l,1): the notify loop pops only the front
   waiter (count 2), which re-tests, finds 1 < 2 and queues again behind the count-1 waiter;
   the signaller's loop is over (i < count).  Stuck with value = 1 and a count-1 waiter blocked.
   OS-thread agents, so that the lock-step harness replays exactly this schedule on the real code
   (harness/c08_replay.cpp C 0 0 0 "A2;A1;R1" 0,0,1,1,2,2,0,0); the same schedule works for tasks. *)
Definition mixed_progs (t : nat) : list sop :=
  match t with 0%nat => [Acquire 2] | 1%nat => [Acquire 1] | 2%nat => [Release 1] | _ => [] end.
Definition all_task (_ : nat) : akind := Task.
Definition mixed_sched : list (nat * bool) :=
  [(0,false);(0,false);(1,false);(1,false);(2,false);(2,false);(0,false);(0,false)]%nat.

Lemma no_blocked_with_permits_mixed_counts_refuted :
  let c := sem_run all_os mixed_sched 0 0 0 mixed_progs in
  wf_progs mixed_progs /\ os_untimed all_os mixed_progs /\
  stuck all_os (fst c) (snd c) /\ waiting_for (snd c 1%nat) (CAcq 1) /\ value (fst c) = 1 /\
  pc (snd c 0%nat) = Blk (CAcq 2) /\ pc (snd c 1%nat) = Blk (CAcq 1) /\ queue (fst c) = [1; 0]%nat /\
  released (fst c) = 1 /\ acquired (fst c) = 0 /\ holder (fst c) = None /\ popped (fst c) = [] /\ sigl (fst c) = [].
Proof.
  cbv zeta. split; [|split].
  - intros t. destruct t as [|[|[|t]]]; cbn; repeat constructor. cbn. lia.
  - intros t Hk. destruct t as [|[|[|t]]]; cbn; repeat constructor; cbn; auto.
  - set (c := sem_run all_os mixed_sched 0 0 0 mixed_progs). vm_compute in c. subst c. cbn [fst snd].
    split; [|repeat split; try reflexivity; right; left; reflexivity].
    intros t o. destruct t as [|[|[|t]]]; destruct o; vm_compute; reflexivity.
Qed.

(* ------------------------------------------------------------------ non-vacuity *)
Definition ex_progs (t : nat) : list sop :=
  match t with 0%nat => [Acquire 1; Acquire 1] | 1%nat => [Release 1; StaleResume 0] | _ => [] end.
Definition ex_kind (t : nat) : akind := match t with 0%nat => OsThr | _ => Task end.

Lemma progress_example :
  pub_progs ex_progs /\ os_untimed ex_kind ex_progs /\
  let c := sem_run ex_kind [(0,false);(1,false);(0,false);(1,false);(0,false);(0,false);(1,false);(0,false);(0,false)]%nat 0 0 0 ex_progs in
  stuck ex_kind (fst c) (snd c) /\ pc (snd c 0%nat) = Blk (CAcq 1) /\ value (fst c) = 0 /\
  released (fst c) = 1 /\ acquired (fst c) = 1 /\ finished (snd c 1%nat) /\ todo (snd c 0%nat) = [Acquire 1].
Proof.
  split; [|split].
  - intros t. destruct t as [|[|t]]; cbn; repeat constructor. cbn. lia.
  - intros t Hk. destruct t as [|[|t]]; cbn; repeat constructor; cbn; auto.
  - cbv zeta. set (c := sem_run ex_kind _ 0 0 0 ex_progs). vm_compute in c. subst c. cbn [fst snd].
    split; [|repeat split; reflexivity].
    intros t o. destruct t as [|[|t]]; destruct o; vm_compute; reflexivity.
Qed.

Definition sl_progs (t : nat) : list sop :=
  match t with 0%nat => [SlWait 5] | 1%nat => [SlWait 3] | 2%nat => [SlSignal 3] | _ => [] end.

Lemma sliding_example :
  wf_progs sl_progs /\ os_untimed all_os sl_progs /\
  let c := sem_run all_os [(0,false);(0,false);(1,false);(1,false);(2,false);(2,false);(0,false);(1,false);(0,false)]%nat 0 0 1 sl_progs in
  stuck all_os (fst c) (snd c) /\ pc (snd c 0%nat) = Blk (CSl 5) /\ finished (snd c 1%nat) /\ finished (snd c 2%nat) /\
  lower (fst c) = 3 /\ maxd (fst c) = 1.
Proof.
  split; [|split].
  - intros t. destruct t as [|[|[|t]]]; cbn; repeat constructor.
  - intros t Hk. destruct t as [|[|[|t]]]; cbn; repeat constructor; cbn; auto.
  - cbv zeta. set (c := sem_run all_os _ 0 0 1 sl_progs). vm_compute in c. subst c. cbn [fst snd].
    split; [|repeat split; reflexivity].
    intros t o. destruct t as [|[|[|t]]]; destruct o; vm_compute; reflexivity.
Qed.

(* ------------------------------------------------------------------ set_max_difference / signal_all *)
(* programs without set_max_difference: every schedule is quiet, so the lower limit never decreases
   and max_difference keeps its value along the whole run (corollary of sliding_signal_monotone) *)
Definition no_setmd (o : sop) : Prop := match o with SlSetMaxDiff _ _ => False | _ => True end.

Lemma quiet_no_setmd kind s : forall c, (forall t, Forall no_setmd (todo (snd c t))) -> quiet kind s c.
Proof.
  induction s as [|[t o] s IH]; intros c Hc; [exact I|]. cbn [quiet fst]. split.
  - intros [_ (md & lo & rest & Htd)]. specialize (Hc t). rewrite Htd in Hc. inversion Hc as [|? ? Hx _]. exact Hx.
  - apply IH. intros u. destruct c as [g ls]. cbn [step fst snd] in *.
    destruct (sem_tstep kind o t g (ls t)) as [g' l'] eqn:E. cbn [snd].
    destruct (Nat.eq_dec u t) as [->|N]; [rewrite upd_eq|rewrite upd_neq by auto; apply Hc].
    replace l' with (snd (sem_tstep kind o t g (ls t))) by (rewrite E; reflexivity).
    apply todo_step_forall. apply Hc.
Qed.

Theorem sliding_signal_monotone_no_setmd kind s1 s2 c :
  (forall t, Forall no_setmd (todo (snd c t))) ->
  lower (fst (run (sem_tstep kind) s1 c)) <= lower (fst (run (sem_tstep kind) (s1 ++ s2) c)) /\
  maxd (fst (run (sem_tstep kind) (s1 ++ s2) c)) = maxd (fst c).
Proof.
  intros Hc.
  pose proof (sliding_signal_monotone kind [] (s1 ++ s2) c (quiet_no_setmd kind _ c Hc)) as [_ H0].
  cbn [app run fold_left] in H0.
  assert (Hq : quiet kind s2 (run (sem_tstep kind) s1 c)).
  { apply quiet_no_setmd. intros t.
    assert (G : forall s c0, (forall t, Forall no_setmd (todo (snd c0 t))) ->
                forall t, Forall no_setmd (todo (snd (run (sem_tstep kind) s c0) t))).
    { clear. induction s as [|[t o] s IH]; intros c0 H0; [exact H0|]. rewrite run_cons. apply IH.
      intros u. destruct c0 as [g ls]. cbn [step fst snd] in *.
      destruct (sem_tstep kind o t g (ls t)) as [g' l'] eqn:E. cbn [snd].
      destruct (Nat.eq_dec u t) as [->|N]; [rewrite upd_eq|rewrite upd_neq by auto; apply H0].
      replace l' with (snd (sem_tstep kind o t g (ls t))) by (rewrite E; reflexivity).
      apply todo_step_forall. apply H0. }
    apply G. exact Hc. }
  destruct (sliding_signal_monotone kind s1 s2 c Hq) as [H1 _]. split; [exact H1|exact H0].
Qed.

(* the former counterexample ([SlWait 5] [SlSetMaxDiff 10 0], max_difference 1, lower 0): with the
   repaired set_max_difference (it notifies like signal) the waiter is woken, re-tests 5 - 10 <= 0
   and returns; before the repair the state after the first three steps was stuck with thread 0
   blocked (replayed on the real code: c08_replay S 0 0 1 "S5;M10:0" 0,0,1) *)
Definition smd_progs (t : nat) : list sop :=
  match t with 0%nat => [SlWait 5] | 1%nat => [SlSetMaxDiff 10 0; SlSignalAll] | _ => [] end.

Lemma set_max_difference_example :
  wf_progs smd_progs /\ os_untimed all_os smd_progs /\
  (let c := sem_run all_os [(0,false);(0,false);(1,false)]%nat 0 0 1 smd_progs in
   is_blocked_thread c 0%nat = false /\ pc (snd c 0%nat) = Blk (CSl 5) /\ lower (fst c) = 0 /\ maxd (fst c) = 10 /\
   popped (fst c) = [0%nat] /\ ~ stuck all_os (fst c) (snd c)) /\
  (let c := sem_run all_os [(0,false);(0,false);(1,false);(0,false);(1,false)]%nat 0 0 1 smd_progs in
   stuck all_os (fst c) (snd c) /\ finished (snd c 0%nat) /\ finished (snd c 1%nat) /\
   map ev_op (slog (fst c)) = [SlSignalAll; SlWait 5; SlSetMaxDiff 10 0] /\
   map ev_lower (slog (fst c)) = [0; 0; 0] /\ map ev_maxd (slog (fst c)) = [10; 10; 10]).
Proof.
  split; [|split; [|split]].
  - intros t. destruct t as [|[|t]]; cbn; repeat constructor.
  - intros t Hk. destruct t as [|[|t]]; cbn; repeat constructor; cbn; auto.
  - cbv zeta. set (c := sem_run all_os _ 0 0 1 smd_progs). vm_compute in c. subst c. cbn [fst snd].
    repeat split; try reflexivity.
    intros St. specialize (St 0%nat false). vm_compute in St. discriminate.
  - cbv zeta. set (c := sem_run all_os _ 0 0 1 smd_progs). vm_compute in c. subst c. cbn [fst snd].
    split; [|repeat split; reflexivity].
    intros t o. destruct t as [|[|t]]; destruct o; vm_compute; reflexivity.
Qed.

(* set_max_difference may LOWER the lower limit (the unguarded "lower never decreases" is false):
   signal(7) then set_max_difference(2, 3) on sliding_semaphore(1, 0); a wait(6) that would have
   passed before (6 - 1 <= 7) now blocks (6 - 2 > 3), try_wait(5) is still true (5 - 2 <= 3) *)
Definition lowers_progs (t : nat) : list sop :=
  match t with 0%nat => [SlSignal 7; SlSetMaxDiff 2 3; SlTryWait 5; SlWait 6] | _ => [] end.

Lemma set_max_difference_lowers_example :
  let c1 := sem_run all_os [(0,false)]%nat 0 0 1 lowers_progs in
  let c2 := sem_run all_os [(0,false);(0,false)]%nat 0 0 1 lowers_progs in
  let c := sem_run all_os [(0,false);(0,false);(0,false);(0,false);(0,false)]%nat 0 0 1 lowers_progs in
  lower (fst c1) = 7 /\ maxd (fst c1) = 1 /\ lower (fst c2) = 3 /\ maxd (fst c2) = 2 /\
  ~ quiet all_os [(0,false)]%nat c1 /\
  stuck all_os (fst c) (snd c) /\ pc (snd c 0%nat) = Blk (CSl 6) /\ is_blocked_thread c 0%nat = true /\
  map ev_res (slog (fst c)) = [true; true; true].
Proof.
  cbv zeta. repeat split; try (vm_compute; reflexivity).
  - intros [H _]. apply H. split; [reflexivity|]. vm_compute. eauto.
  - set (c := sem_run all_os _ 0 0 1 lowers_progs). vm_compute in c. subst c. cbn [fst snd].
    intros t o. destruct t as [|t]; destruct o; vm_compute; reflexivity.
Qed.
