(* Proofs/SchedYProofs.v — C01: the scheduler model extended with yield_to (Model/SchedY.v).
   Part 1: on programs without YieldTo the runs of the extended model are the runs of the
           fragment model (so every theorem of Properties_C01 / C02 holds of the extended model
           for such programs).
   Part 2: for ALL programs of the extended model: the weakened handle invariant XInv — a live
           (pending / pending_boost / active) task has at least one CURRENT handle; a handle that
           the code drops (failed pending->active CAS, failed store, leftover of a non-pending
           task) is never the last current one — hence nothing is dropped in a stuck state.
   Part 3: witnesses: the tagged CAS fails and absorbs a duplicate; single runner / entered once
           are FALSE of the extended model (yield_to + pending_boost + set_thread_state). *)
From Coq Require Import List NArith Bool Arith Lia.
From Pika Require Import Base.Conc Gen.GenEnums Model.Sched Model.SchedY Proofs.SchedProofs
  Proofs.SchedWakeProofs Proofs.SchedDeltaProofs.
Import ListNotations.

(* ================================================================== Part 1: the fragment *)
Definition okb (g : G) : Prop :=
  (forall t, nyt_body (todo (tasks g t)) = true) /\ (forall b, In b (staged g) -> nyt_body b = true).

Lemma okb_gen g g' :
  (forall t, todo (tasks g' t) = todo (tasks g t) \/ nyt_body (todo (tasks g' t)) = true) ->
  (forall b, In b (staged g') -> In b (staged g) \/ nyt_body b = true) ->
  okb g -> okb g'.
Proof.
  intros Ht Hs [H1 H2]. split.
  - intros t. destruct (Ht t) as [E|E]; [rewrite E; apply H1 | exact E].
  - intros b Hb. destruct (Hs b Hb) as [E|E]; [now apply H2 | exact E].
Qed.
Lemma okb_same g g' : tasks g' = tasks g -> staged g' = staged g -> okb g -> okb g'.
Proof. intros E1 E2. apply okb_gen; [intros t; left; now rewrite E1 | intros b Hb; left; now rewrite <- E2]. Qed.

Lemma okb_new g g1 b h :
  (forall t, todo (tasks g1 t) = todo (tasks g t) \/ nyt_body (todo (tasks g1 t)) = true) ->
  (forall b', In b' (staged g1) -> In b' (staged g)) -> nyt_body b = true ->
  okb g -> okb (new_task g1 b h).
Proof.
  intros Ht Hs Hb. apply okb_gen.
  - intros t. unfold new_task. cbn [tasks]. fold (new_slot g1 h).
    destruct (Nat.eq_dec t (new_slot g1 h)) as [->|Hne]; [rewrite upd_same; right; exact Hb|].
    rewrite upd_other by assumption. apply Ht.
  - intros b' Hb'. left. apply Hs. exact Hb'.
Qed.

Lemma sub_step_okb g s : okb g -> okb (fst (sub_step g s)).
Proof.
  destruct s as [|u|u|u prev|u]; cbn [sub_step]; auto.
  - destruct (reg (tasks g u)); cbn [fst]; [|apply okb_same; reflexivity].
    apply okb_gen; [|intros b Hb; now left]. intros t. left. cbn [add_log tasks]. rewrite todo_set_task.
    destruct (Nat.eqb t u) eqn:E; [apply Nat.eqb_eq in E; subst|]; reflexivity.
  - destruct (u <? ntasks g); [|auto]. destruct (st (tw_of g u)); cbn [fst]; auto.
    apply okb_gen; [intros t; now left|]. intros b [<-|Hb]; [right; reflexivity | now left].
  - destruct (word_eqb (tw_of g u) prev); [|auto].
    assert (H : okb g -> okb (add_log (set_word g u (w_pending prev)) (EvWord (gid g u) SiteSet prev (w_pending prev)))).
    { apply okb_gen; [|intros b Hb; now left]. intros t. left. cbn [add_log tasks]. unfold set_word. rewrite todo_set_task.
      destruct (Nat.eqb t u) eqn:E; [apply Nat.eqb_eq in E; subst|]; reflexivity. }
    destruct (sst_beq (st prev) st_suspended); cbn [fst]; [|exact H].
    destruct (match wake (tasks g u) with Some p => negb (N.eqb (p + 1) (tag prev)) | None => true end); [|exact H].
    intros Hg. apply H in Hg. revert Hg. apply okb_same; reflexivity.
Qed.

Lemma tstep_okb o a g l :
  okb g -> nyt_pc l = true -> okb (fst (tstep o a g l)) /\ nyt_pc (snd (tstep o a g l)) = true.
Proof.
  intros Hg Hl.
  destruct l as [|t|t w0|t orig s|t orig ret|t orig ret cur|t|t prev|t|t|acts s]; cbn [tstep].
  - destruct (ob o).
    + destruct (nth_error (pend g) (oi o)); cbn [fst snd]; split; auto.
    + destruct (nth_error (staged g) (oi o)) as [b|] eqn:En; cbn [fst snd].
      * split; [|reflexivity]. apply (okb_new g); auto.
        -- intros b' Hb'. cbn [staged set_staged] in Hb'. eapply in_remove_nth_sub; eauto.
        -- apply (proj2 Hg). eapply nth_error_In; eauto.
      * destruct (term g); cbn [fst snd]; split; auto.
  - split; auto.
  - destruct (st w0); cbn [fst snd]; try (split; auto; fail).
    destruct (word_eqb (tw_of g t) w0); cbn [fst snd]; [|split; auto]. split; [|reflexivity].
    revert Hg. destruct (sref g t); (apply okb_gen; [|intros b Hb; now left]); intros x; left;
      cbn; unfold upd; (destruct (Nat.eqb x t) eqn:E; [apply Nat.eqb_eq in E; subst|]; reflexivity).
  - destruct s as [|u|u|u prev|u].
    2-5: match goal with |- context [sub_step ?gg ?s] =>
           assert (H := sub_step_okb gg s Hg); destruct (sub_step gg s) as [g' s']; cbn [fst snd] in *; split; auto end.
    unfold run_act. destruct (todo (tasks g t)) as [[|ac r]|u prev|u] eqn:Etd; [split; auto| | |].
    + assert (Hn : nyt ac = true /\ forallb nyt r = true).
      { assert (H := proj1 Hg t). rewrite Etd in H. cbn in H. apply andb_true_iff in H. exact H. }
      destruct Hn as [Hac Hr].
      assert (Hq : forall x, todo (tasks (set_todo g t (UserBody r)) x) = todo (tasks g x) \/
                             nyt_body (todo (tasks (set_todo g t (UserBody r)) x)) = true).
      { intros x. destruct (todo_set_todo_cases g t (UserBody r) x) as [E|E]; [left; exact E | right; rewrite E; exact Hr]. }
      assert (H1 : okb (set_todo g t (UserBody r))).
      { revert Hg. apply okb_gen; [exact Hq | intros b Hb; now left]. }
      destruct ac as [| | | |b now|u|v]; cbn [fst snd]; try (split; [exact H1 | reflexivity]).
      * split; [|reflexivity]. revert H1. apply okb_gen; [|intros b Hb; now left].
        intros x. left. unfold set_reg. rewrite todo_set_task.
        destruct (Nat.eqb x t) eqn:E; [apply Nat.eqb_eq in E; subst|]; reflexivity.
      * split; [|reflexivity]. cbn in Hac. destruct now.
        -- apply (okb_new g); auto.
        -- revert H1. apply okb_gen; [intros x; now left|]. intros b' [<-|Hb']; [right; exact Hac | now left].
    + assert (H1 : okb (set_todo g t (HelperRun u))).
      { revert Hg. apply okb_gen; [|intros b Hb; now left]. intros x.
        destruct (todo_set_todo_cases g t (HelperRun u) x) as [E|E]; [left; exact E | right; rewrite E; reflexivity]. }
      destruct (sst_beq (st (tw_of g u)) (st prev) && negb (word_eqb (tw_of g u) prev)); cbn [fst snd]; split; auto.
    + cbn [fst snd]. split; [|reflexivity].
      assert (H1 : okb (set_todo g t (UserBody []))).
      { revert Hg. apply okb_gen; [|intros b Hb; now left]. intros x.
        destruct (todo_set_todo_cases g t (UserBody []) x) as [E|E]; [left; exact E | right; rewrite E; reflexivity]. }
      revert H1. apply okb_same; apply rc_dec_view.
  - split; auto.
  - destruct (word_eqb (tw_of g t) orig); cbn [fst snd]; [|split; auto]. cbv zeta.
    split; [|destruct ret; reflexivity].
    revert Hg. destruct (sst_beq ret st_terminated); (apply okb_gen; [|intros b Hb; now left]); intros x; left;
      cbn; unfold upd; (destruct (Nat.eqb x t) eqn:E; [apply Nat.eqb_eq in E; subst|]; reflexivity).
  - split; auto.
  - destruct (word_eqb (tw_of g t) prev); cbn [fst snd]; [|split; auto]. split; [|reflexivity].
    revert Hg. apply okb_gen; [|intros b Hb; now left]. intros x. left. cbn [add_log tasks]. unfold set_word. rewrite todo_set_task.
    destruct (Nat.eqb x t) eqn:E; [apply Nat.eqb_eq in E; subst|]; reflexivity.
  - cbn [fst snd]. split; [|reflexivity]. revert Hg. apply okb_same; reflexivity.
  - cbn [fst snd]. split; [|reflexivity]. revert Hg. apply okb_same; apply rc_dec_view.
  - destruct s as [|u|u|u prev|u].
    2-5: match goal with |- context [sub_step ?gg ?s] =>
           assert (H := sub_step_okb gg s Hg); destruct (sub_step gg s) as [g' s']; cbn [fst snd] in *; split; auto end.
    destruct acts as [|ac r]; [split; auto|]. cbn in Hl. apply andb_true_iff in Hl. destruct Hl as [Hac Hr].
    destruct ac as [| | | |b now|u|v]; cbn [fst snd]; try (split; [exact Hg | exact Hr]).
    split; [|exact Hr]. cbn in Hac. destruct now.
    + apply (okb_new g); auto.
    + revert Hg. apply okb_gen; [intros x; now left|]. intros b' [<-|Hb']; [right; exact Hac | now left].
Qed.

Definition NYT (g : G) (ls : nat -> pc) : Prop := okb g /\ forall a, nyt_pc (ls a) = true.

Lemma NYT_reach sched ext : nyt_ext ext -> NYT (fst (sched_run sched ext)) (snd (sched_run sched ext)).
Proof.
  intros He. unfold sched_run. apply (run_inv _ _ _ tstep NYT).
  - intros o t g ls [Hg Hl]. destruct (tstep_okb o t g (ls t) Hg (Hl t)) as [H1 H2].
    split; [exact H1|]. intros a. destruct (Nat.eq_dec a t) as [->|Hne]; [now rewrite upd_same | rewrite upd_other by assumption; apply Hl].
  - split; [split; [reflexivity | intros b []]|].
    intros a. cbn. unfold init_ls. destruct (ext a) as [acts|] eqn:E; [exact (He a acts E) | reflexivity].
Qed.

(* a worker that is not about to execute a YieldTo steps as in the fragment model *)
Lemma tstepY_base o me g l :
  (forall t orig, l = WRun t orig SNone -> nyt_body (todo (tasks g t)) = true) ->
  tstepY o me g (Base l) = lift (tstep o me g l).
Proof.
  intros H. destruct l as [|t|t w0|t orig s|t orig ret|t orig ret cur|t|t prev|t|t|acts s]; try reflexivity.
  destruct s; try reflexivity. specialize (H t orig eq_refl). cbn [tstepY].
  destruct (todo (tasks g t)) as [[|ac r]|u prev|u]; try reflexivity.
  destruct ac; try reflexivity. cbn in H. discriminate H.
Qed.

Lemma run_snoc {G L O} (ts : O -> nat -> G -> L -> G * L) s x c : run ts (s ++ [x]) c = step ts (run ts s c) x.
Proof. unfold run. rewrite fold_left_app. reflexivity. Qed.

(* on programs without YieldTo the extended model IS the fragment model *)
Theorem yield_to_fragment sched ext :
  nyt_ext ext ->
  fst (sched_runY sched ext) = fst (sched_run sched ext) /\
  forall a, snd (sched_runY sched ext) a = Base (snd (sched_run sched ext) a).
Proof.
  intros He. induction sched as [|[t o] s IH] using rev_ind; [split; reflexivity|].
  destruct IH as [IH1 IH2]. assert (HN := NYT_reach s ext He). destruct HN as [[Hb _] _].
  unfold sched_runY, sched_run in *. rewrite !run_snoc.
  set (cY := run tstepY s (init_g, init_lsY ext)) in *. set (c := run tstep s (init_g, init_ls ext)) in *.
  unfold step. unfold locals in *. rewrite IH1, (IH2 t).
  rewrite tstepY_base by (intros; apply Hb). unfold lift.
  destruct (tstep o t (fst c) (snd c t)) as [g' l']. cbn [fst snd]. split; [reflexivity|].
  intros a. unfold upd. destruct (Nat.eqb a t); [reflexivity | apply IH2].
Qed.

(* ================================================================== Part 2: all programs *)
Definition xpc_ok (l : pcY) : Prop :=
  match l with
  | Base (WStoreL _ _ ret) | Base (WStoreC _ _ ret _) => ret_ok ret
  | Base l0 => match sub_of l0 with
               | SCas _ prev => st prev = st_suspended \/ st prev = st_pending_boost
               | _ => True
               end
  | _ => True
  end.
Definition dom_st (s : sst) : Prop := live_st s \/ s = st_suspended \/ s = st_terminated.

Record XInv (g : G) (ls : nat -> pcY) : Prop := {
  x_cover : forall t, t < ntasks g -> live_st (st (tw_of g t)) ->
            In t (pend g) \/ exists a, choldsY (tw_of g t) (ls a) t;
  x_boost : forall t, t < ntasks g -> st (tw_of g t) = st_pending_boost -> exists a, boostsY (ls a) t;
  x_dom : forall t, t < ntasks g -> dom_st (st (tw_of g t));
  x_pc : forall a, xpc_ok (ls a)
}.

Lemma boosts_cholds l t w : boostsY l t -> choldsY w l t.
Proof. destruct l as [l0| | | |]; cbn; try tauto. destruct l0; cbn; tauto. Qed.

Lemma XInv_gen g ls a g' l' :
  XInv g ls ->
  (forall t, t < ntasks g' -> live_st (st (tw_of g' t)) ->
     In t (pend g') \/ choldsY (tw_of g' t) l' t \/ (exists b, b <> a /\ choldsY (tw_of g' t) (ls b) t) \/
     (t < ntasks g /\ tw_of g' t = tw_of g t /\
      (In t (pend g) -> In t (pend g') \/ choldsY (tw_of g t) l' t) /\
      (choldsY (tw_of g t) (ls a) t -> In t (pend g') \/ choldsY (tw_of g t) l' t))) ->
  (forall t, t < ntasks g' -> st (tw_of g' t) = st_pending_boost ->
     boostsY l' t \/ (exists b, b <> a /\ boostsY (ls b) t) \/
     (t < ntasks g /\ tw_of g' t = tw_of g t /\ (boostsY (ls a) t -> boostsY l' t))) ->
  (forall t, t < ntasks g' -> dom_st (st (tw_of g' t)) \/ (t < ntasks g /\ tw_of g' t = tw_of g t)) ->
  xpc_ok l' ->
  XInv g' (upd ls a l').
Proof.
  intros [X1 X2 X3 X4] H1 H2 H3 H4. constructor.
  - intros t Ht Hl. destruct (H1 t Ht Hl) as [H|[H|[(b & Hb & H)|(Hlt & Ew & Hp & Hc)]]].
    + now left.
    + right. exists a. now rewrite upd_same.
    + right. exists b. now rewrite upd_other.
    + rewrite Ew in *. destruct (X1 t Hlt Hl) as [H|(b & H)].
      * destruct (Hp H) as [H'|H']; [now left | right; exists a; now rewrite upd_same].
      * destruct (Nat.eq_dec b a) as [->|Hne].
        -- destruct (Hc H) as [H'|H']; [now left | right; exists a; now rewrite upd_same].
        -- right. exists b. now rewrite upd_other.
  - intros t Ht Hb. destruct (H2 t Ht Hb) as [H|[(b & Hne & H)|(Hlt & Ew & Hc)]].
    + exists a. now rewrite upd_same.
    + exists b. now rewrite upd_other.
    + rewrite Ew in Hb. destruct (X2 t Hlt Hb) as (b & H). destruct (Nat.eq_dec b a) as [->|Hne].
      * exists a. rewrite upd_same. auto.
      * exists b. now rewrite upd_other.
  - intros t Ht. destruct (H3 t Ht) as [H|[Hlt Ew]]; [exact H | rewrite Ew; now apply X3].
  - intros b. destruct (Nat.eq_dec b a) as [->|Hne]; [now rewrite upd_same | rewrite upd_other by assumption; apply X4].
Qed.

Lemma XInv_frame g ls a g' l' :
  XInv g ls -> ntasks g' = ntasks g -> (forall t, tw_of g' t = tw_of g t) ->
  (forall t, In t (pend g) -> In t (pend g') \/ choldsY (tw_of g t) l' t) ->
  (forall t, choldsY (tw_of g t) (ls a) t -> In t (pend g') \/ choldsY (tw_of g t) l' t) ->
  (forall t, boostsY (ls a) t -> boostsY l' t) -> xpc_ok l' -> XInv g' (upd ls a l').
Proof.
  intros HX En Ew Hp Hc Hb Hpc. apply (XInv_gen g ls); auto.
  - intros t Ht _. rewrite En in Ht. right. right. right. auto.
  - intros t Ht _. rewrite En in Ht. right. right. auto.
  - intros t Ht. rewrite En in Ht. right. auto.
Qed.

Lemma XInv_same g ls a g' l' :
  XInv g ls -> ntasks g' = ntasks g -> (forall t, tw_of g' t = tw_of g t) -> pend g' = pend g ->
  (forall t, choldsY (tw_of g t) (ls a) t -> choldsY (tw_of g t) l' t) ->
  (forall t, boostsY (ls a) t -> boostsY l' t) -> xpc_ok l' -> XInv g' (upd ls a l').
Proof.
  intros HX En Ew Ep Hc Hb Hpc. apply (XInv_frame g ls); auto.
  intros t Ht. left. now rewrite Ep.
Qed.

Lemma XInv_word g ls a g' l' y :
  XInv g ls -> ntasks g' = ntasks g -> pend g' = pend g -> (forall z, z <> y -> tw_of g' z = tw_of g z) ->
  (y < ntasks g -> live_st (st (tw_of g' y)) ->
     In y (pend g) \/ choldsY (tw_of g' y) l' y \/ exists b, b <> a /\ choldsY (tw_of g' y) (ls b) y) ->
  (forall z, z <> y -> choldsY (tw_of g z) (ls a) z -> choldsY (tw_of g z) l' z) ->
  (y < ntasks g -> st (tw_of g' y) = st_pending_boost -> boostsY l' y \/ exists b, b <> a /\ boostsY (ls b) y) ->
  (forall z, z <> y -> boostsY (ls a) z -> boostsY l' z) ->
  (y < ntasks g -> dom_st (st (tw_of g' y))) ->
  xpc_ok l' -> XInv g' (upd ls a l').
Proof.
  intros HX En Ep Ew Hy Hc Hby Hb Hd Hpc. apply (XInv_gen g ls); auto.
  - intros t Ht Hl. rewrite En in Ht. destruct (Nat.eq_dec t y) as [->|Hne].
    + destruct (Hy Ht Hl) as [H|[H|H]]; [left; now rewrite Ep | right; now left | right; right; now left].
    + right. right. right. split; [exact Ht|]. split; [now apply Ew|]. split.
      * intros H. left. now rewrite Ep.
      * intros H. right. now apply Hc.
  - intros t Ht Hbt. rewrite En in Ht. destruct (Nat.eq_dec t y) as [->|Hne].
    + destruct (Hby Ht Hbt) as [H|H]; [now left | right; now left].
    + right. right. split; [exact Ht|]. split; [now apply Ew|]. now apply Hb.
  - intros t Ht. rewrite En in Ht. destruct (Nat.eq_dec t y) as [->|Hne]; [left; now apply Hd | right; split; [exact Ht | now apply Ew]].
Qed.

Lemma XInv_new g ls a g1 b h l' :
  XInv g ls -> ntasks g1 = ntasks g -> pend g1 = pend g -> (forall z, tw_of g1 z = tw_of g z) ->
  (forall z w, choldsY w (ls a) z -> choldsY w l' z) ->
  (forall z, boostsY (ls a) z -> boostsY l' z) -> xpc_ok l' ->
  XInv (new_task g1 b h) (upd ls a l').
Proof.
  intros HX En Ep Ew Hc Hb Hpc.
  set (x := new_slot g1 h).
  assert (Hlt : forall z, z < ntasks (new_task g1 b h) -> z <> x -> z < ntasks g).
  { intros z Hz Hne. unfold x, new_slot in Hne. unfold new_task in Hz. cbn [ntasks] in Hz.
    destruct (nth_error (heap g1) h); lia. }
  assert (Hw : forall z, z <> x -> tw_of (new_task g1 b h) z = tw_of g z).
  { intros z Hne. rewrite tw_of_new_task_other by exact Hne. apply Ew. }
  assert (Hwx : tw_of (new_task g1 b h) x = w_init) by apply tw_of_new_task_same.
  assert (Hpx : forall z, In z (pend (new_task g1 b h)) <-> z = x \/ In z (pend g)).
  { intros z. unfold new_task. cbn [pend]. fold x. rewrite Ep. cbn. intuition. }
  apply (XInv_gen g ls); auto.
  - intros t Ht Hl. destruct (Nat.eq_dec t x) as [->|Hne]; [left; apply Hpx; now left|].
    right. right. right. split; [now apply Hlt|]. split; [now apply Hw|]. split.
    + intros H. left. apply Hpx. now right.
    + intros H. right. now apply Hc.
  - intros t Ht Hbt. destruct (Nat.eq_dec t x) as [->|Hne]; [rewrite Hwx in Hbt; discriminate|].
    right. right. split; [now apply Hlt|]. split; [now apply Hw|]. apply Hb.
  - intros t Ht. destruct (Nat.eq_dec t x) as [->|Hne]; [left; rewrite Hwx; left; now left|].
    right. split; [now apply Hlt | now apply Hw].
Qed.

(* ------------------------------------------------------------------ set_thread_state steps *)
Definition cmain (w : word) (l : pc) (t : nat) : Prop :=
  match l with WRun t' orig _ => t' = t /\ orig = w | _ => False end.
Lemma cholds_sub w l t : has_sub l -> (cholds w l t <-> cmain w l t \/ sub_of l = SEnq t).
Proof. destruct l; cbn; tauto. Qed.
Lemma cmain_with_sub w l s' t : cmain w (with_sub l s') t <-> cmain w l t.
Proof. destruct l; cbn; tauto. Qed.
Lemma has_sub_with_sub l s' : has_sub l -> has_sub (with_sub l s').
Proof. destruct l; cbn; tauto. Qed.
Lemma boosts_has_sub l t : has_sub l -> ~ boostsY (Base l) t.
Proof. destruct l; cbn; tauto. Qed.
Lemma xpc_with_sub l s' : has_sub l ->
  match s' with SCas _ prev => st prev = st_suspended \/ st prev = st_pending_boost | _ => True end ->
  xpc_ok (Base (with_sub l s')).
Proof. destruct l; cbn; tauto. Qed.

Lemma sub_step_XInv g ls a l :
  XInv g ls -> ls a = Base l -> has_sub l ->
  XInv (fst (sub_step g (sub_of l))) (upd ls a (Base (with_sub l (snd (sub_step g (sub_of l)))))).
Proof.
  intros HX Ha Hsub. assert (Hpc := x_pc _ _ HX a). rewrite Ha in Hpc.
  assert (Hkeep : forall g' s', ntasks g' = ntasks g -> (forall t, tw_of g' t = tw_of g t) -> pend g' = pend g ->
            (forall u, sub_of l <> SEnq u) -> (forall u, s' <> SEnq u) ->
            match s' with SCas _ prev => st prev = st_suspended \/ st prev = st_pending_boost | _ => True end ->
            XInv g' (upd ls a (Base (with_sub l s')))).
  { intros g' s' En Ew Ep Hn1 Hn2 Hs'. apply (XInv_same g ls); auto.
    - intros t. rewrite Ha. cbn [choldsY]. rewrite !cholds_sub by (auto using has_sub_with_sub).
      rewrite cmain_with_sub, sub_of_with_sub by assumption.
      intros [H|H]; [now left | exfalso; eapply Hn1; eauto].
    - intros t. rewrite Ha. intros H. exfalso. eapply boosts_has_sub; eauto.
    - now apply xpc_with_sub. }
  destruct (sub_of l) as [|u|u|u prev|u] eqn:Es; cbn [sub_step].
  - cbn [fst snd]. apply Hkeep; auto; try discriminate.
  - destruct (reg (tasks g u)); cbn [fst snd]; apply Hkeep; auto; try discriminate.
    intros t. rewrite tw_of_add_log. apply tw_of_set_task_keep. reflexivity.
  - destruct (u <? ntasks g); cbn [fst snd]; [|apply Hkeep; auto; discriminate].
    destruct (st (tw_of g u)) eqn:Est; cbn [fst snd]; apply Hkeep; auto; try discriminate.
  - (* SCas *)
    assert (Hprev : st prev = st_suspended \/ st prev = st_pending_boost).
    { destruct l; cbn in Hsub; try contradiction; cbn in Es; subst; cbn in Hpc; exact Hpc. }
    destruct (word_eqb (tw_of g u) prev) eqn:Ew; [|cbn [fst snd]; apply Hkeep; auto; discriminate].
    apply word_eqb_true in Ew.
    set (g1 := add_log (set_word g u (w_pending prev)) (EvWord (gid g u) SiteSet prev (w_pending prev))).
    assert (Hw1 : forall z, z <> u -> tw_of g1 z = tw_of g z).
    { intros z Hz. unfold g1. rewrite tw_of_add_log. now apply tw_of_set_word_other. }
    assert (Hwu : tw_of g1 u = w_pending prev).
    { unfold g1. rewrite tw_of_add_log. apply tw_of_set_word_same. }
    assert (Hgen : forall gg s', ntasks gg = ntasks g -> pend gg = pend g -> (forall z, tw_of gg z = tw_of g1 z) ->
               ((st prev = st_suspended /\ s' = SEnq u) \/ (st prev = st_pending_boost /\ s' = SNone)) ->
               XInv gg (upd ls a (Base (with_sub l s')))).
    { intros gg s' En Ep Et Hcase. apply (XInv_word g ls) with (y := u); auto.
      - intros z Hz. rewrite Et. now apply Hw1.
      - intros Hu _. rewrite Et, Hwu. destruct Hcase as [[_ ->]|[Hb ->]].
        + right. left. cbn [choldsY]. apply cholds_sub; [now apply has_sub_with_sub|]. right. now apply sub_of_with_sub.
        + right. right. destruct (x_boost _ _ HX u Hu) as (b & Hbb); [rewrite Ew; exact Hb|].
          exists b. split; [|now apply boosts_cholds].
          intros ->. rewrite Ha in Hbb. eapply boosts_has_sub; eauto.
      - intros z Hz. rewrite Ha. cbn [choldsY]. rewrite !cholds_sub by (auto using has_sub_with_sub).
        rewrite cmain_with_sub, Es. intros [H|H]; [now left | discriminate H].
      - intros _. rewrite Et, Hwu. discriminate.
      - intros z Hz. rewrite Ha. intros H. exfalso. eapply boosts_has_sub; eauto.
      - intros _. rewrite Et, Hwu. left. now left.
      - apply xpc_with_sub; auto. destruct Hcase as [[_ ->]|[_ ->]]; exact I. }
    destruct (sst_beq (st prev) st_suspended) eqn:Esus; cbn [fst snd].
    + apply sst_beq_true in Esus.
      destruct (match wake (tasks g u) with Some p => negb (N.eqb (p + 1) (tag prev)) | None => true end);
        apply Hgen; auto.
    + apply sst_beq_false in Esus. destruct Hprev as [Hp|Hp]; [contradiction|]. apply Hgen; auto.
  - (* SEnq *)
    cbn [fst snd]. apply (XInv_frame g ls); auto.
    + intros t Ht. left. cbn. now right.
    + intros t. rewrite Ha. cbn [choldsY]. rewrite !cholds_sub by (auto using has_sub_with_sub).
      rewrite cmain_with_sub, Es. intros [H|H]; [right; now left | left; inversion H; cbn; now left].
    + intros t. rewrite Ha. intros H. exfalso. eapply boosts_has_sub; eauto.
    + now apply xpc_with_sub.
Qed.

(* ------------------------------------------------------------------ every step preserves XInv *)
Ltac nob := solve [intros;
  repeat match goal with
         | H : choldsY _ _ _ |- _ => progress cbn in H
         | H : boostsY _ _ |- _ => progress cbn in H
         end; (contradiction || tauto || (intuition congruence))].

Lemma spawn_XInv g ls a g1 b (now : bool) h l' :
  XInv g ls -> ntasks g1 = ntasks g -> pend g1 = pend g -> (forall z, tw_of g1 z = tw_of g z) ->
  (forall z w, choldsY w (ls a) z -> choldsY w l' z) ->
  (forall z, boostsY (ls a) z -> boostsY l' z) -> xpc_ok l' ->
  XInv (if now then new_task g1 b h else stage g1 b) (upd ls a l').
Proof.
  intros HX En Ep Ew Hc Hb Hpc. destruct now; [now apply (XInv_new g ls)|].
  apply (XInv_same g ls); auto.
Qed.

Theorem step_XInv o a g ls :
  XInv g ls -> XInv (fst (tstepY o a g (ls a))) (upd ls a (snd (tstepY o a g (ls a)))).
Proof.
  intros HX. assert (Hpc := x_pc _ _ HX a).
  destruct (ls a) as [l0|t orig nx|t orig cur nx|t nx|t nx] eqn:Ha.
  - destruct l0 as [|t|t w0|t orig s|t orig ret|t orig ret cur|t|t prev|t|t|acts s].
    + (* WTop *)
      cbn [tstepY tstep]; unfold lift. destruct (ob o).
      * destruct (nth_error (pend g) (oi o)) as [t|] eqn:En; cbn [fst snd].
        -- apply (XInv_frame g ls); auto; try (rewrite Ha; nob); try exact I.
           intros x Hx. cbn [pend set_pend]. destruct (In_remove_nth _ _ _ _ En Hx) as [->|H]; [right; reflexivity | now left].
        -- apply (XInv_same g ls); auto; try (rewrite Ha; nob); exact I.
      * destruct (nth_error (staged g) (oi o)) as [b|] eqn:En; cbn [fst snd].
        -- apply (XInv_new g ls); auto; try (rewrite Ha; nob); try exact I.
        -- destruct (term g); cbn [fst snd]; apply (XInv_same g ls); auto; try (rewrite Ha; nob); exact I.
    + (* WGot *)
      cbn [tstepY tstep]; unfold lift; cbn [fst snd]. apply (XInv_gen g ls); auto; try exact I.
      * intros x Hx Hl. destruct (Nat.eq_dec x t) as [->|Hne].
        -- destruct Hl as [Hl|[Hl|Hl]].
           ++ right. left. cbn. auto.
           ++ right. right. left. destruct (x_boost _ _ HX t Hx Hl) as (b & Hb).
              exists b. split; [|now apply boosts_cholds]. intros ->. rewrite Ha in Hb. exact Hb.
           ++ right. left. cbn. auto.
        -- right. right. right. split; [exact Hx|]. split; [reflexivity|]. split; [now left|].
           rewrite Ha. cbn. intros ->. contradiction.
      * intros x Hx Hb. right. right. split; [exact Hx|]. split; [reflexivity|]. rewrite Ha. cbn. tauto.
    + (* WLoaded *)
      cbn [tstepY tstep]; unfold lift.
      assert (Hdrop : (st w0 = st_pending -> tw_of g t <> w0) -> st w0 <> st_active ->
                XInv g (upd ls a (Base (WRelease t)))).
      { intros H1 H2. apply (XInv_same g ls); auto; try (rewrite Ha; nob); try exact I. }
      destruct (st w0) eqn:Est; cbn [fst snd]; try (apply Hdrop; [discriminate | discriminate]).
      * (* active: re-queue *)
        apply (XInv_frame g ls); auto; try (rewrite Ha; nob); try exact I.
        -- intros x Hx. left. cbn. now right.
        -- rewrite Ha. intros x Hc. cbn in Hc. destruct Hc as [-> _]. left. cbn. now left.
      * (* pending: the tagged CAS *)
        destruct (word_eqb (tw_of g t) w0) eqn:Ew; cbn [fst snd].
        2:{ apply word_eqb_false in Ew. apply Hdrop; [auto | discriminate]. }
        apply word_eqb_true in Ew.
        set (nw := {| st := st_active; tag := tag w0 + 1 |}).
        match goal with |- XInv ?gg _ => assert (Egg : (forall x, tw_of gg x = upd (tw_of g) t nw x) /\ ntasks gg = ntasks g /\ pend gg = pend g) end.
        { destruct (sref g t); (split; [|split; reflexivity]); intros x; rewrite !tw_of_add_log, ?tw_of_set_sref, ?tw_of_set_rc;
            (destruct (Nat.eq_dec x t) as [->|Hne]; [rewrite upd_same; apply tw_of_set_task_same | rewrite upd_other by assumption; now apply tw_of_set_task_other]). }
        destruct Egg as (E1 & E2 & E3).
        apply (XInv_word g ls) with (y := t); auto; try (rewrite Ha; nob); try exact I.
        -- intros z Hz. rewrite E1. now apply upd_other.
        -- intros _ _. right. left. rewrite E1, upd_same. cbn. auto.
        -- intros _. rewrite E1, upd_same. discriminate.
        -- intros _. rewrite E1, upd_same. left. right. now right.
    + (* WRun *)
      destruct s as [|u|u|u prev|u].
      2-5: cbn [tstepY tstep]; unfold lift;
           match goal with |- context [sub_step ?gg ?s] =>
             assert (Hs := sub_step_XInv gg ls a _ HX Ha I); cbn [sub_of with_sub] in Hs;
             destruct (sub_step gg s) as [g' s']; exact Hs end.
      assert (Hst : forall g' ret, ntasks g' = ntasks g -> pend g' = pend g -> (forall z, tw_of g' z = tw_of g z) -> ret_ok ret ->
                XInv g' (upd ls a (Base (WStoreL t orig ret)))).
      { intros g' ret En Ep Ew Hr. apply (XInv_same g ls); auto; try (rewrite Ha; nob). rewrite Ha. intros z Hc. cbn in Hc |- *.
        destruct Hc as [Hc|Hc]; [exact Hc | discriminate Hc]. }
      assert (Hrun : forall g' s', ntasks g' = ntasks g -> pend g' = pend g -> (forall z, tw_of g' z = tw_of g z) ->
                (s' = SNone \/ exists u, s' = SIssue u \/ s' = SLoad u) ->
                XInv g' (upd ls a (Base (WRun t orig s')))).
      { intros g' s' En Ep Ew Hs'. apply (XInv_same g ls); auto; try (rewrite Ha; nob).
        - rewrite Ha. intros z Hc. cbn in Hc |- *. destruct Hc as [Hc|Hc]; [now left | discriminate Hc].
        - destruct Hs' as [->|(u & [->| ->])]; exact I. }
      cbn [tstepY]. destruct (todo (tasks g t)) as [[|ac r]|u prev|u] eqn:Etd.
      * unfold lift; cbn [tstep]. unfold run_act. rewrite Etd. cbn [fst snd]. apply Hst; auto. unfold ret_ok; tauto.
      * destruct ac as [| | | |b now|u|v].
        7:{ (* YieldTo *)
            destruct (v <? ntasks g); cbn [fst snd].
            - apply (XInv_same g ls); auto; try (rewrite Ha; nob); try exact I.
              + intros z. apply tw_of_set_todo.
              + rewrite Ha. intros z Hc. cbn in Hc |- *. destruct Hc as [Hc|Hc]; [exact Hc | discriminate Hc].
            - apply Hst; auto; [intros z; apply tw_of_set_todo | unfold ret_ok; tauto]. }
        all: unfold lift; cbn [tstep]; unfold run_act; rewrite Etd; cbn [fst snd].
        -- apply Hst; auto; [intros z; apply tw_of_set_todo | unfold ret_ok; tauto].
        -- apply Hst; auto; [intros z; apply tw_of_set_todo | unfold ret_ok; tauto].
        -- apply Hst; auto; [intros z; apply tw_of_set_todo | unfold ret_ok; tauto].
        -- apply Hrun; auto. intros z. rewrite tw_of_set_reg. apply tw_of_set_todo.
        -- apply (spawn_XInv g ls); auto; try (rewrite Ha; nob); try exact I.
           ++ intros z. apply tw_of_set_todo.
           ++ intros z w. rewrite Ha. auto.
        -- apply Hrun; auto; [intros z; apply tw_of_set_todo | right; exists u; now left].
      * unfold lift; cbn [tstep]. unfold run_act. rewrite Etd.
        destruct (sst_beq (st (tw_of g u)) (st prev) && negb (word_eqb (tw_of g u) prev)); cbn [fst snd];
          apply Hrun; auto; try (intros z; rewrite ?tw_of_add_log; apply tw_of_set_todo).
        right. exists u. now right.
      * unfold lift; cbn [tstep]. unfold run_act. rewrite Etd. cbn [fst snd]. apply Hrun; auto.
        -- rewrite ntasks_rc_dec. reflexivity.
        -- rewrite pend_rc_dec. reflexivity.
        -- intros z. rewrite tw_of_rc_dec. apply tw_of_set_todo.
    + (* WStoreL *)
      cbn [tstepY tstep]; unfold lift; cbn [fst snd]. apply (XInv_same g ls); auto; try (rewrite Ha; nob); try exact Hpc.
      rewrite Ha. intros z Hc. exact Hc.
    + (* WStoreC *)
      cbn [tstepY tstep]; unfold lift. cbn in Hpc.
      destruct (word_eqb (tw_of g t) orig) eqn:Ew; cbn [fst snd].
      2:{ apply word_eqb_false in Ew. apply (XInv_same g ls); auto; try (rewrite Ha; nob); try exact I. }
      set (nw := {| st := ret; tag := tag cur + 1 |}).
      assert (Hgen : forall gg l', ntasks gg = ntasks g -> pend gg = pend g -> (forall x, tw_of gg x = upd (tw_of g) t nw x) ->
                (ret = st_pending /\ l' = WRequeue t \/ ret = st_pending_boost /\ l' = WBoost t \/
                 (ret = st_suspended \/ ret = st_terminated) /\ l' = WRelease t) ->
                XInv gg (upd ls a (Base l'))).
      { intros gg l' En Ep Et Hcase. apply (XInv_word g ls) with (y := t); auto; try (rewrite Ha; nob).
        - intros z Hz. rewrite Et. now apply upd_other.
        - intros _. rewrite Et, upd_same. cbn [st nw]. intros Hl.
          destruct Hcase as [[-> ->]|[[-> ->]|[[-> | ->] ->]]]; try (right; left; cbn; reflexivity);
            destruct Hl as [Hl|[Hl|Hl]]; discriminate Hl.
        - intros _. rewrite Et, upd_same. cbn [st nw]. intros Hb. left.
          destruct Hcase as [[-> ->]|[[-> ->]|[[-> | ->] ->]]]; try discriminate Hb. cbn. reflexivity.
        - intros _. rewrite Et, upd_same. cbn [st nw].
          destruct Hcase as [[-> _]|[[-> _]|[[-> | ->] _]]]; unfold dom_st, live_st; tauto.
        - destruct Hcase as [[_ ->]|[[_ ->]|[_ ->]]]; exact I. }
      assert (Eview : forall gg, gg = (let g0 := add_log (add_log (set_word g t nw) (EvExit (gid g t) (pred (ph (tasks g t))) a ret)) (EvWord (gid g t) SiteStore orig nw) in
                                       if sst_beq ret st_terminated then g0 else self_ref g0 t) ->
                      ntasks gg = ntasks g /\ pend gg = pend g /\ (forall x, tw_of gg x = upd (tw_of g) t nw x)).
      { intros gg ->. cbv zeta. destruct (sst_beq ret st_terminated); repeat split; intros x; rewrite ?tw_of_self_ref, !tw_of_add_log.
        all: destruct (Nat.eq_dec x t) as [->|Hne]; [rewrite upd_same; apply tw_of_set_word_same|];
          rewrite upd_other by assumption; now apply tw_of_set_word_other. }
      destruct (Eview _ eq_refl) as (En & Ep & Et).
      destruct Hpc as [->|[->|[->| ->]]]; (eapply Hgen; [exact En | exact Ep | exact Et | tauto]).
    + (* WBoost *)
      cbn [tstepY tstep]; unfold lift; cbn [fst snd]. apply (XInv_same g ls); auto; try exact I; rewrite Ha; intros z H; exact H.
    + (* WBoostC *)
      cbn [tstepY tstep]; unfold lift. destruct (word_eqb (tw_of g t) prev) eqn:Ew; cbn [fst snd].
      2:{ apply (XInv_same g ls); auto; try exact I; rewrite Ha; intros z H; exact H. }
      match goal with |- XInv (add_log (set_word g t ?w) _) _ => set (nw := w) end.
      apply (XInv_word g ls) with (y := t); auto; try exact I.
      * intros z Hz. rewrite tw_of_add_log. now apply tw_of_set_word_other.
      * intros _ _. right. left. cbn. reflexivity.
      * rewrite Ha. intros z Hz Hc. cbn in Hc. congruence.
      * intros _. rewrite tw_of_add_log, tw_of_set_word_same. discriminate.
      * rewrite Ha. intros z Hz Hc. cbn in Hc. congruence.
      * intros _. rewrite tw_of_add_log, tw_of_set_word_same. left. now left.
    + (* WRequeue *)
      cbn [tstepY tstep]; unfold lift; cbn [fst snd]. apply (XInv_frame g ls); auto; try (rewrite Ha; nob); try exact I.
      * intros x Hx. left. cbn. now right.
      * rewrite Ha. intros x Hc. cbn in Hc. subst. left. cbn. now left.
    + (* WRelease *)
      cbn [tstepY tstep]; unfold lift; cbn [fst snd]. apply (XInv_same g ls); auto; try (rewrite Ha; nob); try exact I.
      * apply ntasks_rc_dec.
      * intros z. apply tw_of_rc_dec.
      * apply pend_rc_dec.
    + (* XRun *)
      destruct s as [|u|u|u prev|u].
      2-5: cbn [tstepY tstep]; unfold lift;
           match goal with |- context [sub_step ?gg ?s] =>
             assert (Hs := sub_step_XInv gg ls a _ HX Ha I); cbn [sub_of with_sub] in Hs;
             destruct (sub_step gg s) as [g' s']; exact Hs end.
      cbn [tstepY tstep]; unfold lift.
      assert (Hskip : forall r s', (s' = SNone \/ exists u, s' = SIssue u) -> XInv g (upd ls a (Base (XRun r s')))).
      { intros r s' Hs'. apply (XInv_same g ls); auto; try (rewrite Ha; nob).
        destruct Hs' as [->|(u & ->)]; exact I. }
      destruct acts as [|[| | | |b now|u|v] r]; cbn [fst snd]; try (apply Hskip; now left).
      * apply (spawn_XInv g ls); auto; try (rewrite Ha; nob); try exact I.
      * apply Hskip. right. now exists u.
  - (* WStoreLY *)
    cbn [tstepY fst snd]. apply (XInv_same g ls); auto; try (rewrite Ha; nob); try exact I.
    rewrite Ha. intros z Hc. exact Hc.
  - (* WStoreCY *)
    cbn [tstepY]. destruct (word_eqb (tw_of g t) orig) eqn:Ew; cbn [fst snd].
    2:{ apply word_eqb_false in Ew. apply (XInv_same g ls); auto; try (rewrite Ha; nob); try exact I. }
    set (nw := {| st := st_pending; tag := tag cur + 1 |}).
    apply (XInv_word g ls) with (y := t); auto; try (rewrite Ha; nob); try exact I.
    * intros z Hz. rewrite tw_of_self_ref, !tw_of_add_log. now apply tw_of_set_word_other.
    * intros _ _. right. left. cbn. now left.
    * intros _. rewrite tw_of_self_ref, !tw_of_add_log, tw_of_set_word_same. discriminate.
    * intros _. rewrite tw_of_self_ref, !tw_of_add_log, tw_of_set_word_same. left. now left.
  - (* WRequeueY *)
    cbn [tstepY fst snd]. apply (XInv_frame g ls); auto; try (rewrite Ha; nob); try exact I.
    + intros x Hx. left. cbn. now right.
    + rewrite Ha. intros x Hc. cbn in Hc. destruct Hc as [->| ->]; [left; cbn; now left | right; reflexivity].
  - (* WReleaseY *)
    cbn [tstepY fst snd]. apply (XInv_same g ls); auto; try (rewrite Ha; nob); try exact I.
    + apply ntasks_rc_dec.
    + intros z. apply tw_of_rc_dec.
    + apply pend_rc_dec.
Qed.

(* ------------------------------------------------------------------ reachable states *)
Lemma XInv_init ext : XInv init_g (init_lsY ext).
Proof.
  constructor; cbn; try (intros; lia).
  intros a. unfold init_lsY, init_ls. destruct (ext a); exact I.
Qed.

Theorem XInv_reach sched ext : XInv (fst (sched_runY sched ext)) (snd (sched_runY sched ext)).
Proof.
  unfold sched_runY. apply (run_inv _ _ _ tstepY XInv); [intros; now apply step_XInv | apply XInv_init].
Qed.

Theorem yield_to_handles sched ext t :
  let c := sched_runY sched ext in
  t < ntasks (fst c) ->
  (live_st (st (tw_of (fst c) t)) ->
     In t (pend (fst c)) \/ exists a, choldsY (tw_of (fst c) t) (snd c a) t) /\
  (st (tw_of (fst c) t) = st_pending_boost -> exists a, boostsY (snd c a) t) /\
  (live_st (st (tw_of (fst c) t)) \/ st (tw_of (fst c) t) = st_suspended \/ st (tw_of (fst c) t) = st_terminated).
Proof.
  intros c Ht. assert (HX := XInv_reach sched ext).
  split; [apply (x_cover _ _ HX t Ht) | split; [apply (x_boost _ _ HX t Ht) | apply (x_dom _ _ HX t Ht)]].
Qed.

(* a worker stays a worker *)
Definition is_extY (l : pcY) : bool := match l with Base l0 => is_ext l0 | _ => false end.
Lemma tstepY_role o a g l : is_extY (snd (tstepY o a g l)) = is_extY l.
Proof.
  destruct l as [l0|t orig nx|t orig cur nx|t nx|t nx]; cbn [tstepY]; try reflexivity.
  - assert (Hl : is_extY (snd (lift (tstep o a g l0))) = is_extY (Base l0)) by (cbn; apply tstep_role).
    destruct l0 as [|t|t w0|t orig s|t orig ret|t orig ret cur|t|t prev|t|t|acts s]; try exact Hl.
    destruct s; try exact Hl.
    destruct (todo (tasks g t)) as [[|ac r]|u prev|u]; try exact Hl.
    destruct ac; try exact Hl. destruct (u <? ntasks g); reflexivity.
  - destruct (word_eqb (tw_of g t) orig); reflexivity.
Qed.
Lemma role_reachY sched ext a :
  is_extY (snd (sched_runY sched ext) a) = match ext a with Some _ => true | None => false end.
Proof.
  unfold sched_runY.
  apply (run_inv _ _ _ tstepY (fun _ ls => is_extY (ls a) = match ext a with Some _ => true | None => false end)).
  - intros o t g ls H. destruct (Nat.eq_dec a t) as [->|Hne].
    + rewrite upd_same, tstepY_role. exact H.
    + rewrite upd_other by assumption. exact H.
  - cbn. unfold init_lsY, init_ls. destruct (ext a); reflexivity.
Qed.

Lemma lift_inv (r : G * pc) g l : lift r = (g, Base l) -> r = (g, l).
Proof. destruct r as [g' l']. unfold lift. cbn. intros H. inversion H. reflexivity. Qed.

Lemma stuck_pcY a g l : tstepY o_pop0 a g l = (g, l) -> l = Base WTop \/ l = Base (XRun [] SNone).
Proof.
  intros Hst. destruct l as [l0|t orig nx|t orig cur nx|t nx|t nx]; cbn [tstepY] in Hst.
  - assert (Hb : lift (tstep o_pop0 a g l0) = (g, Base l0) -> Base l0 = Base WTop \/ Base l0 = Base (XRun [] SNone)).
    { intros H. apply lift_inv in H. destruct (stuck_pc a g l0 H) as [-> | ->]; auto. }
    destruct l0 as [|t|t w0|t orig s|t orig ret|t orig ret cur|t|t prev|t|t|acts s]; try (apply Hb; exact Hst).
    destruct s; try (apply Hb; exact Hst).
    destruct (todo (tasks g t)) as [[|ac r]|u prev|u]; try (apply Hb; exact Hst).
    destruct ac; try (apply Hb; exact Hst). destruct (u <? ntasks g); inversion Hst.
  - inversion Hst.
  - destruct (word_eqb (tw_of g t) orig); inversion Hst.
  - inversion Hst.
  - inversion Hst.
Qed.

Lemma stuckY_intro g ls :
  pend g = [] -> staged g = [] -> term g = [] ->
  (forall a, ls a = Base WTop \/ ls a = Base (XRun [] SNone)) -> stuckY (g, ls).
Proof.
  intros Hp Hs Ht Hl a o. cbn [fst snd]. destruct (Hl a) as [-> | ->]; cbn [tstepY tstep]; unfold lift; [|reflexivity].
  rewrite Hp, Hs, Ht. destruct (ob o); destruct (oi o); reflexivity.
Qed.

(* ------------------------------------------------------------------ nothing is dropped *)
Theorem yield_to_no_drop sched ext w :
  ext w = None ->
  let c := sched_runY sched ext in
  stuckY c ->
  pend (fst c) = [] /\ staged (fst c) = [] /\
  forall t, t < ntasks (fst c) ->
    st (tw_of (fst c) t) = st_suspended \/ st (tw_of (fst c) t) = st_terminated.
Proof.
  intros Hw c Hst. assert (HX := XInv_reach sched ext). fold c in HX.
  assert (Hpcs : forall a, snd c a = Base WTop \/ snd c a = Base (XRun [] SNone)).
  { intros a. apply (stuck_pcY a (fst c)). exact (Hst a o_pop0). }
  assert (Hwt : snd c w = Base WTop).
  { destruct (Hpcs w) as [H|H]; [exact H|]. assert (R := role_reachY sched ext w). fold c in R.
    rewrite H, Hw in R. discriminate R. }
  assert (Hp : pend (fst c) = []).
  { specialize (Hst w o_pop0). rewrite Hwt in Hst. cbn in Hst.
    destruct (pend (fst c)) as [|t p] eqn:E; [reflexivity|]. cbn in Hst. inversion Hst. }
  assert (Hs : staged (fst c) = []).
  { specialize (Hst w o_conv0). rewrite Hwt in Hst. cbn in Hst.
    destruct (staged (fst c)) as [|b p] eqn:E; [reflexivity|]. cbn in Hst. inversion Hst as [[Hg]].
    apply (f_equal ninc) in Hg. cbn in Hg. lia. }
  repeat split; auto.
  intros t Ht. destruct (x_dom _ _ HX t Ht) as [Hl|H]; [|exact H]. exfalso.
  destruct (x_cover _ _ HX t Ht Hl) as [H|[a H]].
  - rewrite Hp in H. exact H.
  - destruct (Hpcs a) as [E|E]; rewrite E in H; cbn in H; [exact H | discriminate H].
Qed.

(* ------------------------------------------------------------------ a dropped handle is a duplicate *)
(* The handle that a worker drops without running the task — because its pending->active CAS will
   fail (the word moved on since it was loaded), or because the word it loaded is not pending /
   active (leftover branch), or because its store will fail — is never the last current handle of
   a live task: another queue entry or another thread's current handle exists.  The step itself
   changes nothing but the worker's pc (no body entry, no word transition). *)
Theorem cas_failure_absorbs_duplicate sched ext a t :
  let c := sched_runY sched ext in
  let g := fst c in
  t < ntasks g -> live_st (st (tw_of g t)) ->
  (forall w0, snd c a = Base (WLoaded t w0) ->
     (st w0 = st_pending -> tw_of g t <> w0) -> st w0 <> st_active ->
     (forall o, tstepY o a g (snd c a) = (g, Base (WRelease t))) /\
     (In t (pend g) \/ exists b, b <> a /\ choldsY (tw_of g t) (snd c b) t)) /\
  (forall orig ret cur, snd c a = Base (WStoreC t orig ret cur) -> tw_of g t <> orig ->
     (forall o, tstepY o a g (snd c a) = (g, Base (WRelease t))) /\
     (In t (pend g) \/ exists b, b <> a /\ choldsY (tw_of g t) (snd c b) t)) /\
  (forall orig cur nx, snd c a = WStoreCY t orig cur nx -> tw_of g t <> orig ->
     (forall o, tstepY o a g (snd c a) = (g, WReleaseY t nx)) /\
     (In t (pend g) \/ exists b, b <> a /\ choldsY (tw_of g t) (snd c b) t)).
Proof.
  intros c g Ht Hl. assert (HX := XInv_reach sched ext). fold c in HX. fold g in HX.
  assert (Hcov := x_cover _ _ HX t Ht Hl).
  assert (Hoth : ~ choldsY (tw_of g t) (snd c a) t ->
            In t (pend g) \/ exists b, b <> a /\ choldsY (tw_of g t) (snd c b) t).
  { intros Hn. destruct Hcov as [H|(b & H)]; [now left|]. right. exists b. split; [|exact H].
    intros ->. contradiction. }
  split; [|split].
  - intros w0 Ea H1 H2. split.
    + intros o. rewrite Ea. cbn [tstepY tstep]. unfold lift.
      destruct (st w0) eqn:Est; try reflexivity; [contradiction|].
      destruct (word_eqb (tw_of g t) w0) eqn:Ew; [|reflexivity].
      apply word_eqb_true in Ew. exfalso. now apply H1.
    + apply Hoth. rewrite Ea. cbn. intros [_ [H|[H Hp]]]; [contradiction|]. apply (H1 Hp). now symmetry.
  - intros orig ret cur Ea Hne. split.
    + intros o. rewrite Ea. cbn [tstepY tstep]. unfold lift.
      apply word_eqb_false in Hne. rewrite Hne. reflexivity.
    + apply Hoth. rewrite Ea. cbn. intros [_ H]. congruence.
  - intros orig cur nx Ea Hne. split.
    + intros o. rewrite Ea. cbn [tstepY]. apply word_eqb_false in Hne. rewrite Hne. reflexivity.
    + apply Hoth. rewrite Ea. cbn. intros [_ H]. congruence.
Qed.

(* ================================================================== Part 3: witnesses *)
Definition yP : oracle := {| oi := 0; ob := true; oh := 0 |}.
Definition yP1 : oracle := {| oi := 1; ob := true; oh := 0 |}.
Definition yC : oracle := {| oi := 0; ob := false; oh := 0 |}.
Definition yrep {A} (n : nat) (x : A) : list A := map (fun _ => x) (seq 0 n).

(* (a) the pending->active CAS fails and absorbs a duplicate.  Thread 0 submits T = [] (object 0)
   and Y = [YieldTo 0] (object 1).  Worker 1 runs Y, which yields to T: worker 1 continues with
   next_thrd = T while T's queue entry stays behind, and loads T's word (pending,0).  Worker 2
   pops the queue entry and wins the CAS: (active,1).  Worker 1's CAS fails. *)
Definition cf_ext : nat -> option (list act) :=
  fun i => match i with 0 => Some [Spawn [] true; Spawn [YieldTo 0] true] | _ => None end.
Definition cf_sched1 : list (nat * oracle) :=
  yrep 2 (0, yP) ++ yrep 8 (1, yP) ++ [(2, yP1)] ++ yrep 2 (2, yP).
Definition cf_sched2 : list (nat * oracle) :=
  yrep 2 (1, yP) ++ yrep 13 (2, yP) ++ yrep 2 (2, yC).

Lemma cas_fails_with_yield_to :
  exists sched ext a t w0,
    let c := sched_runY sched ext in
    snd c a = Base (WLoaded t w0) /\ st w0 = st_pending /\ tw_of (fst c) t <> w0 /\
    (exists b, b <> a /\ runningY (snd c b) t).
Proof.
  exists cf_sched1, cf_ext, 1, 0, w_init. cbv zeta.
  split; [vm_compute; reflexivity|]. split; [reflexivity|]. split; [vm_compute; discriminate|].
  exists 2. split; [discriminate | vm_compute; reflexivity].
Qed.

(* (b) single runner and entered once are FALSE of the extended model.  T = [YieldBoost]
   (object 0), Y = [YieldTo 0] (object 1), thread 5 resumes T.  Worker 1 runs Y and keeps a
   duplicate handle of T in next_thrd; worker 2 pops T's queue entry, runs it, T yields with
   pending_boost: worker 2 has stored (pending_boost,2) and is about to call
   set_state(pending).  Thread 5: set_thread_state(T, pending) CASes (pending_boost,2) ->
   (pending,3) (no enqueue: the previous state was pending_boost).  Worker 1 finds (pending,3),
   wins the tagged CAS (active,4) and runs T.  Worker 2's set_state(pending) is a blind
   load / CAS loop: (active,4) -> (pending,5), then schedule_thread(T).  Worker 3 pops that
   entry, wins the CAS (active,6) and runs T: workers 1 and 3 are both inside T's body. *)
Definition sr_ext : nat -> option (list act) :=
  fun i => match i with
           | 0 => Some [Spawn [YieldBoost] true; Spawn [YieldTo 0] true]
           | 5 => Some [Resume 0]
           | _ => None end.
Definition sr_sched : list (nat * oracle) :=
  yrep 2 (0, yP) ++ yrep 7 (1, yP) ++ [(2, yP1)] ++ yrep 5 (2, yP) ++ yrep 4 (5, yP) ++ yrep 2 (1, yP)
  ++ yrep 3 (2, yP) ++ yrep 3 (3, yP).

Lemma single_runner_yield_to_refuted :
  exists sched ext a b t,
    let c := sched_runY sched ext in
    runningY (snd c a) t /\ runningY (snd c b) t /\ a <> b /\
    phases_of (gid (fst c) t) (rev (log (fst c))) = [PEnter 0; PExit 0; PEnter 1; PEnter 2].
Proof.
  exists sr_sched, sr_ext, 1, 3, 0. cbv zeta.
  split; [vm_compute; reflexivity|]. split; [vm_compute; reflexivity|]. split; [discriminate|].
  vm_compute. reflexivity.
Qed.
