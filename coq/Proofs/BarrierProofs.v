(* Proofs/BarrierProofs.v — pika::barrier (phase byte, expected, expected_adjustment, completion)
   on top of the tree invariant of BarrierTreeProofs.v. *)
From Coq Require Import List NArith Arith Bool Lia ZArith ZifyNat ZifyN.
From Pika Require Import Base.Conc Gen.GenBarrier Model.BarrierTree Proofs.BarrierTreeProofs.
Import ListNotations.
Ltac Zify.zify_post_hook ::= Z.div_mod_to_equations.

(* the phase byte after k completed phases *)
Definition pb (k : nat) : N := ((phase_init + publish_inc * N.of_nat k) mod pmod)%N.

Lemma pb_lt k : (pb k < pmod)%N.
Proof. unfold pb, pmod, phase_bits. change (2 ^ 8)%N with 256%N. lia. Qed.
Lemma pb_next k : next_phase (pb k) = pb (S k).
Proof.
  unfold next_phase, pb, pmod, phase_bits, publish_inc, phase_init. change (2 ^ 8)%N with 256%N. lia.
Qed.
Lemma pb_0 : pb 0 = phase_init.
Proof. reflexivity. Qed.

Definition bpcs (ls : locals blocal) : nat -> option tpc :=
  fun t => match pcb (ls t) with BArr _ _ _ _ (Some pc) => Some pc | _ => None end.

Definition tok_ok (g : bar) (old : N) (k : nat) : Prop := old = pb k /\ k <= phno g.

Definition pc_tok_ok (g : bar) (pc : bpc) : Prop :=
  match pc with
  | BArr _ old k _ _ => tok_ok g old k
  | BC _ _ old k _ => tok_ok g old k
  | BPoll old k => tok_ok g old k
  | BSpin old k => tok_ok g old k
  | _ => True
  end.

Record BInv (g : bar) (ls : locals blocal) : Prop := {
  b_phase : phase g = pb (phno g);
  b_T : TInv (eph g) (phase g) (btree g) (bpcs ls);
  b_started : started (btree g) <= eph g;
  b_sub : forall t n old k w pc, pcb (ls t) = BArr n old k w (Some pc) ->
          old = phase g /\ k = phno g /\ is_ret pc = false;
  b_tok : forall t, tok_ok g (token (ls t)) (tokk (ls t)) /\ pc_tok_ok g (pcb (ls t));
  b_idle : cstage g = 0 -> wins (btree g) = 0 /\ expected g = eph g /\ compl g = 0 /\
           adj g = (- Z.of_nat (drops g))%Z /\ completer g = None;
  b_stage : cstage g <> 0 -> wins (btree g) = 1 /\ cstage g <= 4 /\
           compl g = (if cstage g =? 1 then 0 else 1) /\
           expected g = (if cstage g <=? 2 then eph g else eph g - drops g) /\
           adj g = (if Nat.leb (cstage g) 3 then (- Z.of_nat (drops g))%Z else 0%Z);
  b_bc : forall t st n old k w, pcb (ls t) = BC st n old k w ->
         cstage g = st /\ completer g = Some t /\ st <> 0 /\ old = phase g /\ k = phno g }.

Lemma bpcs_other ls t l' t0 : t0 <> t -> bpcs (upd ls t l') t0 = bpcs ls t0.
Proof. intros H. unfold bpcs. rewrite upd_other by exact H. reflexivity. Qed.
Lemma bpcs_same ls t l' : bpcs (upd ls t l') t = match pcb l' with BArr _ _ _ _ (Some pc) => Some pc | _ => None end.
Proof. unfold bpcs. rewrite upd_same. reflexivity. Qed.

Definition no_sub (pc : bpc) : Prop := match pc with BArr _ _ _ _ (Some _) => False | BC _ _ _ _ _ => False | _ => True end.

(* a step that changes only the thread's own local state (no tree position, not a completer) *)
Lemma BInv_local g ls t l' : BInv g ls -> no_sub (pcb (ls t)) -> no_sub (pcb l') ->
  tok_ok g (token l') (tokk l') -> pc_tok_ok g (pcb l') -> BInv g (upd ls t l').
Proof.
  intros I H1 H2 H3 H4. destruct I as [Ip IT Is Isub Itok Iidle Istage Ibc].
  assert (Hpc : forall t0, bpcs (upd ls t l') t0 = bpcs ls t0).
  { intros t0. destruct (Nat.eq_dec t0 t) as [->|Hne]; [|apply bpcs_other; exact Hne].
    rewrite bpcs_same. unfold bpcs. destruct (pcb l') as [| | ? ? ? ? [?|]| | |]; try contradiction;
      destruct (pcb (ls t)) as [| | ? ? ? ? [?|]| | |]; try contradiction; reflexivity. }
  split; try assumption.
  - apply (TInv_ext _ _ _ (bpcs ls)); assumption.
  - intros t0 n old k w pc H0. destruct (Nat.eq_dec t0 t) as [->|Hne].
    + rewrite upd_same in H0. rewrite H0 in H2. destruct H2.
    + rewrite upd_other in H0 by exact Hne. eapply Isub; exact H0.
  - intros t0. destruct (Nat.eq_dec t0 t) as [->|Hne].
    + rewrite upd_same. split; assumption.
    + rewrite upd_other by exact Hne. apply Itok.
  - intros t0 st n old k w H0. destruct (Nat.eq_dec t0 t) as [->|Hne].
    + rewrite upd_same in H0. rewrite H0 in H2. destruct H2.
    + rewrite upd_other in H0 by exact Hne. eapply Ibc; exact H0.
Qed.

Lemma BInv_set_bad g ls b : BInv g ls -> BInv (set_bad g b) ls.
Proof. intros [H1 H2 H3 H4 H5 H6 H7 H8]. split; assumption. Qed.
Lemma BInv_blog_add g ls e : BInv g ls -> BInv (blog_add g e) ls.
Proof. intros [H1 H2 H3 H4 H5 H6 H7 H8]. split; assumption. Qed.

Lemma BInv_same g ls t : BInv g ls -> BInv g (upd ls t (ls t)).
Proof.
  intros I. assert (Hq : forall t0, upd ls t (ls t) t0 = ls t0).
  { intros t0. destruct (Nat.eq_dec t0 t) as [->|Hne]; [apply upd_same|apply upd_other; exact Hne]. }
  destruct I as [Ip IT Is Isub Itok Iidle Istage Ibc]. split; try assumption.
  - apply (TInv_ext _ _ _ (bpcs ls)); [|exact IT]. intros t0. unfold bpcs. rewrite Hq. reflexivity.
  - intros t0 n old k w pc H0. rewrite Hq in H0. eapply Isub; exact H0.
  - intros t0. rewrite Hq. apply Itok.
  - intros t0 st n old k w H0. rewrite Hq in H0. eapply Ibc; exact H0.
Qed.

Lemma BInv_after_tree gX ls t n old k w sub tr' pc' :
  BInv gX ls -> pcb (ls t) = BArr n old k w sub -> old = phase gX -> k = phno gX -> cstage gX = 0 ->
  (forall pcof', (forall t0, t0 <> t -> pcof' t0 = bpcs ls t0) -> (pcof' t = Some pc' \/ pcof' t = None) ->
                 TInv (eph gX) (phase gX) tr' pcof') ->
  started tr' <= eph gX -> wins tr' = wins (btree gX) + won pc' ->
  BInv (fst (after_tree (set_tree gX tr') (ls t) t n old k w pc'))
       (upd ls t (snd (after_tree (set_tree gX tr') (ls t) t n old k w pc'))).
Proof.
  intros I Hpc Hold Hk Hc0 HT Hs Hw. destruct I as [Ip IT Is Isub Itok Iidle Istage Ibc].
  destruct (Iidle Hc0) as [Hw0 [He [Hcm [Hadj Hcp]]]].
  assert (Htk : tok_ok gX old k) by (destruct (Itok t) as [_ H]; rewrite Hpc in H; exact H).
  assert (Hbc_other : forall t0 st n0 old0 k0 w0, t0 <> t -> pcb (ls t0) = BC st n0 old0 k0 w0 -> False).
  { intros t0 st n0 old0 k0 w0 _ H0. destruct (Ibc _ _ _ _ _ _ H0) as [H1 [_ [H2 _]]]. congruence. }
  destruct pc' as [r c e|r c e|[|]]; cbn [after_tree fst snd].
  - (* still scanning *)
    split; cbn [set_tree btree phase eph phno cstage completer expected compl adj drops]; try assumption.
    + apply HT; [intros; apply bpcs_other; assumption|left; rewrite bpcs_same; reflexivity].
    + intros t0 n0 old0 k0 w0 pc0 H0. destruct (Nat.eq_dec t0 t) as [->|Hne].
      * rewrite upd_same in H0. cbn in H0. inversion H0; subst. repeat split; reflexivity.
      * rewrite upd_other in H0 by exact Hne. eapply Isub; exact H0.
    + intros t0. destruct (Nat.eq_dec t0 t) as [->|Hne].
      * rewrite upd_same. cbn. split; [apply Itok|exact Htk].
      * rewrite upd_other by exact Hne. apply Itok.
    + cbn [won] in Hw. intros _. repeat split; try assumption. lia.
    + intros Hne0. congruence.
    + intros t0 st n0 old0 k0 w0 H0. destruct (Nat.eq_dec t0 t) as [->|Hne].
      * rewrite upd_same in H0. cbn in H0. discriminate.
      * rewrite upd_other in H0 by exact Hne. destruct (Hbc_other _ _ _ _ _ _ Hne H0).
  - split; cbn [set_tree btree phase eph phno cstage completer expected compl adj drops]; try assumption.
    + apply HT; [intros; apply bpcs_other; assumption|left; rewrite bpcs_same; reflexivity].
    + intros t0 n0 old0 k0 w0 pc0 H0. destruct (Nat.eq_dec t0 t) as [->|Hne].
      * rewrite upd_same in H0. cbn in H0. inversion H0; subst. repeat split; reflexivity.
      * rewrite upd_other in H0 by exact Hne. eapply Isub; exact H0.
    + intros t0. destruct (Nat.eq_dec t0 t) as [->|Hne].
      * rewrite upd_same. cbn. split; [apply Itok|exact Htk].
      * rewrite upd_other by exact Hne. apply Itok.
    + cbn [won] in Hw. intros _. repeat split; try assumption. lia.
    + intros Hne0. congruence.
    + intros t0 st n0 old0 k0 w0 H0. destruct (Nat.eq_dec t0 t) as [->|Hne].
      * rewrite upd_same in H0. cbn in H0. discriminate.
      * rewrite upd_other in H0 by exact Hne. destruct (Hbc_other _ _ _ _ _ _ Hne H0).
  - (* the winner: enters the completion step *)
    cbn [won] in Hw.
    split; cbn [set_stage set_tree btree phase eph phno cstage completer expected compl adj drops]; try assumption.
    + apply HT; [intros; apply bpcs_other; assumption|right; rewrite bpcs_same; reflexivity].
    + intros t0 n0 old0 k0 w0 pc0 H0. destruct (Nat.eq_dec t0 t) as [->|Hne].
      * rewrite upd_same in H0. cbn in H0. discriminate.
      * rewrite upd_other in H0 by exact Hne. eapply Isub; exact H0.
    + intros t0. destruct (Nat.eq_dec t0 t) as [->|Hne].
      * rewrite upd_same. cbn. split; [apply Itok|exact Htk].
      * rewrite upd_other by exact Hne. apply Itok.
    + discriminate.
    + intros _. cbn. repeat split; try assumption; try lia.
    + intros t0 st n0 old0 k0 w0 H0. destruct (Nat.eq_dec t0 t) as [->|Hne].
      * rewrite upd_same in H0. cbn in H0. inversion H0; subst. repeat split; congruence.
      * rewrite upd_other in H0 by exact Hne. destruct (Hbc_other _ _ _ _ _ _ Hne H0).
  - (* returned false: next arrival of the same call, or the call returns *)
    cbn [won] in Hw.
    assert (Hns : no_sub (pcb (arr_next (ls t) n old k w)) /\
                  tok_ok gX (token (arr_next (ls t) n old k w)) (tokk (arr_next (ls t) n old k w)) /\
                  pc_tok_ok gX (pcb (arr_next (ls t) n old k w))).
    { unfold arr_next, wait_pc. destruct n as [|[|m]]; [destruct w; [destruct (busy_op _)|]|destruct w; [destruct (busy_op _)|]|]; cbn; repeat split;
        try (destruct Htk; assumption); try (destruct (Itok t) as [[? ?] _]; assumption); try exact Logic.I. }
    destruct Hns as [Hn1 [Hn2 Hn3]].
    split; cbn [set_tree btree phase eph phno cstage completer expected compl adj drops]; try assumption.
    + apply HT; [intros; apply bpcs_other; assumption|right; rewrite bpcs_same].
      destruct (pcb (arr_next (ls t) n old k w)) as [| | ? ? ? ? [?|]| | |]; try reflexivity; destruct Hn1.
    + intros t0 n0 old0 k0 w0 pc0 H0. destruct (Nat.eq_dec t0 t) as [->|Hne].
      * rewrite upd_same in H0. rewrite H0 in Hn1. destruct Hn1.
      * rewrite upd_other in H0 by exact Hne. eapply Isub; exact H0.
    + intros t0. destruct (Nat.eq_dec t0 t) as [->|Hne].
      * rewrite upd_same. split; assumption.
      * rewrite upd_other by exact Hne. apply Itok.
    + intros _. repeat split; try assumption. lia.
    + intros Hne0. congruence.
    + intros t0 st n0 old0 k0 w0 H0. destruct (Nat.eq_dec t0 t) as [->|Hne].
      * rewrite upd_same in H0. rewrite H0 in Hn1. destruct Hn1.
      * rewrite upd_other in H0 by exact Hne. destruct (Hbc_other _ _ _ _ _ _ Hne H0).
Qed.

Lemma after_tree_bad g2 l t n old k w pc : bad (fst (after_tree g2 l t n old k w pc)) = bad g2.
Proof. destruct pc as [| |[|]]; reflexivity. Qed.

Lemma b_tstep_bad_mono start t g l : bad g = true -> bad (fst (b_tstep start t g l)) = true.
Proof.
  intros H. unfold b_tstep.
  destruct (pcb l) as [|n w|n old k w [pc|]|st n old k w|old k|old k].
  - destruct (bprog l) as [|[n| | | | |] ?]; cbn; try assumption. rewrite H. reflexivity.
  - destruct n; cbn; [assumption|]. rewrite H. reflexivity.
  - destruct (tree_step old t (btree g) pc) as [tr' pc']. rewrite after_tree_bad. exact H.
  - destruct (tree_start (expected g) t (btree g) start) as [tr' pc']. rewrite after_tree_bad. cbn.
    rewrite H. reflexivity.
  - destruct st as [|[|[|[|st]]]]; cbn; assumption.
  - destruct (N.eqb (phase g) old); cbn; assumption.
  - destruct (timed_out start); [cbn; assumption|]. destruct (N.eqb (phase g) old); cbn; assumption.
Qed.

Lemma tok_ok_S g g' old k : phno g' = S (phno g) -> tok_ok g old k -> tok_ok g' old k.
Proof. intros H [H1 H2]. split; [exact H1|lia]. Qed.

Lemma BInv_step start t g (ls : locals blocal) : BInv g ls ->
  bad (fst (b_tstep start t g (ls t))) = false ->
  BInv (fst (b_tstep start t g (ls t))) (upd ls t (snd (b_tstep start t g (ls t)))).
Proof.
  intros I Hbad. unfold b_tstep in *.
  destruct (pcb (ls t)) as [|n w|n old k w [pc|]|st n old k w|old k|old k] eqn:Hpc.
  - (* BIdle *)
    destruct (bprog (ls t)) as [|[n| | | | |] rest] eqn:Hprog; cbn [fst snd] in *.
    + apply BInv_same. exact I.
    + apply BInv_local; cbn; try exact Logic.I; try assumption; [rewrite Hpc; exact Logic.I|apply (b_tok _ _ I)].
    + apply BInv_local; cbn; try exact Logic.I; try assumption; [rewrite Hpc; exact Logic.I|apply (b_tok _ _ I)|apply (b_tok _ _ I)].
    + apply BInv_local; cbn; try exact Logic.I; try assumption; [rewrite Hpc; exact Logic.I|apply (b_tok _ _ I)].
    + (* arrive_and_drop: expected_adjustment.fetch_sub(1) *)
      cbn [bad] in Hbad. apply orb_false_iff in Hbad. destruct Hbad as [_ Hc].
      unfold completing in Hc. apply negb_false_iff, Nat.eqb_eq in Hc.
      apply BInv_local; cbn; try exact Logic.I; [|rewrite Hpc; exact Logic.I|apply (b_tok _ _ I)].
      destruct I as [Ip IT Is Isub Itok Iidle Istage Ibc].
      destruct (Iidle Hc) as [Hw0 [He [Hcm [Hadj Hcp]]]].
      split; cbn; try assumption.
      * intros _. repeat split; try assumption. lia.
      * intros Hne. congruence.
    + (* wait(token, timeout > 0): enters the busy wait *)
      apply BInv_local; cbn; try exact Logic.I; try assumption; [rewrite Hpc; exact Logic.I|apply (b_tok _ _ I)|apply (b_tok _ _ I)].
    + (* arrive_and_wait(timeout > 0) *)
      apply BInv_local; cbn; try exact Logic.I; try assumption; [rewrite Hpc; exact Logic.I|apply (b_tok _ _ I)].
  - (* BLoad *)
    destruct n as [|n]; cbn [fst snd] in *.
    + apply BInv_local; cbn; try exact Logic.I; try assumption; [rewrite Hpc; exact Logic.I|].
      split; [apply (b_phase _ _ I)|apply Nat.le_refl].
    + apply BInv_local; cbn; try exact Logic.I; [apply BInv_set_bad; exact I|rewrite Hpc; exact Logic.I|apply (b_tok _ _ I)|].
      split; [apply (b_phase _ _ I)|apply Nat.le_refl].
  - (* a tree step inside arrive *)
    destruct (tree_step old t (btree g) pc) as [tr' pc'] eqn:Hst.
    destruct (b_sub _ _ I _ _ _ _ _ _ Hpc) as [Hold [Hk Hnr]].
    assert (Hd : distinct3 (phase g)) by (apply distinct3_byte; rewrite (b_phase _ _ I); apply pb_lt).
    assert (Hbp : bpcs ls t = Some pc) by (unfold bpcs; rewrite Hpc; reflexivity).
    destruct (tree_step_counts _ _ _ _ _ _ Hnr Hst) as [Hs Hw].
    assert (Hc0 : cstage g = 0).
    { destruct (Nat.eq_dec (cstage g) 0) as [|Hne]; [assumption|exfalso].
      destruct (b_stage _ _ I Hne) as [Hw1 _].
      assert (HE : 1 <= eph g).
      { destruct (le_lt_dec (eph g) 0) as [H0|]; [|lia].
        assert (eph g <= 1) as H1 by lia. pose proof (iB3 _ _ _ _ (b_T _ _ I) H1). pose proof (b_started _ _ I). lia. }
      destruct (winner_facts _ _ Hd _ _ (b_T _ _ I) HE (b_started _ _ I)) as [_ [_ Hall]]; [lia|].
      destruct pc as [r c e|r c e|b]; [| |discriminate].
      - destruct (iA_scan _ _ _ _ (b_T _ _ I) _ _ _ _ Hbp) as [Hi [-> [H2 _]]].
        destruct (Hall r H2) as [Ha _]. rewrite Ha in Hi. destruct Hi.
      - destruct (iA_sec _ _ _ _ (b_T _ _ I) _ _ _ _ Hbp) as [Hi [-> [H2 _]]].
        destruct (Hall r H2) as [Ha _]. rewrite Ha in Hi. destruct Hi. }
    apply (BInv_after_tree g ls t n old k w (Some pc) tr' pc' I Hpc Hold Hk Hc0).
    + intros pcof' Hoth Hme. subst old.
      apply (tree_step_inv _ _ Hd (btree g) (bpcs ls) pcof' t pc tr' pc' (b_T _ _ I) Hbp Hst Hoth Hme).
    + rewrite Hs. apply (b_started _ _ I).
    + exact Hw.
  - (* site 900: entry of base.arrive *)
    destruct (tree_start (expected g) t (btree g) start) as [tr' pc'] eqn:Hst.
    rewrite after_tree_bad in Hbad. cbn [bad blog_add set_tree set_bad] in Hbad.
    apply orb_false_iff in Hbad. destruct Hbad as [_ Hb]. apply orb_false_iff in Hb. destruct Hb as [Hb Hc].
    apply orb_false_iff in Hb. destruct Hb as [Hlt Hold].
    apply Nat.leb_gt in Hlt. apply negb_false_iff, N.eqb_eq in Hold.
    unfold completing in Hc. apply negb_false_iff, Nat.eqb_eq in Hc.
    assert (Hd : distinct3 (phase g)) by (apply distinct3_byte; rewrite (b_phase _ _ I); apply pb_lt).
    destruct (b_idle _ _ I Hc) as [Hw0 [He _]].
    destruct (tree_start_counts _ _ _ _ _ _ Hst) as [Hs Hw].
    change (blog_add (set_tree (set_bad g (Nat.leb (expected g) (started (btree g)) || negb (N.eqb old (phase g)) || completing g)) tr') (EvArrive t (phno g)))
      with (set_tree (blog_add (set_bad g (Nat.leb (expected g) (started (btree g)) || negb (N.eqb old (phase g)) || completing g)) (EvArrive t (phno g))) tr').
    set (gX := blog_add (set_bad g (Nat.leb (expected g) (started (btree g)) || negb (N.eqb old (phase g)) || completing g)) (EvArrive t (phno g))).
    assert (IX : BInv gX ls) by (apply BInv_blog_add, BInv_set_bad; exact I).
    (* the ghost phase instance of the thread is refreshed at entry *)
    assert (Hpc' : pcb (upd ls t (setpc (ls t) (BArr n old (phno g) w None)) t) = BArr n old (phno g) w None).
    { rewrite upd_same. reflexivity. }
    assert (IX2 : BInv gX (upd ls t (setpc (ls t) (BArr n old (phno g) w None)))).
    { apply BInv_local; cbn; try exact Logic.I; try assumption; [rewrite Hpc; exact Logic.I|apply (b_tok _ _ I)|].
      split; [rewrite <- (b_phase _ _ I); exact Hold|apply Nat.le_refl]. }
    pose proof (BInv_after_tree gX _ t n old (phno g) w None tr' pc' IX2 Hpc' Hold eq_refl Hc) as HA.
    assert (Hupd : forall l', upd (upd ls t (setpc (ls t) (BArr n old (phno g) w None))) t l' = upd ls t l' \/ True) by (intros; right; exact Logic.I).
    clear Hupd.
    (* after_tree depends on the local state only through bprog/token/tokk, which setpc keeps *)
    assert (Hat : forall g2, after_tree g2 (upd ls t (setpc (ls t) (BArr n old (phno g) w None)) t) t n old (phno g) w pc'
                             = after_tree g2 (ls t) t n old (phno g) w pc').
    { intros g2. rewrite upd_same. destruct pc' as [| |[|]]; cbn [after_tree]; reflexivity. }
    rewrite Hat in HA.
    assert (Hext : forall l' t0, upd (upd ls t (setpc (ls t) (BArr n old (phno g) w None))) t l' t0 = upd ls t l' t0).
    { intros l' t0. destruct (Nat.eq_dec t0 t) as [->|Hne]; [rewrite !upd_same; reflexivity|].
      rewrite !upd_other by exact Hne. reflexivity. }
    assert (HA' : BInv (fst (after_tree (set_tree gX tr') (ls t) t n old (phno g) w pc'))
                    (upd (upd ls t (setpc (ls t) (BArr n old (phno g) w None))) t
                         (snd (after_tree (set_tree gX tr') (ls t) t n old (phno g) w pc')))).
    { apply HA.
      - intros pcof' Hoth Hme. rewrite He in Hst.
        apply (tree_start_inv _ _ (btree g) (bpcs ls) pcof' t start tr' pc' (b_T _ _ I) Hst); [|exact Hme].
        intros t0 Hne. rewrite Hoth by exact Hne. apply bpcs_other. exact Hne.
      - cbn. rewrite Hs. lia.
      - exact Hw. }
    clear HA. destruct HA' as [Ip IT Is Isub Itok Iidle Istage Ibc].
    split; try assumption.
    + eapply TInv_ext; [|exact IT]. intros t0. unfold bpcs. rewrite Hext. reflexivity.
    + intros t0 n0 old0 k0 w0 pc0 H0. rewrite <- Hext in H0. eapply Isub; exact H0.
    + intros t0. rewrite <- Hext. apply Itok.
    + intros t0 st n0 old0 k0 w0 H0. rewrite <- Hext in H0. eapply Ibc; exact H0.
  - (* the completion step *)
    destruct (b_bc _ _ I _ _ _ _ _ _ Hpc) as [Hst [Hcp [Hne [Hold Hk]]]].
    assert (Hne' : cstage g <> 0) by congruence.
    destruct (b_stage _ _ I Hne') as [Hw1 [Hle [Hcm [He Hadj]]]].
    assert (Hbc_other : forall t0 st0 n0 old0 k0 w0, t0 <> t -> pcb (ls t0) = BC st0 n0 old0 k0 w0 -> False).
    { intros t0 st0 n0 old0 k0 w0 Hn0 H0. destruct (b_bc _ _ I _ _ _ _ _ _ H0) as [_ [H1 _]]. congruence. }
    assert (Hpcs : forall l', no_sub (pcb l') \/ (exists st' n' old' k' w', pcb l' = BC st' n' old' k' w') ->
                   forall t0, bpcs (upd ls t l') t0 = bpcs ls t0).
    { intros l' Hl t0. destruct (Nat.eq_dec t0 t) as [->|Hn0]; [|apply bpcs_other; exact Hn0].
      rewrite bpcs_same. unfold bpcs. rewrite Hpc. destruct Hl as [Hl|[? [? [? [? [? Hl]]]]]].
      - destruct (pcb l') as [| | ? ? ? ? [?|]| | |]; try reflexivity; destruct Hl.
      - rewrite Hl. reflexivity. }
    destruct I as [Ip IT Is Isub Itok Iidle Istage Ibc].
    assert (Htk : tok_ok g old k) by (destruct (Itok t) as [_ H]; rewrite Hpc in H; exact H).
    destruct st as [|[|[|[|st]]]]; [congruence| | | |]; cbn [fst snd].
    + (* BC1: completion() *)
      split; cbn; try assumption.
      * apply (TInv_ext _ _ _ (bpcs ls)); [|exact IT]. apply Hpcs. right. cbn. eauto 8.
      * intros t0 n0 old0 k0 w0 pc0 H0. destruct (Nat.eq_dec t0 t) as [->|Hn0];
          [rewrite upd_same in H0; discriminate|rewrite upd_other in H0 by exact Hn0; eapply Isub; exact H0].
      * intros t0. destruct (Nat.eq_dec t0 t) as [->|Hn0]; [rewrite upd_same; cbn; split; [apply Itok|exact Htk]|rewrite upd_other by exact Hn0; apply Itok].
      * discriminate.
      * intros _. rewrite Hst in Hcm, He, Hadj. cbn in Hcm, He, Hadj |- *. repeat split; try assumption; lia.
      * intros t0 st0 n0 old0 k0 w0 H0. destruct (Nat.eq_dec t0 t) as [->|Hn0].
        -- rewrite upd_same in H0. inversion H0; subst. repeat split; congruence.
        -- rewrite upd_other in H0 by exact Hn0. destruct (Hbc_other _ _ _ _ _ _ Hn0 H0).
    + (* BC2: expected += expected_adjustment *)
      split; cbn; try assumption.
      * apply (TInv_ext _ _ _ (bpcs ls)); [|exact IT]. apply Hpcs. right. cbn. eauto 8.
      * intros t0 n0 old0 k0 w0 pc0 H0. destruct (Nat.eq_dec t0 t) as [->|Hn0];
          [rewrite upd_same in H0; discriminate|rewrite upd_other in H0 by exact Hn0; eapply Isub; exact H0].
      * intros t0. destruct (Nat.eq_dec t0 t) as [->|Hn0]; [rewrite upd_same; cbn; split; [apply Itok|exact Htk]|rewrite upd_other by exact Hn0; apply Itok].
      * discriminate.
      * intros _. rewrite Hst in Hcm, He, Hadj. cbn in Hcm, He, Hadj |- *. repeat split; try assumption; lia.
      * intros t0 st0 n0 old0 k0 w0 H0. destruct (Nat.eq_dec t0 t) as [->|Hn0].
        -- rewrite upd_same in H0. inversion H0; subst. repeat split; congruence.
        -- rewrite upd_other in H0 by exact Hn0. destruct (Hbc_other _ _ _ _ _ _ Hn0 H0).
    + (* BC3: expected_adjustment.store(0) *)
      split; cbn; try assumption.
      * apply (TInv_ext _ _ _ (bpcs ls)); [|exact IT]. apply Hpcs. right. cbn. eauto 8.
      * intros t0 n0 old0 k0 w0 pc0 H0. destruct (Nat.eq_dec t0 t) as [->|Hn0];
          [rewrite upd_same in H0; discriminate|rewrite upd_other in H0 by exact Hn0; eapply Isub; exact H0].
      * intros t0. destruct (Nat.eq_dec t0 t) as [->|Hn0]; [rewrite upd_same; cbn; split; [apply Itok|exact Htk]|rewrite upd_other by exact Hn0; apply Itok].
      * discriminate.
      * intros _. rewrite Hst in Hcm, He, Hadj. cbn in Hcm, He, Hadj |- *. repeat split; try assumption; lia.
      * intros t0 st0 n0 old0 k0 w0 H0. destruct (Nat.eq_dec t0 t) as [->|Hn0].
        -- rewrite upd_same in H0. inversion H0; subst. repeat split; congruence.
        -- rewrite upd_other in H0 by exact Hn0. destruct (Hbc_other _ _ _ _ _ _ Hn0 H0).
    + (* BC4: phase.store(old_phase + 2) *)
      assert (Hst4 : cstage g = 4) by lia. rewrite Hst4 in *. cbn in Hcm, He, Hadj.
      assert (Hns : no_sub (pcb (arr_next (ls t) n old k w)) /\
                    tok_ok g (token (arr_next (ls t) n old k w)) (tokk (arr_next (ls t) n old k w)) /\
                    pc_tok_ok g (pcb (arr_next (ls t) n old k w))).
      { unfold arr_next, wait_pc. destruct n as [|[|m]]; [destruct w; [destruct (busy_op _)|]|destruct w; [destruct (busy_op _)|]|]; cbn; repeat split;
          try (destruct Htk; assumption); try (destruct (Itok t) as [[? ?] _]; assumption); try exact Logic.I. }
      destruct Hns as [Hn1 [Hn2 Hn3]].
      assert (Hp : (phase g < pmod)%N) by (rewrite Ip; apply pb_lt).
      assert (HE' : expected g <= eph g) by lia.
      destruct (TInv_next_phase (eph g) (expected g) (phase g) (btree g) (bpcs ls)
                  (bpcs (upd ls t (arr_next (ls t) n old k w))) Hp IT Is) as [IT' Hin]; [lia|exact HE'| |].
      { apply Hpcs. left. exact Hn1. }
      split; cbn [btree phase eph phno cstage completer expected compl adj drops started wins].
      * rewrite Hold, Ip. apply pb_next.
      * rewrite <- Hold in IT'. exact IT'.
      * lia.
      * intros t0 n0 old0 k0 w0 pc0 H0. exfalso. destruct (Nat.eq_dec t0 t) as [->|Hn0].
        -- rewrite upd_same in H0. rewrite H0 in Hn1. destruct Hn1.
        -- rewrite upd_other in H0 by exact Hn0. destruct (Isub _ _ _ _ _ _ H0) as [_ [_ Hr]].
           assert (Hb : bpcs ls t0 = Some pc0) by (unfold bpcs; rewrite H0; reflexivity).
           destruct pc0 as [r c e|r c e|b]; [| |discriminate].
           ++ apply (Hin t0 r). eexists _, _. left. exact Hb.
           ++ apply (Hin t0 r). eexists _, _. right. exact Hb.
      * intros t0. destruct (Nat.eq_dec t0 t) as [->|Hn0].
        -- rewrite upd_same. split; [eapply tok_ok_S; [reflexivity|exact Hn2]|].
           destruct (pcb (arr_next (ls t) n old k w)); cbn in *; try exact Logic.I; (eapply tok_ok_S; [reflexivity|exact Hn3]).
        -- rewrite upd_other by exact Hn0. destruct (Itok t0) as [H1 H2]. split; [eapply tok_ok_S; [reflexivity|exact H1]|].
           destruct (pcb (ls t0)); cbn in *; try exact Logic.I; (eapply tok_ok_S; [reflexivity|exact H2]).
      * intros _. repeat split; try reflexivity. rewrite Hadj. reflexivity.
      * intros H0. congruence.
      * intros t0 st0 n0 old0 k0 w0 H0. exfalso. destruct (Nat.eq_dec t0 t) as [->|Hn0].
        -- rewrite upd_same in H0. rewrite H0 in Hn1. destruct Hn1.
        -- rewrite upd_other in H0 by exact Hn0. destruct (Hbc_other _ _ _ _ _ _ Hn0 H0).
  - (* wait: poll the phase *)
    destruct (N.eqb (phase g) old) eqn:Hq; cbn [fst snd].
    + apply BInv_same. exact I.
    + apply BInv_local; cbn; try exact Logic.I; [apply BInv_blog_add; exact I|rewrite Hpc; exact Logic.I|apply (b_tok _ _ I)].
  - (* busy wait: timer expired -> blocking wait; else poll the phase *)
    destruct (timed_out start); cbn [fst snd].
    + apply BInv_local; cbn; try exact Logic.I; try assumption; [rewrite Hpc; exact Logic.I|apply (b_tok _ _ I)|].
      destruct (b_tok _ _ I t) as [_ Htk]. rewrite Hpc in Htk. exact Htk.
    + destruct (N.eqb (phase g) old) eqn:Hq; cbn [fst snd].
      * apply BInv_same. exact I.
      * apply BInv_local; cbn; try exact Logic.I; [apply BInv_blog_add; exact I|rewrite Hpc; exact Logic.I|apply (b_tok _ _ I)].
Qed.

(* ---------- the event log ---------- *)
Definition is_arrive (k : nat) (e : bev) : bool := match e with EvArrive _ k' => Nat.eqb k' k | _ => false end.
Definition is_compl (k : nat) (e : bev) : bool := match e with EvCompl _ k' _ _ => Nat.eqb k' k | _ => false end.
Definition acount (k : nat) (lg : list bev) : nat := length (filter (is_arrive k) lg).
Definition ccount (k : nat) (lg : list bev) : nat := length (filter (is_compl k) lg).

Inductive LogDelta (t : nat) (g g' : bar) : Prop :=
| LD_none : blog g' = blog g -> phno g' = phno g -> started (btree g') = started (btree g) ->
            compl g' = compl g -> LogDelta t g g'
| LD_arrive : blog g' = EvArrive t (phno g) :: blog g -> phno g' = phno g ->
            started (btree g') = S (started (btree g)) -> compl g' = compl g -> LogDelta t g g'
| LD_compl : blog g' = EvCompl t (phno g) (eph g) (eph g) :: blog g -> phno g' = phno g ->
            started (btree g') = started (btree g) -> compl g' = 1 -> compl g = 0 ->
            started (btree g) = eph g -> LogDelta t g g'
| LD_publish : blog g' = EvPublish (phno g) 1 (eph g) (eph g) (drops g) (eph g - drops g) :: blog g ->
            phno g' = S (phno g) -> started (btree g') = 0 -> compl g' = 0 -> compl g = 1 ->
            started (btree g) = eph g -> LogDelta t g g'
| LD_depart k : blog g' = EvDepart t k (phno g) :: blog g -> phno g' = phno g -> k < phno g ->
            started (btree g') = started (btree g) -> compl g' = compl g -> LogDelta t g g'.

Lemma after_tree_log g2 l t n old k w pc :
  blog (fst (after_tree g2 l t n old k w pc)) = blog g2 /\
  phno (fst (after_tree g2 l t n old k w pc)) = phno g2 /\
  btree (fst (after_tree g2 l t n old k w pc)) = btree g2 /\
  compl (fst (after_tree g2 l t n old k w pc)) = compl g2.
Proof. destruct pc as [| |[|]]; repeat split; reflexivity. Qed.

Lemma completer_all_arrived g ls : BInv g ls -> cstage g <> 0 -> started (btree g) = eph g.
Proof.
  intros I Hne. destruct (b_stage _ _ I Hne) as [Hw1 _].
  assert (Hd : distinct3 (phase g)) by (apply distinct3_byte; rewrite (b_phase _ _ I); apply pb_lt).
  assert (HE : 1 <= eph g).
  { destruct (le_lt_dec (eph g) 0) as [H0|]; [|lia].
    assert (eph g <= 1) as H1 by lia. pose proof (iB3 _ _ _ _ (b_T _ _ I) H1). pose proof (b_started _ _ I). lia. }
  destruct (winner_facts _ _ Hd _ _ (b_T _ _ I) HE (b_started _ _ I)) as [H _]; [lia|exact H].
Qed.

Lemma b_tstep_delta start t g (ls : locals blocal) : BInv g ls ->
  bad (fst (b_tstep start t g (ls t))) = false -> LogDelta t g (fst (b_tstep start t g (ls t))).
Proof.
  intros I Hbad. unfold b_tstep in *.
  destruct (pcb (ls t)) as [|n w|n old k w [pc|]|st n old k w|old k|old k] eqn:Hpc.
  - destruct (bprog (ls t)) as [|[n| | | | |] rest]; cbn [fst]; apply LD_none; reflexivity.
  - destruct n; cbn [fst]; apply LD_none; reflexivity.
  - destruct (tree_step old t (btree g) pc) as [tr' pc'] eqn:Hst.
    destruct (b_sub _ _ I _ _ _ _ _ _ Hpc) as [_ [_ Hnr]].
    destruct (tree_step_counts _ _ _ _ _ _ Hnr Hst) as [Hs _].
    destruct (after_tree_log (set_tree g tr') (ls t) t n old k w pc') as [H1 [H2 [H3 H4]]].
    apply LD_none; [rewrite H1|rewrite H2|rewrite H3|rewrite H4]; try reflexivity. exact Hs.
  - destruct (tree_start (expected g) t (btree g) start) as [tr' pc'] eqn:Hst.
    destruct (tree_start_counts _ _ _ _ _ _ Hst) as [Hs _].
    match goal with |- LogDelta _ _ (fst (after_tree ?g2 _ _ _ _ _ _ _)) =>
      destruct (after_tree_log g2 (ls t) t n old (phno g) w pc') as [H1 [H2 [H3 H4]]] end.
    apply LD_arrive; [rewrite H1|rewrite H2|rewrite H3|rewrite H4]; try reflexivity. exact Hs.
  - destruct (b_bc _ _ I _ _ _ _ _ _ Hpc) as [Hst [Hcp [Hne [Hold Hk]]]].
    assert (Hne' : cstage g <> 0) by congruence.
    destruct (b_stage _ _ I Hne') as [Hw1 [Hle [Hcm [He Hadj]]]].
    pose proof (completer_all_arrived g ls I Hne') as Hall.
    destruct st as [|[|[|[|st]]]]; [congruence| | | |]; cbn [fst].
    + rewrite Hst in Hcm, He. cbn in Hcm, He. subst k.
      apply LD_compl; cbn; try reflexivity; try assumption; try lia. rewrite Hall, He. reflexivity.
    + apply LD_none; reflexivity.
    + apply LD_none; reflexivity.
    + assert (Hst4 : cstage g = 4) by lia. rewrite Hst4 in Hcm, He. cbn in Hcm, He. subst k.
      apply LD_publish; cbn; try reflexivity; try assumption. rewrite Hcm, Hall, He. reflexivity.
  - destruct (N.eqb (phase g) old) eqn:Hq; cbn [fst].
    + apply LD_none; reflexivity.
    + apply (LD_depart t g _ k); cbn; try reflexivity.
      destruct (b_tok _ _ I t) as [_ Htk]. rewrite Hpc in Htk. destruct Htk as [H1 H2].
      apply N.eqb_neq in Hq. rewrite (b_phase _ _ I), H1 in Hq.
      destruct (Nat.eq_dec k (phno g)) as [->|]; [congruence|lia].
  - destruct (timed_out start); cbn [fst]; [apply LD_none; reflexivity|].
    destruct (N.eqb (phase g) old) eqn:Hq; cbn [fst].
    + apply LD_none; reflexivity.
    + apply (LD_depart t g _ k); cbn; try reflexivity.
      destruct (b_tok _ _ I t) as [_ Htk]. rewrite Hpc in Htk. destruct Htk as [H1 H2].
      apply N.eqb_neq in Hq. rewrite (b_phase _ _ I), H1 in Hq.
      destruct (Nat.eq_dec k (phno g)) as [->|]; [congruence|lia].
Qed.

Record BLog (g : bar) : Prop := {
  l_acur : acount (phno g) (blog g) = started (btree g);
  l_ccur : ccount (phno g) (blog g) = compl g;
  l_fut : forall k, phno g < k -> acount k (blog g) = 0 /\ ccount k (blog g) = 0;
  l_past : forall k, k < phno g -> ccount k (blog g) = 1 /\
           exists a d, In (EvPublish k 1 a a d (a - d)) (blog g);
  l_pub : forall k c a eo d en, In (EvPublish k c a eo d en) (blog g) ->
          c = 1 /\ a = eo /\ en = eo - d /\ k < phno g /\ acount k (blog g) = eo;
  l_compl : forall t k a e, In (EvCompl t k a e) (blog g) -> a = e /\ k <= phno g;
  l_dep : forall t k cur, In (EvDepart t k cur) (blog g) -> k < cur /\ cur <= phno g;
  l_ord_dep : forall l1 l2 t k cur, blog g = l1 ++ EvDepart t k cur :: l2 ->
              exists a d, In (EvPublish k 1 a a d (a - d)) l2;
  l_ord_pub : forall l1 l2 k c a eo d en, blog g = l1 ++ EvPublish k c a eo d en :: l2 ->
              ccount k l2 = 1 /\ acount k l2 = eo }.

Lemma acount_cons k e lg : acount k (e :: lg) = (if is_arrive k e then 1 else 0) + acount k lg.
Proof. unfold acount. cbn [filter]. destruct (is_arrive k e); reflexivity. Qed.
Lemma ccount_cons k e lg : ccount k (e :: lg) = (if is_compl k e then 1 else 0) + ccount k lg.
Proof. unfold ccount. cbn [filter]. destruct (is_compl k e); reflexivity. Qed.

Lemma split_cons {A} (e e' : A) lg l1 l2 : e' :: lg = l1 ++ e :: l2 ->
  (l1 = [] /\ e' = e /\ lg = l2) \/ (exists l1', l1 = e' :: l1' /\ lg = l1' ++ e :: l2).
Proof.
  destruct l1 as [|x l1']; cbn; intros H; inversion H; subst.
  - left. repeat split.
  - right. eexists. split; reflexivity.
Qed.

Lemma BLog_delta t g g' : BLog g -> LogDelta t g g' -> BLog g'.
Proof.
  intros L D. destruct L as [Lac Lcc Lf Lp Lpub Lc Ld Lod Lop].
  destruct D as [Hb Hp Hs Hc|Hb Hp Hs Hc|Hb Hp Hs Hc Hc0 Hall|Hb Hp Hs Hc Hc1 Hall|k Hb Hp Hk Hs Hc].
  - split; rewrite ?Hb, ?Hp, ?Hs, ?Hc; assumption.
  - (* EvArrive *)
    split; rewrite ?Hb, ?Hp, ?Hs, ?Hc.
    + rewrite acount_cons. cbn [is_arrive]. rewrite Nat.eqb_refl. lia.
    + rewrite ccount_cons. cbn [is_compl]. lia.
    + intros k Hk. rewrite acount_cons, ccount_cons. cbn [is_arrive is_compl].
      destruct (Nat.eqb (phno g) k) eqn:Hq; [apply Nat.eqb_eq in Hq; lia|]. apply Lf. exact Hk.
    + intros k Hk. rewrite ccount_cons. cbn [is_compl]. destruct (Lp k Hk) as [H1 [a [d H2]]].
      split; [exact H1|]. exists a, d. right. exact H2.
    + intros k c a eo d en [H0|H0]; [discriminate|]. destruct (Lpub _ _ _ _ _ _ H0) as [H1 [H2 [H3 [H4 H5]]]].
      repeat split; try assumption. rewrite acount_cons. cbn [is_arrive].
      destruct (Nat.eqb (phno g) k) eqn:Hq; [apply Nat.eqb_eq in Hq; lia|exact H5].
    + intros t0 k a e [H0|H0]; [discriminate|]. eapply Lc; exact H0.
    + intros t0 k cur [H0|H0]; [discriminate|]. eapply Ld; exact H0.
    + intros l1 l2 t0 k cur H0. destruct (split_cons _ _ _ _ _ H0) as [[_ [H1 _]]|[l1' [_ H1]]]; [discriminate|].
      eapply Lod; exact H1.
    + intros l1 l2 k c a eo d en H0. destruct (split_cons _ _ _ _ _ H0) as [[_ [H1 _]]|[l1' [_ H1]]]; [discriminate|].
      eapply Lop; exact H1.
  - (* EvCompl *)
    split; rewrite ?Hb, ?Hp, ?Hs, ?Hc.
    + rewrite acount_cons. cbn [is_arrive]. exact Lac.
    + rewrite ccount_cons. cbn [is_compl]. rewrite Nat.eqb_refl. lia.
    + intros k Hk. rewrite acount_cons, ccount_cons. cbn [is_arrive is_compl].
      destruct (Nat.eqb (phno g) k) eqn:Hq; [apply Nat.eqb_eq in Hq; lia|]. apply Lf. exact Hk.
    + intros k Hk. rewrite ccount_cons. cbn [is_compl]. destruct (Lp k Hk) as [H1 [a [d H2]]].
      destruct (Nat.eqb (phno g) k) eqn:Hq; [apply Nat.eqb_eq in Hq; lia|].
      split; [exact H1|]. exists a, d. right. exact H2.
    + intros k c a eo d en [H0|H0]; [discriminate|]. destruct (Lpub _ _ _ _ _ _ H0) as [H1 [H2 [H3 [H4 H5]]]].
      repeat split; try assumption.
    + intros t0 k a e [H0|H0]; [inversion H0; subst; split; [reflexivity|lia]|]. eapply Lc; exact H0.
    + intros t0 k cur [H0|H0]; [discriminate|]. eapply Ld; exact H0.
    + intros l1 l2 t0 k cur H0. destruct (split_cons _ _ _ _ _ H0) as [[_ [H1 _]]|[l1' [_ H1]]]; [discriminate|].
      eapply Lod; exact H1.
    + intros l1 l2 k c a eo d en H0. destruct (split_cons _ _ _ _ _ H0) as [[_ [H1 _]]|[l1' [_ H1]]]; [discriminate|].
      eapply Lop; exact H1.
  - (* EvPublish *)
    split; rewrite ?Hb, ?Hp, ?Hs, ?Hc.
    + rewrite acount_cons. cbn [is_arrive]. destruct (Lf (S (phno g))) as [H1 _]; [lia|exact H1].
    + rewrite ccount_cons. cbn [is_compl]. destruct (Lf (S (phno g))) as [_ H1]; [lia|exact H1].
    + intros k Hk. rewrite acount_cons, ccount_cons. cbn [is_arrive is_compl]. apply Lf. lia.
    + intros k Hk. rewrite ccount_cons. cbn [is_compl]. destruct (Nat.eq_dec k (phno g)) as [->|Hne].
      * split; [lia|]. exists (eph g), (drops g). left. reflexivity.
      * destruct (Lp k) as [H1 [a [d H2]]]; [lia|]. split; [exact H1|]. exists a, d. right. exact H2.
    + intros k c a eo d en [H0|H0].
      * inversion H0; subst. repeat split; try lia. rewrite acount_cons. cbn [is_arrive]. lia.
      * destruct (Lpub _ _ _ _ _ _ H0) as [H1 [H2 [H3 [H4 H5]]]]. repeat split; try assumption; try lia.
    + intros t0 k a e [H0|H0]; [discriminate|]. destruct (Lc _ _ _ _ H0). split; [assumption|lia].
    + intros t0 k cur [H0|H0]; [discriminate|]. destruct (Ld _ _ _ H0). split; lia.
    + intros l1 l2 t0 k cur H0. destruct (split_cons _ _ _ _ _ H0) as [[_ [H1 _]]|[l1' [_ H1]]]; [discriminate|].
      eapply Lod; exact H1.
    + intros l1 l2 k c a eo d en H0. destruct (split_cons _ _ _ _ _ H0) as [[_ [H1 H2]]|[l1' [_ H1]]].
      * inversion H1; subst. split; lia.
      * eapply Lop; exact H1.
  - (* EvDepart *)
    split; rewrite ?Hb, ?Hp, ?Hs, ?Hc.
    + rewrite acount_cons. cbn [is_arrive]. exact Lac.
    + rewrite ccount_cons. cbn [is_compl]. exact Lcc.
    + intros k0 Hk0. rewrite acount_cons, ccount_cons. cbn [is_arrive is_compl]. apply Lf. exact Hk0.
    + intros k0 Hk0. rewrite ccount_cons. cbn [is_compl]. destruct (Lp k0 Hk0) as [H1 [a [d H2]]].
      split; [exact H1|]. exists a, d. right. exact H2.
    + intros k0 c a eo d en [H0|H0]; [discriminate|]. destruct (Lpub _ _ _ _ _ _ H0) as [H1 [H2 [H3 [H4 H5]]]].
      repeat split; try assumption.
    + intros t0 k0 a e [H0|H0]; [discriminate|]. eapply Lc; exact H0.
    + intros t0 k0 cur [H0|H0]; [inversion H0; subst; split; lia|]. eapply Ld; exact H0.
    + intros l1 l2 t0 k0 cur H0. destruct (split_cons _ _ _ _ _ H0) as [[_ [H1 H2]]|[l1' [_ H1]]].
      * inversion H1; subst. destruct (Lp k0 Hk) as [_ H3]. exact H3.
      * eapply Lod; exact H1.
    + intros l1 l2 k0 c a eo d en H0. destruct (split_cons _ _ _ _ _ H0) as [[_ [H1 _]]|[l1' [_ H1]]]; [discriminate|].
      eapply Lop; exact H1.
Qed.

(* ---------- reachable states ---------- *)
Lemma BInv_init E progs : BInv (bar_init E) (bar_locals progs).
Proof.
  split; cbn.
  - reflexivity.
  - apply (TInv_ext _ _ _ (fun _ => None)); [reflexivity|]. apply TInv_init. apply distinct3_byte. reflexivity.
  - lia.
  - discriminate.
  - intros _. repeat split; try exact Logic.I; lia.
  - intros _. repeat split.
  - intros H. exfalso. apply H. reflexivity.
  - discriminate.
Qed.

Lemma BLog_init E : BLog (bar_init E).
Proof.
  split; cbn; intros; try reflexivity; try lia; try contradiction; try (destruct l1; discriminate);
    try (split; reflexivity).
Qed.

Theorem bar_reachable E sched progs :
  bad (fst (bar_run E sched progs)) = false ->
  BInv (fst (bar_run E sched progs)) (snd (bar_run E sched progs)) /\ BLog (fst (bar_run E sched progs)).
Proof.
  unfold bar_run.
  apply (run_inv _ _ _ b_tstep (fun g ls => bad g = false -> BInv g ls /\ BLog g)).
  - intros o t g ls IH Hbad.
    assert (Hb0 : bad g = false).
    { destruct (bad g) eqn:Hb; [|reflexivity]. rewrite (b_tstep_bad_mono o t g (ls t) Hb) in Hbad. discriminate. }
    destruct (IH Hb0) as [I L]. split.
    + apply BInv_step; assumption.
    + eapply BLog_delta; [exact L|]. apply (b_tstep_delta o t g ls I Hbad).
  - intros _. split; [apply BInv_init|apply BLog_init].
Qed.

Lemma barrier_no_early_departure E sched progs :
  let g := fst (bar_run E sched progs) in bad g = false ->
  forall l1 l2 t k cur, blog g = l1 ++ EvDepart t k cur :: l2 ->
    k < cur /\
    exists a d l3 l4, l2 = l3 ++ EvPublish k 1 a a d (a - d) :: l4 /\ acount k l4 = a /\ ccount k l4 = 1.
Proof.
  intros g Hbad l1 l2 t k cur Hl. destruct (bar_reachable E sched progs Hbad) as [_ L]. fold g in L.
  split.
  - apply (l_dep _ L t k cur). rewrite Hl. apply in_or_app. right. left. reflexivity.
  - destruct (l_ord_dep _ L _ _ _ _ _ Hl) as [a [d Hin]].
    destruct (in_split _ _ Hin) as [l3 [l4 H34]]. exists a, d, l3, l4. split; [exact H34|].
    assert (Hl' : blog g = (l1 ++ EvDepart t k cur :: l3) ++ EvPublish k 1 a a d (a - d) :: l4).
    { rewrite Hl, H34, <- app_assoc. reflexivity. }
    destruct (l_ord_pub _ L _ _ _ _ _ _ _ _ Hl') as [H1 H2]. split; assumption.
Qed.

Lemma completion_once_per_phase_before_release E sched progs :
  let g := fst (bar_run E sched progs) in bad g = false ->
  (forall k, k < phno g -> ccount k (blog g) = 1) /\
  ccount (phno g) (blog g) <= 1 /\ (forall k, phno g < k -> ccount k (blog g) = 0) /\
  (forall t k a e, In (EvCompl t k a e) (blog g) -> a = e) /\
  (forall l1 l2 k c a eo d en, blog g = l1 ++ EvPublish k c a eo d en :: l2 ->
     c = 1 /\ ccount k l2 = 1 /\ acount k l2 = eo /\ a = eo).
Proof.
  intros g Hbad. destruct (bar_reachable E sched progs Hbad) as [I L]. fold g in I, L.
  repeat split.
  - intros k Hk. apply (l_past _ L k Hk).
  - rewrite (l_ccur _ L). destruct (Nat.eq_dec (cstage g) 0) as [H0|H0].
    + destruct (b_idle _ _ I H0) as [_ [_ [H _]]]. lia.
    + destruct (b_stage _ _ I H0) as [_ [_ [H _]]]. destruct (cstage g =? 1); lia.
  - intros k Hk. apply (l_fut _ L k Hk).
  - intros t k a e H. apply (l_compl _ L _ _ _ _ H).
  - assert (Hin : In (EvPublish k c a eo d en) (blog g)) by (rewrite H; apply in_or_app; right; left; reflexivity).
    apply (l_pub _ L _ _ _ _ _ _ Hin).
  - apply (l_ord_pub _ L _ _ _ _ _ _ _ _ H).
  - apply (l_ord_pub _ L _ _ _ _ _ _ _ _ H).
  - assert (Hin : In (EvPublish k c a eo d en) (blog g)) by (rewrite H; apply in_or_app; right; left; reflexivity).
    apply (l_pub _ L _ _ _ _ _ _ Hin).
Qed.

(* arrive_and_drop lowers the count of all later phases by one per call, and the barrier keeps
   working: the invariant (hence the two theorems above) holds for every later phase *)
Lemma barrier_drop_reusable E sched progs :
  let g := fst (bar_run E sched progs) in bad g = false ->
  (forall k c a eo d en, In (EvPublish k c a eo d en) (blog g) -> en = eo - d /\ a = eo) /\
  (cstage g = 0 -> expected g = eph g /\ adj g = (- Z.of_nat (drops g))%Z) /\
  TInv (eph g) (phase g) (btree g) (bpcs (snd (bar_run E sched progs))) /\
  started (btree g) <= eph g.
Proof.
  intros g Hbad. destruct (bar_reachable E sched progs Hbad) as [I L]. fold g in I, L.
  split; [|split; [|split]].
  - intros k c a eo d en H. split; apply (l_pub _ L _ _ _ _ _ _ H).
  - intros H. split; apply (b_idle _ _ I H).
  - apply (b_T _ _ I).
  - apply (b_started _ _ I).
Qed.

(* wait(token) returns once the phase of the token has completed, unless the token was kept
   for 2^(phase_bits-1) = 128 phases (then the phase byte has wrapped to the token's value) *)
Lemma pb_distinct k k' : k < k' -> k' - k < 128 -> pb k' <> pb k.
Proof.
  unfold pb, pmod, phase_bits, publish_inc, phase_init. change (2 ^ 8)%N with 256%N. intros H1 H2. lia.
Qed.

Lemma barrier_wait_releases E sched progs t old k :
  let c := bar_run E sched progs in bad (fst c) = false ->
  pcb (snd c t) = BPoll old k -> k < phno (fst c) -> phno (fst c) - k < 128 ->
  forall o, pcb (snd (b_tstep o t (fst c) (snd c t))) = BIdle /\
            blog (fst (b_tstep o t (fst c) (snd c t))) = EvDepart t k (phno (fst c)) :: blog (fst c).
Proof.
  intros c Hbad Hpc Hk Hw o. destruct (bar_reachable E sched progs Hbad) as [I _]. fold c in I.
  destruct (b_tok _ _ I t) as [_ Htk]. rewrite Hpc in Htk. destruct Htk as [H1 _].
  unfold b_tstep. rewrite Hpc.
  assert (Hq : N.eqb (phase (fst c)) old = false).
  { apply N.eqb_neq. rewrite (b_phase _ _ I), H1. apply pb_distinct; assumption. }
  rewrite Hq. split; reflexivity.
Qed.

(* ---------- wait(token, busy_wait_timeout > 0): the busy wait ---------- *)
(* an expired timer never lets the caller out: the step changes nothing but the thread's pc,
   which continues with the blocking wait for the SAME token *)
Lemma barrier_busy_wait_timeout_falls_back o t g (l : blocal) old k :
  pcb l = BSpin old k -> timed_out o = true ->
  fst (b_tstep o t g l) = g /\ snd (b_tstep o t g l) = setpc l (BPoll old k).
Proof. intros Hpc Ho. unfold b_tstep. rewrite Hpc, Ho. split; reflexivity. Qed.

(* every step of the busy wait: stay in it, fall back to the blocking wait, or return — and it
   returns only if the phase byte it read differs from the token *)
Lemma barrier_busy_wait_step o t g (l : blocal) old k :
  pcb l = BSpin old k ->
  (b_tstep o t g l = (g, l)) \/
  (b_tstep o t g l = (g, setpc l (BPoll old k))) \/
  (phase g <> old /\ timed_out o = false /\
   b_tstep o t g l = (blog_add g (EvDepart t k (phno g)),
                      {| bprog := tl (bprog l); pcb := BIdle; token := token l; tokk := tokk l |})).
Proof.
  intros Hpc. unfold b_tstep. rewrite Hpc. destruct (timed_out o) eqn:Ho.
  - right. left. reflexivity.
  - destruct (N.eqb (phase g) old) eqn:Hq.
    + left. reflexivity.
    + right. right. apply N.eqb_neq in Hq. repeat split; assumption.
Qed.

(* a poll of the busy wait after the token's phase completed returns (same side condition as for
   the blocking wait: the token was not kept for 128 phases) *)
Lemma barrier_busy_wait_releases E sched progs t old k :
  let c := bar_run E sched progs in bad (fst c) = false ->
  pcb (snd c t) = BSpin old k -> k < phno (fst c) -> phno (fst c) - k < 128 ->
  forall o, timed_out o = false ->
            pcb (snd (b_tstep o t (fst c) (snd c t))) = BIdle /\
            blog (fst (b_tstep o t (fst c) (snd c t))) = EvDepart t k (phno (fst c)) :: blog (fst c).
Proof.
  intros c Hbad Hpc Hk Hw o Ho. destruct (bar_reachable E sched progs Hbad) as [I _]. fold c in I.
  destruct (b_tok _ _ I t) as [_ Htk]. rewrite Hpc in Htk. destruct Htk as [H1 _].
  unfold b_tstep. rewrite Hpc, Ho.
  assert (Hq : N.eqb (phase (fst c)) old = false).
  { apply N.eqb_neq. rewrite (b_phase _ _ I), H1. apply pb_distinct; assumption. }
  rewrite Hq. split; reflexivity.
Qed.

(* the busy wait is entered exactly by the operations with a positive timeout: a thread inside
   the busy wait executes OWaitBusy / OArriveWaitBusy (OWait / OArriveWait never spin) *)
Definition op_inv (l : blocal) : Prop :=
  match pcb l with
  | BSpin _ _ => busy_op (bprog l) = true
  | BIdle => True
  | BPoll _ _ => True
  | BLoad _ w | BArr _ _ _ w _ | BC _ _ _ _ w => True
  end.

Lemma arr_next_op_inv (l : blocal) n old k w : op_inv (arr_next l n old k w).
Proof.
  unfold arr_next, op_inv, wait_pc. destruct n as [|[|m]]; try destruct w; cbn; try exact Logic.I;
    destruct (busy_op (bprog l)) eqn:Hb; cbn; try exact Logic.I; try reflexivity; exact Hb.
Qed.

Lemma after_tree_op_inv g2 (l : blocal) t n old k w pc : op_inv (snd (after_tree g2 l t n old k w pc)).
Proof. destruct pc as [| |[|]]; cbn [after_tree snd]; try exact Logic.I. apply arr_next_op_inv. Qed.

Lemma b_tstep_op_inv o t g (l : blocal) : op_inv l -> op_inv (snd (b_tstep o t g l)).
Proof.
  intros H. unfold b_tstep.
  destruct (pcb l) as [|n w|n old k w [pc|]|st n old k w|old k|old k] eqn:Hpc.
  - destruct (bprog l) as [|[n| | | | |] rest] eqn:Hp; cbn [snd]; unfold op_inv; cbn; rewrite ?Hpc, ?Hp; try exact Logic.I.
    reflexivity.
  - destruct n; cbn [snd]; unfold op_inv; cbn; exact Logic.I.
  - destruct (tree_step old t (btree g) pc) as [tr' pc']. apply after_tree_op_inv.
  - destruct (tree_start (expected g) t (btree g) o) as [tr' pc']. apply after_tree_op_inv.
  - destruct st as [|[|[|[|st]]]]; cbn [snd]; try (unfold op_inv; cbn; exact Logic.I); apply arr_next_op_inv.
  - destruct (N.eqb (phase g) old); cbn [snd]; [exact H|unfold op_inv; cbn; exact Logic.I].
  - destruct (timed_out o); cbn [snd]; [unfold op_inv; cbn; exact Logic.I|].
    destruct (N.eqb (phase g) old); cbn [snd]; [exact H|unfold op_inv; cbn; exact Logic.I].
Qed.

Lemma barrier_busy_wait_entered E sched progs t old k :
  let c := bar_run E sched progs in
  pcb (snd c t) = BSpin old k -> busy_op (bprog (snd c t)) = true.
Proof.
  intros c Hpc.
  assert (H : forall t0, op_inv (snd c t0)).
  { unfold c, bar_run.
    apply (run_inv _ _ _ b_tstep (fun (_ : bar) (ls : locals blocal) => forall t0, op_inv (ls t0))).
    - intros o t1 g ls IH t0. destruct (Nat.eq_dec t0 t1) as [->|Hne].
      + rewrite upd_same. apply b_tstep_op_inv. apply IH.
      + rewrite upd_other by exact Hne. apply IH.
    - intros t0. exact Logic.I. }
  specialize (H t). unfold op_inv in H. rewrite Hpc in H. exact H.
Qed.
