(* Proofs/JoinProofs.v — safety of pika::thread::join / detach / ~jthread / interruption
   (Model/Join.v, fixed code lp = true), for every task count, program and schedule. *)
From Coq Require Import List Arith Bool Lia.
From Pika Require Import Base.Conc Base.Agent Model.Join.
Import ListNotations.

Ltac proj := cbn [fst snd pc prog hid cbs ran term flag gen req en stopreq ag bdone cbrun log
                  w_hid w_cbs w_ran w_term w_flag w_gen w_req w_en w_stop w_ag w_bdone w_cbrun w_log] in *.

Lemma set1_same {A} (f : nat -> A) x v : set1 f x v x = v.
Proof. unfold set1. now rewrite Nat.eqb_refl. Qed.
Lemma set1_other {A} (f : nat -> A) x v y : y <> x -> set1 f x v y = f y.
Proof. unfold set1. intros H. apply Nat.eqb_neq in H. now rewrite H. Qed.
Lemma set2_same {A} (f : nat -> nat -> A) x y v : set2 f x y v x y = v.
Proof. unfold set2. now rewrite !Nat.eqb_refl. Qed.
Lemma set2_other {A} (f : nat -> nat -> A) x y v a b : (a <> x \/ b <> y) -> set2 f x y v a b = f a b.
Proof.
  unfold set2. intros [H|H]; apply Nat.eqb_neq in H; rewrite H; [reflexivity|].
  now rewrite andb_false_r.
Qed.
Lemma set1_true (f : nat -> bool) x y : set1 f x true y = true <-> (y = x \/ f y = true).
Proof.
  unfold set1. destruct (Nat.eqb_spec y x); intuition congruence.
Qed.
Lemma set2_true (f : nat -> nat -> bool) x y a b : set2 f x y true a b = true <-> ((a = x /\ b = y) \/ f a b = true).
Proof.
  unfold set2. destruct (Nat.eqb_spec a x), (Nat.eqb_spec b y); cbn; intuition congruence.
Qed.
Lemma set2_false_true (f : nat -> nat -> bool) x y a b : set2 f x y false a b = true -> f a b = true.
Proof.
  unfold set2. destruct (Nat.eqb a x && Nat.eqb b y); congruence.
Qed.
Lemma set1_false_true (f : nat -> bool) x a : set1 f x false a = true -> f a = true.
Proof. unfold set1. destruct (Nat.eqb a x); congruence. Qed.
Lemma set3_same {A} (f : nat -> nat -> nat -> A) x y z v : set3 f x y z v x y z = v.
Proof. unfold set3. now rewrite !Nat.eqb_refl. Qed.
Lemma set3_other {A} (f : nat -> nat -> nat -> A) x y z v a b c :
  (a <> x \/ b <> y \/ c <> z) -> set3 f x y z v a b c = f a b c.
Proof.
  unfold set3. intros [H|[H|H]]; apply Nat.eqb_neq in H; rewrite H; cbn; rewrite ?andb_false_r; reflexivity.
Qed.
Lemma set3_true (f : nat -> nat -> nat -> bool) x y z a b c :
  set3 f x y z true a b c = true <-> ((a = x /\ b = y /\ c = z) \/ f a b c = true).
Proof.
  unfold set3. destruct (Nat.eqb_spec a x), (Nat.eqb_spec b y), (Nat.eqb_spec c z); cbn; intuition congruence.
Qed.
Lemma set3_false_true (f : nat -> nat -> nat -> bool) x y z a b c : set3 f x y z false a b c = true -> f a b c = true.
Proof.
  unfold set3. destruct (Nat.eqb a x && Nat.eqb b y && Nat.eqb c z); congruence.
Qed.

Section Safe.
  Variable tgt : nat -> nat -> nat.
  Notation tstep := (tstep true true tgt).

  (* ---------------------------------------------------------------- monotone components *)
  Definition mono (g g' : G) : Prop :=
    (forall u, bdone g u = true -> bdone g' u = true) /\
    (forall j u, cbrun g j u = true -> cbrun g' j u = true) /\
    (forall u, stopreq g u = true -> stopreq g' u = true) /\
    (forall u, ran g u = true -> ran g' u = true) /\
    (forall u, term g u = true -> term g' u = true) /\
    (forall t k, hid g' t k = true -> hid g t k = true) /\
    (forall e, In e (log g) -> In e (log g')).

  Lemma mono_refl g : mono g g.
  Proof. unfold mono. repeat split; auto. Qed.

  Ltac mono_tac :=
    unfold mono; proj; repeat split; intros;
    first [ assumption
          | rewrite ?set1_true, ?set2_true; auto; fail
          | cbn; auto; fail
          | match goal with H : set2 _ _ _ false _ _ = true |- _ => apply set2_false_true in H; assumption end
          | match goal with H : set1 _ _ false _ = true |- _ => apply set1_false_true in H; assumption end
          | idtac ].

  Lemma ipoint_mono p t g g' : ipoint_step p t g = Some g' -> mono g g'.
  Proof.
    unfold ipoint_step. destruct (en g t && req g t); [|discriminate].
    intros H. inversion H; subst. mono_tac.
  Qed.

  Lemma tstep_mono t g l : mono g (fst (tstep tt t g l)).
  Proof.
    unfold Join.tstep. destruct (blocked (ag g t)); [apply mono_refl|].
    destruct (pc l) eqn:Hpc; try apply mono_refl.
    - destruct (prog l) as [|a rest]; [mono_tac|].
      destruct a; proj; try apply mono_refl; try (mono_tac; fail).
      + destruct (join_check tgt t k g); mono_tac.
      + destruct (hid g t k); mono_tac.
      + destruct (en g u); mono_tac.
      + destruct (ipoint_step IPExplicit t g) eqn:E; proj; [eapply ipoint_mono; eauto|apply mono_refl].
    - mono_tac.
    - destruct (join_check tgt t k g); mono_tac.
    - destruct (ipoint_step IPJoinEntry t g) eqn:E; proj; [eapply ipoint_mono; eauto|apply mono_refl].
    - destruct (ran g (tgt t k) || term g (tgt t k)); mono_tac.
    - destruct (flag g t (tgt t k) (gen g t)); apply mono_refl.
    - destruct (ipoint_step IPSuspendPre t g) eqn:E; proj; [eapply ipoint_mono; eauto|mono_tac].
    - destruct (ipoint_step IPSuspendPost t g) eqn:E; proj; [eapply ipoint_mono; eauto|apply mono_refl].
    - destruct d; mono_tac.
    - mono_tac.
    - destruct (cbs g t) as [|[j c] r]; mono_tac.
    - destruct (cbs g t) as [|[j c] r]; mono_tac.
    - mono_tac.
    - destruct (cbs g t) as [|[j c] r]; mono_tac.
    - mono_tac.
    - mono_tac.
    - mono_tac.
  Qed.

  (* ---------------------------------------------------------------- what the log promises *)
  Definition cb_over (g : G) (t u : nat) : Prop :=
    ran g u = true \/ term g u = true \/ cbrun g t u = true.

  Definition ev_ok (g : G) (e : ev) : Prop :=
    match e with
    | EJoinRet t k => bdone g (tgt t k) = true /\ cb_over g t (tgt t k) /\ hid g t k = false
    | EDetach t k => hid g t k = false
    | EDtorRet t k => stopreq g (tgt t k) = true /\ bdone g (tgt t k) = true /\ hid g t k = false
    | EIntrAt t p e => e = true /\ exists r, In (EIntrReq r t) (log g)
    | _ => True
    end.

  Lemma hid_false_mono g g' t k : mono g g' -> hid g t k = false -> hid g' t k = false.
  Proof.
    intros (_&_&_&_&_&H&_) Hf. destruct (hid g' t k) eqn:E; [|reflexivity].
    apply H in E. congruence.
  Qed.

  Lemma ev_ok_mono g g' e : mono g g' -> ev_ok g e -> ev_ok g' e.
  Proof.
    intros M. pose proof M as (Hb&Hc&Hs&Hr&Ht&Hh&Hl).
    destruct e; cbn; auto.
    - intros (A&B&C). split; [auto|]. split; [|eapply hid_false_mono; eauto].
      unfold cb_over in *. intuition.
    - eapply hid_false_mono; eauto.
    - intros (A&B&C). repeat split; auto. eapply hid_false_mono; eauto.
    - intros (A&r&B). split; [auto|]. exists r. auto.
  Qed.

  Lemma det_mono g g' t u : mono g g' ->
    bdone g u = true /\ cb_over g t u -> bdone g' u = true /\ cb_over g' t u.
  Proof.
    intros (Hb&Hc&Hs&Hr&Ht&Hh&Hl) [A B]. split; [auto|]. unfold cb_over in *. intuition.
  Qed.

  (* ---------------------------------------------------------------- the invariant *)
  Definition in_exit (p : pcs) : bool :=
    match p with PExit | PCbCall | PCbRes _ | PCbPop | PFree | PTerm | PDone | PCbRun _ _ => true | _ => false end.

  Definition dtor_pc (p : pcs) (k : nat) : bool :=
    match p with
    | PDtorJoin k' | PJoinIP k' true | PJoinAdd k' true | PJoinChk k' true _ | PJoinSusp k' true
    | PJoinWake k' true | PJoinDet k' true => Nat.eqb k' k
    | _ => false end.

  Record SInv (g : G) (ls : locals L) : Prop := {
    s_flag : forall j u c, flag g j u c = true -> bdone g u = true /\ cbrun g j u = true;
    s_ran : forall u, ran g u = true -> bdone g u = true;
    s_term : forall u, term g u = true -> bdone g u = true;
    s_exit : forall u, in_exit (pc (ls u)) = true -> bdone g u = true;
    s_det : forall t k d, pc (ls t) = PJoinDet k d -> bdone g (tgt t k) = true /\ cb_over g t (tgt t k);
    s_dtor : forall t k, dtor_pc (pc (ls t)) k = true -> stopreq g (tgt t k) = true;
    s_req : forall t, req g t = true -> exists r, In (EIntrReq r t) (log g);
    s_log : Forall (ev_ok g) (log g) }.

  Lemma thrown_pc d p : pc (thrown d p) = PBody.
  Proof. destruct d; reflexivity. Qed.

  Lemma ipoint_inv p t g g' :
    ipoint_step p t g = Some g' ->
    (forall x, req g x = true -> exists r, In (EIntrReq r x) (log g)) ->
    hid g' = hid g /\ cbs g' = cbs g /\ ran g' = ran g /\ term g' = term g /\ flag g' = flag g /\ gen g' = gen g /\
    en g' = en g /\ stopreq g' = stopreq g /\ ag g' = ag g /\ bdone g' = bdone g /\ cbrun g' = cbrun g /\
    (forall x, req g' x = true -> req g x = true) /\
    log g' = EIntrAt t p true :: log g /\ (exists r, In (EIntrReq r t) (log g)).
  Proof.
    unfold ipoint_step. destruct (en g t) eqn:E1; cbn [andb]; [|discriminate].
    destruct (req g t) eqn:E2; [|discriminate].
    intros H Hreq. inversion H; subst; proj. repeat split; auto.
    intros x. apply set1_false_true.
  Qed.

  Lemma upd_pc (ls : locals L) t l x : pc (upd ls t l x) = if Nat.eqb x t then pc l else pc (ls x).
  Proof. unfold upd. now destruct (Nat.eqb x t). Qed.

  (* a step of task t that only changes t's pc to a "neutral" pc and the given components *)
  Ltac upd_case x t :=
    rewrite upd_pc in *; destruct (Nat.eqb_spec x t); subst.

  (* thread_interrupted thrown: the task continues in PBody (behind a handler, or with nothing left) *)
  Lemma ended_ok g g' (ls : locals L) t p l' :
    pc l' = PBody ->
    SInv g ls -> ipoint_step p t g = Some g' -> SInv g' (upd ls t l').
  Proof.
    intros Hl' I H. destruct (ipoint_inv _ _ _ _ H (s_req _ _ I))
      as (Eh&Ec&Er&Et&Ef&Eg&Ee&Es&Ea&Eb&Ecb&Hreq&Hlog&Hr).
    assert (M : mono g g') by (eapply ipoint_mono; eauto).
    destruct I. constructor; rewrite ?Eh, ?Ec, ?Er, ?Et, ?Ef, ?Eg, ?Ee, ?Es, ?Ea, ?Eb, ?Ecb; auto.
    - intros u. upd_case u t; [rewrite Hl'; cbn; discriminate|auto].
    - intros x k d. upd_case x t; [rewrite Hl'; cbn; discriminate|].
      intros Hx. destruct (s_det0 _ _ _ Hx) as [A B]. split; [auto|].
      unfold cb_over in *. rewrite Er, Et, Ecb. exact B.
    - intros x k. upd_case x t; [rewrite Hl'; cbn; discriminate|auto].
    - intros x Hx. apply Hreq in Hx. destruct (s_req0 _ Hx) as [r Hin]. exists r. rewrite Hlog. now right.
    - rewrite Hlog. constructor.
      + cbn. split; [reflexivity|]. destruct Hr as [r Hin]. exists r. rewrite Hlog. now right.
      + eapply Forall_impl; [|exact s_log0]. intros e. now apply ev_ok_mono.
  Qed.

  (* generic preservation when the log, req are untouched or grow by ok events *)
  Lemma keep_log g g' : mono g g' -> Forall (ev_ok g) (log g) -> log g' = log g -> Forall (ev_ok g') (log g').
  Proof.
    intros M F E. rewrite E. eapply Forall_impl; [|exact F]. intros e. now apply ev_ok_mono.
  Qed.
  Lemma grow_log g g' e : mono g g' -> Forall (ev_ok g) (log g) -> log g' = e :: log g -> ev_ok g' e ->
    Forall (ev_ok g') (log g').
  Proof.
    intros M F E Ok. rewrite E. constructor; [exact Ok|].
    eapply Forall_impl; [|exact F]. intros e'. now apply ev_ok_mono.
  Qed.
  Lemma grow_req g e :
    (forall t, req g t = true -> exists r, In (EIntrReq r t) (log g)) ->
    (forall t, req g t = true -> exists r, In (EIntrReq r t) (e :: log g)).
  Proof. intros H t Ht. destruct (H _ Ht) as [r Hin]. exists r. now right. Qed.

  Ltac klog := match goal with M : mono ?g ?g' |- _ => apply (keep_log g g' M); [assumption|reflexivity] end.
  Ltac glog := match goal with M : mono ?g ?g' |- _ => eapply (grow_log g g' _ M); [assumption|reflexivity|] end.

  Ltac fin I t :=
    destruct I; constructor; proj; try assumption; try (apply grow_req; assumption); try (klog; fail);
    try (intros x; upd_case x t; cbn; try discriminate; auto; fail);
    try (intros x k0 d0; upd_case x t; cbn; try discriminate; eauto; fail);
    try (intros x k0 d0; upd_case x t; cbn; [discriminate|]; intros Hx;
         match goal with M : mono ?g ?g' |- _ => apply (det_mono g g' _ _ M) end; eauto; fail);
    try (intros x k0; upd_case x t; cbn; try discriminate; auto; fail).

  Lemma step_SInv t g (ls : locals L) :
    SInv g ls -> SInv (fst (tstep tt t g (ls t))) (upd ls t (snd (tstep tt t g (ls t)))).
  Proof.
    intros I. pose proof (tstep_mono t g (ls t)) as M. revert M.
    assert (Hid : forall l, l = ls t -> SInv g (upd ls t l)).
    { intros l ->.
      assert (E : forall x, upd ls t (ls t) x = ls x)
        by (intros x; unfold upd; destruct (Nat.eqb_spec x t); subst; auto).
      destruct I; constructor; auto; intros *; rewrite E; eauto. }
    unfold Join.tstep. destruct (blocked (ag g t)); [intros _; now apply Hid|].
    destruct (pc (ls t)) eqn:Hpc.
    - intros _; apply Hid. destruct (ls t); cbn in *; now subst.
    - (* PBody *)
      destruct (prog (ls t)) as [|a rest] eqn:Hprog.
      { intros M. proj. fin I t.
        - intros j u c Hf. destruct (s_flag0 _ _ _ Hf). rewrite set1_true. auto.
        - intros u Hu. rewrite set1_true. auto.
        - intros u Hu. rewrite set1_true. auto.
        - intros u. upd_case u t; cbn; rewrite set1_true; auto.
        - glog; exact Logic.I. }
      destruct a; proj.
      + intros M. fin I t.
      + intros M. fin I t.
      + intros M. fin I t.
      + destruct (join_check tgt t k g) eqn:Hjc; proj; intros M.
        * fin I t. { glog; exact Logic.I. }
        * fin I t.
      + intros M. fin I t.
        glog. cbn. proj. apply set2_same.
      + intros M. fin I t. { glog; exact Logic.I. }
      + destruct (hid g t k) eqn:Hh; proj; intros M.
        * fin I t.
        * fin I t. { glog; exact Logic.I. }
      + intros M. fin I t.
        glog; exact Logic.I.
      + destruct (en g u) eqn:Hen; proj; intros M.
        * fin I t.
          { intros x Hx. apply set1_true in Hx. destruct Hx as [->|Hx].
            - exists t. now left.
            - destruct (s_req0 _ Hx) as [r Hr]. exists r. now right. }
          { glog; exact Logic.I. }
        * fin I t. { glog; exact Logic.I. }
      + destruct (ipoint_step IPExplicit t g) eqn:E; proj; intros M.
        * eapply ended_ok; eauto.
        * fin I t.
      + intros M. fin I t.
      + intros M. fin I t.
    - (* PDtorStop *) intros M. proj. fin I t.
      + intros x k0. upd_case x t; cbn.
        * intros Hk. apply Nat.eqb_eq in Hk. subst. apply set1_same.
        * intros Hx. rewrite set1_true. auto.
    - (* PDtorJoin *)
      destruct (join_check tgt t k g) eqn:Hjc; proj; intros M.
      + fin I t. { glog; exact Logic.I. }
      + fin I t. intros x k0. upd_case x t; cbn; eauto.
        intros Hk. apply s_dtor0. rewrite Hpc. cbn. exact Hk.
    - (* PJoinIP *)
      destruct (ipoint_step IPJoinEntry t g) eqn:E; proj; intros M.
      + eapply ended_ok; eauto using thrown_pc.
      + fin I t. intros x k0. upd_case x t; cbn; eauto.
        intros Hk. apply s_dtor0. rewrite Hpc. cbn. exact Hk.
    - (* PJoinAdd *)
      destruct (ran g (tgt t k) || term g (tgt t k)) eqn:Hrt; proj; intros M.
      + fin I t.
        * intros x k0 d0. upd_case x t; cbn; eauto.
          intros Hx. inversion Hx; subst. apply orb_true_iff in Hrt. unfold cb_over.
          destruct Hrt as [Hr|Ht]; split; auto.
        * intros x k0. upd_case x t; cbn; eauto.
          intros Hk. apply s_dtor0. rewrite Hpc. cbn. exact Hk.
      + fin I t.
        * intros j u c Hf. apply set3_false_true in Hf. eauto.
        * intros x k0. upd_case x t; cbn; eauto.
          intros Hk. apply s_dtor0. rewrite Hpc. cbn. exact Hk.
    - (* PJoinChk *)
      destruct (flag g t (tgt t k) (gen g t)) eqn:Hf; proj; intros M.
      + fin I t.
        * intros x k0 d0. upd_case x t; cbn; eauto.
          intros Hx. inversion Hx; subst. destruct (s_flag0 _ _ _ Hf). unfold cb_over. auto.
        * intros x k0. upd_case x t; cbn; eauto.
          intros Hk. apply s_dtor0. rewrite Hpc. cbn. exact Hk.
      + fin I t. intros x k0. upd_case x t; cbn; eauto.
        intros Hk. apply s_dtor0. rewrite Hpc. cbn. exact Hk.
    - (* PJoinSusp *)
      destruct (ipoint_step IPSuspendPre t g) eqn:E; proj; intros M.
      + eapply ended_ok; eauto using thrown_pc.
      + fin I t.
        * intros x k0. upd_case x t; cbn; eauto.
          intros Hk. apply s_dtor0. rewrite Hpc. cbn. exact Hk.
    - (* PJoinWake *)
      destruct (ipoint_step IPSuspendPost t g) eqn:E; proj; intros M.
      + eapply ended_ok; eauto using thrown_pc.
      + fin I t. intros x k0. upd_case x t; cbn; eauto.
        intros Hk. apply s_dtor0. rewrite Hpc. cbn. exact Hk.
    - (* PJoinDet *)
      pose proof (s_det _ _ I _ _ _ Hpc) as [Hb Hc].
      assert (Hs : d = true -> stopreq g (tgt t k) = true).
      { intros ->. apply (s_dtor _ _ I t k). rewrite Hpc. cbn. apply Nat.eqb_refl. }
      destruct d; proj; intros M.
      + fin I t.
        * intros x Hx. destruct (s_req0 _ Hx) as [r Hr]. exists r. right. now right.
        * constructor; [cbn; proj; repeat split; auto; apply set2_same|].
          constructor; [cbn; proj; repeat split; auto; apply set2_same|].
          eapply Forall_impl; [|exact s_log0]. intros e. now apply ev_ok_mono.
      + fin I t.
        * glog. cbn; proj. repeat split; auto. apply set2_same.
    - (* PIntrWake *) intros M. proj. fin I t.
    - (* PExit *)
      assert (Hb : bdone g t = true) by (apply (s_exit _ _ I); now rewrite Hpc).
      destruct (cbs g t) as [|[j c] r] eqn:Hc; proj; intros M.
      + fin I t.
        * intros u Hu. apply set1_true in Hu. destruct Hu as [->|Hu]; auto.
      + fin I t.
    - (* PCbCall: code before the second fix, not reachable with pf = true *)
      assert (Hb : bdone g t = true) by (apply (s_exit _ _ I); now rewrite Hpc).
      destruct (cbs g t) as [|[j c] r] eqn:Hc; proj; intros M.
      + fin I t.
      + fin I t.
        * intros j0 u c0 Hf. apply set3_true in Hf. rewrite set2_true.
          destruct Hf as [(-> & -> & ->)|Hf]; [auto|]. destruct (s_flag0 _ _ _ Hf). auto.
    - (* PCbRes *)
      assert (Hb : bdone g t = true) by (apply (s_exit _ _ I); now rewrite Hpc).
      intros M. proj. fin I t.
    - (* PCbPop *)
      assert (Hb : bdone g t = true) by (apply (s_exit _ _ I); now rewrite Hpc).
      destruct (cbs g t) as [|[j c] r] eqn:Hc; proj; intros M.
      + fin I t.
        * intros u Hu. apply set1_true in Hu. destruct Hu as [->|Hu]; auto.
      + fin I t.
    - (* PFree *)
      assert (Hb : bdone g t = true) by (apply (s_exit _ _ I); now rewrite Hpc).
      intros M. proj. fin I t.
    - (* PTerm *)
      assert (Hb : bdone g t = true) by (apply (s_exit _ _ I); now rewrite Hpc).
      intros M. proj. fin I t.
      + intros u Hu. apply set1_true in Hu. destruct Hu as [->|Hu]; auto.
    - intros _; apply Hid. destruct (ls t); cbn in *; now subst.
    - (* PCbRun *)
      assert (Hb : bdone g t = true) by (apply (s_exit _ _ I); now rewrite Hpc).
      intros M. proj. fin I t.
      intros j0 u c0 Hf. apply set3_true in Hf. rewrite set2_true.
      destruct Hf as [(-> & -> & ->)|Hf]; [auto|]. destruct (s_flag0 _ _ _ Hf). auto.
  Qed.

  Lemma init_SInv h0 n progs : SInv (g_init h0) (l_init n progs).
  Proof.
    constructor; cbn; try discriminate; auto.
    - intros u. unfold l_init. destruct (Nat.ltb u n); cbn; discriminate.
    - intros t k d. unfold l_init. destruct (Nat.ltb t n); cbn; discriminate.
    - intros t k. unfold l_init. destruct (Nat.ltb t n); cbn; discriminate.
  Qed.

  Theorem run_SInv h0 n progs sched :
    let c := jrun true true tgt h0 n progs sched in SInv (fst c) (snd c).
  Proof.
    unfold jrun. apply (run_inv _ _ _ tstep SInv).
    - intros [] t g ls I. now apply step_SInv.
    - apply init_SInv.
  Qed.

  (* ---------------------------------------------------------------- the theorems *)
  Theorem join_after_body h0 n progs sched t k :
    let g := fst (jrun true true tgt h0 n progs sched) in
    In (EJoinRet t k) (log g) ->
    bdone g (tgt t k) = true /\ (ran g (tgt t k) = true \/ term g (tgt t k) = true \/ cbrun g t (tgt t k) = true).
  Proof.
    intros g Hin. pose proof (run_SInv h0 n progs sched) as I. cbn zeta in I.
    pose proof (s_log _ _ I) as F. rewrite Forall_forall in F. apply F in Hin. cbn in Hin.
    destruct Hin as (A&B&_). split; auto.
  Qed.

  Theorem not_joinable_after h0 n progs sched t k :
    let g := fst (jrun true true tgt h0 n progs sched) in
    In (EJoinRet t k) (log g) \/ In (EDetach t k) (log g) -> hid g t k = false.
  Proof.
    intros g Hin. pose proof (run_SInv h0 n progs sched) as I. cbn zeta in I.
    pose proof (s_log _ _ I) as F. rewrite Forall_forall in F.
    destruct Hin as [Hin|Hin]; apply F in Hin; cbn in Hin; tauto.
  Qed.

  Theorem jthread_dtor_stops_and_joins h0 n progs sched t k :
    let g := fst (jrun true true tgt h0 n progs sched) in
    In (EDtorRet t k) (log g) ->
    stopreq g (tgt t k) = true /\ bdone g (tgt t k) = true /\ hid g t k = false.
  Proof.
    intros g Hin. pose proof (run_SInv h0 n progs sched) as I. cbn zeta in I.
    pose proof (s_log _ _ I) as F. rewrite Forall_forall in F. apply F in Hin. exact Hin.
  Qed.

  Theorem interrupt_only_when_enabled_and_requested h0 n progs sched t p e :
    let g := fst (jrun true true tgt h0 n progs sched) in
    In (EIntrAt t p e) (log g) -> e = true /\ exists r, In (EIntrReq r t) (log g).
  Proof.
    intros g Hin. pose proof (run_SInv h0 n progs sched) as I. cbn zeta in I.
    pose proof (s_log _ _ I) as F. rewrite Forall_forall in F. apply F in Hin. exact Hin.
  Qed.
End Safe.

(* ---------------------------------------------------------------- single-step facts *)
Section Steps.
  Variables (lp pf : bool) (tgt : nat -> nat -> nat).

  (* joining a handle that is not joinable (second join, join after detach, default-constructed
     handle) is reported as invalid_status and changes nothing but the log *)
  Lemma double_join_error t k g rest :
    blocked (ag g t) = false -> hid g t k = false ->
    tstep lp pf tgt tt t g (mkL PBody (AJoin k :: rest)) = (w_log g (EErr t k NotJoinable), mkL PBody rest).
  Proof. intros Hb Hh. unfold tstep, join_check. rewrite Hb. cbn. now rewrite Hh. Qed.

  (* joining oneself is reported as thread_resource_error; the handle stays joinable *)
  Lemma self_join_error t k g rest :
    blocked (ag g t) = false -> hid g t k = true -> tgt t k = t ->
    tstep lp pf tgt tt t g (mkL PBody (AJoin k :: rest)) = (w_log g (EErr t k SelfJoin), mkL PBody rest).
  Proof.
    intros Hb Hh Ht. unfold tstep, join_check. rewrite Hb. cbn. rewrite Hh, Ht, Nat.eqb_refl. reflexivity.
  Qed.

  (* interrupt_thread(u): the request touches only u's request flag, the wake-up only u's agent *)
  Lemma interrupt_is_local_req t u g rest :
    blocked (ag g t) = false -> en g u = true ->
    tstep lp pf tgt tt t g (mkL PBody (AIntr u :: rest)) =
      (w_log (w_req g (set1 (req g) u true)) (EIntrReq t u), mkL (PIntrWake u) rest).
  Proof. intros Hb He. unfold tstep. rewrite Hb. cbn. now rewrite He. Qed.

  Lemma interrupt_is_local_wake t u g p :
    blocked (ag g t) = false ->
    tstep lp pf tgt tt t g (mkL (PIntrWake u) p) = (w_ag g (set1 (ag g) u (a_resume (ag g u))), mkL PBody p).
  Proof. intros Hb. unfold tstep. rewrite Hb. reflexivity. Qed.

  (* while interruption is disabled a request is refused and nothing is recorded for u *)
  Lemma interrupt_refused_when_disabled t u g rest :
    blocked (ag g t) = false -> en g u = false ->
    tstep lp pf tgt tt t g (mkL PBody (AIntr u :: rest)) = (w_log g (EIntrRefused t u), mkL PBody rest).
  Proof. intros Hb He. unfold tstep. rewrite Hb. cbn. now rewrite He. Qed.
End Steps.
