(* Proofs/DequeSafetyProofs.v — memory safety of the deque model for EVERY schedule, thread
   count and program (it also holds after an ABA): every pointer held in the anchor, in any
   link of any chunk, in the pool head or in any thread's registers is nullptr or a chunk that
   the pool has already handed out or pre-allocated (address < fresh).  Since the pool is
   type-stable (chunks are never returned to the OS while the deque lives), every dereference
   the code performs goes to a deque_node — this is what makes reading a freed node benign. *)
From Coq Require Import List NArith Bool Lia Arith.
From Pika Require Import Base.Conc Model.IndexQueue Model.DequeSpec Model.Deque Proofs.DequeProofs.
Import ListNotations.
Local Open Scope N_scope.

Definition link_ok (f : N) (l : link) : Prop := lptr l < f.
Definition node_ok (f : N) (nd : node) : Prop := link_ok f (nleft nd) /\ link_ok f (nright nd).
Definition anchor_ok (f : N) (a : anchor) : Prop := al a < f /\ ar a < f.
Definition shared_ok (g : dq_shared) : Prop :=
  0 < fresh g /\ (forall a, node_ok (fresh g) (heap g a)) /\ anchor_ok (fresh g) (anc g) /\ pool g < fresh g.
Definition kont_ok (f : N) (k : kont) : Prop := match k with KPush _ n => n < f | _ => True end.
Definition pc_ok (f : N) (p : dq_pc) : Prop :=
  match p with
  | DIdle | DCrashed | QLoad _ => True
  | PInit _ _ n | PLoad _ n => n < f
  | PStore _ n lrs | PCas _ n lrs _ => n < f /\ anchor_ok f lrs
  | QChk _ lrs | QLink _ lrs => anchor_ok f lrs
  | QCas _ lrs np => anchor_ok f lrs /\ match np with Some p => p < f | None => True end
  | QFree _ a => a < f
  | S1 k _ lrs | S6 k _ lrs => kont_ok f k /\ anchor_ok f lrs
  | S2 k _ lrs prev | S3 k _ lrs prev => kont_ok f k /\ anchor_ok f lrs /\ link_ok f prev
  | S4 k _ lrs prev pn _ | S5 k _ lrs prev pn _ => kont_ok f k /\ anchor_ok f lrs /\ link_ok f prev /\ link_ok f pn
  end.

Lemma kont_ok_mono f f' k : f <= f' -> kont_ok f k -> kont_ok f' k.
Proof. destruct k; cbn; intros; try exact I; lia. Qed.

Lemma pc_ok_mono f f' p : f <= f' -> pc_ok f p -> pc_ok f' p.
Proof.
  intros H. pose proof (kont_ok_mono f f') as K.
  destruct p; cbn; unfold anchor_ok, link_ok; intros; try exact I;
    repeat match goal with
           | h : _ /\ _ |- _ => destruct h
           | np : option addr |- _ => destruct np
           | |- _ /\ _ => split
           | |- kont_ok _ _ => apply K; [exact H|assumption]
           end; try lia; try exact I.
Qed.

Lemma aend_ok f s a : anchor_ok f a -> aend s a < f.
Proof. intros [H1 H2]. destruct s; assumption. Qed.

Lemma set_aend_ok f s a p st tg : anchor_ok f a -> p < f -> anchor_ok f (set_aend s a p st tg).
Proof. intros [H1 H2] Hp. destruct s; split; cbn; assumption. Qed.

Lemma inward_ok f s nd : node_ok f nd -> link_ok f (inward s nd).
Proof. intros [H1 H2]. destruct s; assumption. Qed.
Lemma outward_ok f s nd : node_ok f nd -> link_ok f (outward s nd).
Proof. intros [H1 H2]. destruct s; assumption. Qed.
Lemma set_inward_ok f s nd l : node_ok f nd -> link_ok f l -> node_ok f (set_inward s nd l).
Proof. intros [H1 H2] Hl. destruct s; split; cbn; assumption. Qed.
Lemma set_outward_ok f s nd l : node_ok f nd -> link_ok f l -> node_ok f (set_outward s nd l).
Proof. intros H Hl. unfold set_outward. apply set_inward_ok; assumption. Qed.

Lemma hupd_ok f h a nd : (forall x, node_ok f (h x)) -> node_ok f nd -> forall x, node_ok f (hupd h a nd x).
Proof. intros H Hn x. unfold hupd. destruct (x =? a); [exact Hn|apply H]. Qed.

Lemma resume_ok g l k :
  shared_ok g -> kont_ok (fresh g) k ->
  shared_ok (fst (resume g l k)) /\ pc_ok (fresh (fst (resume g l k))) (dpc (snd (resume g l k))) /\
  fresh g <= fresh (fst (resume g l k)).
Proof. intros Hs Hk. destruct k; cbn; (split; [exact Hs|split; [try exact I; exact Hk|lia]]). Qed.

(* one step of any thread *)
Ltac sk := cbn; unfold shared_ok; cbn [fresh heap anc pool].

Lemma tstep_ok o t g l :
  shared_ok g -> pc_ok (fresh g) (dpc l) ->
  shared_ok (fst (dq_tstep o t g l)) /\ pc_ok (fresh (fst (dq_tstep o t g l))) (dpc (snd (dq_tstep o t g l))) /\
  fresh g <= fresh (fst (dq_tstep o t g l)).
Proof.
  intros Hs Hp. pose proof Hs as (Hf & Hh & Ha & Hpl). unfold dq_tstep.
  assert (POP : forall s, shared_ok (fst (pop_load g t l s)) /\
                          pc_ok (fresh (fst (pop_load g t l s))) (dpc (snd (pop_load g t l s))) /\
                          fresh g <= fresh (fst (pop_load g t l s))).
  { intros s. unfold pop_load. destruct (aend s (anc g) =? 0); [sk; split; [exact Hs|split; [exact I|lia]]|].
    destruct (al (anc g) =? ar (anc g)); [sk; split; [exact Hs|split; [split; [exact Ha|exact I]|lia]]|].
    destruct (ast (anc g)); sk; (split; [exact Hs|split; [|lia]]); try exact Ha; split; try exact I; exact Ha. }
  destruct (dpc l) as [| |s v n|s n|s n lrs|s n lrs emp|s|s lrs|s lrs|s lrs np|s a
                       |k s lrs|k s lrs prev|k s lrs prev|k s lrs prev pn e|k s lrs prev pn e|k s lrs] eqn:PC;
    cbn [pc_ok] in Hp.
  - destruct (dtodo l) as [|[s v|s] rest].
    + sk. rewrite PC. split; [exact Hs|split; [exact I|lia]].
    + unfold fl_alloc. destruct (pool g =? 0) eqn:EP; sk.
      * split; [|split; [lia|lia]]. split; [lia|]. split; [|split; [|lia]].
        -- apply hupd_ok; [|split; unfold link_ok; cbn; lia]. intros x. destruct (Hh x) as [X1 X2]. split; unfold link_ok in *; lia.
        -- destruct Ha as [X1 X2]. split; lia.
      * split; [|split; [exact Hpl|lia]]. split; [exact Hf|]. split; [exact Hh|]. split; [exact Ha|].
        destruct (Hh (pool g)) as [X1 _]. exact X1.
    + apply POP.
  - sk. rewrite PC. split; [exact Hs|split; [exact I|lia]].
  - sk. split; [|split; [exact Hp|lia]]. split; [exact Hf|]. split; [|split; [exact Ha|exact Hpl]].
    apply hupd_ok; [exact Hh|]. split; unfold link_ok; cbn; exact Hf.
  - unfold push_load. destruct (aend s (anc g) =? 0); [sk; split; [exact Hs|split; [split; [exact Hp|exact Ha]|lia]]|].
    destruct (ast (anc g)); sk; (split; [exact Hs|split; [|lia]]).
    + split; [exact Hp|exact Ha].
    + split; [exact Hp|exact Ha].
    + split; [exact Hp|exact Ha].
  - destruct Hp as [Hn Hl]. sk. split; [|split; [split; assumption|lia]]. split; [exact Hf|].
    split; [|split; [exact Ha|exact Hpl]]. apply hupd_ok; [exact Hh|]. apply set_inward_ok; [apply Hh|].
    unfold link_ok. sk. apply aend_ok. exact Hl.
  - destruct Hp as [Hn Hl]. destruct (anchor_eqb (anc g) lrs); [|sk; split; [exact Hs|split; [exact Hn|lia]]].
    destruct emp; sk.
    + split; [|split; [exact I|lia]]. split; [exact Hf|]. split; [exact Hh|]. split; [split; sk; exact Hn|exact Hpl].
    + split; [|split; [|lia]].
      * split; [exact Hf|]. split; [exact Hh|]. split; [apply set_aend_ok; assumption|exact Hpl].
      * split; [exact I|]. apply set_aend_ok; assumption.
  - apply POP.
  - destruct (anchor_eqb (anc g) lrs); sk; (split; [exact Hs|split; [try exact I; exact Hp|lia]]).
  - sk. split; [exact Hs|split; [|lia]]. split; [exact Hp|]. apply (inward_ok _ s). apply Hh.
  - destruct Hp as [Hl Hnp]. destruct (anchor_eqb (anc g) lrs); [|sk; split; [exact Hs|split; [exact I|lia]]].
    sk. split; [|split; [apply aend_ok; exact Hl|lia]]. split; [exact Hf|]. split; [exact Hh|]. split; [|exact Hpl].
    destruct np as [p|]; sk; [apply set_aend_ok; assumption|split; sk; exact Hf].
  - sk. split; [|split; [exact I|lia]]. split; [exact Hf|]. split; [|split; [exact Ha|exact Hp]].
    apply hupd_ok; [exact Hh|]. destruct (Hh a) as [X1 X2]. split; sk; [exact Hpl|exact X2].
  - destruct Hp as [Hk Hl]. destruct (aend s lrs =? 0); sk; (split; [exact Hs|split; [|lia]]); [exact I|].
    split; [exact Hk|]. split; [exact Hl|]. apply (inward_ok _ s). apply Hh.
  - destruct Hp as (Hk & Hl & Hv). destruct (anchor_eqb (anc g) lrs); [sk; split; [exact Hs|split; [|lia]]; auto|].
    apply resume_ok; assumption.
  - destruct Hp as (Hk & Hl & Hv). destruct (lptr prev =? 0); [sk; split; [exact Hs|split; [exact I|lia]]|].
    destruct (lptr (outward s (heap g (lptr prev))) =? aend s lrs); sk; (split; [exact Hs|split; [|lia]]).
    + split; assumption.
    + split; [exact Hk|]. split; [exact Hl|]. split; [exact Hv|]. apply (outward_ok _ s). apply Hh.
  - destruct Hp as (Hk & Hl & Hv & Hn). destruct (anchor_eqb (anc g) lrs); [sk; split; [exact Hs|split; [|lia]]; auto|].
    apply resume_ok; assumption.
  - destruct Hp as (Hk & Hl & Hv & Hn). destruct (link_eqb (outward s (heap g (lptr prev))) pn); [|apply resume_ok; assumption].
    sk. split; [|split; [split; assumption|lia]]. split; [exact Hf|]. split; [|split; [exact Ha|exact Hpl]].
    apply hupd_ok; [exact Hh|]. apply set_outward_ok; [apply Hh|]. unfold link_ok. sk. apply aend_ok. exact Hl.
  - destruct Hp as (Hk & Hl). destruct (anchor_eqb (anc g) lrs); [|apply resume_ok; assumption].
    destruct (resume_ok (set_anc g {| al := al lrs; ar := ar lrs; ast := Stable; atag := atag lrs + 1 |}) l k) as (A & B & C).
    { split; [exact Hf|]. split; [exact Hh|]. split; [exact Hl|exact Hpl]. }
    { exact Hk. }
    split; [exact A|split; [exact B|exact C]].
Qed.

Definition mem_safe (g : dq_shared) (ls : locals dq_local) : Prop :=
  shared_ok g /\ forall t, pc_ok (fresh g) (dpc (ls t)).

Lemma init_mem_safe k progs : mem_safe (dq_init k) (dq_locals progs).
Proof.
  split; [|intros t; exact I]. unfold shared_ok, dq_init. cbn [fresh heap anc pool].
  split; [lia|]. split; [|split].
  - intros a. unfold init_heap. destruct ((1 <=? a) && (a <? k)) eqn:E.
    + apply andb_true_iff in E. destruct E as [_ E]. apply N.ltb_lt in E. split; unfold link_ok; cbn; lia.
    + split; unfold link_ok; cbn; lia.
  - split; cbn; lia.
  - destruct (k =? 0) eqn:E; [lia|apply N.eqb_neq in E; lia].
Qed.

Theorem deque_memory_safe_lemma : forall k progs sched,
  let c := dq_run sched k progs in mem_safe (fst c) (snd c).
Proof.
  intros k progs sched. unfold dq_run. apply (run_inv _ _ _ dq_tstep mem_safe); [|apply init_mem_safe].
  intros o t g ls [Hs Hp]. destruct (tstep_ok o t g (ls t) Hs (Hp t)) as (A & B & C). split; [exact A|].
  intros t'. unfold upd. destruct (Nat.eqb t' t); [exact B|]. eapply pc_ok_mono; [exact C|apply Hp].
Qed.
