(* Proofs/BulkSettleProofs.v — C11: the fuel of the trace acceptor suffices.  [lock_step] executes one
   step of the scheduled thread and then [settle]s it: as long as the thread stands at a program point
   without a park point (site 0: the step touches no atomic of the real code) and has not finished, it
   takes the next step too, for at most 8 steps.  Proved here: at most 3 such steps ever follow one
   another, so after every [lock_step] the scheduled thread is parked at a real site or has finished —
   the acceptor never leaves a thread at a point where the implementation cannot be waiting. *)
From Coq Require Import List NArith Lia Bool Arith.
From Pika Require Import Base.Conc Model.IndexQueue Model.Bulk.
Import ListNotations.

Definition zero (cf : cfg) (g : bshared) (t : nat) (l : bpc) : bool :=
  Nat.eqb (bsite cf g t l) 0 && negb (bfinal l).
Definition parked (cf : cfg) (c : bshared * (nat -> bpc)) (t : nat) : Prop :=
  zero cf (fst c) t (snd c t) = false.

(* upper bound on the number of consecutive site-0 steps from a program point *)
Definition zrank (cf : cfg) (l : bpc) : nat :=
  match l with
  | BSig _ => 3
  | BSpawn w => if (w <? cW cf)%nat then 2 else 1
  | BRun _ _ _ _ => 1
  | _ => 0
  end.

Lemma zero_rank_pos cf g t l : zero cf g t l = true -> (1 <= zrank cf l)%nat.
Proof.
  unfold zero. intros Hz.
  destruct l; cbn [bsite bfinal zrank negb] in *; rewrite ?andb_false_r, ?andb_true_r in Hz;
    try discriminate Hz; try lia.
  - destruct (_ <? _)%nat; lia.
  - destruct p; discriminate Hz.
Qed.

Lemma zero_step cf t g l : zero cf g t l = true ->
  zero cf (fst (bstep cf false t g l)) t (snd (bstep cf false t g l)) = false \/
  (zrank cf (snd (bstep cf false t g l)) < zrank cf l)%nat.
Proof.
  unfold zero. intros Hz.
  destruct l; cbn [bsite bfinal negb] in Hz; rewrite ?andb_false_r, ?andb_true_r in Hz; try discriminate Hz.
  - (* BSpawn w *)
    cbn [bstep].
    destruct (cW cf <=? w)%nat eqn:HW.
    + left. reflexivity.
    + apply Nat.leb_gt in HW.
      destruct (Nat.eqb w (clocal cf)) eqn:Hl.
      * cbn [fst snd bsite bfinal negb zrank]. apply Nat.eqb_eq in Hl.
        destruct (S w <? cW cf)%nat eqn:HS.
        -- left. assert (Nat.eqb (S w) (clocal cf) = false) as -> by (apply Nat.eqb_neq; lia). reflexivity.
        -- right. assert ((w <? cW cf)%nat = true) as -> by (apply Nat.ltb_lt; lia). lia.
      * exfalso. assert ((w <? cW cf)%nat = true) as Hlt by (apply Nat.ltb_lt; lia).
        rewrite Hlt in Hz. discriminate Hz.
  - (* BPop *) destruct p; discriminate Hz.
  - (* BRun *)
    cbn [bstep]. destruct (i <? e)%N eqn:Hie; [discriminate Hz|]. left. reflexivity.
  - (* BSig k *)
    cbn [bstep fst snd]. destruct k as [w|]; cbn [after].
    + right. cbn [zrank]. destruct (_ <? _)%nat; lia.
    + left. reflexivity.
Qed.

Lemma step_proj cf c t :
  fst (step (bstep cf) c (t, false)) = fst (bstep cf false t (fst c) (snd c t)) /\
  snd (step (bstep cf) c (t, false)) t = snd (bstep cf false t (fst c) (snd c t)).
Proof.
  unfold step. destruct (bstep cf false t (fst c) (snd c t)) as [g' l']. cbn [fst snd].
  split; [reflexivity|apply upd_same].
Qed.

Lemma settle_stop cf t fuel c : zero cf (fst c) t (snd c t) = false -> settle cf fuel t c = c.
Proof.
  intros H. destruct fuel as [|f]; cbn [settle]; [reflexivity|].
  unfold zero in H. rewrite H. reflexivity.
Qed.

Lemma settle_parks cf t : forall fuel c,
  (zrank cf (snd c t) <= fuel)%nat -> parked cf (settle cf fuel t c) t.
Proof.
  induction fuel as [|f IH]; intros c Hr; cbn [settle].
  - unfold parked. destruct (zero cf (fst c) t (snd c t)) eqn:Hz; [|reflexivity].
    apply zero_rank_pos in Hz. lia.
  - fold (zero cf (fst c) t (snd c t)). destruct (zero cf (fst c) t (snd c t)) eqn:Hz; [|exact Hz].
    pose proof (zero_rank_pos _ _ _ _ Hz) as Hp.
    destruct (zero_step cf t (fst c) (snd c t) Hz) as [Hn|Hlt].
    + (* the next point is a park point: settle stops there *)
      set (c1 := step (bstep cf) c (t, false)).
      assert (E1 := step_proj cf c t). fold c1 in E1.
      destruct E1 as [E1 E2].
      assert (Hz1 : zero cf (fst c1) t (snd c1 t) = false) by (rewrite E1, E2; exact Hn).
      unfold parked. fold c1. rewrite (settle_stop cf t f c1 Hz1). exact Hz1.
    + apply IH.
      match goal with |- (zrank cf ?x <= f)%nat =>
        replace x with (snd (bstep cf false t (fst c) (snd c t))) by (symmetry; apply step_proj) end.
      lia.
Qed.

Lemma zrank_le_3 cf l : (zrank cf l <= 3)%nat.
Proof. destruct l; cbn [zrank]; try lia. destruct (_ <? _)%nat; lia. Qed.

(* after every step of the acceptor the scheduled thread is parked at a real site or has finished *)
Lemma lock_step_parks cf c t : parked cf (lock_step cf c t) t.
Proof.
  unfold lock_step. apply settle_parks.
  eapply Nat.le_trans; [apply zrank_le_3|lia].
Qed.

(* a site-0 step touches none of the atomics of the real code (queues, join counter, exception latch,
   stored exception, spawned tasks, stored values) and makes no call: it only moves the program counter
   or, at BSig, records the completion *)
Lemma zero_step_frame cf t g l : zero cf g t l = true ->
  let g' := fst (bstep cf false t g l) in
  queues g' = queues g /\ remaining g' = remaining g /\ exc_flag g' = exc_flag g /\ exc g' = exc g /\
  spawned g' = spawned g /\ ts g' = ts g /\ calls g' = calls g /\ exits g' = exits g /\ fin g' = fin g.
Proof.
  unfold zero. intros Hz.
  destruct l; cbn [bsite bfinal negb] in Hz; rewrite ?andb_false_r, ?andb_true_r in Hz; try discriminate Hz.
  - cbn [bstep]. destruct (cW cf <=? w)%nat eqn:HW; [cbn; repeat split|].
    apply Nat.leb_gt in HW. destruct (Nat.eqb w (clocal cf)) eqn:Hl; [cbn; repeat split|].
    exfalso. assert ((w <? cW cf)%nat = true) as Hlt by (apply Nat.ltb_lt; lia).
    rewrite Hlt in Hz. discriminate Hz.
  - destruct p; discriminate Hz.
  - cbn [bstep]. destruct (i <? e)%N; [discriminate Hz|]. cbn. repeat split.
  - cbn. repeat split.
Qed.

(* whether a program point is a site-0 point does not depend on the shared state *)
Lemma zero_indep cf g g' t l : zero cf g t l = zero cf g' t l.
Proof. unfold zero. destruct l; cbn [bsite bfinal negb]; rewrite ?andb_false_r; reflexivity. Qed.

Lemma step_other cf c t t' : t' <> t ->
  snd (step (bstep cf) c (t, false)) t' = snd c t'.
Proof.
  intros Hne. unfold step. destruct (bstep cf false t (fst c) (snd c t)) as [g' l']. cbn [fst snd].
  now apply upd_other.
Qed.

Lemma settle_other cf t t' : t' <> t -> forall fuel c, snd (settle cf fuel t c) t' = snd c t'.
Proof.
  intros Hne. induction fuel as [|f IH]; intros c; cbn [settle]; [reflexivity|].
  destruct (_ && _); [|reflexivity]. rewrite IH. now apply step_other.
Qed.

Lemma lock_step_other cf c t t' : t' <> t -> snd (lock_step cf c t) t' = snd c t'.
Proof.
  intros Hne. unfold lock_step. rewrite (settle_other cf t t' Hne). now apply step_other.
Qed.

Definition all_parked (cf : cfg) (c : bshared * (nat -> bpc)) : Prop := forall t, parked cf c t.

Lemma lock_step_all_parked cf c t : all_parked cf c -> all_parked cf (lock_step cf c t).
Proof.
  intros H t'. destruct (Nat.eq_dec t' t) as [->|Hne]; [apply lock_step_parks|].
  unfold parked. rewrite (lock_step_other cf c t t' Hne).
  rewrite (zero_indep cf _ (fst c)). apply H.
Qed.

Lemma binit_all_parked cf : all_parked cf (binit cf).
Proof.
  intros t. unfold parked, binit, binit_locals. cbn [fst snd].
  destruct (Nat.eqb t (clocal cf)); unfold zero; cbn [bsite bfinal negb]; [reflexivity|].
  now rewrite andb_false_r.
Qed.

(* every thread of every state the trace acceptor reaches is parked at a real site or has finished *)
Lemma lock_trace_all_parked cf : forall sched c acc,
  all_parked cf c -> all_parked cf (snd (lock_trace cf sched c acc)).
Proof.
  induction sched as [|t r IH]; intros c acc H; cbn [lock_trace snd]; [exact H|].
  apply IH. now apply lock_step_all_parked.
Qed.

Lemma trace_all_parked cf sched t :
  let c := snd (lock_trace cf sched (binit cf) []) in
  zero cf (fst c) t (snd c t) = false.
Proof. exact (lock_trace_all_parked cf sched (binit cf) [] (binit_all_parked cf) t). Qed.

(* the sites the acceptor reports: for the k-th logged event the site of the acting thread in the state
   reached by the first k events *)
Fixpoint sites (cf : cfg) (sched : list nat) (c : bshared * (nat -> bpc)) : list nat :=
  match sched with
  | [] => []
  | t :: r => bsite cf (fst c) t (snd c t) :: sites cf r (lock_step cf c t)
  end.

Lemma lock_trace_sites cf : forall sched c acc,
  fst (lock_trace cf sched c acc) = rev acc ++ sites cf sched c.
Proof.
  induction sched as [|t r IH]; intros c acc; cbn [lock_trace sites fst].
  - now rewrite app_nil_r.
  - rewrite IH. cbn [rev]. now rewrite <- app_assoc.
Qed.

(* a reported site 0 means that the acting thread has finished (its task returned, or no task was ever
   spawned for it): the implementation logs only sites >= 1, so an event of such a thread is always
   rejected by the comparison, never accepted vacuously *)
Fixpoint sites_final (cf : cfg) (sched : list nat) (c : bshared * (nat -> bpc)) : Prop :=
  match sched with
  | [] => True
  | t :: r => (bsite cf (fst c) t (snd c t) = 0%nat -> bfinal (snd c t) = true) /\
              sites_final cf r (lock_step cf c t)
  end.

Lemma sites_final_holds cf : forall sched c, all_parked cf c -> sites_final cf sched c.
Proof.
  induction sched as [|t r IH]; intros c H; cbn [sites_final]; [exact I|]. split.
  - intros Hs. specialize (H t). unfold parked, zero in H. rewrite Hs in H. cbn in H.
    destruct (bfinal (snd c t)); [reflexivity|discriminate H].
  - apply IH. now apply lock_step_all_parked.
Qed.

Lemma trace_sites cf sched :
  fst (lock_trace cf sched (binit cf) []) = sites cf sched (binit cf) /\
  sites_final cf sched (binit cf).
Proof. split; [apply (lock_trace_sites cf sched (binit cf) [])|apply sites_final_holds, binit_all_parked]. Qed.
